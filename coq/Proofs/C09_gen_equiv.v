(* Tie (T) of property C09: every definition that harness/c09_py2coq.py regenerated from the CURRENT source
   text of deap/tools/crossover.py and deap/tools/mutation.py (coq/Gen/C09_gen.v, rewritten on every run)
   equals -- for every argument and every draw stream -- the hand-written model the C09 theorems are stated
   about; the theorems are then transferred to the regenerated definitions.
   Compiled on every run after regeneration.  The equivalences are proved by symbolic execution
   (`msim`, Proofs/C09_GenTac.v), not by conversion, so that renamed locals, hoisted subexpressions,
   reordered reads, comparisons written the other way round and a different threading of the loop state do
   not break them; a change of meaning does.
   A function the translator refused is an alias of the model in the generated file (listed in
   Gen.C09_gen.refused and in the evidence): for it the statements below say nothing new. *)
From Coq Require Import List ZArith QArith Bool Lia ZifyBool Permutation.
From DV Require Import Base.PyList Base.C09_Lists Model.C09_SeqOps Model.C09_PyRt.
From DV Require Import Proofs.C09_GenTac Proofs.C09_SeqOps Proofs.C09_Main Gen.C09_gen.
Import ListNotations.
Local Open Scope Z_scope.

(* ---- regenerated = model ---- *)
Lemma gen_cxOnePoint_eq {A} (p1 p2 : list A) : meq (gen_cxOnePoint p1 p2) (cxOnePoint p1 p2).
Proof. intro ds. unfold gen_cxOnePoint, cxOnePoint. msim. Qed.

Lemma gen_cxTwoPoint_eq {A} (p1 p2 : list A) : meq (gen_cxTwoPoint p1 p2) (cxTwoPoint p1 p2).
Proof. intro ds. unfold gen_cxTwoPoint, cxTwoPoint. msim. Qed.

Lemma gen_cxUniform_eq {A} (p1 p2 : list A) indpb : meq (gen_cxUniform p1 p2 indpb) (cxUniform p1 p2 indpb).
Proof. intro ds. unfold gen_cxUniform, cxUniform. msim. Qed.

Lemma gen_mutFlipBit_eq p indpb : meq (gen_mutFlipBit p indpb) (mutFlipBit p indpb).
Proof. intro ds. unfold gen_mutFlipBit, mutFlipBit. msim. Qed.

Lemma gen_mutUniformInt_eq p low up indpb : meq (gen_mutUniformInt p low up indpb) (mutUniformInt p low up indpb).
Proof. intro ds. unfold gen_mutUniformInt, mutUniformInt. msim. Qed.

Lemma gen_mutShuffleIndexes_eq {A} (p : list A) indpb : meq (gen_mutShuffleIndexes p indpb) (mutShuffleIndexes p indpb).
Proof. intro ds. unfold gen_mutShuffleIndexes, mutShuffleIndexes. msim. Qed.

Lemma gen_mutInversion_eq {A} (p : list A) : meq (gen_mutInversion p) (mutInversion p).
Proof. intro ds. unfold gen_mutInversion, mutInversion. msim. Qed.

Lemma gen_cxMessyOnePoint_eq {A} (p1 p2 : list A) : meq (gen_cxMessyOnePoint p1 p2) (cxMessyOnePoint p1 p2).
Proof. intro ds. unfold gen_cxMessyOnePoint, cxMessyOnePoint. msim. Qed.

Lemma gen_cxESTwoPoint_eq {A B} (ind1 ind2 : list A * list B) : meq (gen_cxESTwoPoint ind1 ind2) (cxESTwoPoint ind1 ind2).
Proof. intro ds. unfold gen_cxESTwoPoint, cxESTwoPoint. msim. Qed.

Lemma gen_cxPartialyMatched_eq p1 p2 : meq (gen_cxPartialyMatched p1 p2) (cxPartialyMatched p1 p2).
Proof. intro ds. unfold gen_cxPartialyMatched, cxPartialyMatched. msim. Qed.

Lemma gen_cxUniformPartialyMatched_eq p1 p2 indpb :
  meq (gen_cxUniformPartialyMatched p1 p2 indpb) (cxUniformPartialyMatched p1 p2 indpb).
Proof. intro ds. unfold gen_cxUniformPartialyMatched, cxUniformPartialyMatched. msim. Qed.

(* the model keeps (ind1, k1) and (ind2, k2) as two pairs; the source threads ind1, ind2, k1, k2 *)
Lemma gen_cxOrdered_eq p1 p2 : meq (gen_cxOrdered p1 p2) (cxOrdered p1 p2).
Proof.
  intro ds. unfold gen_cxOrdered, cxOrdered.
  msim_with ltac:(reshape_by (fun s : (list Z * Z) * (list Z * Z) =>
                                let '((i1, k1), (i2, k2)) := s in (i1, i2, k1, k2))).
Qed.

Lemma source_is_model :
  (forall (A : Type) (p1 p2 : list A), meq (gen_cxOnePoint p1 p2) (cxOnePoint p1 p2)) /\
  (forall (A : Type) (p1 p2 : list A), meq (gen_cxTwoPoint p1 p2) (cxTwoPoint p1 p2)) /\
  (forall (A : Type) (p1 p2 : list A) indpb, meq (gen_cxUniform p1 p2 indpb) (cxUniform p1 p2 indpb)) /\
  (forall p indpb, meq (gen_mutFlipBit p indpb) (mutFlipBit p indpb)) /\
  (forall p low up indpb, meq (gen_mutUniformInt p low up indpb) (mutUniformInt p low up indpb)) /\
  (forall (A : Type) (p : list A) indpb, meq (gen_mutShuffleIndexes p indpb) (mutShuffleIndexes p indpb)) /\
  (forall (A : Type) (p : list A), meq (gen_mutInversion p) (mutInversion p)) /\
  (forall (A : Type) (p1 p2 : list A), meq (gen_cxMessyOnePoint p1 p2) (cxMessyOnePoint p1 p2)) /\
  (forall (A B : Type) (ind1 ind2 : list A * list B), meq (gen_cxESTwoPoint ind1 ind2) (cxESTwoPoint ind1 ind2)) /\
  (forall p1 p2, meq (gen_cxPartialyMatched p1 p2) (cxPartialyMatched p1 p2)) /\
  (forall p1 p2 indpb, meq (gen_cxUniformPartialyMatched p1 p2 indpb) (cxUniformPartialyMatched p1 p2 indpb)) /\
  (forall p1 p2, meq (gen_cxOrdered p1 p2) (cxOrdered p1 p2)).
Proof.
  refine (conj _ (conj _ (conj _ (conj _ (conj _ (conj _ (conj _ (conj _ (conj _ (conj _ (conj _ _))))))))))); intros.
  - apply gen_cxOnePoint_eq.
  - apply gen_cxTwoPoint_eq.
  - apply gen_cxUniform_eq.
  - apply gen_mutFlipBit_eq.
  - apply gen_mutUniformInt_eq.
  - apply gen_mutShuffleIndexes_eq.
  - apply gen_mutInversion_eq.
  - apply gen_cxMessyOnePoint_eq.
  - apply gen_cxESTwoPoint_eq.
  - apply gen_cxPartialyMatched_eq.
  - apply gen_cxUniformPartialyMatched_eq.
  - apply gen_cxOrdered_eq.
Qed.

(* ---- the C09 theorems on the regenerated definitions ---- *)
Ltac transfer E L :=
  intros;
  first [ eapply always_meq; [apply E | eapply L; eassumption]
        | eapply only_raises_meq; [apply E | eapply L; eassumption]
        | rewrite (run_meq _ _ (E _ _ _ _)); eapply L; eassumption ].

Lemma gen_one_point_thm : forall (A : Type) (p1 p2 : list A), 2 <= Z.min (zlen p1) (zlen p2) ->
  always (gen_cxOnePoint p1 p2) (fun c =>
    Permutation (fst c ++ snd c) (p1 ++ p2) /\
    length (fst c) = length p2 /\ length (snd c) = length p1 /\
    exists cx : nat, (1 <= cx < Nat.min (length p1) (length p2))%nat /\
      forall i, ((i < cx)%nat -> kept_at p1 p2 (fst c) (snd c) i) /\
                ((cx <= i)%nat -> swapped_at p1 p2 (fst c) (snd c) i)).
Proof. transfer (@gen_cxOnePoint_eq) (@one_point_thm). Qed.

Lemma gen_cxOnePoint_guard : forall (A : Type) (p1 p2 : list A),
  Z.min (zlen p1) (zlen p2) < 2 -> only_raises (gen_cxOnePoint p1 p2) ValueError.
Proof. transfer (@gen_cxOnePoint_eq) (@DV.Proofs.C09_SeqOps.cxOnePoint_guard). Qed.

Lemma gen_two_point_thm : forall (A : Type) (p1 p2 : list A), 2 <= Z.min (zlen p1) (zlen p2) ->
  always (gen_cxTwoPoint p1 p2) (fun c =>
    Permutation (fst c ++ snd c) (p1 ++ p2) /\
    length (fst c) = length p1 /\ length (snd c) = length p2 /\
    exists a b : nat, (1 <= a < b)%nat /\ (b <= Nat.min (length p1) (length p2))%nat /\
      forall i, ((a <= i < b)%nat -> swapped_at p1 p2 (fst c) (snd c) i) /\
                (~ (a <= i < b)%nat -> kept_at p1 p2 (fst c) (snd c) i)).
Proof. transfer (@gen_cxTwoPoint_eq) (@two_point_thm). Qed.

Lemma gen_cxTwoPoint_guard : forall (A : Type) (p1 p2 : list A),
  Z.min (zlen p1) (zlen p2) < 2 -> only_raises (gen_cxTwoPoint p1 p2) ValueError.
Proof. transfer (@gen_cxTwoPoint_eq) (@DV.Proofs.C09_SeqOps.cxTwoPoint_guard). Qed.

Lemma gen_uniform_thm : forall (A : Type) (p1 p2 : list A) (indpb : Q),
  always (gen_cxUniform p1 p2 indpb) (fun c =>
    Permutation (fst c ++ snd c) (p1 ++ p2) /\
    length (fst c) = length p1 /\ length (snd c) = length p2 /\
    forall i, locus_ok p1 p2 (fst c) (snd c) i /\
              ((Nat.min (length p1) (length p2) <= i)%nat -> kept_at p1 p2 (fst c) (snd c) i)).
Proof. transfer (@gen_cxUniform_eq) (@uniform_thm). Qed.

Lemma gen_messy_thm : forall (A : Type) (p1 p2 : list A),
  always (gen_cxMessyOnePoint p1 p2) (fun c =>
    Permutation (fst c ++ snd c) (p1 ++ p2) /\
    exists a1 a2 : nat, (a1 <= length p1)%nat /\ (a2 <= length p2)%nat /\
      fst c = firstn a1 p1 ++ skipn a2 p2 /\ snd c = firstn a2 p2 ++ skipn a1 p1 /\
      (length (fst c) = a1 + (length p2 - a2))%nat /\ (length (snd c) = a2 + (length p1 - a1))%nat).
Proof. transfer (@gen_cxMessyOnePoint_eq) (@messy_thm). Qed.

Lemma gen_es_two_point_thm : forall (A B : Type) (g1 g2 : list A) (s1 s2 : list B),
  2 <= Z.min (zlen g1) (zlen g2) -> length s1 = length g1 -> length s2 = length g2 ->
  always (gen_cxESTwoPoint (g1, s1) (g2, s2)) (fun c =>
    let cg1 := fst (fst c) in let cs1 := snd (fst c) in
    let cg2 := fst (snd c) in let cs2 := snd (snd c) in
    length cg1 = length g1 /\ length cs1 = length s1 /\ length cg2 = length g2 /\ length cs2 = length s2 /\
    Permutation (combine cg1 cs1 ++ combine cg2 cs2) (combine g1 s1 ++ combine g2 s2) /\
    exists a b : nat, (1 <= a < b)%nat /\ (b <= Nat.min (length g1) (length g2))%nat /\
      forall i, ((a <= i < b)%nat -> swapped_at (combine g1 s1) (combine g2 s2) (combine cg1 cs1) (combine cg2 cs2) i) /\
                (~ (a <= i < b)%nat -> kept_at (combine g1 s1) (combine g2 s2) (combine cg1 cs1) (combine cg2 cs2) i)).
Proof. transfer (@gen_cxESTwoPoint_eq) (@es_two_point_thm). Qed.

Lemma gen_es_two_point_guard : forall (A B : Type) (ind1 ind2 : list A * list B),
  Z.min (zlen (fst ind1)) (zlen (fst ind2)) < 2 -> only_raises (gen_cxESTwoPoint ind1 ind2) ValueError.
Proof. transfer (@gen_cxESTwoPoint_eq) (@es_two_point_guard). Qed.

Lemma gen_pmx_thm : forall p1 p2 : list Z,
  is_perm p1 -> is_perm p2 -> length p1 = length p2 -> (1 <= length p1)%nat ->
  always (gen_cxPartialyMatched p1 p2) (fun c =>
    is_perm (fst c) /\ is_perm (snd c) /\ Permutation (fst c) p1 /\ Permutation (snd c) p2).
Proof. transfer (@gen_cxPartialyMatched_eq) (@pmx_thm). Qed.

Lemma gen_upmx_thm : forall (p1 p2 : list Z) (indpb : Q),
  is_perm p1 -> is_perm p2 -> length p1 = length p2 ->
  always (gen_cxUniformPartialyMatched p1 p2 indpb) (fun c =>
    is_perm (fst c) /\ is_perm (snd c) /\ Permutation (fst c) p1 /\ Permutation (snd c) p2).
Proof. transfer (@gen_cxUniformPartialyMatched_eq) (@upmx_thm). Qed.

Lemma gen_ordered_thm : forall p1 p2 : list Z,
  is_perm p1 -> is_perm p2 -> length p1 = length p2 -> (2 <= length p1)%nat ->
  always (gen_cxOrdered p1 p2) (fun c =>
    (is_perm (fst c) /\ is_perm (snd c) /\ Permutation (fst c) p1 /\ Permutation (snd c) p2) /\
    (* and on the segment [a, b] each child holds the other parent's genes *)
    exists a b : nat, (a < b < length p1)%nat /\
      forall i, (a <= i <= b)%nat -> swapped_at p1 p2 (fst c) (snd c) i).
Proof. transfer (@gen_cxOrdered_eq) (@ordered_thm). Qed.

Lemma gen_ordered_guard : forall p1 p2 : list Z,
  Z.min (zlen p1) (zlen p2) < 2 -> only_raises (gen_cxOrdered p1 p2) ValueError.
Proof. transfer (@gen_cxOrdered_eq) (@ordered_guard). Qed.

Lemma gen_shuffle_thm : forall (A : Type) (p : list A) (indpb : Q), zlen p <> 1 ->
  always (gen_mutShuffleIndexes p indpb) (fun c => Permutation c p /\ length c = length p).
Proof. transfer (@gen_mutShuffleIndexes_eq) (@shuffle_thm). Qed.

Lemma gen_shuffle_perm_thm : forall (p : list Z) (indpb : Q), is_perm p -> zlen p <> 1 ->
  always (gen_mutShuffleIndexes p indpb) (fun c => is_perm c /\ Permutation c p).
Proof. transfer (@gen_mutShuffleIndexes_eq) (@shuffle_perm_thm). Qed.

Lemma gen_inversion_thm : forall (A : Type) (p : list A),
  always (gen_mutInversion p) (fun c =>
    Permutation c p /\ length c = length p /\
    exists s e : nat, (s <= e <= length p)%nat /\
      c = firstn s p ++ rev (firstn (e - s) (skipn s p)) ++ skipn e p).
Proof. transfer (@gen_mutInversion_eq) (@inversion_thm). Qed.

Lemma gen_inversion_perm_thm : forall p : list Z, is_perm p ->
  always (gen_mutInversion p) (fun c => is_perm c /\ Permutation c p).
Proof. transfer (@gen_mutInversion_eq) (@inversion_perm_thm). Qed.

Lemma gen_flip_bit_thm : forall (p : list gene) (indpb : Q),
  always (gen_mutFlipBit p indpb) (fun c =>
    length c = length p /\
    forall i g, nth_error p i = Some g -> nth_error c i = Some g \/ nth_error c i = Some (flip_gene g)).
Proof. transfer (@gen_mutFlipBit_eq) (@flip_bit_thm). Qed.

Lemma gen_uniform_int_thm : forall (p : list Z) (low up : bound) (indpb : Q),
  bound_covers low (length p) -> bound_covers up (length p) ->
  (forall i, (i < length p)%nat -> bound_at low i <= bound_at up i) ->
  always (gen_mutUniformInt p low up indpb) (fun c =>
    length c = length p /\
    forall i x, nth_error p i = Some x ->
      exists y, nth_error c i = Some y /\ (y = x \/ bound_at low i <= y <= bound_at up i)).
Proof. transfer (@gen_mutUniformInt_eq) (@uniform_int_thm). Qed.

Lemma gen_uniform_int_guard : forall (p : list Z) (low up : bound) (indpb : Q),
  ~ bound_covers low (length p) \/ ~ bound_covers up (length p) ->
  forall ds, run (gen_mutUniformInt p low up indpb) ds = Raise IndexError.
Proof. transfer (@gen_mutUniformInt_eq) (@uniform_int_guard). Qed.
