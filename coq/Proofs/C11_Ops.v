(* C11 — slices of flattened trees, and the mutation operators as "replace the subtree in a
   one-hole context". *)
From Coq Require Import List ZArith NArith Bool Lia.
From DV Require Import Model.C11_GPTree Proofs.C11_Tree Proofs.C11_Gen.
Import ListNotations.
Local Open Scope Z_scope.

(* ------------------------------------------------------------------ list facts *)
Lemma firstn_pre {A} (pre r : list A) : firstn (length pre) (pre ++ r) = pre.
Proof. rewrite firstn_app, Nat.sub_diag, firstn_all. cbn. apply app_nil_r. Qed.
Lemma skipn_pre {A} (pre r : list A) : skipn (length pre) (pre ++ r) = r.
Proof. rewrite skipn_app, Nat.sub_diag, skipn_all. reflexivity. Qed.
Lemma skipn_pre_mid {A} (pre mid post : list A) n :
  n = (length pre + length mid)%nat -> skipn n (pre ++ mid ++ post) = post.
Proof. intros ->. rewrite app_assoc, <- app_length. apply skipn_pre. Qed.
Lemma set_nth_mid {A} (pre : list A) x r v : set_nth (pre ++ x :: r) (length pre) v = pre ++ v :: r.
Proof. induction pre; cbn; congruence. Qed.
Lemma nth_error_mid {A} (pre : list A) x r : nth_error (pre ++ x :: r) (length pre) = Some x.
Proof. rewrite nth_error_app2, Nat.sub_diag; auto. Qed.

Lemma tys_eqb_eq a b : tys_eqb a b = true -> a = b.
Proof.
  revert b. induction a as [|x a IH]; destruct b as [|y b]; cbn; try discriminate; auto.
  intro H. apply andb_prop in H. destruct H as [H1 H2]. apply N.eqb_eq in H1. f_equal; auto.
Qed.

(* enumerate *)
Lemma in_combine_seq {A} : forall (l : list A) s i x,
  In (i, x) (combine (seq s (length l)) l) -> (s <= i)%nat /\ nth_error l (i - s) = Some x.
Proof.
  induction l as [|a l IH]; intros s i x H; [contradiction|].
  cbn [length seq combine] in H. destruct H as [H|H].
  - inversion H; subst. rewrite Nat.sub_diag. auto.
  - apply IH in H. destruct H as [H1 H2]. split; [lia|].
    replace (i - s)%nat with (S (i - S s)) by lia. exact H2.
Qed.
Lemma in_enumerate {A} (l : list A) i x : In (i, x) (enumerate l) -> nth_error l i = Some x.
Proof. intro H. apply in_combine_seq in H. rewrite Nat.sub_0_r in H. tauto. Qed.
Lemma in_tl_enumerate {A} (l : list A) i x :
  In (i, x) (tl (enumerate l)) -> (1 <= i)%nat /\ nth_error l i = Some x.
Proof.
  destruct l as [|a l]; [contradiction|]. unfold enumerate. cbn [length seq combine tl].
  intro H. apply in_combine_seq in H. destruct H as [H1 H2]. split; auto.
  replace i with (S (i - 1)) by lia. exact H2.
Qed.

Lemma positions_spec t args i : In i (positions t args) -> nth_error args i = Some t.
Proof.
  unfold positions. intro H. apply in_map_iff in H. destruct H as ([j a] & <- & H).
  apply filter_In in H. destruct H as [H E]. cbn in *. apply N.eqb_eq in E. subst.
  apply in_enumerate. exact H.
Qed.

(* ------------------------------------------------------------------ arity bookkeeping of __setitem__ *)
Definition astep (t : Z) (n : node) : Z := t + zarity n - 1.

Lemma arity_sum_tree : forall t x, wft t -> fold_left astep (flatten t) x = x - 1.
Proof.
  induction t as [n ks IH] using tree_ind'. intros x Hw.
  apply wft_unfold in Hw. destruct Hw as [HL HF].
  cbn [flatten fold_left]. fold (ff ks).
  assert (G : forall y, fold_left astep (ff ks) y = y - Z.of_nat (length ks)).
  { clear HL. induction ks as [|k ks IHks]; intro z; [cbn; lia|].
    inversion IH as [|? ? Hk IH']; subst. inversion HF; subst.
    rewrite ff_cons, fold_left_app. rewrite Hk by auto. rewrite IHks by auto. cbn [length]. lia. }
  rewrite G. unfold astep, zarity. rewrite <- HL. lia.
Qed.

(* ------------------------------------------------------------------ slices of a plugged tree *)
Lemma nth_plug c u : nth_error (flatten (plug c u)) (length (cpre c)) = Some (root u).
Proof. rewrite flatten_plug. destruct u as [n ks]. cbn [flatten]. apply nth_error_mid. Qed.

Lemma search_plug c u : wft (plug c u) ->
  search_subtree (flatten (plug c u)) (length (cpre c)) =
  Ok (length (cpre c), (length (cpre c) + size u)%nat).
Proof.
  intro Hw. rewrite flatten_plug. apply search_subtree_flat. apply (wft_plug c u Hw).
Qed.

Lemma get_slice_plug c u :
  get_slice (flatten (plug c u)) (length (cpre c)) (length (cpre c) + size u) = flatten u.
Proof.
  unfold get_slice. rewrite flatten_plug, skipn_pre.
  replace (length (cpre c) + size u - length (cpre c))%nat with (length (flatten u)) by (rewrite length_flatten; lia).
  apply firstn_pre.
Qed.

Lemma set_slice_flat l b e val out :
  set_slice l b e val = Ok out -> out = firstn b l ++ val ++ skipn (Nat.max b e) l.
Proof.
  unfold set_slice. destruct (length l <=? b)%nat; [discriminate|]. destruct val as [|v0 vr]; [discriminate|].
  destruct (_ =? 0); [|discriminate]. intro H; inversion H; reflexivity.
Qed.

Lemma set_slice_plug c u s : wft s ->
  set_slice (flatten (plug c u)) (length (cpre c)) (length (cpre c) + size u) (flatten s) =
  Ok (flatten (plug c s)).
Proof.
  intro Hs. unfold set_slice.
  replace (length (flatten (plug c u)) <=? length (cpre c))%nat with false.
  2:{ symmetry. apply Nat.leb_gt. rewrite flatten_plug, !app_length, length_flatten.
      pose proof (size_pos u). lia. }
  pose proof (arity_sum_tree s 1 Hs) as HA.
  destruct s as [n ks]. cbn [flatten] in *. cbn [fold_left] in HA. unfold astep at 2 in HA.
  replace (1 + zarity n - 1) with (zarity n) in HA by lia. fold astep. unfold astep in HA |- *.
  rewrite HA. cbn [Z.eqb Z.sub Z.add Z.opp Z.pos_sub]. replace (1 - 1 =? 0) with true by reflexivity.
  rewrite !flatten_plug. rewrite firstn_pre. cbn [flatten].
  rewrite Nat.max_r by lia.
  rewrite (skipn_pre_mid (cpre c) (flatten u) (cpost c)) by (rewrite length_flatten; reflexivity).
  reflexivity.
Qed.

Lemma cpre_hole c : (1 <= length (cpre c))%nat -> c <> Hole.
Proof. destruct c; cbn; [lia|discriminate]. Qed.
Lemma root_plug c u s : c <> Hole -> root (plug c s) = root (plug c u).
Proof. destruct c; [congruence|reflexivity]. Qed.

Lemma Forall2_nth_split {A B} (R : A -> B -> Prop) : forall l l' i b,
  Forall2 R l l' -> nth_error l' i = Some b ->
  exists la a lb, l = la ++ a :: lb /\ length la = i /\ R a b.
Proof.
  intros l l' i b H. revert i. induction H as [|x y l l' Hxy H IH]; intros i Hi.
  - destruct i; discriminate.
  - destruct i as [|i]; cbn in Hi.
    + inversion Hi; subst. exists [], x, l. auto.
    + destruct (IH _ Hi) as (la & a & lb & -> & <- & Hr). exists (x :: la), a, lb. auto.
Qed.

(* ------------------------------------------------------------------ mutations *)
Section Mut.
  Variable sub : ty -> ty -> bool.
  Hypothesis sub_refl : forall a, sub a a = true.
  Hypothesis sub_trans : forall a b c, sub a b = true -> sub b c = true -> sub a c = true.
  Variable ps : pset.
  Hypothesis Hps : pset_ok sub ps.

  (* a list that is the prefix form of a complete tree well typed at `top` *)
  Definition wt (top : ty) (l : list node) : Prop := exists t, l = flatten t /\ typed sub top t.

  Lemma index_decompose top t i : typed sub top t -> (i < length (flatten t))%nat ->
    exists c u e, t = plug c u /\ length (cpre c) = i /\ wft (plug c u) /\ typed sub e u /\
      (forall s, typed sub e s -> typed sub top (plug c s)).
  Proof.
    intros Ht Hi. rewrite length_flatten in Hi.
    destruct (decompose t i Hi) as (c & u & -> & Hc).
    destruct (typed_plug sub top c u Ht) as (e & Hu & Hs).
    exists c, u, e. repeat split; auto. eapply typed_wft; eauto.
  Qed.

  (* replacing one node by a node with the same argument types and a compatible return type *)
  Lemma replace_node top t i n n' :
    typed sub top t -> nth_error (flatten t) i = Some n ->
    nargs n' = nargs n -> (forall e, sub (nret n) e = true -> sub (nret n') e = true) ->
    exists t', set_nth (flatten t) i n' = flatten t' /\ typed sub top t' /\ size t' = size t.
  Proof.
    intros Ht Hn Ha Hr.
    assert (Hi : (i < length (flatten t))%nat) by (apply nth_error_Some; congruence).
    destruct (index_decompose top t i Ht Hi) as (c & u & e & -> & Hc & Hw & Hu & Hs).
    rewrite <- Hc in Hn. rewrite nth_plug in Hn. inversion Hn; subst n. clear Hn.
    destruct u as [m kk]. cbn [root] in *.
    exists (plug c (T n' kk)). split; [|split].
    - rewrite !flatten_plug. cbn [flatten]. rewrite <- Hc. apply set_nth_mid.
    - apply Hs. apply typed_unfold in Hu. destruct Hu as [S1 S2]. apply typed_unfold.
      rewrite Ha. auto.
    - pose proof (size_plug c (T m kk) (T n' kk)). cbn [size] in *. lia.
  Qed.

  Lemma set_item_ok l i v out : set_item l i v = Ok out -> out = set_nth l i v.
  Proof.
    unfold set_item. destruct (nth_error l i); [|discriminate].
    destruct (Nat.eqb _ _); [|discriminate]. intro H; inversion H; reflexivity.
  Qed.

  (* mutUniform, for any replacement generator that yields a tree typed at the requested type *)
  Theorem mut_uniform_closed top t g ds out ds' :
    0 <= g_min g -> typed sub top t ->
    mut_uniform ps g (flatten t) ds = Ok (out, ds') -> wt top out.
  Proof.
    intros Hg Ht H. unfold mut_uniform in H.
    apply bind_ok in H. destruct H as (zi & ds1 & Hz & H).
    apply d_randrange_ok in Hz. destruct Hz as [Hz _]. unfold zlen in Hz.
    destruct (index_decompose top t (Z.to_nat zi) Ht) as (c & u & e & -> & Hc & Hw & Hu & Hs); [lia|].
    rewrite <- Hc in H. apply bind_ok in H. destruct H as (s & ds2 & Hsr & H).
    apply lift_ok in Hsr. destruct Hsr as [Hsr ->]. rewrite search_plug in Hsr by auto.
    inversion Hsr; subst s. cbn [fst snd] in H. rewrite nth_plug in H.
    apply bind_ok in H. destruct H as (new & ds3 & Hnew & H).
    apply lift_ok in H. destruct H as [H ->].
    apply gen_expr_typed with (sub := sub) in Hnew; auto. destruct Hnew as (k & -> & Hk).
    rewrite set_slice_plug in H by (eapply typed_wft; eauto). inversion H; subst out.
    exists (plug c k). split; auto. apply Hs. eapply typed_sub; eauto. eapply typed_root; eauto.
  Qed.

  Theorem mut_node_replacement_closed top t ds out ds' :
    typed sub top t ->
    mut_node_replacement ps (flatten t) ds = Ok (out, ds') ->
    exists t', out = flatten t' /\ typed sub top t' /\ size t' = size t.
  Proof.
    intros Ht H. unfold mut_node_replacement in H.
    destruct (length (flatten t) <? 2)%nat.
    { apply ret_ok in H. destruct H; subst. eauto. }
    apply bind_ok in H. destruct H as (zi & ds1 & Hz & H).
    destruct (nth_error (flatten t) (Z.to_nat zi)) as [nd|] eqn:Hn; [|discriminate].
    destruct (Nat.eqb (arity nd) 0) eqn:Ear.
    - apply bind_ok in H. destruct H as (term & ds2 & Hch & H).
      apply bind_ok in H. destruct H as (term' & ds3 & Hin & H).
      apply lift_ok in H. destruct H as [H ->]. apply set_item_ok in H. subst out.
      apply d_choice_ok in Hch. destruct Hch as [Hmem _].
      apply instantiate_ok in Hin. destruct Hin as [(v & ->) _].
      destruct Hps as [_ Hterm]. destruct (Hterm _ _ Hmem) as [S1 S2].
      pose proof (set_val_fields term v) as (F1 & F2 & _).
      apply (replace_node top t _ nd); auto.
      + rewrite F1, S2. apply Nat.eqb_eq in Ear. unfold arity in Ear.
        destruct (nargs nd); [reflexivity|discriminate].
      + intros e He. rewrite F2. eauto.
    - apply bind_ok in H. destruct H as (p & ds2 & Hch & H).
      apply lift_ok in H. destruct H as [H ->]. apply set_item_ok in H. subst out.
      apply d_choice_ok in Hch. destruct Hch as [Hmem _].
      apply filter_In in Hmem. destruct Hmem as [Hmem Eargs]. apply tys_eqb_eq in Eargs.
      destruct Hps as [Hprim _]. destruct (Hprim _ _ Hmem) as [S1 S2].
      apply (replace_node top t _ nd); auto. intros e He. eauto.
  Qed.

  Lemma eph_fold_closed top : forall idxs l ds out ds',
    wt top l -> eph_fold l idxs ds = Ok (out, ds') ->
    exists t', out = flatten t' /\ typed sub top t' /\ length out = length l.
  Proof.
    induction idxs as [|i r IH]; intros l ds out ds' (t & -> & Ht) H.
    - apply ret_ok in H. destruct H; subst. eauto.
    - cbn [eph_fold] in H. destruct (nth_error (flatten t) i) as [n|] eqn:Hn; [|discriminate].
      apply bind_ok in H. destruct H as (v & ds1 & _ & H).
      apply bind_ok in H. destruct H as (l' & ds2 & Hl' & H).
      apply lift_ok in Hl'. destruct Hl' as [Hl' ->]. apply set_item_ok in Hl'. subst l'.
      pose proof (set_val_fields n v) as (F1 & F2 & _).
      destruct (replace_node top t i n (set_val n v) Ht Hn F1) as (t1 & E1 & Ht1 & Hs1).
      { intros e He. rewrite F2. exact He. }
      rewrite E1 in H. destruct (IH _ _ _ _ (ex_intro _ t1 (conj eq_refl Ht1)) H) as (t' & -> & Ht' & Hlen).
      exists t'. repeat split; auto. rewrite Hlen, !length_flatten. exact Hs1.
  Qed.

  Theorem mut_ephemeral_closed top t mode ds out ds' :
    typed sub top t ->
    mut_ephemeral mode (flatten t) ds = Ok (out, ds') ->
    exists t', out = flatten t' /\ typed sub top t' /\ size t' = size t.
  Proof.
    intros Ht H. unfold mut_ephemeral in H. destruct mode; [| |discriminate].
    - destruct (map fst (filter (fun p => neph (snd p)) (enumerate (flatten t)))) as [|i0 r0].
      { apply ret_ok in H. destruct H; subst. eauto. }
      apply bind_ok in H. destruct H as (idxs & ds1 & _ & H).
      apply eph_fold_closed with (top := top) in H; [|exists t; auto].
      destruct H as (t' & -> & Ht' & Hl). rewrite !length_flatten in Hl. eauto.
    - destruct (map fst (filter (fun p => neph (snd p)) (enumerate (flatten t)))) as [|i0 r0].
      { apply ret_ok in H. destruct H; subst. eauto. }
      apply bind_ok in H. destruct H as (idxs & ds1 & _ & H).
      apply eph_fold_closed with (top := top) in H; [|exists t; auto].
      destruct H as (t' & -> & Ht' & Hl). rewrite !length_flatten in Hl. eauto.
  Qed.

  (* mutInsert *)
  Lemma insert_fill_spec u position : forall args i ds body ds',
    insert_fill ps (flatten u) position i args ds = Ok (body, ds') ->
    (forall a, (i <= position)%nat -> nth_error args (position - i) = Some a -> typed sub a u) ->
    exists kk, body = ff kk /\ Forall2 (fun k a => typed sub a k) kk args /\
      ((i <= position < i + length args)%nat -> (size u <= sizes kk)%nat).
  Proof.
    induction args as [|a r IH]; intros i ds body ds' H Hpos.
    - apply ret_ok in H. destruct H; subst. exists []. split; [reflexivity|]. split; [constructor|].
      cbn. lia.
    - cbn [insert_fill] in H. destruct (Nat.eqb i position) eqn:E.
      + apply Nat.eqb_eq in E. subst i.
        apply bind_ok in H. destruct H as (rest & ds1 & Hr & H). apply ret_ok in H. destruct H; subst.
        destruct (IH _ _ _ _ Hr) as (kk & -> & Hkk & _).
        { intros a' Hle. lia. }
        exists (u :: kk). split; [reflexivity|]. split.
        * constructor; auto. apply Hpos; [lia|]. rewrite Nat.sub_diag. reflexivity.
        * intros _. rewrite sizes_cons. lia.
      + apply Nat.eqb_neq in E.
        apply bind_ok in H. destruct H as (term & ds1 & Hch & H).
        apply bind_ok in H. destruct H as (term' & ds2 & Hin & H).
        apply bind_ok in H. destruct H as (rest & ds3 & Hr & H). apply ret_ok in H. destruct H; subst.
        apply d_choice_ok in Hch. destruct Hch as [Hmem _].
        apply instantiate_ok in Hin. destruct Hin as [(v & ->) _].
        destruct Hps as [_ Hterm]. destruct (Hterm _ _ Hmem) as [S1 S2].
        pose proof (set_val_fields term v) as (F1 & F2 & _).
        destruct (IH _ _ _ _ Hr) as (kk & -> & Hkk & Hsz).
        { intros a' Hle Hn. apply Hpos; [lia|].
          replace (position - i)%nat with (S (position - S i)) by lia. exact Hn. }
        exists (T (set_val term v) [] :: kk). split; [reflexivity|]. split.
        * constructor; auto. apply typed_unfold. rewrite F1, F2, S2. auto.
        * intros Hrange. rewrite sizes_cons. cbn [length] in Hrange.
          assert (S i <= position < S i + length r)%nat by lia. specialize (Hsz H). lia.
  Qed.

  Theorem mut_insert_closed top t ds out ds' :
    typed sub top t ->
    mut_insert ps (flatten t) ds = Ok (out, ds') ->
    exists t', out = flatten t' /\ typed sub top t' /\ (size t <= size t')%nat.
  Proof.
    intros Ht H. unfold mut_insert in H.
    apply bind_ok in H. destruct H as (zi & ds1 & Hz & H).
    apply d_randrange_ok in Hz. destruct Hz as [Hz _]. unfold zlen in Hz.
    destruct (index_decompose top t (Z.to_nat zi) Ht) as (c & u & e & -> & Hc & Hw & Hu & Hs); [lia|].
    rewrite <- Hc in H. rewrite nth_plug in H.
    apply bind_ok in H. destruct H as (s & ds2 & Hsr & H).
    apply lift_ok in Hsr. destruct Hsr as [Hsr ->]. rewrite search_plug in Hsr by auto.
    inversion Hsr; subst s. cbn [fst snd] in H.
    destruct (filter (fun p => mem_ty (nret (root u)) (nargs p)) (prims ps (nret (root u)))) as [|c0 cr] eqn:Ecands.
    { apply ret_ok in H. destruct H; subst. exists (plug c u). auto. }
    rewrite <- Ecands in H.
    apply bind_ok in H. destruct H as (new_node & ds3 & Hch & H).
    apply bind_ok in H. destruct H as (position & ds4 & Hpos & H).
    apply bind_ok in H. destruct H as (body & ds5 & Hfill & H).
    apply lift_ok in H. destruct H as [H ->].
    apply d_choice_ok in Hch. destruct Hch as [Hmem _].
    apply filter_In in Hmem. destruct Hmem as [Hmem _].
    apply d_choice_ok in Hpos. destruct Hpos as [Hpos _]. apply positions_spec in Hpos.
    rewrite get_slice_plug in Hfill.
    assert (Hself : typed sub (nret (root u)) u).
    { eapply typed_weaken; eauto. }
    destruct (insert_fill_spec u position _ _ _ _ _ Hfill) as (kk & -> & Hkk & Hsz).
    { intros a _ Hn. rewrite Nat.sub_0_r in Hn. rewrite Hpos in Hn. inversion Hn; subst. exact Hself. }
    destruct Hps as [Hprim _]. destruct (Hprim _ _ Hmem) as [S1 S2].
    assert (Hnew : typed sub e (T new_node kk)).
    { apply typed_unfold. split; auto. eapply sub_trans; eauto. eapply typed_root; eauto. }
    change (new_node :: ff kk) with (flatten (T new_node kk)) in H.
    rewrite set_slice_plug in H by (eapply typed_wft; eauto). inversion H; subst out.
    exists (plug c (T new_node kk)). split; auto. split; auto.
    pose proof (size_plug c u (T new_node kk)). cbn [size] in *. fold (sizes kk) in *.
    assert (position < length (nargs new_node))%nat by (apply nth_error_Some; congruence).
    assert (size u <= sizes kk)%nat by (apply Hsz; lia). lia.
  Qed.

  (* mutShrink *)
  Lemma shrink_walk_S l r k s :
    shrink_walk l r (S k) s =
    match search_subtree l r with
    | Err e => Err e
    | Ok (b, e) => let s' := get_slice l b e in shrink_walk l (r + length s') k s'
    end.
  Proof. reflexivity. Qed.

  Lemma shrink_walk_spec : forall kl pre k kr post sub0,
    Forall wft (kl ++ k :: kr) ->
    shrink_walk (pre ++ ff (kl ++ k :: kr) ++ post) (length pre) (S (length kl)) sub0 = Ok (flatten k).
  Proof.
    induction kl as [|k0 kl IH]; intros pre k kr post sub0 HF.
    - cbn [app length]. rewrite shrink_walk_S. inversion HF; subst. rewrite ff_cons, <- app_assoc.
      rewrite search_subtree_flat by auto. cbv zeta.
      unfold get_slice. rewrite skipn_pre.
      replace (length pre + size k - length pre)%nat with (length (flatten k)) by (rewrite length_flatten; lia).
      rewrite firstn_pre. reflexivity.
    - cbn [length]. rewrite shrink_walk_S. inversion HF; subst.
      change ((k0 :: kl) ++ k :: kr) with (k0 :: (kl ++ k :: kr)). rewrite ff_cons, <- app_assoc.
      rewrite search_subtree_flat by auto. cbv zeta.
      unfold get_slice. rewrite skipn_pre.
      replace (length pre + size k0 - length pre)%nat with (length (flatten k0)) by (rewrite length_flatten; lia).
      rewrite firstn_pre. rewrite app_assoc. rewrite <- (app_length pre (flatten k0)).
      apply IH. auto.
  Qed.

  Theorem mut_shrink_closed top t ds out ds' :
    typed sub top t ->
    mut_shrink (flatten t) ds = Ok (out, ds') ->
    exists t', out = flatten t' /\ typed sub top t' /\ (size t' <= size t)%nat.
  Proof.
    intros Ht H. unfold mut_shrink in H.
    destruct (length (flatten t) <? 3)%nat.
    { apply ret_ok in H. destruct H; subst. eauto. }
    apply bind_ok in H. destruct H as (h & ds1 & _ & H).
    destruct (h <=? 1).
    { apply ret_ok in H. destruct H; subst. eauto. }
    destruct (filter _ (tl (enumerate (flatten t)))) as [|ip0 ipr] eqn:Eip.
    { apply ret_ok in H. destruct H; subst. eauto. }
    rewrite <- Eip in H.
    apply bind_ok in H. destruct H as ([index prim] & ds2 & Hch & H). cbn [fst snd] in H.
    apply bind_ok in H. destruct H as (arg_idx & ds3 & Harg & H).
    apply bind_ok in H. destruct H as (subtree & ds4 & Hwalk & H).
    apply bind_ok in H. destruct H as (s & ds5 & Hsr & H).
    apply lift_ok in H. destruct H as [H ->].
    apply lift_ok in Hwalk. destruct Hwalk as [Hwalk ->].
    apply lift_ok in Hsr. destruct Hsr as [Hsr ->].
    apply d_choice_ok in Hch. destruct Hch as [Hmem _].
    apply filter_In in Hmem. destruct Hmem as [Hmem _]. apply in_tl_enumerate in Hmem.
    destruct Hmem as [Hge Hn].
    apply d_choice_ok in Harg. destruct Harg as [Harg _]. apply positions_spec in Harg.
    assert (Hi : (index < length (flatten t))%nat) by (apply nth_error_Some; congruence).
    destruct (index_decompose top t index Ht Hi) as (c & u & e & -> & Hc & Hw & Hu & Hs).
    rewrite <- Hc in Hn, Hsr, Hwalk. rewrite nth_plug in Hn. inversion Hn; subst prim. clear Hn.
    rewrite search_plug in Hsr by auto. inversion Hsr; subst s. cbn [fst snd] in H.
    destruct u as [m kk]. cbn [root] in *.
    pose proof Hu as Hu'. apply typed_unfold in Hu'. destruct Hu' as [Sm Hkk].
    destruct (Forall2_nth_split _ _ _ _ _ Hkk Harg) as (kl & k & kr & -> & Hlen & Hk).
    assert (HF : Forall wft (kl ++ k :: kr)).
    { apply wft_plug in Hw. destruct Hw as [Hw _]. apply wft_unfold in Hw. tauto. }
    rewrite flatten_plug in Hwalk. cbn [flatten] in Hwalk. fold (ff (kl ++ k :: kr)) in Hwalk.
    change (cpre c ++ (m :: ff (kl ++ k :: kr)) ++ cpost c)
      with (cpre c ++ [m] ++ ff (kl ++ k :: kr) ++ cpost c) in Hwalk.
    rewrite app_assoc in Hwalk.
    replace (S (length (cpre c))) with (length (cpre c ++ [m])) in Hwalk by (rewrite app_length; cbn; lia).
    rewrite <- Hlen in Hwalk. rewrite shrink_walk_spec in Hwalk by auto.
    inversion Hwalk; subst subtree.
    assert (Hwk : wft k) by (eapply typed_wft; eauto).
    rewrite set_slice_plug in H by auto. inversion H; subst out.
    exists (plug c k). split; auto. split.
    - apply Hs. eapply typed_weaken; eauto. eapply sub_trans; [eapply typed_root; eauto|exact Sm].
    - pose proof (size_plug c (T m (kl ++ k :: kr)) k). cbn [size] in *.
      fold (sizes (kl ++ k :: kr)) in *. rewrite sizes_app, sizes_cons in *. lia.
  Qed.
End Mut.
