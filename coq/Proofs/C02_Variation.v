(* Proofs about Model/C02_Variation.v.

   Everything is relative to the heap h0 and the population pop handed to varAnd / varOr.
   `shape h` : h extends h0 -- the old region [0,ni h0) x [0,nf h0) is unchanged, every individual
   allocated since owns a fitness object allocated since, and no two of them share one.
   `ginv h l L` : shape, plus for the list L of live offspring: allocated since h0, pairwise
   distinct, and each either pristine (an unvaried clone of a parent with the parent's content) or
   with an empty fitness. *)
From Coq Require Import List ZArith Bool Arith Lia Permutation.
From DV Require Import Model.C02_Variation.
Import ListNotations.

Lemma upd_same {A} (f : nat -> A) k v : upd f k v k = v.
Proof. unfold upd. now rewrite Nat.eqb_refl. Qed.

Lemma upd_other {A} (f : nat -> A) k v j : j <> k -> upd f k v j = f j.
Proof. unfold upd. intro H. apply Nat.eqb_neq in H. now rewrite H. Qed.

(* induction over lists two elements at a time *)
Lemma list_pair_ind {A} (P : list A -> Prop) :
  P [] -> (forall a, P [a]) -> (forall a b r, P r -> P (a :: b :: r)) -> forall l, P l.
Proof.
  intros H0 H1 H2. fix IH 1. intros [|a [|b r]]; [exact H0|apply H1|apply H2, IH].
Qed.

Section Proofs.
Variables G F T : Type.
Variables ltb leb : T -> T -> bool.
Variable add : T -> T -> T.
Variable one : T.
Variable mate_o : nat -> G * option F -> G * option F -> mate_ans G F.
Variable mut_o : nat -> G * option F -> mut_ans G F.

Notation heap := (heap G F).
Notation st := (st G F T).

Variable h0 : heap.
Variable pop : list nat.
Hypothesis wf0 : wf_heap h0.
Hypothesis popok : pop_ok h0 pop.

(* ------------------------------------------------------------------ shape *)
Record shape (h : heap) : Prop := mkshape {
  sh_ni : ni h0 <= ni h;
  sh_nf : nf h0 <= nf h;
  sh_old_ind : forall u, u < ni h0 -> ind_at h u = ind_at h0 u;
  sh_old_fit : forall v, v < nf h0 -> fit_at h v = fit_at h0 v;
  sh_new_ref : forall u, ni h0 <= u < ni h -> nf h0 <= fitref (ind_at h u) < nf h;
  sh_new_inj : forall u u', ni h0 <= u < ni h -> ni h0 <= u' < ni h ->
               fitref (ind_at h u) = fitref (ind_at h u') -> u = u' }.

Lemma shape_refl : shape h0.
Proof. constructor; auto; intros; lia. Qed.

Lemma shape_alloc (h : heap) g f : shape h -> shape (fst (alloc h g f)).
Proof.
  intros [Hni Hnf Hoi Hof Hnr Hinj]. constructor; cbn.
  - lia.
  - lia.
  - intros u Hu. rewrite upd_other by lia. auto.
  - intros v Hv. rewrite upd_other by lia. auto.
  - intros u Hu. destruct (Nat.eq_dec u (ni h)) as [->|Hne].
    + rewrite upd_same. cbn. lia.
    + rewrite upd_other by exact Hne. specialize (Hnr u). lia.
  - intros u u' Hu Hu'.
    destruct (Nat.eq_dec u (ni h)) as [->|Hne]; destruct (Nat.eq_dec u' (ni h)) as [->|Hne'];
      rewrite ?upd_same, ?upd_other by assumption; cbn; intro E.
    + reflexivity.
    + specialize (Hnr u'). lia.
    + specialize (Hnr u). lia.
    + apply Hinj; auto; lia.
Qed.

Lemma write_fitref (h : heap) a c u : fitref (ind_at (write h a c) u) = fitref (ind_at h u).
Proof.
  unfold write; cbn. destruct (Nat.eq_dec u a) as [->|Hne].
  - now rewrite upd_same.
  - now rewrite upd_other.
Qed.

Lemma shape_write (h : heap) a c : shape h -> ni h0 <= a < ni h -> shape (write h a c).
Proof.
  intros Hs Ha. pose proof Hs as [Hni Hnf Hoi Hof Hnr Hinj]. constructor.
  - exact Hni.
  - exact Hnf.
  - intros u Hu. unfold write; cbn. rewrite upd_other by lia. auto.
  - intros v Hv. unfold write; cbn. specialize (Hnr a Ha). rewrite upd_other by lia. auto.
  - intros u Hu. rewrite write_fitref. apply Hnr. exact Hu.
  - intros u u' Hu Hu'. rewrite !write_fitref. apply Hinj; assumption.
Qed.

Lemma shape_del (h : heap) a : shape h -> ni h0 <= a < ni h -> shape (del_fit h a).
Proof.
  intros Hs Ha. pose proof Hs as [Hni Hnf Hoi Hof Hnr Hinj]. constructor; cbn; auto.
  intros v Hv. specialize (Hnr a Ha). rewrite upd_other by lia. auto.
Qed.

(* ------------------------------------------------------------------ frame lemmas *)
Lemma alloc_frame (h : heap) g f u :
  u < ni h -> fitref (ind_at h u) < nf h ->
  ind_at (fst (alloc h g f)) u = ind_at h u /\ fit_of (fst (alloc h g f)) u = fit_of h u.
Proof.
  intros Hu Hf. unfold fit_of; cbn. rewrite (upd_other (ind_at h)) by lia. split; auto.
  rewrite upd_other by lia. reflexivity.
Qed.

Lemma alloc_new (h : heap) g f :
  snd (alloc h g f) = ni h /\ ni (fst (alloc h g f)) = S (ni h) /\
  geno (ind_at (fst (alloc h g f)) (ni h)) = g /\ fit_of (fst (alloc h g f)) (ni h) = f.
Proof. unfold fit_of, alloc; cbn. rewrite !upd_same. cbn. rewrite ?upd_same. auto. Qed.

Lemma write_frame (h : heap) a c u :
  u <> a -> fitref (ind_at h u) <> fitref (ind_at h a) ->
  ind_at (write h a c) u = ind_at h u /\ fit_of (write h a c) u = fit_of h u.
Proof.
  intros Hu Hf. unfold fit_of, write; cbn. rewrite (upd_other (ind_at h)) by exact Hu. split; auto.
  rewrite upd_other by exact Hf. reflexivity.
Qed.

Lemma del_fit_self (h : heap) a : fit_of (del_fit h a) a = None.
Proof. unfold fit_of, del_fit; cbn. now rewrite upd_same. Qed.

Lemma del_fit_none (h : heap) a o : fit_of h o = None -> fit_of (del_fit h a) o = None.
Proof.
  unfold fit_of, del_fit; cbn. intro E.
  destruct (Nat.eq_dec (fitref (ind_at h o)) (fitref (ind_at h a))) as [->|Hne].
  - now rewrite upd_same.
  - now rewrite upd_other.
Qed.

Lemma del_fit_other (h : heap) a o :
  fitref (ind_at h o) <> fitref (ind_at h a) -> fit_of (del_fit h a) o = fit_of h o.
Proof. unfold fit_of, del_fit; cbn. intro Hne. now rewrite upd_other. Qed.

(* ------------------------------------------------------------------ the invariant *)
Definition pristine (h : heap) (l : list event) (o : nat) : Prop :=
  ~ varied l o /\
  exists p, In p pop /\ In (EClone p o) l /\
            geno (ind_at h o) = geno (ind_at h0 p) /\ fit_of h o = fit_of h0 p.

Definition okstate (h : heap) (l : list event) (o : nat) : Prop :=
  pristine h l o \/ (varied l o /\ fit_of h o = None).

Record ginv (h : heap) (l : list event) (L : list nat) : Prop := mkginv {
  gi_shape : shape h;
  gi_log : forall e o, In e l -> ev_involves e o -> o < ni h;
  gi_fresh : Forall (fun o => ni h0 <= o < ni h) L;
  gi_nodup : NoDup L;
  gi_state : Forall (okstate h l) L }.

Lemma ginv_start : ginv h0 [] [].
Proof. constructor; auto using shape_refl, NoDup_nil. intros e o []. Qed.

Lemma ginv_perm (h : heap) l L L' : Permutation L L' -> ginv h l L -> ginv h l L'.
Proof.
  intros P [Hs Hl Hf Hn Hst]. constructor; auto.
  - eapply Permutation_Forall; eauto.
  - eapply Permutation_NoDup; eauto.
  - eapply Permutation_Forall; eauto.
Qed.

Lemma ginv_drop (h : heap) l o L : ginv h l (o :: L) -> ginv h l L.
Proof.
  intros [Hs Hl Hf Hn Hst]. inversion Hf; inversion Hn; inversion Hst; subst. constructor; auto.
Qed.

Lemma ginv_head (h : heap) l o L : ginv h l (o :: L) -> ni h0 <= o < ni h /\ ~ In o L.
Proof. intros [Hs Hl Hf Hn Hst]. inversion Hf; inversion Hn; subst. auto. Qed.

Lemma ginv_add (h : heap) l o L :
  ginv h l L -> ni h0 <= o < ni h -> ~ In o L -> okstate h l o -> ginv h l (o :: L).
Proof.
  intros [Hs Hl Hf Hn Hst] Ho Hni Hok. constructor; auto. now constructor.
Qed.

Lemma okstate_transport (h h' : heap) l o :
  ind_at h' o = ind_at h o -> fit_of h' o = fit_of h o -> okstate h l o -> okstate h' l o.
Proof.
  intros Ei Ef [[Hv (p & Hp & Hc & Hg & Hff)]|[Hvar Hnone]].
  - left. split; auto. exists p. rewrite Ei, Ef. auto.
  - right. split; [exact Hvar|congruence].
Qed.

Lemma ginv_alloc (h : heap) l L g f : ginv h l L -> ginv (fst (alloc h g f)) l L.
Proof.
  intros [Hs Hl Hf Hn Hst]. constructor; auto.
  - now apply shape_alloc.
  - intros e o He Hi. specialize (Hl e o He Hi). cbn. lia.
  - eapply Forall_impl; [|exact Hf]. cbn. intros; lia.
  - rewrite Forall_forall in *. intros o Ho. specialize (Hf o Ho). cbn in Hf.
    destruct (alloc_frame h g f o) as [Ei Ef]; [lia|apply (sh_new_ref _ Hs); lia|].
    eapply okstate_transport; eauto.
Qed.

Lemma ginv_write (h : heap) l L a c :
  ginv h l L -> ni h0 <= a < ni h -> ~ In a L -> ginv (write h a c) l L.
Proof.
  intros [Hs Hl Hf Hn Hst] Ha Hni. constructor; auto.
  - now apply shape_write.
  - rewrite Forall_forall in *. intros o Ho. specialize (Hf o Ho). cbn in Hf.
    assert (o <> a) by (intro; subst; contradiction).
    destruct (write_frame h a c o) as [Ei Ef]; auto.
    { intro E. apply H. eapply (sh_new_inj _ Hs); eauto. }
    eapply okstate_transport; eauto.
Qed.

Lemma ginv_del (h : heap) l L a :
  ginv h l L -> ni h0 <= a < ni h -> ~ In a L -> ginv (del_fit h a) l L.
Proof.
  intros [Hs Hl Hf Hn Hst] Ha Hna. constructor; auto.
  - now apply shape_del.
  - rewrite Forall_forall in *. intros o Ho. specialize (Hf o Ho). cbn in Hf.
    assert (Hne : fitref (ind_at h o) <> fitref (ind_at h a)).
    { intro E. apply Hna. rewrite <- (sh_new_inj _ Hs o a Hf Ha E). exact Ho. }
    eapply okstate_transport; [| |apply Hst, Ho]; [reflexivity|now apply del_fit_other].
Qed.

Lemma ginv_log (h : heap) l L e :
  ginv h l L -> (forall o, ev_involves e o -> o < ni h /\ ~ In o L) -> ginv h (e :: l) L.
Proof.
  intros [Hs Hl Hf Hn Hst] He. constructor; auto.
  - intros e' o [<-|Hin] Hi; [apply He, Hi|eapply Hl; eauto].
  - rewrite Forall_forall in *. intros o Ho.
    destruct (Hst o Ho) as [[Hv (p & Hp & Hc & Hg & Hff)]|[(e0 & He0 & Hi0) Hnone]];
      [left|right; split; [exists e0; split; [now right|exact Hi0]|exact Hnone]].
    split.
    + intros (e' & [<-|Hin] & Hi); [exact (proj2 (He _ Hi) Ho)|apply Hv; exists e'; auto].
    + exists p. cbn. auto.
Qed.

(* ------------------------------------------------------------------ the four calls *)
Lemma next_random_spec (s s1 : st) u :
  next_random s = Some (u, s1) -> hp s1 = hp s /\ lg s1 = lg s /\ kc s1 = kc s.
Proof.
  unfold next_random. destruct (dr s) as [|[x|n i j|n i] r]; try discriminate.
  intro E; inversion E; subst; cbn; auto.
Qed.

Lemma step_clone (s s' : st) p c L :
  ginv (hp s) (lg s) L -> In p pop -> do_clone s p = (s', c) ->
  ginv (hp s') (lg s') (c :: L).
Proof.
  intros Hg Hp. unfold do_clone, clone.
  destruct (alloc (hp s) (geno (ind_at (hp s) p)) (fit_of (hp s) p)) as [h c'] eqn:Ea.
  intro E; inversion E; subst; clear E. cbn.
  pose proof (alloc_new (hp s) (geno (ind_at (hp s) p)) (fit_of (hp s) p)) as (Hc & Hn & Hge & Hfi).
  rewrite Ea in *. cbn in Hc, Hn, Hge, Hfi. subst c.
  pose proof (ginv_alloc _ _ _ (geno (ind_at (hp s) p)) (fit_of (hp s) p) Hg) as Hg1.
  rewrite Ea in Hg1; cbn in Hg1.
  assert (Hlog : ginv h (EClone p (ni (hp s)) :: lg s) L).
  { apply ginv_log; auto. intros o []. }
  pose proof (gi_shape _ _ _ Hg) as Hs.
  unfold pop_ok in popok. rewrite Forall_forall in popok. specialize (popok p Hp).
  apply ginv_add; auto.
  - pose proof (sh_ni _ Hs). lia.
  - intro Hin. pose proof (gi_fresh _ _ _ Hg) as Hf. rewrite Forall_forall in Hf.
    specialize (Hf _ Hin). cbn in Hf. lia.
  - left. split.
    + intros (e & [<-|Hin] & Hi); [destruct Hi|].
      pose proof (gi_log _ _ _ Hg e _ Hin Hi). lia.
    + exists p. split; auto. split; [now left|]. rewrite Hge, Hfi. split.
      * now rewrite (sh_old_ind _ Hs p popok).
      * unfold fit_of. rewrite (sh_old_ind _ Hs p popok). apply (sh_old_fit _ Hs). apply wf0, popok.
Qed.

Lemma resolve_spec (h : heap) l M a b r h' x :
  ginv h l M -> ni h0 <= a < ni h -> ni h0 <= b < ni h -> ~ In a M -> ~ In b M ->
  resolve h a b r = (h', x) ->
  ginv h' l M /\ ni h0 <= x < ni h' /\ ~ In x M /\ ni h <= ni h' /\
  (forall o, ni h0 <= o < ni h -> ni h0 <= o < ni h').
Proof.
  intros Hg Ha Hb Hna Hnb. destruct r as [| |c]; cbn.
  - intro E; inversion E; subst. split; [assumption|]. split; [lia|]. split; [assumption|]. split; [lia|auto].
  - intro E; inversion E; subst. split; [assumption|]. split; [lia|]. split; [assumption|]. split; [lia|auto].
  - intro E; inversion E; subst; clear E. split; [|split; [|split; [|split]]].
    + apply (ginv_alloc _ _ _ (fst c) (snd c) Hg).
    + pose proof (sh_ni _ (gi_shape _ _ _ Hg)). cbn. lia.
    + intro Hin. pose proof (gi_fresh _ _ _ Hg) as Hf. rewrite Forall_forall in Hf.
      specialize (Hf _ Hin). cbn in Hf. lia.
    + cbn. lia.
    + cbn. intros; lia.
Qed.

Lemma write_ni (h : heap) a c : ni (write h a c) = ni h.
Proof. reflexivity. Qed.

(* mate(a, b) on two live offspring: everything else that is live keeps its state; the results are
   allocated since h0, not otherwise live, and varied *)
Lemma step_mate (s s' : st) a b r1 r2 M :
  ginv (hp s) (lg s) (a :: b :: M) -> do_mate mate_o s a b = (s', (r1, r2)) ->
  ginv (hp s') (lg s') M /\
  ni h0 <= r1 < ni (hp s') /\ ni h0 <= r2 < ni (hp s') /\ ~ In r1 M /\ ~ In r2 M /\
  varied (lg s') r1 /\ varied (lg s') r2 /\
  (ret_distinct (ma_r1 (mate_o (kc s) (content (hp s) a) (content (hp s) b)))
                (ma_r2 (mate_o (kc s) (content (hp s) a) (content (hp s) b))) -> r1 <> r2).
Proof.
  intros Hg. unfold do_mate.
  set (ans := mate_o (kc s) (content (hp s) a) (content (hp s) b)).
  destruct (ginv_head _ _ _ _ Hg) as [Ha Hna'].
  pose proof (ginv_drop _ _ _ _ Hg) as Hg1.
  destruct (ginv_head _ _ _ _ Hg1) as [Hb Hnb].
  pose proof (ginv_drop _ _ _ _ Hg1) as Hg2.
  assert (Hab : a <> b) by (intro; subst; apply Hna'; now left).
  assert (Hna : ~ In a M) by (intro; apply Hna'; now right).
  pose proof (ginv_write _ _ _ a (ma_1 ans) Hg2 Ha Hna) as Hw1.
  assert (Hb1 : ni h0 <= b < ni (write (hp s) a (ma_1 ans))) by (rewrite write_ni; exact Hb).
  pose proof (ginv_write _ _ _ b (ma_2 ans) Hw1 Hb1 Hnb) as Hw2.
  set (h2 := write (write (hp s) a (ma_1 ans)) b (ma_2 ans)) in *.
  assert (Ha2 : ni h0 <= a < ni h2) by (unfold h2; rewrite !write_ni; exact Ha).
  assert (Hb2 : ni h0 <= b < ni h2) by (unfold h2; rewrite !write_ni; exact Hb).
  destruct (resolve h2 a b (ma_r1 ans)) as [h3 x1] eqn:E1.
  destruct (resolve_spec _ _ _ _ _ _ _ _ Hw2 Ha2 Hb2 Hna Hnb E1) as (Hg3 & Hx1 & Hnx1 & Hmono3 & Hfr3).
  destruct (resolve h3 a b (ma_r2 ans)) as [h4 x2] eqn:E2.
  destruct (resolve_spec _ _ _ _ _ _ _ _ Hg3 (Hfr3 _ Ha2) (Hfr3 _ Hb2) Hna Hnb E2)
    as (Hg4 & Hx2 & Hnx2 & Hmono4 & Hfr4).
  intro E; inversion E; subst; clear E. cbn.
  split; [|split; [|split; [|split; [|split; [|split; [|split]]]]]].
  - apply ginv_log; auto. cbn. intros o [-> | [-> | [-> | ->]]]; split; auto.
    + apply Hfr4, Hfr3, Ha2.
    + apply Hfr4, Hfr3, Hb2.
    + apply Hfr4, Hx1.
    + apply Hx2.
  - apply Hfr4, Hx1.
  - exact Hx2.
  - exact Hnx1.
  - exact Hnx2.
  - exists (EMate (kc s) a b r1 r2). split; [now left|cbn; auto].
  - exists (EMate (kc s) a b r1 r2). split; [now left|cbn; auto].
  - (* distinct results *)
    destruct (ma_r1 ans) as [| |c1] eqn:R1; destruct (ma_r2 ans) as [| |c2] eqn:R2; cbn in *;
      inversion E1; inversion E2; subst; intro Hd; try contradiction; try lia; try congruence.
Qed.

Lemma step_mut (s s' : st) a r M :
  ginv (hp s) (lg s) (a :: M) -> do_mut mut_o s a = (s', r) ->
  ginv (hp s') (lg s') M /\ ni h0 <= r < ni (hp s') /\ ~ In r M /\ varied (lg s') r.
Proof.
  intros Hg. unfold do_mut.
  set (ans := mut_o (kc s) (content (hp s) a)).
  destruct (ginv_head _ _ _ _ Hg) as [Ha Hna].
  pose proof (ginv_drop _ _ _ _ Hg) as Hg1.
  pose proof (ginv_write _ _ _ a (mu_1 ans) Hg1 Ha Hna) as Hw1.
  set (h1 := write (hp s) a (mu_1 ans)) in *.
  assert (Ha1 : ni h0 <= a < ni h1) by (unfold h1; rewrite write_ni; exact Ha).
  destruct (mu_r ans) as [|c] eqn:R.
  - intro E; inversion E; subst; clear E. cbn.
    split; [|split; [|split]].
    + apply ginv_log; auto. cbn. intros o [-> | ->]; (split; [lia | assumption]).
    + exact Ha1.
    + exact Hna.
    + exists (EMut (kc s) r r). split; [now left|cbn; auto].
  - destruct (alloc h1 (fst c) (snd c)) as [h2 x] eqn:Ea.
    intro E; inversion E; subst; clear E. cbn.
    pose proof (ginv_alloc _ _ _ (fst c) (snd c) Hw1) as Hg2. rewrite Ea in Hg2; cbn in Hg2.
    pose proof (alloc_new h1 (fst c) (snd c)) as (Hx & Hn & _). rewrite Ea in Hx, Hn; cbn in Hx, Hn.
    subst r.
    assert (Hnx : ~ In (ni h1) M).
    { intro Hin. pose proof (gi_fresh _ _ _ Hw1) as Hf. rewrite Forall_forall in Hf.
      specialize (Hf _ Hin). cbn in Hf. lia. }
    split; [|split; [|split]].
    + apply ginv_log; auto. cbn. unfold h1 in *. cbn in *. intros o [-> | ->]; (split; [lia | assumption]).
    + lia.
    + exact Hnx.
    + exists (EMut (kc s) a (ni h1)). split; [now left|cbn; auto].
Qed.

(* del x.fitness.values, then x becomes live (with an empty fitness) *)
Lemma step_del_add (s : st) x M :
  ginv (hp s) (lg s) M -> ni h0 <= x < ni (hp s) -> ~ In x M -> varied (lg s) x ->
  ginv (hp (do_del s x)) (lg (do_del s x)) (x :: M).
Proof.
  intros Hg Hx Hnx Hv. cbn. apply ginv_add.
  - now apply ginv_del.
  - exact Hx.
  - exact Hnx.
  - right. split; [exact Hv|apply del_fit_self].
Qed.

Lemma perm_move {A} (x : A) l1 l2 : Permutation (x :: l1 ++ l2) (l1 ++ x :: l2).
Proof. apply Permutation_middle. Qed.

Lemma perm_move2 {A} (x y : A) l1 l2 : Permutation (x :: y :: l1 ++ l2) (l1 ++ x :: y :: l2).
Proof.
  etransitivity; [|apply Permutation_middle]. constructor. apply Permutation_middle.
Qed.

(* ------------------------------------------------------------------ varAnd *)
Lemma clone_all_inv : forall ps (s s' : st) cs L,
  (forall p, In p ps -> In p pop) ->
  ginv (hp s) (lg s) L -> clone_all s ps = (s', cs) ->
  ginv (hp s') (lg s') (cs ++ L) /\ length cs = length ps.
Proof.
  induction ps as [|p r IH]; intros s s' cs L Hsub Hg; cbn [clone_all].
  - intro E; inversion E; subst. auto.
  - destruct (do_clone s p) as [s1 c] eqn:Ec.
    destruct (clone_all s1 r) as [s2 cs'] eqn:Er.
    intro E; inversion E; subst; clear E.
    pose proof (step_clone _ _ _ _ _ Hg (Hsub p (or_introl eq_refl)) Ec) as Hg1.
    destruct (IH _ _ _ _ (fun q Hq => Hsub q (or_intror Hq)) Hg1 Er) as [Hg2 Hlen].
    split; [|cbn; lia].
    eapply ginv_perm; [|exact Hg2]. symmetry. apply (perm_move c cs' L).
Qed.

(* ------------------------------------------------------------------ varOr *)
Lemma var_or_step_inv cxpb mutpb (s s' : st) res L :
  ginv (hp s) (lg s) L -> var_or_step ltb add mate_o mut_o cxpb mutpb pop s = (s', res) ->
  shape (hp s') /\ forall o, res = inr o -> ginv (hp s') (lg s') (o :: L).
Proof.
  intros Hg. unfold var_or_step.
  assert (Hfail : forall (s1 : st) e, hp s1 = hp s ->
            (s1, @inl exn nat e) = (s', res) ->
            shape (hp s') /\ forall o, res = inr o -> ginv (hp s') (lg s') (o :: L)).
  { intros s1 e Eh E; inversion E; subst. rewrite Eh. split; [apply (gi_shape _ _ _ Hg)|].
    intros o E'; discriminate. }
  destruct (next_random s) as [[u s1]|] eqn:En; [|apply Hfail; reflexivity].
  destruct (next_random_spec _ _ _ En) as (Eh & El & _).
  destruct (ltb u cxpb).
  - destruct (Nat.ltb (length pop) 2); [apply Hfail; exact Eh|].
    destruct (dr s1) as [|[x|n i j|n i] rest]; try (apply Hfail; exact Eh).
    destruct (Nat.eqb n (length pop)); [|apply Hfail; exact Eh].
    destruct (nth_error pop i) as [p1|] eqn:E1; [|apply Hfail; exact Eh].
    destruct (nth_error pop j) as [p2|] eqn:E2; [|apply Hfail; exact Eh].
    set (s2 := mkst (hp s1) rest (kc s1) (lg s1)).
    destruct (do_clone s2 p1) as [s3 c1] eqn:Ec1.
    destruct (do_clone s3 p2) as [s4 c2] eqn:Ec2.
    destruct (do_mate mate_o s4 c1 c2) as [s5 [r1 r2]] eqn:Em.
    intro E; inversion E; subst; clear E.
    assert (Hg2 : ginv (hp s2) (lg s2) L) by (unfold s2; cbn; rewrite Eh, El; exact Hg).
    pose proof (step_clone _ _ _ _ _ Hg2 (nth_error_In _ _ E1) Ec1) as Hg3.
    pose proof (step_clone _ _ _ _ _ Hg3 (nth_error_In _ _ E2) Ec2) as Hg4.
    assert (Hg4' : ginv (hp s4) (lg s4) (c1 :: c2 :: L)) by (eapply ginv_perm; [apply perm_swap|exact Hg4]).
    destruct (step_mate _ _ _ _ _ _ _ Hg4' Em) as (Hg5 & Hr1 & _ & Hn1 & _ & Hv1 & _).
    pose proof (step_del_add _ _ _ Hg5 Hr1 Hn1 Hv1) as Hg6.
    split; [apply (gi_shape _ _ _ Hg6)|]. intros o E'; inversion E'; subst. exact Hg6.
  - destruct (Nat.eqb (length pop) 0); [apply Hfail; exact Eh|].
    destruct (dr s1) as [|[x|n i j|n i] rest]; try (apply Hfail; exact Eh).
    destruct (Nat.eqb n (length pop)); [|apply Hfail; exact Eh].
    destruct (nth_error pop i) as [p|] eqn:E1; [|apply Hfail; exact Eh].
    set (s2 := mkst (hp s1) rest (kc s1) (lg s1)).
    destruct (do_clone s2 p) as [s3 c] eqn:Ec.
    assert (Hg2 : ginv (hp s2) (lg s2) L) by (unfold s2; cbn; rewrite Eh, El; exact Hg).
    pose proof (step_clone _ _ _ _ _ Hg2 (nth_error_In _ _ E1) Ec) as Hg3.
    destruct (ltb u (add cxpb mutpb)).
    + destruct (do_mut mut_o s3 c) as [s4 r] eqn:Em.
      intro E; inversion E; subst; clear E.
      destruct (step_mut _ _ _ _ _ Hg3 Em) as (Hg4 & Hr & Hn & Hv).
      pose proof (step_del_add _ _ _ Hg4 Hr Hn Hv) as Hg5.
      split; [apply (gi_shape _ _ _ Hg5)|]. intros o E'; inversion E'; subst. exact Hg5.
    + intro E; inversion E; subst; clear E.
      split; [apply (gi_shape _ _ _ Hg3)|]. intros o E'; inversion E'; subst. exact Hg3.
Qed.

Lemma var_or_loop_inv cxpb mutpb : forall n (s s' : st) res L,
  ginv (hp s) (lg s) L -> var_or_loop ltb add mate_o mut_o cxpb mutpb pop n s = (s', res) ->
  shape (hp s') /\
  forall os, res = inr os -> ginv (hp s') (lg s') (os ++ L) /\ length os = n.
Proof.
  induction n as [|n IH]; intros s s' res L Hg; cbn [var_or_loop].
  - intro E; inversion E; subst. split; [apply (gi_shape _ _ _ Hg)|].
    intros os E'; inversion E'; subst. auto.
  - destruct (var_or_step ltb add mate_o mut_o cxpb mutpb pop s) as [s1 [e|o]] eqn:Es.
    + intro E; inversion E; subst. destruct (var_or_step_inv _ _ _ _ _ _ Hg Es) as [Hsh _].
      split; auto. intros os E'; discriminate.
    + destruct (var_or_step_inv _ _ _ _ _ _ Hg Es) as [_ Ho]. specialize (Ho o eq_refl).
      destruct (var_or_loop ltb add mate_o mut_o cxpb mutpb pop n s1) as [s2 [e|os']] eqn:El;
        intro E; inversion E; subst; clear E;
        destruct (IH _ _ _ _ Ho El) as [Hsh Hres]; split; auto; intros os E'; inversion E'; subst.
      destruct (Hres os' eq_refl) as [Hg2 Hlen]. split; [|cbn; lia].
      eapply ginv_perm; [|exact Hg2]. symmetry. apply (perm_move o os' L).
Qed.

Lemma var_or_inv lambda_ cxpb mutpb d s' res :
  var_or ltb leb add one mate_o mut_o lambda_ cxpb mutpb (start h0 d) pop = (s', res) ->
  shape (hp s') /\
  forall off, res = inr off -> ginv (hp s') (lg s') off /\ length off = Z.to_nat lambda_.
Proof.
  unfold var_or. destruct (leb (add cxpb mutpb) one).
  - intro E. destruct (var_or_loop_inv _ _ _ (start h0 d) _ _ [] ginv_start E) as [Hsh Hres].
    split; auto. intros off E'. destruct (Hres off E') as [Hg Hl]. rewrite app_nil_r in Hg. auto.
  - intro E; inversion E; subst. split; [apply shape_refl|]. intros off E'; discriminate.
Qed.

(* ------------------------------------------------------------------ what the invariant gives *)
Lemma shape_untouched (h : heap) : shape h -> untouched h0 pop h.
Proof.
  intros Hs. split; [apply (sh_old_ind _ Hs)|]. split; [apply (sh_old_fit _ Hs)|].
  intros u Hu. assert (Hlt : u < ni h0).
  { pose proof popok as Hp. unfold pop_ok in Hp. rewrite Forall_forall in Hp. auto. }
  unfold content, fit_of. rewrite (sh_old_ind _ Hs u Hlt).
  rewrite (sh_old_fit _ Hs); auto.
Qed.

Lemma ginv_independent (h : heap) l off : ginv h l off -> independent h0 h off.
Proof.
  intros [Hs Hl Hf Hn Hst]. rewrite Forall_forall in Hf. split; [exact Hn|]. split; [|split].
  - intros o Ho. specialize (Hf o Ho). cbn in Hf. split; [exact Hf|]. apply (sh_new_ref _ Hs), Hf.
  - intros o u x Ho Hu Hx Hx'. specialize (Hf o Ho). cbn in Hf.
    pose proof (sh_new_ref _ Hs o Hf) as Hr.
    pose proof (wf0 u Hu) as Hw. rewrite <- (sh_old_ind _ Hs u Hu) in Hw.
    unfold reach in *. cbn in Hx, Hx'.
    destruct Hx as [<-|[<-|[]]]; destruct Hx' as [E|[E|[]]]; inversion E; lia.
  - intros o o' x Ho Ho' Hne Hx Hx'.
    pose proof (Hf o Ho) as H1. pose proof (Hf o' Ho') as H2. cbn in H1, H2.
    unfold reach in *. cbn in Hx, Hx'.
    destruct Hx as [<-|[<-|[]]]; destruct Hx' as [E|[E|[]]]; inversion E; try congruence.
    apply Hne. symmetry. apply (sh_new_inj _ Hs); auto.
Qed.

Lemma ginv_varied_invalid (h : heap) l off : ginv h l off -> varied_invalid h l off.
Proof.
  intros Hg o Ho Hv. pose proof (gi_state _ _ _ Hg) as Hst. rewrite Forall_forall in Hst.
  destruct (Hst o Ho) as [[Hnv _]|[_ Hn]]; [contradiction|exact Hn].
Qed.

Lemma ginv_valid_parent (h : heap) l off : ginv h l off -> valid_is_parent_copy h0 pop h l off.
Proof.
  intros Hg o f Ho Hf. pose proof (gi_state _ _ _ Hg) as Hst. rewrite Forall_forall in Hst.
  destruct (Hst o Ho) as [[Hnv (p & Hp & Hc & Hge & Hfi)]|[_ Hn]]; [|congruence].
  split; auto. exists p. repeat split; auto. congruence.
Qed.

Lemma ginv_unvaried (h : heap) l off o :
  ginv h l off -> In o off -> ~ varied l o -> pristine h l o.
Proof.
  intros Hg Ho Hv. pose proof (gi_state _ _ _ Hg) as Hst. rewrite Forall_forall in Hst.
  destruct (Hst o Ho) as [Hp|[Hvar _]]; [exact Hp|contradiction].
Qed.

(* ------------------------------------------------------------------ varAnd, second part *)
Hypothesis mate_distinct : forall k x y, ret_distinct (ma_r1 (mate_o k x y)) (ma_r2 (mate_o k x y)).

Lemma mate_loop_inv cxpb : forall l (s s' : st) res pre,
  ginv (hp s) (lg s) (l ++ pre) -> mate_loop ltb mate_o cxpb s l = (s', res) ->
  shape (hp s') /\
  forall l', res = inr l' -> ginv (hp s') (lg s') (l' ++ pre) /\ length l' = length l.
Proof.
  induction l as [|a|a b r IH] using list_pair_ind; intros s s' res pre Hg.
  - cbn. intro E; inversion E; subst. split; [apply (gi_shape _ _ _ Hg)|].
    intros l' E'; inversion E'; subst. auto.
  - cbn. intro E; inversion E; subst. split; [apply (gi_shape _ _ _ Hg)|].
    intros l' E'; inversion E'; subst. auto.
  - cbn [mate_loop]. destruct (next_random s) as [[u s1]|] eqn:En.
    2:{ intro E; inversion E; subst. split; [apply (gi_shape _ _ _ Hg)|]. intros l' E'; discriminate. }
    destruct (next_random_spec _ _ _ En) as (Eh & El & _).
    destruct (ltb u cxpb).
    + destruct (do_mate mate_o s1 a b) as [s2 [r1 r2]] eqn:Em.
      rewrite <- Eh, <- El in Hg. cbn [app] in Hg.
      destruct (step_mate _ _ _ _ _ _ _ Hg Em) as (Hg2 & Hr1 & Hr2 & Hn1 & Hn2 & Hv1 & Hv2 & Hd).
      specialize (Hd (mate_distinct _ _ _)).
      assert (Hg3 : ginv (hp (do_del s2 r1)) (lg (do_del s2 r1)) (r1 :: r ++ pre))
        by (apply step_del_add; auto).
      assert (Hg4 : ginv (hp (do_del (do_del s2 r1) r2)) (lg (do_del (do_del s2 r1) r2))
                         (r2 :: r1 :: r ++ pre)).
      { apply step_del_add; auto. intros [E|Hin]; [congruence|contradiction]. }
      assert (Hg5 : ginv (hp (do_del (do_del s2 r1) r2)) (lg (do_del (do_del s2 r1) r2))
                         (r ++ r1 :: r2 :: pre)).
      { eapply ginv_perm; [|exact Hg4]. etransitivity; [apply perm_swap|]. apply perm_move2. }
      destruct (mate_loop ltb mate_o cxpb (do_del (do_del s2 r1) r2) r) as [s4 [e|r']] eqn:Er;
        intro E; inversion E; subst; clear E;
        destruct (IH _ _ _ _ Hg5 Er) as [Hsh Hres]; split; auto; intros l' E'; inversion E'; subst.
      destruct (Hres r' eq_refl) as [Hg6 Hlen]. split; [|cbn; lia].
      eapply ginv_perm; [|exact Hg6]. symmetry. apply (perm_move2 r1 r2 r' pre).
    + rewrite <- Eh, <- El in Hg.
      assert (Hg5 : ginv (hp s1) (lg s1) (r ++ a :: b :: pre)).
      { eapply ginv_perm; [|exact Hg]. apply (perm_move2 a b r pre). }
      destruct (mate_loop ltb mate_o cxpb s1 r) as [s4 [e|r']] eqn:Er;
        intro E; inversion E; subst; clear E;
        destruct (IH _ _ _ _ Hg5 Er) as [Hsh Hres]; split; auto; intros l' E'; inversion E'; subst.
      destruct (Hres r' eq_refl) as [Hg6 Hlen]. split; [|cbn; lia].
      eapply ginv_perm; [|exact Hg6]. symmetry. apply (perm_move2 a b r' pre).
Qed.

Lemma mut_loop_inv mutpb : forall l (s s' : st) res pre,
  ginv (hp s) (lg s) (l ++ pre) -> mut_loop ltb mut_o mutpb s l = (s', res) ->
  shape (hp s') /\
  forall l', res = inr l' -> ginv (hp s') (lg s') (l' ++ pre) /\ length l' = length l.
Proof.
  induction l as [|a r IH]; intros s s' res pre Hg.
  - cbn. intro E; inversion E; subst. split; [apply (gi_shape _ _ _ Hg)|].
    intros l' E'; inversion E'; subst. auto.
  - cbn [mut_loop]. destruct (next_random s) as [[u s1]|] eqn:En.
    2:{ intro E; inversion E; subst. split; [apply (gi_shape _ _ _ Hg)|]. intros l' E'; discriminate. }
    destruct (next_random_spec _ _ _ En) as (Eh & El & _).
    destruct (ltb u mutpb).
    + destruct (do_mut mut_o s1 a) as [s2 r1] eqn:Em.
      rewrite <- Eh, <- El in Hg. cbn [app] in Hg.
      destruct (step_mut _ _ _ _ _ Hg Em) as (Hg2 & Hr1 & Hn1 & Hv1).
      assert (Hg3 : ginv (hp (do_del s2 r1)) (lg (do_del s2 r1)) (r1 :: r ++ pre))
        by (apply step_del_add; auto).
      assert (Hg5 : ginv (hp (do_del s2 r1)) (lg (do_del s2 r1)) (r ++ r1 :: pre)).
      { eapply ginv_perm; [|exact Hg3]. apply perm_move. }
      destruct (mut_loop ltb mut_o mutpb (do_del s2 r1) r) as [s4 [e|r']] eqn:Er;
        intro E; inversion E; subst; clear E;
        destruct (IH _ _ _ _ Hg5 Er) as [Hsh Hres]; split; auto; intros l' E'; inversion E'; subst.
      destruct (Hres r' eq_refl) as [Hg6 Hlen]. split; [|cbn; lia].
      eapply ginv_perm; [|exact Hg6]. symmetry. apply (perm_move r1 r' pre).
    + rewrite <- Eh, <- El in Hg.
      assert (Hg5 : ginv (hp s1) (lg s1) (r ++ a :: pre)).
      { eapply ginv_perm; [|exact Hg]. apply (perm_move a r pre). }
      destruct (mut_loop ltb mut_o mutpb s1 r) as [s4 [e|r']] eqn:Er;
        intro E; inversion E; subst; clear E;
        destruct (IH _ _ _ _ Hg5 Er) as [Hsh Hres]; split; auto; intros l' E'; inversion E'; subst.
      destruct (Hres r' eq_refl) as [Hg6 Hlen]. split; [|cbn; lia].
      eapply ginv_perm; [|exact Hg6]. symmetry. apply (perm_move a r' pre).
Qed.

Lemma var_and_inv cxpb mutpb d s' res :
  var_and ltb mate_o mut_o cxpb mutpb (start h0 d) pop = (s', res) ->
  shape (hp s') /\
  forall off, res = inr off -> ginv (hp s') (lg s') off /\ length off = length pop.
Proof.
  unfold var_and. destruct (clone_all (start h0 d) pop) as [s1 off1] eqn:Ec.
  destruct (clone_all_inv pop (start h0 d) s1 off1 [] (fun p H => H) ginv_start Ec) as [Hg1 Hl1].
  destruct (mate_loop ltb mate_o cxpb s1 off1) as [s2 [e|off2]] eqn:Em.
  - intro E; inversion E; subst. destruct (mate_loop_inv _ _ _ _ _ _ Hg1 Em) as [Hsh _].
    split; auto. intros off E'; discriminate.
  - destruct (mate_loop_inv _ _ _ _ _ _ Hg1 Em) as [_ Hres].
    destruct (Hres off2 eq_refl) as [Hg2 Hl2]. intro Eu.
    destruct (mut_loop_inv _ _ _ _ _ _ Hg2 Eu) as [Hsh Hres3]. split; auto.
    intros off E'. destruct (Hres3 off E') as [Hg3 Hl3]. rewrite app_nil_r in Hg3. split; auto. lia.
Qed.

End Proofs.

(* ================================================================== the theorems, closed *)
Section Theorems.
Variables G F T : Type.
Variable ltb : T -> T -> bool.
Variable mate_o : nat -> G * option F -> G * option F -> mate_ans G F.
Variable mut_o : nat -> G * option F -> mut_ans G F.
Variable h0 : heap G F.
Variable pop : list nat.
Hypothesis wf0 : wf_heap h0.
Hypothesis popok : pop_ok h0 pop.

Section VarAnd.
Hypothesis mate_distinct : forall k x y, ret_distinct (ma_r1 (mate_o k x y)) (ma_r2 (mate_o k x y)).
Variables (cxpb mutpb : T) (d : list (draw T)) (s' : st G F T) (res : exn + list nat).
Hypothesis Hrun : var_and ltb mate_o mut_o cxpb mutpb (start h0 d) pop = (s', res).

Let INV := var_and_inv G F T ltb mate_o mut_o h0 pop wf0 popok mate_distinct cxpb mutpb d s' res Hrun.

Lemma and_parents_untouched : untouched h0 pop (hp s').
Proof. apply (shape_untouched G F h0 pop wf0 popok), INV. Qed.

Lemma and_offspring_count : forall off, res = inr off -> length off = length pop.
Proof. intros off E. apply (proj2 INV off E). Qed.

Lemma and_offspring_independent : forall off, res = inr off -> independent h0 (hp s') off.
Proof. intros off E. apply (ginv_independent G F h0 pop wf0 _ _ _ (proj1 (proj2 INV off E))). Qed.

Lemma and_varied_invalid : forall off, res = inr off -> varied_invalid (hp s') (lg s') off.
Proof. intros off E. apply (ginv_varied_invalid G F h0 pop _ _ _ (proj1 (proj2 INV off E))). Qed.

Lemma and_valid_is_parent_copy : forall off, res = inr off -> valid_is_parent_copy h0 pop (hp s') (lg s') off.
Proof. intros off E. apply (ginv_valid_parent G F h0 pop _ _ _ (proj1 (proj2 INV off E))). Qed.
End VarAnd.

Variables leb : T -> T -> bool.
Variable add : T -> T -> T.
Variable one : T.

Section VarOr.
Variables (lambda_ : Z) (cxpb mutpb : T) (d : list (draw T)) (s' : st G F T) (res : exn + list nat).
Hypothesis Hrun : var_or ltb leb add one mate_o mut_o lambda_ cxpb mutpb (start h0 d) pop = (s', res).

Let INV := var_or_inv G F T ltb leb add one mate_o mut_o h0 pop wf0 popok lambda_ cxpb mutpb d s' res Hrun.

Lemma or_parents_untouched : untouched h0 pop (hp s').
Proof. apply (shape_untouched G F h0 pop wf0 popok), INV. Qed.

Lemma or_offspring_count : forall off, res = inr off -> length off = Z.to_nat lambda_.
Proof. intros off E. apply (proj2 INV off E). Qed.

Lemma or_offspring_independent : forall off, res = inr off -> independent h0 (hp s') off.
Proof. intros off E. apply (ginv_independent G F h0 pop wf0 _ _ _ (proj1 (proj2 INV off E))). Qed.

Lemma or_varied_invalid : forall off, res = inr off -> varied_invalid (hp s') (lg s') off.
Proof. intros off E. apply (ginv_varied_invalid G F h0 pop _ _ _ (proj1 (proj2 INV off E))). Qed.

Lemma or_valid_is_parent_copy : forall off, res = inr off -> valid_is_parent_copy h0 pop (hp s') (lg s') off.
Proof. intros off E. apply (ginv_valid_parent G F h0 pop _ _ _ (proj1 (proj2 INV off E))). Qed.
End VarOr.

(* the guards under which the real code raises instead of returning *)
Section VarOrGuards.
Variables (lambda_ : Z) (cxpb mutpb : T) (d : list (draw T)) (s' : st G F T) (res : exn + list nat).
Hypothesis Hrun : var_or ltb leb add one mate_o mut_o lambda_ cxpb mutpb (start h0 d) pop = (s', res).

Lemma or_assertion : leb (add cxpb mutpb) one = false -> res = inl AssertionError /\ s' = start h0 d.
Proof. intro E. pose proof Hrun as R. unfold var_or in R. rewrite E in R. inversion R; auto. Qed.

Lemma or_small_population_raises u rest :
  leb (add cxpb mutpb) one = true -> (0 < lambda_)%Z -> d = DRandom u :: rest ->
  ltb u cxpb = true -> length pop < 2 -> res = inl ValueError /\ hp s' = h0.
Proof.
  intros E Hl Ed Eu Hp. pose proof Hrun as R. unfold var_or in R. rewrite E, Ed in R.
  destruct (Z.to_nat lambda_) as [|n] eqn:En; [lia|]. cbn [var_or_loop] in R.
  assert (Es : var_or_step ltb add mate_o mut_o cxpb mutpb pop (start h0 (DRandom u :: rest))
               = (mkst h0 rest 0 [], inl ValueError)).
  { unfold var_or_step, next_random, start. cbn [dr hp kc lg]. rewrite Eu.
    apply Nat.ltb_lt in Hp. rewrite Hp. reflexivity. }
  rewrite Es in R. inversion R; auto.
Qed.

Lemma or_empty_population_raises u rest :
  leb (add cxpb mutpb) one = true -> (0 < lambda_)%Z -> d = DRandom u :: rest ->
  ltb u cxpb = false -> pop = [] -> res = inl IndexError /\ hp s' = h0.
Proof.
  intros E Hl Ed Eu Hp. pose proof Hrun as R. unfold var_or in R. rewrite E, Ed, Hp in R.
  destruct (Z.to_nat lambda_) as [|n] eqn:En; [lia|]. cbn [var_or_loop] in R.
  assert (Es : var_or_step ltb add mate_o mut_o cxpb mutpb [] (start h0 (DRandom u :: rest))
               = (mkst h0 rest 0 [], inl IndexError)).
  { unfold var_or_step, next_random, start. cbn [dr hp kc lg]. rewrite Eu. reflexivity. }
  rewrite Es in R. inversion R; auto.
Qed.
End VarOrGuards.

End Theorems.
