(* C11 — the slice operations of the model are Python's: `firstn/skipn` forms used in
   Model/C11_GPTree.v coincide with Base.PyList (slice.indices clamping) on the index ranges
   PrimitiveTree.__setitem__ lets through (0 <= start < len, start <= stop). *)
From Coq Require Import List ZArith Bool Lia.
From DV Require Import Base.PyList Model.C11_GPTree.
Import ListNotations.
Local Open Scope Z_scope.

Lemma skipn_beyond {A} (l : list A) n : (length l <= n)%nat -> skipn n l = [].
Proof. apply skipn_all2. Qed.

Lemma set_slice_is_python (l val : list node) (b e : nat) : (b < length l)%nat ->
  firstn b l ++ val ++ skipn (Nat.max b e) l =
  py_slice_assign l (Some (Z.of_nat b)) (Some (Z.of_nat e)) val.
Proof.
  intro Hb. unfold py_slice_assign, slice_adjust, PyList.zlen. cbn [Z.ltb Z.compare].
  replace (Z.of_nat b <? 0) with false by (symmetry; apply Z.ltb_ge; lia).
  replace (Z.of_nat e <? 0) with false by (symmetry; apply Z.ltb_ge; lia).
  rewrite (Z.min_l (Z.of_nat b)) by lia. rewrite Nat2Z.id.
  f_equal. f_equal.
  destruct (Nat.leb e (length l)) eqn:E.
  - apply Nat.leb_le in E. rewrite (Z.min_l (Z.of_nat e)) by lia.
    rewrite <- Nat2Z.inj_max, Nat2Z.id. reflexivity.
  - apply Nat.leb_gt in E. rewrite (Z.min_r (Z.of_nat e)) by lia.
    rewrite <- Nat2Z.inj_max, Nat2Z.id. rewrite !skipn_beyond by lia. reflexivity.
Qed.

Lemma firstn_skipn_flat_map {A} : forall (l : list A) (b n : nat), (b + n <= length l)%nat ->
  firstn n (skipn b l) =
  flat_map (fun i => match nth_error l (Z.to_nat i) with Some x => [x] | None => [] end)
           (map (fun i => Z.of_nat b + Z.of_nat i * 1) (seq 0 n)).
Proof.
  intros l b n. revert l b. induction n as [|n IH]; intros l b H; [reflexivity|].
  rewrite seq_S, map_app, flat_map_app. cbn [map flat_map Nat.add]. rewrite <- IH by lia.
  replace (Z.to_nat (Z.of_nat b + Z.of_nat n * 1)) with (b + n)%nat by lia.
  destruct (nth_error l (b + n)) as [x|] eqn:E.
  2:{ apply nth_error_None in E. lia. }
  rewrite app_nil_r.
  assert (G : forall (m : list A) k y, nth_error m k = Some y -> firstn (S k) m = firstn k m ++ [y]).
  { induction m as [|a m IHm]; intros [|k] y Hy; cbn in *; try discriminate.
    - inversion Hy; reflexivity.
    - f_equal. apply IHm. exact Hy. }
  apply G. clear - E. revert l E. induction b as [|b IHb]; intros l E; [exact E|].
  destruct l as [|a l]; [destruct n; discriminate|]. cbn [skipn]. apply IHb. exact E.
Qed.

Lemma get_slice_is_python (l : list node) (b e : nat) : (b <= e <= length l)%nat ->
  get_slice l b e = py_sub l (Z.of_nat b) (Z.of_nat e).
Proof.
  intro H. unfold get_slice, py_sub, py_slice, slice_idx, slice_adjust, PyList.zlen. cbn [Z.ltb Z.compare].
  replace (Z.of_nat b <? 0) with false by (symmetry; apply Z.ltb_ge; lia).
  replace (Z.of_nat e <? 0) with false by (symmetry; apply Z.ltb_ge; lia).
  rewrite !Z.min_l by lia. unfold py_range3, range_count. cbn [Z.ltb Z.compare].
  destruct (Z.of_nat b <? Z.of_nat e) eqn:E.
  - apply Z.ltb_lt in E. rewrite Z.div_1_r.
    replace (Z.to_nat (Z.of_nat e - Z.of_nat b - 1 + 1)) with (e - b)%nat by lia.
    apply firstn_skipn_flat_map. lia.
  - apply Z.ltb_ge in E. replace (e - b)%nat with 0%nat by lia. reflexivity.
Qed.
