(* Ties allowed: for every objective, an individual holding the smallest value and an individual
   holding the largest value of the front end up with an infinite crowding distance
   (exact-rational instance; any front, any number of objectives). *)
From Coq Require Import List ZArith QArith Bool Lia Permutation Arith Setoid.
From DV Require Import Base.PyList Base.C05_Sort Base.C05_List Model.C05_Nsga2 Model.C05_CrowdSpec
     Proofs.C05_QInst Proofs.C05_Bump Proofs.C05_Nsga2 Proofs.C05_Crowding.
Import ListNotations.
Local Open Scope Q_scope.

Lemma inf_stays_bump i norm ts : forall (d : list qinf) j z,
  (j < length d)%nat -> nth j d z = Inf -> nth j (fold_left (bump q_ops i norm) ts d) z = Inf.
Proof.
  induction ts as [|t ts IH]; intros d j z L H; [exact H|]. cbn [fold_left].
  apply IH; [rewrite (bump_length q_ops); exact L|].
  destruct t as [[p c] x]. unfold bump. destruct (Nat.eq_dec j (snd c)) as [E|E].
  - subst j. rewrite nth_set_nth_eq by exact L.
    rewrite (nth_indep d (dzero q_ops) z) by exact L. rewrite H. reflexivity.
  - rewrite nth_set_nth_neq by exact E. exact H.
Qed.

Lemma inf_stays_set (d : list qinf) k j z : (j < length d)%nat -> nth j d z = Inf -> nth j (set_nth d k Inf) z = Inf.
Proof.
  intros L H. destruct (Nat.eq_dec j k) as [E|E]; [subst; apply nth_set_nth_eq, L|rewrite nth_set_nth_neq by exact E; exact H].
Qed.

Lemma inf_stays_step i nobj s (dist : list qinf) j z :
  (j < length dist)%nat -> nth j dist z = Inf -> nth j (step_dist i nobj s dist) z = Inf.
Proof.
  intros L H. unfold step_dist. destruct s as [|first rest]; [exact H|].
  set (d2 := set_nth (set_nth dist (snd first) Inf) _ Inf).
  assert (L2 : (j < length d2)%nat) by (unfold d2; rewrite !set_nth_length; exact L).
  assert (H2 : nth j d2 z = Inf).
  { unfold d2. apply inf_stays_set; [rewrite set_nth_length; exact L|]. apply inf_stays_set; assumption. }
  destruct (Qeq_bool _ _); [exact H2|]. apply inf_stays_bump; assumption.
Qed.

Lemma step_dist_length i nobj s (dist : list qinf) : length (step_dist i nobj s dist) = length dist.
Proof.
  unfold step_dist. destruct s as [|first rest]; [reflexivity|].
  destruct (Qeq_bool _ _); rewrite ?(fold_bump_length q_ops), !set_nth_length; reflexivity.
Qed.

Lemma inf_stays_fold nobj objs : forall (st : list (centry q_ops) * list qinf) j z,
  (j < length (snd st))%nat -> nth j (snd st) z = Inf ->
  nth j (snd (fold_left (crowd_step q_ops nobj) objs st)) z = Inf.
Proof.
  induction objs as [|i objs IH]; intros [crowd dist] j z L H; [exact H|]. cbn [fold_left].
  rewrite crowd_step_q. cbn [snd] in *.
  apply IH; cbn [snd]; [rewrite step_dist_length; exact L|apply inf_stays_step; assumption].
Qed.

Section Extremes.
  Variables (front : list (ind Q)) (nobj : nat).
  Let n := length front.
  Let crowd0 : list (centry q_ops) := combine (map vals front) (seq 0 n).

  Lemma fold_inv objs : forall crowd (dist : list qinf),
    Permutation crowd crowd0 -> length dist = n ->
    Permutation (fst (fold_left (crowd_step q_ops nobj) objs (crowd, dist))) crowd0 /\
    length (snd (fold_left (crowd_step q_ops nobj) objs (crowd, dist))) = n.
  Proof.
    induction objs as [|i objs IH]; intros crowd dist Pc Ld; [split; assumption|]. cbn [fold_left].
    rewrite crowd_step_q. apply IH.
    - eapply perm_trans; [apply Permutation_sym, sort_st_perm|exact Pc].
    - rewrite step_dist_length. exact Ld.
  Qed.

  Hypothesis Hn : front <> [].

  Lemma step_marks_extremes i crowd (dist : list qinf) :
    Permutation crowd crowd0 -> length dist = n ->
    let dist' := snd (crowd_step q_ops nobj (crowd, dist) i) in
    (exists j, (j < n)%nat /\ nth j (vcol i front) 0 == lmin (vcol i front) /\ nth j dist' Inf = Inf) /\
    (exists j, (j < n)%nat /\ nth j (vcol i front) 0 == lmax (vcol i front) /\ nth j dist' Inf = Inf).
  Proof.
    intros Pc Ld. rewrite crowd_step_q. cbn [snd].
    set (s := sort_st qltb (key_i q_ops i) crowd).
    assert (Ps : Permutation s crowd0) by (eapply perm_trans; [apply Permutation_sym, sort_st_perm|exact Pc]).
    pose proof (sort_q_sorted i crowd) as Ss. fold s in Ss.
    assert (Lc : length crowd0 = n).
    { unfold crowd0. etransitivity; [apply combine_length|]. rewrite map_length, seq_length. apply Nat.min_id. }
    assert (NE : s <> []).
    { intro E. pose proof (Permutation_length Ps) as Lp. rewrite Lc, E in Lp. unfold n in Lp.
      destruct front; [congruence|discriminate]. }
    destruct s as [|first rest] eqn:Es; [congruence|]. rewrite <- Es in *.
    split.
    - exists (snd first).
      assert (If : In first s) by (rewrite Es; left; reflexivity).
      destruct (s_idx front i s Ps first If) as [Lf Kf].
      split; [exact Lf|]. split.
      + rewrite <- Kf. apply (hd_is_min front i s Ps Ss first rest Es).
      + apply (step_extreme_first front i nobj s Ps dist Ld first rest Es).
    - pose proof (app_removelast_last first NE) as El. set (lst := last s first) in *.
      exists (snd lst).
      assert (Il : In lst s) by (rewrite El; apply in_or_app; right; left; reflexivity).
      destruct (s_idx front i s Ps lst Il) as [Ll Kl].
      split; [exact Ll|]. split.
      + rewrite <- Kl. apply (last_is_max front i s Ps Ss (removelast s) lst El).
      + apply (step_extreme_last front i nobj s Ps Ss dist Ld (removelast s) lst El).
  Qed.
End Extremes.

Theorem crowding_extremes_inf (front : list (ind Q)) (i : nat) :
  front <> [] -> (i < front_nobj front)%nat ->
  (exists j, (j < length front)%nat /\ nth j (vcol i front) 0 == lmin (vcol i front) /\
             nth j (assign_crowding q_ops front) Inf = Inf) /\
  (exists j, (j < length front)%nat /\ nth j (vcol i front) 0 == lmax (vcol i front) /\
             nth j (assign_crowding q_ops front) Inf = Inf).
Proof.
  intros Hn Li. destruct front as [|x0 r]; [congruence|].
  change (assign_crowding q_ops (x0 :: r)) with
    (snd (fold_left (crowd_step q_ops (length (vals x0))) (seq 0 (length (vals x0)))
            (combine (map vals (x0 :: r)) (seq 0 (length (x0 :: r))), repeat (dzero q_ops) (length (x0 :: r))))).
  set (front := x0 :: r) in *.
  set (nobj := length (vals x0)). change (front_nobj front) with nobj in Li.
  replace (seq 0 nobj) with (seq 0 i ++ i :: seq (S i) (nobj - S i)).
  2:{ change (i :: seq (S i) (nobj - S i)) with (seq i (S (nobj - S i))).
      replace i with (0 + i)%nat at 2 by lia. rewrite <- seq_app. f_equal. lia. }
  rewrite fold_left_app. cbn [fold_left].
  match goal with |- context [crowd_step q_ops nobj (fold_left ?f ?l ?init) i] =>
    remember (fold_left f l init) as st eqn:Est end.
  assert (PL : Permutation (fst st) (combine (map vals front) (seq 0 (length front))) /\ length (snd st) = length front).
  { rewrite Est. apply (fold_inv front nobj (seq 0 i)); [apply Permutation_refl|apply repeat_length]. }
  clear Est. destruct st as [crowd1 dist1]. cbn [fst snd] in PL. destruct PL as [P1 L1].
  destruct (step_marks_extremes front nobj Hn i crowd1 dist1 P1 L1) as [[j1 [A1 [B1 C1]]] [j2 [A2 [B2 C2]]]].
  pose proof (crowd_step_length q_ops nobj (crowd1, dist1) i) as L2. cbn [snd] in L2.
  split; [exists j1|exists j2]; (split; [assumption|split; [assumption|]]); apply inf_stays_fold.
  - exact (eq_ind_r (fun z => (j1 < z)%nat) A1 (eq_trans L2 L1)).
  - exact C1.
  - exact (eq_ind_r (fun z => (j2 < z)%nat) A2 (eq_trans L2 L1)).
  - exact C2.
Qed.
