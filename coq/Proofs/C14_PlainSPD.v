(* C14 — plain (1+lambda): SPD preservation of the success-rule covariance update and A A^T = C from the contract of the Cholesky routine. *)
From Coq Require Import ZArith.
From mathcomp Require Import all_ssreflect all_algebra.
From mathcomp Require Import ring.
From DV Require Import Model.C14_exec Proofs.C14_RankOne Proofs.C14_Elitist Proofs.C14_Refine.
Import Order.TTheory GRing.Theory Num.Theory.
Set Implicit Arguments. Unset Strict Implicit. Unset Printing Implicit Defensive.
Local Open Scope ring_scope.

(* Plain (1+lambda): the covariance stays symmetric positive definite under the success rule, so
   the Cholesky routine is always called inside its contract and A A^T = C after every update. *)
Section PlainSPD.
Variable R : rcfType.
Variable exp_ : R -> R.
Variable round_ : R -> R.
Notation RO := (ROps exp_ round_).
Variable n : nat.
Notation mx := (mx_of (R:=R) n).
Notation cv := (vec_of (R:=R) n).

Definition posdef (M : 'M[R]_n) := forall x : 'cV[R]_n, x != 0 -> 0 < (x^T *m M *m x) 0 0.
Definition symm (M : 'M[R]_n) := M^T = M.

Lemma quad_outer (x p : 'cV[R]_n) : (x^T *m (p *m p^T) *m x) 0 0 = ((p^T *m x) 0 0) ^+ 2.
Proof.
rewrite mulmxA -mulmxA -[x^T *m p]trmxK trmx_mul trmxK.
by rewrite [_ *m _]mx11_scalar [(p^T *m x)]mx11_scalar tr_scalar_mx -scalar_mxM !mxE eqxx !mulr1n expr2.
Qed.

Lemma posdef_update (C : 'M[R]_n) (p : 'cV[R]_n) (a b : R) :
  0 < a -> 0 <= b -> posdef C -> posdef (a *: C + b *: (p *m p^T)).
Proof.
move=> a0 b0 pd x x0.
rewrite mulmxDr mulmxDl -!scalemxAr -!scalemxAl mxE [X in X + _]mxE [X in _ + X]mxE quad_outer.
apply: ltr_paddr; first by rewrite mulr_ge0 ?sqr_ge0.
by rewrite mulr_gt0 // pd.
Qed.

Lemma symm_update (C : 'M[R]_n) (p : 'cV[R]_n) (a b : R) : symm C -> symm (a *: C + b *: (p *m p^T)).
Proof. by rewrite /symm => sC; rewrite linearD /= !linearZ /= sC trmx_mul trmxK. Qed.

Lemma scal_lemma (a c k : R) (M N : 'M[R]_n) :
  a *: M + c *: (N + k *: M) = (a + c * k) *: M + c *: N.
Proof. by rewrite scalerDr scalerA scalerDl addrA addrAC. Qed.

Variable P : pparams (T:=R).
Hypothesis ccov01 : 0 < pp_ccov P < 1.
Hypothesis cc01 : 0 <= pp_cc P <= 1.

Definition wf_ps (st : pstate (T:=R)) :=
  [/\ wfv n (ps_parent st), wfv n (ps_pc st), wfm n (ps_C st), symm (mx (ps_C st)) & posdef (mx (ps_C st))].

Theorem plain_update_spd st pop st' sorted :
  plain_update RO P st pop = Some (st', sorted) ->
  wf_ps st -> all (fun ind : pind (T:=R) => wfv n ind.1) pop ->
  wf_ps st' /\
  exists (a b : R) (p : 'cV[R]_n), [/\ 0 < a, 0 <= b &
     mx (ps_C st') = a *: mx (ps_C st) + b *: (p *m p^T)].
Proof.
move=> H [wp wpc wC sC pC] wpop.
have [best [[fb _ _ _ _]]] := plain_update_spec H.
have [bin _] := first_max_ub (@ind_le_total _ exp_ round_) (@ind_le_trans _ exp_ round_) fb.
have wb : wfv n best.1 := allP wpop _ bin.
case/andP: ccov01 => c0 c1; case/andP: cc01 => k0 k1.
have a1 : 0 < 1 - pp_ccov P by rewrite subr_gt0.
case: ifP => _; last first.
  case=> e1 e2 e3 e4; split; first by split; rewrite ?e1 ?e3 ?e4.
  by exists 1, 0, 0; split; rewrite ?ltr01 // e4 scale1r scale0r addr0.
case=> e1 e2; case: ifP => _ [e3 e4].
  have wpc' : wfv n (ps_pc st').
    by rewrite e3; apply: wfv_map2; rewrite wfv_vscale // wfv_vdivs; exact: wfv_map2.
  have EC : mx (ps_C st') = (1 - pp_ccov P) *: mx (ps_C st) + pp_ccov P *: (cv (ps_pc st') *m (cv (ps_pc st'))^T).
    by rewrite e4 mx_of_madd ?mx_of_mscale ?mx_of_outer ?wfm_mscale ?wfm_outer.
  split.
    split; rewrite ?e1 // ?EC.
    - by rewrite e4; apply: wfm_madd; apply: wfm_mscale => //; exact: wfm_outer.
    - exact: symm_update.
    - exact: posdef_update (ltW c0) pC.
  by exists (1 - pp_ccov P), (pp_ccov P), (cv (ps_pc st')); split=> //; exact: ltW.
have wpc' : wfv n (ps_pc st') by rewrite e3 wfv_vscale.
have a2 : 0 < 1 - pp_ccov P + pp_ccov P * (pp_cc P * (2%:R - pp_cc P)).
  by rewrite ltr_paddr // mulr_ge0 ?(ltW c0) // mulr_ge0 // subr_ge0 (le_trans k1) // ler1n.
have EC : mx (ps_C st') = (1 - pp_ccov P + pp_ccov P * (pp_cc P * (2%:R - pp_cc P))) *: mx (ps_C st)
                          + pp_ccov P *: (cv (ps_pc st') *m (cv (ps_pc st'))^T).
  rewrite e4 mx_of_madd ?mx_of_mscale ?mx_of_madd ?mx_of_mscale ?mx_of_outer
          ?wfm_mscale ?wfm_madd ?wfm_mscale ?wfm_outer //.
  exact: scal_lemma.
split.
  split; rewrite ?e1 // ?EC.
  - by rewrite e4; apply: wfm_madd; apply: wfm_mscale => //; apply: wfm_madd; rewrite ?wfm_mscale //; exact: wfm_outer.
  - exact: symm_update.
  - exact: posdef_update (ltW c0) pC.
by exists (1 - pp_ccov P + pp_ccov P * (pp_cc P * (2%:R - pp_cc P))), (pp_ccov P), (cv (ps_pc st')); split=> //; exact: ltW.
Qed.

(* contract of numpy.linalg.cholesky, as a hypothesis on the routine used by the model *)
Definition chol_contract :=
  forall C, wfm n C -> symm (mx C) -> posdef (mx C) ->
            wfm n (cholesky RO C) /\ mx (cholesky RO C) *m (mx (cholesky RO C))^T = mx C.

Theorem plain_update_factor st pop st' sorted :
  chol_contract ->
  plain_update RO P st pop = Some (st', sorted) ->
  wf_ps st -> all (fun ind : pind (T:=R) => wfv n ind.1) pop ->
  mx (ps_A st') *m (mx (ps_A st'))^T = mx (ps_C st').
Proof.
move=> chol H wf wpop.
have [[_ _ wC sC pC] _] := plain_update_spd H wf wpop.
have [best [[_ _ _ _ ->] _]] := plain_update_spec H.
by have [] := chol _ wC sC pC.
Qed.


(* along any history: C stays symmetric positive definite and A A^T = C *)
Definition factor_inv (st : pstate (T:=R)) :=
  [/\ wf_ps st, wfm n (ps_A st) & mx (ps_A st) *m (mx (ps_A st))^T = mx (ps_C st)].

Theorem plain_history_factor (evalf : seq R -> seq R) st0 draws log st log' :
  chol_contract ->
  plain_run RO P evalf st0 draws log = Some (st, log') -> factor_inv st0 -> factor_inv st.
Proof.
move=> chol; elim: draws st0 log => [|arz draws IH] st0 log /=; first by case=> <- _.
case R1: (plain_round _ _ _ _ _) => [[st1 sorted]|] // Hrun [wf wA _].
apply: (IH _ _ Hrun).
have [wp _ _ _ _] := wf.
have wpop : all (fun ind : pind (T:=R) => wfv n ind.1)
                [seq (x, evalf x) | x <- plain_generate RO st0 arz].
  rewrite all_map /plain_generate List_mapE all_map; apply/allP => z _ /=.
  by apply: wfv_map2 => //; rewrite wfv_vscale; exact: wfv_mv.
move: R1; rewrite /plain_round List_mapE => R1.
have [wf1 _] := plain_update_spd R1 wf wpop.
have F := plain_update_factor chol R1 wf wpop.
split=> //.
have [best [[_ _ _ _ ->] _]] := plain_update_spec R1.
by have [_ _ wC sC pC] := wf1; have [] := chol _ wC sC pC.
Qed.

End PlainSPD.
