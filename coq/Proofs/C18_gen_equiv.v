(* Tie (T) of C18: the definitions regenerated from deap/tools/support.py (coq/Gen/C18_gen.v, written by
   harness/c18_py2coq.py on every run) are the hand model Model/C18_Logbook.v, for all arguments and all states.
   The scripts symbolically execute the regenerated monadic text (msim) and use loop lemmas that are generic in
   the loop body, so renamed locals, hoisted subexpressions and split / merged statements go through; a refused
   method is an alias of the hand model's form and goes through the same scripts. *)
From Coq Require Import List ZArith Bool Lia ZifyBool.
From DV Require Import Base.PyList Base.C18_Lists Model.C18_Logbook Model.C18_GenRt Proofs.C18_Logbook.
From DV Require Import Gen.C18_gen.
Import ListNotations.
Local Open Scope Z_scope.

Ltac munf :=
  cbv beta zeta iota delta [item bind ret raise discard get_buffindex set_buffindex len_self iter_self super_pop str_self
                  for_chapters upd_recs list_append in_chapter indexM slice_range dict_delM
                  get_functions set_functions get_fields set_fields get_key for_items for_values
                  select_model delitem_model stream_model st_register_model st_compile_model
                  ms_compile_model ms_register_model] in *;
  cbn [recs buff chs hdr logh fst snd s_key s_funs s_fields] in *.

(* case analysis on whatever the symbolic execution is stuck on *)
Ltac mcase :=
  match goal with
  | H : ?c = _ |- context [if ?c then _ else _] => rewrite H
  | |- context [match py_get ?l ?i with _ => _ end] => destruct (py_get l i) eqn:?
  | |- context [if ?c then _ else _] =>
      lazymatch c with
      | context [match _ with _ => _ end] => fail
      | context [if _ then _ else _] => fail
      | _ => destruct c eqn:?
      end
  end.
Ltac msim := munf; repeat (first [reflexivity | progress cbn iota beta | mcase; munf]).

(* ---- pop ---- *)
Lemma each_chapter_pop_gen (body : M lb unit) (f : lb -> lb * res item) cs :
  (forall c, body c = discard f c) ->
  each_chapter body cs = let (cs', e) := pop_chapters f cs in (cs', match e with None => Ok tt | Some e => Err e end).
Proof.
  intro H. rewrite <- each_chapter_pop. induction cs as [|[k c] r IH]; cbn; auto. now rewrite H, IH.
Qed.

Ltac chapters_step f cs :=
  match goal with
  | |- context [each_chapter ?b cs] =>
      match b with
      | context [f ?j] =>
          rewrite (each_chapter_pop_gen b (f j) cs)
            by (let c := fresh in intro c; cbv beta delta [discard bind ret]; destruct (f j c) as [? [?|?]]; reflexivity);
          destruct (pop_chapters (f j) cs) as [? [?|]]
      end
  end.

(* the same call written with two arithmetically equal arguments *)
Ltac unify_calls f :=
  repeat match goal with
         | |- context [f ?a] =>
             match goal with
             | |- context [f ?b] => lazymatch a with b => fail | _ => replace a with b by lia end
             end
         end.

Lemma gen_pop_body_eq : forall f i l, gen_pop_body f i l = pop_body f i l.
Proof.
  intros f i [rs bf cs h g]. unfold gen_pop_body. try reflexivity.
  all: unfold pop_body; munf; destruct (py_get rs i) as [it|]; [|reflexivity].
  all: repeat (cbn iota beta; munf; try mcase).
  all: try (exfalso; lia).
  all: unify_calls f; try (chapters_step f cs); try reflexivity.
  all: try (repeat f_equal; lia).
Qed.

Theorem gen_pop_eq : forall i l, gen_pop i l = lb_pop i l.
Proof. intros. unfold gen_pop. apply (iter_pop_body _ gen_pop_body_eq). lia. Qed.

(* ---- stream ---- *)
(* the text does not depend on the stream mark *)
Lemma lb_text_buff start rs b b' cs h g : lb_text start (LB rs b cs h g) = lb_text start (LB rs b' cs h g).
Proof. reflexivity. Qed.

Theorem gen_stream_eq : forall l, gen_stream l = lb_stream l.
Proof.
  intros [rs bf cs h g]. unfold gen_stream. try reflexivity.
  all: unfold lb_stream; msim.
  all: rewrite ?(lb_text_buff _ rs _ bf); try destruct (lb_text _ _); reflexivity.
Qed.

(* ---- __delitem__ ---- *)
Lemma forM_pop_all_gen (body : Z -> unit -> M lb unit) idxs :
  (forall i u l, body i u l = discard (lb_pop i) l) ->
  forall l, forM idxs body tt l =
            let (l', e) := pop_all idxs l in (l', match e with None => Ok tt | Some e => Err e end).
Proof.
  intros H l. rewrite <- (forM_pop_all lb_pop) by reflexivity. apply forM_ext. intros x [] s _. apply H.
Qed.

Lemma discard_gen_pop i l : bind (gen_pop i) (fun _ => ret tt) l = discard (lb_pop i) l.
Proof. unfold discard, bind. now rewrite gen_pop_eq. Qed.

Theorem gen_delitem_int_eq : forall i l, gen_delitem (KInt i) l = lb_delitem i l.
Proof.
  intros i l. unfold gen_delitem. try reflexivity.
  all: unfold lb_delitem; cbv beta zeta iota delta [bind ret discard]; rewrite ?gen_pop_eq.
  all: destruct (lb_pop i l) as [l' [x|e]]; reflexivity.
Qed.

Theorem gen_delitem_slice_eq : forall a b c l, gen_delitem (KSlice a b c) l = lb_delslice a b c l.
Proof.
  intros a b c l. unfold gen_delitem. try reflexivity.
  all: unfold lb_delslice; cbv beta zeta iota delta [bind ret len_self slice_range raise].
  all: destruct ((match c with Some s => s | None => 1 end) =? 0) eqn:E; [reflexivity|].
  all: cbv beta zeta iota.
  all: match goal with
  | |- context [forM ?ix ?body tt _] =>
      rewrite (forM_pop_all_gen body ix)
        by (let i := fresh in let u := fresh in let s := fresh in
            intros i u s; cbv beta delta [discard bind ret]; rewrite ?gen_pop_eq; reflexivity)
  end.
  all: destruct (pop_all _ l) as [l' [e|]]; reflexivity.
Qed.

(* ---- select ---- *)
Theorem gen_select_eq : forall names l, gen_select names l = (l, Ok (lb_select names l)).
Proof.
  intros names l. unfold gen_select. try reflexivity.
  all: unfold lb_select, column; destruct names as [|n [|n2 r]];
    [ reflexivity
    | cbn [zlen length Z.of_nat Z.eqb Pos.eqb Pos.of_succ_nat]
    | replace (zlen (n :: n2 :: r) =? 1) with false by (unfold zlen; cbn [length]; lia) ].
  all: cbv beta zeta iota delta [bind ret iter_self indexM raise].
  all: repeat (erewrite mapM_pure
                 by (intros; cbv beta zeta iota delta [bind ret iter_self indexM raise]; reflexivity);
               cbv beta zeta iota).
  all: reflexivity.
Qed.

(* ---- Statistics / MultiStatistics ---- *)
Lemma dict_set_fresh {V} k (v : V) acc : ~ In k (map fst acc) -> dict_set k v acc = acc ++ [(k, v)].
Proof.
  induction acc as [|[k' v'] r IH]; cbn; auto. intro N.
  destruct (k =? k') eqn:E; [exfalso; apply N; left; lia|]. rewrite IH; auto.
Qed.

(* filling a dictionary key by key from a list with distinct keys = mapping over the list *)
Lemma fold_fill {V W} (h : V -> W) (fs : list (name * V)) acc :
  NoDup (map fst acc ++ map fst fs) ->
  fold_left (fun a kv => dict_set (fst kv) (h (snd kv)) a) fs acc = acc ++ map (fun kv => (fst kv, h (snd kv))) fs.
Proof.
  revert acc; induction fs as [|[k v] r IH]; intros acc ND; cbn; [now rewrite app_nil_r|].
  rewrite dict_set_fresh.
  - rewrite IH; [now rewrite <- app_assoc|]. rewrite map_app. cbn. now rewrite <- app_assoc.
  - intro Hin. apply NoDup_remove_2 in ND. apply ND. apply in_or_app. now left.
Qed.

Lemma forM_fill {S V W} (fs : list (name * V)) (body : name * V -> list (name * W) -> M S (list (name * W)))
      (h : V -> W) s :
  NoDup (map fst fs) ->
  (forall k v acc, In (k, v) fs -> body (k, v) acc s = (s, Ok (dict_set k (h v) acc))) ->
  forM fs body [] s = (s, Ok (map (fun kv => (fst kv, h (snd kv))) fs)).
Proof.
  intros ND H.
  rewrite (forM_pure fs body (fun a kv => dict_set (fst kv) (h (snd kv)) a)).
  - now rewrite fold_fill.
  - intros [k v] a Hin. now apply H.
Qed.

Lemma dict_of_fill {V W} (fs : list (name * V)) (g : name * V -> name * W) (h : V -> W) :
  NoDup (map fst fs) -> (forall k v, In (k, v) fs -> g (k, v) = (k, h v)) ->
  dict_of (map g fs) = map (fun kv => (fst kv, h (snd kv))) fs.
Proof.
  intros ND H. unfold dict_of.
  rewrite (map_ext_in g (fun kv => (fst kv, h (snd kv)))) by (intros [k v] Hin; now apply H).
  assert (E : forall (l : list (name * V)) acc,
             fold_left (fun a (kv : name * W) => dict_set (fst kv) (snd kv) a) (map (fun kv => (fst kv, h (snd kv))) l) acc =
             fold_left (fun a kv => dict_set (fst kv) (h (snd kv)) a) l acc).
  { induction l as [|x r IH]; intro acc; cbn; auto. }
  rewrite E. now rewrite fold_fill.
Qed.

Section StatsEq.
  Context {A B C : Type}.

  Theorem gen_st_register_eq {Args} nm (f : Args -> list B -> C) a (s : stats A B C) :
    gen_st_register nm f a s = (st_register nm f a s, Ok tt).
  Proof. unfold gen_st_register. try reflexivity. all: msim. Qed.

  Theorem gen_st_compile_eq (data : list A) (s : stats A B C) :
    NoDup (map fst (s_funs s)) -> gen_st_compile data s = (s, Ok (st_compile s data)).
  Proof.
    intro ND. unfold gen_st_compile. try reflexivity.
    all: unfold st_compile; munf.
    all: repeat (erewrite (mapM_pure _ (s_key s)) by (intros; reflexivity); cbv beta zeta iota).
    all: first
      [ rewrite (forM_fill (s_funs s) _ (fun func => func (map (s_key s) data))) by (auto; intros; reflexivity);
        reflexivity
      | rewrite (dict_of_fill (s_funs s) _ (fun func => func (map (s_key s) data))) by (auto; intros; reflexivity);
        reflexivity ].
  Qed.

  Lemma each_item_fill {W} (body : name -> list (name * W) -> M (stats A B C) (list (name * W))) (h : stats A B C -> W)
        (m : mstats A B C) acc :
    NoDup (map fst acc ++ map fst m) ->
    (forall k s a, In (k, s) m -> body k a s = (s, Ok (dict_set k (h s) a))) ->
    each_item body m acc = (m, Ok (acc ++ map (fun ks => (fst ks, h (snd ks))) m)).
  Proof.
    revert acc; induction m as [|[k s] r IH]; intros acc ND H; cbn; [now rewrite app_nil_r|].
    rewrite H by now left. rewrite IH.
    - rewrite dict_set_fresh; [now rewrite <- app_assoc|].
      intro Hin. apply NoDup_remove_2 in ND. apply ND. apply in_or_app. now left.
    - rewrite dict_set_fresh.
      + rewrite map_app. cbn. now rewrite <- app_assoc.
      + intro Hin. apply NoDup_remove_2 in ND. apply ND. apply in_or_app. now left.
    - intros; apply H; now right.
  Qed.

  Lemma each_item_map (body : name -> unit -> M (stats A B C) unit) (g : stats A B C -> stats A B C) (m : mstats A B C) :
    (forall k s, In (k, s) m -> body k tt s = (g s, Ok tt)) ->
    each_item body m tt = (map (fun ks => (fst ks, g (snd ks))) m, Ok tt).
  Proof.
    induction m as [|[k s] r IH]; intro H; cbn; auto.
    rewrite H by now left. rewrite IH; auto. intros; apply H; now right.
  Qed.

  Definition funs_distinct (m : mstats A B C) : Prop := forall k s, In (k, s) m -> NoDup (map fst (s_funs s)).

  Theorem gen_ms_compile_eq (data : list A) (m : mstats A B C) :
    NoDup (map fst m) -> funs_distinct m -> gen_ms_compile data m = (m, Ok (ms_compile m data)).
  Proof.
    intros ND FD. unfold gen_ms_compile. try reflexivity.
    all: unfold ms_compile; munf.
    all: rewrite (each_item_fill _ (fun s => st_compile s data)); [reflexivity|exact ND|].
    all: intros k s a Hin; cbv beta zeta iota delta [bind ret]; rewrite gen_st_compile_eq by (eapply FD; eauto); reflexivity.
  Qed.

  Theorem gen_ms_register_eq {Args} nm (f : Args -> list B -> C) a (m : mstats A B C) :
    gen_ms_register nm f a m = (ms_register nm f a m, Ok tt).
  Proof.
    unfold gen_ms_register. try reflexivity.
    all: unfold ms_register; munf.
    all: rewrite (each_item_map _ (st_register nm f a)); [reflexivity|].
    all: intros k s Hin; cbv beta zeta iota delta [bind ret]; rewrite gen_st_register_eq; reflexivity.
  Qed.
End StatsEq.

(* ---- record ---- *)
Definition nondict (kv : name * value) : bool := negb (is_dictb (snd kv)).

Lemma dict_filter_scalars infos : dict_filter (fun _ v => negb (is_dictb v)) infos = inject (scalars infos).
Proof.
  unfold dict_filter, inject, scalars. induction infos as [|[k [z|d]] r IH]; cbn; auto. now rewrite IH.
Qed.
Lemma to_entry_filter infos : to_entry (filter nondict infos) = Some (scalars infos).
Proof.
  unfold scalars. induction infos as [|[k [z|d]] r IH]; cbn; auto. now rewrite IH.
Qed.
Lemma to_entry_inject e : to_entry (inject e) = Some e.
Proof. unfold inject. induction e as [|[k z] r IH]; cbn; auto. now rewrite IH. Qed.
Lemma dict_del_app {V} k (v : V) pre r :
  ~ In k (map fst pre) -> dict_del k (pre ++ (k, v) :: r) = Some (pre ++ r).
Proof.
  induction pre as [|[k' v'] p IH]; cbn; intro N; [now rewrite Z.eqb_refl|].
  destruct (k =? k') eqn:E; [exfalso; apply N; left; lia|]. rewrite IH; auto.
Qed.

Definition failed {X} (r : lb * res X) : Prop := exists l e, r = (l, Err e).

(* the loop of record over a snapshot of the items, deleting the dictionary-valued keys from infos on the way:
   generic in the loop body, which is only required to behave like "skip" on scalars and like
   "record into the chapter, then del infos[key]" on dictionaries *)
Lemma record_loop_del (body : name * value -> dict -> M lb dict) (rc : dict -> M lb unit) :
  (forall k z cur l, body (k, VInt z) cur l = (l, Ok cur)) ->
  (forall k d cur l, body (k, VDict d) cur l = bind (in_chapter k (rc d)) (fun _ => dict_delM k cur) l) ->
  forall its pre l, NoDup (map fst (pre ++ its)) ->
    match record_loop (fun d c => opt_of (rc d c)) its (chs l) with
    | Some cs' => forM its body (pre ++ its) l =
                  (LB (recs l) (buff l) cs' (hdr l) (logh l), Ok (pre ++ filter nondict its))
    | None => failed (forM its body (pre ++ its) l)
    end.
Proof.
  intros HI HD. induction its as [|[k [z|d]] r IH]; intros pre l ND.
  - cbn. destruct l; now rewrite app_nil_r.
  - cbn [record_loop forM]. unfold bind. rewrite !HI.
    specialize (IH (pre ++ [(k, VInt z)]) l). rewrite <- app_assoc in IH. cbn [app] in IH.
    specialize (IH ND). destruct (record_loop _ r (chs l)); auto.
    rewrite IH. cbn [filter nondict snd is_dictb negb]. now rewrite <- app_assoc.
  - cbn [record_loop forM]. unfold bind. rewrite !HD. unfold bind, in_chapter.
    destruct (rc d (chapter_of k (chs l))) as [c' [u|e]]; cbn [opt_of].
    + unfold dict_delM. rewrite dict_del_app.
      2:{ rewrite map_app in ND. cbn in ND. apply NoDup_remove_2 in ND. intro H; apply ND. apply in_or_app; now left. }
      cbv beta iota delta [ret].
      assert (ND' : NoDup (map fst (pre ++ r))).
      { rewrite map_app in *. cbn in ND. now apply NoDup_remove_1 in ND. }
      specialize (IH pre (LB (recs l) (buff l) (dict_set k c' (chs l)) (hdr l) (logh l)) ND'). cbn [chs recs buff hdr logh] in IH.
      destruct (record_loop _ r (dict_set k c' (chs l))); auto.
    + eexists _, _; reflexivity.
Qed.

(* the same loop when infos is left alone (and the scalar part is appended instead) *)
Lemma record_loop_keep (body : name * value -> unit -> M lb unit) (rc : dict -> M lb unit) :
  (forall k z l, body (k, VInt z) tt l = (l, Ok tt)) ->
  (forall k d l, body (k, VDict d) tt l = in_chapter k (rc d) l) ->
  forall its l,
    match record_loop (fun d c => opt_of (rc d c)) its (chs l) with
    | Some cs' => forM its body tt l = (LB (recs l) (buff l) cs' (hdr l) (logh l), Ok tt)
    | None => failed (forM its body tt l)
    end.
Proof.
  intros HI HD. induction its as [|[k [z|d]] r IH]; intros l.
  - cbn. now destruct l.
  - cbn [record_loop forM]. unfold bind. rewrite !HI. apply IH.
  - cbn [record_loop forM]. unfold bind. rewrite !HD. unfold in_chapter.
    destruct (rc d (chapter_of k (chs l))) as [c' [[]|e]]; cbn [opt_of].
    + specialize (IH (LB (recs l) (buff l) (dict_set k c' (chs l)) (hdr l) (logh l))). cbn [chs recs buff hdr logh] in IH.
      destruct (record_loop _ r (dict_set k c' (chs l))); auto.
    + eexists _, _; reflexivity.
Qed.

(* normal form of a monadic term applied to a state: case analysis on every call that is not a constructor *)
Ltac mdestr :=
  cbv beta iota zeta delta [bind ret discard];
  repeat (match goal with
          | |- context [match ?x with pair _ _ => _ end] =>
              lazymatch x with (_, _) => fail | context [match _ with _ => _ end] => fail | _ => destruct x as [? [?|?]] end
          end; cbv beta iota zeta);
  repeat match goal with u : unit |- _ => destruct u end;
  try reflexivity.

(* rewrite with an equation about a forM term that is only convertible to the one in the goal *)
Ltac rew_forM H :=
  match type of H with
  | ?L = _ => match goal with |- context [forM ?a ?b ?c ?d] => change (forM a b c d) with L end
  end; rewrite H.

Lemma opt_of_failed (r : lb * res unit) : failed r -> opt_of r = None.
Proof. intros (l & e & ->). reflexivity. Qed.

Lemma gen_record_body_ok : forall uid f infos l,
  NoDup (map fst infos) -> opt_of (gen_record_body uid f infos l) = opt_of (record_body uid f infos l).
Proof.
  intros uid f infos l ND. unfold gen_record_body. try reflexivity.
  all: unfold record_body; rewrite ?dict_filter_scalars; cbv zeta.
  all: set (rc := fun d : dict => f (dict_update d (inject (scalars infos)))).
  all: change (record_loop _ infos (chs l)) with (record_loop (fun d c => opt_of (rc d c)) infos (chs l)).
  all: unfold bind at 1.
  all: first
    [ (* infos loses its dictionary-valued keys in the loop and is appended *)
      match goal with
      | |- context [forM _ ?body _ _] =>
          let H := fresh in
          assert (H := record_loop_del body rc
                         ltac:(intros; reflexivity) ltac:(intros; subst rc; mdestr) infos [] l ND);
          cbn [app] in H; destruct (record_loop _ infos (chs l)) as [cs'|];
          [ rew_forM H; unfold list_append; rewrite to_entry_filter; reflexivity
          | destruct H as (l1 & e & H); rew_forM H; reflexivity ]
      end
    | (* infos is left alone, its scalar part is appended *)
      match goal with
      | |- context [forM _ ?body tt _] =>
          let H := fresh in
          assert (H := record_loop_keep body rc
                         ltac:(intros; reflexivity) ltac:(intros; subst rc; mdestr) infos l);
          destruct (record_loop _ infos (chs l)) as [cs'|];
          [ rew_forM H; unfold list_append; rewrite to_entry_inject; reflexivity
          | destruct H as (l1 & e & H); rew_forM H; reflexivity ]
      end ].
Qed.

Lemma wf_dict_iff d : wf_dict d <-> NoDup (map fst d) /\ forall k v, In (k, v) d -> wf_value v.
Proof.
  unfold wf_dict. cbn [wf_value]. split; intros [ND H]; split; auto.
  - induction d as [|[k0 v0] r IH]; cbn in *; [tauto|]. destruct H as [H0 H].
    intros k v [E|Hin]; [injection E as <- <-; auto|]. apply IH with k; auto. now inversion ND.
  - clear ND. induction d as [|[k0 v0] r IH]; cbn; auto. split; [apply (H k0); now left|].
    apply IH. intros; eapply H; right; eauto.
Qed.

Lemma wf_update infos k d :
  wf_dict infos -> In (k, VDict d) infos -> wf_dict (dict_update d (inject (scalars infos))).
Proof.
  intros W Hin. apply wf_dict_iff in W as [_ W]. specialize (W k _ Hin). fold (wf_dict d) in W.
  apply wf_dict_iff in W as [ND W]. apply wf_dict_iff. split; [now apply update_NoDup|].
  intros k' v Hv. apply dict_update_In in Hv as [Hv|Hv]; [eauto|]. cbn [snd] in Hv.
  unfold inject in Hv. rewrite map_map in Hv. apply in_map_iff in Hv as (x & <- & _). exact I.
Qed.

Lemma record_loop_ext (f g : dict -> lb -> option lb) items cs :
  (forall k d c, In (k, VDict d) items -> f d c = g d c) -> record_loop f items cs = record_loop g items cs.
Proof.
  revert cs; induction items as [|[k [z|d]] r IH]; intros cs H; cbn; auto.
  - apply IH. intros; eapply H; right; eauto.
  - rewrite (H k) by now left. destruct (g d (chapter_of k cs)); auto. apply IH. intros; eapply H; right; eauto.
Qed.

(* for every Python dict (keys distinct at every level): the regenerated record, run with the same fuel, is the
   model's lb_record (None = an exception, which only running out of fuel can cause) *)
Theorem gen_record_eq : forall fuel uid infos l,
  wf_dict infos -> opt_of (gen_record fuel uid infos l) = lb_record fuel uid infos l.
Proof.
  induction fuel as [|n IH]; intros uid infos l W; [reflexivity|].
  unfold gen_record. cbn [iter_fuel]. rewrite gen_record_body_ok by (apply wf_dict_iff in W; tauto).
  unfold record_body. cbn [lb_record].
  rewrite (record_loop_ext _ (fun d c => lb_record n uid (dict_update d (inject (scalars infos))) c)).
  - destruct (record_loop _ infos (chs l)); reflexivity.
  - intros k d c Hin. apply (IH uid). eapply wf_update; eauto.
Qed.

Definition wf_op (o : op) : Prop := match o with ORecord infos => wf_dict infos | _ => True end.

(* ---- histories on the regenerated methods ---- *)
Definition gen_step (s : state) (o : op) : state * out :=
  let l := st_lb s in
  let n := st_next s in
  match o with
  | ORecord infos =>
      match gen_record (S (ddepth infos)) n infos l with
      | (l', Ok _) => (mkstate l' (S n), ONone)
      | (_, Err _) => (s, OErr OutOfFuel)
      end
  | OSelect p names =>
      (s, match find_path p l with
          | Some c => match gen_select names c with (_, Ok r) => OSel r | (_, Err e) => OErr e end
          | None => OErr KeyError
          end)
  | OStream => let (l', r) := gen_stream l in (mkstate l' n, text_out r)
  | OPop i =>
      let (l', r) := gen_pop (match i with Some i => i | None => 0 end) l in
      (mkstate l' n, match r with Ok (u, e) => OItem u e | Err e => OErr e end)
  | ODelItem i => let (l', r) := gen_delitem (KInt i) l in (mkstate l' n, unit_out r)
  | ODelSlice a b c => let (l', r) := gen_delitem (KSlice a b c) l in (mkstate l' n, unit_out r)
  | _ => step s o
  end.
Fixpoint gen_run (s : state) (h : list op) : list (out * state) :=
  match h with
  | [] => []
  | o :: r => let (s', x) := gen_step s o in (x, s') :: gen_run s' r
  end.
Definition gen_final (s : state) (h : list op) : state := fold_left (fun s o => fst (gen_step s o)) h s.
Definition gen_outs (s : state) (h : list op) : list out := map fst (gen_run s h).

Theorem gen_step_eq : forall s o, wf_op o -> gen_step s o = step s o.
Proof.
  intros s o W. destruct o as [infos|pth names| | |i|i|a b c| |hd|g]; cbn [gen_step step]; auto.
  all: try (cbn in W; rewrite <- (gen_record_eq _ _ _ _ W);
            destruct (gen_record (S (ddepth infos)) (st_next s) infos (st_lb s)) as [l' [[]|e]]; reflexivity).
  all: try (destruct (find_path pth (st_lb s)); auto; now rewrite gen_select_eq).
  all: rewrite ?gen_stream_eq, ?gen_pop_eq, ?gen_delitem_int_eq, ?gen_delitem_slice_eq; reflexivity.
Qed.

Definition wf_hist (h : list op) : Prop := Forall wf_op h.

Theorem gen_run_eq : forall h s, wf_hist h -> gen_run s h = run s h.
Proof.
  induction h as [|o r IH]; intros s W; cbn; auto. inversion W; subst.
  rewrite gen_step_eq by auto. destruct (step s o). now rewrite IH.
Qed.
Theorem gen_final_eq : forall h s, wf_hist h -> gen_final s h = final s h.
Proof.
  unfold gen_final, final. induction h as [|o r IH]; intros s W; cbn; auto. inversion W; subst.
  now rewrite gen_step_eq, IH.
Qed.
Theorem gen_outs_eq : forall h s, wf_hist h -> gen_outs s h = outs s h.
Proof. intros. unfold gen_outs, outs. now rewrite gen_run_eq. Qed.
