(* Tie (T) for the packaged loops, registered under property C02: the definitions REGENERATED from the
   current text of eaSimple / eaMuPlusLambda / eaMuCommaLambda (coq/Gen/C02_gen_loops.v, written by
   harness/c02_py2coq.py on every run) are the composed loop models of Model/C03_Full.v:

     gen_eaSimple_eq        : to_fres (gen_eaSimple .. cxpb mutpb ngen (mkl (finit h d pop) sels)) = full_simple .. h d pop sels
     gen_eaMuPlusLambda_eq  : ... = full_plus  .. lambda_ cxpb mutpb h d pop sels        (for every mu)
     gen_eaMuCommaLambda_eq : ... = full_comma .. mu lambda_ cxpb mutpb h d pop sels

   with ngen = number of recorded answers of toolbox.select, for all heaps, draw streams, populations,
   operator / evaluate oracles.  The regenerated loops call the REGENERATED gen_varAnd / gen_varOr
   (Gen/C02_gen.v); gen_varAnd_eq / gen_varOr_eq turn them into C02's var_and / var_or.

   As in Proofs/C02_gen_equiv.v nothing matches the generated text syntactically: the generation loop is
   rewritten by a lemma generic in its body (gen_loop: every iteration must do what one fstep_* of the
   model does, consuming one selection answer), the evaluation loop by eval_loop (generic in its body:
   one evaluate call and one fitness assignment on the same individual), and everything else is executed
   statement by statement on an explicit state (lstep).  A loop the translator refused is, in the
   generated file, the hand model run on the state (model_simple / model_plus / model_comma): its lemma
   is closed by the first alternative of the proof. *)
From Coq Require Import List ZArith Bool Arith Lia.
From DV Require Model.C02_Variation.
From DV Require Import Base.PyList Model.C02_GenRt Model.C03_Loops Model.C03_Full Model.C02_GenLoopsRt.
From DV Require Gen.C02_gen Proofs.C02_gen_equiv.
From DV Require Import Gen.C02_gen_loops.
Import ListNotations.
Local Open Scope nat_scope.

(* range(1, n + 1): the generation numbers *)
Lemma range_gens n :
  py_range3 1 (Z.of_nat n + 1) 1 = map (fun k => (1 + Z.of_nat k * 1)%Z) (seq 0 n).
Proof.
  unfold py_range3. f_equal. f_equal. unfold range_count. cbn [Z.ltb Z.compare].
  destruct (1 <? Z.of_nat n + 1)%Z eqn:E.
  - rewrite Z.div_1_r. lia.
  - apply Z.ltb_ge in E. assert (n = 0) by lia. subst. reflexivity.
Qed.

Lemma snoc_last_app {A} (c0 : list (list A)) pre x : snoc_last (c0 ++ [pre]) x = c0 ++ [pre ++ [x]].
Proof. unfold snoc_last. rewrite rev_app_distr. cbn. now rewrite rev_involutive. Qed.

Section L.
Context {G F T : Type}.
Variable evaluate : G -> F.
Variable fle : F -> F -> bool.
Variables ltb leb : T -> T -> bool.
Variable add : T -> T -> T.
Variable one : T.
Variable mate_o : nat -> G * option F -> G * option F -> V.mate_ans G F.
Variable mut_o : nat -> G * option F -> V.mut_ans G F.
Notation fstate := (@fstate G F T).
Notation lstate := (@lstate G F T).
Notation LM := (M lstate).

(* members of invalid_of (view h) l are allocated individuals *)
Lemma invalid_lt (h : V.heap G F) l : Forall (fun u => u < V.ni h) (invalid_of (view h) l).
Proof.
  unfold invalid_of. apply Forall_forall. intros u Hu. apply filter_In in Hu. destruct Hu as [_ Hu].
  unfold is_invalid, view in Hu. destruct (u <? V.ni h) eqn:E; [apply Nat.ltb_lt in E; exact E|discriminate].
Qed.

(* ---- for ind, fit in zip(invalid_ind, fitnesses): ind.fitness.values = fit ---- *)
Definition eval1 (fs : fstate) (u : uid) : fstate :=
  let g := V.geno (V.ind_at (f_hp fs) u) in
  mkfstate (set_fit (f_hp fs) u (evaluate g)) (f_dr fs) (f_kc fs) (f_pop fs) (snoc_last (f_calls fs) (u, g))
           (f_log fs) (f_shown fs) (f_best fs).

Lemma eval_loop (body : uid * uid -> unit -> LM unit) :
  (forall u s, body (u, u) tt s = (mkl (eval1 (l_fs s) u) (l_sels s), inr tt)) ->
  forall l fs sels c0 pre, Forall (fun u => u < V.ni (f_hp fs)) l -> f_calls fs = c0 ++ [pre] ->
  for_each (zip l l) body tt (mkl fs sels) =
    (let '(h2, log) := eval_heap evaluate (f_hp fs) l in
     (mkl (mkfstate h2 (f_dr fs) (f_kc fs) (f_pop fs) (c0 ++ [pre ++ log]) (f_log fs) (f_shown fs) (f_best fs)) sels, inr tt)).
Proof.
  intros Hb. induction l as [|u r IH]; intros fs sels c0 pre Hall Hc.
  - cbn. rewrite app_nil_r, <- Hc. destruct fs; reflexivity.
  - inversion Hall as [|? ? Hu Hr]; subst.
    cbn [zip for_each eval_heap]. rewrite C02_gen_equiv.bind_unfold, Hb. cbn [l_fs l_sels].
    apply Nat.ltb_lt in Hu. rewrite Hu.
    rewrite (IH (eval1 fs u) sels c0 (pre ++ [(u, V.geno (V.ind_at (f_hp fs) u))])).
    + cbn [eval1 f_hp f_dr f_kc f_pop f_log f_shown f_best].
      destruct (eval_heap evaluate (set_fit (f_hp fs) u (evaluate (V.geno (V.ind_at (f_hp fs) u)))) r) as [h2 log].
      now rewrite <- app_assoc.
    + cbn [eval1 f_hp set_fit V.ni]. exact Hr.
    + cbn [eval1 f_calls]. rewrite Hc. apply snoc_last_app.
Qed.

(* ---- for gen in range(1, ngen + 1), generic in the body ---- *)
Definition step_ok {C} (r : lstate * (V.exn + C)) (m : @fres G F T) (rest : list (list nat)) : Prop :=
  match m with
  | FOk fs' => exists c', r = (mkl fs' rest, inr c')
  | FRaise e => exists s', r = (s', inl e)
  end.

Lemma gen_loop {C} (body : Z -> C -> LM C) (f : nat -> Z) (step : nat -> fstate -> list nat -> @fres G F T) g0
      (Inv : fstate -> Prop) (P : list nat -> Prop) :
  (forall k c fs sel rest, Inv fs -> P sel ->
     step_ok (body (f k) c (mkl fs (sel :: rest))) (step (g0 + k) fs sel) rest) ->
  (forall g fs sel fs', Inv fs -> P sel -> step g fs sel = FOk fs' -> Inv fs') ->
  forall sels k c fs, Inv fs -> Forall P sels ->
    to_fres (for_each (map f (seq k (length sels))) body c (mkl fs sels)) = frun step (g0 + k) fs sels.
Proof.
  intros Hb Hi. induction sels as [|sel rest IH]; intros k c fs HI HP.
  - reflexivity.
  - inversion HP as [|? ? Hsel Hrest]; subst.
    cbn [length seq map for_each frun]. rewrite C02_gen_equiv.bind_unfold.
    pose proof (Hb k c fs sel rest HI Hsel) as H. unfold step_ok in H.
    pose proof (Hi (g0 + k) fs sel) as Hi'.
    destruct (step (g0 + k) fs sel) as [fs'|e].
    + destruct H as [c' ->]. rewrite IH; [now rewrite Nat.add_succ_r | exact (Hi' fs' HI Hsel eq_refl) | exact Hrest].
    + destruct H as [s' ->]. reflexivity.
Qed.

End L.

(* ---- the statements applied to an explicit state (all by computation) ---- *)
Section Prims.
Context {G F T : Type}.
Variable evaluate : G -> F.
Variable fle : F -> F -> bool.
Variable mate_o : nat -> G * option F -> G * option F -> V.mate_ans G F.
Variable mut_o : nat -> G * option F -> V.mut_ans G F.
Notation fstate := (@fstate G F T).
Variables (fs : fstate) (sels : list (list nat)).

Lemma l_pop_eq : l_pop (mkl fs sels) = (mkl fs sels, inr (f_pop fs)).
Proof. reflexivity. Qed.
Lemma l_setpop_eq l : l_setpop l (mkl fs sels)
  = (mkl (mkfstate (f_hp fs) (f_dr fs) (f_kc fs) l (f_calls fs) (f_log fs) (f_shown fs) (f_best fs)) sels, inr tt).
Proof. reflexivity. Qed.
Lemma l_invalid_eq l : l_invalid l (mkl fs sels) = (mkl fs sels, inr (invalid_of (view (f_hp fs)) l)).
Proof. reflexivity. Qed.
Lemma l_map_evaluate_eq l : l_map_evaluate l (mkl fs sels)
  = (mkl (mkfstate (f_hp fs) (f_dr fs) (f_kc fs) (f_pop fs) (f_calls fs ++ [[]]) (f_log fs) (f_shown fs) (f_best fs)) sels, inr l).
Proof. reflexivity. Qed.
Lemma l_hof_update_eq l : l_hof_update fle l (mkl fs sels)
  = (mkl (mkfstate (f_hp fs) (f_dr fs) (f_kc fs) (f_pop fs) (f_calls fs) (f_log fs) (f_shown fs ++ [l])
                   (hof_update fle (f_best fs) (view (f_hp fs)) l)) sels, inr tt).
Proof. reflexivity. Qed.
Lemma l_compile_eq l : l_compile l (mkl fs sels) = (mkl fs sels, inr (snap (view (f_hp fs)) l)).
Proof. reflexivity. Qed.
Lemma l_new_logbook_eq : l_new_logbook (mkl fs sels)
  = (mkl (mkfstate (f_hp fs) (f_dr fs) (f_kc fs) (f_pop fs) (f_calls fs) [] (f_shown fs) (f_best fs)) sels, inr tt).
Proof. reflexivity. Qed.
Lemma l_record_eq g n r : l_record g n r (mkl fs sels)
  = (mkl (mkfstate (f_hp fs) (f_dr fs) (f_kc fs) (f_pop fs) (f_calls fs)
                   (f_log fs ++ [mkrec (Z.to_nat g) (Z.to_nat n) r (f_best fs)]) (f_shown fs) (f_best fs)) sels, inr tt).
Proof. reflexivity. Qed.
Lemma l_select_eq l k sel : Z.of_nat (length sel) = k ->
  l_select l k (mkl fs (sel :: sels)) = (mkl fs sels, inr (select_by l sel)).
Proof. intros <-. unfold l_select. cbn [l_sels l_fs]. now rewrite Z.eqb_refl. Qed.
Lemma l_call_var_eq f : l_call_var mate_o mut_o f (mkl fs sels)
  = match f (mate_at mate_o (f_kc fs)) (mut_at mut_o (f_kc fs)) (V.start (f_hp fs) (f_dr fs)) with
    | (s', inr off) =>
        (mkl (mkfstate (V.hp s') (V.dr s') (f_kc fs + V.kc s') (f_pop fs) (f_calls fs) (f_log fs) (f_shown fs) (f_best fs)) sels,
         inr off)
    | (_, inl e) => (mkl fs sels, inl e)
    end.
Proof. reflexivity. Qed.
Lemma ret_eq {A} (a : A) : ret a (mkl fs sels) = (mkl fs sels, inr a).
Proof. reflexivity. Qed.
End Prims.

Ltac lproj := cbn [f_hp f_dr f_kc f_pop f_calls f_log f_shown f_best l_fs l_sels].

(* one statement: expose the outermost bind, evaluate the statement on the explicit state *)
Ltac lstep :=
  rewrite C02_gen_equiv.bind_unfold;
  first [ rewrite l_pop_eq | rewrite l_setpop_eq | rewrite l_invalid_eq | rewrite l_map_evaluate_eq
        | rewrite l_hof_update_eq | rewrite l_compile_eq | rewrite l_new_logbook_eq | rewrite l_record_eq
        | rewrite l_select_eq by (unfold zlen in *; rewrite ?app_length; lia) | rewrite ret_eq ];
  lproj; cbv beta iota.

(* what follows the generation loop neither raises nor touches the state (return population, logbook) *)
Lemma to_fres_tail {G F T A B} (m : M (@lstate G F T) A) (f : A -> M (@lstate G F T) B) s :
  (forall a s1, exists b, f a s1 = (s1, inr b)) -> to_fres (C02_GenRt.bind m f s) = to_fres (m s).
Proof.
  intros H. unfold C02_GenRt.bind. destruct (m s) as [s1 [e|a]]; [reflexivity|]. destruct (H a s1) as [b ->]. reflexivity.
Qed.

Ltac ltail :=
  rewrite to_fres_tail;
  [ | intros a s1; repeat match goal with x : (_ * _)%type |- _ => destruct x end; eexists; reflexivity ].

Lemma gen_of_k k : Z.to_nat (1 + Z.of_nat k * 1) = 1 + k.
Proof. lia. Qed.
Lemma len_of_zlen {A} (l : list A) : Z.to_nat (zlen l) = length l.
Proof. unfold zlen. apply Nat2Z.id. Qed.

(* the evaluation loop: its body is one evaluate call and one fitness assignment on the same individual *)
Ltac leval :=
  rewrite C02_gen_equiv.bind_unfold;
  erewrite (eval_loop _ _); [ | intros u [fs0 sels0]; reflexivity | lproj; apply invalid_lt | lproj; reflexivity ];
  lproj.

Lemma to_of_fres {G F T} (s : @lstate G F T) (r : @fres G F T) : to_fres (of_fres s r) = r.
Proof. destruct r; reflexivity. Qed.

(* after the evaluation loop: name the heap and the call log it produced (the model's ffinish names the same pair) *)
Ltac leval' :=
  leval;
  match goal with
  | |- context[eval_heap ?e ?h ?l] => destruct (eval_heap e h l) as [? ?]
  end; cbn [app]; cbv beta iota.

(* varAnd(...) / varOr(...): the regenerated variation step is C02's model; split on how it ends *)
Ltac lvar :=
  rewrite C02_gen_equiv.bind_unfold, l_call_var_eq;
  first [ rewrite C02_gen_equiv.gen_varAnd_eq | rewrite C02_gen_equiv.gen_varOr_eq ];
  match goal with
  | |- context[V.var_and ?a ?b ?c ?d ?e ?f ?g] => destruct (V.var_and a b c d e f g) as [? [?|?]]
  | |- context[V.var_or ?a ?b ?c ?d ?e ?f ?g ?h ?i ?j ?k] => destruct (V.var_or a b c d e f g h i j k) as [? [?|?]]
  end; cbv beta iota; [ eexists; reflexivity | ].

Ltac lrun := repeat first [ lstep | leval' ].

(* one generation = one step of the model *)
Ltac lbody :=
  let c := fresh "c" in
  intros ? c ? ? ? ? ?; repeat match goal with x : (_ * _)%type |- _ => destruct x end;
  unfold fstep_simple, fstep_plus, fstep_comma, call_var_and, call_var_or, ffinish; lproj;
  lrun; lvar; lrun;
  rewrite ret_eq, ?gen_of_k, ?len_of_zlen; eexists; reflexivity.

Section Main.
Context {G F T : Type}.
Variable evaluate : G -> F.
Variable fle : F -> F -> bool.
Variables ltb leb : T -> T -> bool.
Variable add : T -> T -> T.
Variable one : T.
Variable mate_o : nat -> G * option F -> G * option F -> V.mate_ans G F.
Variable mut_o : nat -> G * option F -> V.mut_ans G F.

Theorem gen_eaSimple_eq cxpb mutpb h d pop sels :
  Forall (fun sel => length sel = length pop) sels ->
  to_fres (gen_eaSimple evaluate fle ltb leb add one mate_o mut_o cxpb mutpb (Z.of_nat (length sels))
                        (mkl (finit h d pop) sels))
  = full_simple evaluate fle ltb mate_o mut_o cxpb mutpb h d pop sels.
Proof.
  intros Hsels.
  first [ solve [ unfold gen_eaSimple, model_simple, full_simple; cbn [l_fs l_sels]; apply to_of_fres ]
          (* the translator refused eaSimple: the generated definition is the hand model *)
        | idtac ].
  all: unfold gen_eaSimple, full_simple, finit, fgen0, ffinish; lproj.
  all: lrun.      (* generation 0 *)
  all: ltail; rewrite range_gens, ?len_of_zlen; cbn [Z.to_nat app].
  all: apply (gen_loop _ _ (fstep_simple evaluate fle ltb mate_o mut_o cxpb mutpb) 1
                       (fun fs => length (f_pop fs) = length pop) (fun sel => length sel = length pop));
         [ lbody | | reflexivity | exact Hsels ].
  (* the population keeps its size: varAnd returns as many individuals as it is given *)
  all: intros g fs sel fs' HI HP; unfold fstep_simple, call_var_and.
  all: destruct (V.var_and ltb (mate_at mate_o (f_kc fs)) (mut_at mut_o (f_kc fs)) cxpb mutpb (V.start (f_hp fs) (f_dr fs))
                           (select_by (f_pop fs) sel)) as [s' [e|off]] eqn:E; [discriminate|].
  all: intros H; inversion H; subst; unfold ffinish.
  all: destruct (eval_heap evaluate (V.hp s') (invalid_of (view (V.hp s')) off)) as [h2 lg]; cbn [f_pop].
  all: apply C02_gen_equiv.var_and_length in E; etransitivity; [exact E|]; unfold select_by; rewrite map_length; exact HP.
Qed.

Theorem gen_eaMuPlusLambda_eq mu lambda_ cxpb mutpb h d pop sels :
  Forall (fun sel => length sel = mu) sels ->
  to_fres (gen_eaMuPlusLambda evaluate fle ltb leb add one mate_o mut_o (Z.of_nat mu) lambda_ cxpb mutpb
                              (Z.of_nat (length sels)) (mkl (finit h d pop) sels))
  = full_plus evaluate fle ltb leb add one mate_o mut_o lambda_ cxpb mutpb h d pop sels.
Proof.
  intros Hsels.
  first [ solve [ unfold gen_eaMuPlusLambda, model_plus, full_plus; cbn [l_fs l_sels]; apply to_of_fres ]
        | idtac ].
  all: unfold gen_eaMuPlusLambda, full_plus, finit, fgen0, ffinish; lproj.
  all: lrun.
  all: ltail; rewrite range_gens, ?len_of_zlen; cbn [Z.to_nat app].
  all: apply (gen_loop _ _ (fstep_plus evaluate fle ltb leb add one mate_o mut_o lambda_ cxpb mutpb) 1
                       (fun _ => True) (fun sel => length sel = mu)); [ lbody | trivial | trivial | exact Hsels ].
Qed.

Theorem gen_eaMuCommaLambda_eq mu lambda_ cxpb mutpb h d pop sels :
  Forall (fun sel => length sel = mu) sels ->
  to_fres (gen_eaMuCommaLambda evaluate fle ltb leb add one mate_o mut_o (Z.of_nat mu) lambda_ cxpb mutpb
                               (Z.of_nat (length sels)) (mkl (finit h d pop) sels))
  = full_comma evaluate fle ltb leb add one mate_o mut_o mu lambda_ cxpb mutpb h d pop sels.
Proof.
  intros Hsels.
  first [ solve [ unfold gen_eaMuCommaLambda, model_comma, full_comma; cbn [l_fs l_sels];
                  destruct (Z.of_nat mu <=? lambda_)%Z; [apply to_of_fres | reflexivity] ]
        | idtac ].
  all: unfold gen_eaMuCommaLambda, full_comma.
  (* assert lambda_ >= mu *)
  all: rewrite C02_gen_equiv.bind_unfold; unfold m_assert; rewrite Z.geb_leb.
  all: destruct (Z.of_nat mu <=? lambda_)%Z; [ rewrite ret_eq | reflexivity ].
  all: unfold finit, fgen0, ffinish; lproj.
  all: lrun.
  all: ltail; rewrite range_gens, ?len_of_zlen; cbn [Z.to_nat app].
  all: apply (gen_loop _ _ (fstep_comma evaluate fle ltb leb add one mate_o mut_o lambda_ cxpb mutpb) 1
                       (fun _ => True) (fun sel => length sel = mu)); [ lbody | trivial | trivial | exact Hsels ].
Qed.

End Main.
