(* Property C12, tie (T): the definitions REGENERATED from the current text of deap/gp.py
   (coq/Gen/C12_gen.v, written by harness/c12_py2coq.py on every run) equal the hand model
   (Model/C12_GPPrint.v), for all arguments.

   The loop lemmas are generic in the loop body: a body is characterised by what one iteration does to the
   model state (cond_spec / body_spec below); the generated closures are then shown to meet the
   characterisation by symbolic execution (tactic [mrun]), so that renamed locals, hoisted subexpressions or
   reordered independent statements of the source still go through.  A function the translator refused is
   regenerated as the hand model itself; the same scripts prove the (then trivial) equalities. *)
From Coq Require Import List ZArith Bool String Ascii Lia Arith.
From DV Require Import Base.C12_Str Model.C12_GPPrint Model.C12_GenRt Proofs.C12_GPPrint Gen.C12_gen.
Import ListNotations.
Local Open Scope string_scope.
Local Open Scope list_scope.

(* ---------------------------------------------------------------- run-time vocabulary *)
Lemma bind_ret_r {A} (m : option A) : bind m (fun x => ret x) = m.
Proof. now destruct m. Qed.
Lemma bind_some {A B} (a : A) (f : A -> option B) : bind (Some a) f = f a.
Proof. reflexivity. Qed.

Lemma last_app1 {A} (l : list A) x : last_ (l ++ [x]) = Some x.
Proof. unfold last_. now rewrite rev_app_distr. Qed.
Lemma pop_app1 {A} (l : list A) x : pop_ (l ++ [x]) = Some (x, l).
Proof. unfold pop_. rewrite rev_app_distr. cbn. now rewrite rev_involutive. Qed.
Lemma upd_last_app1 {A} (l : list A) x f : upd_last_ (l ++ [x]) f = Some (l ++ [f x]).
Proof. unfold upd_last_. rewrite rev_app_distr. cbn. now rewrite rev_involutive. Qed.
Lemma length_app1 {A} (l : list A) x : List.length (l ++ [x]) = S (List.length l).
Proof. rewrite app_length. cbn. apply Nat.add_1_r. Qed.
Lemma eq_arity_matches k n : eq_arity k (node_arity n) = arity_matches k n.
Proof. reflexivity. Qed.
Lemma dmem_dget {A} k (m : list (string * A)) : dmem k m = match dget k m with Some _ => true | None => false end.
Proof. reflexivity. Qed.
Lemma eqb_empty_nonempty s : String.eqb s "" = negb (nonempty s).
Proof. now destruct s. Qed.
Lemma dupdate_one {A} (m : list (string * A)) k v : dupdate m [(k, v)] = dset k v m.
Proof. reflexivity. Qed.

(* symbolic execution of a generated body on a state in model form *)
Ltac mstep :=
  first
  [ rewrite last_app1 | rewrite pop_app1 | rewrite upd_last_app1 | rewrite length_app1
  | rewrite bind_some | rewrite bind_ret_r | rewrite eq_arity_matches | rewrite rev_involutive
  | rewrite dupdate_one | rewrite app_nil_r
  | progress unfold extendleft_, reversed_, ret, raise_
  | progress cbn [bind ret raise_ fst snd rev List.length Nat.eqb Nat.ltb Nat.leb negb app reversed_ extendleft_] ].
Ltac mrun := repeat mstep.

(* ---------------------------------------------------------------- loops, generic in the body *)
(* a for loop whose body never breaks simulates a fold of the model *)
Lemma for_sim {A S M} (G : M -> S) (stepm : M -> A -> M) (body : A -> S -> option (ctl * S)) :
  (forall x m, body x (G m) = Some (Next, G (stepm m x))) ->
  forall l m, for_ l body (G m) = Some (G (fold_left stepm l m)).
Proof.
  intros Hb l. induction l as [|x l IH]; intro m; cbn; [reflexivity|].
  rewrite Hb. apply IH.
Qed.

(* one round of a while loop: test, then body *)
Definition iter {S} (cond : S -> option bool) (body : S -> option (ctl * S)) (s : S) : option (ctl * S) :=
  match cond s with Some true => body s | Some false => Some (Break, s) | None => None end.
Lemma while_iter {S} (cond : S -> option bool) body fuel s :
  while_ (Datatypes.S fuel) cond body s =
  match iter cond body s with Some (Next, s') => while_ fuel cond body s' | Some (Break, s') => Some s' | None => None end.
Proof. unfold iter. cbn [while_]. destruct (cond s) as [[|]|]; reflexivity. Qed.

(* ---------------------------------------------------------------- Primitive.format / Terminal.format *)
(* str.format on format strings *)
Lemma tpl_format_app a b args :
  tpl_format (a ++ b) args =
  match tpl_format a args, tpl_format b args with Some x, Some y => Some (x ++ y)%string | _, _ => None end.
Proof.
  induction a as [|[s|i] a IH]; cbn.
  - destruct (tpl_format b args); reflexivity.
  - rewrite IH. destruct (tpl_format a args), (tpl_format b args); try reflexivity. now rewrite app_assoc_s.
  - rewrite IH. destruct (nth_error args i); [|reflexivity].
    destruct (tpl_format a args), (tpl_format b args); try reflexivity. now rewrite app_assoc_s.
Qed.

Lemma skipn_nth {A} (l : list A) : forall i a, nth_error l i = Some a -> skipn i l = a :: skipn (S i) l.
Proof. induction l as [|x l IH]; intros [|i] a E; try discriminate; cbn in *; [now injection E as ->|auto]. Qed.

Lemma tpl_join_fields sep args : forall n i, i + n <= List.length args ->
  tpl_format (tpl_join sep (map tpl_field (seq i n))) args = Some (String.concat sep (firstn n (skipn i args))).
Proof.
  induction n as [|n IH]; intros i H; [reflexivity|].
  destruct (nth_error args i) as [a|] eqn:E; [|apply nth_error_None in E; lia].
  rewrite (skipn_nth _ _ _ E). cbn [firstn].
  destruct n as [|m].
  - cbn. rewrite E. now rewrite app_nil_r_s.
  - specialize (IH (S i) ltac:(lia)).
    destruct (nth_error args (S i)) as [b|] eqn:E2; [|apply nth_error_None in E2; lia].
    rewrite (skipn_nth _ _ _ E2) in IH |- *. cbn [firstn] in IH |- *.
    change (seq i (S (S m))) with (i :: S i :: seq (S (S i)) m).
    change (seq (S i) (S m)) with (S i :: seq (S (S i)) m) in IH.
    cbn [map] in IH |- *.
    change (tpl_join sep (tpl_field i :: tpl_field (S i) :: ?r))
      with (PField i :: PLit sep :: tpl_join sep (tpl_field (S i) :: r)).
    cbn [tpl_format]. rewrite E, IH. reflexivity.
Qed.

(* the format string of a primitive: "name(" ++ "{0}, {1}, .." ++ ")" *)
Lemma tpl_prim_format name n args : List.length args = n ->
  tpl_format (prim_seq name n) args
  = Some (name ++ "(" ++ String.concat ", " args ++ ")")%string.
Proof.
  intro H. unfold prim_seq. rewrite !tpl_format_app, tpl_join_fields by (cbn; lia).
  cbn [skipn]. rewrite <- H, firstn_all. cbn. now rewrite !app_nil_r_s.
Qed.

(* Primitive.__init__: the format string it stores in self.seq *)
Lemma gen_Primitive_seq_eq name a r : gen_Primitive_seq name a r = Some (prim_seq name (List.length a)).
Proof. unfold gen_Primitive_seq. first [reflexivity | cbv zeta; mrun; reflexivity]. Qed.

Lemma gen_Primitive_format_eq s args : gen_Primitive_format s args = tpl_format s args.
Proof. unfold gen_Primitive_format. mrun. reflexivity. Qed.

Lemma gen_Terminal_format_eq f v : gen_Terminal_format f v = apply_conv f v.
Proof. unfold gen_Terminal_format. mrun. reflexivity. Qed.

(* node.format( *args ) called with arity-many strings is the model's fmt *)
Lemma gen_format_eq ps n args :
  arity_matches (List.length args) n = true -> gen_format ps n args = Some (fmt ps n args).
Proof.
  unfold arity_matches, gen_format. intro H.
  destruct n as [name a r|j r|name r|c r|name r]; cbn in H; try discriminate;
    try (destruct args as [|a0 args]; [|cbn in H; discriminate]; cbn [attr_conv_fct attr_value bind];
         rewrite gen_Terminal_format_eq; reflexivity).
  apply Nat.eqb_eq in H. rewrite gen_Primitive_seq_eq. cbn [bind]. rewrite gen_Primitive_format_eq.
  now apply tpl_prim_format.
Qed.

(* ---------------------------------------------------------------- PrimitiveTree.__str__ *)
Section Str.
  Variable ps : pset.
  Let F := fmt ps.
  Definition sstate := (string * list (node * list string))%type.
  (* the model's state (string, stack with the top first) as the Python state (string, stack with the top last) *)
  Definition Gs (m : string * list (frame (A := string))) : sstate := (fst m, rev (snd m)).

  Section While.
    Variable cond : sstate -> option bool.
    Variable body : sstate -> option (ctl * sstate).
    (* [e]: how the loop is left when the stack has run empty -- by a break, or by one more test *)
    Variable e : ctl.
    Hypothesis e_spec : e = Break \/ forall cur, iter cond body (cur, []) = Some (Break, (cur, [])).
    Hypothesis iter_spec : forall st cur p a,
      iter cond body (cur, rev st ++ [(p, a)]) =
      Some (if arity_matches (List.length a) p
            then match st with
                 | [] => (e, (F p a, []))
                 | (p2, a2) :: st2 => (Next, (F p a, rev st2 ++ [(p2, a2 ++ [F p a])]))
                 end
            else (Break, (cur, rev st ++ [(p, a)]))).

    Lemma while_unwind : forall rest fuel cur p a, S (List.length rest) < fuel ->
      while_ fuel cond body (cur, rev rest ++ [(p, a)]) = Some (Gs (unwind F cur p a rest)).
    Proof.
      induction rest as [|[p2 a2] rest IH]; intros fuel cur p a Hf; (destruct fuel as [|f]; [inversion Hf|]);
        rewrite while_iter, iter_spec; cbn [unwind];
        destruct (arity_matches (List.length a) p) eqn:E; try reflexivity.
      - destruct e.
        + destruct f as [|f']; [cbn in Hf; lia|]. rewrite while_iter.
          destruct e_spec as [He|He]; [discriminate|]. now rewrite He.
        + reflexivity.
      - apply IH. cbn in Hf. lia.
    Qed.
  End While.
End Str.

Ltac str_inner ps e :=
  match goal with |- context [while_ _ ?C ?B _] =>
    assert (He : e = Break \/ forall cur, iter C B (cur, []) = Some (Break, (cur, [])))
      by (first [left; reflexivity | right; intros; unfold iter; mrun; reflexivity]);
    assert (Hit : forall st cur p a,
      iter C B (cur, rev st ++ [(p, a)]) =
      Some (if arity_matches (List.length a) p
            then match st with
                 | [] => (e, (fmt ps p a, []))
                 | (p2, a2) :: st2 => (Next, (fmt ps p a, rev st2 ++ [(p2, a2 ++ [fmt ps p a])]))
                 end
            else (Break, (cur, rev st ++ [(p, a)]))))
      by (intros st0 cur0 p a; unfold iter; mrun;
          destruct (arity_matches (List.length a) p) eqn:E; mrun; try reflexivity;
          rewrite ?(gen_format_eq ps p a E); mrun;
          destruct st0 as [|[p2 a2] st2]; mrun; reflexivity);
    rewrite (while_unwind ps C B e He Hit)
      by (rewrite app_length, rev_length; cbn [List.length]; rewrite Nat.add_1_r; apply Nat.lt_succ_diag_r)
  end.

Ltac str_script ps :=
  cbv zeta;
  match goal with |- bind (for_ _ ?body _) _ = _ =>
    assert (Hb : forall x m, body x (Gs m) = Some (Next, Gs (step (fmt ps) m x)));
    [ intros x [cur st]; unfold Gs, step; cbn [fst snd];
      first [ str_inner ps Break | str_inner ps Next ];
      reflexivity
    | change ("", @nil (node * list string)) with (Gs ("", []));
      rewrite (for_sim Gs _ _ Hb); reflexivity ]
  end.

Lemma gen_str_eq ps t : gen_str ps t = Some (str_tree ps t).
Proof. unfold gen_str. first [reflexivity | str_script ps]. Qed.

(* ---------------------------------------------------------------- PrimitiveTree.from_string *)
Section Read.
  Variable sub : ty -> ty -> bool.
  Variable mapping : list (string * node).

  (* one iteration of the model's loop *)
  Definition read_step (tok : string) (rt : list ty) (acc : list node) : option (list ty * list node) :=
    if negb (nonempty tok) then Some (rt, acc) else
    let type_ := match rt with [] => None | t :: _ => Some t end in
    let rt' := match rt with [] => [] | _ :: q => q end in
    match dget tok mapping with
    | Some prim =>
        if match type_ with Some t => negb (sub (node_ret prim) t) | None => false end then None
        else Some (match prim with NPrim _ args _ => args ++ rt' | _ => rt' end, prim :: acc)
    | None =>
        match lit tok with
        | None => None
        | Some c =>
            let t := match type_ with Some t => t | None => typeof c end in
            if sub (typeof c) t then Some (rt', NConst c t :: acc) else None
        end
    end.

  Lemma read_loop_step tok r rt acc :
    read_loop sub mapping (tok :: r) rt acc =
    match read_step tok rt acc with Some (rt', acc') => read_loop sub mapping r rt' acc' | None => None end.
  Proof.
    unfold read_step. cbn [read_loop]. destruct (negb (nonempty tok)); [reflexivity|]. cbv zeta.
    destruct (dget tok mapping) as [prim|].
    - destruct (match match rt with [] => None | t :: _ => Some t end with
                | Some t => negb (sub (node_ret prim) t) | None => false end); reflexivity.
    - destruct (lit tok) as [c|]; [|reflexivity].
      destruct (sub (typeof c) _); reflexivity.
  Qed.

  (* generic in the loop body: any body doing one model step per token *)
  Lemma for_read (body : string -> list node * list ty -> option (ctl * (list node * list ty))) :
    (forall tok rt acc, body tok (rev acc, rt) =
       match read_step tok rt acc with Some (rt', acc') => Some (Next, (rev acc', rt')) | None => None end) ->
    forall toks rt acc,
      match for_ toks body (rev acc, rt) with Some (e, _) => Some e | None => None end
      = read_loop sub mapping toks rt acc.
  Proof.
    intros Hb toks. induction toks as [|tok r IH]; intros rt acc; [reflexivity|].
    rewrite read_loop_step. cbn [for_]. rewrite Hb.
    destruct (read_step tok rt acc) as [[rt' acc']|]; [apply IH|reflexivity].
  Qed.
End Read.

Lemma bind_fst {A B} (m : option (A * B)) :
  bind m (fun '(e, _) => ret e) = match m with Some (e, _) => Some e | None => None end.
Proof. destruct m as [[e r]|]; reflexivity. Qed.

Ltac mcase :=
  match goal with
  | |- context [match dget ?k ?m with _ => _ end] => destruct (dget k m) eqn:?
  | |- context [match lit ?s with _ => _ end] => destruct (lit s) eqn:?
  | |- context [if ?sub ?a ?b then _ else _] => is_var sub; destruct (sub a b) eqn:?
  | |- context [negb (?sub ?a ?b)] => is_var sub; destruct (sub a b) eqn:?
  | |- context [if nonempty ?s then _ else _] => destruct (nonempty s) eqn:?
  | |- context [negb (nonempty ?s)] => destruct (nonempty s) eqn:?
  | |- context [match ?x with _ => _ end] => is_var x; destruct x
  end.

Ltac read_script sub s ps :=
  cbv zeta; unfold read, re_split_seps;
  match goal with |- bind (for_ _ ?body _) _ = _ =>
    assert (Hb : forall tok rt acc, body tok (rev acc, rt) =
       match read_step sub (ps_mapping ps) tok rt acc with
       | Some (rt', acc') => Some (Next, (rev acc', rt')) | None => None end);
    [ intros tok rt acc; unfold read_step, eval_token, new_Terminal, is_Primitive, attr_args, popleft_, dmem;
      rewrite eqb_empty_nonempty;
      repeat (mrun; try reflexivity; mcase); mrun; try reflexivity; congruence
    | etransitivity; [apply bind_fst|]; apply (for_read sub (ps_mapping ps) _ Hb (split s) [] []) ]
  end.

Lemma gen_from_string_eq sub s ps : gen_from_string sub s ps = read sub (ps_mapping ps) s.
Proof. unfold gen_from_string. first [reflexivity | read_script sub s ps]. Qed.

(* ---------------------------------------------------------------- compile: the code string handed to eval *)
Ltac code_script sep :=
  exists sep; split; [unfold header_sep; auto|]; intros t ps;
  first [ reflexivity
        | cbv zeta; rewrite gen_str_eq; mrun; unfold code_with;
          destruct (ps_arguments ps) as [|a l];
          [ reflexivity | cbn [List.length Nat.ltb Nat.leb Nat.eqb negb]; rewrite ?app_assoc_s, ?map_id; reflexivity ] ].

(* the parameters of the lambda header are joined by "," or ", " -- which one is a property of the source text *)
Lemma gen_compile_code_eq :
  exists sep, header_sep sep /\ forall t ps, gen_compile_code t ps = Some (code_with sep ps t).
Proof. unfold gen_compile_code. first [ code_script "," | code_script ", " ]. Qed.

(* what the model's compile does with that string: the tree's printed form is parsed as the body, the
   parameters are the set's arguments *)
Lemma compile_of_code {V} (cval : cst -> option V) sep ps ps' ctx t t' :
  code_with sep ps t = code_with sep ps' t' -> ps_arguments ps = ps_arguments ps' ->
  compile cval ps ctx t = compile cval ps' ctx t'.
Proof.
  unfold code_with, compile. intros H E. rewrite <- E in *. destruct (ps_arguments ps) as [|a l].
  - now rewrite H.
  - apply str_app_inv_head in H. apply str_app_inv_head in H. apply str_app_inv_head in H. now rewrite H.
Qed.

(* ---------------------------------------------------------------- PrimitiveSetTyped.renameArguments *)
Section Rename.
  Variable kargs : list (string * string).

  Definition rename_step (i : nat) (ps : pset) : option pset :=
    let old_name := nth i (ps_arguments ps) "" in
    match dget old_name kargs with
    | None => Some ps
    | Some new_name =>
        match dget old_name (ps_mapping ps) with
        | Some (NArg j r) =>
            Some (mkpset (set_nth i new_name (ps_arguments ps)) (set_nth j new_name (ps_argvalue ps))
                         (ddel old_name (dset new_name (NArg j r) (ps_mapping ps))))
        | _ => None
        end
    end.

  Lemma rename_loop_step n i ps :
    rename_loop kargs (S n) i ps =
    match rename_step i ps with Some ps' => rename_loop kargs n (S i) ps' | None => None end.
  Proof.
    unfold rename_step. cbn [rename_loop]. cbv zeta.
    destruct (dget (nth i (ps_arguments ps) "") kargs); [|reflexivity].
    destruct (dget (nth i (ps_arguments ps) "") (ps_mapping ps)) as [[]|]; reflexivity.
  Qed.

  Lemma rename_step_len i ps ps' :
    rename_step i ps = Some ps' -> List.length (ps_arguments ps') = List.length (ps_arguments ps).
  Proof.
    unfold rename_step. cbv zeta. destruct (dget _ kargs); [|now intros [= <-]].
    destruct (dget _ (ps_mapping ps)) as [[]|]; try discriminate.
    intros [= <-]. cbn. apply set_nth_length.
  Qed.

  Lemma for_rename (body : nat -> pset -> option (ctl * pset)) :
    (forall i ps, i < List.length (ps_arguments ps) ->
       body i ps = match rename_step i ps with Some ps' => Some (Next, ps') | None => None end) ->
    forall n i ps, i + n = List.length (ps_arguments ps) -> for_ (seq i n) body ps = rename_loop kargs n i ps.
  Proof.
    intros Hb n. induction n as [|n IH]; intros i ps Hn; [reflexivity|].
    rewrite rename_loop_step. cbn [seq for_]. rewrite Hb by lia.
    destruct (rename_step i ps) as [ps'|] eqn:E; [|reflexivity].
    apply IH. rewrite (rename_step_len _ _ _ E). lia.
  Qed.
End Rename.

Lemma dmem_dset_keep {A} k k' (v : A) m : dmem k m = true -> dmem k (dset k' v m) = true.
Proof.
  unfold dmem. intro H. destruct (String.eqb_spec k k') as [->|Hne].
  - now rewrite dget_dset_same.
  - now rewrite dget_dset_other.
Qed.

Ltac rename_script ps kargs :=
  cbv zeta; unfold rename, range_;
  match goal with |- bind (for_ _ ?body _) _ = _ =>
    assert (Hb : forall i ps, i < List.length (ps_arguments ps) ->
       body i ps = match rename_step kargs i ps with Some ps' => Some (Next, ps') | None => None end);
    [ intros i p Hi; unfold rename_step; cbv zeta;
      rewrite (nth_error_nth' (ps_arguments p) "" Hi); mrun;
      unfold dmem; destruct (dget (nth i (ps_arguments p) "") kargs) as [new|]; [|reflexivity]; mrun;
      unfold setitem_; apply Nat.ltb_lt in Hi; rewrite Hi; mrun;
      unfold set_mapping, set_arguments; cbn [ps_arguments ps_argvalue ps_mapping];
      destruct (dget (nth i (ps_arguments p) "") (ps_mapping p)) as [o|] eqn:Eo; [|reflexivity]; mrun;
      first [ rewrite dget_dset_same
            | (* the object reached through the old name is the same one *)
              destruct (String.eqb_spec (nth i (ps_arguments p) "") new) as [Hsame|Hne];
              [ rewrite Hsame in *; rewrite dget_dset_same
              | rewrite (dget_dset_other _ _ o _ Hne), Eo ] ]; mrun;
      destruct o; try reflexivity; cbn [set_attr_value bind ps_arguments ps_argvalue ps_mapping];
      unfold ddel_, set_mapping, set_arguments; cbn [ps_arguments ps_argvalue ps_mapping];
      rewrite dmem_dset_keep by (unfold dmem; now rewrite Eo); reflexivity
    | rewrite (for_rename kargs _ Hb) by reflexivity;
      destruct (rename_loop _ _ _ _); reflexivity ]
  end.

Lemma gen_renameArguments_eq ps kargs : gen_renameArguments ps kargs = rename kargs ps.
Proof. unfold gen_renameArguments. first [reflexivity | rename_script ps kargs]. Qed.

(* ---------------------------------------------------------------- compileADF *)
Section AdfEquiv.
  Variable V : Type.
  Variable cval : cst -> option V.

  Definition def_of_pair (p : fpset V * list node) : adfdef V :=
    mkdef (fp_ps (fst p)) (fp_name (fst p)) (fp_ctx (fst p)) (snd p).

  Lemma flat_bind_snd {A B} (m : option (A * option B)) :
    flat (bind m (fun '(_, f) => ret f)) = match m with Some (_, f) => f | None => None end.
  Proof. destruct m as [[a [f|]]|]; reflexivity. Qed.

  Lemma compile_shape ps ctx t k : compile cval ps ctx t = Some k ->
    match ps_arguments ps with
    | [] => exists v, k = KValue v
    | _ => exists p b g, k = KLambda p b g
    end.
  Proof.
    unfold compile. destruct (parse_expr _); [|discriminate].
    destruct (ps_arguments ps).
    - destruct (eval_expr _ _ _ _); [|discriminate]. intros [= <-]. eauto.
    - destruct (_ && _); [|discriminate]. intros [= <-]. eauto.
  Qed.

  Lemma for_adf (body : fpset V * list node -> context V * option (compiled V) ->
                        option (ctl * (context V * option (compiled V)))) :
    (forall p adfdict func, body p (adfdict, func) =
       match compile cval (fp_ps (fst p)) (dupdate (fp_ctx (fst p)) adfdict) (snd p) with
       | Some k => Some (Next, (dset (fp_name (fst p)) (adf_obj cval k) adfdict, Some k))
       | None => None
       end) ->
    forall l adfdict func,
      match for_ l body (adfdict, func) with Some (_, f) => f | None => None end
      = compile_adf_loop cval (map def_of_pair l) adfdict func.
  Proof.
    intros Hb l. induction l as [|p l IH]; intros adfdict func; [reflexivity|].
    cbn [for_ map compile_adf_loop def_of_pair d_ps d_ctx d_tree d_name]. rewrite Hb.
    destruct (compile _ _ _ _) as [k|]; [apply IH|reflexivity].
  Qed.

  (* the same loop written as `while pairs: pset, subexpr = pairs.pop(); ...` *)
  Definition astate := (context V * option (compiled V) * list (fpset V * list node))%type.
  Lemma while_adf (cond : astate -> option bool) (body : astate -> option (ctl * astate)) :
    (forall a f, iter cond body (a, f, []) = Some (Break, (a, f, []))) ->
    (forall a f l p, iter cond body (a, f, l ++ [p]) =
       match compile cval (fp_ps (fst p)) (dupdate (fp_ctx (fst p)) a) (snd p) with
       | Some k => Some (Next, (dset (fp_name (fst p)) (adf_obj cval k) a, Some k, l))
       | None => None
       end) ->
    forall l fuel a f, List.length l < fuel ->
      match while_ fuel cond body (a, f, l) with Some (_, f', _) => f' | None => None end
      = compile_adf_loop cval (map def_of_pair (rev l)) a f.
  Proof.
    intros H0 H1 l. induction l as [|p l IH] using rev_ind; intros fuel a f Hf;
      (destruct fuel as [|fu]; [inversion Hf|]); rewrite while_iter.
    - rewrite H0. reflexivity.
    - rewrite H1, rev_unit. cbn [map compile_adf_loop def_of_pair d_ps d_ctx d_tree d_name].
      destruct (compile _ _ _ _) as [k|]; [|reflexivity].
      apply IH. rewrite app_length in Hf. cbn in Hf. lia.
  Qed.

  Lemma flat_bind_mid {A B C} (m : option (A * option B * C)) :
    flat (bind m (fun '(_, f, _) => ret f)) = match m with Some (_, f, _) => f | None => None end.
  Proof. destruct m as [[[a [f|]] c]|]; reflexivity. Qed.
End AdfEquiv.
Arguments def_of_pair {V} p.

Ltac adf_step cval p t :=
  cbn [fst snd fp_set_ctx fp_ps fp_ctx fp_name];
  let E := fresh "E" in
  destruct (compile cval (fp_ps p) _ t) as [k|] eqn:E; [|reflexivity]; mrun;
  apply compile_shape in E;
  destruct (ps_arguments (fp_ps p)); [destruct E as [v ->]|destruct E as (pp & b & g & ->)]; reflexivity.

Ltac adf_script cval :=
  cbv zeta;
  match goal with
  | |- flat (bind (while_ _ ?C ?B _) _) = _ =>
    assert (H0 : forall a f, iter C B (a, f, []) = Some (Break, (a, f, [])))
      by (intros; unfold iter; mrun; reflexivity);
    assert (H1 : forall a f l p, iter C B (a, f, l ++ [p]) =
       match compile cval (fp_ps (fst p)) (dupdate (fp_ctx (fst p)) a) (snd p) with
       | Some k => Some (Next, (dset (fp_name (fst p)) (adf_obj cval k) a, Some k, l))
       | None => None
       end)
      by (intros a f l [p t]; unfold iter; mrun; adf_step cval p t);
    rewrite <- map_rev;
    etransitivity; [apply flat_bind_mid|]; apply (while_adf _ cval _ _ H0 H1); apply Nat.lt_succ_diag_r
  | |- flat (bind (for_ _ ?body _) _) = _ =>
    assert (Hb : forall p adfdict func, body p (adfdict, func) =
       match compile cval (fp_ps (fst p)) (dupdate (fp_ctx (fst p)) adfdict) (snd p) with
       | Some k => Some (Next, (dset (fp_name (fst p)) (adf_obj cval k) adfdict, Some k))
       | None => None
       end);
    [ intros [p t] adfdict func; cbn [fst snd fp_set_ctx fp_ps fp_ctx fp_name];
      destruct (compile cval (fp_ps p) _ t) as [k|] eqn:E; [|reflexivity]; mrun;
      apply compile_shape in E;
      destruct (ps_arguments (fp_ps p)); [destruct E as [v ->]|destruct E as (pp & b & g & ->)]; reflexivity
    | rewrite <- map_rev; unfold reversed_;
      etransitivity; [apply flat_bind_snd|]; apply (for_adf _ cval _ Hb) ]
  end.

Lemma gen_compileADF_eq {V} (cval : cst -> option V) expr psets :
  flat (gen_compileADF cval expr psets) =
  compile_adf_loop cval (rev (map def_of_pair (combine psets expr))) [] None.
Proof.
  unfold gen_compileADF.
  first [ destruct (compile_adf_loop _ _ _ _); reflexivity | adf_script cval ].
Qed.

(* compileADF on the list of definitions the model takes *)
Lemma gen_compileADF_defs {V} (cval : cst -> option V) defs :
  flat (gen_compileADF cval (map d_tree defs) (map fp_of defs)) = compile_adf cval defs.
Proof.
  rewrite gen_compileADF_eq. unfold compile_adf. f_equal. f_equal.
  induction defs as [|[p n c t] defs IH]; [reflexivity|]. cbn. now rewrite IH.
Qed.

(* ---------------------------------------------------------------- all of them *)
Lemma source_is_model :
  (forall name a r, gen_Primitive_seq name a r = Some (prim_seq name (List.length a))) /\
  (forall s args, gen_Primitive_format s args = tpl_format s args) /\
  (forall f v, gen_Terminal_format f v = apply_conv f v) /\
  (forall ps n args, arity_matches (List.length args) n = true -> gen_format ps n args = Some (fmt ps n args)) /\
  (forall ps t, gen_str ps t = Some (str_tree ps t)) /\
  (forall sub s ps, gen_from_string sub s ps = read sub (ps_mapping ps) s) /\
  (exists sep, header_sep sep /\ forall t ps, gen_compile_code t ps = Some (code_with sep ps t)) /\
  (forall ps kargs, gen_renameArguments ps kargs = rename kargs ps) /\
  (forall V (cval : cst -> option V) defs,
     flat (gen_compileADF cval (map d_tree defs) (map fp_of defs)) = compile_adf cval defs).
Proof.
  split; [exact gen_Primitive_seq_eq|]. split; [exact gen_Primitive_format_eq|]. split; [exact gen_Terminal_format_eq|].
  split; [exact gen_format_eq|]. split; [exact gen_str_eq|]. split; [exact gen_from_string_eq|].
  split; [exact gen_compile_code_eq|]. split; [exact gen_renameArguments_eq|].
  intros V cval defs. apply gen_compileADF_defs.
Qed.

(* ---------------------------------------------------------------- the C12 theorems on the regenerated definitions *)
Lemma gen_str_is_pp ps t tr : parse t = Some tr -> gen_str ps t = Some (pp ps tr).
Proof. intro H. rewrite gen_str_eq. f_equal. now apply str_is_pp. Qed.

Lemma gen_read_print sub ps t tr :
  (forall a, sub a a = true) -> (forall a b c, sub a b = true -> sub b c = true -> sub a c = true) ->
  parse t = Some tr -> all_nodes (node_ok ps) tr -> all_nodes (resolvable sub ps) tr -> typed sub tr ->
  exists s t',
    gen_str ps t = Some s /\
    gen_from_string sub s ps = Some t' /\
    gen_str ps t' = Some s /\
    List.length t' = List.length t /\
    map node_arity t' = map node_arity t /\
    (forall V (cval : cst -> option V) ctx actuals,
        eval_prefix cval ctx actuals t' = eval_prefix cval ctx actuals t) /\
    gen_compile_code t' ps = gen_compile_code t ps.
Proof.
  intros R T P N Rs Ty. destruct (read_print sub ps t tr R T P N Rs Ty) as (t' & H1 & H2 & H3 & H4 & H5 & H6).
  exists (str_tree ps t), t'. rewrite !gen_str_eq, gen_from_string_eq.
  repeat split; try assumption; try congruence.
  destruct gen_compile_code_eq as (sep & _ & E). rewrite !E. unfold code_with. now rewrite H2.
Qed.

Lemma gen_code_is_expr ps t tr : parse t = Some tr -> all_nodes (node_ok ps) tr ->
  exists s sep, gen_str ps t = Some s /\ parse_expr s = Some (expr_of ps tr) /\ header_sep sep /\
    gen_compile_code t ps =
    Some (match ps_arguments ps with
          | [] => s
          | params => String.append "lambda " (String.append (String.concat sep params) (String.append ": " s))
          end).
Proof.
  intros P N. destruct gen_compile_code_eq as (sep & Hs & E). exists (str_tree ps t), sep. rewrite gen_str_eq, E.
  split; [reflexivity|]. split; [now apply code_is_expr|]. split; [exact Hs|reflexivity].
Qed.

Lemma gen_compile_adf_sem {V} (cval : cst -> option V) defs actuals :
  Forall (def_ok) defs -> zero_ok cval (tl defs) ->
  run_compiled cval (flat (gen_compileADF cval (map d_tree defs) (map fp_of defs))) actuals = adf_sem cval defs actuals.
Proof. intros. rewrite gen_compileADF_defs. now apply compile_adf_sem. Qed.

Lemma gen_rename_fresh kargs ps0 :
  NoDup (ps_arguments ps0) -> NoDup (map snd kargs) ->
  (forall n, In n (map snd kargs) -> ~ In n (ps_arguments ps0)) ->
  ps_argvalue ps0 = ps_arguments ps0 -> arg_entries ps0 ->
  exists ps', gen_renameArguments ps0 kargs = Some ps' /\
    ps_arguments ps' = map (new_name kargs) (ps_arguments ps0) /\
    ps_argvalue ps' = ps_arguments ps' /\
    NoDup (ps_arguments ps') /\
    arg_entries ps' /\
    (forall k, ~ In k (ps_arguments ps0) -> ~ In k (map snd kargs) ->
               dget k (ps_mapping ps') = dget k (ps_mapping ps0)).
Proof. rewrite gen_renameArguments_eq. apply rename_fresh. Qed.

(* a tree printed by the regenerated __str__ is tokenised into its nodes' tokens *)
Lemma gen_tokenize_str ps t tr s : parse t = Some tr -> all_nodes (node_ok ps) tr ->
  gen_str ps t = Some s -> tokenize s = map (node_tok ps) t.
Proof. intros P N. rewrite gen_str_eq. intros [= <-]. now apply (tokenize_str ps t tr). Qed.

Lemma gen_compile_of_code {V} (cval : cst -> option V) ps ps' ctx t t' :
  gen_compile_code t ps = gen_compile_code t' ps' -> ps_arguments ps = ps_arguments ps' ->
  compile cval ps ctx t = compile cval ps' ctx t'.
Proof. destruct gen_compile_code_eq as (sep & _ & E). rewrite !E. intros [= H]. now apply (compile_of_code cval sep). Qed.

Lemma gen_prim_format name a r args s : List.length args = List.length a ->
  gen_Primitive_seq name a r = Some s ->
  gen_Primitive_format s args = Some (name ++ "(" ++ String.concat ", " args ++ ")")%string.
Proof.
  intros H. rewrite gen_Primitive_seq_eq. intros [= <-]. rewrite gen_Primitive_format_eq. now apply tpl_prim_format.
Qed.
