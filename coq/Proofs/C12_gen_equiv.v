(* Property C12, tie (T): the definitions REGENERATED from the current text of deap/gp.py
   (coq/Gen/C12_gen.v, written by harness/c12_py2coq.py on every run) equal the hand model
   (Model/C12_GPPrint.v), for all arguments.

   The loop lemmas are generic in the loop body: a body is characterised by what one iteration does to the
   model state (cond_spec / body_spec below); the generated closures are then shown to meet the
   characterisation by symbolic execution (tactic [mrun]), so that renamed locals, hoisted subexpressions or
   reordered independent statements of the source still go through.  A function the translator refused is
   regenerated as the hand model itself; the same scripts prove the (then trivial) equalities. *)
From Coq Require Import List ZArith Bool String Ascii Lia Arith.
From DV Require Import Base.C12_Str Model.C12_GPPrint Model.C12_GenRt Proofs.C12_GPPrint Gen.C12_gen.
Import ListNotations.
Local Open Scope string_scope.
Local Open Scope list_scope.

(* ---------------------------------------------------------------- run-time vocabulary *)
Lemma bind_ret_r {A} (m : option A) : bind m (fun x => ret x) = m.
Proof. now destruct m. Qed.
Lemma bind_some {A B} (a : A) (f : A -> option B) : bind (Some a) f = f a.
Proof. reflexivity. Qed.

Lemma last_app1 {A} (l : list A) x : last_ (l ++ [x]) = Some x.
Proof. unfold last_. now rewrite rev_app_distr. Qed.
Lemma pop_app1 {A} (l : list A) x : pop_ (l ++ [x]) = Some (x, l).
Proof. unfold pop_. rewrite rev_app_distr. cbn. now rewrite rev_involutive. Qed.
Lemma upd_last_app1 {A} (l : list A) x f : upd_last_ (l ++ [x]) f = Some (l ++ [f x]).
Proof. unfold upd_last_. rewrite rev_app_distr. cbn. now rewrite rev_involutive. Qed.
Lemma length_app1_eqb0 {A} (l : list A) x : Nat.eqb (List.length (l ++ [x])) 0 = false.
Proof. rewrite app_length. cbn. now rewrite Nat.add_comm. Qed.
Lemma eq_arity_matches k n : eq_arity k (node_arity n) = arity_matches k n.
Proof. reflexivity. Qed.
Lemma dmem_dget {A} k (m : list (string * A)) : dmem k m = match dget k m with Some _ => true | None => false end.
Proof. reflexivity. Qed.
Lemma eqb_empty_nonempty s : String.eqb s "" = negb (nonempty s).
Proof. now destruct s. Qed.
Lemma dupdate_one {A} (m : list (string * A)) k v : dupdate m [(k, v)] = dset k v m.
Proof. reflexivity. Qed.

(* symbolic execution of a generated body on a state in model form *)
Ltac mstep :=
  first
  [ rewrite last_app1 | rewrite pop_app1 | rewrite upd_last_app1 | rewrite length_app1_eqb0
  | rewrite bind_some | rewrite bind_ret_r | rewrite eq_arity_matches | rewrite rev_involutive
  | rewrite dupdate_one
  | progress cbn [bind ret raise_ fst snd rev List.length Nat.eqb negb app reversed_ extendleft_] ].
Ltac mrun := repeat mstep.

(* ---------------------------------------------------------------- loops, generic in the body *)
(* a for loop whose body never breaks simulates a fold of the model *)
Lemma for_sim {A S M} (G : M -> S) (stepm : M -> A -> M) (body : A -> S -> option (ctl * S)) :
  (forall x m, body x (G m) = Some (Next, G (stepm m x))) ->
  forall l m, for_ l body (G m) = Some (G (fold_left stepm l m)).
Proof.
  intros Hb l. induction l as [|x l IH]; intro m; cbn; [reflexivity|].
  rewrite Hb. apply IH.
Qed.

(* ---------------------------------------------------------------- Primitive.format / Terminal.format *)
Lemma gen_Primitive_format_eq s args : gen_Primitive_format s args = seq_format s args.
Proof. unfold gen_Primitive_format. mrun. reflexivity. Qed.

Lemma gen_Terminal_format_eq f v : gen_Terminal_format f v = apply_conv f v.
Proof. unfold gen_Terminal_format. mrun. reflexivity. Qed.

(* node.format( *args ) called with arity-many strings is the model's fmt *)
Lemma gen_format_eq ps n args :
  arity_matches (List.length args) n = true -> gen_format ps n args = Some (fmt ps n args).
Proof.
  unfold arity_matches, gen_format. intro H.
  destruct n as [name a r|j r|name r|c r|name r]; cbn in H; try discriminate;
    try (destruct args as [|a0 args]; [|cbn in H; discriminate]; cbn [attr_conv_fct attr_value bind];
         rewrite gen_Terminal_format_eq; reflexivity).
  apply Nat.eqb_eq in H. cbn [attr_seq bind]. rewrite gen_Primitive_format_eq. unfold seq_format. cbn [fst snd fmt].
  rewrite <- H, Nat.ltb_irrefl, firstn_all. reflexivity.
Qed.

(* ---------------------------------------------------------------- PrimitiveTree.__str__ *)
Section Str.
  Variable ps : pset.
  Let F := fmt ps.
  Definition Gs (m : string * list (frame (A := string))) : list (node * list string) * string :=
    (rev (snd m), fst m).

  Section While.
    Variable cond : list (node * list string) * string -> option bool.
    Variable body : list (node * list string) * string -> option (ctl * (list (node * list string) * string)).
    Hypothesis cond_spec : forall st cur p a, cond (rev st ++ [(p, a)], cur) = Some (arity_matches (List.length a) p).
    Hypothesis body_spec : forall st cur p a, arity_matches (List.length a) p = true ->
      body (rev st ++ [(p, a)], cur) =
      Some (match st with
            | [] => (Break, ([], F p a))
            | (p2, a2) :: st2 => (Next, (rev st2 ++ [(p2, a2 ++ [F p a])], F p a))
            end).

    Lemma while_unwind : forall rest fuel cur p a, List.length rest < fuel ->
      while_ fuel cond body (rev rest ++ [(p, a)], cur) = Some (Gs (unwind F cur p a rest)).
    Proof.
      induction rest as [|[p2 a2] rest IH]; intros fuel cur p a Hf; (destruct fuel as [|f]; [inversion Hf|]);
        cbn [while_]; rewrite cond_spec; cbn [unwind];
        destruct (arity_matches (List.length a) p) eqn:E; try reflexivity.
      - rewrite (body_spec [] cur p a E). reflexivity.
      - rewrite (body_spec ((p2, a2) :: rest) cur p a E). apply IH. cbn in Hf. lia.
    Qed.
  End While.
End Str.

Lemma gen_str_eq ps t : gen_str ps t = Some (str_tree ps t).
Proof.
  unfold gen_str; try reflexivity. cbv zeta.
  match goal with |- bind (for_ _ ?body _) _ = _ =>
    assert (Hb : forall x m, body x (Gs m) = Some (Next, Gs (step (fmt ps) m x)))
  end.
  { intros x [cur st]. unfold Gs, step. cbn [fst snd].
    match goal with |- context [while_ _ ?C ?B _] =>
      assert (Hc : forall st cur p a, C (rev st ++ [(p, a)], cur) = Some (arity_matches (List.length a) p))
        by (intros; mrun; reflexivity);
      assert (Hbs : forall st cur p a, arity_matches (List.length a) p = true ->
                B (rev st ++ [(p, a)], cur) =
                Some (match st with
                      | [] => (Break, ([], fmt ps p a))
                      | (p2, a2) :: st2 => (Next, (rev st2 ++ [(p2, a2 ++ [fmt ps p a])], fmt ps p a))
                      end))
        by (intros st0 cur0 p a E; mrun; rewrite (gen_format_eq ps p a E); mrun;
            destruct st0 as [|[p2 a2] st2]; mrun; reflexivity);
      rewrite (while_unwind ps C B Hc Hbs st _ cur x [])
        by (rewrite app_length, rev_length; cbn; apply Nat.lt_succ_r, Nat.le_add_r)
    end.
    reflexivity. }
  change (@nil (node * list string), "") with (Gs ("", [])).
  rewrite (for_sim Gs _ _ Hb). reflexivity.
Qed.
