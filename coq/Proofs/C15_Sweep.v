(* Proofs for C15, part 2 — the one- and two-objective code paths of pyhv.py and _hv.c compute hv. *)
From Coq Require Import List QArith Bool SetoidList Sorted Permutation Lia Morphisms.
From DV Require Import Model.C15_HV Model.C15_Sweep Proofs.C15_HV Proofs.C15_Sym.
Import ListNotations.
Local Open Scope Q_scope.

(* ------------------------------------------------------------------ *)
(* integrals over weakly increasing lists (repeated breakpoints)         *)
(* ------------------------------------------------------------------ *)
Fixpoint dedup (l : list Q) : list Q :=
  match l with
  | [] => []
  | a :: l' => match l' with
               | [] => [a]
               | b :: _ => if Qeq_bool a b then dedup l' else a :: dedup l'
               end
  end.

Lemma dedup_cons2 a b l :
  dedup (a :: b :: l) = if Qeq_bool a b then dedup (b :: l) else a :: dedup (b :: l).
Proof. reflexivity. Qed.

Lemma dedup_head : forall l a, exists a' t, dedup (a :: l) = a' :: t /\ a' == a.
Proof.
  induction l as [|b l IH]; intro a; [exists a, []; split; reflexivity|].
  rewrite dedup_cons2. destruct (Qeq_bool a b) eqn:E.
  - apply Qeq_bool_iff in E. destruct (IH b) as (b' & t & H & Eb). exists b', t. split; auto.
    rewrite Eb. symmetry. auto.
  - exists a, (dedup (b :: l)). split; reflexivity.
Qed.

Lemma stp_dedup F : Proper (Qeq ==> Qeq) F -> forall l lo, stp F lo (dedup l) == stp F lo l.
Proof.
  intros HF. induction l as [|a l IH]; intro lo; [reflexivity|].
  destruct l as [|b l]; [reflexivity|].
  rewrite dedup_cons2. destruct (Qeq_bool a b) eqn:E.
  - apply Qeq_bool_iff in E. rewrite IH. rewrite !stp_cons. rewrite (HF a b E), E. ring.
  - rewrite !(stp_cons F lo a). rewrite IH. reflexivity.
Qed.

Lemma integrate_dedup F : Proper (Qeq ==> Qeq) F -> forall l, integrate F (dedup l) == integrate F l.
Proof.
  intros HF. induction l as [|a l IH]; [reflexivity|].
  destruct l as [|b l]; [reflexivity|].
  rewrite dedup_cons2. destruct (Qeq_bool a b) eqn:E.
  - apply Qeq_bool_iff in E. rewrite IH. rewrite !integrate_cons, stp_cons. rewrite E. ring.
  - rewrite !integrate_cons. apply stp_dedup; auto.
Qed.

Lemma dedup_QIn x : forall l, QIn x (dedup l) <-> QIn x l.
Proof.
  induction l as [|a l IH]; [tauto|]. destruct l as [|b l]; [tauto|].
  rewrite dedup_cons2. destruct (Qeq_bool a b) eqn:E.
  - apply Qeq_bool_iff in E. rewrite IH. rewrite !QIn_cons. rewrite E. tauto.
  - rewrite QIn_cons, IH, !QIn_cons. tauto.
Qed.

Lemma dedup_sorted : forall l, Sorted Qle l -> Sorted Qlt (dedup l).
Proof.
  induction l as [|a l IH]; intro S; [constructor|]. destruct l as [|b l]; [repeat constructor|].
  inversion S as [|? ? S' HR]; subst. inversion HR as [|? ? Lab]; subst.
  rewrite dedup_cons2. destruct (Qeq_bool a b) eqn:E; auto.
  constructor; auto. destruct (dedup_head l b) as (b' & t & -> & Eb). constructor.
  rewrite Eb. apply Qle_lt_or_eq in Lab. destruct Lab as [L|Eq]; auto.
  apply Qeq_bool_iff in Eq. congruence.
Qed.

(* ------------------------------------------------------------------ *)
(* one dimension: the value is reference - minimum                       *)
(* ------------------------------------------------------------------ *)
Definition sing (x : Q) : point := [x].

Definition is_min (h : Q) (xs : list Q) : Prop :=
  (exists x, In x xs /\ x == h) /\ (forall x, In x xs -> h <= x).

Lemma hv1_min r h xs : is_min h xs -> h <= r -> hv [r] (map sing xs) == r - h.
Proof.
  intros [(x & Hx & E) M] L. apply Qle_lt_or_eq in L. destruct L as [L|L].
  - rewrite (hv_1d r (sing x) (map sing xs)).
    + cbn [hd0 sing]. rewrite E. reflexivity.
    + apply in_map. auto.
    + cbn [hd0 sing]. rewrite E. auto.
    + intros q Hq. apply in_map_iff in Hq. destruct Hq as (y & <- & Hy). cbn [hd0 sing]. rewrite E. auto.
  - rewrite hv_1d_none; [rewrite L; ring|].
    intros q Hq. apply in_map_iff in Hq. destruct Hq as (y & <- & Hy). cbn [hd0 sing]. rewrite <- L. auto.
Qed.

Lemma is_min_step h xs x :
  is_min h xs -> is_min (if Qltb x h then x else h) (xs ++ [x]).
Proof.
  intros [(x0 & H0 & E0) M]. destruct (Qltb x h) eqn:C.
  - apply Qltb_iff in C. split.
    + exists x. split; [apply in_or_app; right; left; auto|reflexivity].
    + intros y Hy. apply in_app_or in Hy. destruct Hy as [Hy|[<-|[]]]; [|apply Qle_refl].
      apply Qlt_le_weak. eapply Qlt_le_trans; eauto.
  - apply Qltb_false_iff in C. split.
    + exists x0. split; [apply in_or_app; auto|auto].
    + intros y Hy. apply in_app_or in Hy. destruct Hy as [Hy|[<-|[]]]; auto.
Qed.

(* ------------------------------------------------------------------ *)
(* two dimensions: the sweep over the list sorted by the second coordinate *)
(* ------------------------------------------------------------------ *)
Definition pt2s (xy : pt) : point := [snd xy; fst xy].
Definition ysorted (l : list pt) : Prop := Sorted (fun p q => snd p <= snd q) l.

Lemma slice_pt2s_all z l :
  (forall p, In p l -> snd p <= z) -> slice z (map pt2s l) = map (fun p => sing (fst p)) l.
Proof.
  intro H. unfold slice. induction l as [|p l IH]; [reflexivity|].
  cbn [map filter pt2s hd0].
  assert (Qle_bool (snd p) z = true) as -> by (apply Qle_bool_iff; apply H; left; auto).
  cbn [map tl]. f_equal. apply IH. intros; apply H; right; auto.
Qed.

Lemma slice_pt2s_none z l :
  (forall p, In p l -> z < snd p) -> slice z (map pt2s l) = [].
Proof.
  intro H. apply slice_none. intros q Hq. apply in_map_iff in Hq. destruct Hq as (p & <- & Hp).
  cbn. auto.
Qed.

Section Sweep2.
  Variables rx ry : Q.
  Variable S : list pt.
  Hypothesis S_below : forall p, In p S -> fst p <= rx /\ snd p <= ry.
  Let G (z : Q) : Q := hv [rx] (slice z (map pt2s S)).

  Lemma G_value pre l h qy :
    S = pre ++ l -> is_min h (map fst pre) ->
    (forall p, In p pre -> snd p <= qy) -> (forall p, In p l -> qy < snd p) ->
    G qy == rx - h.
  Proof.
    intros ES M Hpre Hl. unfold G. rewrite ES, map_app, slice_app.
    rewrite (slice_pt2s_all qy pre Hpre), (slice_pt2s_none qy l Hl), app_nil_r.
    rewrite <- (map_map fst sing). apply hv1_min; auto.
    destruct M as [(x & Hx & E) _]. rewrite <- E. apply in_map_iff in Hx. destruct Hx as (p & <- & Hp).
    apply S_below. rewrite ES. apply in_or_app. auto.
  Qed.

  Lemma ysorted_all p l : ysorted (p :: l) -> forall q, In q l -> snd p <= snd q.
  Proof.
    intros Ys. apply Sorted_extends in Ys.
    - intros q Hq. rewrite Forall_forall in Ys. apply Ys; auto.
    - intros a b c H1 H2. eapply Qle_trans; eauto.
  Qed.

  Lemma c_loop_stp : forall l pre h qy acc,
    S = pre ++ l -> is_min h (map fst pre) -> qy <= ry ->
    (forall p, In p pre -> snd p <= qy) ->
    (forall p, In p l -> qy <= snd p) -> ysorted l ->
    c_loop rx ry h qy l acc == acc + stp G qy (map snd l ++ [ry]).
  Proof.
    induction l as [|p l IH]; intros pre h qy acc ES M Lq Hpre Hl Ys.
    - cbn [c_loop map app]. rewrite stp_cons, stp_nil.
      apply Qle_lt_or_eq in Lq. destruct Lq as [Lq|Eqy].
      + rewrite (G_value pre [] h qy ES M Hpre); [ring|intros q []].
      + assert (Z0 : ry - qy == 0) by (change (qy == ry) in Eqy; rewrite Eqy; ring). rewrite Z0. ring.
    - cbn [c_loop map app]. rewrite stp_cons.
      assert (Hp : In p S) by (rewrite ES; apply in_or_app; right; left; auto).
      assert (Lp : qy <= snd p) by (apply Hl; left; auto).
      assert (Hall : forall q, In q l -> snd p <= snd q) by (apply ysorted_all; auto).
      rewrite (IH (pre ++ [p]) (if Qltb (fst p) h then fst p else h) (snd p)).
      + apply Qle_lt_or_eq in Lp. destruct Lp as [Lp|Ep].
        * rewrite (G_value pre (p :: l) h qy ES M Hpre); [ring|].
          intros q [<-|Hq]; auto. eapply Qlt_le_trans; [exact Lp|auto].
        * assert (Z0 : snd p - qy == 0) by (change (qy == snd p) in Ep; rewrite Ep; ring). rewrite Z0. ring.
      + rewrite ES, <- app_assoc. reflexivity.
      + rewrite map_app. cbn [map]. apply is_min_step. auto.
      + apply (S_below p Hp).
      + intros q Hq. apply in_app_or in Hq. destruct Hq as [Hq|[<-|[]]]; [|apply Qle_refl].
        eapply Qle_trans; [apply Hpre; auto|auto].
      + auto.
      + inversion Ys; auto.
  Qed.

  (* the whole sweep, started on the first point of the sorted list *)
  Lemma c_loop_integral q l :
    S = q :: l -> ysorted (q :: l) ->
    c_loop rx ry (fst q) (snd q) l 0 == integrate G (map snd S ++ [ry]).
  Proof.
    intros ES Ys. rewrite ES. cbn [map app]. rewrite integrate_cons.
    rewrite (c_loop_stp l [q] (fst q) (snd q) 0); [ring|auto| | | | |].
    - split; [exists (fst q); split; [left; auto|reflexivity]|]. intros x [<-|[]]. apply Qle_refl.
    - apply (S_below q). rewrite ES. left. auto.
    - intros p [<-|[]]. apply Qle_refl.
    - apply ysorted_all. auto.
    - inversion Ys; auto.
  Qed.
End Sweep2.

Lemma ysorted_Qle ry : forall l, ysorted l -> (forall p, In p l -> snd p <= ry) ->
  Sorted Qle (map snd l ++ [ry]).
Proof.
  induction l as [|p l IH]; intros Ys H; [repeat constructor|].
  cbn [map app]. inversion Ys as [|? ? Ys' HR]; subst. constructor.
  - apply IH; auto. intros; apply H; right; auto.
  - destruct l as [|q l]; cbn [map app]; constructor.
    + apply H. left. auto.
    + inversion HR; auto.
Qed.

Lemma ys_axis_valid ry S :
  ysorted S -> (forall p, In p S -> snd p <= ry) ->
  valid_axis ry (map pt2s S) (dedup (map snd S ++ [ry])).
Proof.
  intros Ys H. split; [apply dedup_sorted; apply ysorted_Qle; auto|]. split; [|split].
  - apply dedup_QIn. apply QIn_app. right. left. reflexivity.
  - intros x Hx. apply (proj1 (dedup_QIn x _)) in Hx. apply (proj1 (QIn_app x _ _)) in Hx. destruct Hx as [Hx|Hx].
    + apply InA_alt in Hx. destruct Hx as (y & E & Hy). apply in_map_iff in Hy.
      destruct Hy as (p & <- & Hp). rewrite E. auto.
    + apply QIn_sing in Hx. rewrite Hx. apply Qle_refl.
  - intros q Hq _. apply in_map_iff in Hq. destruct Hq as (p & <- & Hp). cbn [pt2s hd0].
    apply dedup_QIn. apply QIn_app. left. apply QIn_In. apply in_map. auto.
Qed.

(* the two-objective sweep of both implementations, on ANY list sorted (weakly) by the second
   coordinate whose points weakly dominate the reference, returns hv *)
Theorem sweep2_correct rx ry q l :
  ysorted (q :: l) -> (forall p, In p (q :: l) -> fst p <= rx /\ snd p <= ry) ->
  c_loop rx ry (fst q) (snd q) l 0 == hv [rx; ry] (map pt2 (q :: l)).
Proof.
  intros Ys H. set (S := q :: l) in *.
  rewrite (c_loop_integral rx ry S H q l eq_refl Ys).
  rewrite <- (integrate_dedup _ (hvslice_proper [rx] (map pt2s S))).
  rewrite (integrate_axis [rx] ry (map pt2s S)).
  - rewrite <- hv_cons. apply hv_2d_swap.
  - apply ys_axis_valid; auto. intros p Hp. apply H; auto.
Qed.

(* ------------------------------------------------------------------ *)
(* insertion sort                                                       *)
(* ------------------------------------------------------------------ *)
Section SortLemmas.
  Context {A : Type} (leb : A -> A -> bool) (R : A -> A -> Prop).
  Hypothesis leb_true : forall a b, leb a b = true -> R a b.
  Hypothesis leb_false : forall a b, leb a b = false -> R b a.

  Lemma insert_by_perm p l : Permutation (insert_by leb p l) (p :: l).
  Proof.
    induction l as [|q l IH]; cbn [insert_by]; [reflexivity|].
    destruct (leb p q); [reflexivity|]. rewrite IH. apply perm_swap.
  Qed.

  Lemma sort_by_perm l : Permutation (sort_by leb l) l.
  Proof.
    induction l as [|p l IH]; [reflexivity|]. cbn [sort_by fold_right].
    rewrite insert_by_perm. constructor. exact IH.
  Qed.

  Lemma insert_by_sorted p l : Sorted R l -> Sorted R (insert_by leb p l).
  Proof.
    induction l as [|q l IH]; cbn [insert_by]; intro S; [repeat constructor|].
    destruct (leb p q) eqn:E.
    - constructor; [exact S|]. constructor. apply leb_true. exact E.
    - inversion S as [|? ? S' HR]; subst. constructor; [apply IH; exact S'|].
      destruct l as [|q' l]; cbn [insert_by].
      + constructor. apply leb_false. exact E.
      + destruct (leb p q'); constructor; [apply leb_false; exact E|inversion HR; assumption].
  Qed.

  Lemma sort_by_sorted l : Sorted R (sort_by leb l).
  Proof. induction l; cbn [sort_by fold_right]; [constructor|apply insert_by_sorted; auto]. Qed.
End SortLemmas.

Lemma leb_y_true a b : leb_y a b = true -> snd a <= snd b.
Proof. apply Qle_bool_iff. Qed.
Lemma leb_y_false a b : leb_y a b = false -> snd b <= snd a.
Proof.
  unfold leb_y. intro H. apply Qlt_le_weak. apply Qnot_le_lt. intro L.
  apply Qle_bool_iff in L. congruence.
Qed.
Lemma leb_yx_true a b : leb_yx a b = true -> snd a <= snd b.
Proof.
  unfold leb_yx. destruct (Qcompare_spec (snd a) (snd b)) as [E|L|G]; intro H; try discriminate.
  - rewrite E. apply Qle_refl.
  - apply Qlt_le_weak. auto.
Qed.
Lemma leb_yx_false a b : leb_yx a b = false -> snd b <= snd a.
Proof.
  unfold leb_yx. destruct (Qcompare_spec (snd a) (snd b)) as [E|L|G]; intro H; try discriminate.
  - rewrite E. apply Qle_refl.
  - apply Qlt_le_weak. auto.
Qed.

(* ------------------------------------------------------------------ *)
(* points outside the reference box can be dropped                       *)
(* ------------------------------------------------------------------ *)
Lemma existsb_filter {A} (f g : A -> bool) l :
  existsb g (filter f l) = existsb (fun p => f p && g p) l.
Proof.
  induction l as [|p l IH]; [reflexivity|]. cbn [filter existsb].
  destruct (f p); cbn [existsb andb orb]; rewrite IH; reflexivity.
Qed.

Lemma hv_drop_outside ref f pts :
  (forall p, In p pts -> f p = false -> outside ref p) -> hv ref (filter f pts) == hv ref pts.
Proof.
  intro H. apply hv_cover_ext. intros c Hc.
  destruct (common_grid ref (filter f pts) pts) as [_ V].
  pose proof (cells_ok _ _ _ _ V Hc) as Ok.
  unfold covered. rewrite existsb_filter.
  remember (induced_axes ref (filter f pts ++ pts)) as axes eqn:Ha. clear Ha V Hc. induction pts as [|p l IH]; [reflexivity|]. cbn [existsb].
  rewrite IH by (intros q Hq; apply H; right; auto).
  f_equal. destruct (f p) eqn:E; [reflexivity|]. cbn [andb]. symmetry.
  eapply corner_dominated_outside; [exact Ok|]. apply H; [left; auto|auto].
Qed.

(* ------------------------------------------------------------------ *)
(* _hv.c, two objectives                                                 *)
(* ------------------------------------------------------------------ *)
Definition inside2 (rx ry : Q) (p : point) : bool := Qltb (hd0 p) rx && Qltb (hd0 (tl p)) ry.

Lemma map_pt2_filter rx ry pts :
  map pt2 (c_filter2 rx ry pts) = filter (inside2 rx ry) (map pt2 pts).
Proof.
  unfold c_filter2. induction pts as [|p l IH]; [reflexivity|]. cbn [filter map].
  change (inside2 rx ry (pt2 p)) with (Qltb (fst p) rx && Qltb (snd p) ry).
  destruct (Qltb (fst p) rx && Qltb (snd p) ry); cbn [map]; rewrite IH; reflexivity.
Qed.

Lemma hv2_filter rx ry pts :
  hv [rx; ry] (map pt2 (c_filter2 rx ry pts)) == hv [rx; ry] (map pt2 pts).
Proof.
  rewrite map_pt2_filter. apply hv_drop_outside. intros p _ H. unfold inside2 in H. cbn [outside].
  apply andb_false_iff in H. destruct H as [H|H]; apply Qltb_false_iff in H; auto.
Qed.

Lemma c_filter2_below rx ry pts p :
  In p (c_filter2 rx ry pts) -> fst p < rx /\ snd p < ry.
Proof.
  intro H. apply filter_In in H. destruct H as [_ H]. apply andb_true_iff in H.
  destruct H as [A B]. apply Qltb_iff in A. apply Qltb_iff in B. auto.
Qed.

(* whatever order qsort gives to equal second coordinates *)
Theorem chv2_sorted_correct rx ry pts sorted :
  Permutation sorted (c_filter2 rx ry pts) -> ysorted sorted ->
  chv2_sorted rx ry sorted == hv [rx; ry] (map pt2 pts).
Proof.
  intros P Ys. rewrite <- hv2_filter. rewrite <- (hv_perm _ _ _ (Permutation_map pt2 P)).
  assert (B : forall p, In p sorted -> fst p < rx /\ snd p < ry).
  { intros p Hp. apply (c_filter2_below rx ry pts). eapply Permutation_in; eauto. }
  destruct sorted as [|p1 [|p2 l]].
  - cbn [chv2_sorted map]. rewrite hv_cons. reflexivity.
  - cbn [chv2_sorted map]. rewrite hv_single.
    + cbn [box_vol pt2 hd0 tl]. ring.
    + destruct (B p1 (or_introl eq_refl)). cbn. auto.
  - cbn [chv2_sorted]. apply sweep2_correct; auto.
    intros p Hp. destruct (B p Hp). split; apply Qlt_le_weak; auto.
Qed.

Theorem chv2_correct rx ry pts : chv2 rx ry pts == hv [rx; ry] (map pt2 pts).
Proof.
  unfold chv2. apply chv2_sorted_correct.
  - apply sort_by_perm.
  - apply (sort_by_sorted leb_y (fun p q => snd p <= snd q) leb_y_true leb_y_false).
Qed.

(* ------------------------------------------------------------------ *)
(* pyhv.py, two objectives                                               *)
(* ------------------------------------------------------------------ *)
(* the loop on the shifted points is the C loop with the reference at the origin *)
Lemma py_loop_c_loop : forall l h qy acc, py_loop h qy l acc == c_loop 0 0 h qy l acc.
Proof.
  induction l as [|p l IH]; intros h qy acc; cbn [py_loop c_loop]; [ring|].
  rewrite IH. assert (E : acc + h * (qy - snd p) == acc + (0 - h) * (snd p - qy)) by ring.
  clear IH. revert E. generalize (acc + h * (qy - snd p)) (acc + (0 - h) * (snd p - qy)).
  intros a b E. clear acc. revert a b E.
  generalize (if Qltb (fst p) h then fst p else h) (snd p). clear h qy p.
  induction l as [|p l IH]; intros h qy a b E; cbn [c_loop]; [rewrite E; reflexivity|].
  apply IH. rewrite E. reflexivity.
Qed.

Lemma sh_shift2 rx ry pts :
  Forall2 (sh [rx; ry]) (map pt2 pts) (map pt2 (map (shift2 rx ry) pts)).
Proof.
  induction pts as [|p l IH]; cbn [map]; constructor; auto.
  cbn. repeat split; reflexivity.
Qed.

Lemma Qminus_le0 x r : x <= r -> x - r <= 0.
Proof. intro H. apply (Qplus_le_l _ _ r). ring_simplify. exact H. Qed.

Theorem pyhv2_correct rx ry pts :
  (forall p, In p pts -> fst p <= rx /\ snd p <= ry) ->
  pyhv2 rx ry pts == hv [rx; ry] (map pt2 pts).
Proof.
  intro B. unfold pyhv2.
  set (sp := map (shift2 rx ry) pts).
  assert (T : hv [0; 0] (map pt2 sp) == hv [rx; ry] (map pt2 pts)).
  { apply (hv_translate [rx; ry] [rx; ry] [0; 0]); auto.
    - cbn. repeat split; ring.
    - apply sh_shift2. }
  pose proof (sort_by_perm leb_yx sp) as P.
  pose proof (sort_by_sorted leb_yx (fun p q => snd p <= snd q) leb_yx_true leb_yx_false sp) as Ys.
  rewrite <- T, <- (hv_perm _ _ _ (Permutation_map pt2 P)).
  destruct (sort_by leb_yx sp) as [|q l] eqn:E.
  - cbn [map]. rewrite hv_cons. reflexivity.
  - rewrite py_loop_c_loop. apply sweep2_correct; auto.
    intros p Hp. assert (Hp' : In p sp) by (eapply Permutation_in; eauto).
    apply in_map_iff in Hp'. destruct Hp' as (p0 & <- & Hp0). destruct (B p0 Hp0) as [Bx By].
    cbn [shift2 fst snd]. split; apply Qminus_le0; auto.
Qed.

(* ------------------------------------------------------------------ *)
(* one objective                                                        *)
(* ------------------------------------------------------------------ *)
Lemma Qle_bool_false a b : Qle_bool a b = false -> b <= a.
Proof.
  intro H. apply Qlt_le_weak. apply Qnot_le_lt. intro L. apply Qle_bool_iff in L. congruence.
Qed.

Lemma sort_head_min l m t : sort_by Qle_bool l = m :: t -> is_min m l.
Proof.
  intro E.
  pose proof (sort_by_perm Qle_bool l) as P.
  pose proof (sort_by_sorted Qle_bool Qle (fun a b => proj1 (Qle_bool_iff a b)) Qle_bool_false l) as S.
  rewrite E in *. split.
  - exists m. split; [eapply Permutation_in; [exact P|left; auto]|reflexivity].
  - intros x Hx. apply Permutation_sym in P. apply (Permutation_in _ P) in Hx.
    destruct Hx as [<-|Hx]; [apply Qle_refl|].
    apply Sorted_extends in S; [|intros a b c; apply Qle_trans].
    rewrite Forall_forall in S. auto.
Qed.

Theorem pyhv1_correct r xs : (forall x, In x xs -> x <= r) -> pyhv1 r xs == hv [r] (map sing xs).
Proof.
  intro B. unfold pyhv1. destruct (sort_by Qle_bool (map (fun x => x - r) xs)) as [|m t] eqn:E.
  - assert (xs = []) as ->; [|cbn [map]; rewrite hv_cons; reflexivity].
    pose proof (sort_by_perm Qle_bool (map (fun x => x - r) xs)) as P. rewrite E in P.
    apply Permutation_nil in P. destruct xs; [reflexivity|discriminate].
  - apply sort_head_min in E. destruct E as [(y & Hy & Ey) M].
    apply in_map_iff in Hy. destruct Hy as (x & <- & Hx).
    rewrite (hv1_min r (m + r) xs).
    + ring.
    + split.
      * exists x. split; auto. rewrite <- Ey. ring.
      * intros z Hz. assert (H : m <= z - r) by (apply M; apply (in_map (fun x0 => x0 - r)); auto).
        apply (Qplus_le_l _ _ (- r)). setoid_replace (m + r + - r) with m by ring. exact H.
    + rewrite <- Ey. ring_simplify. apply B. auto.
Qed.

Theorem chv1_correct r xs : chv1 r xs == hv [r] (map sing xs).
Proof.
  unfold chv1.
  assert (Fl : hv [r] (map sing (filter (fun x => Qltb x r) xs)) == hv [r] (map sing xs)).
  { assert (map sing (filter (fun x => Qltb x r) xs) = filter (fun p => Qltb (hd0 p) r) (map sing xs)) as ->.
    { induction xs as [|x l IH]; [reflexivity|]. cbn [filter map]. change (hd0 (sing x)) with x.
      destruct (Qltb x r); cbn [map]; rewrite IH; reflexivity. }
    apply hv_drop_outside. intros p _ H. cbn. left. apply Qltb_false_iff. auto. }
  set (fx := filter (fun x => Qltb x r) xs) in *.
  assert (V : match sort_by Qle_bool fx with [] => 0 | m :: _ => r - m end == hv [r] (map sing xs)).
  { rewrite <- Fl. destruct (sort_by Qle_bool fx) as [|m t] eqn:E.
    - assert (fx = []) as ->; [|cbn [map]; rewrite hv_cons; reflexivity].
      pose proof (sort_by_perm Qle_bool fx) as P. rewrite E in P.
      apply Permutation_nil in P. auto.
    - apply sort_head_min in E. symmetry. apply hv1_min; auto.
      destruct E as [(y & Hy & Ey) _]. rewrite <- Ey. apply Qlt_le_weak.
      apply filter_In in Hy. destruct Hy as [_ Hy]. apply Qltb_iff. auto. }
  destruct (sort_by Qle_bool fx) as [|m [|m' t]]; auto.
  rewrite <- V. ring.
Qed.
