(* C07 — proofs about the SPEA2 model. *)
From Coq Require Import List ZArith Bool Lia.
From DV Require Import Base.PyList Base.C07_Num Model.C07_Spea2.
Import ListNotations.

Section Generic.
Context {T : Type} (Op : numops T).
Hypothesis ltb_asym : forall x y, n_ltb Op x y = true -> n_ltb Op y x = false.

(* dom_aux as a conjunction: nowhere worse, and (already better or somewhere better) *)
Definition worse_at (p : T * T) : bool := negb (n_ltb Op (snd p) (fst p)) && n_ltb Op (fst p) (snd p).
Definition better_at (p : T * T) : bool := n_ltb Op (snd p) (fst p).

Lemma dom_aux_spec a : forall b ne,
  dom_aux Op a b ne = forallb (fun p => negb (worse_at p)) (zip a b) && (ne || existsb better_at (zip a b)).
Proof.
  induction a as [|x a IH]; intros [|y b] ne; cbn; try (now rewrite orb_false_r).
  unfold worse_at at 1, better_at at 1. cbn.
  destruct (n_ltb Op y x) eqn:E1; cbn.
  - rewrite IH. cbn. now rewrite orb_true_r.
  - destruct (n_ltb Op x y) eqn:E2; cbn; [reflexivity|]. apply IH.
Qed.

Lemma zip_swap_forall (P : T * T -> bool) (Q : T * T -> bool) a : forall b,
  (forall x y, P (x, y) = Q (y, x)) -> forallb P (zip a b) = forallb Q (zip b a).
Proof.
  induction a as [|x a IH]; intros [|y b] H; cbn; auto. rewrite H, (IH b H). reflexivity.
Qed.

Lemma dominates_asym a b : dominates Op a b = true -> dominates Op b a = false.
Proof.
  unfold dominates. rewrite !dom_aux_spec. cbn [orb].
  intros H. apply andb_true_iff in H. destruct H as [_ H].
  apply existsb_exists in H. destruct H as [[x y] [Hin Hb]]. unfold better_at in Hb. cbn in Hb.
  apply andb_false_iff. left.
  assert (G : forall a b, In (x, y) (zip a b) -> In (y, x) (zip b a)).
  { clear. induction a as [|u a IH]; intros [|v b]; cbn; try tauto.
    intros [E|E]; [left; congruence|right; auto]. }
  apply G in Hin.
  destruct (forallb (fun p => negb (worse_at p)) (zip b a)) eqn:F; [|reflexivity].
  rewrite forallb_forall in F. specialize (F _ Hin). unfold worse_at in F. cbn in F.
  rewrite Hb in F. rewrite (ltb_asym _ _ Hb) in F. discriminate.
Qed.

Lemma dominates_irrefl a : dominates Op a a = false.
Proof.
  destruct (dominates Op a a) eqn:E; [|reflexivity]. now rewrite (dominates_asym _ _ E) in E.
Qed.

End Generic.
