(* C07 — proofs about the SPEA2 model. *)
From Coq Require Import List ZArith Bool Lia.
From DV Require Import Base.PyList Base.C07_Num Model.C07_Spea2.
Import ListNotations.

Section Generic.
Context {T : Type} (Op : numops T).
Hypothesis ltb_asym : forall x y, n_ltb Op x y = true -> n_ltb Op y x = false.

(* dom_aux as a conjunction: nowhere worse, and (already better or somewhere better) *)
Definition worse_at (p : T * T) : bool := negb (n_ltb Op (snd p) (fst p)) && n_ltb Op (fst p) (snd p).
Definition better_at (p : T * T) : bool := n_ltb Op (snd p) (fst p).

Lemma dom_aux_spec a : forall b ne,
  dom_aux Op a b ne = forallb (fun p => negb (worse_at p)) (zip a b) && (ne || existsb better_at (zip a b)).
Proof.
  induction a as [|x a IH]; intros [|y b] ne; cbn; try (now rewrite orb_false_r).
  unfold worse_at at 1, better_at at 1. cbn.
  destruct (n_ltb Op y x) eqn:E1; cbn.
  - rewrite IH. cbn. now rewrite orb_true_r.
  - destruct (n_ltb Op x y) eqn:E2; cbn; [reflexivity|]. apply IH.
Qed.

Lemma zip_swap_forall (P : T * T -> bool) (Q : T * T -> bool) a : forall b,
  (forall x y, P (x, y) = Q (y, x)) -> forallb P (zip a b) = forallb Q (zip b a).
Proof.
  induction a as [|x a IH]; intros [|y b] H; cbn; auto. rewrite H, (IH b H). reflexivity.
Qed.

Lemma dominates_asym a b : dominates Op a b = true -> dominates Op b a = false.
Proof.
  unfold dominates. rewrite !dom_aux_spec. cbn [orb].
  intros H. apply andb_true_iff in H. destruct H as [_ H].
  apply existsb_exists in H. destruct H as [[x y] [Hin Hb]]. unfold better_at in Hb. cbn in Hb.
  apply andb_false_iff. left.
  assert (G : forall a b, In (x, y) (zip a b) -> In (y, x) (zip b a)).
  { clear. induction a as [|u a IH]; intros [|v b]; cbn; try tauto.
    intros [E|E]; [left; congruence|right; auto]. }
  apply G in Hin.
  destruct (forallb (fun p => negb (worse_at p)) (zip b a)) eqn:F; [|reflexivity].
  rewrite forallb_forall in F. specialize (F _ Hin). unfold worse_at in F. cbn in F.
  rewrite Hb in F. rewrite (ltb_asym _ _ Hb) in F. discriminate.
Qed.

Lemma dominates_irrefl a : dominates Op a a = false.
Proof.
  destruct (dominates Op a a) eqn:E; [|reflexivity]. now rewrite (dominates_asym _ _ E) in E.
Qed.

End Generic.

(* ------------------------------------------------------------------ *)
(* list helpers *)
Lemma nth_set_nth_eq {A} (l : list A) k v d : (k < length l)%nat -> nth k (set_nth l k v) d = v.
Proof. revert k; induction l as [|x r IH]; intros [|k] H; cbn in *; try lia; auto. apply IH. lia. Qed.

Lemma nth_set_nth_neq {A} (l : list A) k j v d : k <> j -> nth j (set_nth l k v) d = nth j l d.
Proof.
  revert k j; induction l as [|x r IH]; intros [|k] [|j] H; cbn; auto; try lia.
Qed.

Lemma in_pairs N i j : In (i, j) (pairs N) <-> (i < j < N)%nat.
Proof.
  unfold pairs. rewrite in_flat_map. split.
  - intros [a [Ha H]]. apply in_map_iff in H. destruct H as [b [E Hb]]. injection E as -> ->.
    apply in_seq in Ha. apply in_seq in Hb. lia.
  - intros H. exists i. split; [apply in_seq; lia|]. apply in_map_iff. exists j. split; [reflexivity|apply in_seq; lia].
Qed.

Section Phase1.
Context {T : Type} (Op : numops T).
Hypothesis ltb_asym : forall x y, n_ltb Op x y = true -> n_ltb Op y x = false.
Variable w : list (list T).
Let N := length w.
Let dom i j := dominates Op (nth i w []) (nth j w []).

(* in the pair (a,b): x loses to j / x wins *)
Definition loses (x j : nat) (p : nat * nat) : Prop :=
  (x = snd p /\ j = fst p /\ dom (fst p) (snd p) = true) \/
  (x = fst p /\ j = snd p /\ dom (fst p) (snd p) = false /\ dom (snd p) (fst p) = true).
Definition wins (x : nat) (p : nat * nat) : Prop :=
  (x = fst p /\ dom (fst p) (snd p) = true) \/
  (x = snd p /\ dom (fst p) (snd p) = false /\ dom (snd p) (fst p) = true).

Lemma loses_pair x j a b : loses x j (a, b) <->
  ((x = b /\ j = a /\ dom a b = true) \/ (x = a /\ j = b /\ dom a b = false /\ dom b a = true)).
Proof. reflexivity. Qed.
Lemma wins_pair x a b : wins x (a, b) <->
  ((x = a /\ dom a b = true) \/ (x = b /\ dom a b = false /\ dom b a = true)).
Proof. reflexivity. Qed.

Record p1inv (P : list (nat * nat)) (st : list nat * list (list nat)) : Prop := {
  p1_ls : length (fst st) = N;
  p1_ld : length (snd st) = N;
  p1_d : forall x j, In j (nth x (snd st) []) <-> exists p, In p P /\ loses x j p;
  p1_s : forall x, (exists p, In p P /\ wins x p) -> (1 <= nth x (fst st) 0)%nat
}.

Lemma p1_step P st p : p1inv P st -> (fst p < N)%nat -> (snd p < N)%nat -> p1inv (P ++ [p]) (pair_step Op w st p).
Proof.
  intros [LS LD HD HS] Ha Hb. destruct p as [a b]. destruct st as [S_ D]. cbn [fst snd] in *.
  unfold pair_step. fold (dom a b). fold (dom b a).
  assert (Hex : forall (Q : nat * nat -> Prop), (exists p, In p (P ++ [(a, b)]) /\ Q p) <-> ((exists p, In p P /\ Q p) \/ Q (a, b))).
  { intros Q. split.
    - intros [p [Hp HQ]]. apply in_app_or in Hp. destruct Hp as [Hp|[<-|[]]]; [left; eauto|now right].
    - intros [[p [Hp HQ]]|HQ]; [exists p; split; [apply in_or_app; now left|exact HQ]|].
      exists (a, b). split; [apply in_or_app; right; now left|exact HQ]. }
  destruct (dom a b) eqn:Eab; [|destruct (dom b a) eqn:Eba].
  - (* a dominates b *)
    constructor; cbn [fst snd].
    + unfold incr. now rewrite set_nth_length.
    + unfold push. now rewrite set_nth_length.
    + intros x j. rewrite Hex. unfold push. destruct (Nat.eq_dec b x) as [<-|Hne].
      * rewrite nth_set_nth_eq by lia. rewrite in_app_iff, HD. rewrite loses_pair, Eab.
        split; [intros [H|[<-|[]]]; [now left|right; left; auto]|].
        intros [H|[[_ [-> _]]|[_ [_ [H _]]]]]; [now left|right; now left|discriminate].
      * rewrite nth_set_nth_neq by exact Hne. rewrite HD. rewrite loses_pair, Eab.
        split; [intros H; now left|]. intros [H|[[-> _]|[_ [_ [H _]]]]]; [exact H|contradiction|discriminate].
    + intros x. rewrite Hex. unfold incr. intros [H|H].
      * specialize (HS x H). destruct (Nat.eq_dec a x) as [<-|Hne].
        -- rewrite nth_set_nth_eq by lia. lia.
        -- rewrite nth_set_nth_neq by exact Hne. exact HS.
      * rewrite wins_pair, Eab in H. destruct H as [[-> _]|[_ [H _]]]; [|discriminate].
        rewrite nth_set_nth_eq by lia. lia.
  - (* b dominates a *)
    constructor; cbn [fst snd].
    + unfold incr. now rewrite set_nth_length.
    + unfold push. now rewrite set_nth_length.
    + intros x j. rewrite Hex. unfold push. destruct (Nat.eq_dec a x) as [<-|Hne].
      * rewrite nth_set_nth_eq by lia. rewrite in_app_iff, HD. rewrite loses_pair, Eab, Eba.
        split; [intros [H|[<-|[]]]; [now left|right; right; auto]|].
        intros [H|[[_ [_ H]]|[_ [-> _]]]]; [now left|discriminate|right; now left].
      * rewrite nth_set_nth_neq by exact Hne. rewrite HD. rewrite loses_pair, Eab.
        split; [intros H; now left|]. intros [H|[[_ [_ H]]|[-> _]]]; [exact H|discriminate|contradiction].
    + intros x. rewrite Hex. unfold incr. intros [H|H].
      * specialize (HS x H). destruct (Nat.eq_dec b x) as [<-|Hne].
        -- rewrite nth_set_nth_eq by lia. lia.
        -- rewrite nth_set_nth_neq by exact Hne. exact HS.
      * rewrite wins_pair, Eab in H. destruct H as [[_ H]|[-> _]]; [discriminate|].
        rewrite nth_set_nth_eq by lia. lia.
  - (* neither *)
    constructor; cbn [fst snd]; auto.
    + intros x j. rewrite Hex, HD. rewrite loses_pair, Eab, Eba.
      split; [intros H; now left|]. intros [H|[[_ [_ H]]|[_ [_ [_ H]]]]]; [exact H|discriminate|discriminate].
    + intros x. rewrite Hex. intros [H|H]; [auto|]. rewrite wins_pair, Eab, Eba in H.
      destruct H as [[_ H]|[_ [_ H]]]; discriminate.
Qed.

Lemma p1_fold : forall l P st, p1inv P st -> (forall p, In p l -> (fst p < N)%nat /\ (snd p < N)%nat) ->
  p1inv (P ++ l) (fold_left (pair_step Op w) l st).
Proof.
  induction l as [|p l IH]; intros P st I Hl; cbn [fold_left].
  - now rewrite app_nil_r.
  - replace (P ++ p :: l) with ((P ++ [p]) ++ l) by (rewrite <- app_assoc; reflexivity).
    apply IH.
    + apply p1_step; [exact I|apply Hl; now left|apply Hl; now left].
    + intros q Hq. apply Hl. now right.
Qed.

Lemma p1_init : p1inv [] (repeat 0%nat N, repeat [] N).
Proof.
  constructor; cbn [fst snd].
  - apply repeat_length.
  - apply repeat_length.
  - intros x j. split.
    + intro H. exfalso. destruct (Nat.lt_ge_cases x N) as [L|L].
      * rewrite nth_repeat in H. destruct H.
      * rewrite nth_overflow in H by (rewrite repeat_length; exact L). destruct H.
    + intros [p [[] _]].
  - intros x [p [[] _]].
Qed.

Lemma phase1_inv : p1inv (pairs N) (phase1 Op w N).
Proof.
  unfold phase1. change (pairs N) with ([] ++ pairs N). apply p1_fold; [apply p1_init|].
  intros [a b] H. apply in_pairs in H. cbn. lia.
Qed.

(* raw fitness 0  <->  no dominator *)
Lemma fold_sum_zero (S_ : list nat) : forall dl acc,
  fold_left (fun acc j => (acc + nth j S_ 0)%nat) dl acc = 0%nat <-> (acc = 0%nat /\ forall j, In j dl -> nth j S_ 0%nat = 0%nat).
Proof.
  induction dl as [|j dl IH]; intros acc; cbn [fold_left].
  - split; [intro H; split; [exact H|intros j []]|tauto].
  - rewrite IH. split.
    + intros [H1 H2]. split; [lia|]. intros j' [<-|Hj]; [lia|auto].
    + intros [H1 H2]. split; [rewrite H1, (H2 j (or_introl eq_refl)); reflexivity|]. intros j' Hj. apply H2. now right.
Qed.

Definition nondominated (i : nat) : Prop := forall j, (j < N)%nat -> dom j i = false.

Lemma raw_fits_zero_iff i : (i < N)%nat ->
  let '(S_, D) := phase1 Op w N in
  nth i (raw_fits S_ D) 1%nat = 0%nat <-> nondominated i.
Proof.
  intro Hi. assert (I := phase1_inv). destruct (phase1 Op w N) as [S_ D].
  destruct I as [LS LD HD HS]. cbn [fst snd] in *.
  unfold raw_fits.
  rewrite (nth_indep _ 1%nat (fold_left (fun acc j => (acc + nth j S_ 0)%nat) [] 0%nat)) by (rewrite map_length; lia).
  rewrite (map_nth (fun dl => fold_left (fun acc j => (acc + nth j S_ 0)%nat) dl 0%nat) D [] i).
  rewrite fold_sum_zero. split.
  - intros [_ H] j Hj. destruct (dom j i) eqn:E; [|reflexivity]. exfalso.
    assert (Hne : j <> i). { intros ->. unfold dom in E. rewrite (dominates_irrefl Op ltb_asym) in E. discriminate. }
    assert (Hasym : dom i j = false) by (apply (dominates_asym Op ltb_asym); exact E).
    (* the pair containing i and j was processed and i lost it *)
    assert (Hl : exists p, In p (pairs N) /\ loses i j p).
    { destruct (Nat.lt_ge_cases j i) as [L|L].
      - exists (j, i). split; [apply in_pairs; lia|]. left. cbn. auto.
      - exists (i, j). split; [apply in_pairs; lia|]. right. cbn. auto. }
    assert (Hin : In j (nth i D [])) by (apply HD; exact Hl).
    assert (Hw : exists p, In p (pairs N) /\ wins j p).
    { destruct Hl as [p [Hp Hl]]. exists p. split; [exact Hp|]. destruct Hl as [[-> [-> H1]]|[-> [-> [H1 H2]]]]; [left|right]; auto. }
    specialize (HS j Hw). specialize (H j Hin). lia.
  - intros Hnd. split; [reflexivity|]. intros j Hj. exfalso. apply HD in Hj. destruct Hj as [[a b] [Hp Hl]].
    apply in_pairs in Hp. destruct Hl as [[-> [-> H1]]|[-> [-> [_ H2]]]]; cbn [fst snd] in *.
    + rewrite (Hnd a) in H1 by lia. discriminate.
    + rewrite (Hnd b) in H2 by lia. discriminate.
Qed.

Lemma raw_fits_length : let '(S_, D) := phase1 Op w N in length (raw_fits S_ D) = N.
Proof.
  assert (I := phase1_inv). destruct (phase1 Op w N) as [S_ D]. destruct I as [_ LD _ _]. cbn in LD.
  unfold raw_fits. now rewrite map_length.
Qed.

(* chosen_indices = exactly the non-dominated individuals, in index order *)
Lemma nd_indices_spec i :
  let '(S_, D) := phase1 Op w N in
  In i (nd_indices (raw_fits S_ D)) <-> ((i < N)%nat /\ nondominated i).
Proof.
  assert (L := raw_fits_length). assert (Z := fun i => raw_fits_zero_iff i).
  destruct (phase1 Op w N) as [S_ D]. unfold nd_indices. rewrite filter_In, in_seq, L. split.
  - intros [Hi H]. split; [lia|]. apply (Z i ltac:(lia)). apply Nat.ltb_lt in H.
    rewrite (nth_indep _ 1%nat 0%nat) by lia. lia.
  - intros [Hi H]. split; [lia|]. apply Nat.ltb_lt. apply (Z i Hi) in H.
    rewrite (nth_indep _ 1%nat 0%nat) in H by lia. lia.
Qed.

Lemma nd_indices_NoDup fits : NoDup (nd_indices fits).
Proof. unfold nd_indices. apply NoDup_filter, seq_NoDup. Qed.

End Phase1.

(* ------------------------------------------------------------------ *)
(* the "archive too small" branch *)
From Coq Require Import Permutation.

Lemma memb_In i l : memb i l = true <-> In i l.
Proof.
  unfold memb. rewrite existsb_exists. split.
  - intros [x [Hx E]]. apply Nat.eqb_eq in E. now subst.
  - intro H. exists i. split; [exact H|apply Nat.eqb_refl].
Qed.

Lemma filter_length_split {A} (f : A -> bool) l :
  (length (filter f l) + length (filter (fun x => negb (f x)) l) = length l)%nat.
Proof. induction l as [|x l IH]; cbn; auto. destruct (f x); cbn; lia. Qed.

Lemma count_not_chosen N chosen : NoDup chosen -> (forall i, In i chosen -> (i < N)%nat) ->
  length (filter (fun i => negb (memb i chosen)) (seq 0 N)) = (N - length chosen)%nat.
Proof.
  intros ND Hlt.
  assert (H := filter_length_split (fun i => memb i chosen) (seq 0 N)). rewrite seq_length in H.
  assert (P : Permutation (filter (fun i => memb i chosen) (seq 0 N)) chosen).
  { apply NoDup_Permutation; [apply NoDup_filter, seq_NoDup|exact ND|].
    intro x. rewrite filter_In, in_seq, memb_In. split; [tauto|]. intro Hx. split; [specialize (Hlt x Hx); lia|exact Hx]. }
  apply Permutation_length in P. lia.
Qed.

Lemma map_snd_filter_zip {A} (P : nat -> bool) : forall (keys : list A) idx, length keys = length idx ->
  map snd (filter (fun p => P (snd p)) (zip keys idx)) = filter P idx.
Proof.
  induction keys as [|x keys IH]; intros [|i idx] H; cbn in *; try lia; auto.
  destruct (P i); cbn; rewrite IH by lia; reflexivity.
Qed.

Section Fill.
Context {T : Type} (Op : numops T).

Lemma fill_keys_length vals N fits : forall is_ draws,
  length (fst (fill_keys Op vals N is_ fits draws)) = length is_.
Proof.
  induction is_ as [|i r IH]; intros draws; cbn [fill_keys]; [reflexivity|].
  destruct (rand_select Op (S N) (dist_row Op vals N i) 0 (Z.of_nat N - 1) (rank_of N) draws) as [kth d1].
  specialize (IH d1). destruct (fill_keys Op vals N r fits d1) as [ks d2]. cbn in *. now rewrite IH.
Qed.

Lemma ins_sorted_perm x : forall l, Permutation (ins_sorted Op x l) (x :: l).
Proof.
  induction l as [|y l IH]; cbn; auto. destruct (pair_lt Op x y); auto.
  rewrite IH. apply perm_swap.
Qed.

Lemma sort_pairs_perm l : Permutation (sort_pairs Op l) l.
Proof.
  induction l as [|x l IH]; cbn; auto. rewrite ins_sorted_perm. now constructor.
Qed.

Theorem fill_branch_spec vals N k fits chosen draws :
  NoDup chosen -> (forall i, In i chosen -> (i < N)%nat) -> (length chosen <= k <= N)%nat ->
  let r := fst (fill_branch Op vals N k fits chosen draws) in
  length r = k /\ NoDup r /\ (forall i, In i r -> (i < N)%nat) /\ incl chosen r.
Proof.
  intros ND Hlt Hk. unfold fill_branch.
  assert (LK := fill_keys_length vals N fits (seq 0 N) draws).
  destruct (fill_keys Op vals N (seq 0 N) fits draws) as [keys d]. cbn [fst] in *. rewrite seq_length in LK.
  set (flt := filter _ (zip keys (seq 0 N))). set (next := sort_pairs Op flt).
  set (q := (k - length chosen)%nat).
  assert (E1 : map snd flt = filter (fun i => negb (memb i chosen)) (seq 0 N)).
  { unfold flt. apply (map_snd_filter_zip (fun i => negb (memb i chosen))). now rewrite seq_length. }
  assert (P : Permutation (map snd next) (filter (fun i => negb (memb i chosen)) (seq 0 N))).
  { rewrite <- E1. apply Permutation_map. apply sort_pairs_perm. }
  assert (NDn : NoDup (map snd next)).
  { eapply Permutation_NoDup; [symmetry; exact P|]. apply NoDup_filter, seq_NoDup. }
  assert (Ln : length (map snd next) = (N - length chosen)%nat).
  { rewrite (Permutation_length P). apply count_not_chosen; assumption. }
  rewrite <- firstn_map.
  assert (Hin : forall i, In i (firstn q (map snd next)) -> (i < N)%nat /\ ~ In i chosen).
  { intros i Hi. apply firstn_In in Hi. apply (Permutation_in _ P) in Hi.
    apply filter_In in Hi. destruct Hi as [H1 H2]. apply in_seq in H1. split; [lia|].
    apply negb_true_iff in H2. intro Hc. apply memb_In in Hc. congruence. }
  split; [|split; [|split]].
  - rewrite app_length, firstn_length, Ln. unfold q. lia.
  - apply NoDup_app_disj; [exact ND|apply firstn_NoDup; exact NDn|].
    intros x Hx Hx'. apply Hin in Hx'. tauto.
  - intros i Hi. apply in_app_or in Hi. destruct Hi as [Hi|Hi]; [auto|apply Hin in Hi; tauto].
  - intros x Hx. apply in_or_app. now left.
Qed.

End Fill.

(* ------------------------------------------------------------------ *)
(* the "archive too large" branch: the truncation loop removes distinct live rows *)
Section Bubble.
Variables (mp size : nat).

Lemma bubble_In x : forall r a j, In x (bubble mp size a r j) <-> In x (a :: r).
Proof.
  induction r as [|b r IH]; intros a j; cbn [bubble]; [tauto|].
  destruct (Nat.leb 1 j && Nat.ltb j (size - 1) && Nat.eqb a mp); cbn [In]; rewrite IH; cbn [In]; tauto.
Qed.

Lemma bubble_length : forall r a j, length (bubble mp size a r j) = S (length r).
Proof.
  induction r as [|b r IH]; intros a j; cbn [bubble]; [reflexivity|].
  destruct (Nat.leb 1 j && Nat.ltb j (size - 1) && Nat.eqb a mp); cbn [length]; now rewrite IH.
Qed.

(* elements different from mp are left in place *)
Lemma bubble_skip : forall pre a x rest j, a <> mp -> ~ In mp pre ->
  bubble mp size a (pre ++ x :: rest) j = (a :: pre) ++ bubble mp size x rest (j + S (length pre)).
Proof.
  induction pre as [|b pre IH]; intros a x rest j Ha Hpre; cbn [app bubble length].
  - assert (E : Nat.eqb a mp = false) by (apply Nat.eqb_neq; exact Ha). rewrite E, andb_false_r.
    replace (j + 1)%nat with (S j) by lia. reflexivity.
  - assert (E : Nat.eqb a mp = false) by (apply Nat.eqb_neq; exact Ha). rewrite E, andb_false_r.
    rewrite IH; [|intro; apply Hpre; now left|intro; apply Hpre; now right].
    replace (S j + S (length pre))%nat with (j + S (S (length pre)))%nat by lia. reflexivity.
Qed.

(* mp is carried to the right while 1 <= j < size-1 *)
Lemma bubble_carry : forall post rest j, (1 <= j)%nat -> (j + length post <= size - 1)%nat ->
  bubble mp size mp (post ++ rest) j = post ++ bubble mp size mp rest (j + length post).
Proof.
  induction post as [|b post IH]; intros rest j Hj Hle; cbn [app length].
  - now rewrite Nat.add_0_r.
  - cbn [bubble]. cbn [length] in Hle.
    assert (E : Nat.leb 1 j && Nat.ltb j (size - 1) && Nat.eqb mp mp = true).
    { rewrite Nat.eqb_refl, andb_true_r. apply andb_true_iff. split; [apply Nat.leb_le|apply Nat.ltb_lt]; lia. }
    rewrite E. rewrite IH by lia. replace (S j + length post)%nat with (j + S (length post))%nat by lia. reflexivity.
Qed.

(* from position size-1 on nothing moves *)
Lemma bubble_stop : forall r a j, (size - 1 <= j)%nat -> bubble mp size a r j = a :: r.
Proof.
  induction r as [|b r IH]; intros a j Hj; cbn [bubble]; [reflexivity|].
  assert (E : Nat.ltb j (size - 1) = false) by (apply Nat.ltb_ge; exact Hj).
  rewrite E, andb_false_r. cbn. rewrite IH by lia. reflexivity.
Qed.

Lemma bubble_row_live i pre post tl : i <> mp -> ~ In mp pre ->
  length (i :: pre ++ mp :: post) = size ->
  bubble_row mp size (i :: pre ++ mp :: post ++ tl) = i :: pre ++ post ++ mp :: tl.
Proof.
  intros Hi Hpre Hlen. cbn [bubble_row]. cbn [length] in Hlen. rewrite app_length in Hlen. cbn [length] in Hlen.
  rewrite bubble_skip by assumption. cbn [app]. f_equal. f_equal.
  rewrite bubble_carry by lia. f_equal. apply bubble_stop. lia.
Qed.

Lemma bubble_row_In x row : In x (bubble_row mp size row) <-> In x row.
Proof. destruct row as [|a r]; cbn [bubble_row]; [tauto|]. apply bubble_In. Qed.

End Bubble.

Section Trunc.
Context {T : Type} (Op : numops T).
Variable vals : list (list T).
Variable chosen : list nat.
Let N := length chosen.
Local Notation neg1 := (n_ofZ Op (-1)%Z).
Local Notation inf := (n_inf Op).
Local Notation ltb := (n_ltb Op).
Local Notation zero := (n_ofZ Op 0%Z).

Definition sq (i j : nat) : T := sqdist Op (nth (nth i chosen 0%nat) vals []) (nth (nth j chosen 0%nat) vals []).

(* what the order must satisfy on the values that occur: -1 < squared distances < inf *)
Hypothesis H_neg1_sq : forall i j, ltb neg1 (sq i j) = true.
Hypothesis H_sq_neg1 : forall i j, ltb (sq i j) neg1 = false.
Hypothesis H_sq_inf : forall i j, ltb (sq i j) inf = true.
Hypothesis H_inf_sq : forall i j, ltb inf (sq i j) = false.

Definition d0 (i x : nat) : T := if Nat.eqb i x then neg1 else if Nat.ltb i x then sq i x else sq x i.

Lemma get2_tab (f : nat -> nat -> T) i x : (i < N)%nat -> (x < N)%nat ->
  get2 Op (tab N (fun i => tab N (f i))) i x = f i x.
Proof.
  intros Hi Hx. unfold get2. rewrite (nth_tab N _ i [] Hi). apply nth_tab. exact Hx.
Qed.

Lemma get2_D0 i x : (i < N)%nat -> (x < N)%nat -> get2 Op (dist_matrix Op vals chosen N) i x = d0 i x.
Proof. intros Hi Hx. unfold dist_matrix. rewrite get2_tab by assumption. reflexivity. Qed.

Definition isfin (t : T) : Prop := ltb t inf = true /\ ltb inf t = false.

Lemma d0_fin i x : i <> x -> isfin (d0 i x).
Proof.
  intro H. unfold d0. destruct (Nat.eqb_spec i x); [contradiction|].
  destruct (Nat.ltb i x); split; auto.
Qed.

(* ---- the sorted rows: row i starts with i ---- *)
Lemma ins_rev_perm row j : forall rl, Permutation (ins_rev Op row j rl) (j :: rl).
Proof.
  induction rl as [|e rl IH]; cbn [ins_rev]; auto.
  destruct (ltb (nth j row zero) (nth e row zero)); auto. rewrite IH. apply perm_swap.
Qed.

Lemma ins_rev_to_end row j : forall rl, (forall e, In e rl -> ltb (nth j row zero) (nth e row zero) = true) ->
  ins_rev Op row j rl = rl ++ [j].
Proof.
  induction rl as [|e rl IH]; intros H; cbn [ins_rev app]; [reflexivity|].
  rewrite (H e (or_introl eq_refl)). rewrite IH; [reflexivity|]. intros e' He'. apply H. now right.
Qed.

Lemma ins_rev_keeps_last row j i : ltb (nth j row zero) (nth i row zero) = false ->
  forall rl, exists rl', ins_rev Op row j (rl ++ [i]) = rl' ++ [i].
Proof.
  intros H. induction rl as [|e rl IH]; cbn [app ins_rev].
  - rewrite H. exists [j]. reflexivity.
  - destruct (ltb (nth j row zero) (nth e row zero)).
    + destruct IH as [rl' E]. rewrite E. exists (e :: rl'). reflexivity.
    + exists (j :: e :: rl). reflexivity.
Qed.

Lemma sorted_row_fold i (Hi : (i < N)%nat) : forall n (Hn : (n < N)%nat),
  let rl := fold_left (fun rl j => ins_rev Op (tab N (d0 i)) j rl) (seq 1 n) [0%nat] in
  Permutation rl (seq 0 (S n)) /\
  (if Nat.leb i n then exists rl', rl = rl' ++ [i] else True).
Proof.
  induction n as [|n IH]; intros Hn; cbn zeta.
  - cbn. split; [reflexivity|]. destruct i; cbn; [exists []; reflexivity|exact I].
  - rewrite seq_S, fold_left_app. cbn [fold_left plus].
    destruct (IH ltac:(lia)) as [P L]. cbn zeta in P, L.
    set (rl := fold_left (fun rl j => ins_rev Op (tab N (d0 i)) j rl) (seq 1 n) [0%nat]) in *.
    split.
    + rewrite ins_rev_perm. replace (seq 0 (S (S n))) with (seq 0 (S n) ++ [S n]) by (symmetry; apply (seq_S (S n) 0)).
      rewrite P. apply Permutation_cons_append.
    + destruct (Nat.leb_spec i (S n)) as [Le|Gt]; [|exact I].
      destruct (Nat.leb_spec i n) as [Le'|Gt'].
      * destruct L as [rl' E]. rewrite E. apply ins_rev_keeps_last.
        rewrite !nth_tab by lia. unfold d0. rewrite Nat.eqb_refl.
        destruct (Nat.eqb_spec i (S n)); [lia|]. destruct (Nat.ltb i (S n)); apply H_sq_neg1.
      * assert (i = S n) by lia. subst i. exists rl. apply ins_rev_to_end.
        intros e He. apply (Permutation_in _ P) in He. apply in_seq in He.
        rewrite !nth_tab by lia. unfold d0. rewrite Nat.eqb_refl.
        destruct (Nat.eqb_spec (S n) e); [lia|]. destruct (Nat.ltb (S n) e); apply H_neg1_sq.
Qed.

Lemma sorted_row_spec i : (i < N)%nat ->
  exists body, sorted_row Op (tab N (d0 i)) N = i :: body /\ Permutation (i :: body) (seq 0 N).
Proof.
  intro Hi. unfold sorted_row. destruct (sorted_row_fold i Hi (N - 1) ltac:(lia)) as [P L]. cbn zeta in P, L.
  set (rl := fold_left _ (seq 1 (N - 1)) [0%nat]) in *.
  replace (S (N - 1)) with N in P by lia.
  destruct (Nat.leb_spec i (N - 1)) as [_|G]; [|lia].
  destruct L as [rl' E]. rewrite E, rev_app_distr. cbn [rev app]. exists (rev rl'). split; [reflexivity|].
  rewrite <- P, E. rewrite Permutation_app_comm. cbn [app]. constructor. symmetry. apply Permutation_rev.
Qed.

(* ---- the loop invariant ---- *)
Definition live (rem : list nat) (i : nat) : Prop := (i < N)%nat /\ ~ In i rem.

Record tinv (s : tstate) : Prop := {
  t_inf : forall i x, (i < N)%nat -> (x < N)%nat -> In i (ts_rem s) \/ In x (ts_rem s) -> get2 Op (ts_D s) i x = inf;
  t_fin : forall i x, live (ts_rem s) i -> live (ts_rem s) x -> i <> x -> isfin (get2 Op (ts_D s) i x);
  t_len : length (ts_SI s) = N;
  t_lt : forall i x, (i < N)%nat -> In x (nth i (ts_SI s) []) -> (x < N)%nat;
  t_row : forall i, live (ts_rem s) i -> exists body tl,
            nth i (ts_SI s) [] = i :: body ++ tl /\ S (length body) = ts_size s /\ NoDup body /\
            (forall x, In x body <-> (live (ts_rem s) x /\ x <> i)) /\ (forall x, In x tl -> In x (ts_rem s));
  t_nd : NoDup (ts_rem s);
  t_rlt : forall r, In r (ts_rem s) -> (r < N)%nat;
  t_sz : (length (ts_rem s) + ts_size s = N)%nat
}.

Lemma live_dec rem i : {live rem i} + {~ live rem i}.
Proof.
  unfold live. destruct (lt_dec i N); [|right; tauto]. destruct (in_dec Nat.eq_dec i rem); [right; tauto|left; tauto].
Qed.

(* value compared first by the search: distances[i][sorted_indices[i][1]] *)
Definition val1 (s : tstate) (i : nat) : T := get2 Op (ts_D s) i (nth 1 (nth i (ts_SI s) []) 0%nat).

Lemma val1_live s i : tinv s -> (2 <= ts_size s)%nat -> live (ts_rem s) i -> isfin (val1 s i).
Proof.
  intros J Hs Hl. destruct (t_row s J i Hl) as [body [tl [E [Lb [_ [Hb _]]]]]].
  unfold val1. rewrite E. destruct body as [|x body]; [cbn in Lb; lia|]. cbn [nth app].
  assert (Hx : live (ts_rem s) x /\ x <> i) by (apply Hb; now left). destruct Hx as [Hx Hne].
  apply (t_fin s J); auto.
Qed.

Lemma val1_dead s i : tinv s -> (i < N)%nat -> ~ live (ts_rem s) i -> val1 s i = inf.
Proof.
  intros J Hi Hd. unfold val1. apply (t_inf s J); [exact Hi| |].
  - destruct (Nat.lt_ge_cases 1 (length (nth i (ts_SI s) []))) as [L|L].
    + apply (t_lt s J i); [exact Hi|]. apply nth_In. exact L.
    + rewrite nth_overflow by exact L. lia.
  - left. unfold live in Hd. destruct (in_dec Nat.eq_dec i (ts_rem s)); [assumption|tauto].
Qed.

Lemma find_min_live s : tinv s -> (2 <= ts_size s)%nat -> live (ts_rem s) (find_min Op (ts_D s) (ts_SI s) N (ts_size s)).
Proof.
  intros J Hs. unfold find_min.
  set (step := fun min_pos i => if row_less Op (seq 1 (ts_size s - 1)) _ _ then i else min_pos).
  assert (Hstep : forall acc i, (acc < N)%nat -> (i < N)%nat ->
            (step acc i < N)%nat /\ (live (ts_rem s) acc \/ live (ts_rem s) i -> live (ts_rem s) (step acc i))).
  { intros acc i Ha Hi. unfold step.
    replace (seq 1 (ts_size s - 1)) with (1%nat :: seq 2 (ts_size s - 2)) by (destruct (ts_size s) as [|[|n]]; [lia|lia|cbn; now rewrite Nat.sub_0_r]).
    cbn [row_less]. fold (val1 s i). fold (val1 s acc).
    destruct (live_dec (ts_rem s) i) as [Li|Di]; destruct (live_dec (ts_rem s) acc) as [La|Da].
    - split; [destruct (ltb (val1 s i) (val1 s acc)); [lia|]; destruct (ltb (val1 s acc) (val1 s i)); [lia|]; destruct (row_less _ _ _ _); lia|].
      intros _. destruct (ltb (val1 s i) (val1 s acc)); [exact Li|]. destruct (ltb (val1 s acc) (val1 s i)); [exact La|].
      destruct (row_less _ _ _ _); assumption.
    - destruct (val1_live s i J Hs Li) as [F1 F2]. rewrite (val1_dead s acc J Ha Da), F1. split; [exact Hi|intros _; exact Li].
    - destruct (val1_live s acc J Hs La) as [F1 F2]. rewrite (val1_dead s i J Hi Di), F2, F1. split; [exact Ha|intros _; exact La].
    - split; [|intros [H|H]; contradiction].
      destruct (ltb (val1 s i) (val1 s acc)); [lia|]; destruct (ltb (val1 s acc) (val1 s i)); [lia|]; destruct (row_less _ _ _ _); lia. }
  assert (Hfold : forall l acc, (acc < N)%nat -> (forall i, In i l -> (i < N)%nat) ->
            (live (ts_rem s) acc \/ exists i, In i l /\ live (ts_rem s) i) -> live (ts_rem s) (fold_left step l acc)).
  { induction l as [|i l IH]; intros acc Ha Hl Hex; cbn [fold_left].
    - destruct Hex as [H|[i [[] _]]]. exact H.
    - destruct (Hstep acc i Ha (Hl i (or_introl eq_refl))) as [S1 S2]. apply IH; [exact S1|intros; apply Hl; now right|].
      destruct Hex as [H|[i' [[<-|Hi'] Hlive]]]; [left; auto|left; auto|right; eauto]. }
  assert (HN : (1 <= N)%nat) by (pose proof (t_sz s J); lia).
  apply Hfold; [lia|intros i Hi; apply in_seq in Hi; lia|].
  destruct (exists_unselected N (ts_rem s) (t_nd s J) (t_rlt s J) ltac:(pose proof (t_sz s J); lia)) as [x [Hx Hnx]].
  destruct x as [|x]; [left; split; assumption|right]. exists (S x). split; [apply in_seq; lia|split; assumption].
Qed.

Lemma trunc_step_inv s : tinv s -> (2 <= ts_size s)%nat ->
  let s' := trunc_step Op N s in
  tinv s' /\ ts_size s' = (ts_size s - 1)%nat /\
  exists mp, live (ts_rem s) mp /\ ts_rem s' = ts_rem s ++ [mp].
Proof.
  intros J Hs. unfold trunc_step.
  set (mp := find_min Op (ts_D s) (ts_SI s) N (ts_size s)).
  assert (Lmp : live (ts_rem s) mp) by (apply find_min_live; assumption).
  destruct Lmp as [HmpN Hmprem].
  cbn zeta. split; [|split; [reflexivity|exists mp; split; [split; assumption|reflexivity]]].
  assert (Hin' : forall x, In x (ts_rem s ++ [mp]) <-> In x (ts_rem s) \/ x = mp).
  { intro x. rewrite in_app_iff. cbn. intuition. }
  assert (Hlive' : forall x, live (ts_rem s ++ [mp]) x <-> live (ts_rem s) x /\ x <> mp).
  { intro x. unfold live. rewrite Hin'. intuition. }
  constructor; cbn [ts_D ts_SI ts_size ts_rem].
  - intros i x Hi Hx H. rewrite get2_tab by assumption.
    destruct (Nat.eqb_spec i mp); [reflexivity|]. destruct (Nat.eqb_spec x mp); [reflexivity|]. cbn.
    apply (t_inf s J); auto. rewrite !Hin' in H. intuition.
  - intros i x Hi Hx Hne. apply Hlive' in Hi. apply Hlive' in Hx. destruct Hi as [Hi Hi2], Hx as [Hx Hx2].
    rewrite get2_tab by (apply Hi || apply Hx).
    destruct (Nat.eqb_spec i mp); [contradiction|]. destruct (Nat.eqb_spec x mp); [contradiction|]. cbn.
    apply (t_fin s J); assumption.
  - apply tab_length.
  - intros i x Hi Hx. rewrite (nth_tab N _ i [] Hi) in Hx. apply bubble_row_In in Hx. eapply (t_lt s J); eauto.
  - intros i Hi. apply Hlive' in Hi. destruct Hi as [Hi Hne].
    destruct (t_row s J i Hi) as [body [tl [E [Lb [NDb [Hb Htl]]]]]].
    assert (Hmpb : In mp body) by (apply Hb; split; [split; assumption|auto]).
    apply in_split in Hmpb. destruct Hmpb as [pre [post Eb]]. subst body.
    assert (NDb' := NDb). apply NoDup_remove in NDb'. destruct NDb' as [NDpp Hnot].
    rewrite (nth_tab N _ i [] (proj1 Hi)). rewrite E. rewrite <- app_assoc. cbn [app].
    rewrite bubble_row_live; [| exact Hne | intro H; apply Hnot; apply in_or_app; now left |
                                cbn [length]; rewrite <- Lb, !app_length; cbn [length]; lia ].
    exists (pre ++ post), (mp :: tl). split; [now rewrite <- app_assoc|]. split; [|split; [exact NDpp|split]].
    + rewrite app_length in *. cbn [length] in Lb. lia.
    + intros x. rewrite Hlive'. specialize (Hb x). rewrite in_app_iff in Hb. cbn [In] in Hb. rewrite in_app_iff. split.
      * intros Hx. assert (Hx' : x <> mp). { intros ->. apply Hnot. apply in_or_app. exact Hx. }
        assert (In x pre \/ mp = x \/ In x post) by tauto. apply Hb in H. tauto.
      * intros [[Hl Hxm] Hxi]. assert (H : In x pre \/ mp = x \/ In x post) by (apply Hb; tauto).
        destruct H as [H|[H|H]]; [now left|congruence|now right].
    + intros x [<-|Hx]; rewrite Hin'; [now right|left; auto].
  - apply NoDup_app_disj; [apply (t_nd s J)|constructor; [intros []|constructor]|]. intros x Hx [<-|[]]. contradiction.
  - intros r Hr. apply Hin' in Hr. destruct Hr as [Hr| ->]; [apply (t_rlt s J); exact Hr|exact HmpN].
  - rewrite app_length. cbn [length]. pose proof (t_sz s J). lia.
Qed.

Lemma trunc_loop_inv : forall n s, tinv s -> (n + 1 <= ts_size s)%nat ->
  let s' := trunc_loop Op n N s in
  tinv s' /\ ts_size s' = (ts_size s - n)%nat.
Proof.
  induction n as [|n IH]; intros s J Hs; cbn [trunc_loop].
  - split; [exact J|lia].
  - destruct (trunc_step_inv s J ltac:(lia)) as [J' [Sz _]]. cbn zeta in *.
    destruct (IH _ J' ltac:(rewrite Sz; lia)) as [J'' Sz'']. cbn zeta in *. split; [exact J''|]. rewrite Sz'', Sz. lia.
Qed.

Lemma trunc_init_inv : NoDup chosen -> tinv (trunc_init Op vals chosen).
Proof.
  intro NDc. unfold trunc_init. fold N.
  constructor; cbn [ts_D ts_SI ts_size ts_rem].
  - intros i x _ _ H. destruct H as [H|H]; destruct H.
  - intros i x [Hi _] [Hx _] Hne. rewrite get2_D0 by assumption. apply d0_fin. exact Hne.
  - apply tab_length.
  - intros i x Hi Hx. rewrite (nth_tab N _ i [] Hi) in Hx.
    assert (E : nth i (dist_matrix Op vals chosen N) [] = tab N (d0 i)).
    { unfold dist_matrix. rewrite (nth_tab N _ i [] Hi). reflexivity. }
    rewrite E in Hx. destruct (sorted_row_spec i Hi) as [body [Eb P]]. rewrite Eb in Hx.
    apply (Permutation_in _ P) in Hx. apply in_seq in Hx. lia.
  - intros i [Hi _]. rewrite (nth_tab N _ i [] Hi).
    assert (E : nth i (dist_matrix Op vals chosen N) [] = tab N (d0 i)).
    { unfold dist_matrix. rewrite (nth_tab N _ i [] Hi). reflexivity. }
    rewrite E. destruct (sorted_row_spec i Hi) as [body [Eb P]]. rewrite Eb.
    exists body, []. rewrite app_nil_r. split; [reflexivity|].
    assert (NDib : NoDup (i :: body)) by (eapply Permutation_NoDup; [symmetry; exact P|apply seq_NoDup]).
    split; [|split; [|split]].
    + apply Permutation_length in P. rewrite seq_length in P. cbn in P. exact P.
    + inversion NDib; assumption.
    + intros x. unfold live. cbn [In]. split.
      * intros Hx. assert (Hx' : In x (seq 0 N)) by (eapply Permutation_in; [exact P|now right]).
        apply in_seq in Hx'. split; [split; [lia|tauto]|]. intros ->. inversion NDib; contradiction.
      * intros [[Hx _] Hne]. assert (Hx' : In x (i :: body)) by (eapply Permutation_in; [symmetry; exact P|apply in_seq; lia]).
        destruct Hx' as [->|Hx']; [contradiction|exact Hx'].
    + intros x [].
  - constructor.
  - intros r [].
  - cbn. reflexivity.
Qed.

End Trunc.

(* ---- sorted(to_remove) and the deletions ---- *)
From Coq Require Import Sorted.

Lemma ins_nat_perm x : forall l, Permutation (ins_nat x l) (x :: l).
Proof.
  induction l as [|y l IH]; cbn; auto. destruct (Nat.leb x y); auto. rewrite IH. apply perm_swap.
Qed.

Lemma sort_nat_perm l : Permutation (sort_nat l) l.
Proof. induction l as [|x l IH]; cbn; auto. rewrite ins_nat_perm. now constructor. Qed.

Lemma ins_nat_sorted x : forall l, StronglySorted le l -> StronglySorted le (ins_nat x l).
Proof.
  induction l as [|y l IH]; intros H; cbn.
  - constructor; constructor.
  - inversion H as [|? ? Hs Hf]; subst. destruct (Nat.leb_spec x y) as [L|L].
    + constructor; [exact H|]. constructor; [exact L|]. eapply Forall_impl; [|exact Hf]. intros; cbn in *; lia.
    + constructor; [apply IH; exact Hs|].
      apply Forall_forall. intros z Hz. apply (Permutation_in _ (ins_nat_perm x l)) in Hz.
      destruct Hz as [<-|Hz]; [lia|]. rewrite Forall_forall in Hf. auto.
Qed.

Lemma sort_nat_sorted l : StronglySorted le (sort_nat l).
Proof. induction l as [|x l IH]; cbn; [constructor|]. apply ins_nat_sorted. exact IH. Qed.

Lemma sorted_le_nodup_lt l : StronglySorted le l -> NoDup l -> StronglySorted lt l.
Proof.
  induction l as [|x l IH]; intros H ND; [constructor|].
  inversion H as [|? ? Hs Hf]; subst. inversion ND as [|? ? Hx NDl]; subst. constructor; [auto|].
  apply Forall_forall. intros z Hz. rewrite Forall_forall in Hf. specialize (Hf z Hz).
  destruct (Nat.eq_dec x z) as [->|]; [contradiction|lia].
Qed.

Lemma sorted_lt_bound : forall l lo hi, StronglySorted lt l -> (forall x, In x l -> lo <= x < hi)%nat ->
  (length l <= hi - lo)%nat.
Proof.
  induction l as [|a l IH]; intros lo hi H Hb; cbn; [lia|].
  inversion H as [|? ? Hs Hf]; subst. rewrite Forall_forall in Hf.
  assert (Ha := Hb a (or_introl eq_refl)).
  specialize (IH (S a) hi Hs). assert (length l <= hi - S a)%nat.
  { apply IH. intros x Hx. specialize (Hf x Hx). specialize (Hb x (or_intror Hx)). lia. }
  lia.
Qed.

Lemma remove_nth_length {A} : forall i (l : list A), (i < length l)%nat -> length (remove_nth i l) = (length l - 1)%nat.
Proof.
  induction i as [|i IH]; intros [|x l] H; cbn in *; try lia.
  rewrite IH by lia. lia.
Qed.

Lemma remove_nth_incl {A} : forall i (l : list A), incl (remove_nth i l) l.
Proof.
  induction i as [|i IH]; intros [|x l]; cbn; try (intros y Hy; now (try right)); try apply incl_refl.
  intros y [<-|Hy]; [now left|right; apply IH; exact Hy].
Qed.

Lemma remove_nth_NoDup {A} : forall i (l : list A), NoDup l -> NoDup (remove_nth i l).
Proof.
  induction i as [|i IH]; intros [|x l] H; cbn; auto; inversion H; subst; auto.
  constructor; [|apply IH; assumption]. intro Hin. apply remove_nth_incl in Hin. contradiction.
Qed.

Lemma delete_sorted {A} (c : list A) : forall l, StronglySorted lt l -> (forall x, In x l -> x < length c)%nat ->
  let r := fold_right (@remove_nth A) c l in
  length r = (length c - length l)%nat /\ incl r c /\ (NoDup c -> NoDup r).
Proof.
  induction l as [|a l IH]; intros H Hb; cbn [fold_right length].
  - split; [lia|]. split; [apply incl_refl|auto].
  - inversion H as [|? ? Hs Hf]; subst.
    destruct (IH Hs (fun x Hx => Hb x (or_intror Hx))) as [L [I ND]]. cbn zeta in *.
    assert (Hlen : (length l <= length c - S a)%nat).
    { apply (sorted_lt_bound l (S a) (length c) Hs). intros x Hx. rewrite Forall_forall in Hf.
      specialize (Hf x Hx). specialize (Hb x (or_intror Hx)). lia. }
    assert (Ha := Hb a (or_introl eq_refl)).
    split; [rewrite remove_nth_length; lia|]. split.
    + intros y Hy. apply I. eapply remove_nth_incl; eauto.
    + intros Hc. apply remove_nth_NoDup. auto.
Qed.

Section TruncFinal.
Context {T : Type} (Op : numops T).
Variable vals : list (list T).
Variable chosen : list nat.
Let N := length chosen.

Hypothesis H_neg1_sq : forall i j, n_ltb Op (n_ofZ Op (-1)) (sq Op vals chosen i j) = true.
Hypothesis H_sq_neg1 : forall i j, n_ltb Op (sq Op vals chosen i j) (n_ofZ Op (-1)) = false.
Hypothesis H_sq_inf : forall i j, n_ltb Op (sq Op vals chosen i j) (n_inf Op) = true.
Hypothesis H_inf_sq : forall i j, n_ltb Op (n_inf Op) (sq Op vals chosen i j) = false.

(* the truncation keeps exactly k of the chosen individuals, all different *)
Theorem trunc_branch_spec k : NoDup chosen -> (1 <= k <= N)%nat ->
  let r := trunc_branch Op vals k chosen in
  length r = k /\ NoDup r /\ incl r chosen.
Proof.
  intros NDc Hk. unfold trunc_branch. fold N.
  assert (J0 := trunc_init_inv Op vals chosen H_neg1_sq H_sq_neg1 H_sq_inf H_inf_sq NDc).
  destruct (trunc_loop_inv Op chosen (N - k) _ J0) as [J Sz].
  { cbn. fold N. lia. }
  cbn zeta in *. fold N in J, Sz. set (s := trunc_loop Op (N - k) N (trunc_init Op vals chosen)) in *.
  assert (Lrem : length (ts_rem s) = (N - k)%nat).
  { pose proof (t_sz Op chosen s J). fold N in H. cbn in Sz. fold N in Sz. lia. }
  rewrite <- fold_left_rev_right, rev_involutive.
  assert (P := sort_nat_perm (ts_rem s)).
  assert (SS : StronglySorted lt (sort_nat (ts_rem s))).
  { apply sorted_le_nodup_lt; [apply sort_nat_sorted|]. eapply Permutation_NoDup; [symmetry; exact P|apply (t_nd Op chosen s J)]. }
  destruct (delete_sorted chosen (sort_nat (ts_rem s)) SS) as [L [I ND]].
  { intros x Hx. apply (Permutation_in _ P) in Hx. apply (t_rlt Op chosen s J). exact Hx. }
  cbn zeta in *. split; [|split; [auto|exact I]].
  rewrite L, (Permutation_length P), Lrem. fold N. lia.
Qed.

End TruncFinal.

(* ------------------------------------------------------------------ *)
(* selSPEA2 *)
Section Spea2Final.
Context {T : Type} (Op : numops T).
Hypothesis ltb_asym : forall x y, n_ltb Op x y = true -> n_ltb Op y x = false.

(* the order facts the truncation needs, on the squared distances that can occur *)
Definition dist_ok (vals : list (list T)) : Prop :=
  forall a b, In a ([] :: vals) -> In b ([] :: vals) ->
    n_ltb Op (n_ofZ Op (-1)) (sqdist Op a b) = true /\
    n_ltb Op (sqdist Op a b) (n_ofZ Op (-1)) = false /\
    n_ltb Op (sqdist Op a b) (n_inf Op) = true /\
    n_ltb Op (n_inf Op) (sqdist Op a b) = false.

Lemma nth_in_or_nil {A} (l : list (list A)) i : In (nth i l []) ([] :: l).
Proof.
  destruct (Nat.lt_ge_cases i (length l)) as [H|H]; [right; apply nth_In; exact H|left; symmetry; apply nth_overflow; exact H].
Qed.

(* the non-dominated individuals, as a list of indices in increasing order *)
Definition nd_b (w : list (list T)) (i : nat) : bool :=
  forallb (fun j => negb (dominates Op (nth j w []) (nth i w []))) (seq 0 (length w)).
Definition nd_list (w : list (list T)) : list nat := filter (nd_b w) (seq 0 (length w)).

Lemma nd_b_spec w i : nd_b w i = true <-> nondominated Op w i.
Proof.
  unfold nd_b, nondominated. rewrite forallb_forall. split.
  - intros H j Hj. specialize (H j ltac:(apply in_seq; lia)). now apply negb_true_iff in H.
  - intros H j Hj. apply in_seq in Hj. apply negb_true_iff. apply H. lia.
Qed.

Lemma nd_indices_eq w :
  let '(S_, D) := phase1 Op w (length w) in nd_indices (raw_fits S_ D) = nd_list w.
Proof.
  assert (L := raw_fits_length Op w). assert (Z := fun i => raw_fits_zero_iff Op ltb_asym w i).
  destruct (phase1 Op w (length w)) as [S_ D]. unfold nd_indices, nd_list. rewrite L.
  apply filter_ext_in. intros i Hi. apply in_seq in Hi. specialize (Z i ltac:(lia)).
  destruct (nd_b w i) eqn:E.
  - apply nd_b_spec in E. apply Z in E. apply Nat.ltb_lt. rewrite (nth_indep _ 0%nat 1%nat) by lia. lia.
  - apply Nat.ltb_ge. destruct (Nat.eq_dec (nth i (raw_fits S_ D) 0%nat) 0) as [E0|]; [|lia].
    rewrite (nth_indep _ 0%nat 1%nat) in E0 by lia. apply Z in E0. apply nd_b_spec in E0. congruence.
Qed.

Theorem spea2_spec vals wvals k draws : dist_ok vals -> (1 <= k <= length wvals)%nat ->
  let r := fst (spea2 Op vals wvals k draws) in
  length r = k /\ NoDup r /\ (forall i, In i r -> (i < length wvals)%nat) /\
  ((length (nd_list wvals) <= k)%nat -> incl (nd_list wvals) r) /\
  ((k <= length (nd_list wvals))%nat -> incl r (nd_list wvals)).
Proof.
  intros Hd Hk. unfold spea2. assert (E := nd_indices_eq wvals).
  destruct (phase1 Op wvals (length wvals)) as [S_ D]. rewrite E.
  set (chosen := nd_list wvals).
  assert (NDc : NoDup chosen) by (apply NoDup_filter, seq_NoDup).
  assert (Hlt : forall i, In i chosen -> (i < length wvals)%nat).
  { intros i Hi. apply filter_In in Hi. destruct Hi as [Hi _]. apply in_seq in Hi. lia. }
  destruct (Nat.ltb_spec (length chosen) k) as [Hfew|Hge].
  - destruct (fill_branch_spec Op vals (length wvals) k (raw_fits S_ D) chosen draws NDc Hlt ltac:(lia)) as [L [ND [Lt I]]].
    split; [exact L|]. split; [exact ND|]. split; [exact Lt|]. split; [intros _; exact I|]. intros; lia.
  - destruct (Nat.ltb_spec k (length chosen)) as [Hmany|Heq]; cbn [fst].
    + assert (TS : length (trunc_branch Op vals k chosen) = k /\ NoDup (trunc_branch Op vals k chosen) /\
                   incl (trunc_branch Op vals k chosen) chosen).
      { apply trunc_branch_spec; try (intros i j; apply Hd; apply nth_in_or_nil); [exact NDc|lia]. }
      destruct TS as [L [ND I]]. split; [exact L|]. split; [exact ND|]. split; [intros i Hi; apply Hlt, I, Hi|].
      split; [intros; lia|intros _; exact I].
    + split; [lia|]. split; [exact NDc|]. split; [exact Hlt|]. split; intros _; apply incl_refl.
Qed.

End Spea2Final.

(* ------------------------------------------------------------------ *)
(* the exact instance satisfies the hypotheses on finite inputs *)
From Coq Require Import QArith.

Lemma qx_ltb_asym x y : qx_ltb x y = true -> qx_ltb y x = false.
Proof.
  destruct x as [x|], y as [y|]; cbn; try congruence.
  rewrite <- (Qcompare_antisym x y). destruct (x ?= y)%Q; cbn; congruence.
Qed.

Lemma sqdist_qx_fold : forall (l : list (qx * qx)) q0, (0 <= q0)%Q ->
  (forall p, In p l -> exists x y, p = (QF x, QF y)) ->
  exists q, fold_left (fun acc p => let v := n_sub qx_ops (fst p) (snd p) in n_add qx_ops acc (n_mul qx_ops v v)) l (QF q0) = QF q /\ (0 <= q)%Q.
Proof.
  induction l as [|p l IH]; intros q0 H0 Hl; cbn [fold_left].
  - exists q0. split; [reflexivity|exact H0].
  - destruct (Hl p (or_introl eq_refl)) as [x [y ->]]. cbn [fst snd n_sub n_add n_mul qx_ops qx_lift2].
    apply IH; [|intros p Hp; apply Hl; now right].
    rewrite !Qred_correct. rewrite <- (Qplus_0_l 0). apply Qplus_le_compat; [exact H0|].
    destruct (Qlt_le_dec (x - y) 0) as [Hneg|Hpos].
    + setoid_replace ((x - y) * (x - y))%Q with ((- (x - y)) * (- (x - y)))%Q by ring.
      apply Qmult_le_0_compat; apply Qlt_le_weak; rewrite <- (Qopp_involutive 0); apply Qopp_lt_compat; exact Hneg.
    + apply Qmult_le_0_compat; exact Hpos.
Qed.

Lemma zip_map_QF : forall a b p, In p (zip (map QF a) (map QF b)) -> exists x y, p = (QF x, QF y).
Proof.
  induction a as [|x a IH]; intros [|y b] p; cbn; try tauto.
  intros [<-|H]; [eauto|eapply IH; eauto].
Qed.

Lemma sqdist_qx a b : exists q, sqdist qx_ops (map QF a) (map QF b) = QF q /\ (0 <= q)%Q.
Proof.
  unfold sqdist. apply (sqdist_qx_fold _ (inject_Z 0)); [apply Qle_refl|apply zip_map_QF].
Qed.

Lemma dist_ok_qx (vq : list (list Q)) : dist_ok qx_ops (map (map QF) vq).
Proof.
  intros a b Ha Hb.
  assert (Ha' : exists a', a = map QF a').
  { destruct Ha as [<-|Ha]; [exists []; reflexivity|]. apply in_map_iff in Ha. destruct Ha as [a' [<- _]]. eauto. }
  assert (Hb' : exists b', b = map QF b').
  { destruct Hb as [<-|Hb]; [exists []; reflexivity|]. apply in_map_iff in Hb. destruct Hb as [b' [<- _]]. eauto. }
  destruct Ha' as [a' ->], Hb' as [b' ->]. destruct (sqdist_qx a' b') as [q [-> Hq]]. cbn [n_ltb n_ofZ n_inf qx_ops qx_ltb].
  assert (L : (inject_Z (-1) < q)%Q) by (eapply Qlt_le_trans; [|exact Hq]; reflexivity).
  split; [|split; [|split]]; try reflexivity.
  - assert (E : (inject_Z (-1) ?= q)%Q = Lt) by (apply Qlt_alt; exact L). now rewrite E.
  - destruct (q ?= inject_Z (-1))%Q eqn:E; try reflexivity. apply Qlt_alt in E. exfalso.
    apply (Qlt_irrefl q). eapply Qlt_trans; eauto.
Qed.
