(* C14 — rank-one update of a factor and of its inverse (DESIGN Appendix A10 / C), and its
   instances for StrategyMultiObjective._rankOneUpdate, StrategyActiveOnePlusLambda._rank1update
   (three branches, after the fix of the inverse update) and the one-constraint _infeasible_update.
   mathcomp 1.15, any dimension n, any real closed field R.  No axioms. *)
From mathcomp Require Import all_ssreflect all_algebra.
From mathcomp Require Import ring.
Import Order.TTheory GRing.Theory Num.Theory.
Set Implicit Arguments. Unset Strict Implicit. Unset Printing Implicit Defensive.
Local Open Scope ring_scope.

Section RankOne.
Variable R : rcfType.
Variable n : nat.
Implicit Types (A iA : 'M[R]_n) (v w : 'cV[R]_n).

Definition nrm2 w : R := (w^T *m w) 0 0.

Lemma wTw w : w^T *m w = (nrm2 w)%:M.
Proof. by rewrite [LHS]mx11_scalar. Qed.

(* (a I + b w w^T) (a I + b w w^T) = a^2 I + (2ab + b^2 |w|^2) w w^T *)
Lemma core_sq (a b : R) w :
  (a%:M + b *: (w *m w^T)) *m (a%:M + b *: (w *m w^T)) =
  (a^+2)%:M + (a * b *+ 2 + b^+2 * nrm2 w) *: (w *m w^T).
Proof.
rewrite mulmxDl !mulmxDr -scalar_mxM -expr2.
rewrite mul_scalar_mx -!scalemxAl mul_mx_scalar -!scalemxAr !scalerA.
rewrite mulmxA -[w *m w^T *m w]mulmxA wTw mul_mx_scalar -scalemxAl scalerA.
rewrite -addrA -!scalerDl; congr (_ + _ *: _).
by rewrite mulr2n; ring.
Qed.

Variables (A iA : 'M[R]_n) (v : 'cV[R]_n) (alpha beta : R).
Hypothesis inv_ok : iA *m A = 1%:M.
Let w := iA *m v.
Let nw := nrm2 w.
Hypothesis nw0 : nw != 0.
Hypothesis alpha_pos : 0 < alpha.
Hypothesis rad_ok : 0 <= 1 + beta / alpha * nw.
Let a := Num.sqrt alpha.
Let r := Num.sqrt (1 + beta / alpha * nw).
Let b := a / nw * (r - 1).

Definition A' := a *: A + b *: (v *m w^T).
Definition iA' := a^-1 *: iA - (b / (a^+2 + a * b * nw)) *: (w *m (w^T *m iA)).

Lemma AiA : A *m iA = 1%:M.
Proof. by apply/(mulmx1C inv_ok). Qed.

Lemma Aw : A *m w = v.
Proof. by rewrite /w mulmxA AiA mul1mx. Qed.

Lemma A'_fact : A' = A *m (a%:M + b *: (w *m w^T)).
Proof. by rewrite /A' mulmxDr mul_mx_scalar -scalemxAr mulmxA Aw. Qed.

Lemma coef : a * b *+ 2 + b^+2 * nw = beta.
Proof.
have a2 : a^+2 = alpha by rewrite sqr_sqrtr // ltW.
have r2 : r^+2 = 1 + beta / alpha * nw by rewrite sqr_sqrtr.
have an0 : alpha != 0 by rewrite gt_eqF.
have -> : a * b *+ 2 + b^+2 * nw = a^+2 / nw * (r^+2 - 1).
  by rewrite /b mulr2n; field.
by rewrite a2 r2; field; rewrite nw0 an0.
Qed.

Theorem rank_one_cov : A' *m A'^T = alpha *: (A *m A^T) + beta *: (v *m v^T).
Proof.
rewrite A'_fact (trmx_mul A).
have -> : (a%:M + b *: (w *m w^T))^T = a%:M + b *: (w *m w^T).
  by rewrite linearD /= tr_scalar_mx linearZ /= trmx_mul trmxK.
rewrite mulmxA -[A *m _ *m _]mulmxA core_sq coef.
rewrite mulmxDr mulmxDl mul_mx_scalar -scalemxAl sqr_sqrtr ?ltW //.
congr (_ + _).
by rewrite -scalemxAr -scalemxAl mulmxA -[_ *m w^T *m _]mulmxA -trmx_mul Aw.
Qed.

Hypothesis rad_pos : 0 < 1 + beta / alpha * nw.

Lemma den0 : a^+2 + a * b * nw != 0.
Proof.
have a0 : 0 < a by rewrite sqrtr_gt0.
have r0 : 0 < r by rewrite sqrtr_gt0.
have -> : a^+2 + a * b * nw = a^+2 * r by rewrite /b; field.
by rewrite mulf_neq0 // ?expf_neq0 // gt_eqF.
Qed.

Theorem rank_one_inv : iA' *m A' = 1%:M.
Proof.
have a0 : a != 0 by rewrite gt_eqF // sqrtr_gt0.
rewrite A'_fact /iA' mulmxBl -!scalemxAl.
rewrite [iA *m (A *m _)]mulmxA inv_ok mul1mx.
rewrite -[w *m _ *m _]mulmxA -[w^T *m iA *m _]mulmxA [iA *m (A *m _)]mulmxA inv_ok mul1mx.
rewrite !mulmxDr mul_mx_scalar -!scalemxAr [w^T *m (w *m _)]mulmxA wTw mul_scalar_mx.
rewrite !scalerDr !scalerA scale_scalar_mx mulVf // -!scalemxAr !scalerA.
set c := b / _.
rewrite -scalerDl -addrA -scalerBl.
have -> : a^-1 * b - (c * a + c * b * nrm2 w) = 0.
  by rewrite /c -/nw; field; rewrite den0 a0.
by rewrite scale0r addr0.
Qed.
End RankOne.

(* ------------------------------------------------------------------------- *)
(* Instances for the code of deap/cma.py                                      *)
(* ------------------------------------------------------------------------- *)
Section Instances.
Variable R : rcfType.
Variable n : nat.
Implicit Types (A iA : 'M[R]_n) (v w z : 'cV[R]_n).

Lemma nrm2_sum w : nrm2 w = \sum_i (w i 0) ^+ 2.
Proof. by rewrite /nrm2 mxE; apply: eq_bigr => i _; rewrite mxE expr2. Qed.

Lemma nrm2_ge0 w : 0 <= nrm2 w.
Proof. by rewrite nrm2_sum sumr_ge0 // => i _; rewrite sqr_ge0. Qed.

Lemma nrm2_gt0 w i : w i 0 != 0 -> 0 < nrm2 w.
Proof.
move=> wi; rewrite nrm2_sum (bigD1 i) //= ltr_paddr ?sumr_ge0 // => [j _|].
  by rewrite sqr_ge0.
by rewrite exprn_even_gt0.
Qed.

(* --- StrategyMultiObjective._rankOneUpdate (cma.py:474-488), transcribed ---------------- *)
(* w.max() > 1e-20 : some component of w exceeds the threshold eps *)
Definition mo_rank_one (eps : R) iA A (alpha beta : R) v : 'M[R]_n * 'M[R]_n :=
  let w := iA *m v in
  if [exists i, eps < w i 0] then
    let w_inv := w^T *m iA in
    let norm_w2 := nrm2 w in
    let a := Num.sqrt alpha in
    let root := Num.sqrt (1 + beta / alpha * norm_w2) in
    let b := a / norm_w2 * (root - 1) in
    (a^-1 *: iA - (b / (a ^+ 2 + a * b * norm_w2)) *: (w *m w_inv),
     a *: A + b *: (v *m w^T))
  else (iA, A).

Theorem mo_rank_one_ok (eps : R) iA A (alpha beta : R) v :
  0 <= eps -> iA *m A = 1%:M -> 0 < alpha -> 0 <= beta ->
  let: (iA2, A2) := mo_rank_one eps iA A alpha beta v in
  iA2 *m A2 = 1%:M /\
  exists al be : R, [/\ 0 < al,
     A2 *m A2^T = al *: (A *m A^T) + be *: (v *m v^T) &
     (al, be) = (alpha, beta) \/ (al, be) = (1, 0)].
Proof.
move=> eps0 inv_ok al0 be0; rewrite /mo_rank_one.
case: ifP => [/existsP[i wi]|_]; last first.
  split=> //; exists 1, 0; split; rewrite ?ltr01 ?scale1r ?scale0r ?addr0 //; by right.
have nw0 : 0 < nrm2 (iA *m v).
  by apply: (@nrm2_gt0 _ i); rewrite gt_eqF // (le_lt_trans eps0).
have rad : 0 < 1 + beta / alpha * nrm2 (iA *m v).
  have h : 0 <= beta / alpha * nrm2 (iA *m v).
    by rewrite mulr_ge0 ?nrm2_ge0 // divr_ge0 // ltW.
  by apply: ltr_paddr => //; exact: ltr01.
split; first exact: (rank_one_inv inv_ok (lt0r_neq0 nw0) al0 rad).
exists alpha, beta; split=> //; last by left.
exact: (rank_one_cov inv_ok (lt0r_neq0 nw0) al0 (ltW rad)).
Qed.

(* --- StrategyActiveOnePlusLambda._rank1update (cma.py:790-794, after the fix) ---------- *)
Definition act_A (a b : R) A w := a *: A + b *: ((A *m w) *m w^T).
Definition act_iA (a b nw : R) iA w :=
  a^-1 *: iA - (b / (a ^+ 2 + a * b * nw)) *: (w *m (w^T *m iA)).

Lemma act_update_ok iA A w (alpha beta : R) :
  iA *m A = 1%:M -> nrm2 w != 0 -> 0 < alpha -> 0 < 1 + beta / alpha * nrm2 w ->
  let a := Num.sqrt alpha in
  let b := a / nrm2 w * (Num.sqrt (1 + beta / alpha * nrm2 w) - 1) in
  act_iA a b (nrm2 w) iA w *m act_A a b A w = 1%:M /\
  act_A a b A w *m (act_A a b A w)^T =
     alpha *: (A *m A^T) + beta *: ((A *m w) *m (A *m w)^T).
Proof.
move=> inv_ok nw0 al0 rad a b.
have ww : iA *m (A *m w) = w by rewrite mulmxA inv_ok mul1mx.
have nw0' : nrm2 (iA *m (A *m w)) != 0 by rewrite ww.
have rad' : 0 < 1 + beta / alpha * nrm2 (iA *m (A *m w)) by rewrite ww.
split.
  by have := rank_one_inv inv_ok nw0' al0 rad'; rewrite /iA' /A' ww.
by have := rank_one_cov inv_ok nw0' al0 (ltW rad'); rewrite /A' ww.
Qed.

(* branch psucc < pthresh (or pc = 0): a = sqrt(1-ccovp), w = invA pc *)
Theorem act_branch_success_low iA A pc (ccovp : R) :
  iA *m A = 1%:M -> 0 < ccovp < 1 ->
  let w := iA *m pc in let nw := nrm2 w in nw != 0 ->
  let a := Num.sqrt (1 - ccovp) in
  let b := Num.sqrt (1 - ccovp) / nw * (Num.sqrt (1 + ccovp / (1 - ccovp) * nw) - 1) in
  act_iA a b nw iA w *m act_A a b A w = 1%:M /\
  act_A a b A w *m (act_A a b A w)^T = (1 - ccovp) *: (A *m A^T) + ccovp *: (pc *m pc^T).
Proof.
move=> inv_ok /andP[c0 c1] w nw nw0 a b.
have AiA : A *m iA = 1%:M by apply/(mulmx1C inv_ok).
have Aw : A *m w = pc by rewrite /w mulmxA AiA mul1mx.
have al0 : 0 < 1 - ccovp by rewrite subr_gt0.
have rad : 0 < 1 + ccovp / (1 - ccovp) * nrm2 w.
  have h : 0 <= ccovp / (1 - ccovp) * nrm2 w.
    by rewrite mulr_ge0 ?nrm2_ge0 // divr_ge0 // ltW.
  by apply: ltr_paddr => //; exact: ltr01.
by have [H1 H2] := act_update_ok inv_ok nw0 al0 rad; rewrite Aw in H2.
Qed.

(* branch psucc >= pthresh: d = ccovp (1 + cc (2 - cc)), a = sqrt(1-d) *)
Theorem act_branch_success_high iA A pc (ccovp cc : R) :
  iA *m A = 1%:M -> 0 < ccovp -> ccovp * (1 + cc * (2 - cc)) < 1 ->
  let w := iA *m pc in let nw := nrm2 w in nw != 0 ->
  let d := ccovp * (1 + cc * (2 - cc)) in
  let a := Num.sqrt (1 - d) in
  let b := Num.sqrt (1 - d) * (Num.sqrt (1 + ccovp * nw / (1 - d)) - 1) / nw in
  act_iA a b nw iA w *m act_A a b A w = 1%:M /\
  act_A a b A w *m (act_A a b A w)^T = (1 - d) *: (A *m A^T) + ccovp *: (pc *m pc^T).
Proof.
move=> inv_ok c0 d1 w nw nw0 d a b.
have AiA : A *m iA = 1%:M by apply/(mulmx1C inv_ok).
have Aw : A *m w = pc by rewrite /w mulmxA AiA mul1mx.
have al0 : 0 < 1 - d by rewrite subr_gt0.
have rad : 0 < 1 + ccovp / (1 - d) * nrm2 w.
  have h : 0 <= ccovp / (1 - d) * nrm2 w.
    by rewrite mulr_ge0 ?nrm2_ge0 // divr_ge0 // ltW.
  by apply: ltr_paddr => //; exact: ltr01.
have [H1 H2] := act_update_ok inv_ok nw0 al0 rad; rewrite Aw in H2.
have eb : b = Num.sqrt (1 - d) / nrm2 w * (Num.sqrt (1 + ccovp / (1 - d) * nrm2 w) - 1).
  rewrite /b -/nw; have -> : ccovp * nw / (1 - d) = ccovp / (1 - d) * nw by rewrite mulrAC.
  by rewrite mulrAC.
by rewrite eb.
Qed.

(* active (negative) branch: w = z, the clamp of ccovn keeps the radicand >= 1/2 *)
Definition clamp_ccovn (ccovn nw : R) : R :=
  if 1 < ccovn * (2%:R * nw - 1) then (2%:R * nw - 1)^-1 else ccovn.

Lemma clamp_pos (ccovn nw : R) : 0 <= ccovn -> 1 < ccovn * (2%:R * nw - 1) -> 0 < 2%:R * nw - 1.
Proof.
move=> c0 h; case: (ltrP 0 (2%:R * nw - 1)) => // le0.
by move: h; rewrite ltNge (le_trans (mulr_ge0_le0 c0 le0)) // ler01.
Qed.

Lemma clamp_ccovn_ge0 (ccovn nw : R) : 0 <= ccovn -> 0 <= clamp_ccovn ccovn nw.
Proof.
move=> c0; rewrite /clamp_ccovn; case: ifP => // h.
by rewrite invr_ge0 ltW // (clamp_pos c0).
Qed.

Lemma clamp_key (ccovn nw : R) : 0 <= ccovn ->
  clamp_ccovn ccovn nw * (2%:R * nw - 1) <= 1.
Proof.
move=> c0; rewrite /clamp_ccovn; case: ifP => [h|/negbT]; last by rewrite -leNgt.
by rewrite mulVf // gt_eqF // (clamp_pos c0).
Qed.

Lemma clamp_radicand (ccovn nw : R) : 0 <= ccovn ->
  2^-1 <= 1 - clamp_ccovn ccovn nw / (1 + clamp_ccovn ccovn nw) * nw.
Proof.
move=> c0; have := clamp_key nw c0; have := clamp_ccovn_ge0 nw c0.
set c := clamp_ccovn ccovn nw => cge key.
have c1 : 0 < 1 + c by apply: ltr_paddr => //; exact: ltr01.
rewrite -subr_ge0.
have -> : 1 - c / (1 + c) * nw - 2^-1 = (1 - c * (2%:R * nw - 1)) / (2%:R * (1 + c)).
  by field; rewrite (gt_eqF c1).
by rewrite divr_ge0 ?subr_ge0 // mulr_ge0 ?ler0n // ltW.
Qed.

Theorem act_branch_negative iA A z (ccovn0 : R) :
  iA *m A = 1%:M -> 0 <= ccovn0 ->
  let nw := nrm2 z in nw != 0 ->
  let ccovn := clamp_ccovn ccovn0 nw in
  let a := Num.sqrt (1 + ccovn) in
  let b := Num.sqrt (1 + ccovn) / nw * (Num.sqrt (1 - ccovn / (1 + ccovn) * nw) - 1) in
  [/\ 2^-1 <= 1 - ccovn / (1 + ccovn) * nw,
      act_iA a b nw iA z *m act_A a b A z = 1%:M &
      act_A a b A z *m (act_A a b A z)^T =
        (1 + ccovn) *: (A *m A^T) - ccovn *: ((A *m z) *m (A *m z)^T)].
Proof.
move=> inv_ok c0 nw nw0 ccovn a b.
have cge : 0 <= ccovn := clamp_ccovn_ge0 nw c0.
have al0 : 0 < 1 + ccovn by apply: ltr_paddr => //; exact: ltr01.
have half := clamp_radicand (nrm2 z) c0.
have rad : 0 < 1 + (- ccovn) / (1 + ccovn) * nrm2 z.
  by rewrite mulNr mulNr (lt_le_trans _ half) // invr_gt0 ltr0n.
have [H1 H2] := act_update_ok inv_ok nw0 al0 rad.
split=> //.
  by move: H1; rewrite mulNr mulNr.
by move: H2; rewrite mulNr mulNr scaleNr.
Qed.

(* --- _infeasible_update with one violated constraint: A' = A - beta v w^T / (w.w) ---- *)
Theorem constraint_single iA A v (beta : R) :
  iA *m A = 1%:M -> beta < 1 ->
  let w := iA *m v in let nw := nrm2 w in nw != 0 ->
  let A2 := A - (beta / nw) *: (v *m w^T) in
  let iA2 := iA + (beta / ((1 - beta) * nw)) *: (w *m (w^T *m iA)) in
  iA2 *m A2 = 1%:M /\
  A2 *m A2^T = A *m A^T + ((beta ^+ 2 - beta *+ 2) / nw) *: (v *m v^T).
Proof.
move=> inv_ok b1 w nw nw0 A2 iA2.
have b1' : 0 < 1 - beta by rewrite subr_gt0.
set be := (beta ^+ 2 - beta *+ 2) / nw.
have radE : 1 + be / 1 * nrm2 (iA *m v) = (1 - beta) ^+ 2.
  by rewrite /be -/w -/nw divr1 mulr2n; field.
have rad : 0 < 1 + be / 1 * nrm2 (iA *m v) by rewrite radE exprn_gt0.
have sq : Num.sqrt (1 + be / 1 * nrm2 (iA *m v)) = 1 - beta.
  by rewrite radE sqrtr_sqr gtr0_norm.
have HA : A' A iA v 1 be = A2.
  rewrite /A' /A2; cbv zeta; rewrite sqrtr1 scale1r sq -/w -/nw; congr (_ + _).
  by rewrite -scaleNr; congr (_ *: _); field.
have HiA : iA' iA v 1 be = iA2.
  rewrite /iA' /iA2; cbv zeta; rewrite sq sqrtr1 invr1 scale1r -/w -/nw -scaleNr; congr (_ + _ *: _).
  by field; rewrite nw0 gt_eqF.
split.
  by rewrite -HA -HiA; exact: (rank_one_inv inv_ok nw0 ltr01 rad).
by rewrite -HA (rank_one_cov inv_ok nw0 ltr01 (ltW rad)) scale1r.
Qed.

End Instances.
