(* Position-wise facts about varAnd / varOr and what happens at the extreme probabilities.
   These need no heap reasoning beyond "the call log only grows and each clone target is logged once". *)
From Coq Require Import List ZArith Bool Arith Lia.
From DV Require Import Model.C02_Variation Proofs.C02_Variation.
Import ListNotations.

Lemma Forall2_impl_in {A B} (R R' : A -> B -> Prop) : forall a b,
  Forall2 R a b -> (forall x y, In x a -> In y b -> R x y -> R' x y) -> Forall2 R' a b.
Proof.
  intros a b H. induction H as [|x y a b Hxy H IH]; intro Himp; constructor.
  - apply Himp; auto; now left.
  - apply IH. intros x' y' Hx Hy. apply Himp; now right.
Qed.

Section Trace.
Variables G F T : Type.
Variable ltb : T -> T -> bool.
Variable mate_o : nat -> G * option F -> G * option F -> mate_ans G F.
Variable mut_o : nat -> G * option F -> mut_ans G F.
Notation st := (st G F T).

Definition is_clone (e : event) : Prop := match e with EClone _ _ => True | _ => False end.

(* every logged clone target is an allocated object, and is the target of one clone call only *)
Definition cinv (s : st) : Prop :=
  (forall p c, In (EClone p c) (lg s) -> c < ni (hp s)) /\
  (forall p p' c, In (EClone p c) (lg s) -> In (EClone p' c) (lg s) -> p = p').

(* s' extends s: the log grows, nothing is freed, draws are only consumed *)
Definition tr (s s' : st) : Prop :=
  incl (lg s) (lg s') /\ ni (hp s) <= ni (hp s') /\ (cinv s -> cinv s') /\ incl (dr s') (dr s).

Lemma tr_refl s : tr s s.
Proof. split; [apply incl_refl|]. split; [lia|]. split; [auto|apply incl_refl]. Qed.

Lemma tr_trans s1 s2 s3 : tr s1 s2 -> tr s2 s3 -> tr s1 s3.
Proof.
  intros (A1 & B1 & C1 & D1) (A2 & B2 & C2 & D2). split; [eapply incl_tran; eauto|]. split; [lia|].
  split; [auto|eapply incl_tran; eauto].
Qed.

(* the values random.random() can still return in state s *)
Definition drawn (s : st) (u : T) : Prop := In (DRandom u) (dr s).

Lemma drawn_mono s s' u : tr s s' -> drawn s' u -> drawn s u.
Proof. intros (_ & _ & _ & D) H. apply D, H. Qed.

Lemma next_random_drawn (s s1 : st) u : next_random s = Some (u, s1) -> drawn s u.
Proof.
  unfold next_random, drawn. destruct (dr s) as [|[x|n i j|n i] r]; try discriminate.
  intros [= <- _]. now left.
Qed.

Lemma varied_incl l l' o : incl l l' -> varied l o -> varied l' o.
Proof. intros Hi (e & He & Hv). exists e. split; [apply Hi, He|exact Hv]. Qed.

Lemma tr_next_random (s s1 : st) u : next_random s = Some (u, s1) -> tr s s1.
Proof.
  intro E. destruct (next_random_spec _ _ _ _ _ _ E) as (Eh & El & _).
  split; [rewrite El; apply incl_refl|]. split; [rewrite Eh; lia|].
  split; [unfold cinv; rewrite Eh, El; auto|].
  unfold next_random in E. destruct (dr s) as [|[x|n i j|n i] r]; try discriminate.
  injection E as _ <-. cbn. apply incl_tl, incl_refl.
Qed.

Lemma tr_del (s : st) x : tr s (do_del s x).
Proof. split; [apply incl_refl|]. split; [cbn; lia|]. split; [unfold cinv; cbn; auto|apply incl_refl]. Qed.

(* a non-clone event is appended and no object is freed *)
Lemma tr_event (s s' : st) e :
  ~ is_clone e -> lg s' = e :: lg s -> ni (hp s) <= ni (hp s') -> dr s' = dr s -> tr s s'.
Proof.
  intros Hn El Hni Hd. split; [rewrite El; apply incl_tl, incl_refl|]. split; [exact Hni|].
  split; [|rewrite Hd; apply incl_refl].
  intros [Hb Hu]. split.
  - intros p c. rewrite El. intros [E|Hin]; [subst e; exfalso; apply Hn; exact I|]. specialize (Hb p c Hin). lia.
  - intros p p' c. rewrite El. intros [E|Hin]; [subst e; exfalso; apply Hn; exact I|].
    intros [E|Hin']; [subst e; exfalso; apply Hn; exact I|]. eauto.
Qed.

Lemma resolve_ni (h h' : heap G F) a b r x : resolve h a b r = (h', x) -> ni h <= ni h'.
Proof. destruct r; cbn; intros [= <- <-]; cbn; lia. Qed.

Lemma tr_mate (s s' : st) a b r1 r2 :
  do_mate mate_o s a b = (s', (r1, r2)) -> tr s s' /\ varied (lg s') r1 /\ varied (lg s') r2.
Proof.
  unfold do_mate.
  destruct (resolve _ a b _) as [h3 x1] eqn:E1. destruct (resolve h3 a b _) as [h4 x2] eqn:E2.
  intros [= <- <- <-]. pose proof (resolve_ni _ _ _ _ _ _ E1) as N1. pose proof (resolve_ni _ _ _ _ _ _ E2) as N2.
  split; [|split].
  - eapply tr_event; [|reflexivity|cbn in *; lia|reflexivity]. cbn. auto.
  - exists (EMate (kc s) a b x1 x2). split; [now left|cbn; auto].
  - exists (EMate (kc s) a b x1 x2). split; [now left|cbn; auto].
Qed.

Lemma tr_mut (s s' : st) a r : do_mut mut_o s a = (s', r) -> tr s s' /\ varied (lg s') r.
Proof.
  unfold do_mut. destruct (mu_r _) as [|c].
  - intros [= <- <-]. split.
    + eapply tr_event; [|reflexivity|cbn; lia|reflexivity]. cbn. auto.
    + exists (EMut (kc s) a a). split; [now left|cbn; auto].
  - unfold alloc. intros [= <- <-]. split.
    + eapply tr_event; [|reflexivity|cbn; lia|reflexivity]. cbn. auto.
    + eexists. split; [now left|cbn; auto].
Qed.

Lemma tr_clone (s s' : st) p c :
  do_clone s p = (s', c) -> tr s s' /\ lg s' = EClone p c :: lg s.
Proof.
  unfold do_clone, clone, alloc. intros [= <- <-]. split; [|reflexivity].
  split; [apply incl_tl, incl_refl|]. split; [cbn; lia|]. split; [|apply incl_refl].
  intros [Hb Hu]. split; cbn [lg hp ni].
  - intros q c [E|Hin]; [injection E as _ <-; lia|]. specialize (Hb q c Hin). lia.
  - intros q q' c [E|Hin] [E'|Hin'].
    + congruence.
    + injection E as _ <-. specialize (Hb _ _ Hin'). lia.
    + injection E' as _ <-. specialize (Hb _ _ Hin). lia.
    + eauto.
Qed.

(* ---- loops ---- *)
Lemma clone_all_trace : forall ps (s s' : st) cs,
  clone_all s ps = (s', cs) ->
  tr s s' /\ Forall2 (fun p c => In (EClone p c) (lg s')) ps cs /\
  (forall e, In e (lg s') -> In e (lg s) \/ is_clone e).
Proof.
  induction ps as [|p r IH]; intros s s' cs; cbn [clone_all].
  - intros [= <- <-]. split; [apply tr_refl|]. split; [constructor|auto].
  - destruct (do_clone s p) as [s1 c] eqn:Ec. destruct (clone_all s1 r) as [s2 cs'] eqn:Er.
    intros [= <- <-]. destruct (tr_clone _ _ _ _ Ec) as [T1 L1]. destruct (IH _ _ _ Er) as (T2 & F2 & O2).
    split; [eapply tr_trans; eauto|]. split.
    + constructor; [|exact F2]. apply (proj1 T2). rewrite L1. now left.
    + intros e He. destruct (O2 e He) as [Hin|Hc]; [|now right].
      rewrite L1 in Hin. destruct Hin as [<-|Hin]; [right; exact I|now left].
Qed.

Definition same_or_varied (l : list event) (o o' : nat) : Prop := o' = o \/ varied l o'.

Lemma sov_mono l l' : incl l l' -> forall a b, Forall2 (same_or_varied l) a b -> Forall2 (same_or_varied l') a b.
Proof.
  intros Hi a b H. induction H; constructor; auto.
  destruct H as [->|Hv]; [now left|right; eapply varied_incl; eauto].
Qed.

Lemma mate_loop_trace cxpb : forall l (s s' : st) res,
  mate_loop ltb mate_o cxpb s l = (s', res) ->
  tr s s' /\ forall l', res = inr l' -> Forall2 (same_or_varied (lg s')) l l'.
Proof.
  induction l as [|a|a b r IH] using list_pair_ind; intros s s' res.
  - cbn. intros [= <- <-]. split; [apply tr_refl|]. intros l' [= <-]. constructor.
  - cbn. intros [= <- <-]. split; [apply tr_refl|]. intros l' [= <-]. constructor; [now left|constructor].
  - cbn [mate_loop]. destruct (next_random s) as [[u s1]|] eqn:En.
    2:{ intros [= <- <-]. split; [apply tr_refl|]. intros l' E; discriminate. }
    pose proof (tr_next_random _ _ _ En) as T0. destruct (ltb u cxpb).
    + destruct (do_mate mate_o s1 a b) as [s2 [r1 r2]] eqn:Em.
      destruct (tr_mate _ _ _ _ _ _ Em) as (T1 & V1 & V2).
      pose proof (tr_trans _ _ _ (tr_del s2 r1) (tr_del (do_del s2 r1) r2)) as T2.
      destruct (mate_loop ltb mate_o cxpb (do_del (do_del s2 r1) r2) r) as [s4 [e|r']] eqn:Er;
        destruct (IH _ _ _ Er) as (T3 & Hres); intros [= <- <-];
        (split; [eapply tr_trans; [exact T0|eapply tr_trans; [exact T1|eapply tr_trans; [exact T2|exact T3]]]|]).
      * intros l' E; discriminate.
      * intros l' [= <-]. specialize (Hres r' eq_refl).
        constructor; [right; eapply varied_incl; [apply (proj1 T3)|exact V1]|].
        constructor; [right; eapply varied_incl; [apply (proj1 T3)|exact V2]|exact Hres].
    + destruct (mate_loop ltb mate_o cxpb s1 r) as [s4 [e|r']] eqn:Er;
        destruct (IH _ _ _ Er) as (T3 & Hres); intros [= <- <-];
        (split; [eapply tr_trans; [exact T0|exact T3]|]).
      * intros l' E; discriminate.
      * intros l' [= <-]. constructor; [now left|]. constructor; [now left|auto].
Qed.

Lemma mut_loop_trace mutpb : forall l (s s' : st) res,
  mut_loop ltb mut_o mutpb s l = (s', res) ->
  tr s s' /\ forall l', res = inr l' ->
    Forall2 (same_or_varied (lg s')) l l' /\
    ((forall u, drawn s u -> ltb u mutpb = true) -> Forall (varied (lg s')) l').
Proof.
  induction l as [|a r IH]; intros s s' res.
  - cbn. intros [= <- <-]. split; [apply tr_refl|]. intros l' [= <-]. split; constructor.
  - cbn [mut_loop]. destruct (next_random s) as [[u s1]|] eqn:En.
    2:{ intros [= <- <-]. split; [apply tr_refl|]. intros l' E; discriminate. }
    pose proof (tr_next_random _ _ _ En) as T0. destruct (ltb u mutpb) eqn:Eu.
    + destruct (do_mut mut_o s1 a) as [s2 r1] eqn:Em.
      destruct (tr_mut _ _ _ _ Em) as (T1 & V1). pose proof (tr_del s2 r1) as T2.
      destruct (mut_loop ltb mut_o mutpb (do_del s2 r1) r) as [s4 [e|r']] eqn:Er;
        destruct (IH _ _ _ Er) as (T3 & Hres); intros [= <- <-];
        (split; [eapply tr_trans; [exact T0|eapply tr_trans; [exact T1|eapply tr_trans; [exact T2|exact T3]]]|]).
      * intros l' E; discriminate.
      * intros l' [= <-]. destruct (Hres r' eq_refl) as [H2 Hall].
        assert (V : varied (lg s4) r1) by (eapply varied_incl; [apply (proj1 T3)|exact V1]).
        split; [constructor; [now right|exact H2]|]. intro A. constructor; [exact V|]. apply Hall.
        intros u' Hu'. apply A. eapply drawn_mono; [|exact Hu'].
        eapply tr_trans; [exact T0|eapply tr_trans; [exact T1|exact T2]].
    + destruct (mut_loop ltb mut_o mutpb s1 r) as [s4 [e|r']] eqn:Er;
        destruct (IH _ _ _ Er) as (T3 & Hres); intros [= <- <-];
        (split; [eapply tr_trans; [exact T0|exact T3]|]).
      * intros l' E; discriminate.
      * intros l' [= <-]. destruct (Hres r' eq_refl) as [H2 Hall].
        split; [constructor; [now left|exact H2]|]. intro A.
        rewrite (A u (next_random_drawn _ _ _ En)) in Eu. discriminate.
Qed.

(* probability "never": the loop does nothing *)
Lemma mate_loop_never cxpb : forall l (s s' : st) l',
  (forall u, drawn s u -> ltb u cxpb = false) ->
  mate_loop ltb mate_o cxpb s l = (s', inr l') -> l' = l /\ hp s' = hp s /\ lg s' = lg s /\ tr s s'.
Proof.
  induction l as [|a|a b r IH] using list_pair_ind; intros s s' l' A.
  - cbn. intros [= <- <-]. split; [reflexivity|]. split; [reflexivity|]. split; [reflexivity|apply tr_refl].
  - cbn. intros [= <- <-]. split; [reflexivity|]. split; [reflexivity|]. split; [reflexivity|apply tr_refl].
  - cbn [mate_loop]. destruct (next_random s) as [[u s1]|] eqn:En; [|discriminate].
    destruct (next_random_spec _ _ _ _ _ _ En) as (Eh & El & _).
    pose proof (tr_next_random _ _ _ En) as T0. rewrite (A u (next_random_drawn _ _ _ En)).
    destruct (mate_loop ltb mate_o cxpb s1 r) as [s4 [e|r']] eqn:Er; [discriminate|].
    intros [= <- <-].
    destruct (IH _ _ _ (fun u' Hu' => A u' (drawn_mono _ _ _ T0 Hu')) Er) as (-> & H1 & H2 & T1).
    split; [reflexivity|]. split; [congruence|]. split; [congruence|eapply tr_trans; eauto].
Qed.

Lemma mut_loop_never mutpb : forall l (s s' : st) l',
  (forall u, drawn s u -> ltb u mutpb = false) ->
  mut_loop ltb mut_o mutpb s l = (s', inr l') -> l' = l /\ hp s' = hp s /\ lg s' = lg s.
Proof.
  induction l as [|a r IH]; intros s s' l' A.
  - cbn. intros [= <- <-]. auto.
  - cbn [mut_loop]. destruct (next_random s) as [[u s1]|] eqn:En; [|discriminate].
    destruct (next_random_spec _ _ _ _ _ _ En) as (Eh & El & _).
    pose proof (tr_next_random _ _ _ En) as T0. rewrite (A u (next_random_drawn _ _ _ En)).
    destruct (mut_loop ltb mut_o mutpb s1 r) as [s4 [e|r']] eqn:Er; [discriminate|].
    intros [= <- <-].
    destruct (IH _ _ _ (fun u' Hu' => A u' (drawn_mono _ _ _ T0 Hu')) Er) as (-> & H1 & H2).
    split; [reflexivity|]. split; congruence.
Qed.

Lemma cinv_start (h : heap G F) d : cinv (start h d).
Proof. split; cbn; intros; contradiction. Qed.

(* ---- varAnd, position by position ---- *)
Variable h0 : heap G F.
Variable pop : list nat.
Hypothesis wf0 : wf_heap h0.
Hypothesis popok : pop_ok h0 pop.
Hypothesis mate_distinct : forall k x y, ret_distinct (ma_r1 (mate_o k x y)) (ma_r2 (mate_o k x y)).

Lemma forall2_compose (l1 l2 l3 : list event) (ps : list nat) : forall a b c,
  incl l1 l3 -> incl l2 l3 ->
  Forall2 (fun p x => In (EClone p x) l1) ps a ->
  Forall2 (same_or_varied l2) a b -> Forall2 (same_or_varied l3) b c ->
  Forall2 (fun p o => varied l3 o \/ In (EClone p o) l3) ps c.
Proof.
  intros a b c I1 I2 H1. revert b c. induction H1 as [|p x ps' a' Hc H1 IH]; intros b c H2 H3.
  - inversion H2; subst. inversion H3; subst. constructor.
  - inversion H2 as [|? y ? b' S2 H2']; subst. inversion H3 as [|? z ? c' S3 H3']; subst.
    constructor; [|eapply IH; eauto].
    destruct S3 as [->|V3]; [|now left]. destruct S2 as [->|V2]; [right; apply I1, Hc|].
    left. eapply varied_incl; eauto.
Qed.

(* offspring i either went through an operator, or is the clone of population[i] and still carries
   its genotype and fitness *)
Theorem and_positional cxpb mutpb d s' off :
  var_and ltb mate_o mut_o cxpb mutpb (start h0 d) pop = (s', inr off) ->
  Forall2 (fun p o => varied (lg s') o \/
                      (In (EClone p o) (lg s') /\ geno (ind_at (hp s') o) = geno (ind_at h0 p)
                       /\ fit_of (hp s') o = fit_of h0 p)) pop off.
Proof.
  intro Hrun.
  destruct (var_and_inv G F T ltb mate_o mut_o h0 pop wf0 popok mate_distinct cxpb mutpb d s' _ Hrun) as [_ Hres].
  destruct (Hres off eq_refl) as [Hg _].
  unfold var_and in Hrun. destruct (clone_all (start h0 d) pop) as [s1 off1] eqn:Ec.
  destruct (clone_all_trace _ _ _ _ Ec) as (T1 & F1 & _).
  destruct (mate_loop ltb mate_o cxpb s1 off1) as [s2 [e|off2]] eqn:Em; [discriminate|].
  destruct (mate_loop_trace _ _ _ _ _ Em) as (T2 & R2). specialize (R2 off2 eq_refl).
  destruct (mut_loop_trace _ _ _ _ _ Hrun) as (T3 & R3). destruct (R3 off eq_refl) as [R3' _].
  assert (C3 : cinv s') by (apply (proj1 (proj2 (proj2 T3))), (proj1 (proj2 (proj2 T2))), (proj1 (proj2 (proj2 T1))), cinv_start).
  pose proof (forall2_compose (lg s1) (lg s2) (lg s') pop off1 off2 off
                (incl_tran (proj1 T2) (proj1 T3)) (proj1 T3) F1 R2 R3') as H.
  eapply Forall2_impl_in; [exact H|]. intros p o _ Ho [V|Hc]; [now left|].
  pose proof (gi_state _ _ _ _ _ _ _ Hg) as Hst. rewrite Forall_forall in Hst.
  destruct (Hst o Ho) as [[Hnv (p' & Hp' & Hc' & Hge & Hfi)]|[V _]]; [|now left].
  right. assert (p' = p) by (eapply (proj2 C3); eauto). subst p'. auto.
Qed.

(* cxpb and mutpb that no draw falls below (e.g. both 0): varAnd returns exact, operator-free copies *)
Theorem and_never cxpb mutpb d s' off :
  (forall u, In (DRandom u) d -> ltb u cxpb = false) -> (forall u, In (DRandom u) d -> ltb u mutpb = false) ->
  var_and ltb mate_o mut_o cxpb mutpb (start h0 d) pop = (s', inr off) ->
  (forall o, ~ varied (lg s') o) /\
  Forall2 (fun p o => In (EClone p o) (lg s') /\ geno (ind_at (hp s') o) = geno (ind_at h0 p)
                      /\ fit_of (hp s') o = fit_of h0 p) pop off.
Proof.
  intros A B Hrun. pose proof (and_positional _ _ _ _ _ Hrun) as P.
  unfold var_and in Hrun. destruct (clone_all (start h0 d) pop) as [s1 off1] eqn:Ec.
  destruct (clone_all_trace _ _ _ _ Ec) as (T1 & _ & O1).
  destruct (mate_loop ltb mate_o cxpb s1 off1) as [s2 [e|off2]] eqn:Em; [discriminate|].
  destruct (mate_loop_never cxpb _ _ _ _ (fun u Hu => A u (drawn_mono _ _ _ T1 Hu)) Em) as (_ & _ & L2 & T2).
  destruct (mut_loop_never mutpb _ _ _ _ (fun u Hu => B u (drawn_mono _ _ _ (tr_trans _ _ _ T1 T2) Hu)) Hrun) as (_ & _ & L3).
  assert (NV : forall o, ~ varied (lg s') o).
  { intros o (e & He & Hi). rewrite L3, L2 in He. destruct (O1 e He) as [[]|Hc].
    destruct e; cbn in Hc, Hi; contradiction. }
  split; [exact NV|]. eapply Forall2_impl_in; [exact P|]. intros p o _ _ [V|H]; [destruct (NV o V)|exact H].
Qed.

(* mutpb that every draw falls below (e.g. 1): every offspring of varAnd comes back invalid *)
Theorem and_always_mut cxpb mutpb d s' off :
  (forall u, In (DRandom u) d -> ltb u mutpb = true) ->
  var_and ltb mate_o mut_o cxpb mutpb (start h0 d) pop = (s', inr off) ->
  forall o, In o off -> fit_of (hp s') o = None.
Proof.
  intros A Hrun o Ho.
  pose proof (and_varied_invalid G F T ltb mate_o mut_o h0 pop wf0 popok mate_distinct cxpb mutpb d s' _ Hrun off eq_refl) as VI.
  apply VI; [exact Ho|].
  unfold var_and in Hrun. destruct (clone_all (start h0 d) pop) as [s1 off1] eqn:Ec.
  destruct (clone_all_trace _ _ _ _ Ec) as (T1 & _).
  destruct (mate_loop ltb mate_o cxpb s1 off1) as [s2 [e|off2]] eqn:Em; [discriminate|].
  destruct (mate_loop_trace _ _ _ _ _ Em) as (T2 & _).
  destruct (mut_loop_trace _ _ _ _ _ Hrun) as (_ & R3). destruct (R3 off eq_refl) as [_ Hall].
  assert (A' : forall u, drawn s2 u -> ltb u mutpb = true)
    by (intros u Hu; apply A; exact (drawn_mono _ _ _ (tr_trans _ _ _ T1 T2) Hu)).
  specialize (Hall A'). rewrite Forall_forall in Hall. auto.
Qed.

(* ---- varOr at the extremes ---- *)
Variables (leb : T -> T -> bool) (add : T -> T -> T) (one : T).

Lemma var_or_step_trace cxpb mutpb (s s' : st) o :
  var_or_step ltb add mate_o mut_o cxpb mutpb pop s = (s', inr o) ->
  tr s s' /\
  ((forall u, drawn s u -> ltb u cxpb = false /\ ltb u (add cxpb mutpb) = false) ->
     exists p, lg s' = EClone p o :: lg s) /\
  ((forall u, drawn s u -> ltb u cxpb = true \/ ltb u (add cxpb mutpb) = true) -> varied (lg s') o).
Proof.
  unfold var_or_step. destruct (next_random s) as [[u s1]|] eqn:En; [|discriminate].
  pose proof (tr_next_random _ _ _ En) as T0. pose proof (next_random_drawn _ _ _ En) as Du.
  destruct (next_random_spec _ _ _ _ _ _ En) as (Eh & El & Ek).
  destruct (ltb u cxpb) eqn:Eu.
  - destruct (Nat.ltb (length pop) 2); [discriminate|].
    destruct (dr s1) as [|[x|n i j|n i] rest] eqn:Ed; try discriminate.
    destruct (Nat.eqb n (length pop)); [|discriminate].
    destruct (nth_error pop i) as [p1|]; [|discriminate].
    destruct (nth_error pop j) as [p2|]; [|discriminate].
    set (s2 := mkst (hp s1) rest (kc s1) (lg s1)).
    assert (T2 : tr s1 s2).
    { split; [apply incl_refl|]. split; [cbn; lia|]. split; [unfold cinv; cbn; auto|].
      unfold s2. cbn [dr]. rewrite Ed. apply incl_tl, incl_refl. }
    destruct (do_clone s2 p1) as [s3 c1] eqn:Ec1. destruct (tr_clone _ _ _ _ Ec1) as [T3 _].
    destruct (do_clone s3 p2) as [s4 c2] eqn:Ec2. destruct (tr_clone _ _ _ _ Ec2) as [T4 _].
    destruct (do_mate mate_o s4 c1 c2) as [s5 [r1 r2]] eqn:Em. destruct (tr_mate _ _ _ _ _ _ Em) as (T5 & V1 & _).
    intros [= <- <-]. split; [|split].
    + repeat (eapply tr_trans; [eassumption|]). apply tr_del.
    + intros A. rewrite (proj1 (A u Du)) in Eu. discriminate.
    + intros _. exact V1.
  - destruct (Nat.eqb (length pop) 0); [discriminate|].
    destruct (dr s1) as [|[x|n i j|n i] rest] eqn:Ed; try discriminate.
    destruct (Nat.eqb n (length pop)); [|discriminate].
    destruct (nth_error pop i) as [p|]; [|discriminate].
    set (s2 := mkst (hp s1) rest (kc s1) (lg s1)).
    assert (T2 : tr s1 s2).
    { split; [apply incl_refl|]. split; [cbn; lia|]. split; [unfold cinv; cbn; auto|].
      unfold s2. cbn [dr]. rewrite Ed. apply incl_tl, incl_refl. }
    destruct (do_clone s2 p) as [s3 c] eqn:Ec. destruct (tr_clone _ _ _ _ Ec) as [T3 L3].
    destruct (ltb u (add cxpb mutpb)) eqn:Eu2.
    + destruct (do_mut mut_o s3 c) as [s4 r] eqn:Em. destruct (tr_mut _ _ _ _ Em) as (T4 & V).
      intros [= <- <-]. split; [|split].
      * repeat (eapply tr_trans; [eassumption|]). apply tr_del.
      * intros A. rewrite (proj2 (A u Du)) in Eu2. discriminate.
      * intros _. exact V.
    + intros [= <- <-]. split; [|split].
      * repeat (eapply tr_trans; [eassumption|]). apply tr_refl.
      * intros _. exists p. rewrite L3. unfold s2. cbn. now rewrite El.
      * intros A. destruct (A u Du) as [E|E]; congruence.
Qed.

Lemma var_or_loop_trace cxpb mutpb : forall n (s s' : st) os,
  var_or_loop ltb add mate_o mut_o cxpb mutpb pop n s = (s', inr os) ->
  tr s s' /\
  ((forall u, drawn s u -> ltb u cxpb = false /\ ltb u (add cxpb mutpb) = false) ->
     forall e, In e (lg s') -> In e (lg s) \/ is_clone e) /\
  ((forall u, drawn s u -> ltb u cxpb = true \/ ltb u (add cxpb mutpb) = true) -> Forall (varied (lg s')) os).
Proof.
  induction n as [|n IH]; intros s s' os; cbn [var_or_loop].
  - intros [= <- <-]. split; [apply tr_refl|]. split; [auto|constructor].
  - destruct (var_or_step ltb add mate_o mut_o cxpb mutpb pop s) as [s1 [e|o]] eqn:Es; [discriminate|].
    destruct (var_or_step_trace _ _ _ _ _ Es) as (T1 & N1 & V1).
    destruct (var_or_loop ltb add mate_o mut_o cxpb mutpb pop n s1) as [s2 [e|os']] eqn:El; [discriminate|].
    intros [= <- <-]. destruct (IH _ _ _ El) as (T2 & N2 & V2).
    split; [eapply tr_trans; eauto|]. split.
    + intros A e He.
      assert (A1 : forall u, drawn s1 u -> ltb u cxpb = false /\ ltb u (add cxpb mutpb) = false)
        by (intros u Hu; apply A; exact (drawn_mono _ _ _ T1 Hu)).
      destruct (N2 A1 e He) as [Hin|Hc]; [|now right].
      destruct (N1 A) as [p L]. rewrite L in Hin. destruct Hin as [<-|Hin]; [right; exact I|now left].
    + intros A.
      assert (A1 : forall u, drawn s1 u -> ltb u cxpb = true \/ ltb u (add cxpb mutpb) = true)
        by (intros u Hu; apply A; exact (drawn_mono _ _ _ T1 Hu)).
      constructor; [eapply varied_incl; [apply (proj1 T2)|exact (V1 A)]|exact (V2 A1)].
Qed.

(* cxpb = mutpb = 0 (no draw below cxpb or below cxpb+mutpb): varOr returns operator-free clones that
   carry the genotype and fitness of a population member -- the scenario of the repaired defect *)
Theorem or_reproduction_only lambda_ cxpb mutpb d s' off :
  (forall u, In (DRandom u) d -> ltb u cxpb = false /\ ltb u (add cxpb mutpb) = false) ->
  var_or ltb leb add one mate_o mut_o lambda_ cxpb mutpb (start h0 d) pop = (s', inr off) ->
  (forall o, ~ varied (lg s') o) /\
  forall o, In o off -> exists p, In p pop /\ In (EClone p o) (lg s') /\
     geno (ind_at (hp s') o) = geno (ind_at h0 p) /\ fit_of (hp s') o = fit_of h0 p.
Proof.
  intros A Hrun.
  destruct (var_or_inv G F T ltb leb add one mate_o mut_o h0 pop wf0 popok lambda_ cxpb mutpb d s' _ Hrun) as [_ Hres].
  destruct (Hres off eq_refl) as [Hg _].
  unfold var_or in Hrun. destruct (leb (add cxpb mutpb) one); [|discriminate].
  destruct (var_or_loop_trace _ _ _ _ _ _ Hrun) as (_ & N & _).
  assert (NV : forall o, ~ varied (lg s') o).
  { intros o (e & He & Hi). destruct (N A e He) as [[]|Hc]. destruct e; cbn in Hc, Hi; contradiction. }
  split; [exact NV|]. intros o Ho.
  destruct (ginv_unvaried G F h0 pop _ _ _ o Hg Ho (NV o)) as [_ (p & Hp & Hc & Hge & Hfi)]. eauto.
Qed.

(* every draw selects crossover or mutation (e.g. cxpb + mutpb = 1): every offspring comes back invalid *)
Theorem or_all_varied lambda_ cxpb mutpb d s' off :
  (forall u, In (DRandom u) d -> ltb u cxpb = true \/ ltb u (add cxpb mutpb) = true) ->
  var_or ltb leb add one mate_o mut_o lambda_ cxpb mutpb (start h0 d) pop = (s', inr off) ->
  forall o, In o off -> fit_of (hp s') o = None.
Proof.
  intros A Hrun o Ho.
  pose proof (or_varied_invalid G F T ltb mate_o mut_o h0 pop wf0 popok leb add one lambda_ cxpb mutpb d s' _ Hrun off eq_refl) as VI.
  apply VI; [exact Ho|].
  unfold var_or in Hrun. destruct (leb (add cxpb mutpb) one); [|discriminate].
  destruct (var_or_loop_trace _ _ _ _ _ _ Hrun) as (_ & _ & V). specialize (V A).
  rewrite Forall_forall in V. auto.
Qed.

End Trace.
