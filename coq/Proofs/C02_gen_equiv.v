(* Tie (T) of property C02: the definitions REGENERATED from the current text of deap/algorithms.py
   (coq/Gen/C02_gen.v, written by harness/c02_py2coq.py on every run) are the hand model.

     gen_varAnd_eq : gen_varAnd ltb leb add one mate_o mut_o pop cxpb mutpb s = var_and ltb mate_o mut_o cxpb mutpb s pop
     gen_varOr_eq  : gen_varOr  ltb leb add one mate_o mut_o pop lambda_ cxpb mutpb s
                     = var_or ltb leb add one mate_o mut_o lambda_ cxpb mutpb s pop

   for all arguments, all operator oracles and all states (heap, draws, call counter, log).

   The proofs do not match the generated text syntactically.  Each loop is handled by a lemma that is
   GENERIC IN THE LOOP BODY (pair_loop0 / single_loop0 / or_loop0): the body only has to satisfy a
   one-iteration specification (cx_step / mut_step / or_step: what one iteration does to the list
   `pre ++ a :: b :: r` at the pair that starts at position |pre|), and that specification is discharged
   by symbolic execution of the monadic text (tactic msim: unfold the statement vocabulary, resolve
   l[i] / l[i] = v at positions that `lia` shows to be |pre| or |pre|+1, split on every draw / test /
   operator answer).  Renamed locals, hoisted sub-expressions, temporaries, reordered pure reads,
   `range(0, n - 1, 2)` with `i, i + 1` instead of `range(1, n, 2)` with `i - 1, i`, enumerate instead
   of an index loop, or a common `offspring.append` after the if therefore still go through; a change
   of what is cloned, mated, mutated, deleted, drawn or compared does not.

   A function the translator refused is, in the generated file, the hand model itself: its lemma is
   then closed by the leading `reflexivity` (and the harness reports the tie as correspondence-only). *)
From Coq Require Import List ZArith Bool Arith Lia.
From DV Require Import Base.PyList Model.C02_Variation Model.C02_GenRt Proofs.C02_Variation Proofs.C02_Literal.
From DV Require Import Gen.C02_gen.
Import ListNotations.
Local Open Scope Z_scope.

(* ---- Python indexing at a position known up to arithmetic ---- *)
Lemma py_get_at {A} (pre : list A) x r i : i = Z.of_nat (length pre) -> py_get (pre ++ x :: r) i = Some x.
Proof. intros ->. apply py_get_app. Qed.
Lemma py_get_at1 {A} (pre : list A) x y r i : i = Z.of_nat (length pre) + 1 -> py_get (pre ++ x :: y :: r) i = Some y.
Proof. intros ->. apply py_get_app1. Qed.
Lemma py_set_at {A} (pre : list A) x r i v : i = Z.of_nat (length pre) -> py_set (pre ++ x :: r) i v = Some (pre ++ v :: r).
Proof. intros ->. apply py_set_app. Qed.
Lemma py_set_at1 {A} (pre : list A) x y r i v :
  i = Z.of_nat (length pre) + 1 -> py_set (pre ++ x :: y :: r) i v = Some (pre ++ x :: v :: r).
Proof. intros ->. apply py_set_app1. Qed.

(* range(0, n - 1, 2): the other way to enumerate the pairs (0,1), (2,3), ... *)
Lemma range_pairs0 n :
  py_range3 0 (Z.of_nat n - 1) 2 = map (fun k => 0 + Z.of_nat k * 2) (seq 0 (Nat.div2 n)).
Proof.
  unfold py_range3. f_equal. f_equal. unfold range_count. cbn [Z.ltb Z.compare].
  destruct (div2_double_le n) as [A B].
  destruct (0 <? Z.of_nat n - 1) eqn:E.
  - apply Z.ltb_lt in E.
    assert (Hd : (Z.of_nat n - 1 - 0 - 1) / 2 = Z.of_nat (Nat.div2 n) - 1).
    { symmetry. apply (Z.div_unique _ 2 _ (Z.of_nat n - 2 - 2 * (Z.of_nat (Nat.div2 n) - 1))); lia. }
    rewrite Hd. replace (Z.of_nat (Nat.div2 n) - 1 + 1) with (Z.of_nat (Nat.div2 n)) by lia. apply Nat2Z.id.
  - apply Z.ltb_ge in E. assert (Nat.div2 n = 0%nat) by lia. rewrite H. reflexivity.
Qed.

Lemma range_len n : length (py_range n) = Z.to_nat n.
Proof.
  unfold py_range, py_range3. rewrite map_length, seq_length. unfold range_count. cbn [Z.ltb Z.compare].
  destruct (0 <? n) eqn:E.
  - rewrite Z.div_1_r. f_equal. lia.
  - apply Z.ltb_ge in E. destruct n; try reflexivity; lia.
Qed.

Lemma bind_unfold {S A B} (m : M S A) (f : A -> M S B) (s : S) :
  bind m f s = match m s with (s1, inr a) => f a s1 | (s1, inl e) => (s1, inl e) end.
Proof. reflexivity. Qed.

Section Equiv.
Variables G F T : Type.
Variables ltb leb : T -> T -> bool.
Variable add : T -> T -> T.
Variable one : T.
Variable mate_o : nat -> G * option F -> G * option F -> mate_ans G F.
Variable mut_o : nat -> G * option F -> mut_ans G F.
Notation st := (st G F T).
Notation M := (M st).

Definition lift (pre : list nat) (r : st * (exn + list nat)) : st * (exn + list nat) :=
  match r with (s', inr l') => (s', inr (pre ++ l')) | (s', inl e) => (s', inl e) end.

(* ---- [toolbox.clone(ind) for ind in population] ---- *)
Lemma map_M_clone (f : nat -> M nat) : (forall u s, f u s = m_clone u s) ->
  forall pop (s : st), map_M f pop s = (let '(s1, off) := clone_all s pop in (s1, inr off)).
Proof.
  intros Hf. induction pop as [|p r IH]; intros s; cbn [map_M clone_all]; [reflexivity|].
  rewrite bind_unfold, Hf. unfold m_clone. destruct (do_clone s p) as [s1 c].
  rewrite bind_unfold, IH. destruct (clone_all s1 r) as [s2 cs]. reflexivity.
Qed.

(* ---- one iteration of the three loops, as the hand model performs it ---- *)
Definition cx_step (cxpb : T) (pre : list nat) (a b : nat) (r : list nat) (s : st) : st * (exn + list nat) :=
  match next_random s with
  | None => (s, inl DrawMismatch)
  | Some (u, s1) =>
      if ltb u cxpb then
        let '(s2, (r1, r2)) := do_mate mate_o s1 a b in
        (do_del (do_del s2 r1) r2, inr (pre ++ r1 :: r2 :: r))
      else (s1, inr (pre ++ a :: b :: r))
  end.

Definition mut_step (mutpb : T) (pre : list nat) (a : nat) (r : list nat) (s : st) : st * (exn + list nat) :=
  match next_random s with
  | None => (s, inl DrawMismatch)
  | Some (u, s1) =>
      if ltb u mutpb then
        let '(s2, r1) := do_mut mut_o s1 a in (do_del s2 r1, inr (pre ++ r1 :: r))
      else (s1, inr (pre ++ a :: r))
  end.

Definition or_step (cxpb mutpb : T) (pop off : list nat) (s : st) : st * (exn + list nat) :=
  match var_or_step ltb add mate_o mut_o cxpb mutpb pop s with
  | (s1, inr o) => (s1, inr (off ++ [o]))
  | (s1, inl e) => (s1, inl e)
  end.

(* ---- loops, generic in the body ---- *)
Lemma pair_loop (body : Z -> list nat -> M (list nat)) (f : nat -> Z) cxpb :
  (forall k pre a b r s, length pre = (2 * k)%nat -> body (f k) (pre ++ a :: b :: r) s = cx_step cxpb pre a b r s) ->
  forall l k pre s, length pre = (2 * k)%nat ->
    for_each (map f (seq k (Nat.div2 (length l)))) body (pre ++ l) s = lift pre (mate_loop ltb mate_o cxpb s l).
Proof.
  intros Hb. induction l as [|a|a b r IH] using list_pair_ind; intros k pre s Hk.
  - cbn. now rewrite app_nil_r.
  - reflexivity.
  - cbn [length Nat.div2 seq map for_each mate_loop]. rewrite bind_unfold, (Hb k pre a b r s Hk). unfold cx_step.
    destruct (next_random s) as [[u s1]|]; [|reflexivity].
    destruct (ltb u cxpb).
    + destruct (do_mate mate_o s1 a b) as [s2 [r1 r2]].
      replace (pre ++ r1 :: r2 :: r) with ((pre ++ [r1; r2]) ++ r) by (now rewrite <- app_assoc).
      rewrite (IH (S k) (pre ++ [r1; r2])) by (rewrite app_length; cbn [length]; lia).
      destruct (mate_loop ltb mate_o cxpb (do_del (do_del s2 r1) r2) r) as [s4 [e|r']]; cbn [lift]; [reflexivity|].
      now rewrite <- app_assoc.
    + replace (pre ++ a :: b :: r) with ((pre ++ [a; b]) ++ r) by (now rewrite <- app_assoc).
      rewrite (IH (S k) (pre ++ [a; b])) by (rewrite app_length; cbn [length]; lia).
      destruct (mate_loop ltb mate_o cxpb s1 r) as [s4 [e|r']]; cbn [lift]; [reflexivity|].
      now rewrite <- app_assoc.
Qed.

Lemma pair_loop0 (body : Z -> list nat -> M (list nat)) (f : nat -> Z) cxpb :
  (forall k pre a b r s, length pre = (2 * k)%nat -> body (f k) (pre ++ a :: b :: r) s = cx_step cxpb pre a b r s) ->
  forall l s, for_each (map f (seq 0 (Nat.div2 (length l)))) body l s = mate_loop ltb mate_o cxpb s l.
Proof.
  intros Hb l s. pose proof (pair_loop body f cxpb Hb l 0%nat [] s eq_refl) as H. cbn [app] in H. rewrite H.
  destruct (mate_loop ltb mate_o cxpb s l) as [s' [e|l']]; reflexivity.
Qed.

Lemma single_loop (body : Z -> list nat -> M (list nat)) (f : nat -> Z) mutpb :
  (forall k pre a r s, length pre = k -> body (f k) (pre ++ a :: r) s = mut_step mutpb pre a r s) ->
  forall l k pre s, length pre = k ->
    for_each (map f (seq k (length l))) body (pre ++ l) s = lift pre (mut_loop ltb mut_o mutpb s l).
Proof.
  intros Hb. induction l as [|a r IH]; intros k pre s Hk.
  - cbn. now rewrite app_nil_r.
  - cbn [length seq map for_each mut_loop]. rewrite bind_unfold, (Hb k pre a r s Hk). unfold mut_step.
    destruct (next_random s) as [[u s1]|]; [|reflexivity].
    destruct (ltb u mutpb).
    + destruct (do_mut mut_o s1 a) as [s2 r1].
      replace (pre ++ r1 :: r) with ((pre ++ [r1]) ++ r) by (now rewrite <- app_assoc).
      rewrite (IH (S k) (pre ++ [r1])) by (rewrite app_length; cbn [length]; lia).
      destruct (mut_loop ltb mut_o mutpb (do_del s2 r1) r) as [s4 [e|r']]; cbn [lift]; [reflexivity|].
      now rewrite <- app_assoc.
    + replace (pre ++ a :: r) with ((pre ++ [a]) ++ r) by (now rewrite <- app_assoc).
      rewrite (IH (S k) (pre ++ [a])) by (rewrite app_length; cbn [length]; lia).
      destruct (mut_loop ltb mut_o mutpb s1 r) as [s4 [e|r']]; cbn [lift]; [reflexivity|].
      now rewrite <- app_assoc.
Qed.

Lemma single_loop0 (body : Z -> list nat -> M (list nat)) (f : nat -> Z) mutpb :
  (forall k pre a r s, length pre = k -> body (f k) (pre ++ a :: r) s = mut_step mutpb pre a r s) ->
  forall l s, for_each (map f (seq 0 (length l))) body l s = mut_loop ltb mut_o mutpb s l.
Proof.
  intros Hb l s. pose proof (single_loop body f mutpb Hb l 0%nat [] s eq_refl) as H. cbn [app] in H. rewrite H.
  destruct (mut_loop ltb mut_o mutpb s l) as [s' [e|l']]; reflexivity.
Qed.

Lemma or_loop {X} (body : X -> list nat -> M (list nat)) cxpb mutpb pop :
  (forall i off s, body i off s = or_step cxpb mutpb pop off s) ->
  forall n (ks : list X) pre s, length ks = n ->
    for_each ks body pre s = lift pre (var_or_loop ltb add mate_o mut_o cxpb mutpb pop n s).
Proof.
  intros Hb. induction n as [|n IH]; intros ks pre s Hl.
  - destruct ks; [|discriminate]. cbn. now rewrite app_nil_r.
  - destruct ks as [|k ks]; [discriminate|]. cbn [for_each var_or_loop]. rewrite bind_unfold, Hb. unfold or_step.
    destruct (var_or_step ltb add mate_o mut_o cxpb mutpb pop s) as [s1 [e|o]]; [reflexivity|].
    rewrite IH by (cbn in Hl; lia).
    destruct (var_or_loop ltb add mate_o mut_o cxpb mutpb pop n s1) as [s2 [e|os]]; cbn [lift]; [reflexivity|].
    now rewrite <- app_assoc.
Qed.

Lemma or_loop0 (body : Z -> list nat -> M (list nat)) cxpb mutpb pop :
  (forall i off s, body i off s = or_step cxpb mutpb pop off s) ->
  forall lambda_ s, for_each (py_range lambda_) body [] s = var_or_loop ltb add mate_o mut_o cxpb mutpb pop (Z.to_nat lambda_) s.
Proof.
  intros Hb lambda_ s. rewrite (or_loop body cxpb mutpb pop Hb (Z.to_nat lambda_) (py_range lambda_) [] s (range_len lambda_)).
  destruct (var_or_loop ltb add mate_o mut_o cxpb mutpb pop (Z.to_nat lambda_) s) as [s' [e|l']]; reflexivity.
Qed.

(* ---- the number of offspring of var_and, without any hypothesis (used by the loop equivalences) ---- *)
Lemma mate_loop_length cxpb : forall l (s s' : st) l',
  mate_loop ltb mate_o cxpb s l = (s', inr l') -> length l' = length l.
Proof.
  induction l as [|a|a b r IH] using list_pair_ind; intros s s' l' H.
  - cbn in H. now inversion H.
  - cbn in H. now inversion H.
  - cbn [mate_loop] in H. destruct (next_random s) as [[u s1]|]; [|discriminate].
    destruct (ltb u cxpb).
    + destruct (do_mate mate_o s1 a b) as [s2 [r1 r2]].
      destruct (mate_loop ltb mate_o cxpb (do_del (do_del s2 r1) r2) r) as [s4 [e|r']] eqn:E; [discriminate|].
      inversion H; subst. cbn [length]. now rewrite (IH _ _ _ E).
    + destruct (mate_loop ltb mate_o cxpb s1 r) as [s4 [e|r']] eqn:E; [discriminate|].
      inversion H; subst. cbn [length]. now rewrite (IH _ _ _ E).
Qed.

Lemma mut_loop_length mutpb : forall l (s s' : st) l',
  mut_loop ltb mut_o mutpb s l = (s', inr l') -> length l' = length l.
Proof.
  induction l as [|a r IH]; intros s s' l' H.
  - cbn in H. now inversion H.
  - cbn [mut_loop] in H. destruct (next_random s) as [[u s1]|]; [|discriminate].
    destruct (ltb u mutpb).
    + destruct (do_mut mut_o s1 a) as [s2 r1].
      destruct (mut_loop ltb mut_o mutpb (do_del s2 r1) r) as [s4 [e|r']] eqn:E; [discriminate|].
      inversion H; subst. cbn [length]. now rewrite (IH _ _ _ E).
    + destruct (mut_loop ltb mut_o mutpb s1 r) as [s4 [e|r']] eqn:E; [discriminate|].
      inversion H; subst. cbn [length]. now rewrite (IH _ _ _ E).
Qed.

Lemma clone_all_length : forall pop (s : st), length (snd (clone_all s pop)) = length pop.
Proof.
  induction pop as [|p r IH]; intros s; cbn [clone_all]; [reflexivity|].
  destruct (do_clone s p) as [s1 c]. specialize (IH s1). destruct (clone_all s1 r) as [s2 cs]. cbn in *. now rewrite IH.
Qed.

Lemma var_and_length cxpb mutpb (s s' : st) pop off :
  var_and ltb mate_o mut_o cxpb mutpb s pop = (s', inr off) -> length off = length pop.
Proof.
  unfold var_and. pose proof (clone_all_length pop s) as Hc. destruct (clone_all s pop) as [s1 off1]. cbn in Hc.
  destruct (mate_loop ltb mate_o cxpb s1 off1) as [s2 [e|off2]] eqn:E; [discriminate|].
  intros H. rewrite (mut_loop_length _ _ _ _ _ H), (mate_loop_length _ _ _ _ _ E). exact Hc.
Qed.

End Equiv.

(* ---- symbolic execution of one loop body ---- *)
Ltac mred :=
  cbv beta iota zeta delta [bind ret raise m_random m_sample2 m_choice m_clone m_mate m_mutate m_del m_get m_set
                            unpack2 unpack1 m_assert map_M for_each].

Ltac midx :=
  first [ rewrite py_get_at by (cbn [length]; lia) | rewrite py_get_at1 by (cbn [length]; lia)
        | rewrite py_set_at by (cbn [length]; lia) | rewrite py_set_at1 by (cbn [length]; lia) ].

Ltac msplit :=
  match goal with
  | |- context[match ?x with _ => _ end] =>
      lazymatch x with
      | context[match _ with _ => _ end] => fail      (* innermost scrutinee first *)
      | py_get _ _ => fail
      | py_set _ _ _ => fail
      | _ => destruct x
      end
  end.

Ltac msim := repeat (mred; first [midx | msplit]); mred; try reflexivity; try (rewrite <- ?app_assoc; reflexivity).

Section Main.
Variables G F T : Type.
Variables ltb leb : T -> T -> bool.
Variable add : T -> T -> T.
Variable one : T.
Variable mate_o : nat -> G * option F -> G * option F -> mate_ans G F.
Variable mut_o : nat -> G * option F -> mut_ans G F.
Notation st := (st G F T).

Ltac norm_range :=
  unfold zlen; cbv zeta;
  first [ rewrite range_pairs | rewrite range_pairs0 | rewrite range_all ].

Theorem gen_varAnd_eq pop cxpb mutpb (s : st) :
  gen_varAnd ltb leb add one mate_o mut_o pop cxpb mutpb s = var_and ltb mate_o mut_o cxpb mutpb s pop.
Proof.
  first [ reflexivity (* the translator refused varAnd: the generated definition is the hand model *) | idtac ].
  all: unfold gen_varAnd, var_and.
  (* offspring = [toolbox.clone(ind) for ind in population] *)
  all: rewrite bind_unfold, (map_M_clone _ _ _ _ (fun u s => eq_refl)).
  all: destruct (clone_all s pop) as [s1 off]; cbv beta iota zeta.
  (* the loop over the pairs *)
  all: rewrite bind_unfold; norm_range.
  all: rewrite (pair_loop0 _ _ _ ltb mate_o _ _ cxpb); [| intros k pre a b r s0 Hk; unfold cx_step; msim ].
  all: destruct (mate_loop ltb mate_o cxpb s1 off) as [s2 [e|off2]] eqn:Eml; cbv beta iota zeta; [reflexivity|].
  (* the loop over the individuals; its bound may be a local bound to len(offspring) BEFORE the first loop
     (size = len(offspring) hoisted): the first loop keeps the length *)
  all: rewrite bind_unfold; norm_range.
  all: try rewrite <- (mate_loop_length _ _ _ ltb mate_o _ _ _ _ _ Eml).
  all: rewrite (single_loop0 _ _ _ ltb mut_o _ _ mutpb); [| intros k pre a r s0 Hk; unfold mut_step; msim ].
  all: destruct (mut_loop ltb mut_o mutpb s2 off2) as [s3 [e|off3]]; reflexivity.
Qed.

Theorem gen_varOr_eq pop lambda_ cxpb mutpb (s : st) :
  gen_varOr ltb leb add one mate_o mut_o pop lambda_ cxpb mutpb s
  = var_or ltb leb add one mate_o mut_o lambda_ cxpb mutpb s pop.
Proof.
  first [ reflexivity (* the translator refused varOr: the generated definition is the hand model *) | idtac ].
  all: unfold gen_varOr, var_or.
  (* assert (cxpb + mutpb) <= 1.0 *)
  all: rewrite bind_unfold; unfold m_assert at 1; destruct (leb (add cxpb mutpb) one); [|reflexivity].
  all: cbv beta iota zeta delta [ret].
  (* for _ in range(lambda_) *)
  all: rewrite bind_unfold.
  all: rewrite (or_loop0 _ _ _ ltb add mate_o mut_o _ cxpb mutpb pop); [| intros i off s0; unfold or_step, var_or_step; msim ].
  all: destruct (var_or_loop ltb add mate_o mut_o cxpb mutpb pop (Z.to_nat lambda_) s) as [s' [e|l]]; reflexivity.
Qed.

End Main.
