(* C07 — proofs about the model of find_intercepts (Model/C07_Intercepts.v):
   the exact solver returns the unique solution / detects exactly the singular systems,
   the hyperplane through the extreme points, the guards of every branch. *)
From Coq Require Import List ZArith QArith Qabs Bool Lia Permutation.
From DV Require Import Base.PyList Base.C07_Num Model.C07_Intercepts.
Import ListNotations.
Local Open Scope Q_scope.
Local Arguments Qred : simpl never.

Definition veq (x y : list Q) : Prop := Forall2 Qeq x y.

Lemma veq_refl x : veq x x.
Proof. induction x; constructor; [reflexivity|assumption]. Qed.

Lemma veq_length x y : veq x y -> length x = length y.
Proof. induction 1; cbn; congruence. Qed.

Lemma vdot_proper_r : forall a x y, veq x y -> vdot a x == vdot a y.
Proof.
  induction a as [|u a IH]; intros x y H; [reflexivity|].
  inversion H as [|x0 y0 xs ys E Hr]; subst; [reflexivity|]. cbn [vdot]. rewrite E, (IH _ _ Hr). reflexivity.
Qed.

Lemma vdot_nil_r a : vdot a [] = 0.
Proof. destruct a; reflexivity. Qed.

Lemma vdot_zeros : forall a n, vdot a (repeat 0 n) == 0.
Proof.
  induction a as [|u a IH]; intros [|n]; cbn [repeat vdot]; try reflexivity. rewrite IH. ring.
Qed.

(* ------------------------------------------------------------------ *)
Definition wf (n : nat) (rows : list eqn) : Prop := forall r, In r rows -> length (fst r) = n.
Definition sat (rows : list eqn) (x : list Q) : Prop := forall r, In r rows -> vdot (fst r) x == snd r.

Lemma pick_pivot_some : forall rows p others, pick_pivot rows = Some (p, others) ->
  ~ hd 0 (fst p) == 0 /\ (forall r, In r rows <-> r = p \/ In r others) /\ length rows = S (length others).
Proof.
  induction rows as [|r rest IH]; intros p others H; cbn in H; [discriminate|].
  destruct (Qeq_bool (hd 0 (fst r)) 0) eqn:E.
  - destruct (pick_pivot rest) as [[p' o']|] eqn:P; [|discriminate]. inversion H; subst p' others. clear H.
    destruct (IH p o' eq_refl) as [A [B C]]. split; [exact A|]. split.
    + intro r0. cbn [In]. rewrite B. intuition.
    + cbn. now rewrite C.
  - inversion H; subst. split; [|split].
    + intro Z. apply Qeq_bool_iff in Z. congruence.
    + intro r0. cbn [In]. intuition.
    + reflexivity.
Qed.

Lemma pick_pivot_none : forall rows, pick_pivot rows = None -> forall r, In r rows -> hd 0 (fst r) == 0.
Proof.
  induction rows as [|r rest IH]; intros H r0 Hin; [destruct Hin|]. cbn in H.
  destruct (Qeq_bool (hd 0 (fst r)) 0) eqn:E; [|discriminate].
  destruct (pick_pivot rest) as [[p' o']|] eqn:P; [discriminate|].
  destruct Hin as [<-|Hin]; [now apply Qeq_bool_iff|now apply IH].
Qed.

Lemma elim_vdot f : forall a c x, length a = length c ->
  vdot (map2 (fun u v => Qred (u - f * v)) a c) x == vdot a x - f * vdot c x.
Proof.
  induction a as [|u a IH]; intros [|v c] x L; cbn in L; try lia.
  - cbn. ring.
  - destruct x as [|y x]; cbn [map2 vdot]; [ring|]. rewrite Qred_correct, IH by lia. ring.
Qed.

(* the reduced equation is the linear combination  r - (a/c) p  on the remaining unknowns *)
Lemma elim_row_spec c cs t a a' s x : length a' = length cs -> ~ c == 0 ->
  vdot (fst (elim_row (c :: cs, t) (a :: a', s))) x - snd (elim_row (c :: cs, t) (a :: a', s))
  == (vdot a' x - s) - (a / c) * (vdot cs x - t).
Proof.
  intros L Hc. unfold elim_row. cbn [fst snd hd tl]. rewrite elim_vdot by exact L.
  rewrite !Qred_correct. ring.
Qed.

Lemma elim_row_length p r n : length (fst p) = S n -> length (fst r) = S n -> length (fst (elim_row p r)) = n.
Proof.
  destruct p as [[|c cs] t], r as [[|a a'] s]; cbn; try discriminate. intros H1 H2.
  rewrite map2_length. lia.
Qed.

(* ------------------------------------------------------------------ *)
(* soundness: a returned vector solves every equation *)
Theorem solve_sound : forall n rows x, wf n rows -> length rows = n -> solve n rows = Some x ->
  length x = n /\ sat rows x.
Proof.
  induction n as [|n IH]; intros rows x W L H; cbn [solve] in H.
  - inversion H; subst. destruct rows; [|discriminate]. split; [reflexivity|]. intros r [].
  - destruct (pick_pivot rows) as [[p others]|] eqn:P; [|discriminate].
    destruct (solve n (map (elim_row p) others)) as [x'|] eqn:S'; [|discriminate].
    inversion H; subst x. clear H.
    destruct (pick_pivot_some _ _ _ P) as [Hc [Hin Hlen]].
    assert (Wp : length (fst p) = S n) by (apply W, Hin; now left).
    assert (W' : wf n (map (elim_row p) others)).
    { intros r Hr. apply in_map_iff in Hr. destruct Hr as [r0 [<- Hr0]]. apply elim_row_length; [exact Wp|].
      apply W, Hin. now right. }
    assert (L' : length (map (elim_row p) others) = n) by (rewrite map_length; lia).
    destruct (IH _ _ W' L' S') as [Lx Sx]. split; [cbn; now rewrite Lx|].
    destruct p as [[|c cs] t]; [discriminate|]. cbn [fst snd hd tl length] in *.
    assert (Ep : c * Qred ((t - vdot cs x') / c) + vdot cs x' == t).
    { rewrite Qred_correct. field. exact Hc. }
    intros r Hr. apply Hin in Hr. destruct Hr as [->|Hr]; [cbn [fst snd vdot]; exact Ep|].
    assert (Wr : length (fst r) = S n) by (apply W, Hin; now right).
    destruct r as [[|a a'] s]; [discriminate|]. cbn [fst snd vdot length] in *.
    assert (Hred := Sx (elim_row (c :: cs, t) (a :: a', s)) (in_map _ _ _ Hr)).
    assert (Hspec := elim_row_spec c cs t a a' s x' ltac:(lia) Hc).
    rewrite Hred in Hspec.
    (* Hspec : e - e == (vdot a' x' - s) - a/c * (vdot cs x' - t) *)
    assert (Z : vdot a' x' == s + (a / c) * (vdot cs x' - t)).
    { setoid_replace (vdot a' x') with ((vdot a' x' - s - a / c * (vdot cs x' - t)) + (s + a / c * (vdot cs x' - t))) by ring.
      rewrite <- Hspec. ring. }
    rewrite Z, Qred_correct. field. exact Hc.
Qed.

(* uniqueness: every solution of the equations equals the returned vector *)
Theorem solve_unique : forall n rows x y, wf n rows -> solve n rows = Some x ->
  length y = n -> sat rows y -> veq y x.
Proof.
  induction n as [|n IH]; intros rows x y W H Ly Sy; cbn [solve] in H.
  - inversion H; subst. destruct y; [constructor|discriminate].
  - destruct (pick_pivot rows) as [[p others]|] eqn:P; [|discriminate].
    destruct (solve n (map (elim_row p) others)) as [x'|] eqn:S'; [|discriminate].
    inversion H; subst x. clear H.
    destruct (pick_pivot_some _ _ _ P) as [Hc [Hin Hlen]].
    assert (Wp : length (fst p) = S n) by (apply W, Hin; now left).
    assert (W' : wf n (map (elim_row p) others)).
    { intros r Hr. apply in_map_iff in Hr. destruct Hr as [r0 [<- Hr0]]. apply elim_row_length; [exact Wp|].
      apply W, Hin. now right. }
    destruct y as [|y1 y']; [discriminate|]. cbn in Ly.
    destruct p as [[|c cs] t]; [discriminate|]. cbn [fst snd hd tl length] in *.
    assert (Sp := Sy (c :: cs, t) (proj2 (Hin _) (or_introl eq_refl))). cbn [fst snd vdot] in Sp.
    assert (Sy' : sat (map (elim_row (c :: cs, t)) others) y').
    { intros r Hr. apply in_map_iff in Hr. destruct Hr as [r0 [<- Hr0]].
      assert (Wr : length (fst r0) = S n) by (apply W, Hin; now right).
      destruct r0 as [[|a a'] s]; [discriminate|]. cbn [fst length] in Wr.
      assert (Sr := Sy (a :: a', s) (proj2 (Hin _) (or_intror Hr0))). cbn [fst snd vdot] in Sr.
      assert (Hspec := elim_row_spec c cs t a a' s y' ltac:(lia) Hc).
      assert (Z : (vdot a' y' - s) - (a / c) * (vdot cs y' - t) == 0).
      { setoid_replace (vdot a' y') with (s - a * y1) by (rewrite <- Sr; ring).
        setoid_replace (vdot cs y') with (t - c * y1) by (rewrite <- Sp; ring). field. exact Hc. }
      rewrite Z in Hspec.
      setoid_replace (vdot (fst (elim_row (c :: cs, t) (a :: a', s))) y')
        with ((vdot (fst (elim_row (c :: cs, t) (a :: a', s))) y' - snd (elim_row (c :: cs, t) (a :: a', s)))
              + snd (elim_row (c :: cs, t) (a :: a', s))) by ring.
      rewrite Hspec. ring. }
    assert (E' : veq y' x') by (apply (IH _ _ _ W' S'); [lia|exact Sy']).
    constructor; [|exact E'].
    rewrite Qred_correct, <- (vdot_proper_r cs _ _ E').
    setoid_replace (vdot cs y') with (t - c * y1) by (rewrite <- Sp; ring). field. exact Hc.
Qed.

(* completeness of the failure: None means the matrix has a non-trivial kernel, i.e. the system
   has no unique solution (numpy.linalg.solve raises LinAlgError("Singular matrix")) *)
Theorem solve_none_singular : forall n rows, wf n rows -> solve n rows = None ->
  exists v, length v = n /\ ~ Forall (fun q => q == 0) v /\ forall r, In r rows -> vdot (fst r) v == 0.
Proof.
  induction n as [|n IH]; intros rows W H; cbn [solve] in H; [discriminate|].
  destruct (pick_pivot rows) as [[p others]|] eqn:P.
  - destruct (solve n (map (elim_row p) others)) as [x'|] eqn:S'; [discriminate|].
    destruct (pick_pivot_some _ _ _ P) as [Hc [Hin Hlen]].
    assert (Wp : length (fst p) = S n) by (apply W, Hin; now left).
    assert (W' : wf n (map (elim_row p) others)).
    { intros r Hr. apply in_map_iff in Hr. destruct Hr as [r0 [<- Hr0]]. apply elim_row_length; [exact Wp|].
      apply W, Hin. now right. }
    destruct (IH _ W' S') as [v' [Lv [NZ K]]].
    destruct p as [[|c cs] t]; [discriminate|]. cbn [fst snd hd tl length] in *.
    exists ((- vdot cs v' / c) :: v'). split; [cbn; now rewrite Lv|]. split.
    + intro F. inversion F; subst. contradiction.
    + intros r Hr. apply Hin in Hr. destruct Hr as [->|Hr].
      * cbn [fst vdot]. field. exact Hc.
      * assert (Wr : length (fst r) = S n) by (apply W, Hin; now right).
        destruct r as [[|a a'] s]; [discriminate|]. cbn [fst vdot length] in *.
        assert (Kr := K _ (in_map (elim_row (c :: cs, t)) _ _ Hr)).
        unfold elim_row in Kr. cbn [fst snd hd tl] in Kr. rewrite elim_vdot in Kr by lia.
        rewrite Qred_correct in Kr.
        setoid_replace (vdot a' v') with ((vdot a' v' - a / c * vdot cs v') + a / c * vdot cs v') by ring.
        rewrite Kr. field. exact Hc.
  - exists (1 :: repeat 0 n). split; [cbn; now rewrite repeat_length|]. split.
    + intro F. inversion F as [|? ? E _]; subst. discriminate E.
    + intros r Hr. assert (Z := pick_pivot_none _ P r Hr).
      assert (Wr := W r Hr). destruct r as [[|a a'] s]; [discriminate|]. cbn [fst hd vdot length] in *.
      rewrite Z, vdot_zeros. ring.
Qed.

(* a successful solve means the kernel is trivial (the matrix is regular) *)
Lemma vdot_add_r : forall a x y, length x = length y -> vdot a (map2 Qplus x y) == vdot a x + vdot a y.
Proof.
  induction a as [|u a IH]; intros [|x0 x] [|y0 y] L; cbn in L; try lia; cbn [map2 vdot]; try ring.
  rewrite IH by lia. ring.
Qed.

Theorem solve_some_regular : forall n rows x, wf n rows -> solve n rows = Some x -> length rows = n ->
  forall v, length v = n -> (forall r, In r rows -> vdot (fst r) v == 0) -> Forall (fun q => q == 0) v.
Proof.
  intros n rows x W H L v Lv K.
  destruct (solve_sound _ _ _ W L H) as [Lx Sx].
  assert (E : veq (map2 Qplus x v) x).
  { apply (solve_unique n rows x _ W H).
    - rewrite map2_length. lia.
    - intros r Hr. rewrite vdot_add_r by lia. rewrite (Sx r Hr), (K r Hr). ring. }
  clear - E Lx Lv. revert v n Lx Lv E. induction x as [|x0 x IH]; intros [|v0 v] n Lx Lv E; cbn in *; try lia; [constructor|].
  inversion E as [|? ? ? ? E0 Er]; subst. constructor.
  - setoid_replace v0 with ((x0 + v0) - x0) by ring. rewrite E0. ring.
  - apply (IH v (length x) eq_refl); [lia|exact Er].
Qed.

(* ------------------------------------------------------------------ *)
(* find_intercepts *)

Lemma zip_repeat_map {A} (l : list A) (b : Q) : zip l (repeat b (length l)) = map (fun r => (r, b)) l.
Proof. induction l as [|x l IH]; cbn; [reflexivity|now rewrite IH]. Qed.

(* row of A against x  =  sum_j (z_j - best_j) * x_j *)
Lemma matrix_row_vdot : forall z best x,
  vdot (map2 (fun a b => Qred (a - b)) z best) x == vdot (map2 Qminus z best) x.
Proof.
  induction z as [|u z IH]; intros [|b best] x; cbn [map2 vdot]; try reflexivity.
  destruct x as [|y x]; [reflexivity|]. rewrite Qred_correct, IH. reflexivity.
Qed.

Lemma vdot_inv_inv : forall r x, vdot r (map Qinv (map (fun v => Qred (/ v)) x)) == vdot r x.
Proof.
  induction r as [|u r IH]; intros [|y x]; cbn [map vdot]; try reflexivity.
  rewrite Qred_correct, Qinv_involutive, IH. reflexivity.
Qed.

(* the guards, coordinate by coordinate *)
Lemma guard_pos_false : forall a, existsb (fun v => q_leb v icpt_min) a = false ->
  forall j, (j < length a)%nat -> icpt_min < nth j a 0.
Proof.
  induction a as [|v a IH]; intros H j Hj; cbn in Hj; [lia|]. cbn [existsb] in H. apply orb_false_iff in H.
  destruct H as [H1 H2]. destruct j as [|j]; cbn [nth].
  - apply Qnot_le_lt. intro Hle. apply q_leb_le in Hle. congruence.
  - apply IH; [exact H2|lia].
Qed.

Lemma guard_pos_true : forall a, existsb (fun v => q_leb v icpt_min) a = true ->
  exists j, (j < length a)%nat /\ nth j a 0 <= icpt_min.
Proof.
  induction a as [|v a IH]; intro H; cbn [existsb] in H; [discriminate|]. apply orb_true_iff in H.
  destruct H as [H|H].
  - exists 0%nat. split; [cbn; lia|]. now apply q_leb_le.
  - destruct (IH H) as [j [Hj Hv]]. exists (S j). split; [cbn; lia|exact Hv].
Qed.

Definition guard_worst (a best worst : list Q) : bool :=
  existsb (fun p => q_ltb (snd p) (fst p)) (zip (map2 (fun v bp => Qred (v + bp)) a best) worst).

Lemma guard_worst_false : forall a best worst, guard_worst a best worst = false ->
  forall j, (j < length a)%nat -> (j < length best)%nat -> (j < length worst)%nat ->
  nth j a 0 + nth j best 0 <= nth j worst 0.
Proof.
  unfold guard_worst. induction a as [|v a IH]; intros [|b best] [|w worst] H j Ha Hb Hw; cbn in Ha, Hb, Hw; try lia.
  cbn [map2 zip existsb fst snd] in H. apply orb_false_iff in H. destruct H as [H1 H2].
  destruct j as [|j]; cbn [nth].
  - apply Qnot_lt_le. intro Hlt. rewrite <- (Qred_correct (v + b)) in Hlt. apply q_ltb_lt in Hlt. congruence.
  - apply (IH best worst H2); lia.
Qed.

Lemma guard_worst_true : forall a best worst, guard_worst a best worst = true ->
  exists j, (j < length a)%nat /\ (j < length best)%nat /\ (j < length worst)%nat /\
            nth j worst 0 < nth j a 0 + nth j best 0.
Proof.
  unfold guard_worst. induction a as [|v a IH]; intros [|b best] [|w worst] H; cbn [map2 zip existsb fst snd] in H; try discriminate.
  apply orb_true_iff in H. destruct H as [H|H].
  - exists 0%nat. cbn. repeat split; try lia. apply q_ltb_lt in H. now rewrite Qred_correct in H.
  - destruct (IH best worst H) as [j [A [B [C D]]]]. exists (S j). cbn. repeat split; try lia. exact D.
Qed.

Lemma allclose_exact : forall a b, veq a b -> allclose a b = true.
Proof.
  unfold allclose. induction 1 as [|x y a b E H IH]; cbn [zip forallb fst snd]; [reflexivity|].
  rewrite IH, andb_true_r. apply q_leb_le.
  setoid_replace (x - y) with 0 by (rewrite E; ring). cbn [Qabs Z.abs].
  assert (P : 0 <= ac_atol + ac_rtol * Qabs y).
  { rewrite <- (Qplus_0_l 0). apply Qplus_le_compat; [discriminate|].
    apply Qmult_le_0_compat; [discriminate|apply Qabs_nonneg]. }
  exact P.
Qed.

Section Intercepts.
Variables (ext : list (list Q)) (best worst fw : list Q).
Let M := length best.
Let A := icpt_matrix ext best.
Hypothesis Hrows : length ext = M.
Hypothesis Hcols : forall z, In z ext -> length z = M.

(* x solves  (extreme_points - best_point) x = 1 *)
Definition icpt_solution (x : list Q) : Prop :=
  length x = M /\ forall z, In z ext -> vdot (map2 Qminus z best) x == 1.

Lemma A_rows : zip A (repeat 1 M) = map (fun r => (r, 1)) (map (fun z => map2 (fun a b => Qred (a - b)) z best) ext).
Proof.
  unfold A, icpt_matrix. rewrite <- Hrows, <- (map_length (fun z => map2 (fun a b => Qred (a - b)) z best) ext).
  apply zip_repeat_map.
Qed.

Lemma A_wf : wf M (zip A (repeat 1 M)).
Proof.
  rewrite A_rows. intros r Hr. apply in_map_iff in Hr. destruct Hr as [row [<- Hrow]]. cbn [fst].
  apply in_map_iff in Hrow. destruct Hrow as [z [<- Hz]]. rewrite map2_length, (Hcols z Hz). apply Nat.min_id.
Qed.

Lemma A_len : length (zip A (repeat 1 M)) = M.
Proof. unfold A, icpt_matrix. rewrite zip_length, map_length, repeat_length, Hrows. apply Nat.min_id. Qed.

Lemma A_sat x : sat (zip A (repeat 1 M)) x <-> forall z, In z ext -> vdot (map2 Qminus z best) x == 1.
Proof.
  rewrite A_rows.
  split.
  - intros S z Hz. rewrite <- matrix_row_vdot.
    apply (S (map2 (fun a b => Qred (a - b)) z best, 1)). apply in_map_iff. eexists. split; [reflexivity|]. apply in_map_iff. exists z. split; [reflexivity|exact Hz].
  - intros S r Hr. apply in_map_iff in Hr. destruct Hr as [row [<- Hrow]]. cbn [fst snd].
    apply in_map_iff in Hrow. destruct Hrow as [z [<- Hz]]. rewrite matrix_row_vdot. now apply S.
Qed.

Lemma A_kernel v : (forall r, In r (zip A (repeat 1 M)) -> vdot (fst r) v == 0) <->
                   (forall z, In z ext -> vdot (map2 Qminus z best) v == 0).
Proof.
  rewrite A_rows.
  split.
  - intros S z Hz. rewrite <- matrix_row_vdot.
    apply (S (map2 (fun a b => Qred (a - b)) z best, 1)). apply in_map_iff. eexists. split; [reflexivity|]. apply in_map_iff. exists z. split; [reflexivity|exact Hz].
  - intros S r Hr. apply in_map_iff in Hr. destruct Hr as [row [<- Hrow]]. cbn [fst snd].
    apply in_map_iff in Hrow. destruct Hrow as [z [<- Hz]]. rewrite matrix_row_vdot. now apply S.
Qed.

(* what each branch returns and when it is taken *)
Theorem find_intercepts_spec :
  match find_intercepts_b ext best worst fw with
  | (BSingular, r) =>
      r = worst /\
      exists v, length v = M /\ ~ Forall (fun q => q == 0) v /\
                forall z, In z ext -> vdot (map2 Qminus z best) v == 0
  | (BZero, r) =>
      r = fw /\
      exists x, icpt_solution x /\ (forall y, icpt_solution y -> veq y x) /\ Exists (fun q => q == 0) x
  | (BGuard, r) =>
      r = fw /\
      exists x, icpt_solution x /\ (forall y, icpt_solution y -> veq y x) /\ Forall (fun q => ~ q == 0) x /\
                exists j, (j < M)%nat /\
                  (/ nth j x 0 <= icpt_min \/ ((j < length worst)%nat /\ nth j worst 0 < / nth j x 0 + nth j best 0))
  | (BMain, a) =>
      length a = M /\
      (exists x, icpt_solution x /\ (forall y, icpt_solution y -> veq y x) /\ veq a (map Qinv x)) /\
      (forall z, In z ext -> vdot (map2 Qminus z best) (map Qinv a) == 1) /\
      (forall j, (j < M)%nat -> icpt_min < nth j a 0 /\
                 ((j < length worst)%nat -> nth j a 0 + nth j best 0 <= nth j worst 0))
  end.
Proof.
  unfold find_intercepts_b. fold M. fold A.
  destruct (solve M (zip A (repeat 1 M))) as [x|] eqn:S.
  2:{ split; [reflexivity|]. destruct (solve_none_singular _ _ A_wf S) as [v [Lv [NZ K]]].
      exists v. split; [exact Lv|]. split; [exact NZ|]. now apply A_kernel. }
  destruct (solve_sound _ _ _ A_wf A_len S) as [Lx Sx].
  assert (Sol : icpt_solution x) by (split; [exact Lx|now apply A_sat]).
  assert (Uni : forall y, icpt_solution y -> veq y x).
  { intros y [Ly Sy]. apply (solve_unique _ _ _ _ A_wf S Ly). now apply A_sat. }
  destruct (existsb (fun v => Qeq_bool v 0) x) eqn:Z.
  { split; [reflexivity|]. exists x. split; [exact Sol|]. split; [exact Uni|].
    apply existsb_exists in Z. destruct Z as [q [Hq Eq]]. apply Exists_exists. exists q. split; [exact Hq|].
    now apply Qeq_bool_iff. }
  assert (NZ : Forall (fun q => ~ q == 0) x).
  { apply Forall_forall. intros q Hq E. apply Qeq_bool_iff in E.
    assert (existsb (fun v => Qeq_bool v 0) x = true) by (apply existsb_exists; exists q; auto). congruence. }
  set (a := map (fun v => Qred (/ v)) x).
  assert (La : length a = M) by (unfold a; now rewrite map_length).
  assert (AC : allclose (map (fun row => vdot row x) A) (repeat 1 M) = true).
  { apply allclose_exact. unfold A, icpt_matrix. rewrite map_map. rewrite <- Hrows.
    clear - Sol Hrows. destruct Sol as [_ Sx]. revert Sx. generalize ext. intro l.
    induction l as [|z l IH]; intro Sx; cbn [map length repeat]; constructor.
    - rewrite matrix_row_vdot. apply Sx. now left.
    - apply IH. intros z' Hz'. apply Sx. now right. }
  rewrite AC. cbn [negb orb]. fold (guard_worst a best worst).
  assert (Hnth : forall j, (j < M)%nat -> nth j a 0 == / nth j x 0).
  { intros j Hj. unfold a. rewrite (nth_indep _ 0 ((fun v => Qred (/ v)) 0)) by (rewrite map_length; lia).
    rewrite (map_nth (fun v => Qred (/ v))). apply Qred_correct. }
  destruct (existsb (fun v => q_leb v icpt_min) a) eqn:G1.
  { split; [reflexivity|]. exists x. split; [exact Sol|]. split; [exact Uni|]. split; [exact NZ|].
    destruct (guard_pos_true _ G1) as [j [Hj Hv]]. exists j. rewrite La in Hj. split; [exact Hj|]. left.
    rewrite <- (Hnth j Hj). exact Hv. }
  destruct (guard_worst a best worst) eqn:G2.
  { split; [reflexivity|]. exists x. split; [exact Sol|]. split; [exact Uni|]. split; [exact NZ|].
    destruct (guard_worst_true _ _ _ G2) as [j [Hj [Hb [Hw Hv]]]]. exists j. rewrite La in Hj. split; [exact Hj|]. right.
    split; [exact Hw|]. rewrite <- (Hnth j Hj). exact Hv. }
  cbn [orb]. split; [exact La|]. split; [|split].
  - exists x. split; [exact Sol|]. split; [exact Uni|]. unfold a. clear. induction x as [|v x IH]; cbn [map]; constructor; [apply Qred_correct|exact IH].
  - intros z Hz. unfold a. rewrite vdot_inv_inv. apply (proj2 Sol z Hz).
  - intros j Hj. split.
    + apply guard_pos_false; [exact G1|lia].
    + intro Hw. apply guard_worst_false; try lia. exact G2.
Qed.

(* the main branch returns the axis intercepts of the hyperplane through the extreme points:
   sum_j (z_j - best_j) / a_j = 1 for every extreme point z *)
Corollary find_intercepts_main_plane :
  fst (find_intercepts_b ext best worst fw) = BMain ->
  forall z, In z ext -> vdot (map2 Qminus z best) (map Qinv (find_intercepts ext best worst fw)) == 1.
Proof.
  intro B. unfold find_intercepts. pose proof find_intercepts_spec as S.
  destruct (find_intercepts_b ext best worst fw) as [br a]. cbn [fst] in B. subst br. cbn [snd].
  destruct S as [_ [_ [P _]]]. exact P.
Qed.

(* whatever the branch, the result is the remembered worst point, the worst point of the sorted
   fronts, or a vector of intercepts that passes the guards of the code *)
Corollary find_intercepts_guards :
  let r := find_intercepts ext best worst fw in
  r = worst \/ r = fw \/
  (length r = M /\
   forall j, (j < M)%nat -> icpt_min < nth j r 0 /\ ((j < length worst)%nat -> nth j r 0 + nth j best 0 <= nth j worst 0)).
Proof.
  unfold find_intercepts. pose proof find_intercepts_spec as S.
  destruct (find_intercepts_b ext best worst fw) as [br a]. cbn [snd].
  destruct br.
  - left. apply S.
  - right. left. apply S.
  - right. left. apply S.
  - right. right. destruct S as [L [_ [_ G]]]. split; [exact L|exact G].
Qed.

(* the LinAlgError branch is taken exactly for the singular systems *)
Corollary find_intercepts_singular_iff :
  fst (find_intercepts_b ext best worst fw) = BSingular <->
  exists v, length v = M /\ ~ Forall (fun q => q == 0) v /\
            forall z, In z ext -> vdot (map2 Qminus z best) v == 0.
Proof.
  split.
  - intro B. pose proof find_intercepts_spec as S.
    destruct (find_intercepts_b ext best worst fw) as [br a]. cbn [fst] in B. subst br. apply S.
  - intros [v [Lv [NZ K]]]. unfold find_intercepts_b. fold M. fold A.
    destruct (solve M (zip A (repeat 1 M))) as [x|] eqn:S; [exfalso|reflexivity].
    apply NZ. apply (solve_some_regular _ _ _ A_wf S A_len v Lv). now apply A_kernel.
Qed.

End Intercepts.
