(* Characterising lemmas of the run-time library Model/C05_GenRt.v, in the form the equivalence
   proofs of the regenerated definitions use them: INVERSION.  A regenerated definition is a chain
   of binds; from `chain t = Some (r, t')` (the call returned normally) each lemma extracts what the
   statement read or wrote.  No length / range invariant is needed in that direction: a subscript
   that did not raise was in range.  The tactic `minv` iterates them. *)
From Coq Require Import List ZArith Bool Arith Lia Permutation.
From DV Require Import Base.PyList Base.C05_Sort Base.C05_List Model.C05_Nsga2 Model.C05_Full Model.C05_GenRt.
Import ListNotations.

Section Inv.
  Variable o : numops.
  Notation M := (M o).
  Notation cdtab := (cdtab o).

  Lemma bind_inv {A B} (m : M A) (k : A -> M B) (t : cdtab) r :
    bind m k t = Some r -> exists a t1, m t = Some (a, t1) /\ k a t1 = Some r.
  Proof. unfold bind. destruct (m t) as [[a t1]|]; [eauto|discriminate]. Qed.

  Lemma ret_inv {A} (a : A) (t : cdtab) r t' : @ret o A a t = Some (r, t') -> r = a /\ t' = t.
  Proof. unfold ret. intro H; inversion H; auto. Qed.

  Lemma raise_inv {A} (t : cdtab) (r : A * cdtab) : @raise o A t = Some r -> False.
  Proof. discriminate. Qed.

  Lemma lift_inv {A} (x : option A) (t : cdtab) r t' : lift x t = Some (r, t') -> x = Some r /\ t' = t.
  Proof. unfold lift. destruct x; intro H; inversion H; auto. Qed.

  Lemma getitem_inv {A} (l : list A) i (t : cdtab) r t' :
    getitem l i t = Some (r, t') -> nth_error l i = Some r /\ t' = t.
  Proof. apply lift_inv. Qed.

  Lemma getitem_last_inv {A} (l : list A) j (t : cdtab) r t' :
    getitem_last l j t = Some (r, t') -> 1 <= j <= length l /\ nth_error l (length l - j) = Some r /\ t' = t.
  Proof.
    unfold getitem_last. destruct ((1 <=? j) && (j <=? length l)) eqn:E; [|discriminate].
    apply andb_true_iff in E as [E1 E2]. apply Nat.leb_le in E1, E2.
    intro H; apply lift_inv in H as [H ->]. auto.
  Qed.

  Lemma getitem_z_inv {A} (l : list A) i (t : cdtab) r t' :
    getitem_z l i t = Some (r, t') -> py_get l i = Some r /\ t' = t.
  Proof. apply lift_inv. Qed.

  Lemma setitem_inv {A} (l : list A) i v (t : cdtab) r t' :
    setitem l i v t = Some (r, t') -> i < length l /\ r = set_nth l i v /\ t' = t.
  Proof.
    unfold setitem. destruct (i <? length l) eqn:E; [|discriminate].
    apply Nat.ltb_lt in E. intro H; apply ret_inv in H as [-> ->]; auto.
  Qed.

  Lemma set_cd_inv x d (t : cdtab) r t' :
    set_cd x d t = Some (r, t') -> t' = cd_upd o t (uid x) d.
  Proof. unfold set_cd. intro H; inversion H; auto. Qed.

  Lemma get_cd_inv x (t : cdtab) r t' : get_cd x t = Some (r, t') -> t (uid x) = Some r /\ t' = t.
  Proof. unfold get_cd. destruct (t (uid x)); intro H; inversion H; auto. Qed.

  (* a loop: what one pass does to the loop-carried variables (Fs) and to the attribute table (Ft) *)
  Lemma for_list_inv {X S} (Fs : S -> X -> S) (Ft : cdtab -> X -> cdtab) xs (body : X -> S -> M S) :
    (forall x s t s' t', In x xs -> body x s t = Some (s', t') -> s' = Fs s x /\ t' = Ft t x) ->
    forall s t s' t', for_list xs body s t = Some (s', t') ->
      s' = fold_left Fs xs s /\ t' = fold_left Ft xs t.
  Proof.
    induction xs as [|x r IH]; intros Hb s t s' t' H; cbn in *.
    - apply ret_inv in H as [-> ->]; auto.
    - apply bind_inv in H as (a & t1 & H1 & H2).
      apply Hb in H1 as [-> ->]; [|auto].
      apply IH in H2; auto.
  Qed.

  Lemma fold_left_const {X} (xs : list X) (t : cdtab) : fold_left (fun t _ => t) xs t = t.
  Proof. induction xs; cbn; auto. Qed.

  (* a loop that leaves the attribute table alone *)
  Lemma for_list_inv_pure {X S} (Fs : S -> X -> S) xs (body : X -> S -> M S) :
    (forall x s t s' t', In x xs -> body x s t = Some (s', t') -> s' = Fs s x /\ t' = t) ->
    forall s t s' t', for_list xs body s t = Some (s', t') -> s' = fold_left Fs xs s /\ t' = t.
  Proof.
    intros Hb s t s' t' H.
    apply (for_list_inv Fs (fun t _ => t)) in H; [|exact Hb].
    now rewrite fold_left_const in H.
  Qed.

  Lemma mapM_inv {A B} (f : A -> M B) (F : A -> B) l (t : cdtab) :
    (forall x b t1, In x l -> f x t = Some (b, t1) -> b = F x /\ t1 = t) ->
    forall r t', mapM f l t = Some (r, t') -> r = map F l /\ t' = t.
  Proof.
    induction l as [|x l IH]; intros Hf r t' H; cbn in *.
    - apply ret_inv in H as [-> ->]; auto.
    - apply bind_inv in H as (b & t1 & H1 & H2).
      apply Hf in H1 as [-> ->]; [|auto].
      apply bind_inv in H2 as (bs & t2 & H2 & H3).
      apply IH in H2 as [-> ->]; [|intros; apply Hf; auto].
      apply ret_inv in H3 as [-> ->]; auto.
  Qed.
End Inv.

(* ---- decorate / sort / undecorate is the sort by key ---- *)
Section Decorate.
  Context {A K : Type} (lt : K -> K -> bool) (key : A -> K).
  Definition dec (l : list A) : list (A * K) := combine l (map key l).

  Lemma dec_cons x l : dec (x :: l) = (x, key x) :: dec l.
  Proof. reflexivity. Qed.

  Lemma dec_fst l : map fst (dec l) = l.
  Proof. induction l; cbn; [auto|]. unfold dec in *. cbn. now f_equal. Qed.

  Lemma dec_app l1 l2 : dec (l1 ++ l2) = dec l1 ++ dec l2.
  Proof. induction l1; cbn; [auto|]. unfold dec in *. cbn. now f_equal. Qed.

  Lemma dec_rev l : rev (dec l) = dec (rev l).
  Proof.
    induction l as [|x l IH]; [reflexivity|].
    rewrite dec_cons. cbn [rev]. rewrite IH, dec_app. reflexivity.
  Qed.

  Lemma insert_dec x l : insert_st lt snd (x, key x) (dec l) = dec (insert_st lt key x l).
  Proof.
    induction l as [|y l IH]; [reflexivity|].
    rewrite dec_cons. cbn [insert_st snd].
    destruct (lt (key y) (key x)).
    - rewrite IH, dec_cons. reflexivity.
    - rewrite !dec_cons. reflexivity.
  Qed.

  Lemma sort_dec l : sort_st lt snd (dec l) = dec (sort_st lt key l).
  Proof.
    induction l as [|x l IH]; [reflexivity|].
    rewrite dec_cons. unfold sort_st in *. cbn [fold_right]. rewrite IH. apply insert_dec.
  Qed.

  Lemma sort_rev_dec l : sort_st_rev lt snd (dec l) = dec (sort_st_rev lt key l).
  Proof. unfold sort_st_rev. now rewrite dec_rev, sort_dec, dec_rev. Qed.
End Decorate.

Section InvSort.
  Variable o : numops.

  Lemma sort_keyM_inv {A K} (lt : K -> K -> bool) (key : A -> M o K) (K0 : A -> K) rev l (t : cdtab o) :
    (forall x k t1, In x l -> key x t = Some (k, t1) -> k = K0 x /\ t1 = t) ->
    forall r t', sort_keyM lt key rev l t = Some (r, t') ->
      r = (if rev then sort_st_rev lt K0 l else sort_st lt K0 l) /\ t' = t.
  Proof.
    intros Hk r t' H. unfold sort_keyM in H.
    apply bind_inv in H as (ks & t1 & H1 & H2).
    apply (mapM_inv o key K0) in H1 as [-> ->]; [|exact Hk].
    apply ret_inv in H2 as [-> ->]. split; [|reflexivity].
    fold (dec K0 l). destruct rev.
    - now rewrite sort_rev_dec, dec_fst.
    - now rewrite sort_dec, dec_fst.
  Qed.
End InvSort.

(* ---- slices ---- *)
Lemma tl_skipn {A} (l : list A) : tl l = skipn 1 l.
Proof. destruct l; reflexivity. Qed.

Lemma removelast_firstn_pred {A} (l : list A) : removelast l = firstn (pred (length l)) l.
Proof. apply removelast_firstn_len. Qed.

Lemma sl_spec {A} (l : list A) a b :
  sl l a b =
  let n := Z.of_nat (length l) in
  let s := match a with None => 0 | Some v => if v <? 0 then Z.max (v + n) 0 else Z.min v n end%Z in
  let e := match b with None => n | Some v => if v <? 0 then Z.max (v + n) 0 else Z.min v n end%Z in
  firstn (Z.to_nat (e - s)) (skipn (Z.to_nat s) l).
Proof. unfold sl, slice_adjust, zlen. destruct a, b; reflexivity. Qed.

Lemma sl_m1 {A} (l : list A) : sl l None (Some (-1)%Z) = removelast l.
Proof.
  rewrite sl_spec, removelast_firstn_pred. cbn zeta. cbn [Z.ltb Z.compare].
  cbn [Z.to_nat skipn]. f_equal. lia.
Qed.

Lemma firstn_firstn_le {A} (l : list A) n m : firstn n (firstn m l) = firstn (Nat.min n m) l.
Proof. apply firstn_firstn. Qed.

Lemma sl_m2 {A} (l : list A) : sl l None (Some (-2)%Z) = removelast (removelast l).
Proof.
  rewrite sl_spec, !removelast_firstn_pred. cbn zeta. cbn [Z.ltb Z.compare].
  cbn [Z.to_nat skipn]. rewrite firstn_length, firstn_firstn. f_equal. lia.
Qed.

Lemma sl_1_m1 {A} (l : list A) : sl l (Some 1%Z) (Some (-1)%Z) = removelast (tl l).
Proof.
  rewrite sl_spec, removelast_firstn_pred, tl_skipn. cbn zeta. cbn [Z.ltb Z.compare].
  rewrite skipn_length.
  destruct l as [|x l]; [reflexivity|].
  replace (Z.to_nat (Z.min 1 (Z.of_nat (length (x :: l))))) with 1 by (cbn [length]; lia).
  f_equal. cbn [length]. lia.
Qed.

Lemma sl_2 {A} (l : list A) : sl l (Some 2%Z) None = tl (tl l).
Proof.
  rewrite sl_spec. cbn zeta. cbn [Z.ltb Z.compare].
  destruct l as [|x [|y l]]; try reflexivity.
  replace (Z.to_nat (Z.min 2 (Z.of_nat (length (x :: y :: l))))) with 2 by (cbn [length]; lia).
  rewrite firstn_all2; [reflexivity|]. rewrite skipn_length. cbn [length]. lia.
Qed.

Lemma sl_to_pos {A} (l : list A) k : (0 <= k)%Z -> sl l None (Some k) = firstn (Z.to_nat k) l.
Proof.
  intro Hk. rewrite sl_spec. cbn zeta.
  destruct (k <? 0)%Z eqn:E; [apply Z.ltb_lt in E; lia|].
  cbn [Z.to_nat skipn]. rewrite Z.sub_0_r.
  destruct (Z.le_ge_cases k (Z.of_nat (length l))) as [L|G].
  - now rewrite Z.min_l.
  - rewrite Z.min_r by exact G. rewrite Nat2Z.id, !firstn_all2; auto; lia.
Qed.

(* ---- lists ---- *)
Lemma nth_error_last {A} (l : list A) x d : nth_error l (length l - 1) = Some x -> last l d = x.
Proof.
  intros H. destruct l as [|y l] using rev_ind; [discriminate H|].
  rewrite last_last. rewrite app_length in H. cbn in H.
  replace (length l + 1 - 1) with (length l) in H by lia.
  rewrite nth_error_app2 in H by lia. rewrite Nat.sub_diag in H. cbn in H. now inversion H.
Qed.

Lemma map_enumerate_swap {A B} (f : A -> B) (l : list A) :
  map (fun it => (f (snd it), fst it)) (enumerate l) = combine (map f l) (seq 0 (length l)).
Proof.
  unfold enumerate. generalize 0 as s.
  induction l as [|x l IH]; intro s; cbn; [reflexivity|]. now rewrite IH.
Qed.

Lemma fold_left_swap {X S T} (F : S * T -> X -> S * T) (xs : list X) s :
  fold_left (fun st x => let r := F (snd st, fst st) x in (snd r, fst r)) xs s =
  let r := fold_left F xs (snd s, fst s) in (snd r, fst r).
Proof.
  revert s. induction xs as [|x xs IH]; intros [a b]; cbn.
  - reflexivity.
  - rewrite IH. cbn. destruct (F (b, a) x); reflexivity.
Qed.

(* ---- the attribute table ---- *)
Section Table.
  Variable o : numops.
  Notation indV := (ind (V o)).

  (* writing the distances by position (individuals[i].fitness.crowding_dist = dist over enumerate(distances))
     is writing them along zip(individuals, distances) *)
  Lemma write_enum_gen (d : indV) : forall (ds : list (D o)) (pre inds : list indV) (t : cdtab o),
    length ds <= length inds ->
    fold_left (fun t p => cd_upd o t (uid (nth (fst p) (pre ++ inds) d)) (snd p))
              (combine (seq (length pre) (length ds)) ds) t =
    write_cd o t inds ds.
  Proof.
    induction ds as [|y ds IH]; intros pre inds t L.
    - destruct inds; reflexivity.
    - destruct inds as [|x inds]; [cbn in L; lia|].
      unfold write_cd. cbn [length seq combine fold_left fst snd].
      rewrite nth_middle.
      specialize (IH (pre ++ [x]) inds (cd_upd o t (uid x) y)).
      rewrite <- app_assoc in IH. cbn [app] in IH.
      rewrite app_length in IH. cbn [length] in IH. rewrite Nat.add_1_r in IH.
      apply IH. cbn in L; lia.
  Qed.

  Lemma write_enum (d : indV) (ds : list (D o)) (inds : list indV) (t : cdtab o) :
    length ds <= length inds ->
    fold_left (fun t p => cd_upd o t (uid (nth (fst p) inds d)) (snd p)) (enumerate ds) t = write_cd o t inds ds.
  Proof. intro L. apply (write_enum_gen d ds [] inds t L). Qed.
End Table.

Section TableRead.
  Variable o : numops.
  Notation indV := (ind (V o)).

  Lemma write_cd_cons (t : cdtab o) (x : indV) l d ds :
    write_cd o t (x :: l) (d :: ds) = write_cd o (cd_upd o t (uid x) d) l ds.
  Proof. reflexivity. Qed.

  Lemma write_cd_other (l : list indV) : forall ds (t : cdtab o) u,
    ~ In u (map uid l) -> write_cd o t l ds u = t u.
  Proof.
    induction l as [|x l IH]; intros ds t u Hn; [reflexivity|].
    destruct ds as [|d ds]; [reflexivity|].
    rewrite write_cd_cons, IH by (intro; apply Hn; right; assumption).
    unfold cd_upd. destruct (Nat.eqb u (uid x)) eqn:E; [|reflexivity].
    apply Nat.eqb_eq in E. exfalso. apply Hn. left. auto.
  Qed.

  (* reading back, through the identities, what was just written along zip(l, ds): needs the objects of l
     to be pairwise distinct (otherwise the later write wins for both positions) *)
  Lemma read_after_write (dz : D o) (l : list indV) : forall ds (t : cdtab o),
    NoDup (map uid l) -> length ds = length l ->
    map (fun x => match write_cd o t l ds (uid x) with Some d => d | None => dz end) l = ds.
  Proof.
    induction l as [|x l IH]; intros ds t ND L; destruct ds as [|d ds]; try discriminate L; [reflexivity|].
    inversion ND as [|? ? Hn ND']; subst.
    cbn [map]. rewrite write_cd_cons. f_equal.
    - rewrite write_cd_other by exact Hn. unfold cd_upd. now rewrite Nat.eqb_refl.
    - apply IH; [exact ND'|]. cbn in L. lia.
  Qed.

  Lemma read_after_write_nth (dz : D o) (d0 : indV) (l : list indV) : forall ds (t : cdtab o) j,
    NoDup (map uid l) -> length ds = length l -> j < length l ->
    write_cd o t l ds (uid (nth j l d0)) = Some (nth j ds dz).
  Proof.
    induction l as [|x l IH]; intros ds t j ND L Lj; [cbn in Lj; lia|].
    destruct ds as [|d ds]; [discriminate L|].
    inversion ND as [|? ? Hn ND']; subst. rewrite write_cd_cons.
    destruct j as [|j]; cbn [nth].
    - rewrite write_cd_other by exact Hn. unfold cd_upd. now rewrite Nat.eqb_refl.
    - apply IH; [exact ND'| cbn in L; lia | cbn in Lj; lia].
  Qed.

  Lemma write_fronts_snoc (t : cdtab o) init (lastf : list indV) :
    write_fronts o t (init ++ [lastf]) = write_cd o (write_fronts o t init) lastf (assign_crowding o lastf).
  Proof. unfold write_fronts. now rewrite fold_left_app. Qed.
End TableRead.

(* ---- simulation lemmas: a regenerated loop against a model loop over related states ---- *)
Section Sim.
  Variable o : numops.

  Lemma for_list_sim {X S S'} (R : S -> S' -> Prop) (F : S' -> X -> S') xs (body : X -> S -> M o S) :
    (forall x s m t s1 t1, In x xs -> R s m -> body x s t = Some (s1, t1) -> R s1 (F m x) /\ t1 = t) ->
    forall s m t s1 t1, R s m -> for_list xs body s t = Some (s1, t1) -> R s1 (fold_left F xs m) /\ t1 = t.
  Proof.
    induction xs as [|x r IH]; intros Hb s m t s1 t1 HR H; cbn in *.
    - apply ret_inv in H as [-> ->]; auto.
    - apply bind_inv in H as (a & t2 & H1 & H2).
      destruct (Hb x s m t a t2 (or_introl eq_refl) HR H1) as [HR' ->].
      eapply IH; eauto.
  Qed.

  (* the model side of a `while`: iterate step' while cond' holds, at most fuel times *)
  Fixpoint iter_fuel {S'} (fuel : nat) (cond' : S' -> bool) (step' : S' -> S') (m : S') : option S' :=
    if cond' m then
      match fuel with
      | O => None
      | Datatypes.S f => iter_fuel f cond' step' (step' m)
      end
    else Some m.

  Lemma while_sim {S S'} (R : S -> S' -> Prop) (cond : S -> bool) (cond' : S' -> bool) (step' : S' -> S')
        (body : S -> M o S) :
    (forall s m, R s m -> cond s = cond' m) ->
    (forall s m t s1 t1, R s m -> cond s = true -> body s t = Some (s1, t1) -> R s1 (step' m) /\ t1 = t) ->
    forall fuel s m t s1 t1, R s m -> while_fuel fuel cond body s t = Some (s1, t1) ->
      exists m1, iter_fuel fuel cond' step' m = Some m1 /\ R s1 m1 /\ t1 = t.
  Proof.
    intros Hc Hb. induction fuel as [|f IH]; intros s m t s1 t1 HR H; cbn in *.
    - rewrite <- (Hc s m HR). destruct (cond s); [discriminate H|].
      apply ret_inv in H as [-> ->]. eauto.
    - rewrite <- (Hc s m HR). destruct (cond s) eqn:E.
      + apply bind_inv in H as (a & t2 & H1 & H2).
        destruct (Hb s m t a t2 HR E H1) as [HR' ->]. eapply IH; eauto.
      + apply ret_inv in H as [-> ->]. eauto.
  Qed.

  Lemma setitem_last_inv {A} (l : list A) j v (t : cdtab o) r t' :
    setitem_last l j v t = Some (r, t') -> 1 <= j <= length l /\ r = set_nth l (length l - j) v /\ t' = t.
  Proof.
    unfold setitem_last. destruct ((1 <=? j) && (j <=? length l)) eqn:E; [|discriminate].
    apply andb_true_iff in E as [E1 E2]. apply Nat.leb_le in E1, E2.
    intro H; apply ret_inv in H as [-> ->]. auto.
  Qed.
End Sim.

(* fronts[-1].extend(xs) on a list of lists whose last element is `lst` *)
Lemma set_last_snoc {A} (init : list A) lst v : set_nth (init ++ [lst]) (length (init ++ [lst]) - 1) v = init ++ [v].
Proof.
  rewrite app_length. cbn [length]. replace (length init + 1 - 1) with (length init) by lia.
  induction init as [|x init IH]; cbn; [reflexivity|]. now rewrite IH.
Qed.

Lemma nth_error_snoc_last {A} (init : list A) lst x :
  nth_error (init ++ [lst]) (length (init ++ [lst]) - 1) = Some x -> x = lst.
Proof.
  rewrite app_length. cbn [length]. replace (length init + 1 - 1) with (length init) by lia.
  rewrite nth_error_app2 by lia. rewrite Nat.sub_diag. cbn. now inversion 1.
Qed.

Lemma sl_from {A} (l : list A) n : sl l (Some (Z.of_nat n)) None = skipn n l.
Proof.
  rewrite sl_spec. cbn zeta.
  destruct (Z.of_nat n <? 0)%Z eqn:E; [apply Z.ltb_lt in E; lia|].
  destruct (Nat.le_gt_cases n (length l)) as [L|G].
  - rewrite Z.min_l by lia. rewrite Nat2Z.id. apply firstn_all2. rewrite skipn_length. lia.
  - rewrite Z.min_r by lia. rewrite Nat2Z.id, Z.sub_diag. cbn [Z.to_nat firstn].
    symmetry. apply skipn_all2. lia.
Qed.

(* ---- the iterated inversion ---- *)
Ltac minv_step :=
  match goal with
  | H : bind _ _ _ = Some _ |- _ =>
      let a := fresh "a" in let t1 := fresh "t" in let H1 := fresh "H" in
      apply bind_inv in H; destruct H as (a & t1 & H1 & H); cbv beta zeta in H1, H
  | H : @ret _ _ _ _ = Some (_, _) |- _ => apply ret_inv in H; destruct H as [? ?]; subst
  | H : @raise _ _ _ = Some _ |- _ => discriminate H
  | H : getitem _ _ _ = Some (_, _) |- _ => apply getitem_inv in H; destruct H as [H ?]; subst
  | H : getitem_last _ _ _ = Some (_, _) |- _ => apply getitem_last_inv in H; destruct H as (? & H & ?); subst
  | H : getitem_z _ _ _ = Some (_, _) |- _ => apply getitem_z_inv in H; destruct H as [H ?]; subst
  | H : setitem _ _ _ _ = Some (_, _) |- _ => apply setitem_inv in H; destruct H as (H & ? & ?); subst
  | H : setitem_last _ _ _ _ = Some (_, _) |- _ => apply setitem_last_inv in H; destruct H as (H & ? & ?); subst
  | H : lift _ _ = Some (_, _) |- _ => apply lift_inv in H; destruct H as [H ?]; subst
  | H : set_cd _ _ _ = Some (_, _) |- _ => apply set_cd_inv in H; subst
  | H : get_cd _ _ = Some (_, _) |- _ => apply get_cd_inv in H; destruct H as [H ?]; subst
  | H : (if ?c then _ else _) _ = Some _ |- _ => let E := fresh "Ec" in destruct c eqn:E
  end.

Ltac minv := repeat minv_step.

(* two reads of the same place returned the same thing *)
Ltac same_reads :=
  repeat match goal with
         | H1 : ?x = Some ?a, H2 : ?x = Some ?b |- _ =>
             first [ constr_eq a b; clear H2
                   | rewrite H1 in H2; injection H2 as <- ]
         end.

(* the hand model reads with defaults: replace `nth i l d` by what the successful read returned *)
Ltac reads_to_nth :=
  repeat match goal with
         | H : nth_error ?l ?i = Some ?x |- context [nth ?i ?l ?d] => rewrite (nth_error_nth l i d H)
         end.

