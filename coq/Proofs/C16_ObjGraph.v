(* C16 — lemmas and proofs about Model/C16_ObjGraph.v *)
From Coq Require Import List ZArith Bool Arith Lia.
From DV Require Import Model.C16_ObjGraph.
Import ListNotations.

Lemma alias_call t a f fa fk args kw :
  tb_get (register t a f fa fk) a = Some (FPartial f fa fk) /\
  call (FPartial f fa fk) args kw = call f (fa ++ args) (kw_merge fk kw).
Proof.
  split; [|reflexivity]. unfold register. cbn. now rewrite Nat.eqb_refl.
Qed.
