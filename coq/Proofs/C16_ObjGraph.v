(* C16 — lemmas and proofs about Model/C16_ObjGraph.v *)
From Coq Require Import List ZArith Bool Arith Lia.
From DV Require Import Model.C16_ObjGraph.
Import ListNotations.

(* ------------------------------------------------------------------------------------- *)
(* Heaps                                                                                   *)
(* ------------------------------------------------------------------------------------- *)
Lemma upd_length h l o : length (upd h l o) = length h.
Proof. revert l; induction h as [|x r IH]; destruct l; cbn; auto. Qed.

Lemma nth_error_upd_eq h l o : l < length h -> nth_error (upd h l o) l = Some o.
Proof.
  revert l; induction h as [|x r IH]; destruct l; cbn; intros; try lia; auto.
  apply IH; lia.
Qed.

Lemma nth_error_upd_neq h l o x : x <> l -> nth_error (upd h l o) x = nth_error h x.
Proof.
  revert l x; induction h as [|y r IH]; destruct l, x; cbn; intros; try congruence; auto.
Qed.

Lemma nth_error_app_l {A} (a b : list A) l : l < length a -> nth_error (a ++ b) l = nth_error a l.
Proof. intro; apply nth_error_app1; auto. Qed.

Lemma nth_error_app_here {A} (a : list A) x : nth_error (a ++ [x]) (length a) = Some x.
Proof. rewrite nth_error_app2 by lia. now rewrite Nat.sub_diag. Qed.

Lemma nth_error_lt {A} (a : list A) l x : nth_error a l = Some x -> l < length a.
Proof. intro H. apply nth_error_Some. congruence. Qed.

(* h' keeps everything h has *)
Definition ext (h h' : heap) : Prop :=
  length h <= length h' /\ forall l, l < length h -> nth_error h' l = nth_error h l.

Lemma ext_refl h : ext h h.
Proof. split; auto. Qed.

Lemma ext_trans a b c : ext a b -> ext b c -> ext a c.
Proof.
  intros [L1 H1] [L2 H2]; split; [lia|]. intros l Hl. rewrite H2 by lia. now apply H1.
Qed.

Lemma ext_get h h' l o : ext h h' -> nth_error h l = Some o -> nth_error h' l = Some o.
Proof. intros [_ H] G. rewrite H; auto. eapply nth_error_lt; eauto. Qed.

Lemma lookup_In l m l' : lookup l m = Some l' -> In (l, l') m.
Proof.
  induction m as [|[a b] r IH]; cbn; [discriminate|].
  destruct (Nat.eqb a l) eqn:E.
  - intro H; inversion H; subst. apply Nat.eqb_eq in E; subst. now left.
  - intro H; right; auto.
Qed.

Lemma inv_lookup_In l' m l : inv_lookup l' m = Some l -> In (l, l') m.
Proof.
  induction m as [|[a b] r IH]; cbn; [discriminate|].
  destruct (Nat.eqb b l') eqn:E.
  - intro H; inversion H; subst. apply Nat.eqb_eq in E; subst. now left.
  - intro H; right; auto.
Qed.

Definition nonref (v : value) : Prop := match v with Ref _ => False | _ => True end.

(* ------------------------------------------------------------------------------------- *)
(* Reachability; objects whose kind satisfies stop are end points, never entered           *)
(* ------------------------------------------------------------------------------------- *)
Inductive reach (stop : kind -> bool) (h : heap) : value -> loc -> Prop :=
| reach_here l : reach stop h (Ref l) l
| reach_step l o v x : nth_error h l = Some o -> stop (o_kind o) = false ->
                       In v (children o) -> reach stop h v x -> reach stop h (Ref l) x.

(* every reference stored in the heap points into the heap *)
Definition closed (h : heap) : Prop :=
  forall l o x, nth_error h l = Some o -> In (Ref x) (children o) -> x < length h.

Lemma reach_closed stop h h' v x :
  closed h -> ext h h' -> (forall y, v = Ref y -> y < length h) ->
  reach stop h' v x -> x < length h /\ reach stop h v x.
Proof.
  intros C E Hv R. induction R as [l|l o v x G S I R IH].
  - split; [auto|constructor].
  - assert (Hl : l < length h) by auto.
    assert (G' : nth_error h l = Some o) by (destruct E as [_ E]; rewrite <- E; auto).
    destruct IH as [Hx R'].
    + intros y ->. eapply C; eauto.
    + split; auto. econstructor; eauto.
Qed.

Lemma reach_ext stop h h' v x : ext h h' -> reach stop h v x -> reach stop h' v x.
Proof.
  intros E R. induction R; [constructor|]. econstructor; eauto. eapply ext_get; eauto.
Qed.

(* ---- frame: reading does not depend on locations that are not reached ---- *)
Lemma unfold_frame stop k : forall h v l o,
  ~ reach stop h v l -> unfold stop k (upd h l o) v = unfold stop k h v.
Proof.
  induction k as [|k IH]; intros h v l o NR; destruct v as [z|b|a]; cbn; auto.
  - destruct (Nat.eq_dec a l) as [->|Ne]; [exfalso; apply NR; constructor|].
    rewrite nth_error_upd_neq by auto. reflexivity.
  - destruct (Nat.eq_dec a l) as [->|Ne]; [exfalso; apply NR; constructor|].
    rewrite nth_error_upd_neq by auto.
    destruct (nth_error h a) as [oa|] eqn:G; auto.
    destruct (stop (o_kind oa)) eqn:S; auto.
    assert (Hc : forall c, In c (children oa) -> unfold stop k (upd h l o) c = unfold stop k h c).
    { intros c Ic. apply IH. intro R. apply NR. econstructor; eauto. }
    f_equal.
    + apply Hc. now left.
    + apply map_ext_in. intros c Ic. apply Hc. right. apply in_or_app. now left.
    + apply map_ext_in. intros [n c] Ic. cbn. f_equal. apply Hc. right. apply in_or_app. right.
      change c with (snd (n, c)). now apply in_map.
Qed.

Lemma unfold_ext stop k : forall h h' v,
  closed h -> ext h h' -> (forall y, v = Ref y -> y < length h) ->
  unfold stop k h' v = unfold stop k h v.
Proof.
  induction k as [|k IH]; intros h h' v C E Hv; destruct v as [z|b|a]; cbn; auto.
  - assert (Ha : a < length h) by auto. destruct E as [_ E]. now rewrite E.
  - assert (Ha : a < length h) by auto. pose proof E as [_ E']. rewrite E' by auto.
    destruct (nth_error h a) as [oa|] eqn:G; auto.
    destruct (stop (o_kind oa)); auto.
    assert (Hc : forall c, In c (children oa) -> unfold stop k h' c = unfold stop k h c).
    { intros c Ic. apply IH; auto. intros y ->. eapply C; eauto. }
    f_equal.
    + apply Hc. now left.
    + apply map_ext_in. intros c Ic. apply Hc. right. apply in_or_app. now left.
    + apply map_ext_in. intros [n c] Ic. cbn. f_equal. apply Hc. right. apply in_or_app. right.
      change c with (snd (n, c)). now apply in_map.
Qed.

(* ------------------------------------------------------------------------------------- *)
(* The copy engine                                                                         *)
(* ------------------------------------------------------------------------------------- *)
Lemma mapS_app {A B S} (f : S -> A -> option (S * B)) : forall l s s' ys,
  mapS f s l = Some (s', ys) -> length ys = length l.
Proof.
  induction l as [|x r IH]; cbn; intros s s' ys H.
  - inversion H; auto.
  - destruct (f s x) as [[s1 y]|]; [|discriminate].
    destruct (mapS f s1 r) as [[s2 ys']|] eqn:E; [|discriminate].
    inversion H; subst. cbn. f_equal. eauto.
Qed.

Section Engine.
  Variable pl : kind -> plan.
  Variable src : heap.
  Variable dst0 : heap.
  Let n0 := length dst0.

  Definition atomic_at (l : loc) : Prop :=
    exists o, nth_error src l = Some o /\ p_atomic (pl (o_kind o)) = true.

  Inductive vmatch (M : memo) : value -> value -> Prop :=
  | vm_atom z : vmatch M (Atom z) (Atom z)
  | vm_btype b : vmatch M (BType b) (BType b)
  | vm_memo l l' : In (l, l') M -> vmatch M (Ref l) (Ref l')
  | vm_atomic l : atomic_at l -> vmatch M (Ref l) (Ref l).

  Definition omatch (M : memo) (o o' : obj) : Prop :=
    let p := pl (o_kind o) in
    o_kind o' = o_kind o /\
    (if p_cls p then vmatch M (o_cls o) (o_cls o') else o_cls o' = o_cls o) /\
    (if p_items p then Forall2 (vmatch M) (o_items o) (o_items o') else o_items o' = o_items o) /\
    map fst (o_attrs o') = map fst (sel_attrs (p_attrs p) (o_attrs o)) /\
    Forall2 (vmatch M) (map snd (sel_attrs (p_attrs p) (o_attrs o))) (map snd (o_attrs o')).

  Definition incl_memo (M M' : memo) : Prop := forall a b, In (a, b) M -> In (a, b) M'.

  Lemma vmatch_mono M M' v v' : incl_memo M M' -> vmatch M v v' -> vmatch M' v v'.
  Proof.
    intros I H; destruct H; [apply vm_atom|apply vm_btype|apply vm_memo; now apply I|now apply vm_atomic].
  Qed.

  Lemma Forall2_vmatch_mono M M' vs vs' :
    incl_memo M M' -> Forall2 (vmatch M) vs vs' -> Forall2 (vmatch M') vs vs'.
  Proof. intros I H; induction H; constructor; eauto using vmatch_mono. Qed.

  Lemma omatch_mono M M' o o' : incl_memo M M' -> omatch M o o' -> omatch M' o o'.
  Proof.
    intros I (K & C & It & N & At). repeat split; auto.
    - destruct (p_cls (pl (o_kind o))); eauto using vmatch_mono.
    - destruct (p_items (pl (o_kind o))); eauto using Forall2_vmatch_mono.
    - eauto using Forall2_vmatch_mono.
  Qed.

  (* P: targets whose object is still a placeholder (their copy is in progress) *)
  Record Inv (P : list loc) (st : state) : Prop := {
    inv_ext : ext dst0 (fst st);
    inv_memo : forall l l', In (l, l') (snd st) ->
        n0 <= l' < length (fst st) /\
        exists o, nth_error src l = Some o /\ p_atomic (pl (o_kind o)) = false /\
                  (In l' P \/ exists o', nth_error (fst st) l' = Some o' /\ omatch (snd st) o o');
    inv_cover : forall l', n0 <= l' < length (fst st) -> exists l, In (l, l') (snd st)
  }.

  (* what one call may do to the state *)
  Definition step_ok (st st' : state) : Prop :=
    (exists e, snd st' = e ++ snd st /\ forall a b, In (a, b) e -> length (fst st) <= b) /\
    length (fst st) <= length (fst st').

  Lemma step_ok_refl st : step_ok st st.
  Proof. split; [exists []; split; [reflexivity|intros ? ? []]|lia]. Qed.

  Lemma step_ok_trans a b c : step_ok a b -> step_ok b c -> step_ok a c.
  Proof.
    intros [(e1 & E1 & B1) L1] [(e2 & E2 & B2) L2]. split; [|lia].
    exists (e2 ++ e1). split; [rewrite E2, E1; now rewrite app_assoc|].
    intros x y I. apply in_app_or in I as [I|I]; [apply B2 in I; lia|apply B1 in I; lia].
  Qed.

  Lemma step_ok_incl st st' : step_ok st st' -> incl_memo (snd st) (snd st').
  Proof. intros [(e & E & _) _] a b I. rewrite E. apply in_or_app; now right. Qed.

  Definition result_ok (P : list loc) (st : state) (v : value) (st' : state) (v' : value) : Prop :=
    Inv P st' /\ vmatch (snd st') v v' /\ step_ok st st'.

  Lemma mapS_ok (f : state -> value -> option (state * value)) :
    (forall P st v st' v', f st v = Some (st', v') -> Inv P st -> result_ok P st v st' v') ->
    forall vs P st st' vs', mapS f st vs = Some (st', vs') -> Inv P st ->
      Inv P st' /\ Forall2 (vmatch (snd st')) vs vs' /\ step_ok st st'.
  Proof.
    intros Hf. induction vs as [|v r IH]; cbn; intros P st st' vs' H I.
    - inversion H; subst. split; [auto|split; [constructor|apply step_ok_refl]].
    - destruct (f st v) as [[s1 y]|] eqn:E1; [|discriminate].
      destruct (mapS f s1 r) as [[s2 ys]|] eqn:E2; [|discriminate].
      inversion H; subst.
      destruct (Hf _ _ _ _ _ E1 I) as (I1 & V1 & S1).
      destruct (IH _ _ _ _ E2 I1) as (I2 & V2 & S2).
      split; [auto|split].
      + constructor; auto. eapply vmatch_mono; [apply step_ok_incl; eauto|auto].
      + eapply step_ok_trans; eauto.
  Qed.

  Lemma combine_fst {A B} (a : list A) (b : list B) : length a = length b -> map fst (combine a b) = a.
  Proof. revert b; induction a; destruct b; cbn; intros; try lia; auto. f_equal; auto. Qed.

  Lemma combine_snd {A B} (a : list A) (b : list B) : length a = length b -> map snd (combine a b) = b.
  Proof. revert b; induction a; destruct b; cbn; intros; try lia; auto. f_equal; auto. Qed.

  Lemma result_ok_same P st v v' : Inv P st -> vmatch (snd st) v v' -> result_ok P st v st v'.
  Proof. intros I V. split; [auto|split; [auto|apply step_ok_refl]]. Qed.

  Lemma gcopy_unfold fuel st l :
    gcopy pl src (S fuel) st (Ref l) =
      match lookup l (snd st) with
      | Some l' => Some (st, Ref l')
      | None =>
        match nth_error src l with
        | None => None
        | Some o =>
          let p := pl (o_kind o) in
          if p_atomic p then Some (st, Ref l) else
          match (if p_cls p then gcopy pl src fuel st (o_cls o) else Some (st, o_cls o)) with
          | None => None
          | Some (st1, c') =>
            let lp := length (fst st1) in
            let st2 := if p_pre p
                       then (fst st1 ++ [mkobj (o_kind o) c' [] []], (l, lp) :: snd st1)
                       else st1 in
            let sel := sel_attrs (p_attrs p) (o_attrs o) in
            match mapS (gcopy pl src fuel) st2 (map snd sel) with
            | None => None
            | Some (st3, avs) =>
              match (if p_items p then mapS (gcopy pl src fuel) st3 (o_items o) else Some (st3, o_items o)) with
              | None => None
              | Some (st4, its) =>
                let o' := mkobj (o_kind o) c' its (combine (map fst sel) avs) in
                if p_pre p then Some ((upd (fst st4) lp o', snd st4), Ref lp)
                else Some ((fst st4 ++ [o'], (l, length (fst st4)) :: snd st4), Ref (length (fst st4)))
              end
            end
          end
        end
      end.
  Proof. reflexivity. Qed.

  Lemma Inv_ext_len P st : Inv P st -> n0 <= length (fst st).
  Proof. intros [[L _] _ _]. exact L. Qed.

  Theorem gcopy_ok : forall fuel P st v st' v',
    gcopy pl src fuel st v = Some (st', v') -> Inv P st -> result_ok P st v st' v'.
  Proof.
    induction fuel as [|fuel IH]; intros P st v st' v' H I.
    { destruct v; cbn in H; inversion H; subst; apply result_ok_same; auto; constructor. }
    destruct v as [z|b|l];
      try (cbn in H; inversion H; subst; apply result_ok_same; auto; constructor).
    rewrite gcopy_unfold in H.
    destruct (lookup l (snd st)) as [l'|] eqn:EL.
    { inversion H; subst. apply result_ok_same; auto. apply vm_memo. now apply lookup_In. }
    destruct (nth_error src l) as [o|] eqn:Go; [|discriminate].
    cbv zeta in H.
    destruct (p_atomic (pl (o_kind o))) eqn:Eat.
    { inversion H; subst. apply result_ok_same; auto. apply vm_atomic. exists o; auto. }
    (* the class *)
    assert (Hcls : exists st1 c', (if p_cls (pl (o_kind o)) then gcopy pl src fuel st (o_cls o) else Some (st, o_cls o)) = Some (st1, c')
                   /\ Inv P st1 /\ step_ok st st1 /\
                   (if p_cls (pl (o_kind o)) then vmatch (snd st1) (o_cls o) c' else c' = o_cls o)).
    { destruct (p_cls (pl (o_kind o))).
      - destruct (gcopy pl src fuel st (o_cls o)) as [[s1 c1]|] eqn:E; [|discriminate].
        destruct (IH _ _ _ _ _ E I) as (I1 & V1 & S1). exists s1, c1. auto.
      - exists st, (o_cls o). split; [reflexivity|split; [auto|split; [apply step_ok_refl|reflexivity]]]. }
    destruct Hcls as (st1 & c' & Ecls & I1 & S1 & Vc). rewrite Ecls in H. clear Ecls.
    set (lp := length (fst st1)) in *.
    set (sel := sel_attrs (p_attrs (pl (o_kind o))) (o_attrs o)) in *.
    destruct (p_pre (pl (o_kind o))) eqn:Epre.
    - (* memoised first *)
      set (st2 := (fst st1 ++ [mkobj (o_kind o) c' [] []], (l, lp) :: snd st1)) in *.
      assert (S12 : step_ok st1 st2).
      { split; [exists [(l, lp)]; split; [reflexivity|]|cbn; rewrite app_length; lia].
        intros a b [E|[]]; inversion E; subst; unfold lp; lia. }
      assert (I2 : Inv (lp :: P) st2).
      { pose proof (Inv_ext_len _ _ I1) as Ln.
        destruct I1 as [E1 M1 C1]. constructor; cbn [fst snd st2].
        - eapply ext_trans; [exact E1|]. split; [rewrite app_length; lia|].
          intros x Hx. now apply nth_error_app_l.
        - intros a b [Eq|In1].
          + inversion Eq; subst a b. split; [rewrite app_length; cbn; unfold lp; lia|].
            exists o. repeat split; auto. left; now left.
          + destruct (M1 _ _ In1) as (Bd & oa & Ga & Na & Hm). split; [rewrite app_length; cbn; lia|].
            exists oa. repeat split; auto. destruct Hm as [Pn|(o' & G' & Om)]; [left; now right|].
            right. exists o'. split; [rewrite nth_error_app_l; auto; lia|].
            eapply omatch_mono; [|exact Om]. intros ? ? ?; now right.
        - intros b Hb. rewrite app_length in Hb; cbn in Hb.
          destruct (Nat.eq_dec b lp) as [->|Ne]; [exists l; now left|].
          destruct (C1 b) as (a & Ia); [unfold lp in Ne; lia|]. exists a; now right. }
      destruct (mapS (gcopy pl src fuel) st2 (map snd sel)) as [[st3 avs]|] eqn:Eat3; [|discriminate].
      destruct (mapS_ok _ (fun P st v st' v' => IH P st v st' v') _ _ _ _ _ Eat3 I2) as (I3 & V3 & S23).
      assert (Hit : exists st4 its, (if p_items (pl (o_kind o)) then mapS (gcopy pl src fuel) st3 (o_items o) else Some (st3, o_items o)) = Some (st4, its)
                    /\ Inv (lp :: P) st4 /\ step_ok st3 st4 /\
                    (if p_items (pl (o_kind o)) then Forall2 (vmatch (snd st4)) (o_items o) its else its = o_items o)).
      { destruct (p_items (pl (o_kind o))).
        - destruct (mapS (gcopy pl src fuel) st3 (o_items o)) as [[s4 its]|] eqn:E; [|discriminate].
          destruct (mapS_ok _ (fun P st v st' v' => IH P st v st' v') _ _ _ _ _ E I3) as (I4 & V4 & S4).
          exists s4, its; auto.
        - exists st3, (o_items o). split; [reflexivity|split; [auto|split; [apply step_ok_refl|reflexivity]]]. }
      destruct Hit as (st4 & its & Eit & I4 & S34 & Vi). rewrite Eit in H. clear Eit.
      inversion H; subst st' v'. clear H.
      pose proof (step_ok_trans _ _ _ S23 S34) as S24.
      pose proof (step_ok_trans _ _ _ S12 S24) as S14.
      assert (Llp : lp < length (fst st4)).
      { destruct S24 as [_ L]. cbn in L. rewrite app_length in L. cbn in L. lia. }
      assert (Lav : length (map fst sel) = length avs).
      { apply mapS_app in Eat3. rewrite Eat3. now rewrite !map_length. }
      set (o' := mkobj (o_kind o) c' its (combine (map fst sel) avs)).
      assert (Om : omatch (snd st4) o o').
      { unfold omatch; cbn [o_kind o_cls o_items o_attrs o']. fold sel.
        split; [reflexivity|]. split; [|split; [|split]].
        - destruct (p_cls (pl (o_kind o))); auto.
          eapply vmatch_mono; [|exact Vc]. apply (step_ok_incl _ _ S14).
        - destruct (p_items (pl (o_kind o))); auto.
        - now apply combine_fst.
        - rewrite combine_snd by auto. eapply Forall2_vmatch_mono; [|exact V3].
          apply (step_ok_incl _ _ S34). }
      (* the only memo entry with target lp is (l, lp) *)
      assert (Uniq : forall a, In (a, lp) (snd st4) -> a = l).
      { intros a Ia. destruct S24 as [(e & Ee & Be) _]. rewrite Ee in Ia.
        apply in_app_or in Ia as [Ia|Ia].
        - apply Be in Ia. cbn in Ia. rewrite app_length in Ia; cbn in Ia. unfold lp in Ia. lia.
        - cbn in Ia. destruct Ia as [Eq|Ia]; [now inversion Eq|].
          destruct I1 as [_ M1 _]. destruct (M1 _ _ Ia) as ((_ & Hlt) & _). unfold lp in Hlt. lia. }
      split; [|split].
      + destruct I4 as [E4 M4 C4]. constructor; cbn [fst snd].
        * destruct E4 as [L4 E4]. split; [rewrite upd_length; auto|].
          intros x Hx. rewrite nth_error_upd_neq; auto.
          pose proof (Inv_ext_len _ _ I1). unfold lp. fold n0 in Hx. lia.
        * intros a b Iab. destruct (M4 _ _ Iab) as (Bd & oa & Ga & Na & Hm).
          split; [rewrite upd_length; auto|].
          exists oa. repeat split; auto.
          destruct (Nat.eq_dec b lp) as [->|Ne].
          -- right. exists o'. split; [now apply nth_error_upd_eq|].
             apply Uniq in Iab. subst a. rewrite Go in Ga. inversion Ga; subst oa. exact Om.
          -- destruct Hm as [[Eq|Pn]|(ob & Gb & Omb)]; [congruence|now left|].
             right. exists ob. split; auto. rewrite nth_error_upd_neq; auto.
        * intros b Hb. rewrite upd_length in Hb. auto.
      + constructor. apply (step_ok_incl _ _ S24). now left.
      + eapply step_ok_trans; [exact S1|]. destruct S14 as [X L]. split; [exact X|].
        cbn [fst]. rewrite upd_length. exact L.
    - (* memoised once complete *)
      destruct (mapS (gcopy pl src fuel) st1 (map snd sel)) as [[st3 avs]|] eqn:Eat3; [|discriminate].
      destruct (mapS_ok _ (fun P st v st' v' => IH P st v st' v') _ _ _ _ _ Eat3 I1) as (I3 & V3 & S13).
      assert (Hit : exists st4 its, (if p_items (pl (o_kind o)) then mapS (gcopy pl src fuel) st3 (o_items o) else Some (st3, o_items o)) = Some (st4, its)
                    /\ Inv P st4 /\ step_ok st3 st4 /\
                    (if p_items (pl (o_kind o)) then Forall2 (vmatch (snd st4)) (o_items o) its else its = o_items o)).
      { destruct (p_items (pl (o_kind o))).
        - destruct (mapS (gcopy pl src fuel) st3 (o_items o)) as [[s4 its]|] eqn:E; [|discriminate].
          destruct (mapS_ok _ (fun P st v st' v' => IH P st v st' v') _ _ _ _ _ E I3) as (I4 & V4 & S4).
          exists s4, its; auto.
        - exists st3, (o_items o). split; [reflexivity|split; [auto|split; [apply step_ok_refl|reflexivity]]]. }
      destruct Hit as (st4 & its & Eit & I4 & S34 & Vi). rewrite Eit in H. clear Eit.
      inversion H; subst st' v'. clear H.
      pose proof (step_ok_trans _ _ _ S13 S34) as S14.
      assert (Lav : length (map fst sel) = length avs).
      { apply mapS_app in Eat3. rewrite Eat3. now rewrite !map_length. }
      set (o' := mkobj (o_kind o) c' its (combine (map fst sel) avs)).
      set (ln := length (fst st4)).
      assert (Om : omatch (snd st4) o o').
      { unfold omatch; cbn [o_kind o_cls o_items o_attrs o']. fold sel.
        split; [reflexivity|]. split; [|split; [|split]].
        - destruct (p_cls (pl (o_kind o))); auto.
          eapply vmatch_mono; [|exact Vc]. apply (step_ok_incl _ _ S14).
        - destruct (p_items (pl (o_kind o))); auto.
        - now apply combine_fst.
        - rewrite combine_snd by auto. eapply Forall2_vmatch_mono; [|exact V3].
          apply (step_ok_incl _ _ S34). }
      assert (S45 : step_ok st4 (fst st4 ++ [o'], (l, ln) :: snd st4)).
      { split; [exists [(l, ln)]; split; [reflexivity|]|cbn; rewrite app_length; lia].
        intros a b [E|[]]; inversion E; subst; unfold ln; lia. }
      split; [|split].
      + pose proof (Inv_ext_len _ _ I4) as Ln.
        destruct I4 as [E4 M4 C4]. constructor; cbn [fst snd].
        * eapply ext_trans; [exact E4|]. split; [rewrite app_length; lia|].
          intros x Hx. now apply nth_error_app_l.
        * intros a b [Eq|Iab].
          -- inversion Eq; subst a b. split; [rewrite app_length; cbn; unfold ln; lia|].
             exists o. repeat split; auto. right. exists o'. split; [apply nth_error_app_here|].
             eapply omatch_mono; [|exact Om]. intros ? ? ?; now right.
          -- destruct (M4 _ _ Iab) as (Bd & oa & Ga & Na & Hm). split; [rewrite app_length; cbn; lia|].
             exists oa. repeat split; auto. destruct Hm as [Pn|(ob & Gb & Omb)]; [now left|].
             right. exists ob. split; [rewrite nth_error_app_l; auto; lia|].
             eapply omatch_mono; [|exact Omb]. intros ? ? ?; now right.
        * intros b Hb. rewrite app_length in Hb; cbn in Hb.
          destruct (Nat.eq_dec b ln) as [->|Ne]; [exists l; now left|].
          destruct (C4 b) as (a & Ia); [unfold ln in Ne; lia|]. exists a; now right.
      + constructor. now left.
      + eapply step_ok_trans; [exact S1|]. eapply step_ok_trans; [exact S14|exact S45].
  Qed.

End Engine.

(* ------------------------------------------------------------------------------------- *)
(* What a completed copy satisfies                                                         *)
(* ------------------------------------------------------------------------------------- *)
Lemma unfold_nonref stop k h h2 w : nonref w -> unfold stop k h w = unfold stop k h2 w.
Proof. destruct w; cbn; intro H; [destruct k; reflexivity|destruct k; reflexivity|destruct H]. Qed.

Lemma unfold_stop stop k h l o :
  nth_error h l = Some o -> stop (o_kind o) = true -> unfold stop k h (Ref l) = TLoc l.
Proof. intros G S. destruct k; cbn; rewrite G, S; reflexivity. Qed.

Lemma unfold_node stop k h l o :
  nth_error h l = Some o -> stop (o_kind o) = false ->
  unfold stop (S k) h (Ref l) =
    TNode (o_kind o) (unfold stop k h (o_cls o)) (map (unfold stop k h) (o_items o))
          (map (fun p => (fst p, unfold stop k h (snd p))) (o_attrs o)).
Proof. intros G S. cbn. rewrite G, S. reflexivity. Qed.

Lemma unfold_cut stop h l o :
  nth_error h l = Some o -> stop (o_kind o) = false -> unfold stop 0 h (Ref l) = TCut.
Proof. intros G S. cbn. rewrite G, S. reflexivity. Qed.

Lemma map_attrs_eq {T} (R : value -> value -> Prop) (f f' : value -> T) :
  (forall x x', R x x' -> f' x' = f x) ->
  forall A A' : list (nat * value), map fst A' = map fst A -> Forall2 R (map snd A) (map snd A') ->
  map (fun p => (fst p, f' (snd p))) A' = map (fun p => (fst p, f (snd p))) A.
Proof.
  intros Hf. induction A as [|[n a] A IH]; destruct A' as [|[n' a'] A']; cbn; intros N F; try discriminate; auto.
  inversion N; subst. inversion F; subst. f_equal; [f_equal; auto|auto].
Qed.

Lemma map_items_eq {T} (R : value -> value -> Prop) (f f' : value -> T) :
  (forall x x', R x x' -> f' x' = f x) ->
  forall A A', Forall2 R A A' -> map f' A' = map f A.
Proof. intros Hf A A' F; induction F; cbn; f_equal; auto. Qed.

Lemma filter_len {A} (f : A -> bool) (l : list A) : length (filter f l) <= length l.
Proof. induction l as [|x r IH]; cbn; [lia|]. destruct (f x); cbn; lia. Qed.

Lemma sel_attrs_names a (A A' : list (nat * value)) :
  map fst A' = map fst A -> sel_attrs a A = A -> sel_attrs a A' = A'.
Proof.
  destruct a as [| |n]; cbn; auto.
  - intros N E; subst A. destruct A'; [auto|discriminate].
  - revert A'. induction A as [|[m x] A IH]; destruct A' as [|[m' x'] A']; cbn; intros N E; try discriminate; auto.
    inversion N; subst.
    destruct (Nat.eqb m n) eqn:Em.
    + f_equal. apply IH; [assumption|]. cbn. injection E. auto.
    + exfalso. assert (L : length (filter (fun p : nat * value => fst p =? n) A) <= length A) by apply filter_len.
      rewrite E in L. cbn in L. lia.
Qed.

Section Completed.
  Variable pl : kind -> plan.
  Variable src dst0 : heap.
  Let n0 := length dst0.
  Let stop (k : kind) : bool := p_atomic (pl k).

  Definition cls_ok (c : value) : Prop := nonref c \/ exists l, c = Ref l /\ atomic_at pl src l.

  (* nothing of the source objects is dropped or shared by the plan *)
  Definition faithful : Prop :=
    forall l o, nth_error src l = Some o -> p_atomic (pl (o_kind o)) = false ->
      sel_attrs (p_attrs (pl (o_kind o))) (o_attrs o) = o_attrs o /\
      (p_items (pl (o_kind o)) = false -> Forall nonref (o_items o)) /\
      (p_cls (pl (o_kind o)) = false -> cls_ok (o_cls o)).

  (* objects returned as they are exist, unchanged, on the destination side *)
  Definition atomic_kept : Prop :=
    forall l o, nth_error src l = Some o -> p_atomic (pl (o_kind o)) = true -> nth_error dst0 l = Some o.

  Variables (fuel : nat) (v v' : value) (dst' : heap) (M : memo).
  Hypothesis Hrun : gcopy pl src fuel (dst0, []) v = Some ((dst', M), v').

  Lemma Inv_init : Inv pl src dst0 [] (dst0, []).
  Proof.
    constructor; cbn.
    - apply ext_refl.
    - intros ? ? [].
    - intros l' Hl. lia.
  Qed.

  Lemma completed :
    ext dst0 dst' /\ vmatch pl src M v v' /\
    (forall l l', In (l, l') M -> n0 <= l' < length dst' /\
        exists o o', nth_error src l = Some o /\ p_atomic (pl (o_kind o)) = false /\
                     nth_error dst' l' = Some o' /\ omatch pl src M o o') /\
    (forall l', n0 <= l' < length dst' -> exists l, In (l, l') M).
  Proof.
    destruct (gcopy_ok pl src dst0 _ _ _ _ _ _ Hrun Inv_init) as ([E Mm C] & V & _). cbn in *.
    repeat split; auto; try (apply E); try (apply (Mm _ _ H)).
    - destruct (Mm _ _ H) as (_ & o & G & Na & [[]|(o' & G' & Om)]). exists o, o'. auto.
  Qed.

  Hypothesis Hfaith : faithful.
  Hypothesis Hkept : atomic_kept.

  Lemma atomic_in_dst l o :
    nth_error src l = Some o -> p_atomic (pl (o_kind o)) = true -> nth_error dst' l = Some o.
  Proof.
    intros G A. destruct completed as (E & _). eapply ext_get; eauto.
  Qed.

  (* ---- equal content: same unfolding at every depth ---- *)
  Theorem copy_unfold_eq : forall k w w',
    vmatch pl src M w w' -> unfold stop k dst' w' = unfold stop k src w.
  Proof.
    destruct completed as (E & _ & HM & _).
    induction k as [|k IH]; intros w w' V; destruct V as [z|b|l l' I|l (oa & Ga & Aa)]; try reflexivity.
    - destruct (HM _ _ I) as (_ & o & o' & G & Na & G' & (K & _)).
      rewrite (unfold_cut stop src l o), (unfold_cut stop dst' l' o'); auto.
      unfold stop. now rewrite K.
    - rewrite (unfold_stop stop 0 src l oa), (unfold_stop stop 0 dst' l oa); auto. eapply atomic_in_dst; eauto.
    - destruct (HM _ _ I) as (_ & o & o' & G & Na & G' & (K & C & It & N & At)).
      destruct (Hfaith _ _ G Na) as (Fs & Fi & Fc).
      rewrite (unfold_node stop k src l o), (unfold_node stop k dst' l' o'); auto;
        [|unfold stop; now rewrite K].
      rewrite Fs in N, At.
      f_equal; auto.
      + destruct (p_cls (pl (o_kind o))); [now apply IH|].
        rewrite C. destruct (Fc eq_refl) as [Nr|(a & -> & (ob & Gb & Ab))].
        * now apply unfold_nonref.
        * rewrite (unfold_stop stop k src a ob), (unfold_stop stop k dst' a ob); auto. eapply atomic_in_dst; eauto.
      + destruct (p_items (pl (o_kind o))).
        * eapply map_items_eq; [|exact It]. intros; now apply IH.
        * rewrite It. apply map_ext_in. intros x Ix. apply unfold_nonref.
          specialize (Fi eq_refl). rewrite Forall_forall in Fi. auto.
      + eapply map_attrs_eq; [|exact N|exact At]. intros; now apply IH.
    - rewrite (unfold_stop stop (S k) src l oa), (unfold_stop stop (S k) dst' l oa); auto. eapply atomic_in_dst; eauto.
  Qed.

  Corollary copy_equal : forall k, unfold stop k dst' v' = unfold stop k src v.
  Proof. intro k. apply copy_unfold_eq. apply completed. Qed.

  (* ---- separation: what the copy reaches is new, or one of the objects shared on purpose ---- *)
  Definition good (w : value) : Prop :=
    match w with Ref x => n0 <= x < length dst' \/ atomic_at pl src x | _ => True end.

  Lemma vmatch_good w w' : vmatch pl src M w w' -> good w'.
  Proof.
    destruct completed as (_ & _ & HM & _).
    intros [z|b|l l' I|l A]; cbn; auto. left. apply (HM _ _ I).
  Qed.

  Lemma Forall2_good A B c : Forall2 (vmatch pl src M) A B -> In c B -> good c.
  Proof.
    intros F. induction F; intros Ic; [contradiction|].
    destruct Ic as [<-|Ic]; [eapply vmatch_good; eauto|auto].
  Qed.

  Lemma new_children_good l' o' c :
    n0 <= l' < length dst' -> nth_error dst' l' = Some o' -> In c (children o') -> good c.
  Proof.
    destruct completed as (_ & _ & HM & HC).
    intros Hl G Ic. destruct (HC _ Hl) as (l & I).
    destruct (HM _ _ I) as (_ & o & o2 & Go & Na & G2 & (K & C & It & N & At)).
    rewrite G in G2; inversion G2; subst o2. clear G2.
    destruct (Hfaith _ _ Go Na) as (Fs & Fi & Fc).
    destruct Ic as [<-|Ic].
    - destruct (p_cls (pl (o_kind o))); [eapply vmatch_good; eauto|].
      rewrite C. destruct (Fc eq_refl) as [Nr|(a & -> & A)]; [destruct (o_cls o); cbn; auto; contradiction|].
      cbn. now right.
    - apply in_app_or in Ic as [Ic|Ic].
      + destruct (p_items (pl (o_kind o))).
        * eapply Forall2_good; eauto.
        * rewrite It in Ic. specialize (Fi eq_refl). rewrite Forall_forall in Fi. apply Fi in Ic.
          destruct c; cbn; auto; contradiction.
      + eapply Forall2_good; eauto.
  Qed.

  Lemma reach_good w x : good w -> reach stop dst' w x -> n0 <= x < length dst' \/ atomic_at pl src x.
  Proof.
    intros Gd R. induction R as [l|l o c x G S Ic R IH]; [exact Gd|].
    apply IH. cbn in Gd. destruct Gd as [Hl|(oa & Ga & Aa)].
    - eapply new_children_good; eauto.
    - pose proof (atomic_in_dst _ _ Ga Aa) as G2. rewrite G in G2; inversion G2; subst oa.
      unfold stop in S. congruence.
  Qed.

  Theorem copy_reach_fresh x :
    reach stop dst' v' x -> n0 <= x < length dst' \/ atomic_at pl src x.
  Proof. apply reach_good. eapply vmatch_good. apply completed. Qed.

  (* ---- the result is again a heap the same theorems apply to (same interpreter: src = dst0) ---- *)
  Hypothesis Hsame : src = dst0.

  Lemma atomic_lt x : atomic_at pl src x -> x < n0.
  Proof. intros (o & G & _). rewrite Hsame in G. eapply nth_error_lt; eauto. Qed.

  Lemma closed_result : closed src -> closed dst'.
  Proof.
    intros C l o x G Ic. destruct completed as (E & _).
    destruct (Nat.lt_ge_cases l n0) as [Hl|Hl].
    - destruct E as [L E]. rewrite E in G by exact Hl. rewrite <- Hsame in G.
      specialize (C _ _ _ G Ic). rewrite Hsame in C. fold n0 in L, C. lia.
    - assert (Hl' : n0 <= l < length dst') by (split; [auto|eapply nth_error_lt; eauto]).
      pose proof (new_children_good _ _ _ Hl' G Ic) as Gd. cbn in Gd.
      destruct Gd as [?|A]; [lia|]. apply atomic_lt in A. lia.
  Qed.

End Completed.

(* ------------------------------------------------------------------------------------- *)
(* Termination: enough fuel for everything that reads finitely                             *)
(* ------------------------------------------------------------------------------------- *)
Lemma mapS_total {A B S} (f : S -> A -> option (S * B)) (l : list A) :
  (forall x, In x l -> forall s, exists r, f s x = Some r) -> forall s, exists r, mapS f s l = Some r.
Proof.
  induction l as [|x r IH]; cbn; intros H s; [eexists; reflexivity|].
  destruct (H x (or_introl eq_refl) s) as ([s1 y] & E). rewrite E.
  destruct (IH (fun y Iy => H y (or_intror Iy)) s1) as ([s2 ys] & E2). rewrite E2. eexists; reflexivity.
Qed.

Lemma sel_attrs_In a (A : list (nat * value)) x : In x (sel_attrs a A) -> In x A.
Proof. destruct a; cbn; auto; [contradiction|]. intro H. apply filter_In in H. tauto. Qed.

Lemma forallb_In {A} (f : A -> bool) l x : forallb f l = true -> In x l -> f x = true.
Proof. rewrite forallb_forall. auto. Qed.

Lemma gcopy_total pl src : forall k fuel st v,
  nocut (unfold (fun kd => p_atomic (pl kd)) k src v) = true -> k < fuel ->
  exists r, gcopy pl src fuel st v = Some r.
Proof.
  induction k as [|k IH]; intros fuel st v N Hk; (destruct fuel as [|fuel]; [lia|]);
    destruct v as [z|b|l]; try (eexists; reflexivity).
  - rewrite gcopy_unfold. destruct (lookup l (snd st)); [eexists; reflexivity|].
    cbn in N. destruct (nth_error src l) as [o|]; [|discriminate].
    cbv zeta. destruct (p_atomic (pl (o_kind o))); [eexists; reflexivity|discriminate].
  - rewrite gcopy_unfold. destruct (lookup l (snd st)); [eexists; reflexivity|].
    cbn in N. destruct (nth_error src l) as [o|]; [|discriminate].
    cbv zeta. destruct (p_atomic (pl (o_kind o))); [eexists; reflexivity|].
    cbn in N. apply andb_true_iff in N as [N Nat_]. apply andb_true_iff in N as [Nc Ni].
    assert (Hc : forall st0, exists r, (if p_cls (pl (o_kind o)) then gcopy pl src fuel st0 (o_cls o) else Some (st0, o_cls o)) = Some r).
    { intro st0. destruct (p_cls (pl (o_kind o))); [apply IH; auto; lia|eexists; reflexivity]. }
    destruct (Hc st) as ([st1 c'] & Ec). rewrite Ec.
    match goal with |- context [mapS ?f ?s (map snd ?sel)] =>
      assert (T : forall s0, exists r, mapS f s0 (map snd sel) = Some r) end.
    { apply mapS_total. intros x Ix s0. apply IH; [|lia]. apply in_map_iff in Ix as ([n y] & <- & Iy). apply sel_attrs_In in Iy.
      assert (Hq : In (n, unfold (fun kd => p_atomic (pl kd)) k src y)
                      (map (fun p => (fst p, unfold (fun kd => p_atomic (pl kd)) k src (snd p))) (o_attrs o))).
      { apply in_map_iff. exists (n, y). auto. }
      apply (forallb_In _ _ _ Nat_) in Hq. exact Hq. }
    match goal with |- context [mapS ?f ?s (map snd ?sel)] => destruct (T s) as ([st3 avs] & E3) end.
    rewrite E3.
    assert (Hi : exists r, (if p_items (pl (o_kind o)) then mapS (gcopy pl src fuel) st3 (o_items o) else Some (st3, o_items o)) = Some r).
    { destruct (p_items (pl (o_kind o))); [|eexists; reflexivity]. apply mapS_total.
      intros x Ix s0. apply IH; [|lia]. apply (forallb_In _ _ _ Ni). now apply in_map. }
    destruct Hi as ([st4 its] & E4). rewrite E4.
    destruct (p_pre (pl (o_kind o))); eexists; reflexivity.
Qed.

(* ------------------------------------------------------------------------------------- *)
(* The hypotheses carry over to the heap after the copy                                    *)
(* ------------------------------------------------------------------------------------- *)
Lemma atomic_at_ext pl h h' x : ext h h' -> atomic_at pl h x -> atomic_at pl h' x.
Proof. intros E (o & G & A). exists o. split; auto. eapply ext_get; eauto. Qed.

Lemma faithful_result pl h fuel v v' h' M :
  gcopy pl h fuel (h, []) v = Some ((h', M), v') -> faithful pl h -> faithful pl h'.
Proof.
  intros Hrun F l' o' G' Na'.
  destruct (completed pl h h _ _ _ _ _ Hrun) as (E & _ & HM & HC).
  assert (Hcls : forall c, cls_ok pl h c -> cls_ok pl h' c).
  { intros c [Nr|(a & -> & A)]; [now left|right]. exists a. split; auto. eapply atomic_at_ext; eauto. }
  destruct (Nat.lt_ge_cases l' (length h)) as [Hl|Hl].
  - destruct E as [_ E]. rewrite E in G' by exact Hl.
    destruct (F _ _ G' Na') as (Fs & Fi & Fc). repeat split; auto.
  - assert (Hl' : length h <= l' < length h') by (split; [auto|eapply nth_error_lt; eauto]).
    destruct (HC _ Hl') as (l & I).
    destruct (HM _ _ I) as (_ & o & o2 & Go & Na & G2 & (K & C & It & N & At)).
    rewrite G' in G2; inversion G2; subst o2. clear G2.
    destruct (F _ _ Go Na) as (Fs & Fi & Fc). rewrite K.
    repeat split.
    + eapply sel_attrs_names; [|exact Fs]. now rewrite N, Fs.
    + intro Pi. rewrite Pi in It. rewrite It. auto.
    + intro Pc. rewrite Pc in C. rewrite C. auto.
Qed.

(* ------------------------------------------------------------------------------------- *)
(* Changing the stop predicate for a pointwise equal one                                   *)
(* ------------------------------------------------------------------------------------- *)
Lemma unfold_stop_ext s1 s2 : (forall k, s1 k = s2 k) -> forall k h v, unfold s1 k h v = unfold s2 k h v.
Proof.
  intros Hs. induction k as [|k IH]; intros h v; destruct v as [z|b|l]; cbn; auto;
    destruct (nth_error h l) as [o|]; auto; rewrite Hs; destruct (s2 (o_kind o)); auto.
  f_equal; auto.
  - apply map_ext. auto.
  - apply map_ext. intros [n a]; cbn. f_equal. auto.
Qed.

Lemma reach_stop_ext s1 s2 h v x : (forall k, s1 k = s2 k) -> reach s1 h v x -> reach s2 h v x.
Proof.
  intros Hs R. induction R; [constructor|]. econstructor; eauto; try (now rewrite <- Hs).
Qed.

(* ------------------------------------------------------------------------------------- *)
(* toolbox.clone = copy.deepcopy                                                           *)
(* ------------------------------------------------------------------------------------- *)
Definition class_at (h : heap) (x : loc) : Prop := exists o, nth_error h x = Some o /\ o_kind o = KClass.

Lemma deep_atomic k : p_atomic (deep_plan k) = is_class k.
Proof. destruct k; reflexivity. Qed.

Lemma atomic_class h x : atomic_at deep_plan h x <-> class_at h x.
Proof.
  split; intros (o & G & A); exists o; split; auto.
  - rewrite deep_atomic in A. destruct (o_kind o); cbn in A; congruence.
  - now rewrite deep_atomic, A.
Qed.

(* well-formed for cloning: references stay inside the heap; a fitness holds numbers only and nothing
   but its values (and constraint_violation); the class of every object is a class *)
Definition deep_ok (h : heap) : Prop := closed h /\ faithful deep_plan h.

Definition inside (h : heap) (v : value) : Prop := forall y, v = Ref y -> y < length h.

Lemma deepcopy_run h v h' v' :
  deepcopy h v = Some (h', v') -> exists M, gcopy deep_plan h (fuel_for h) (h, []) v = Some ((h', M), v').
Proof.
  unfold deepcopy. destruct (gcopy deep_plan h (fuel_for h) (h, []) v) as [[[h2 M] v2]|]; [|discriminate].
  intro H; inversion H; subst. eauto.
Qed.

Lemma kept_same pl h : atomic_kept pl h h.
Proof. intros l o G _. exact G. Qed.

Theorem deepcopy_spec h v h' v' :
  deep_ok h -> inside h v -> deepcopy h v = Some (h', v') ->
  ext h h' /\ deep_ok h' /\ inside h' v' /\
  (forall k, unfold is_class k h' v' = unfold is_class k h v) /\
  (forall x, reach is_class h' v' x -> length h <= x < length h' \/ class_at h x) /\
  (forall x, reach is_class h' v x -> x < length h /\ reach is_class h v x).
Proof.
  intros [C F] Hv D. destruct (deepcopy_run _ _ _ _ D) as (M & Hrun).
  pose proof (completed _ _ _ _ _ _ _ _ Hrun) as (E & V & HM & HC).
  split; [exact E|]. split; [|split; [|split; [|split]]].
  - split; [eapply closed_result; eauto using kept_same|eapply faithful_result; eauto].
  - intros y ->. inversion V as [| |a b I|a A]; subst.
    + apply (HM _ _ I).
    + destruct E as [L _]. assert (y < length h) by (apply Hv; auto). lia.
  - intro k. rewrite <- (unfold_stop_ext _ _ deep_atomic k h' v'), <- (unfold_stop_ext _ _ deep_atomic k h v).
    eapply copy_equal; eauto using kept_same.
  - intros x R. apply (reach_stop_ext _ (fun k => p_atomic (deep_plan k))) in R; [|intro; now rewrite deep_atomic].
    destruct (copy_reach_fresh _ _ _ _ _ _ _ _ Hrun F (kept_same _ _) _ R) as [?|A]; [now left|right].
    now apply atomic_class.
  - intros x R. eapply reach_closed; eauto.
Qed.

Lemma class_at_ext h h' x : ext h h' -> class_at h x -> class_at h' x.
Proof. intros E (o & G & K). exists o; split; auto. eapply ext_get; eauto. Qed.

Lemma inside_ext h h' v : ext h h' -> inside h v -> inside h' v.
Proof. intros [L _] I y E. specialize (I y E). lia. Qed.

(* ---- frame: a write through one of the two leaves what the other reads unchanged ---- *)
Theorem clone_frame h v h' v' :
  deep_ok h -> inside h v -> deepcopy h v = Some (h', v') ->
  forall x o k,
    (reach is_class h' v' x -> ~ class_at h x ->
       unfold is_class k (upd h' x o) v = unfold is_class k h v) /\
    (reach is_class h' v x -> ~ class_at h x ->
       unfold is_class k (upd h' x o) v' = unfold is_class k h' v').
Proof.
  intros Ok Hv D x o k. destruct (deepcopy_spec _ _ _ _ Ok Hv D) as (E & Ok' & Hv' & Eq & Fr & Old).
  split; intros R Nc.
  - destruct (Fr _ R) as [Hx|]; [|contradiction].
    rewrite unfold_frame.
    + apply unfold_ext; auto. apply Ok.
    + intro R2. apply Old in R2. lia.
  - apply unfold_frame. intro R2. destruct (Fr _ R2) as [Hx|]; [|contradiction].
    apply Old in R. lia.
Qed.

Lemma mutate_upd h x m : mutate h x m = h \/ exists o, mutate h x m = upd h x o.
Proof. unfold mutate. destruct (nth_error h x); eauto. Qed.

Corollary clone_frame_mutate h v h' v' :
  deep_ok h -> inside h v -> deepcopy h v = Some (h', v') ->
  forall x m k,
    (reach is_class h' v' x -> ~ class_at h x ->
       unfold is_class k (mutate h' x m) v = unfold is_class k h v) /\
    (reach is_class h' v x -> ~ class_at h x ->
       unfold is_class k (mutate h' x m) v' = unfold is_class k h v).
Proof.
  intros Ok Hv D x m k. destruct (deepcopy_spec _ _ _ _ Ok Hv D) as (E & Ok' & Hv' & Eq & Fr & Old).
  destruct (mutate_upd h' x m) as [->|(o & ->)].
  - split; intros _ _; [apply unfold_ext; auto; apply Ok|apply Eq].
  - destruct (clone_frame _ _ _ _ Ok Hv D x o k) as [A B]. split; intros R Nc; [auto|].
    rewrite B; auto.
Qed.

(* ---- clone-of-clone chains ---- *)
Record family (h : heap) (vs : list value) (T : nat -> tree) : Prop := {
  fam_ok : deep_ok h;
  fam_eq : forall v, In v vs -> inside h v /\ forall k, unfold is_class k h v = T k;
  fam_sep : forall i j a b x, i <> j -> nth_error vs i = Some a -> nth_error vs j = Some b ->
              reach is_class h a x -> reach is_class h b x -> class_at h x
}.

Lemma family_single h v : deep_ok h -> inside h v -> family h [v] (fun k => unfold is_class k h v).
Proof.
  intros Ok Hv. constructor; auto.
  - intros w [<-|[]]. auto.
  - intros [|[|i]] [|[|j]] a b x Ne A B; cbn in *; try congruence; try discriminate.
Qed.

Lemma family_step h vs T i v h' v' :
  family h vs T -> nth_error vs i = Some v -> deepcopy h v = Some (h', v') -> family h' (vs ++ [v']) T.
Proof.
  intros [Ok Eq Sep] Gi D.
  destruct (Eq v (nth_error_In _ _ Gi)) as [Hv Ev].
  destruct (deepcopy_spec _ _ _ _ Ok Hv D) as (E & Ok' & Hv' & Eq' & Fr & Old).
  assert (OldR : forall a x, In a vs -> reach is_class h' a x -> x < length h /\ reach is_class h a x).
  { intros a x Ia R. eapply reach_closed; eauto; [apply Ok|apply Eq; auto]. }
  constructor; auto.
  - intros w Iw. apply in_app_or in Iw as [Iw|[<-|[]]].
    + destruct (Eq w Iw) as [Hw Ew]. split; [eapply inside_ext; eauto|].
      intro k. rewrite <- Ew. apply unfold_ext; auto. apply Ok.
    + split; auto. intro k. now rewrite Eq', Ev.
  - intros a b c d x Ne Ga Gb Ra Rb.
    assert (La : a < length vs -> nth_error vs a = Some c) by (intro L; now rewrite nth_error_app1 in Ga).
    assert (Lb : b < length vs -> nth_error vs b = Some d) by (intro L; now rewrite nth_error_app1 in Gb).
    assert (Na : length vs <= a -> c = v').
    { intro L. rewrite nth_error_app2 in Ga by auto. destruct (a - length vs) as [|[|n]]; cbn in Ga; congruence. }
    assert (Nb : length vs <= b -> d = v').
    { intro L. rewrite nth_error_app2 in Gb by auto. destruct (b - length vs) as [|[|n]]; cbn in Gb; congruence. }
    assert (Ba : a < length (vs ++ [v'])) by (apply nth_error_Some; congruence).
    assert (Bb : b < length (vs ++ [v'])) by (apply nth_error_Some; congruence).
    rewrite app_length in Ba, Bb; cbn in Ba, Bb.
    destruct (Nat.lt_ge_cases a (length vs)) as [Ha|Ha]; destruct (Nat.lt_ge_cases b (length vs)) as [Hb|Hb].
    + specialize (La Ha). specialize (Lb Hb).
      destruct (OldR _ _ (nth_error_In _ _ La) Ra) as [_ Ra'].
      destruct (OldR _ _ (nth_error_In _ _ Lb) Rb) as [_ Rb'].
      eapply class_at_ext; eauto.
    + specialize (La Ha). rewrite (Nb Hb) in Rb.
      destruct (OldR _ _ (nth_error_In _ _ La) Ra) as [Lx _].
      destruct (Fr _ Rb) as [?|C]; [lia|eapply class_at_ext; eauto].
    + specialize (Lb Hb). rewrite (Na Ha) in Ra.
      destruct (OldR _ _ (nth_error_In _ _ Lb) Rb) as [Lx _].
      destruct (Fr _ Ra) as [?|C]; [lia|eapply class_at_ext; eauto].
    + lia.
Qed.

Theorem clone_chain_family : forall picks h vs T h' vs',
  family h vs T -> clone_chain h vs picks = Some (h', vs') -> family h' vs' T.
Proof.
  induction picks as [|i r IH]; cbn; intros h vs T h' vs' F H.
  - inversion H; subst; auto.
  - destruct (nth_error vs i) as [v|] eqn:Gi; [|discriminate].
    destruct (deepcopy h v) as [[h1 v1]|] eqn:D; [|discriminate].
    eapply IH; [|exact H]. eapply family_step; eauto.
Qed.

(* termination of cloning for objects that read finitely *)
Theorem deepcopy_total h v d :
  nocut (unfold is_class d h v) = true -> d <= length h -> exists r, deepcopy h v = Some r.
Proof.
  intros N L. unfold deepcopy.
  destruct (gcopy_total deep_plan h d (fuel_for h) (h, []) v) as ([[h' M] v'] & E).
  - rewrite (unfold_stop_ext _ _ deep_atomic). exact N.
  - unfold fuel_for. lia.
  - rewrite E. eauto.
Qed.

Fixpoint picks_ok (n : nat) (picks : list nat) : Prop :=
  match picks with [] => True | i :: r => i < n /\ picks_ok (S n) r end.

Theorem clone_chain_total : forall picks h vs T d,
  family h vs T -> nocut (T d) = true -> d <= length h -> picks_ok (length vs) picks ->
  exists r, clone_chain h vs picks = Some r.
Proof.
  induction picks as [|i r IH]; cbn; intros h vs T d F N L P; [eauto|].
  destruct P as [Hi P]. destruct (nth_error vs i) as [v|] eqn:Gi; [|apply nth_error_None in Gi; lia].
  destruct (fam_eq _ _ _ F v (nth_error_In _ _ Gi)) as [Hv Ev].
  destruct (deepcopy_total h v d) as ([h1 v1] & D); [now rewrite Ev|auto|]. rewrite D.
  eapply IH; [eapply family_step; eauto|exact N| |].
  - destruct (deepcopy_spec _ _ _ _ (fam_ok _ _ _ F) Hv D) as ([L' _] & _). lia.
  - rewrite app_length; cbn. now rewrite Nat.add_1_r.
Qed.

(* ------------------------------------------------------------------------------------- *)
(* pickle round trip                                                                       *)
(* ------------------------------------------------------------------------------------- *)
Lemma pickle_atomic k : p_atomic (pickle_plan k) = no_stop k.
Proof. destruct k; reflexivity. Qed.

Lemma pickle_no_atomic h x : ~ atomic_at pickle_plan h x.
Proof. intros (o & _ & A). rewrite pickle_atomic in A. discriminate. Qed.

Lemma pickle_faithful h : faithful pickle_plan h.
Proof.
  intros l o G _. destruct (o_kind o); cbn; repeat split; auto; discriminate.
Qed.

Lemma pickle_kept h d : atomic_kept pickle_plan h d.
Proof. intros l o _ A. rewrite pickle_atomic in A. discriminate. Qed.

Theorem pickle_roundtrip_spec h v h' v' :
  closed h -> inside h v -> pickle_roundtrip h v = Some (h', v') ->
  ext h h' /\ closed h' /\ inside h' v' /\
  (forall k, unfold no_stop k h' v' = unfold no_stop k h v) /\
  (forall x, reach no_stop h' v' x -> length h <= x < length h') /\
  (forall x, reach no_stop h' v x -> x < length h /\ reach no_stop h v x).
Proof.
  intros C Hv D. unfold pickle_roundtrip in D.
  destruct (gcopy pickle_plan h (fuel_for h) (h, []) v) as [[[h2 M] v2]|] eqn:Hrun; [|discriminate].
  inversion D; subst h2 v2. clear D.
  pose proof (completed _ _ _ _ _ _ _ _ Hrun) as (E & V & HM & HC).
  split; [exact E|]. split; [|split; [|split; [|split]]].
  - eapply closed_result; eauto using pickle_faithful, pickle_kept.
  - intros y ->. inversion V as [| |a b I|a A]; subst.
    + apply (HM _ _ I).
    + now apply pickle_no_atomic in A.
  - intro k. rewrite <- (unfold_stop_ext _ _ pickle_atomic k h' v'), <- (unfold_stop_ext _ _ pickle_atomic k h v).
    eapply copy_equal; eauto using pickle_faithful, pickle_kept.
  - intros x R. apply (reach_stop_ext _ (fun k => p_atomic (pickle_plan k))) in R; [|intro; now rewrite pickle_atomic].
    destruct (copy_reach_fresh _ _ _ _ _ _ _ _ Hrun (pickle_faithful h) (pickle_kept _ _) _ R) as [?|A]; [auto|].
    now apply pickle_no_atomic in A.
  - intros x R. eapply reach_closed; eauto.
Qed.

Theorem pickle_fresh_spec h v h' v' :
  pickle_fresh h v = Some (h', v') ->
  closed h' /\ inside h' v' /\ (forall k, unfold no_stop k h' v' = unfold no_stop k h v).
Proof.
  intros D. unfold pickle_fresh in D.
  destruct (gcopy pickle_plan h (fuel_for h) ([], []) v) as [[[h2 M] v2]|] eqn:Hrun; [|discriminate].
  inversion D; subst h2 v2. clear D.
  pose proof (completed _ _ _ _ _ _ _ _ Hrun) as (E & V & HM & HC).
  split; [|split].
  - intros l o x G Ic.
    assert (Hl : length (@nil obj) <= l < length h') by (split; [cbn; lia|eapply nth_error_lt; eauto]).
    pose proof (new_children_good _ _ _ _ _ _ _ _ Hrun (pickle_faithful h) _ _ _ Hl G Ic) as Gd.
    cbn in Gd. destruct Gd as [?|A]; [lia|now apply pickle_no_atomic in A].
  - intros y ->. inversion V as [| |a b I|a A]; subst.
    + apply (HM _ _ I).
    + now apply pickle_no_atomic in A.
  - intro k. rewrite <- (unfold_stop_ext _ _ pickle_atomic k h' v'), <- (unfold_stop_ext _ _ pickle_atomic k h v).
    eapply copy_equal; eauto using pickle_faithful, pickle_kept.
Qed.

Theorem pickle_total h v d :
  nocut (unfold no_stop d h v) = true -> d <= length h ->
  (exists r, pickle_roundtrip h v = Some r) /\ (exists r, pickle_fresh h v = Some r).
Proof.
  intros N L. unfold pickle_roundtrip, pickle_fresh. split.
  - destruct (gcopy_total pickle_plan h d (fuel_for h) (h, []) v) as ([[h' M] v'] & E).
    + rewrite (unfold_stop_ext _ _ pickle_atomic). exact N.
    + unfold fuel_for. lia.
    + rewrite E. eauto.
  - destruct (gcopy_total pickle_plan h d (fuel_for h) ([], []) v) as ([[h' M] v'] & E).
    + rewrite (unfold_stop_ext _ _ pickle_atomic). exact N.
    + unfold fuel_for. lia.
    + rewrite E. eauto.
Qed.

(* ------------------------------------------------------------------------------------- *)
(* Instance creation                                                                       *)
(* ------------------------------------------------------------------------------------- *)
Lemma set_attr_In attrs n v m w : In (m, w) (set_attr attrs n v) -> (m, w) = (n, v) \/ In (m, w) attrs.
Proof.
  induction attrs as [|[a b] r IH]; cbn [set_attr].
  - intros [E|[]]; auto.
  - destruct (Nat.eqb a n).
    + intros [E|I]; [auto|right; now right].
    + destruct (Nat.ltb n a).
      * intros [E|I]; auto.
      * intros [E|I]; [right; now left|]. apply IH in I as [|]; [auto|right; now right].
Qed.

Lemma ext_upd h h2 x o : ext h h2 -> length h <= x -> ext h (upd h2 x o).
Proof.
  intros [L E] Hx. split; [now rewrite upd_length|]. intros l Hl. rewrite nth_error_upd_neq by lia. auto.
Qed.

Lemma ext_app h a : ext h (h ++ a).
Proof. split; [rewrite app_length; lia|]. intros; now apply nth_error_app_l. Qed.

Lemma kind_of_code_not_class z : kind_of_code z <> KClass.
Proof. unfold kind_of_code. destruct z as [|p|p]; try discriminate. do 4 (destruct p; try discriminate). Qed.

Lemma class_base_not_class co : class_base co <> KClass.
Proof. unfold class_base. destruct (o_items co) as [|[z|b|l] r]; try discriminate; apply kind_of_code_not_class. Qed.

Definition newval (lo hi : nat) (v : value) : Prop := nonref v \/ exists y, v = Ref y /\ lo < y < hi.

(* objects allocated after location n refer to objects allocated after n, or to classes *)
Definition subs_ok (n : nat) (h' : heap) : Prop :=
  forall l o y, n < l -> nth_error h' l = Some o -> In (Ref y) (children o) -> n < y < length h' \/ class_at h' y.

Lemma fold_left_none {A B} (f : option A -> B -> option A) (l : list B) :
  (forall b, f None b = None) -> fold_left f l None = None.
Proof. intro H; induction l; cbn; auto. now rewrite H. Qed.

Theorem new_inst_spec : forall fuel h c items h' r,
  new_inst fuel h c items = Some (h', r) ->
  ext h h' /\
  ((nonref r /\ h' = h) \/
   (r = Ref (length h) /\ exists o, nth_error h' (length h) = Some o /\
      o_cls o = c /\ (o_items o = items \/ o_items o = []) /\
      (nonref c \/ exists cl, c = Ref cl /\ class_at h cl) /\
      forall n v, In (n, v) (o_attrs o) -> newval (length h) (length h') v)) /\
  subs_ok (length h) h'.
Proof.
  induction fuel as [|f IH]; intros h c items h' r H; [discriminate|].
  cbn [new_inst] in H. destruct c as [z|b|cl]; [discriminate| |].
  - (* builtin type *)
    unfold btype_new in H.
    assert (Hnone : forall l, length h < l -> forall a : obj, nth_error (h ++ [a]) l = None).
    { intros l Hl a. apply nth_error_None. rewrite app_length; cbn; lia. }
    destruct b as [|[|[|[|b]]]]; inversion H; subst; clear H;
      try (split; [apply ext_refl|split; [left; split; [exact I|reflexivity]|]]; intros l o y Hl G; apply nth_error_lt in G; lia);
      (split; [apply ext_app|split; [right; split; [reflexivity|]|intros l o y Hl G; now rewrite Hnone in G]]);
      eexists; (split; [apply nth_error_app_here|]); cbn; repeat split; auto; intros ? ? [].
  - destruct (nth_error h cl) as [co|] eqn:Gco; [|discriminate].
    destruct (o_kind co) eqn:Kco; try discriminate.
    set (n := length h) in *.
    set (k := class_base co) in *.
    set (self0 := mkobj k (Ref cl) items []) in *.
    set (step := fun (acc : option (heap * list (nat * value))) (e : nat * value) =>
            match acc with
            | None => None
            | Some (hh, at_) =>
              if is_type hh (snd e) then
                match new_inst f hh (snd e) [] with
                | None => None
                | Some (hh', r) => Some (hh', set_attr at_ (fst e) r)
                end
              else Some (hh, at_)
            end) in *.
    pose (J := fun (hh : heap) (at_ : list (nat * value)) =>
                 ext (h ++ [self0]) hh /\ subs_ok n hh /\ forall m w, In (m, w) at_ -> newval n (length hh) w).
    assert (Hfold : forall dct hh at_ hh2 at2, J hh at_ -> fold_left step dct (Some (hh, at_)) = Some (hh2, at2) -> J hh2 at2).
    { induction dct as [|e dct IHd]; intros hh at_ hh2 at2 Jh Hf; cbn in Hf.
      - inversion Hf; subst; auto.
      - destruct (is_type hh (snd e)) eqn:Ty; [|eapply IHd; eauto].
        destruct (new_inst f hh (snd e) []) as [[hh' r']|] eqn:En;
          [|rewrite fold_left_none in Hf; [discriminate|reflexivity]].
        eapply IHd; [|exact Hf].
        destruct (IH _ _ _ _ _ En) as (E' & Hr & Sub').
        destruct Jh as (E0 & Sub0 & At0).
        assert (Ln : n < length hh).
        { destruct E0 as [L _]. rewrite app_length in L; cbn in L. unfold n. lia. }
        split; [eapply ext_trans; eauto|split].
        + intros l o y Hl G Ic.
          destruct (Nat.lt_trichotomy l (length hh)) as [Hlt|[->|Hgt]].
          * destruct E' as [L' E']. rewrite E' in G by auto.
            destruct (Sub0 _ _ _ Hl G Ic) as [?|C]; [left; lia|right; eapply class_at_ext; eauto; split; auto].
          * destruct Hr as [[Nr ->]|(-> & o2 & G2 & Hc & Hi & Hcl & Hat)].
            { apply nth_error_lt in G. lia. }
            rewrite G in G2; inversion G2; subst o2. clear G2.
            destruct Ic as [Ic|Ic].
            -- rewrite Hc in Ic. destruct Hcl as [Nr|(cl2 & Ecl & Ccl)]; [rewrite Ic in Nr; contradiction|].
               rewrite Ecl in Ic. inversion Ic; subst. right. eapply class_at_ext; eauto.
            -- apply in_app_or in Ic as [Ic|Ic].
               ++ destruct Hi as [Hi|Hi]; rewrite Hi in Ic; contradiction.
               ++ apply in_map_iff in Ic as ([m w] & Ew & Iw). cbn in Ew; subst w.
                  destruct (Hat _ _ Iw) as [Nr|(y2 & Ey & By)]; [contradiction|]. inversion Ey; subst. left. lia.
          * destruct (Sub' _ _ _ Hgt G Ic) as [?|C]; [left; lia|now right].
        + intros m w Iw. apply set_attr_In in Iw as [Eq|Iw].
          * inversion Eq; subst. destruct Hr as [[Nr _]|(-> & o2 & G2 & _)]; [now left|].
            right. eexists; split; [reflexivity|]. apply nth_error_lt in G2. lia.
          * destruct (At0 _ _ Iw) as [Nr|(y & -> & By)]; [now left|right].
            eexists; split; [reflexivity|]. destruct E' as [L' _]. lia. }
    destruct (fold_left step (o_attrs co) (Some (h ++ [self0], []))) as [[h2 at_]|] eqn:Ef; [|discriminate].
    inversion H; subst h' r. clear H.
    assert (J0 : J (h ++ [self0]) []).
    { split; [apply ext_refl|split; [|intros ? ? []]].
      intros l o y Hl G. apply nth_error_lt in G. rewrite app_length in G; cbn in G. unfold n in Hl. lia. }
    destruct (Hfold _ _ _ _ _ J0 Ef) as (E2 & Sub2 & At2).
    assert (Ln : n < length h2).
    { destruct E2 as [L _]. rewrite app_length in L; cbn in L. unfold n. lia. }
    assert (Eh : ext h h2) by (eapply ext_trans; [apply ext_app|exact E2]).
    assert (Self2 : nth_error h2 n = Some self0).
    { destruct E2 as [_ E2]. rewrite E2; [apply nth_error_app_here|rewrite app_length; cbn; unfold n; lia]. }
    split; [apply ext_upd; auto|split].
    + right. split; [reflexivity|]. eexists. split; [apply nth_error_upd_eq; auto|].
      cbn [o_cls o_items o_attrs]. split; [reflexivity|split; [now left|split]].
      * right. exists cl. split; auto. exists co. auto.
      * intros m w. rewrite upd_length. generalize k. intros k0 Iw.
        destruct k0; try (eapply At2; eassumption).
        apply set_attr_In in Iw as [Eq|Iw]; [inversion Eq; subst; now left|eapply At2; eassumption].
    + intros l o y Hl G Ic. rewrite nth_error_upd_neq in G by lia. rewrite upd_length.
      destruct (Sub2 _ _ _ Hl G Ic) as [?|(oc & Gc & Kc)]; [now left|right].
      destruct (Nat.eq_dec y n) as [->|Ne].
      * rewrite Self2 in Gc. inversion Gc; subst oc. cbn in Kc. now apply class_base_not_class in Kc.
      * exists oc. split; auto. rewrite nth_error_upd_neq; auto.
Qed.

Lemma reach_subs n h' : subs_ok n h' -> forall v x, reach is_class h' v x ->
  (forall y, v = Ref y -> n < y < length h' \/ class_at h' y) -> n < x < length h' \/ class_at h' x.
Proof.
  intros Sub v x R. induction R as [l|l o c x G S Ic R IH]; intros Hv; [auto|].
  apply IH. intros y ->.
  destruct (Hv l eq_refl) as [Hl|(oc & Gc & Kc)].
  - apply (Sub l o y); [apply Hl|exact G|exact Ic].
  - rewrite G in Gc; inversion Gc; subst oc. rewrite Kc in S. discriminate.
Qed.

(* every per-instance attribute of a new instance reaches only objects allocated for it, and classes *)
Theorem fresh_attrs fuel h c items h' s o :
  new_inst fuel h c items = Some (h', Ref s) -> nth_error h' s = Some o ->
  s = length h /\ ext h h' /\
  forall n v x, In (n, v) (o_attrs o) -> reach is_class h' v x -> length h < x < length h' \/ class_at h' x.
Proof.
  intros H G. destruct (new_inst_spec _ _ _ _ _ _ H) as (E & [[[] _]|(Er & o2 & G2 & _ & _ & _ & Hat)] & Sub).
  inversion Er; subst s. rewrite G in G2; inversion G2; subst o2.
  split; [reflexivity|split; [exact E|]].
  intros n v x Iv R. eapply reach_subs; eauto.
  intros y ->. destruct (Hat _ _ Iv) as [[]|(y2 & Ey & By)]. inversion Ey; subst. now left.
Qed.

(* so nothing an older object can reach (classes apart) is reachable from them *)
Corollary fresh_attrs_two fuel h c items h' s o older :
  closed h -> inside h older ->
  new_inst fuel h c items = Some (h', Ref s) -> nth_error h' s = Some o ->
  forall n v x, In (n, v) (o_attrs o) -> reach is_class h' v x -> reach is_class h' older x -> class_at h' x.
Proof.
  intros C Ho H G n v x Iv R Ro.
  destruct (fresh_attrs _ _ _ _ _ _ _ H G) as (_ & E & Fr).
  destruct (Fr _ _ _ Iv R) as [Hx|]; [|auto].
  destruct (reach_closed _ _ _ _ _ C E Ho Ro) as [Lx _]. lia.
Qed.

(* ------------------------------------------------------------------------------------- *)
(* Toolbox                                                                                 *)
(* ------------------------------------------------------------------------------------- *)
Lemma tb_get_del_same t a : tb_get (tb_del t a) a = None.
Proof.
  induction t as [|[b f] r IH]; cbn; auto.
  destruct (Nat.eqb b a) eqn:E; cbn; auto.
  rewrite Nat.eqb_sym, E. auto.
Qed.

Lemma tb_get_del_other t a b : a <> b -> tb_get (tb_del t a) b = tb_get t b.
Proof.
  intro Ne. induction t as [|[c f] r IH]; cbn; auto.
  destruct (Nat.eqb c a) eqn:E; cbn.
  - apply Nat.eqb_eq in E; subst c. destruct (Nat.eqb b a) eqn:E2; [apply Nat.eqb_eq in E2; congruence|auto].
  - destruct (Nat.eqb b c); auto.
Qed.

Lemma alias_call t a f fa fk args kw :
  tb_get (register t a f fa fk) a = Some (FPartial f fa fk) /\
  call (FPartial f fa fk) args kw = call f (fa ++ args) (kw_merge fk kw).
Proof.
  split; [|reflexivity]. unfold register. cbn. now rewrite Nat.eqb_refl.
Qed.

Lemma register_other t a b f fa fk : a <> b -> tb_get (register t a f fa fk) b = tb_get t b.
Proof.
  intro Ne. unfold register. cbn. destruct (Nat.eqb b a) eqn:E; [apply Nat.eqb_eq in E; congruence|].
  now apply tb_get_del_other.
Qed.

Lemma decorate_keeps t a f fa fk ds t' :
  tb_get t a = Some (FPartial f fa fk) -> decorate t a ds = Some t' ->
  tb_get t' a = Some (FPartial (fold_left (fun g d => FDec d g) ds f) fa fk) /\
  (forall b, b <> a -> tb_get t' b = tb_get t b) /\
  forall args kw, call (FPartial (fold_left (fun g d => FDec d g) ds f) fa fk) args kw =
                  call (fold_left (fun g d => FDec d g) ds f) (fa ++ args) (kw_merge fk kw).
Proof.
  intros G D. unfold decorate in D. rewrite G in D. inversion D; subst t'.
  split; [apply alias_call; exact nil|split; [|reflexivity]].
  intros b Ne. apply register_other. congruence.
Qed.

Lemma unregister_spec t a t' :
  unregister t a = Some t' -> tb_get t' a = None /\ forall b, b <> a -> tb_get t' b = tb_get t b.
Proof.
  unfold unregister. destruct (tb_get t a); [|discriminate]. intro H; inversion H; subst.
  split; [apply tb_get_del_same|]. intros b Ne. apply tb_get_del_other. congruence.
Qed.

Lemma fold_dec_last ds d f : fold_left (fun g d => FDec d g) (ds ++ [d]) f = FDec d (fold_left (fun g d => FDec d g) ds f).
Proof. now rewrite fold_left_app. Qed.

Lemma picklable_alias ok f fa fk ds :
  picklable ok (FPartial (fold_left (fun g d => FDec d g) ds f) fa fk) =
  match ds with [] => picklable ok f | _ => false end.
Proof.
  destruct ds as [|d ds] using rev_ind; [reflexivity|].
  rewrite fold_dec_last. cbn. destruct (ds ++ [d]) eqn:E; [destruct ds; discriminate|reflexivity].
Qed.

(* ------------------------------------------------------------------------------------- *)
(* The decidable checks imply the hypotheses of the theorems                               *)
(* ------------------------------------------------------------------------------------- *)
Lemma filter_all {A} (f : A -> bool) l : forallb f l = true -> filter f l = l.
Proof.
  induction l as [|x r IH]; cbn; auto. intro H. apply andb_true_iff in H as [Hx Hr]. rewrite Hx. f_equal; auto.
Qed.

Lemma nonrefb_sound v : nonrefb v = true -> nonref v.
Proof. destruct v; cbn; auto; discriminate. Qed.

Lemma closedb_sound h : closedb h = true -> closed h.
Proof.
  unfold closedb. rewrite forallb_forall. intros H l o x G Ic.
  specialize (H o (nth_error_In _ _ G)). rewrite forallb_forall in H. specialize (H _ Ic). cbn in H.
  now apply Nat.ltb_lt.
Qed.

Lemma cls_okb_sound h c : cls_okb h c = true -> cls_ok deep_plan h c.
Proof.
  destruct c as [z|b|l]; cbn; [now left|now left|].
  destruct (nth_error h l) as [o|] eqn:G; [|discriminate]. intro K. right. exists l. split; auto.
  exists o. split; auto. now rewrite deep_atomic.
Qed.

Lemma deep_okb_sound h : deep_okb h = true -> deep_ok h.
Proof.
  unfold deep_okb. intro H. apply andb_true_iff in H as [Hc Hf]. split; [now apply closedb_sound|].
  rewrite forallb_forall in Hf. intros l o G Na. specialize (Hf o (nth_error_In _ _ G)).
  unfold obj_deep_okb in Hf. rewrite deep_atomic in Na.
  destruct (o_kind o) eqn:K; cbn in Na; try discriminate; cbn [deep_plan p_attrs p_items p_cls sel_attrs];
    try (split; [reflexivity|split; [discriminate|intros _; now apply cls_okb_sound]]).
  - apply andb_true_iff in Hf as [Hf Hcl]. apply andb_true_iff in Hf as [Ha Hi].
    split; [destruct (o_attrs o); [reflexivity|discriminate]|split; intros _; [|now apply cls_okb_sound]].
    apply Forall_forall. intros x Ix. apply nonrefb_sound. rewrite forallb_forall in Hi. auto.
  - apply andb_true_iff in Hf as [Hf Hcl]. apply andb_true_iff in Hf as [Ha Hi].
    split; [now apply filter_all|split; intros _; [|now apply cls_okb_sound]].
    apply Forall_forall. intros x Ix. apply nonrefb_sound. rewrite forallb_forall in Hi. auto.
Qed.

Lemma insideb_sound h v : insideb h v = true -> inside h v.
Proof. intros H y ->. cbn in H. now apply Nat.ltb_lt. Qed.

Theorem pickle_frame_mutate h v h' v' :
  closed h -> inside h v -> pickle_roundtrip h v = Some (h', v') ->
  forall x m k,
    (reach no_stop h' v' x -> unfold no_stop k (mutate h' x m) v = unfold no_stop k h v) /\
    (reach no_stop h' v x -> unfold no_stop k (mutate h' x m) v' = unfold no_stop k h v).
Proof.
  intros C Hv D x m k. destruct (pickle_roundtrip_spec _ _ _ _ C Hv D) as (E & C' & Hv' & Eq & Fr & Old).
  destruct (mutate_upd h' x m) as [->|(o & ->)].
  - split; intros _; [apply unfold_ext; auto|apply Eq].
  - split; intros R.
    + rewrite unfold_frame; [apply unfold_ext; auto|]. intro R2. apply Old in R2. apply Fr in R. lia.
    + rewrite unfold_frame; [apply Eq|]. intro R2. apply Fr in R2. apply Old in R. lia.
Qed.
