(* C20: every definition REGENERATED from the working tree (coq/Gen/C20_bench_gen.v, written by
   harness/c20_py2coq.py on every run) equals the hand-transcribed published formula of
   Model/C20_BenchSpec.v, over the reals (binary functions: over Z), for every input of the stated
   shape.  A semantic change of deap/benchmarks/*.py breaks one of these lemmas.
   (If the translator refuses a function, the generated file defines it as an alias of its
   specification and the corresponding lemma holds by reflexivity; the refusal is reported.) *)
From Coq Require Import Reals ZArith List Bool Lia Lra.
From DV Require Import Base.PyList Base.C20_Num Model.C20_BenchSpec Proofs.C20_Lists Proofs.C20_Reals
  Proofs.C20_Shapes Gen.C20_bench_gen.
Import ListNotations.

Section RealPart.
Local Open Scope R_scope.

(* ---- automation, written to survive harmless rewrites of the source (renamed locals, x*x vs x**2,
   commuted operands, a loop instead of sum(...)): normalise the Python run-time forms, then prove the
   equality by congruence, descending through lists, sums over the same list, and function applications,
   closing the leaves by reflexivity / ring / field ---- *)
Lemma fold_left_ext {A B} (f g : A -> B -> A) l a : (forall a x, f a x = g a x) -> fold_left f l a = fold_left g l a.
Proof. intro H. revert a; induction l as [|x l IH]; intro a; cbn; [reflexivity|]. rewrite H. apply IH. Qed.

Lemma map_id' (l : list R) : map (fun xi : R => xi) l = l. Proof. apply map_id. Qed.

(* accumulator loops `v += e` *)
Lemma fold_add_pair {A B} (F : A -> B -> R) (l : list (A * B)) acc :
  fold_left (fun (v : R) '(a, b) => v + F a b) l acc = acc + Rsum (map (fun '(a, b) => F a b) l).
Proof.
  rewrite (fold_left_ext _ (fun v q => v + (fun '(a, b) => F a b) q)) by (intros v [a b]; reflexivity).
  apply fold_left_add_sum.
Qed.

Ltac lists_norm :=
  repeat first [ rewrite slice_tl | rewrite slice_init | rewrite zip_removelast_tl
               | rewrite zget_0 | rewrite zget_1 | rewrite zget_2
               | rewrite mult_IZR | rewrite plus_IZR | rewrite minus_IZR
               | rewrite IZR_zlen | rewrite IZR_of_nat
               | rewrite enumerate_indexed | rewrite map_id'
               | rewrite fold_add_pair | rewrite fold_left_add_sum
               | rewrite reduce_mul | rewrite reduce_mul_fun
               | rewrite Rplus_0_l | rewrite Rmult_1_l ].
Ltac start := norm_dec; numR; cbv zeta; lists_norm.
Ltac destruct_pairs := repeat match goal with p : (_ * _)%type |- _ => destruct p end; cbn [fst snd] in *.

Ltac deepR :=
  first [ reflexivity | ring | solve [field]
        | lazymatch goal with
          | |- Rsum (map _ ?l) = Rsum (map _ ?l) => apply Rsum_map_ext; intros; destruct_pairs; deepR
          | |- ?f ?a ?b = ?f ?c ?d => apply (f_equal2 f); deepR
          | |- ?f ?a = ?f ?b => apply (f_equal f); deepR
          end ].
Ltac deepL :=
  first [ reflexivity
        | lazymatch goal with
          | |- _ :: _ = _ :: _ => apply (f_equal2 (@cons R)); [deepR | deepL]
          | |- map _ ?l = map _ ?l => apply map_ext; intros; destruct_pairs; deepR
          end ].
Ltac deep := lazymatch goal with |- @eq R _ _ => deepR | |- _ => deepL end.
(* the standard proof: unfold both sides (done by the caller), normalise, congruence *)
Ltac gen_eq := start; deep.

Lemma ge_plane (x : list R) : bm_plane x = spec_bm_plane x.
Proof. unfold bm_plane, spec_bm_plane. gen_eq. Qed.
Lemma ge_sphere (x : list R) : bm_sphere x = spec_bm_sphere x.
Proof. unfold bm_sphere, spec_bm_sphere. gen_eq. Qed.
Lemma ge_cigar (x : list R) : bm_cigar x = spec_bm_cigar x.
Proof. unfold bm_cigar, spec_bm_cigar. gen_eq. Qed.
Lemma ge_rosenbrock (x : list R) : bm_rosenbrock x = spec_bm_rosenbrock x.
Proof. unfold bm_rosenbrock, spec_bm_rosenbrock, consec. gen_eq. Qed.
Lemma ge_h1 (x : list R) : bm_h1 x = spec_bm_h1 x.
Proof.
  unfold bm_h1, spec_bm_h1. start.
  rewrite ?Rpow_total_sqrt by (apply Rplus_le_le_0_compat; apply pow2_ge_0). deep.
Qed.
Lemma ge_ackley (x : list R) : bm_ackley x = spec_bm_ackley x.
Proof. unfold bm_ackley, spec_bm_ackley. gen_eq. Qed.
Lemma ge_bohachevsky (x : list R) : bm_bohachevsky x = spec_bm_bohachevsky x.
Proof. unfold bm_bohachevsky, spec_bm_bohachevsky, consec. gen_eq. Qed.
Lemma ge_rastrigin (x : list R) : bm_rastrigin x = spec_bm_rastrigin x.
Proof. unfold bm_rastrigin, spec_bm_rastrigin. gen_eq. Qed.
Lemma ge_rastrigin_skew (x : list R) : bm_rastrigin_skew x = spec_bm_rastrigin_skew x.
Proof. unfold bm_rastrigin_skew, spec_bm_rastrigin_skew. gen_eq. Qed.
Lemma ge_schaffer (x : list R) : bm_schaffer x = spec_bm_schaffer x.
Proof. unfold bm_schaffer, spec_bm_schaffer, consec. gen_eq. Qed.
Lemma ge_schwefel (x : list R) : bm_schwefel x = spec_bm_schwefel x.
Proof. unfold bm_schwefel, spec_bm_schwefel. gen_eq. Qed.
Lemma ge_himmelblau (x : list R) : bm_himmelblau x = spec_bm_himmelblau x.
Proof. unfold bm_himmelblau, spec_bm_himmelblau. gen_eq. Qed.

Lemma ge_griewank (x : list R) : bm_griewank x = spec_bm_griewank x.
Proof.
  unfold bm_griewank, spec_bm_griewank, indexed. start.
  assert (E : forall l : list (nat * R),
            Rprod (map (fun '(v_i, v_x) => cos (v_x / sqrt (IZR v_i + 1))) (map (fun p => (Z.of_nat (fst p), snd p)) l))
            = fold_right Rmult 1 (map (fun p => cos (snd p / sqrt (IZR (Z.of_nat (S (fst p)))))) l)).
  { intro l. unfold Rprod. f_equal. rewrite map_map. apply map_ext. intros [i xi]. cbn [fst snd].
    rewrite Nat2Z.inj_succ, succ_IZR. reflexivity. }
  first [ rewrite E; deep
        | (* fallback when the source was restructured: plain congruence *) deep ].
Qed.

Lemma ge_rastrigin_scaled (x : list R) : bm_rastrigin_scaled x = spec_bm_rastrigin_scaled x.
Proof.
  unfold bm_rastrigin_scaled, spec_bm_rastrigin_scaled, indexed. start. rewrite ?map_map. cbn [fst snd]. deep.
Qed.

Lemma ge_shekel (x : list R) a c : bm_shekel x a c = spec_bm_shekel x a c.
Proof.
  unfold bm_shekel, spec_bm_shekel, indexed. start. unfold zlen. rewrite py_range_seq, map_map.
  apply (f_equal2 (@cons R)); [|reflexivity]. apply Rsum_map_ext. intros i _. rewrite !zget_nat.
  rewrite enumerate_indexed, map_map. cbn [fst snd].
  apply f_equal. apply f_equal. apply Rsum_map_ext. intros [j aij] _. cbn [fst snd]. rewrite zget_nat. reflexivity.
Qed.

Lemma ge_kursawe (x : list R) : bm_kursawe x = spec_bm_kursawe x.
Proof. unfold bm_kursawe, spec_bm_kursawe, consec. gen_eq. Qed.
Lemma ge_schaffer_mo (x : list R) : bm_schaffer_mo x = spec_bm_schaffer_mo x.
Proof. unfold bm_schaffer_mo, spec_bm_schaffer_mo. gen_eq. Qed.
Lemma ge_zdt1 (x : list R) : bm_zdt1 x = spec_bm_zdt1 x.
Proof. unfold bm_zdt1, spec_bm_zdt1, zdt_g, zdt1_h. gen_eq. Qed.
Lemma ge_zdt2 (x : list R) : bm_zdt2 x = spec_bm_zdt2 x.
Proof. unfold bm_zdt2, spec_bm_zdt2, zdt_g, zdt2_h. gen_eq. Qed.
Lemma ge_zdt3 (x : list R) : bm_zdt3 x = spec_bm_zdt3 x.
Proof. unfold bm_zdt3, spec_bm_zdt3, zdt_g, zdt3_h. gen_eq. Qed.
Lemma ge_zdt4 (x : list R) : bm_zdt4 x = spec_bm_zdt4 x.
Proof. unfold bm_zdt4, spec_bm_zdt4, zdt4_g, zdt1_h. gen_eq. Qed.
Lemma ge_zdt6 (x : list R) : bm_zdt6 x = spec_bm_zdt6 x.
Proof. unfold bm_zdt6, spec_bm_zdt6, zdt6_g, zdt6_f1, zdt2_h. gen_eq. Qed.
Lemma ge_fonseca (x : list R) : bm_fonseca x = spec_bm_fonseca x.
Proof. unfold bm_fonseca, spec_bm_fonseca. start. rewrite ?slice_to by lia. deep. Qed.
Lemma ge_poloni (x : list R) : bm_poloni x = spec_bm_poloni x.
Proof. unfold bm_poloni, spec_bm_poloni, poloni_B1, poloni_B2. gen_eq. Qed.
Lemma ge_dent (x : list R) l : bm_dent x l = spec_bm_dent x l.
Proof. unfold bm_dent, spec_bm_dent. gen_eq. Qed.

Lemma ge_kotanchek (d : list R) : gp_kotanchek d = spec_gp_kotanchek d.
Proof. unfold gp_kotanchek, spec_gp_kotanchek. gen_eq. Qed.
Lemma ge_salustowicz_1d (d : list R) : gp_salustowicz_1d d = spec_gp_salustowicz_1d d.
Proof. unfold gp_salustowicz_1d, spec_gp_salustowicz_1d, salustowicz. gen_eq. Qed.
Lemma ge_salustowicz_2d (d : list R) : gp_salustowicz_2d d = spec_gp_salustowicz_2d d.
Proof. unfold gp_salustowicz_2d, spec_gp_salustowicz_2d, salustowicz. gen_eq. Qed.
Lemma ge_unwrapped_ball (d : list R) : gp_unwrapped_ball d = spec_gp_unwrapped_ball d.
Proof. unfold gp_unwrapped_ball, spec_gp_unwrapped_ball. gen_eq. Qed.
Lemma ge_rational_polynomial (d : list R) : gp_rational_polynomial d = spec_gp_rational_polynomial d.
Proof. unfold gp_rational_polynomial, spec_gp_rational_polynomial. gen_eq. Qed.
Lemma ge_sin_cos (d : list R) : gp_sin_cos d = spec_gp_sin_cos d.
Proof. unfold gp_sin_cos, spec_gp_sin_cos. gen_eq. Qed.
Lemma ge_ripple (d : list R) : gp_ripple d = spec_gp_ripple d.
Proof. unfold gp_ripple, spec_gp_ripple. gen_eq. Qed.
Lemma ge_rational_polynomial2 (d : list R) : gp_rational_polynomial2 d = spec_gp_rational_polynomial2 d.
Proof. unfold gp_rational_polynomial2, spec_gp_rational_polynomial2. gen_eq. Qed.

Lemma ge_mp_cone (x p : list R) h w : mp_cone x p h w = spec_mp_cone x p h w.
Proof. unfold mp_cone, spec_mp_cone, dist2. gen_eq. Qed.
Lemma ge_mp_sphere (x p : list R) h w : mp_sphere x p h w = spec_mp_sphere x p h w.
Proof. unfold mp_sphere, spec_mp_sphere, dist2. gen_eq. Qed.
Lemma ge_mp_function1 (x p : list R) h w : mp_function1 x p h w = spec_mp_function1 x p h w.
Proof. unfold mp_function1, spec_mp_function1, dist2. gen_eq. Qed.

Lemma ge_mp_call fs ps hs ws basis (x : list R) : mp_call fs ps hs ws basis x = spec_mp_call fs ps hs ws basis x.
Proof.
  unfold mp_call, spec_mp_call, peak_values. cbv zeta.
  first
    [ (* the loop form: possible_values.append(...) in a for statement *)
      rewrite (fold_left_ext _ (fun a q => a ++ (fun q => [fst q x (fst (snd q)) (fst (snd (snd q))) (snd (snd (snd q)))]) q))
        by (intros a [f [p [h w]]]; reflexivity);
      rewrite fold_left_app_acc2, flat_map_single; cbn [app];
      destruct basis; [reflexivity | rewrite app_nil_r; reflexivity]
    | (* a comprehension over the same zip *)
      rewrite (map_ext _ (fun q => fst q x (fst (snd q)) (fst (snd (snd q))) (snd (snd (snd q)))))
        by (intros [f [p [h w]]]; reflexivity);
      destruct basis; [reflexivity | rewrite ?app_nil_r; reflexivity]
    | reflexivity ].
Qed.

Lemma ge_mp_cp_count minp maxp (sev : R) n u1 u2 : mp_cp_count minp maxp sev n u1 u2 = spec_mp_cp_count minp maxp sev n u1 u2.
Proof.
  unfold mp_cp_count, spec_mp_cp_count. norm_dec. cbv zeta. rewrite ?zlen_py_range.
  numR. destruct (Rltb u1 (1 / 2)); reflexivity.
Qed.

Lemma ge_translate_arg (t x : list R) : tl_translate_arg t x = spec_translate_arg t x.
Proof. unfold tl_translate_arg, spec_translate_arg. gen_eq. Qed.
Lemma ge_scale_factor (s : list R) : tl_scale_factor s = spec_scale_factor s.
Proof. unfold tl_scale_factor, spec_scale_factor. gen_eq. Qed.
Lemma ge_scale_arg (f x : list R) : tl_scale_arg f x = spec_scale_arg f x.
Proof. unfold tl_scale_arg, spec_scale_arg. gen_eq. Qed.
Lemma ge_rotate_arg m (x : list R) : tl_rotate_arg m x = spec_rotate_arg m x.
Proof. reflexivity. Qed.
Lemma ge_noise_arg fs (x : list R) : tl_noise_arg fs x = spec_noise_arg fs x.
Proof. reflexivity. Qed.
Lemma ge_noise_post fs (x r : list R) : tl_noise_post fs x r = spec_noise_post fs x r.
Proof.
  unfold tl_noise_post, spec_noise_post. cbv zeta.
  first
    [ rewrite (fold_left_ext _ (fun a q => a ++ (fun q => [match snd q with None => fst q | Some d => nadd (fst q) d end]) q))
        by (intros a [u [w|]]; reflexivity);
      rewrite fold_left_app_acc2, flat_map_single; reflexivity
    | reflexivity ].
Qed.

(* ---- the DTLZ family: structural proofs (the run-time forms are kept until the shape lemmas apply) ---- *)
Ltac lists_norm0 :=
  repeat first [ rewrite slice_tl | rewrite slice_init | rewrite zip_removelast_tl
               | rewrite zget_0 | rewrite zget_1 | rewrite zget_2 | rewrite IZR_zlen | rewrite IZR_of_nat
               | rewrite enumerate_indexed ].
Ltac start0 := norm_dec; numR; lists_norm0.

Lemma nth_firstn_lt {A} (l : list A) d m k : (m < k)%nat -> nth m (firstn k l) d = nth m l d.
Proof.
  revert l k; induction m as [|m IH]; intros [|x l] [|k] H; cbn; try reflexivity; try lia.
  apply IH. lia.
Qed.

Lemma firstn_firstn_le {A} (l : list A) m k : (m <= k)%nat -> firstn m (firstn k l) = firstn m l.
Proof. intro. rewrite firstn_firstn. f_equal. lia. Qed.

Lemma ge_dtlz1 (x : list R) obj : (1 <= obj)%Z -> (obj - 1 <= zlen x)%Z -> bm_dtlz1 x obj = spec_bm_dtlz1 x obj.
Proof.
  intros H1 H2. unfold bm_dtlz1, spec_bm_dtlz1, dtlz_g13, dtlz_xc, dtlz_xm. start0. cbv zeta.
  rewrite !slice_from, !slice_to by lia. try rewrite IZR_zlen.
  set (k := Z.to_nat (obj - 1)).
  set (g := 100 * (_ + _)).
  rewrite simplex_shape. cbn [app]. f_equal.
  - rewrite reduce_mul. ring.
  - assert (Hk : length (firstn k x) = k) by (apply firstn_length_le; unfold zlen in H2; lia).
    rewrite Hk. rewrite py_range_to_nat. fold k. rewrite <- map_rev, map_map.
    apply map_ext_in. intros m Hm. apply in_rev, in_seq in Hm.
    rewrite slice_to by lia. rewrite Nat2Z.id, zget_nat, reduce_mul.
    rewrite firstn_firstn_le by lia. rewrite nth_firstn_lt by lia. ring.
Qed.



(* the generated DTLZ2-4 objective list, for an arbitrary angle function *)
Lemma dtlz234_shape (ang : R -> R) (xc : list R) (r one : R) (k : Z) :
  one = 1 -> (0 <= k)%Z -> length xc = Z.to_nat k ->
  [r * reduce Rmult (map (fun xi => cos (ang xi)) xc) one] ++
  map (fun m => r * reduce Rmult (map (fun xi => cos (ang xi)) (py_slice xc None (Some m) 1%Z)) 1
                * sin (ang (zget 0 xc m))) (py_range3 (k - 1) (-1) (-1))
  = @sphere_coords R NumR r (map ang xc).
Proof.
  intros -> Hk Hl. rewrite sphere_shape. cbn [app]. rewrite map_length, Hl. f_equal.
  - rewrite reduce_mul, map_map. ring.
  - rewrite py_range3_down by lia. rewrite map_map.
    apply map_ext_in. intros m Hm. apply in_rev, in_seq in Hm.
    rewrite slice_to by lia. rewrite Nat2Z.id, zget_nat, reduce_mul, firstn_map, map_map.
    rewrite (nth_indep (map ang xc) 0 (ang 0)) by (rewrite map_length; lia). rewrite map_nth. ring.
Qed.

Lemma ge_dtlz2 (x : list R) obj : (1 <= obj)%Z -> (obj - 1 <= zlen x)%Z -> bm_dtlz2 x obj = spec_bm_dtlz2 x obj.
Proof.
  intros H1 H2. unfold bm_dtlz2, spec_bm_dtlz2, dtlz_g2, dtlz_xc, dtlz_xm. start0. cbv zeta.
  rewrite !slice_from, !slice_to by lia.
  replace (obj - 2)%Z with ((obj - 1) - 1)%Z by lia.
  apply (dtlz234_shape (fun xi => 1 / 2 * xi * PI)); [reflexivity|lia|].
  apply firstn_length_le. unfold zlen in H2. lia.
Qed.

Lemma ge_dtlz3 (x : list R) obj : (1 <= obj)%Z -> (obj - 1 <= zlen x)%Z -> bm_dtlz3 x obj = spec_bm_dtlz3 x obj.
Proof.
  intros H1 H2. unfold bm_dtlz3, spec_bm_dtlz3, dtlz_g13, dtlz_xc, dtlz_xm. start0. cbv zeta.
  rewrite !slice_from, !slice_to by lia.
  replace (obj - 2)%Z with ((obj - 1) - 1)%Z by lia.
  apply (dtlz234_shape (fun xi => 1 / 2 * xi * PI)); [reflexivity|lia|].
  apply firstn_length_le. unfold zlen in H2. lia.
Qed.

Lemma ge_dtlz4 (x : list R) obj alpha : (1 <= obj)%Z -> (obj - 1 <= zlen x)%Z -> bm_dtlz4 x obj alpha = spec_bm_dtlz4 x obj alpha.
Proof.
  intros H1 H2. unfold bm_dtlz4, spec_bm_dtlz4, dtlz_g2, dtlz_xc, dtlz_xm. start0. cbv zeta.
  rewrite !slice_from, !slice_to by lia.
  replace (obj - 2)%Z with ((obj - 1) - 1)%Z by lia.
  apply (dtlz234_shape (fun xi => 1 / 2 * Rpow_total xi alpha * PI)); [reflexivity|lia|].
  apply firstn_length_le. unfold zlen in H2. lia.
Qed.


(* the generated DTLZ5/6 objective list for an arbitrary g value *)
Lemma dtlz56_shape (x : list R) (g : R) (n_objs : Z) :
  (2 <= n_objs)%Z -> (n_objs - 1 <= zlen x)%Z ->
  let theta := fun v => PI / (4 * (1 + g)) * (1 + 2 * g * v) in
  fold_left
    (fun (fit : list R) (m : Z) =>
       let fit0 := if (m =? 1)%Z
                   then let fit1 := fit ++ [(1 + g) * sin (PI / 2 * nth 0 x 0)] in fit1
                   else let fit1 := fit ++ [(1 + g) * cos (PI / 2 * nth 0 x 0)
                                             * reduce (fun a b => a * b) (map (fun v => cos (let v0 := v in theta v0)) (py_slice x (Some 1%Z) (Some (m - 1)%Z) 1%Z)) 1
                                             * sin (let v0 := zget 0 x (m - 1) in theta v0)] in fit1 in
       fit0)
    (rev (py_range3 1 n_objs 1))
    [(1 + g) * cos (PI / 2 * nth 0 x 0)
     * reduce (fun a b => a * b) (map (fun v => cos (let v0 := v in theta v0)) (py_slice x (Some 1%Z) (Some (n_objs - 1)%Z) 1%Z)) 1]
  = @sphere_coords R NumR (1 + g) (dtlz56_angles g (firstn (Z.to_nat (n_objs - 1)) x)).
Proof.
  intros H1 H2 theta.
  set (F := fun m : Z => if (m =? 1)%Z then (1 + g) * sin (PI / 2 * nth 0 x 0)
            else (1 + g) * cos (PI / 2 * nth 0 x 0)
                 * reduce (fun a b => a * b) (map (fun v => cos (theta v)) (py_slice x (Some 1%Z) (Some (m - 1)%Z) 1%Z)) 1
                 * sin (theta (zget 0 x (m - 1)))).
  rewrite (fold_left_ext _ (fun fit m => fit ++ (fun m => [F m]) m))
    by (intros a m; unfold F; destruct (m =? 1)%Z; reflexivity).
  rewrite fold_left_app_acc2, flat_map_single.
  set (k := Z.to_nat (n_objs - 1)).
  assert (Hk : (1 <= k <= length x)%nat) by (unfold zlen in H2; lia).
  destruct x as [|x0 xr]; [cbn in Hk; lia|].
  destruct k as [|k'] eqn:Ek; [lia|]. cbn [firstn dtlz56_angles nth]. numR.
  rewrite sphere_shape. cbn [app map length]. f_equal.
  - rewrite reduce_mul_fun. rewrite slice_pos by lia.
    replace (Z.to_nat (n_objs - 1 - 1)) with k' by lia. change (Z.to_nat 1) with 1%nat. cbn [skipn].
    unfold Rprod, theta. cbn [map fold_right]. rewrite !map_map. ring.
  - rewrite py_range3_from by lia. change (Z.to_nat 1) with 1%nat.
    replace (Z.to_nat (n_objs - 1)) with (S k') by lia. rewrite map_length, firstn_length_le by (cbn in Hk; lia).
    rewrite <- map_rev, map_map. rewrite <- seq_shift, <- map_rev, map_map.
    apply map_ext_in. intros m Hm. apply in_rev, in_seq in Hm.
    unfold F. destruct m as [|j].
    + cbn [Z.of_nat Z.eqb Pos.eqb firstn map nth]. unfold Rprod. cbn. ring.
    + destruct (Z.eqb_spec (Z.of_nat (S (S j))) 1) as [E|_]; [lia|].
      rewrite reduce_mul_fun, slice_pos by lia. change (Z.to_nat 1) with 1%nat. cbn [skipn].
      replace (Z.to_nat (Z.of_nat (S (S j)) - 1 - 1)) with j by lia.
      replace (Z.of_nat (S (S j)) - 1)%Z with (Z.of_nat (S j)) by lia. rewrite zget_nat.
      cbn [firstn map nth]. unfold Rprod. cbn [fold_right].
      rewrite firstn_map, !map_map, firstn_firstn_le by lia.
      change (fun xi : R => PI / (4 * (1 + g)) * (1 + 2 * g * xi)) with theta.
      rewrite (nth_indep (map theta (firstn k' xr)) 0 (theta 0)) by (rewrite map_length, firstn_length_le by (cbn in Hk; lia); lia).
      rewrite map_nth, nth_firstn_lt by lia. unfold Rprod, theta. ring.
Qed.

Lemma ge_dtlz5 (x : list R) n : (2 <= n)%Z -> (n - 1 <= zlen x)%Z -> bm_dtlz5 x n = spec_bm_dtlz5 x n.
Proof.
  intros H1 H2. unfold bm_dtlz5, spec_bm_dtlz5, dtlz_g2, dtlz_xc, dtlz_xm. start0. cbv zeta.
  rewrite ?py_range3_down_rev by lia.
  rewrite !slice_from by lia. apply dtlz56_shape; assumption.
Qed.
Lemma ge_dtlz6 (x : list R) n : (2 <= n)%Z -> (n - 1 <= zlen x)%Z -> bm_dtlz6 x n = spec_bm_dtlz6 x n.
Proof.
  intros H1 H2. unfold bm_dtlz6, spec_bm_dtlz6, dtlz_g6, dtlz_xc, dtlz_xm. start0. cbv zeta.
  rewrite ?py_range3_down_rev by lia.
  rewrite !slice_from by lia. apply dtlz56_shape; assumption.
Qed.
Lemma ge_dtlz7 (x : list R) n : (1 <= n)%Z -> bm_dtlz7 x n = spec_bm_dtlz7 x n.
Proof.
  intros H1. unfold bm_dtlz7, spec_bm_dtlz7, dtlz_g7, dtlz_xc, dtlz_xm. start0. cbv zeta.
  rewrite !slice_from, !slice_to by lia. rewrite !map_id. reflexivity.
Qed.

End RealPart.

Section IntPart.
Local Open Scope Z_scope.

Lemma zsum_ones l : zsum l = ones l.
Proof.
  unfold zsum, ones. rewrite <- fold_left_rev_right. 
  assert (G : forall l a, fold_right (fun y x : Z => x + y) a l = a + fold_right Z.add 0 l).
  { induction l0 as [|x r IH]; intro a; cbn; [lia|]. rewrite IH. lia. }
  rewrite G. 
  assert (R : forall l : list Z, fold_right Z.add 0 (rev l) = fold_right Z.add 0 l).
  { induction l0 as [|x r IH]; cbn; [reflexivity|]. rewrite fold_right_app. cbn.
    assert (Q : forall l a, fold_right Z.add a l = a + fold_right Z.add 0 l).
    { induction l0 as [|y s IHs]; intro a; cbn; [lia|]. rewrite IHs. lia. }
    rewrite Q, IH. lia. }
  rewrite R. lia.
Qed.

Lemma ge_trap b : bin_trap b = spec_bin_trap b.
Proof. unfold bin_trap, spec_bin_trap. rewrite zsum_ones. reflexivity. Qed.
Lemma ge_inv_trap b : bin_inv_trap b = spec_bin_inv_trap b.
Proof. unfold bin_inv_trap, spec_bin_inv_trap. rewrite zsum_ones. reflexivity. Qed.

(* range(from, stop, step) as the list of block starts *)
Lemma py_range3_starts (from stop step : nat) : (0 < step)%nat ->
  py_range3 (Z.of_nat from) (Z.of_nat stop) (Z.of_nat step) = map Z.of_nat (starts from stop step).
Proof.
  intro Hs. unfold py_range3, starts, range_count.
  destruct (Z.ltb_spec 0 (Z.of_nat step)) as [_|?]; [|lia].
  rewrite map_map.
  assert (E : Z.to_nat (if Z.of_nat from <? Z.of_nat stop then (Z.of_nat stop - Z.of_nat from - 1) / Z.of_nat step + 1 else 0)
              = ((stop - from + step - 1) / step)%nat).
  { destruct (Z.ltb_spec (Z.of_nat from) (Z.of_nat stop)) as [L|G].
    - replace (stop - from + step - 1)%nat with ((stop - from - 1) + 1 * step)%nat by lia.
      rewrite Nat.div_add by lia.
      replace (Z.of_nat stop - Z.of_nat from - 1) with (Z.of_nat (stop - from - 1)) by lia.
      rewrite <- Nat2Z.inj_div. lia.
    - replace (stop - from)%nat with 0%nat by lia. cbn [Nat.add]. rewrite Nat.div_small by lia. reflexivity. }
  rewrite E. apply map_ext. intro i. lia.
Qed.

Lemma block_slice (b : list Z) (s w : nat) :
  py_slice b (Some (Z.of_nat s)) (Some (Z.of_nat s + Z.of_nat w)) 1 = block b s w.
Proof.
  rewrite slice_pos by lia. unfold block. f_equal; [lia|]. f_equal. lia.
Qed.

Lemma loop_sum {A} (f : A -> Z) (l : list A) acc :
  fold_left (fun t x => t + f x) l acc = acc + zsum_over f l.
Proof.
  revert acc; induction l as [|x l IH]; intro acc; cbn; [unfold zsum_over; cbn; lia|].
  rewrite IH. unfold zsum_over. cbn. lia.
Qed.

Lemma zsum_over_map {A B} (f : B -> Z) (g : A -> B) l : zsum_over f (map g l) = zsum_over (fun x => f (g x)) l.
Proof. unfold zsum_over. rewrite map_map. reflexivity. Qed.

Lemma zsum_over_ext {A} (f g : A -> Z) l : (forall x, f x = g x) -> zsum_over f l = zsum_over g l.
Proof. intro H. unfold zsum_over. f_equal. apply map_ext. exact H. Qed.

Lemma last_bit_get b : (1 <= length b)%nat -> zget 0 b (-1) = last_bit b.
Proof. intro H. change (-1) with (- (1)). rewrite zget_neg by (cbn; lia). reflexivity. Qed.
Lemma last2_bit_get b : (2 <= length b)%nat -> zget 0 b (-2) = last2_bit b.
Proof. intro H. change (-2) with (- (2)). rewrite zget_neg by (cbn; lia). reflexivity. Qed.

Lemma sub_len (b : list Z) k : (k <= length b)%nat -> zlen b - Z.of_nat k = Z.of_nat (length b - k).
Proof. unfold zlen. lia. Qed.

Lemma py_range3_starts_Z from stop step : 0 <= from -> 0 < step ->
  py_range3 from stop step = map Z.of_nat (starts (Z.to_nat from) (Z.to_nat stop) (Z.to_nat step)).
Proof.
  intros Hf Hs. destruct (Z.le_gt_cases 0 stop) as [L|G].
  - rewrite <- py_range3_starts by lia. rewrite !Z2Nat.id by lia. reflexivity.
  - unfold py_range3, range_count. destruct (Z.ltb_spec 0 step); [|lia].
    destruct (Z.ltb_spec from stop); [lia|]. cbn.
    unfold starts. replace (Z.to_nat stop) with 0%nat by lia. cbn [Nat.sub Nat.add].
    rewrite Nat.div_small by lia. reflexivity.
Qed.

Lemma block_slice_Z (b : list Z) (s : nat) (w : Z) : 0 <= w ->
  py_slice b (Some (Z.of_nat s)) (Some (Z.of_nat s + w)) 1 = block b s (Z.to_nat w).
Proof. intro. rewrite <- block_slice. rewrite Z2Nat.id by lia. reflexivity. Qed.

Lemma ge_chuang_f1 b : (1 <= length b)%nat -> bin_chuang_f1 b = spec_bin_chuang_f1 b.
Proof.
  intro H. unfold bin_chuang_f1, spec_bin_chuang_f1. cbv zeta. rewrite last_bit_get by lia.
  rewrite py_range3_starts_Z by lia.
  replace (Z.to_nat (zlen b - 1)) with (length b - 1)%nat by (unfold zlen; lia).
  change (Z.to_nat 0) with 0%nat. change (Z.to_nat 4) with 4%nat.
  f_equal. destruct (last_bit b =? 0).
  - rewrite (fold_left_ext _ (fun t i => t + (fun i => spec_bin_inv_trap (py_slice b (Some i) (Some (i + 4)) 1)) i))
      by (intros; rewrite ge_inv_trap; reflexivity).
    rewrite loop_sum, zsum_over_map. cbn [Z.add]. apply zsum_over_ext. intro s.
    rewrite block_slice_Z by lia. reflexivity.
  - rewrite (fold_left_ext _ (fun t i => t + (fun i => spec_bin_trap (py_slice b (Some i) (Some (i + 4)) 1)) i))
      by (intros; rewrite ge_trap; reflexivity).
    rewrite loop_sum, zsum_over_map. cbn [Z.add]. apply zsum_over_ext. intro s.
    rewrite block_slice_Z by lia. reflexivity.
Qed.

Lemma block_slice2 (b : list Z) (s : nat) (o e : Z) : 0 <= o <= e ->
  py_slice b (Some (Z.of_nat s + o)) (Some (Z.of_nat s + e)) 1 = block b (s + Z.to_nat o) (Z.to_nat (e - o)).
Proof.
  intros. rewrite <- block_slice. f_equal; f_equal; lia.
Qed.


Lemma ge_chuang_f2 b : (2 <= length b)%nat -> is_bit (last2_bit b) -> is_bit (last_bit b) ->
  bin_chuang_f2 b = spec_bin_chuang_f2 b.
Proof.
  intros H B2 B1. unfold bin_chuang_f2, spec_bin_chuang_f2. cbv zeta.
  rewrite last_bit_get, last2_bit_get by lia.
  rewrite py_range3_starts_Z by lia.
  replace (Z.to_nat (zlen b - 2)) with (length b - 2)%nat by (unfold zlen; lia).
  change (Z.to_nat 0) with 0%nat. change (Z.to_nat 8) with 8%nat.
  f_equal.
  assert (L : forall f g : list Z -> Z,
    fold_left (fun t i => let t0 := t + (f (py_slice b (Some i) (Some (i + 4)) 1) + g (py_slice b (Some (i + 4)) (Some (i + 8)) 1)) in t0)
       (map Z.of_nat (starts 0 (length b - 2) 8)) 0
    = zsum_over (fun s => f (block b s 4) + g (block b (s + 4) 4)) (starts 0 (length b - 2) 8)).
  { intros f g.
    rewrite (fold_left_ext _ (fun t i => t + (fun i => f (py_slice b (Some i) (Some (i + 4)) 1) + g (py_slice b (Some (i + 4)) (Some (i + 8)) 1)) i))
      by reflexivity.
    rewrite loop_sum, zsum_over_map. cbn [Z.add]. apply zsum_over_ext. intro s.
    rewrite block_slice_Z by lia. rewrite (block_slice2 b s 4 8) by lia. reflexivity. }
  destruct B2 as [-> | ->], B1 as [-> | ->]; cbn [Z.eqb andb Pos.eqb];
    rewrite <- L; apply fold_left_ext; intros; rewrite ?ge_trap, ?ge_inv_trap; reflexivity.
Qed.

Lemma ge_chuang_f3 b : (3 <= length b)%nat -> bin_chuang_f3 b = spec_bin_chuang_f3 b.
Proof.
  intro H. unfold bin_chuang_f3, spec_bin_chuang_f3. cbv zeta. rewrite last_bit_get by lia.
  rewrite !py_range3_starts_Z by lia.
  replace (Z.to_nat (zlen b - 1)) with (length b - 1)%nat by (unfold zlen; lia).
  replace (Z.to_nat (zlen b - 3)) with (length b - 3)%nat by (unfold zlen; lia).
  change (Z.to_nat 0) with 0%nat. change (Z.to_nat 4) with 4%nat. change (Z.to_nat 2) with 2%nat.
  destruct (last_bit b =? 0).
  - f_equal.
    rewrite (fold_left_ext _ (fun t i => t + (fun i => spec_bin_inv_trap (py_slice b (Some i) (Some (i + 4)) 1)) i))
      by (intros; rewrite ge_inv_trap; reflexivity).
    rewrite loop_sum, zsum_over_map. cbn [Z.add]. apply zsum_over_ext. intro s.
    rewrite block_slice_Z by lia. reflexivity.
  - f_equal.
    rewrite (fold_left_ext _ (fun t i => t + (fun i => spec_bin_inv_trap (py_slice b (Some i) (Some (i + 4)) 1)) i))
      by (intros; rewrite ge_inv_trap; reflexivity).
    rewrite loop_sum, zsum_over_map. cbn [Z.add]. rewrite ge_trap.
    change (-2) with (- (2)). rewrite slice_from_neg, slice_to by lia.
    change (Z.to_nat 2) with 2%nat. f_equal. apply zsum_over_ext. intro s.
    rewrite block_slice_Z by lia. reflexivity.
Qed.


(* value of a bit string *)
Lemma bits_acc (l : list Z) : forall acc,
  fold_left (fun a v => 2 * a + v) l acc = acc * 2 ^ zlen l + fold_left (fun a v => 2 * a + v) l 0.
Proof.
  induction l as [|v r IH]; intro acc.
  - cbn. unfold zlen. cbn. lia.
  - cbn [fold_left]. rewrite (IH (2 * acc + v)), (IH (2 * 0 + v)).
    unfold zlen. cbn [length]. rewrite Nat2Z.inj_succ, Z.pow_succ_r by lia. lia.
Qed.

Lemma bits_bound (l : list Z) : Forall is_bit l ->
  0 <= bits2int l <= 2 ^ zlen l - 1 /\ (bits2int l = 2 ^ zlen l - 1 <-> all_ones l = true).
Proof.
  unfold bits2int. induction 1 as [|v r Hv Hr IH].
  - cbn. unfold zlen. cbn. split; [lia|]. split; auto.
  - cbn [fold_left all_ones forallb]. rewrite bits_acc. destruct IH as [[L U] E].
    unfold zlen in *. cbn [length]. rewrite Nat2Z.inj_succ, Z.pow_succ_r by lia.
    assert (P : 0 < 2 ^ Z.of_nat (length r)) by (apply Z.pow_pos_nonneg; lia).
    fold (all_ones r). destruct Hv as [-> | ->].
    + split; [lia|]. cbn [Z.eqb andb]. split; [lia|discriminate].
    + split; [lia|]. change (1 =? 1) with true. cbn [andb]. rewrite <- E. lia.
Qed.

Lemma quot_all_ones (blk : list Z) order : 1 <= order -> Forall is_bit blk -> zlen blk = order ->
  Z.quot (bits2int blk) (2 ^ order - 1) = if all_ones blk then 1 else 0.
Proof.
  intros Ho Hb Hl. destruct (bits_bound blk Hb) as [[L U] E]. rewrite Hl in *.
  assert (P : 2 <= 2 ^ order) by (change 2 with (2 ^ 1) at 1; apply Z.pow_le_mono_r; lia).
  destruct (all_ones blk).
  - rewrite (proj2 E eq_refl). apply Z.quot_same. lia.
  - apply Z.quot_small. split; [lia|].
    destruct (Z.eq_dec (bits2int blk) (2 ^ order - 1)) as [X|X]; [|lia].
    apply E in X. discriminate.
Qed.

Lemma In_firstn {A} (v : A) n l : In v (firstn n l) -> In v l.
Proof. revert l; induction n as [|n IH]; intros [|x l] H; cbn in *; try contradiction; auto. destruct H; auto. Qed.
Lemma In_skipn {A} (v : A) n l : In v (skipn n l) -> In v l.
Proof. revert l; induction n as [|n IH]; intros [|x l] H; cbn in *; try contradiction; auto. Qed.

Lemma Forall_block (b : list Z) s w : Forall is_bit b -> Forall is_bit (block b s w).
Proof.
  intro H. unfold block. rewrite Forall_forall in *. intros v Hv.
  apply H. eapply In_skipn, In_firstn. exact Hv.
Qed.

Lemma block_length (b : list Z) j w : (j < length b / w)%nat -> (0 < w)%nat -> length (block b (j * w) w) = w.
Proof.
  intros Hj Hw. unfold block. apply firstn_length_le. rewrite skipn_length.
  pose proof (Nat.mul_div_le (length b) w ltac:(lia)). nia.
Qed.

Lemma to_nat_div (a : nat) z : 0 < z -> Z.to_nat (Z.of_nat a / z) = (a / Z.to_nat z)%nat.
Proof.
  intro Hz. replace z with (Z.of_nat (Z.to_nat z)) at 1 by lia. rewrite <- Nat2Z.inj_div. apply Nat2Z.id.
Qed.

(* the same with floor division (the source decides completeness of a block with value // max_value) *)
Lemma div_all_ones (blk : list Z) order : 1 <= order -> Forall is_bit blk -> zlen blk = order ->
  Z.div (bits2int blk) (2 ^ order - 1) = if all_ones blk then 1 else 0.
Proof.
  intros Ho Hb Hl. rewrite <- (quot_all_ones blk order Ho Hb Hl).
  destruct (bits_bound blk Hb) as [[L U] E]. rewrite Hl in *.
  assert (P : 2 <= 2 ^ order) by (change 2 with (2 ^ 1) at 1; apply Z.pow_le_mono_r; lia).
  symmetry. apply Z.quot_div_nonneg; lia.
Qed.

Lemma ge_royal_road1 b order : 1 <= order -> Forall is_bit b -> bin_royal_road1 b order = spec_bin_royal_road1 b order.
Proof.
  intros Ho Hb. unfold bin_royal_road1, spec_bin_royal_road1. cbv zeta. f_equal.
  set (w := Z.to_nat order).
  rewrite py_range_to_nat.
  unfold zlen at 1. rewrite to_nat_div by lia. fold w.
  (* the loop `total += order * completeness(block i)` as a sum, whichever division decides completeness *)
  match goal with |- fold_left ?F ?l ?a = _ =>
    rewrite (fold_left_ext F (fun t i => t + (fun i => F 0 i) i)) by (intros t i; cbv beta zeta; lia) end.
  rewrite loop_sum, zsum_over_map. cbn [Z.add]. unfold zsum_over. f_equal. apply map_ext_in.
  intros j Hj. apply in_seq in Hj. cbv beta zeta.
  replace (Z.of_nat j * order) with (Z.of_nat (j * w)) by (unfold w; lia).
  rewrite block_slice_Z by lia. fold w.
  assert (L : zlen (block b (j * w) w) = order).
  { unfold zlen. rewrite block_length; [unfold w; lia | lia | unfold w; lia]. }
  first [ rewrite div_all_ones by (try assumption; apply Forall_block; assumption)
        | rewrite quot_all_ones by (try assumption; apply Forall_block; assumption) ].
  destruct (all_ones _); lia.
Qed.


Lemma rr2_orders_fuel k : forall n bound, 1 <= n -> bound <= n * 2 ^ Z.of_nat k ->
  rr2_orders k n bound = rr2_orders (S k) n bound.
Proof.
  induction k as [|k IH]; intros n bound Hn Hb.
  - cbn in *. destruct (Z.ltb_spec n bound); [lia|reflexivity].
  - cbn [rr2_orders]. destruct (Z.ltb_spec n bound); [|reflexivity]. f_equal.
    apply IH; [lia|]. rewrite Nat2Z.inj_succ, Z.pow_succ_r in Hb by lia. lia.
Qed.

Lemma while_rr (F : Z -> Z) bound k : forall total n, 1 <= n -> bound <= n * 2 ^ Z.of_nat k ->
  exists n', while_loop k (fun '(t, m) => m <? bound) (fun '(t, m) => (t + F m, m * 2)) (total, n)
             = Some (total + zsum_over F (rr2_orders k n bound), n').
Proof.
  induction k as [|k IH]; intros total n Hn Hb.
  - cbn in *. destruct (Z.ltb_spec n bound); [lia|]. exists n. unfold zsum_over. cbn [map fold_right]. rewrite Z.add_0_r. reflexivity.
  - cbn [while_loop rr2_orders]. destruct (Z.ltb_spec n bound).
    + destruct (IH (total + F n) (n * 2)) as [n' E]; [lia| |].
      { rewrite Nat2Z.inj_succ, Z.pow_succ_r in Hb by lia. lia. }
      exists n'. rewrite E. replace (2 * n) with (n * 2) by lia. unfold zsum_over. cbn [map fold_right]. rewrite Z.add_assoc. reflexivity.
    + exists n. unfold zsum_over. cbn [map fold_right]. rewrite Z.add_0_r. reflexivity.
Qed.

Lemma rr2_orders_ge k : forall n bound m, 1 <= n -> In m (rr2_orders k n bound) -> n <= m.
Proof.
  induction k as [|k IH]; intros n bound m Hn H; cbn [rr2_orders In] in H; [contradiction|].
  destruct (n <? bound); [|contradiction]. destruct H as [<-|H]; [lia|]. apply IH in H; lia.
Qed.

Lemma ge_royal_road2 b order : 1 <= order -> Forall is_bit b -> bin_royal_road2 b order = spec_bin_royal_road2 b order.
Proof.
  intros Ho Hb. unfold bin_royal_road2, spec_bin_royal_road2. cbv zeta.
  assert (P : order < 2 ^ order) by (apply Z.pow_gt_lin_r; lia).
  assert (Hbound : order * order <= order * 2 ^ Z.of_nat (Z.to_nat order)) by (rewrite Z2Nat.id by lia; nia).
  rewrite <- (rr2_orders_fuel (Z.to_nat order)) by lia.
  destruct (while_rr (fun m => zget 0 (bin_royal_road1 b m) 0) (order * order) (Z.to_nat order) 0 order Ho Hbound) as [n' E].
  rewrite Z.pow_2_r.
  match goal with |- match ?w with _ => _ end = _ => replace w with
    (Some (0 + zsum_over (fun m => zget 0 (bin_royal_road1 b m) 0) (rr2_orders (Z.to_nat order) order (order * order)), n')) end.
  cbn [Z.add]. f_equal. f_equal. unfold zsum_over. f_equal. apply map_ext_in. intros m Hm.
  apply rr2_orders_ge in Hm; [|lia]. rewrite ge_royal_road1 by (try assumption; lia). apply zget_0.
Qed.

(* ---- bin2float ---- *)
Lemma zset_at {A} (pre : list A) y post v : zset (pre ++ y :: post) (Z.of_nat (length pre)) v = pre ++ v :: post.
Proof.
  unfold zset, py_set, zlen.
  destruct (Z.ltb_spec (Z.of_nat (length pre)) 0); [lia|].
  destruct (Z.ltb_spec (Z.of_nat (length pre)) 0); [lia|]. cbn [orb].
  rewrite app_length. cbn [length].
  destruct (Z.leb_spec (Z.of_nat (length pre + S (length post))) (Z.of_nat (length pre))); [lia|].
  rewrite Nat2Z.id. clear. induction pre as [|p pre IH]; cbn; [reflexivity|]. f_equal. exact IH.
Qed.

Lemma fill_seq {A} (f : nat -> A) (z : A) m : forall k pre, length pre = k ->
  fold_left (fun d i => zset d (Z.of_nat i) (f i)) (seq k m) (pre ++ repeat z m) = pre ++ map f (seq k m).
Proof.
  induction m as [|m IH]; intros k pre Hk; [reflexivity|]. subst k.
  cbn [seq fold_left repeat map]. rewrite zset_at.
  replace (pre ++ f (length pre) :: repeat z m) with ((pre ++ [f (length pre)]) ++ repeat z m) by (rewrite <- app_assoc; reflexivity).
  rewrite IH by (rewrite app_length; cbn; lia). rewrite <- app_assoc. reflexivity.
Qed.

Lemma fold_left_map' {A B C} (f : A -> C -> A) (g : B -> C) l a :
  fold_left f (map g l) a = fold_left (fun x y => f x (g y)) l a.
Proof. revert a; induction l as [|x l IH]; intro a; cbn; [reflexivity|]. apply IH. Qed.

Lemma ge_bin2float_arg (mn mx : R) nbits b : 1 <= nbits ->
  bin_bin2float_arg mn mx nbits b = spec_bin2float_arg mn mx nbits b.
Proof.
  intro Hn. unfold bin_bin2float_arg, spec_bin2float_arg. cbv zeta.
  set (w := Z.to_nat nbits). rewrite py_range_to_nat. unfold zlen at 1 2. rewrite to_nat_div by lia. fold w.
  unfold zrepeat. rewrite to_nat_div by lia. fold w.
  set (n := (length b / w)%nat).
  rewrite fold_left_map'.
  match goal with |- fold_left ?F _ _ = map ?G _ =>
    transitivity (fold_left (fun d i => zset d (Z.of_nat i) (G i)) (seq 0 n) ([] ++ repeat (nofZ 0%Z) n)) end.
  - cbn [app]. apply fold_left_ext. intros d i. f_equal. numR.
    replace (Z.of_nat i * nbits) with (Z.of_nat (i * w)) by (unfold w; lia).
    rewrite block_slice_Z by lia. reflexivity.
  - rewrite fill_seq by reflexivity. reflexivity.
Qed.

End IntPart.
