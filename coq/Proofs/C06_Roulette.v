(* C06 proofs, part 2: selRoulette. *)
From Coq Require Import List Bool Arith Permutation Sorted QArith Lia Lqa.
From DV Require Import Base.PyList Base.C06_Py Model.C06_Select Proofs.C06_Sort Proofs.C06_Basic.
Import ListNotations.

Lemma firstn_In {A} (l : list A) n x : In x (firstn n l) -> In x l.
Proof.
  revert n; induction l as [|y r IH]; intros [|n] H; cbn in H; try contradiction.
  destruct H as [->|H]; [left; reflexivity|right; eapply IH; eauto].
Qed.

(* sum of the first objectives of a list, and the cumulative sums c_j = f_0 + ... + f_{j-1} *)
Fixpoint tot (w : list Q) (l : list ind) : Q :=
  match l with [] => 0 | x :: r => val0 w x + tot w r end.
Definition cum (w : list Q) (l : list ind) (j : nat) : Q := tot w (firstn j l).

Lemma fold_plus_acc l : forall a, fold_left Qplus l a == a + fold_left Qplus l 0.
Proof.
  induction l as [|x r IH]; intro a; cbn.
  - lra.
  - rewrite (IH (a + x)), (IH (0 + x)). lra.
Qed.

Lemma qsum_cons x l : qsum (x :: l) == x + qsum l.
Proof. unfold qsum. cbn. rewrite fold_plus_acc. lra. Qed.

Lemma sum_fits_tot w l : sum_fits w l == tot w l.
Proof.
  unfold sum_fits. induction l as [|x r IH]; cbn [map tot].
  - reflexivity.
  - rewrite qsum_cons, IH. reflexivity.
Qed.

Lemma tot_perm w l l' : Permutation l l' -> tot w l == tot w l'.
Proof.
  induction 1; cbn; try lra.
Qed.

Lemma tot_app w l1 l2 : tot w (l1 ++ l2) == tot w l1 + tot w l2.
Proof. induction l1 as [|x r IH]; cbn; [lra|rewrite IH; lra]. Qed.

Lemma tot_nonneg w l : Forall (fun x => 0 < val0 w x) l -> 0 <= tot w l.
Proof. induction 1; cbn; lra. Qed.

Lemma tot_pos w l : Forall (fun x => 0 < val0 w x) l -> l <> [] -> 0 < tot w l.
Proof.
  intros F Hne. destruct F as [|x r Hx F]; [contradiction|]. cbn.
  pose proof (tot_nonneg w r F). lra.
Qed.

Lemma cum_0 w l : cum w l 0 = 0.
Proof. reflexivity. Qed.

Lemma cum_S w l j x : nth_error l j = Some x -> cum w l (S j) == cum w l j + val0 w x.
Proof.
  unfold cum. revert j; induction l as [|y r IH]; intros [|j] H; cbn in H; try discriminate.
  - inversion H; subst. cbn. lra.
  - cbn [firstn tot]. rewrite (IH j H). cbn [firstn tot]. lra.
Qed.

Lemma cum_all w l j : (length l <= j)%nat -> cum w l j = tot w l.
Proof. intro H. unfold cum. rewrite firstn_all2; auto. Qed.

Lemma cum_mono w l : Forall (fun x => 0 < val0 w x) l ->
  forall i j, (i <= j)%nat -> cum w l i <= cum w l j.
Proof.
  intros F i j Hij. unfold cum.
  replace j with (i + (j - i))%nat by lia. generalize (j - i)%nat as d. intro d.
  clear Hij. revert i; induction F as [|x r Hx F IH]; intro i.
  - destruct i, d; cbn; lra.
  - destruct i; cbn [firstn tot Nat.add].
    + destruct d; cbn [firstn tot]; [lra|]. pose proof (tot_nonneg w (firstn d r)).
      assert (Forall (fun x => 0 < val0 w x) (firstn d r)).
      { apply Forall_forall. intros y Hy. apply firstn_In in Hy. eapply Forall_forall in F; eauto. }
      specialize (H H0). lra.
    + specialize (IH i). lra.
Qed.

Lemma cum_strict w l : Forall (fun x => 0 < val0 w x) l ->
  forall i j, (i < j)%nat -> (j <= length l)%nat -> cum w l i < cum w l j.
Proof.
  intros F i j Hij Hj.
  assert (exists x, nth_error l i = Some x) as [x Hx].
  { destruct (nth_error l i) eqn:E; [eauto|]. apply nth_error_None in E. lia. }
  pose proof (cum_S w l i x Hx).
  assert (0 < val0 w x) by (eapply Forall_forall in F; [exact F|eapply nth_error_In; eauto]).
  pose proof (cum_mono w l F (S i) j ltac:(lia)). lra.
Qed.

(* ---- the wheel ---- *)
Lemma spin_interval w l : Forall (fun x => 0 < val0 w x) l ->
  forall acc t j x, nth_error l j = Some x ->
  acc + cum w l j <= t -> t < acc + cum w l (S j) -> spin w l acc t = Some x.
Proof.
  induction 1 as [|y r Hy F IH]; intros acc t j x Hn H1 H2; [destruct j; discriminate|].
  destruct j as [|j]; cbn in Hn.
  - inversion Hn; subst. cbn [spin].
    change (cum w (x :: r) 0) with 0 in H1. change (cum w (x :: r) 1) with (val0 w x + 0) in H2.
    assert (E : Qltb t (acc + val0 w x) = true) by (qbool; lra). rewrite E. reflexivity.
  - cbn [spin].
    change (cum w (y :: r) (S j)) with (val0 w y + cum w r j) in H1.
    change (cum w (y :: r) (S (S j))) with (val0 w y + cum w r (S j)) in H2.
    pose proof (cum_mono w r F 0 j ltac:(lia)) as H. change (cum w r 0) with 0 in H.
    assert (E : Qltb t (acc + val0 w y) = false) by (qbool; lra). rewrite E.
    apply (IH (acc + val0 w y) t j x Hn); lra.
Qed.

Lemma spin_inv w l : forall acc t x, acc <= t -> spin w l acc t = Some x ->
  exists j, nth_error l j = Some x /\ acc + cum w l j <= t /\ t < acc + cum w l (S j).
Proof.
  induction l as [|y r IH]; intros acc t x Ha H; cbn [spin] in H; [discriminate|].
  destruct (Qltb t (acc + val0 w y)) eqn:E; qbool.
  - inversion H; subst. exists 0%nat.
    change (cum w (x :: r) 0) with 0. change (cum w (x :: r) 1) with (val0 w x + 0).
    repeat split; lra.
  - destruct (IH _ _ _ E H) as (j & Hn & H1 & H2). exists (S j).
    change (cum w (y :: r) (S j)) with (val0 w y + cum w r j).
    change (cum w (y :: r) (S (S j))) with (val0 w y + cum w r (S j)).
    repeat split; [exact Hn|lra|lra].
Qed.

Lemma spin_total w l : Forall (fun x => 0 < val0 w x) l ->
  forall acc t, acc <= t -> t < acc + tot w l -> exists x, spin w l acc t = Some x.
Proof.
  induction 1 as [|y r Hy F IH]; intros acc t H1 H2; cbn [tot spin] in *; [lra|].
  destruct (Qltb t (acc + val0 w y)) eqn:E; qbool; [eauto|]. apply IH; lra.
Qed.

(* the intervals [c_j, c_{j+1}) of distinct positions are disjoint *)
Lemma interval_unique w l : Forall (fun x => 0 < val0 w x) l ->
  forall t i j, (i < length l)%nat -> (j < length l)%nat ->
  cum w l i <= t -> t < cum w l (S i) -> cum w l j <= t -> t < cum w l (S j) -> i = j.
Proof.
  intros F t i j Hi Hj A1 A2 B1 B2.
  destruct (Nat.lt_trichotomy i j) as [L|[E|L]]; [|exact E|].
  - pose proof (cum_mono w l F (S i) j ltac:(lia)). lra.
  - pose proof (cum_mono w l F (S j) i ltac:(lia)). lra.
Qed.

(* ---- the operator ---- *)
Lemma positive_has_val0 w l : Forall (fun x => 0 < val0 w x) l -> forallb (has_val0 w) l = true.
Proof.
  intro F. apply forallb_forall. intros x Hx. eapply Forall_forall in F; eauto.
  unfold has_val0, val0, val in *. destruct (values w x); [cbn in F; lra|reflexivity].
Qed.

Definition spin_selects (w : list Q) (s : list ind) (S u : Q) (x : ind) : Prop :=
  0 <= u /\ u < 1 /\
  exists j, nth_error s j = Some x /\ cum w s j <= u * S /\ u * S < cum w s (Datatypes.S j).

Lemma roulette_steps w s S :
  Forall (fun x => 0 < val0 w x) s -> S == tot w s -> 0 < S ->
  forall ds a ds0,
  steps (u <- random01 ;; ret (spin w s 0 (u * S))) ds a ds0 ->
  exists us, ds = map DRandom us ++ ds0 /\
             Forall2 (fun u o => exists x, o = Some x /\ spin_selects w s S u x) us a.
Proof.
  intros PosS ES HS ds a ds0 St.
  induction St as [d|d o d1 os d2 Hb St IH].
  - exists []. split; [reflexivity|constructor].
  - destruct IH as (us & E & F2). subst d1.
    inv_bind Hb. apply ret_Ok in Hf as [<- ->]. apply random01_Ok in Hm as (U0 & U1 & ->).
    exists (a :: us). split; [reflexivity|]. constructor; [|exact F2].
    assert (T1 : 0 <= a * S) by nra.
    assert (T2 : a * S < 0 + tot w s) by (rewrite <- ES; nra).
    destruct (spin_total w s PosS 0 (a * S) T1 T2) as [x Hx].
    exists x. split; [exact Hx|]. split; [exact U0|]. split; [exact U1|].
    destruct (spin_inv w s 0 (a * S) x T1 Hx) as (j & Hn & H1 & H2).
    exists j. repeat split; [exact Hn|lra|lra].
Qed.

Lemma selRoulette_spec w inds k ds out rest :
  Forall (fun x => 0 < val0 w x) inds -> inds <> [] ->
  selRoulette w inds k ds = Ok out rest ->
  let s := py_sorted_rev f_lt inds in
  let S := sum_fits w inds in
  0 < S /\ S == tot w s /\ length out = k /\ Forall (fun x => In x inds) out /\
  exists us, ds = map DRandom us ++ rest /\ Forall2 (spin_selects w s S) us out.
Proof.
  intros Pos Hne H. cbv zeta.
  set (s := py_sorted_rev f_lt inds) in *. set (S := sum_fits w inds) in *.
  assert (Perm : Permutation s inds) by apply py_sorted_rev_perm.
  assert (PosS : Forall (fun x => 0 < val0 w x) s).
  { eapply Permutation_Forall; [symmetry; exact Perm|exact Pos]. }
  assert (ES : S == tot w s).
  { unfold S. rewrite sum_fits_tot. apply tot_perm. symmetry; exact Perm. }
  assert (HS : 0 < S).
  { rewrite ES. apply tot_pos; [exact PosS|]. intro E. rewrite E in Perm. apply Permutation_nil in Perm. contradiction. }
  unfold selRoulette in H. fold s in H. fold S in H.
  rewrite (positive_has_val0 _ _ Pos) in H. cbn [negb] in H.
  inv_bind H. apply ret_Ok in Hf as [<- <-].
  apply repeatM_steps in Hm as [L St].
  destruct (roulette_steps w s S PosS ES HS _ _ _ St) as (us & Eds & F2). subst ds.
  assert (E : exists out, a = map Some out /\ Forall2 (spin_selects w s S) us out).
  { clear L St. induction F2 as [|u o us os (x & -> & Hx) F2 IH].
    - exists []. split; [reflexivity|constructor].
    - destruct IH as (out & -> & F). exists (x :: out). split; [reflexivity|constructor; assumption]. }
  destruct E as (out & -> & F).
  assert (FM : flat_map opt_list (map Some out) = out).
  { clear. induction out; cbn; [reflexivity|rewrite IHout; reflexivity]. }
  rewrite FM. repeat split; auto.
  - rewrite map_length in L. exact L.
  - clear -F Perm. induction F as [|u x us out (_ & _ & j & Hn & _) F IH]; constructor; [|exact IH].
    eapply Permutation_in; [exact Perm|]. eapply nth_error_In; eauto.
  - exists us. split; [reflexivity|exact F].
Qed.

(* the share of the unit interval: spin u selects position j iff c_j/S <= u < c_{j+1}/S, an interval
   of length f_j/S *)
Lemma share_interval (c c' u S : Q) : 0 < S ->
  (c <= u * S /\ u * S < c') <-> (c / S <= u /\ u < c' / S).
Proof.
  intro HS. split; intros [H1 H2]; split.
  - apply Qle_shift_div_r; assumption.
  - apply Qlt_shift_div_l; assumption.
  - assert (c == (c / S) * S) by (field; lra). rewrite H. nra.
  - assert (c' == (c' / S) * S) by (field; lra). rewrite H. nra.
Qed.

Lemma share_length w l j x S : 0 < S -> nth_error l j = Some x ->
  cum w l (Datatypes.S j) / S - cum w l j / S == val0 w x / S.
Proof. intros HS Hn. rewrite (cum_S w l j x Hn). field. lra. Qed.
