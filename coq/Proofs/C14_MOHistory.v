(* C14 — StrategyMultiObjective over whole histories: from __init__, after any number of rounds,
   exactly mu parents, aligned well-formed per-parent lists, every invCholesky[i] . A[i] = I. *)
From Coq Require Import ZArith.
From mathcomp Require Import all_ssreflect all_algebra.
From DV Require Import Model.C14_exec Proofs.C14_RankOne Proofs.C14_Elitist Proofs.C14_MO Proofs.C14_Refine.
Import Order.TTheory GRing.Theory Num.Theory.
Set Implicit Arguments. Unset Strict Implicit. Unset Printing Implicit Defensive.
Local Open Scope ring_scope.

(* MO-CMA: along every history of generate / evaluate / update rounds every stored inverse factor
   is the inverse of its factor, there are exactly mu parents and all per-parent lists have mu
   well-formed entries. *)
Section MOHistory.
Variable R : rcfType.
Variable exp_ : R -> R.
Variable round_ : R -> R.
Notation RO := (ROps exp_ round_).
Variables (n d : nat).
Variable P : mparams (T:=R).
Variable evalf : seq R -> seq R.
Hypothesis ccov01 : 0 < mp_ccov P < 1.
Hypothesis cc01 : 0 <= mp_cc P <= 1.
Hypothesis mu_pos : (0 < mp_mu P)%nat.
Hypothesis lam_pos : (0 < mp_lambda P)%nat.
Hypothesis evalf_size : forall x, size (evalf x) = d.
Notation mindR := (mind (T:=R)).
Notation mu := (mp_mu P).

Definition minv (st : mstate (T:=R)) : Prop :=
  [/\ wf_ms n st, inv_ok_ms n st,
      [/\ size (ms_parents st) = mu, size (ms_pfits st) = mu & size (ms_sigmas st) = mu] &
      all (fun w : seq R => size w == d) (ms_pfits st)].

Definition good (ind : mindR) : bool :=
  [&& (mi_pidx ind < mu)%nat, wfv n (mi_x ind) & size (mi_wv ind) == d].

Lemma all_map2 (A B C : Type) (p : pred C) (f : A -> B -> C) (pa : pred A) (pb : pred B) u v :
  (forall a b, pa a -> pb b -> p (f a b)) -> all pa u -> all pb v -> all p (map2 f u v).
Proof.
move=> h; elim: u v => [|a u IH] [|b v] //= /andP[ha hu] /andP[hb hv].
by rewrite h //= IH.
Qed.

Lemma nd_front_lt (wvs : seq (seq R)) :
  all (fun w => size w == d) wvs ->
  all (fun i => (i < size wvs)%nat) (flatten (nd_fronts RO wvs)).
Proof.
move=> szs; apply/allP => i; rewrite (perm_mem (nd_fronts_perm exp_ round_ szs)).
by rewrite mem_iota add0n.
Qed.

Lemma pidx_ok (st : mstate (T:=R)) (js : seq nat) : minv st ->
  all (fun p => (p < mu)%nat)
      (if Nat.eqb (mp_lambda P) mu then List.seq 0 (mp_lambda P)
       else List.map (fun j => List.nth j (List.hd [::] (nd_fronts RO (ms_pfits st))) 0%nat) js).
Proof.
case=> _ _ [sp sf ss] szs; rewrite eqbE; case: eqP => [->|_].
  by rewrite List_seqE; apply/allP => i; rewrite mem_iota add0n.
rewrite List_mapE all_map; apply/allP => j _ /=; rewrite List_nthE.
have := nd_front_lt szs; rewrite sf.
case: (nd_fronts RO (ms_pfits st)) => [|f0 fr] /=; first by rewrite nth_nil.
rewrite all_cat => /andP[h0 _].
case: (ltnP j (size f0)) => [lt|ge]; last by rewrite nth_default.
exact: (all_nthP 0%nat h0).
Qed.

Lemma generate_good (st : mstate (T:=R)) arz js : minv st ->
  all good [seq mkMI xp.1 (evalf xp.1) true xp.2 | xp <- mo_generate RO P st arz js].
Proof.
move=> mi; have pk := pidx_ok js mi; case: mi => [[wp wA _ _ [sA _ _]] _ [sp _ _] _].
rewrite all_map /mo_generate.
apply: (@all_map2 _ _ _ _ _ predT (fun p => (p < mu)%nat) _ _ _ (all_predT _) pk) => z p _ lt /=.
rewrite /good /= lt evalf_size eqxx andbT.
apply: wfv_map2; first by apply: all_nth' => //; rewrite sp.
rewrite wfv_vscale; apply: wfv_mv; apply: all_nth' => //; by rewrite sA sp.
Qed.


Lemma candidates_good (st : mstate (T:=R)) (pop : seq mindR) : minv st -> all good pop ->
  all good (mo_candidates st pop).
Proof.
case=> [[wp _ _ _ _] _ [sp sf _] szs] gp; rewrite /mo_candidates List_appE all_cat gp /=.
rewrite List_seqE List_lengthE List_combineE sp.
have : all (fun xw : seq R * seq R => wfv n xw.1 && (size xw.2 == d)) (zip (ms_parents st) (ms_pfits st)).
  elim: (ms_parents st) (ms_pfits st) wp szs {sp sf} => [|x xs IH] [|w ws] //= /andP[-> wxs] /andP[-> wws] /=.
  exact: IH.
have : all (fun i => (i < mu)%nat) (iota 0 mu) by apply/allP => i; rewrite mem_iota add0n.
move=> h1 h2; apply: (all_map2 _ h1 h2) => i xw lt /andP[wx sw].
by rewrite /good /= lt wx sw.
Qed.

(* the hypothesis on the indicator for one update: its successive results are positions of the
   current mid front (numpy.argmax guarantees it) *)
Definition hv_ok_for (wvs : seq (seq R)) (hv : seq nat) : bool :=
  let fronts := nd_fronts RO wvs in
  let j := nfit mu fronts 0 in
  let fj := nth [::] fronts j in
  let k := (mu - size (flatten (take j fronts)))%nat in
  hv_ok (size fj - k) fj hv.

Lemma update_inv (st : mstate (T:=R)) (pop : seq mindR) hv : minv st -> all good pop -> (0 < size pop)%nat ->
  hv_ok_for [seq mi_wv c | c <- mo_candidates st pop] hv ->
  minv (mo_update RO P st pop hv).1.1.1.
Proof.
move=> mi gp ne hok.
have gc := candidates_good mi gp.
case: (mi) => [wf ok [sp sf ss] szs].
rewrite /mo_update; cbv zeta; rewrite !List_mapE.
set cands := mo_candidates st pop in gc hok *.
set wvs := [seq mi_wv c | c <- cands] in hok *.
have szw : all (fun w : seq R => size w == d) wvs.
  by rewrite all_map; apply: sub_all gc => c /and3P[].
have lt : (mu < size wvs)%nat.
  rewrite size_map /cands /mo_candidates List_appE size_cat size_map2 List_seqE List_lengthE List_combineE.
  rewrite size_iota size_zip sp sf !minnn -[X in (X < _)%nat]add0n ltn_add2r.
  exact: ne.
have := mo_select_exactly_mu_R szw lt hok.
case: (mo_select _ _ _ _) => [[chosen_i nc_i] seen] [szc pm] /=.
set chosen := [seq List.nth i cands (@dummy_ind R) | i <- chosen_i].
set not_chosen := [seq List.nth i cands (@dummy_ind R) | i <- nc_i].
have gch : all good chosen.
  rewrite all_map; apply/allP => i iin /=.
  have : i \in iota 0 (size wvs) by rewrite -(perm_mem pm) mem_cat iin.
  rewrite mem_iota add0n size_map /= => ilt.
  by rewrite List_nthE; exact: (all_nthP _ gc).
have inr : all (fun ind : mindR => (mi_pidx ind < size (ms_parents st))%nat && wfv n (mi_x ind)) chosen.
  by apply: sub_all gch => c /and3P[h1 h2 _]; rewrite sp h1 h2.
have [wf' ok'] := @mo_update_core_inverse _ exp_ round_ n P st chosen not_chosen wf ok ccov01 cc01 inr.
have [s1 s2 [s3 s4] s5 s6] := mo_update_core_sizes RO P st chosen not_chosen.
have := mo_update_core_aligned RO P st chosen not_chosen.
case: (mo_loop_chosen _ _ _ _ _ _) => [[recs psL1] sgL1].
case: (mo_loop_not_chosen _ _ _ _ _) => psL sgL [[_ Ef] _ _ _ _].
have szch : size chosen = mu by rewrite size_map.
split=> //; first by rewrite s1 s2 Ef size_map szch.
by rewrite Ef all_map; apply: sub_all gch => c /and3P[].
Qed.

(* one generate / evaluate / update round *)
Theorem mo_round_inv (st : mstate (T:=R)) arz js hv : minv st ->
  size arz = mp_lambda P -> (mp_lambda P != mu -> size js = mp_lambda P) ->
  hv_ok_for [seq mi_wv c | c <- mo_candidates st
                [seq mkMI xp.1 (evalf xp.1) true xp.2 | xp <- mo_generate RO P st arz js]] hv ->
  minv (mo_round RO P evalf st arz js hv).
Proof.
move=> mi sa sj hok; rewrite /mo_round List_mapE.
have gp := generate_good arz js mi.
have ne : (0 < size [seq mkMI xp.1 (evalf xp.1) true xp.2 | xp <- mo_generate RO P st arz js])%nat.
  rewrite size_map /mo_generate size_map2 sa eqbE.
  case E: (mp_lambda P == mu); first by rewrite List_seqE size_iota minnn.
  by rewrite List_mapE size_map (sj (negbT E)) minnn.
have := update_inv mi gp ne hok.
by case: (mo_update _ _ _ _ _) => [[[st' c1] c2] c3].
Qed.

(* a history: draws = (arz, js, hv) per round; the side conditions on the draws of every round *)
Fixpoint draws_ok (st : mstate (T:=R)) (draws : seq (seq (seq R) * seq nat * seq nat)) : Prop :=
  match draws with
  | [::] => True
  | (arz, js, hv) :: rest =>
      [/\ size arz = mp_lambda P, (mp_lambda P != mu -> size js = mp_lambda P),
          hv_ok_for [seq mi_wv c | c <- mo_candidates st
                [seq mkMI xp.1 (evalf xp.1) true xp.2 | xp <- mo_generate RO P st arz js]] hv &
          draws_ok (mo_round RO P evalf st arz js hv) rest]
  end.

Theorem mo_history_inv (st0 : mstate (T:=R)) draws :
  minv st0 -> draws_ok st0 draws -> minv (mo_run RO P evalf st0 draws).
Proof.
elim: draws st0 => [|[[arz js] hv] draws IH] st0 mi //= [sa sj hok rest].
by apply: IH rest; exact: mo_round_inv.
Qed.


(* the state built by __init__ satisfies the invariant *)
Lemma List_repeatE (A : Type) (x : A) m : List.repeat x m = nseq m x.
Proof. by elim: m => //= m ->. Qed.

Lemma identity_from_row k i : (k <= n)%nat -> (i < k)%nat ->
  nth [::] (identity_from RO n k) i = nseq (n - k + i) 0 ++ 1 :: nseq (k - i).-1 0.
Proof.
elim: k i => [|k IH] i // kn; rewrite ltnS => ik /=.
rewrite !List_repeatE minusE; case: i ik => [|i] ik /=; first by rewrite addn0.
by rewrite IH ?(ltnW kn) // subSS addnS -addSn subnSK.
Qed.

Lemma size_identity_from k : size (identity_from RO n k) = k.
Proof. by elim: k => //= k ->. Qed.

Lemma mx_of_identity : mx_of n (identity RO n) = 1%:M.
Proof.
apply/matrixP => i j; rewrite !mxE /identity identity_from_row // subnn add0n.
rewrite nth_cat size_nseq; case: (ltngtP j i) => [lt|gt|/val_inj ->].
- by rewrite nth_nseq lt; move: lt; rewrite ltn_neqAle eq_sym => /andP[/negbTE ne _]; rewrite -val_eqE /= ne.
- have -> : (j - i = (j - i).-1.+1)%nat by rewrite prednK // subn_gt0.
  rewrite /= nth_nseq if_same.
  by move: gt; rewrite ltn_neqAle => /andP[/negbTE ne _]; rewrite -val_eqE /= ne.
- by rewrite subnn eqxx.
Qed.

Lemma wfm_identity : wfm n (identity RO n).
Proof.
rewrite /wfm /identity size_identity_from eqxx /=.
apply/(all_nthP [::]) => i; rewrite size_identity_from => lt.
rewrite identity_from_row // /wfv size_cat /= !size_nseq subnn add0n.
by rewrite prednK ?subn_gt0 // subnKC // ltnW.
Qed.

Theorem mo_init_inv (population : seq (seq R * seq R)) sigma :
  size population = mu -> all (fun xw : seq R * seq R => wfv n xw.1 && (size xw.2 == d)) population ->
  minv (mo_init RO n P population sigma).
Proof.
move=> sz ok; rewrite /mo_init !List_mapE !List_repeatE List_lengthE sz.
split; rewrite /= ?size_map ?size_nseq //.
- split; rewrite /= ?size_nseq ?size_map //.
  + by rewrite all_map; apply: sub_all ok => xw /andP[].
  + by apply/allP => A /nseqP[-> _]; exact: wfm_identity.
  + by apply/allP => A /nseqP[-> _]; exact: wfm_identity.
  + by apply/allP => v /nseqP[-> _]; rewrite /wfv /zeros List_repeatE size_nseq.
- rewrite /inv_ok_ms /=; apply/(all_nthP ([::], [::])) => i; rewrite size_zip !size_nseq minnn => lt.
  by rewrite nth_zip ?size_nseq //= !nth_nseq lt mx_of_identity mul1mx.
- by rewrite all_map; apply: sub_all ok => xw /andP[].
Qed.

(* every history from __init__: exactly mu parents, aligned well-formed lists, every stored
   inverse factor is the inverse of its factor *)
Theorem mo_history_from_init (population : seq (seq R * seq R)) sigma draws :
  size population = mu -> all (fun xw : seq R * seq R => wfv n xw.1 && (size xw.2 == d)) population ->
  draws_ok (mo_init RO n P population sigma) draws ->
  minv (mo_run RO P evalf (mo_init RO n P population sigma) draws).
Proof. by move=> sz ok; apply: mo_history_inv; exact: mo_init_inv. Qed.

End MOHistory.
