(* C13 — tie (T): the definitions regenerated from the current text of deap/cma.py
   (coq/Gen/C13_gen.v, written by harness/c13_py2coq.py on every run) are the hand model
   Model/C13_CMAexec.v, for every number type and all arguments.

   The scripts do not depend on the shape of the generated text beyond "a chain of lets over the
   vocabulary of Model/C13_GenRt.v": lets are removed (so renamed / hoisted locals and reordered
   independent statements go through), the vocabulary is unfolded to maps over [seq], maps are fused,
   the arange lengths are normalised by arithmetic, the scheme is case-split, and what is left must
   be syntactically the model (operator order of every arithmetic expression included: the number
   record has no laws, so a re-association IS a difference here, as it is for floats).
   A refused unit is an alias of the model and goes through the same script. *)
From Coq Require Import List Bool Arith Lia PrimFloat.
From DV Require Import Base.C13_FloatFun Model.C13_CMAexec Model.C13_GenRt Gen.C13_gen.
Import ListNotations.

Lemma add_sub_l (n m : nat) : n + m - n = m.
Proof. lia. Qed.

Ltac gunfold :=
  unfold g_ssub, g_vlog, g_arange, g_vdivs, g_vpow, g_ones, g_max, g_min, g_of_bool, g_leb,
         pymax0, pymin, raw_weights, hsig_of, hsig_lhs, hsig_rhs, m_sigma_of in *.

(* close a goal that is an equality of two terms equal up to natural-number arithmetic *)
Ltac gclose :=
  first [ reflexivity
        | solve [ repeat (f_equal; try reflexivity; try lia) ] ].

Ltac gnorm :=
  cbv zeta; gunfold;
  rewrite ?map_map, ?Nat.add_sub, ?add_sub_l, ?Nat.sub_0_r.

(* ---- Strategy.computeParams ----------------------------------------------------------------- *)
Lemma gen_computeParams_eq :
  forall (T : Type) (Nm : Num T) (dim lambda_ : nat) (chiN : T) (k : kargs),
    gen_computeParams Nm dim lambda_ chiN k = compute_params Nm dim lambda_ chiN k.
Proof.
  intros. unfold gen_computeParams, compute_params. gnorm.
  destruct (k_weights k); gnorm; gclose.
Qed.

(* ---- Strategy.update: the scalar statements ------------------------------------------------- *)
Lemma gen_hsig_eq :
  forall (T : Type) (Nm : Num T) (P : params) (st : state) (ps : list T),
    gen_hsig Nm P st ps = hsig_of Nm P st ps.
Proof. intros. unfold gen_hsig. gnorm. gclose. Qed.

Lemma gen_sigma_eq :
  forall (T : Type) (Nm : Num T) (P : params) (st : state) (ps : list T),
    gen_sigma Nm P st ps = m_sigma_of Nm P st ps.
Proof. intros. unfold gen_sigma. gnorm. gclose. Qed.

Lemma gen_count_eq :
  forall (T : Type) (Nm : Num T) (P : params) (st : state) (ps : list T),
    gen_count Nm P st ps = S (s_count st).
Proof. intros. unfold gen_count. cbv zeta. lia. Qed.

(* the named forms are what the hand model's update computes *)
Lemma update_core_sigma :
  forall (T : Type) (Nm : Num T) eigh (P : params) (st : state) (spop : list (list T)) (hsig : T),
    s_sigma (update_core Nm eigh P st spop hsig)
    = m_sigma_of Nm P st (new_ps Nm P st (vsub Nm (new_centroid Nm P spop) (s_centroid st))).
Proof.
  intros. unfold update_core. cbv zeta.
  match goal with |- context [decompose ?a ?b ?c] => destruct (decompose a b c) as [[? ?] ?] end.
  reflexivity.
Qed.

Lemma update_core_count :
  forall (T : Type) (Nm : Num T) eigh (P : params) (st : state) (spop : list (list T)) (hsig : T),
    s_count (update_core Nm eigh P st spop hsig) = S (s_count st).
Proof.
  intros. unfold update_core. cbv zeta.
  match goal with |- context [decompose ?a ?b ?c] => destruct (decompose a b c) as [[? ?] ?] end.
  reflexivity.
Qed.

Section Update.
Context {T : Type} (Nm : Num T) (eigh : list (list T) -> list T * list (list T)).
Variables (P : @params T) (st : @state T) (pop : list (list T * list T)).
Let spop := map snd (sort_pop Nm pop).
Let ps' := new_ps Nm P st (vsub Nm (new_centroid Nm P spop) (s_centroid st)).

(* update = everything else of the hand model, run with the REGENERATED h_sigma *)
Lemma gen_update_hsig :
  update Nm eigh P st pop = update_core Nm eigh P st spop (gen_hsig Nm P st ps').
Proof. exact (f_equal (update_core Nm eigh P st spop) (eq_sym (gen_hsig_eq T Nm P st ps'))). Qed.

(* the step size after update is the REGENERATED step-size statement on the new path ps *)
Lemma gen_update_sigma :
  s_sigma (update Nm eigh P st pop) = gen_sigma Nm P st ps'.
Proof. exact (eq_trans (update_core_sigma T Nm eigh P st spop _) (eq_sym (gen_sigma_eq T Nm P st ps'))). Qed.

Lemma gen_update_count :
  s_count (update Nm eigh P st pop) = gen_count Nm P st ps'.
Proof. exact (eq_trans (update_core_count T Nm eigh P st spop _) (eq_sym (gen_count_eq T Nm P st ps'))). Qed.
End Update.

(* ---- Strategy.__init__: chiN ------------------------------------------------------------------- *)
Lemma gen_chiN_eq :
  forall (T : Type) (Nm : Num T) (dim : nat), gen_chiN Nm dim = chiN_of Nm dim.
Proof. intros. unfold gen_chiN, chiN_of. gnorm. gclose. Qed.

(* the chiN attribute of a freshly constructed strategy is the REGENERATED expression at len(centroid) *)
Lemma gen_init_chiN :
  forall (T : Type) (Nm : Num T) eigh dl (centroid : list T) (sigma : T) (k : kargs),
    p_chiN (fst (init Nm eigh dl centroid sigma k)) = gen_chiN Nm (length centroid).
Proof.
  intros. rewrite gen_chiN_eq. unfold init. cbv zeta.
  match goal with |- context [decompose ?a ?b ?c] => destruct (decompose a b c) as [[? ?] ?] end.
  reflexivity.
Qed.

(* ---- Strategy.__init__: default lambda_ (float instance) ------------------------------------- *)
Lemma gen_default_lambda_eq : forall dim : nat, gen_default_lambda dim = default_lambda dim.
Proof. intros. unfold gen_default_lambda, default_lambda. reflexivity. Qed.
