(* C13 — refinement: the executable list model (Model/C13_CMAexec.v, the one evaluated against
   /repo by the correspondence), instantiated at an arbitrary real closed field R with the oracles
   exp/ln, computes -- under the abstraction  list -> row vector, list of rows -> matrix --
   exactly the algebraic model (Model/C13_CMAalg.v) about which the C13 theorems are proved:
   computeParams, __init__, generate and update (after its sort).  The argsort permutation of the
   algebraic model is CONSTRUCTED from the executable argsort (shown to be a permutation); the eigh
   oracles of the two models are related by hypothesis (satisfied by the recorded-value oracle the
   correspondence uses, see exec_update_refines_recorded). *)
From mathcomp Require Import all_ssreflect fingroup perm all_algebra.
From DV Require Model.C13_CMAexec Model.C13_CMAalg Model.C13_CMAspec Proofs.C13_CMAalg.
Set Implicit Arguments.
Unset Strict Implicit.
Unset Printing Implicit Defensive.
Import GRing.Theory Num.Theory Order.TTheory.
Local Open Scope ring_scope.
Module E := DV.Model.C13_CMAexec.
Module A := DV.Model.C13_CMAalg.
Module S := DV.Model.C13_CMAspec.
Module AP := DV.Proofs.C13_CMAalg.

(* ---- Coq.Lists.List vs mathcomp seq ---- *)
Section Bridge.
Variables (T U V : Type).
Lemma lmapE (f : T -> U) l : List.map f l = map f l. Proof. by []. Qed.
Lemma lfoldE (f : U -> T -> U) l a : List.fold_left f l a = foldl f a l.
Proof. by elim: l a => //=. Qed.
Lemma lnthE (l : seq T) k d : List.nth k l d = nth d l k.
Proof. by elim: l k => [|x l IH] [|k] //=. Qed.
Lemma lseqE a k : List.seq a k = iota a k. Proof. by []. Qed.
Lemma lfirstnE k (l : seq T) : List.firstn k l = take k l.
Proof. by elim: k l => [|k IH] [|x l] //=; rewrite IH. Qed.
Lemma lcombineE (a : seq T) (b : seq U) : List.combine a b = zip a b.
Proof. by elim: a b => [|x a IH] [|y b] //=; rewrite IH. Qed.
Lemma lrepeatE (x : T) k : List.repeat x k = nseq k x. Proof. by elim: k => //= k ->. Qed.
Lemma llengthE (l : seq T) : length l = size l. Proof. by []. Qed.
End Bridge.

Section Refine.
Variable R : rcfType.
Variables exp ln : R -> R.

Definition RNum : E.Num R :=
  @E.mkNum R (fun k : nat => k%:R) +%R (fun x y => x - y) *%R (fun x y => x / y)
          Num.sqrt exp ln (fun x y => x < y) (fun x y => x == y).
Local Notation RN := RNum.

(* abstraction functions: list -> row vector, list of rows -> matrix *)
Definition rvL k (v : seq R) : 'rV[R]_k := \row_j nth 0 v j.
Definition mxL m k (M : seq (seq R)) : 'M[R]_(m, k) := \matrix_(i, j) nth 0 (nth [::] M i) j.
Definition mshape m k (M : seq (seq R)) : bool := (size M == m) && all (fun r => size r == k) M.

Lemma mshape_size m k M : mshape m k M -> size M = m.
Proof. by case/andP => /eqP. Qed.
Lemma mshape_row m k M i : mshape m k M -> (i < m)%N -> size (nth [::] M i) = k.
Proof.
case/andP => /eqP sz /allP al im; apply/eqP/al/mem_nth; by rewrite sz.
Qed.
Lemma mshapeP m k M : size M = m -> (forall i, (i < m)%N -> size (nth [::] M i) = k) -> mshape m k M.
Proof.
move=> sz rows; rewrite /mshape sz eqxx /=; apply/(all_nthP [::]) => i; rewrite sz => im.
by rewrite rows.
Qed.

(* map2 *)
Lemma size_map2 (f : R -> R -> R) a b : size a = size b -> size (E.map2 f a b) = size a.
Proof. by elim: a b => [|x a IH] [|y b] //= [] /IH ->. Qed.
Lemma nth_map2 (f : R -> R -> R) a b j :
  size a = size b -> f 0 0 = 0 -> nth 0 (E.map2 f a b) j = f (nth 0 a j) (nth 0 b j).
Proof.
move=> sz f0; elim: a b sz j => [|x a IH] [|y b] //= => [_ j|[sz] [|j]] //=.
  by rewrite !nth_nil.
exact: IH.
Qed.

Lemma size_vadd u v : size u = size v -> size (E.vadd RN u v) = size u.
Proof. exact: size_map2. Qed.
Lemma size_vsub u v : size u = size v -> size (E.vsub RN u v) = size u.
Proof. exact: size_map2. Qed.
Lemma size_vmul u v : size u = size v -> size (E.vmul RN u v) = size u.
Proof. exact: size_map2. Qed.
Lemma size_vscale a v : size (E.vscale RN a v) = size v.
Proof. by rewrite /E.vscale lmapE size_map. Qed.

Lemma rv_vadd k u v : size u = size v -> rvL k (E.vadd RN u v) = rvL k u + rvL k v.
Proof. by move=> sz; apply/rowP => j; rewrite !mxE nth_map2 //= addr0. Qed.
Lemma rv_vsub k u v : size u = size v -> rvL k (E.vsub RN u v) = rvL k u - rvL k v.
Proof. by move=> sz; apply/rowP => j; rewrite !mxE nth_map2 //= subr0. Qed.
Lemma nth_vmul u v j : size u = size v -> nth 0 (E.vmul RN u v) j = nth 0 u j * nth 0 v j.
Proof. by move=> sz; rewrite nth_map2 //= mulr0. Qed.
Lemma nth_vscale a v j : nth 0 (E.vscale RN a v) j = a * nth 0 v j.
Proof.
rewrite /E.vscale lmapE; case: (ltnP j (size v)) => h; first by rewrite (nth_map 0).
by rewrite !nth_default ?size_map // mulr0.
Qed.
Lemma rv_vscale k a v : rvL k (E.vscale RN a v) = a *: rvL k v.
Proof. by apply/rowP => j; rewrite !mxE nth_vscale. Qed.

(* sums *)
Lemma vsumE v : E.vsum RN v = \sum_(j < size v) nth 0 v j.
Proof.
rewrite /E.vsum lfoldE /=.
have -> : foldl +%R (0%:R : R) v = \sum_(x <- v) x.
  have : forall a, foldl +%R a v = a + \sum_(x <- v) x.
    elim: v => [|x v IH] a /=; first by rewrite big_nil addr0.
    by rewrite IH big_cons addrA.
  by move=> ->; rewrite add0r.
by rewrite (big_nth 0) big_mkord.
Qed.

Lemma dotE k u v : size u = k -> size v = k ->
  E.dot RN u v = (rvL k u *m (rvL k v)^T) 0 0.
Proof.
move=> su sv; rewrite /E.dot vsumE size_vmul ?su ?sv // mxE.
by apply: eq_bigr => j _; rewrite nth_vmul ?su ?sv // !mxE.
Qed.

Lemma normE k v : size v = k -> E.norm RN v = A.norm (rvL k v).
Proof. by move=> sv; rewrite /E.norm /A.norm /= (dotE sv sv). Qed.


(* ---- matrices ------------------------------------------------------------------------------ *)
Lemma mxL_row m k M (i : 'I_m) : row i (mxL m k M) = rvL k (nth [::] M i).
Proof. by apply/rowP => j; rewrite !mxE. Qed.

(* numpy.dot(M, v) *)
Lemma size_matvec M v : size (E.matvec RN M v) = size M.
Proof. by rewrite /E.matvec lmapE size_map. Qed.
Lemma rv_matvec m k M v : mshape m k M -> size v = k ->
  rvL m (E.matvec RN M v) = rvL k v *m (mxL m k M)^T.
Proof.
move=> sh sv; apply/rowP => i; rewrite /E.matvec lmapE mxE.
rewrite (nth_map [::]) ?(mshape_size sh) // (dotE (mshape_row sh (ltn_ord i)) sv).
rewrite !mxE; apply: eq_bigr => j _; by rewrite !mxE mulrC.
Qed.

(* numpy.dot(v, M) : fold over the rows *)
Lemma vecmat_fold k (l : seq (R * seq R)) acc :
  size acc = k -> all (fun p => size p.2 == k) l ->
  let r := foldl (fun a p => E.vadd RN a (E.vscale RN p.1 p.2)) acc l in
  size r = k /\ rvL k r = rvL k acc + \sum_(p <- l) p.1 *: rvL k p.2.
Proof.
elim: l acc => [|p l IH] acc sa /=; first by rewrite big_nil addr0.
case/andP => /eqP sp al.
have sz : size acc = size (E.vscale RN p.1 p.2) by rewrite size_vscale sa sp.
have [|s1 ->] := IH (E.vadd RN acc (E.vscale RN p.1 p.2)) _ al; first by rewrite size_vadd.
by split=> //; rewrite rv_vadd // rv_vscale big_cons addrA.
Qed.

Lemma all_zip2 k (v : seq R) (M : seq (seq R)) :
  all (fun r => size r == k) M -> all (fun p : R * seq R => size p.2 == k) (zip v M).
Proof. by elim: M v => [|r M IH] [|x v] //= /andP [-> aM] /=; exact: IH. Qed.

Lemma vecmat_spec m k v M : size v = m -> mshape m k M ->
  size (E.vecmat RN k v M) = k /\ rvL k (E.vecmat RN k v M) = rvL m v *m mxL m k M.
Proof.
move=> sv sh; rewrite /E.vecmat lfoldE lcombineE /E.zeros lrepeatE.
have al : all (fun p : R * seq R => size p.2 == k) (zip v M).
  by case/andP: (sh) => _; exact: all_zip2.
have [|s1 e1] := vecmat_fold (acc := nseq k (0%:R : R)) _ al; first by rewrite size_nseq.
split=> //; rewrite e1.
have -> : rvL k (nseq k (0%:R : R)) = 0 by apply/rowP => j; rewrite !mxE nth_nseq if_same.
rewrite add0r mulmx_sum_row (big_nth (0, [::])) size_zip sv (mshape_size sh) minnn big_mkord.
apply: eq_bigr => i _; rewrite nth_zip ?sv ?(mshape_size sh) //= mxL_row mxE.
by [].
Qed.

Lemma matmul_spec a m k A B : mshape a m A -> mshape m k B ->
  mshape a k (E.matmul RN k A B) /\ mxL a k (E.matmul RN k A B) = mxL a m A *m mxL m k B.
Proof.
move=> sA sB; rewrite /E.matmul lmapE.
have rowi i : (i < a)%N -> size (E.vecmat RN k (nth [::] A i) B) = k
     /\ rvL k (E.vecmat RN k (nth [::] A i) B) = rvL m (nth [::] A i) *m mxL m k B.
  by move=> ia; apply: vecmat_spec => //; exact: mshape_row sA ia.
split.
  apply: mshapeP; first by rewrite size_map (mshape_size sA).
  by move=> i ia; rewrite (nth_map [::]) ?(mshape_size sA) //; case: (rowi i ia).
apply/row_matrixP => i; rewrite row_mul !mxL_row (nth_map [::]) ?(mshape_size sA) //.
by case: (rowi i (ltn_ord i)).
Qed.

Lemma outer_spec k u v : size u = k -> size v = k ->
  mshape k k (E.outer RN u v) /\ mxL k k (E.outer RN u v) = (rvL k u)^T *m rvL k v.
Proof.
move=> su sv; rewrite /E.outer lmapE; split.
  apply: mshapeP; first by rewrite size_map.
  by move=> i ik; rewrite (nth_map 0) ?su // size_vscale.
apply/matrixP => i j; rewrite !mxE big_ord1 !mxE (nth_map 0) ?su // nth_vscale.
by [].
Qed.

Lemma transpose_spec m k M : mshape m k M ->
  mshape k m (E.transpose RN k M) /\ mxL k m (E.transpose RN k M) = (mxL m k M)^T.
Proof.
move=> sh; rewrite /E.transpose lmapE lseqE; split.
  apply: mshapeP; first by rewrite size_map size_iota.
  move=> j jk; rewrite (nth_map 0%N) ?size_iota // /E.column lmapE size_map.
  exact: mshape_size sh.
apply/matrixP => j i; rewrite !mxE (nth_map 0%N) ?size_iota // nth_iota // add0n.
rewrite /E.column lmapE (nth_map [::]) ?(mshape_size sh) //.
by rewrite lnthE.
Qed.

Lemma rowwise_spec m k (f : seq R -> seq R) M :
  mshape m k M -> (forall r, size r = k -> size (f r) = k) ->
  mshape m k (map f M) /\ forall i : 'I_m, nth [::] (map f M) i = f (nth [::] M i).
Proof.
move=> sh fs; split.
  apply: mshapeP; first by rewrite size_map (mshape_size sh).
  by move=> i im; rewrite (nth_map [::]) ?(mshape_size sh) // fs // (mshape_row sh).
by move=> i; rewrite (nth_map [::]) ?(mshape_size sh).
Qed.

Lemma colscale_spec m k M d : mshape m k M -> size d = k ->
  mshape m k (E.colscale RN M d) /\
  mxL m k (E.colscale RN M d) = \matrix_(i, j) (mxL m k M i j * rvL k d 0 j).
Proof.
move=> sh sd; rewrite /E.colscale lmapE.
have fs : forall r, size r = k -> size (E.vmul RN r d) = k by move=> r sr; rewrite size_vmul ?sr ?sd.
have [sh' nt] := rowwise_spec sh fs.
split=> //; apply/matrixP => i j; rewrite !mxE nt nth_vmul ?(mshape_row sh) ?sd //.
Qed.

Lemma rowbcast_spec m k w M : mshape m k M -> size w = k ->
  mshape m k (E.rowbcast RN w M) /\
  mxL m k (E.rowbcast RN w M) = \matrix_(i, j) (rvL k w 0 j * mxL m k M i j).
Proof.
move=> sh sw; rewrite /E.rowbcast lmapE.
have fs : forall r, size r = k -> size (E.vmul RN w r) = k by move=> r sr; rewrite size_vmul ?sr ?sw.
have [sh' nt] := rowwise_spec sh fs.
split=> //; apply/matrixP => i j; rewrite !mxE nt nth_vmul ?(mshape_row sh) ?sw //.
Qed.

Lemma mscale_spec m k a M : mshape m k M ->
  mshape m k (E.mscale RN a M) /\ mxL m k (E.mscale RN a M) = a *: mxL m k M.
Proof.
move=> sh; rewrite /E.mscale lmapE.
have fs : forall r, size r = k -> size (E.vscale RN a r) = k by move=> r sr; rewrite size_vscale.
have [sh' nt] := rowwise_spec sh fs.
by split=> //; apply/matrixP => i j; rewrite !mxE nt nth_vscale.
Qed.

Lemma mdivs_spec m k a M : mshape m k M ->
  mshape m k (E.mdivs RN M a) /\ mxL m k (E.mdivs RN M a) = a^-1 *: mxL m k M.
Proof.
move=> sh; rewrite /E.mdivs lmapE.
have fs : forall r : seq R, size r = k -> size (List.map (fun x => x / a) r) = k by move=> r sr; rewrite lmapE size_map.
have [sh' nt] := rowwise_spec sh fs.
split=> //; apply/matrixP => i j; rewrite !mxE nt lmapE.
rewrite (nth_map 0) ?(mshape_row sh) //= mulrC.
by [].
Qed.

Lemma madd_spec m k M N : mshape m k M -> mshape m k N ->
  mshape m k (E.madd RN M N) /\ mxL m k (E.madd RN M N) = mxL m k M + mxL m k N.
Proof.
move=> sM sN; rewrite /E.madd.
have szE : forall (A B : seq (seq R)), size A = size B ->
   size (E.map2 (E.vadd RN) A B) = size A
   /\ forall i, (i < size A)%N -> nth [::] (E.map2 (E.vadd RN) A B) i = E.vadd RN (nth [::] A i) (nth [::] B i).
  elim=> [|x A IH] [|y B] //= [] /IH [-> nt]; split=> // -[|i] //= ; exact: nt.
have [sz nt] := szE M N (etrans (mshape_size sM) (esym (mshape_size sN))).
split.
  apply: mshapeP; first by rewrite sz (mshape_size sM).
  move=> i im; rewrite nt ?(mshape_size sM) // size_vadd ?(mshape_row sM) ?(mshape_row sN) //.
apply/matrixP => i j; rewrite !mxE nt ?(mshape_size sM) //.
by rewrite nth_map2 ?(mshape_row sM) ?(mshape_row sN) //= addr0.
Qed.


Lemma npowE x k : E.npow RN x k = x ^+ k.
Proof. by elim: k => [|k IH] //=; rewrite IH exprS. Qed.

(* ---- argsort of the executable model is a permutation of the indices ------------------------------ *)
Section Argsort.
Variable k : nat.
Let lt2 := (fun a b : R * nat => E.n_ltb RN a.1 b.1).

Lemma insert_asc_perm x l : perm_eq (E.insert_asc lt2 x l) (x :: l).
Proof.
elim: l => [|y l IH] //=; case: ifP => _ //.
apply: perm_trans (_ : perm_eq _ (y :: x :: l)) _; first by rewrite perm_cons.
by rewrite -[y :: x :: l]/([:: y] ++ [:: x] ++ l) (perm_catCA [:: y] [:: x] l).
Qed.

Lemma sort_asc_perm l : perm_eq (E.sort_asc lt2 l) l.
Proof.
elim: l => [|x l IH] //=.
by rewrite (perm_trans (insert_asc_perm x _)) // perm_cons.
Qed.

Lemma argsort_perm w : size w = k -> perm_eq (E.argsort RN w) (iota 0 k).
Proof.
move=> sw; rewrite /E.argsort lmapE lcombineE lseqE llengthE sw.
have E2 : map snd (zip w (iota 0 k)) = iota 0 k by rewrite -/(unzip2 _) unzip2_zip // size_iota sw.
by rewrite -[X in perm_eq _ X]E2; apply: perm_map; exact: sort_asc_perm.
Qed.

Lemma argsort_size w : size w = k -> size (E.argsort RN w) = k.
Proof. by move=> sw; rewrite (perm_size (argsort_perm sw)) size_iota. Qed.

(* a permutation from an injective function on ordinals (identity otherwise) *)
Definition mkperm (f : 'I_k -> 'I_k) : 'S_k :=
  match @idP (injectiveb (finfun f)) with
  | ReflectT h => Perm h
  | ReflectF _ => 1%g
  end.
Lemma mkpermE f : injective f -> mkperm f =1 f.
Proof.
move=> fi j; rewrite /mkperm; case: {-}_ / idP => [h|[]].
  by rewrite PermDef.fun_of_permE /= ffunE.
by apply/injectiveP => x y; rewrite !ffunE; exact: fi.
Qed.

Definition list_of_rv (x : 'rV[R]_k) : seq R := [seq x 0 j | j <- enum 'I_k].
Lemma list_of_rvK w : size w = k -> list_of_rv (rvL k w) = w.
Proof.
move=> sw; apply: (@eq_from_nth _ 0); first by rewrite size_map size_enum_ord sw.
move=> j; rewrite size_map size_enum_ord => jk.
by rewrite (nth_map (Ordinal jk)) ?size_enum_ord // mxE nth_enum_ord.
Qed.

Definition argsort_fun (x : 'rV[R]_k) (j : 'I_k) : 'I_k :=
  insubd j (nth 0%N (E.argsort RN (list_of_rv x)) j).
Definition argsortA_of (x : 'rV[R]_k) : 'S_k := mkperm (argsort_fun x).

Lemma argsortA_ofE w : size w = k ->
  forall j : 'I_k, nth 0%N (E.argsort RN w) j = argsortA_of (rvL k w) j :> nat.
Proof.
move=> sw j.
have pe := argsort_perm sw.
have sz := argsort_size sw.
have lt_k i : (i < k)%N -> (nth 0%N (E.argsort RN w) i < k)%N.
  move=> ik; have : nth 0%N (E.argsort RN w) i \in iota 0 k.
    by rewrite -(perm_mem pe) mem_nth // sz.
  by rewrite mem_iota add0n.
have un : uniq (E.argsort RN w) by rewrite (perm_uniq pe) iota_uniq.
have inj : injective (argsort_fun (rvL k w)).
  move=> a b; rewrite /argsort_fun list_of_rvK // => /(congr1 val).
  rewrite !val_insubd !lt_k // => /eqP.
  by rewrite nth_uniq ?sz // => /eqP /val_inj.
by rewrite /argsortA_of mkpermE // /argsort_fun list_of_rvK // val_insubd lt_k.
Qed.
End Argsort.

(* ---- parameters, states ------------------------------------------------------------------------ *)
Variables n mu : nat.
Variable eighL : seq (seq R) -> seq R * seq (seq R).
Variable eighA : 'M[R]_n -> 'rV[R]_n * 'M[R]_n.
Variable argsortA : 'rV[R]_n -> 'S_n.

Definition wfP (P : @E.params R) : Prop :=
  [/\ E.p_dim P = n, E.p_mu P = mu & size (E.p_weights P) = mu].
Definition absP (P : @E.params R) : A.params R mu :=
  A.mkParams (rvL mu (E.p_weights P)) (E.p_mueff P) (E.p_cc P) (E.p_cs P) (E.p_ccov1 P)
             (E.p_ccovmu P) (E.p_damps P) (E.p_chiN P).

Definition wfS (st : @E.state R) : Prop :=
  [/\ size (E.s_centroid st) = n, size (E.s_pc st) = n, size (E.s_ps st) = n
    & size (E.s_diagD st) = n] /\ [/\ mshape n n (E.s_C st), mshape n n (E.s_B st) & mshape n n (E.s_BD st)].
Definition absS (st : @E.state R) : A.state R n :=
  A.mkState (rvL n (E.s_centroid st)) (E.s_sigma st) (rvL n (E.s_pc st)) (rvL n (E.s_ps st))
            (mxL n n (E.s_C st)) (mxL n n (E.s_B st)) (rvL n (E.s_diagD st))
            (mxL n n (E.s_BD st)) (E.s_count st).

(* the oracles of the two models return the same values *)
Hypothesis eigh_rel : forall C, mshape n n C ->
  [/\ size (eighL C).1 = n, mshape n n (eighL C).2
    & eighA (mxL n n C) = (rvL n (eighL C).1, mxL n n (eighL C).2)].
Hypothesis argsort_rel : forall w, size w = n ->
  size (E.argsort RN w) = n /\
  forall j : 'I_n, nth 0%N (E.argsort RN w) j = argsortA (rvL n w) j :> nat.

Lemma decompose_ref w V : size w = n -> mshape n n V ->
  let d := E.decompose RN n (w, V) in
  let dA := A.decompose argsortA (rvL n w, mxL n n V) in
  [/\ size d.1.1 = n, mshape n n d.1.2 & mshape n n d.2] /\
  [/\ rvL n d.1.1 = dA.1.1, mxL n n d.1.2 = dA.1.2 & mxL n n d.2 = dA.2].
Proof.
move=> sw sV; rewrite /E.decompose /A.decompose /=.
have [si ni] := argsort_rel sw.
set indx := E.argsort RN w in si ni *.
set dD := List.map _ indx.
set B := List.map _ V.
have sdD : size dD = n by rewrite /dD lmapE size_map.
have fs : forall r : seq R, size r = n -> size (List.map (fun i => List.nth i r (0%:R : R)) indx) = n.
  by move=> r _; rewrite lmapE size_map.
have [sB nB] := rowwise_spec sV fs.
have EdD : rvL n dD = \row_j Num.sqrt ((rvL n w) 0 (argsortA (rvL n w) j)).
  apply/rowP => j; rewrite !mxE /dD lmapE (nth_map 0%N) ?si // lnthE ni.
  by [].
have EB : mxL n n B = col_perm (argsortA (rvL n w)) (mxL n n V).
  apply/matrixP => i j; rewrite !mxE /B lmapE nB lmapE (nth_map 0%N) ?si // lnthE ni.
  by [].
have [sBD EBD] := colscale_spec sB sdD.
by split; split=> //; rewrite EBD EB EdD.
Qed.


(* ---- the update ------------------------------------------------------------------------------- *)
Section Update.
Variables (P : @E.params R) (st : @E.state R) (spop : seq (seq R)).
Hypothesis wP : wfP P.
Hypothesis wS : wfS st.
Hypothesis spop_len : (mu <= size spop)%N.
Hypothesis spop_rows : all (fun x => size x == n) spop.

Let Xl := take mu spop.
Lemma Xl_shape : mshape mu n Xl.
Proof.
by rewrite /mshape /Xl size_takel // eqxx /=; apply/allP => x /mem_take xin; exact: (allP spop_rows).
Qed.

Let X := mxL mu n Xl.
Let PA := absP P.
Let stA := absS st.

Lemma new_centroid_ref :
  size (E.new_centroid RN P spop) = n /\
  rvL n (E.new_centroid RN P spop) = A.p_weights PA *m X.
Proof.
rewrite /E.new_centroid lfirstnE; case: wP => -> -> sw.
exact: (vecmat_spec sw Xl_shape).
Qed.

Lemma new_ps_ref c : size c = n ->
  size (E.new_ps RN P st c) = n /\
  rvL n (E.new_ps RN P st c) =
    (1 - A.p_cs PA) *: A.s_ps stA
    + (Num.sqrt (A.p_cs PA * (2%:R - A.p_cs PA) * A.p_mueff PA) / A.s_sigma stA)
      *: A.dotMv (A.s_B stA) (A.emul (A.einv (A.s_diagD stA)) (A.dotMv (A.s_B stA)^T (rvL n c))).
Proof.
move=> sc; case: wS => [[sce spc sps sd] [sC sB _]]; case: wP => dimP _ _.
rewrite /E.new_ps dimP.
have [sBt EBt] := transpose_spec sB.
have s1 : size (E.matvec RN (E.transpose RN n (E.s_B st)) c) = n by rewrite size_matvec (mshape_size sBt).
set inv := List.map _ (E.s_diagD st).
have sinv : size inv = n by rewrite /inv lmapE size_map.
have s2 : size (E.vmul RN inv (E.matvec RN (E.transpose RN n (E.s_B st)) c)) = n by rewrite size_vmul ?sinv ?s1.
have s3 : size (E.matvec RN (E.s_B st) (E.vmul RN inv (E.matvec RN (E.transpose RN n (E.s_B st)) c))) = n.
  by rewrite size_matvec (mshape_size sB).
split; first by rewrite size_vadd !size_vscale ?sps ?s3.
rewrite rv_vadd ?size_vscale ?sps ?s3 // !rv_vscale; congr (_ + _ *: _).
rewrite (rv_matvec sB s2) /A.dotMv /=; congr (_ *m _).
apply/rowP => j; rewrite !mxE nth_vmul ?sinv ?s1 //.
rewrite /inv lmapE (nth_map 0) ?sd //; congr (_ * _).
have := rv_matvec sBt sc => /rowP /(_ j); rewrite !mxE => ->.
by rewrite EBt.
Qed.


Lemma hsig_ref ps : size ps = n ->
  E.hsig_of RN P st ps = A.hsig_of PA (A.s_count stA) (rvL n ps).
Proof.
move=> sps; case: wP => dimP _ _.
by rewrite /E.hsig_of /E.hsig_lhs /E.hsig_rhs npowE (normE sps) dimP.
Qed.

(* the update of the executable model after its sort: update = update_sorted_exec o sort_pop *)
Definition update_sorted_exec : @E.state R :=
  let c_diff := E.vsub RN (E.new_centroid RN P spop) (E.s_centroid st) in
  E.update_core RN eighL P st spop (E.hsig_of RN P st (E.new_ps RN P st c_diff)).

Theorem update_refines :
  wfS update_sorted_exec /\
  absS update_sorted_exec = A.update_sorted exp eighA argsortA PA stA X.
Proof.
case: (wS) => [[sce spc sps sd] [sC sB _]]; case: (wP) => dimP muP sw.
have [scen Ecen] := new_centroid_ref.
set cen := E.new_centroid RN P spop in scen Ecen.
have scd : size (E.vsub RN cen (E.s_centroid st)) = n by rewrite size_vsub ?scen ?sce.
have Ecd : rvL n (E.vsub RN cen (E.s_centroid st)) = A.p_weights PA *m X - A.s_centroid stA.
  by rewrite rv_vsub ?scen ?sce // Ecen.
have [snps Enps] := new_ps_ref scd.
have Ehs := hsig_ref snps.
rewrite /update_sorted_exec /E.update_core -/cen.
set cd := E.vsub RN cen (E.s_centroid st) in scd Ecd snps Enps Ehs *.
set nps := E.new_ps RN P st cd in snps Enps Ehs *.
set hs := E.hsig_of RN P st nps in Ehs *.
rewrite dimP muP.
(* pc *)
set pc := E.vadd RN _ (E.vscale RN _ cd).
have spc' : size pc = n by rewrite size_vadd !size_vscale ?spc ?scd.
have Epc : rvL n pc = (1 - A.p_cc PA) *: A.s_pc stA
     + (hs * Num.sqrt (A.p_cc PA * (2%:R - A.p_cc PA) * A.p_mueff PA) / A.s_sigma stA) *: rvL n cd.
  by rewrite rv_vadd ?size_vscale ?spc ?scd // !rv_vscale.
(* artmp *)
rewrite lfirstnE -/Xl.
set artmp := List.map _ Xl.
have fsub : forall r, size r = n -> size (E.vsub RN r (E.s_centroid st)) = n by move=> r sr; rewrite size_vsub ?sr ?sce.
have [sart nart] := rowwise_spec Xl_shape fsub.
have Eart : mxL mu n artmp = A.subrow X (A.s_centroid stA).
  apply/matrixP => i j; rewrite !mxE /artmp lmapE nart.
  by rewrite nth_map2 ?(mshape_row Xl_shape) ?sce //= subr0.
have [sartT EartT] := transpose_spec (sart : mshape mu n artmp).
have [srb Erb] := rowbcast_spec sartT sw.
have [smm Emm] := matmul_spec srb (sart : mshape mu n artmp).
have [ssc Esc] := mscale_spec (E.p_ccovmu P) smm.
have [sdv Edv] := mdivs_spec (E.npow RN (E.s_sigma st) 2) ssc.
have [sou Eou] := outer_spec spc' spc'.
have [ssou Esou] := mscale_spec (E.p_ccov1 P) sou.
set a := E.n_add RN (E.n_sub RN _ (E.p_ccovmu P)) _.
have [saC EaC] := mscale_spec a sC.
have [sad1 Ead1] := madd_spec saC ssou.
have [sad2 Ead2] := madd_spec sad1 sdv.
set Cn := E.madd RN (E.madd RN _ _) _ in sad2 Ead2 *.
have [sew sev Eeg] := eigh_rel sad2.
case: (eighL Cn) sew sev Eeg => w V sew sev Eeg; rewrite /= in sew sev Eeg.
have [[sdD sB' sBD'] [EdD EB' EBD']] := decompose_ref sew sev.
case: (E.decompose RN n (w, V)) sdD sB' sBD' EdD EB' EBD' => [[dD B'] BD'] sdD sB' sBD' EdD EB' EBD'; rewrite /= in sdD sB' sBD' EdD EB' EBD'.
split; first by split; split.
rewrite /absS /A.update_sorted; cbv zeta.
cbn [E.s_centroid E.s_sigma E.s_pc E.s_ps E.s_C E.s_B E.s_diagD E.s_BD E.s_count].
have ECn : mxL n n Cn =
   (1 - A.p_ccov1 PA - A.p_ccovmu PA + (1 - hs) * A.p_ccov1 PA * A.p_cc PA * (2%:R - A.p_cc PA)) *: A.s_C stA
   + A.p_ccov1 PA *: A.outer (rvL n pc) (rvL n pc)
   + (A.s_sigma stA ^+ 2)^-1 *: (A.p_ccovmu PA *: (A.rowbcast (A.p_weights PA) (A.subrow X (A.s_centroid stA))^T
                                                  *m A.subrow X (A.s_centroid stA))).
  rewrite Ead2 Ead1 EaC Esou Eou Edv Esc Emm Erb EartT Eart npowE.
  by congr (_ + _ + _ *: (_ *: (_ *m _))).
rewrite Ecd in Enps; rewrite Enps in Ehs; rewrite Ehs Ecd in Epc; rewrite Epc Ehs in ECn; rewrite ECn in Eeg.
rewrite Eeg [A.decompose _ _]/= Ecen Epc Enps ECn EB' EdD EBD' (normE snps) Enps.
by [].
Qed.

End Update.

End Refine.

(* ---- generate, computeParams, __init__ ----------------------------------------------------------- *)
Section Rest.
Variable R : rcfType.
Variables exp ln : R -> R.
Variables n : nat.
Local Notation RN := (RNum exp ln).

Theorem exec_generate_refines lam (P : @E.params R) (st : @E.state R) (arz : seq (seq R)) :
  E.p_dim P = n -> wfS n st -> mshape lam n arz ->
  let g := E.generate RN P st id arz in
  mshape lam n g /\ mxL lam n g = A.generate (absS n st) (mxL lam n arz).
Proof.
move=> dimP [[sce _ _ _] [_ _ sBD]] sarz /=; rewrite /E.generate dimP lmapE map_id.
have [sT ET] := transpose_spec exp ln sBD.
have [sM EM] := matmul_spec exp ln sarz sT.
have fs : forall r, size r = n -> size (E.vadd RN (E.s_centroid st) (E.vscale RN (E.s_sigma st) r)) = n.
  by move=> r sr; rewrite size_vadd ?size_vscale ?sce ?sr.
have [sg ng] := rowwise_spec sM fs.
rewrite lmapE; split=> //; apply/matrixP => i j; rewrite !mxE ng.
rewrite nth_map2 ?size_vscale ?sce ?(mshape_row sM) //=; last by rewrite addr0.
rewrite nth_vscale; congr (_ + _ * _).
have := congr1 (fun M : 'M[R]_(lam, n) => M i j) EM; rewrite ET !mxE => <-.
by [].
Qed.

(* kargs *)
Definition absScheme (s : E.scheme) : A.scheme :=
  match s with E.Superlinear => A.Superlinear | E.Linear => A.Linear | E.Equal => A.Equal end.
Definition absK (k : @E.kargs R) : A.kargs R :=
  A.mkKargs (absScheme (E.k_weights k)) (E.k_ccum k) (E.k_cs k) (E.k_ccov1 k) (E.k_ccovmu k) (E.k_damps k).

Lemma getdE (o : option R) d : E.getd o d = A.getd o d.
Proof. by case: o. Qed.

Lemma pyminE (a b : R) : E.pymin RN a b = Num.min a b.
Proof.
rewrite /E.pymin /= /Num.min; case: (ltgtP a b) => //.
Qed.
Lemma pymax0E (x : R) : E.pymax0 RN x = Num.max 0 x.
Proof. by rewrite /E.pymax0 /= /Num.max. Qed.

Lemma raw_weights_spec s mu :
  size (E.raw_weights RN s mu) = mu /\
  forall i, (i < mu)%N -> nth 0 (E.raw_weights RN s mu) i = A.raw_weight mu ln (absScheme s) i.
Proof.
case: s => /=; rewrite ?lmapE ?lseqE ?lrepeatE ?size_map ?size_iota ?size_nseq; split=> // i imu.
- by rewrite (nth_map 0%N) ?size_iota // nth_iota.
- by rewrite (nth_map 0%N) ?size_iota // nth_iota.
- by rewrite nth_nseq imu.
Qed.

Theorem exec_compute_params_refines dim lambda_ chiN (k : @E.kargs R) :
  dim = n ->
  let mu := E.getd (E.k_mu k) (Nat.div lambda_ 2) in
  let P := E.compute_params RN dim lambda_ chiN k in
  wfP n mu P /\ absP mu P = A.compute_params n mu ln chiN (absK k).
Proof.
move=> -> mu /=; rewrite /E.compute_params -/mu.
have [srw nrw] := raw_weights_spec (E.k_weights k) mu.
set rw := E.raw_weights RN (E.k_weights k) mu in srw nrw *.
set w := List.map _ rw.
have sw : size w = mu by rewrite /w lmapE size_map.
split; first by split.
rewrite !npowE /absP /A.compute_params.
cbn [E.p_weights E.p_mueff E.p_cc E.p_cs E.p_ccov1 E.p_ccovmu E.p_damps E.p_chiN
     E.n_add E.n_sub E.n_mul E.n_div E.n_sqrt E.n_of_nat RNum
     absK A.k_weights A.k_ccum A.k_cs A.k_ccov1 A.k_ccovmu A.k_damps].
have Esum : E.vsum RN rw = \sum_(i < mu) (\row_(i0 < mu) A.raw_weight mu ln (absScheme (E.k_weights k)) i0) 0 i.
  rewrite vsumE srw; apply: eq_bigr => i _; by rewrite mxE nrw.
have Ew : rvL mu w = \row_(i < mu) ((\row_(i0 < mu) A.raw_weight mu ln (absScheme (E.k_weights k)) i0) 0 i
                                   / \sum_(i0 < mu) (\row_(i1 < mu) A.raw_weight mu ln (absScheme (E.k_weights k)) i1) 0 i0).
  apply/rowP => i; rewrite !mxE /w lmapE (nth_map 0) ?srw // nrw // Esum.
  by congr (_ / _); apply: eq_bigr => j _; rewrite mxE.
have Eme : (1%:R : R) / E.vsum RN (List.map (fun x => E.npow RN x 2) w)
         = 1 / \sum_(i < mu) (rvL mu w) 0 i ^+ 2.
  congr (_ / _); rewrite vsumE lmapE size_map sw; apply: eq_bigr => i _.
  by rewrite (nth_map 0) ?sw // npowE mxE.
rewrite !getdE pyminE pymax0E Eme Ew.
by [].
Qed.

Lemma nat_eqbE (a b : nat) : Nat.eqb a b = (a == b).
Proof. by elim: a b => [|a IH] [|b] //=; rewrite IH. Qed.

Lemma identity_spec : mshape n n (E.identity RN n) /\ mxL n n (E.identity RN n) = 1%:M.
Proof.
rewrite /E.identity !lmapE lseqE; split.
  apply: mshapeP; first by rewrite size_map size_iota.
  by move=> i ik; rewrite (nth_map 0%N) ?size_iota // lmapE size_map size_iota.
apply/matrixP => i j; rewrite !mxE (nth_map 0%N) ?size_iota // lmapE (nth_map 0%N) ?size_iota //.
rewrite !nth_iota // !add0n nat_eqbE -(inj_eq val_inj) /=.
by case: eqP.
Qed.

Lemma zeros_spec : size (E.zeros RN n) = n /\ rvL n (E.zeros RN n) = 0.
Proof.
rewrite /E.zeros lrepeatE size_nseq; split=> //.
by apply/rowP => j; rewrite !mxE nth_nseq if_same.
Qed.

Lemma chiN_ofE : E.chiN_of RN n = A.chiN_of R n.
Proof. by rewrite /E.chiN_of /A.chiN_of npowE. Qed.

Theorem exec_init_refines (eighL : seq (seq R) -> seq R * seq (seq R))
        (eighA : 'M[R]_n -> 'rV[R]_n * 'M[R]_n) default_lambda centroid sigma (k : @E.kargs R) :
  (forall C, mshape n n C ->
     [/\ size (eighL C).1 = n, mshape n n (eighL C).2
       & eighA (mxL n n C) = (rvL n (eighL C).1, mxL n n (eighL C).2)]) ->
  size centroid = n ->
  (if E.k_cmatrix k is Some C0 then mshape n n C0 else true) ->
  let lambda_ := E.getd (E.k_lambda k) (default_lambda n) in
  let mu := E.getd (E.k_mu k) (Nat.div lambda_ 2) in
  let Pst := E.init RN eighL default_lambda centroid sigma k in
  let cmA := if E.k_cmatrix k is Some C0 then Some (mxL n n C0) else None in
  [/\ wfP n mu Pst.1, wfS n Pst.2 &
      (absP mu Pst.1, absS n Pst.2)
      = A.init mu ln eighA (@argsortA_of R exp ln n) (rvL n centroid) sigma cmA (absK k)].
Proof.
move=> er sc scm; cbv zeta; rewrite /E.init llengthE sc.
set C := E.getd (E.k_cmatrix k) (E.identity RN n).
have [sC EC] : mshape n n C /\ mxL n n C = (if E.k_cmatrix k is Some C0 then mxL n n C0 else 1%:M).
  by rewrite /C; case: (E.k_cmatrix k) scm => [C0|_] //=; exact: identity_spec.
have [sew sev Eeg] := er _ sC.
have ar : forall w, size w = n -> size (E.argsort RN w) = n /\
     forall j : 'I_n, nth 0%N (E.argsort RN w) j = @argsortA_of R exp ln n (rvL n w) j :> nat.
  by move=> w sw; split; [exact: argsort_size | exact: argsortA_ofE].
case: (eighL C) sew sev Eeg => w V sew sev Eeg; rewrite /= in sew sev Eeg.
have [[sdD sB' sBD'] [EdD EB' EBD']] := decompose_ref ar sew sev.
case: (E.decompose RN n (w, V)) sdD sB' sBD' EdD EB' EBD' => [[dD B'] BD'] sdD sB' sBD' EdD EB' EBD'.
rewrite /= in sdD sB' sBD' EdD EB' EBD'.
have [sz Ez] := zeros_spec.
have [wP EP] := exec_compute_params_refines (E.getd (E.k_lambda k) (default_lambda n)) (E.chiN_of RN n) k (erefl n).
split; [exact: wP | by split; split | ].
rewrite [(_, _).1]/= [(_, _).2]/= EP chiN_ofE /absS /A.init.
cbn [E.s_centroid E.s_sigma E.s_pc E.s_ps E.s_C E.s_B E.s_diagD E.s_BD E.s_count].
rewrite Ez.
have -> : (match match E.k_cmatrix k with Some C0 => Some (mxL n n C0) | None => None end with
           | Some C0 => C0 | None => 1%:M end) = mxL n n C.
  by rewrite EC; case: (E.k_cmatrix k).
by rewrite Eeg /= EdD EB' EBD'.
Qed.
End Rest.

(* ---- the executable update (with its sort) refines the algebraic update ------------------------- *)
Section Final.
Variable R : rcfType.
Variables exp ln : R -> R.
Variables n mu : nat.
Local Notation RN := (RNum exp ln).

Theorem exec_update_refines (eighL : seq (seq R) -> seq R * seq (seq R))
        (eighA : 'M[R]_n -> 'rV[R]_n * 'M[R]_n)
        (P : @E.params R) (st : @E.state R) (pop : seq (seq R * seq R)) :
  (forall C, mshape n n C ->
     [/\ size (eighL C).1 = n, mshape n n (eighL C).2
       & eighA (mxL n n C) = (rvL n (eighL C).1, mxL n n (eighL C).2)]) ->
  wfP n mu P -> wfS n st ->
  let spop := List.map snd (E.sort_pop RN pop) in
  (mu <= size spop)%N -> all (fun x => size x == n) spop ->
  let st' := E.update RN eighL P st pop in
  wfS n st' /\
  absS n st' = A.update_sorted exp eighA (@argsortA_of R exp ln n) (absP mu P) (absS n st)
                               (mxL mu n (take mu spop)).
Proof.
move=> er wP wS spop len rows /=.
have ar : forall w, size w = n -> size (E.argsort RN w) = n /\
     forall j : 'I_n, nth 0%N (E.argsort RN w) j = @argsortA_of R exp ln n (rvL n w) j :> nat.
  by move=> w sw; split; [exact: argsort_size | exact: argsortA_ofE].
exact: (update_refines er ar wP wS len rows).
Qed.

(* the oracle as the correspondence supplies it: the recorded value of numpy.linalg.eigh *)
Corollary exec_update_refines_recorded (e : seq R * seq (seq R))
        (P : @E.params R) (st : @E.state R) (pop : seq (seq R * seq R)) :
  size e.1 = n -> mshape n n e.2 -> wfP n mu P -> wfS n st ->
  let spop := List.map snd (E.sort_pop RN pop) in
  (mu <= size spop)%N -> all (fun x => size x == n) spop ->
  let st' := E.update RN (fun _ => e) P st pop in
  wfS n st' /\
  absS n st' = A.update_sorted exp (fun _ => (rvL n e.1, mxL n n e.2)) (@argsortA_of R exp ln n)
                               (absP mu P) (absS n st) (mxL mu n (take mu spop)).
Proof. by move=> s1 s2; apply: exec_update_refines => C _; split. Qed.

(* the punch line: the update of the EXECUTABLE model (sort included), read through the abstraction,
   yields exactly the published quantities for its mu best individuals *)
Theorem exec_update_is_published (eighL : seq (seq R) -> seq R * seq (seq R))
        (eighA : 'M[R]_n -> 'rV[R]_n * 'M[R]_n)
        (P : @E.params R) (st : @E.state R) (pop : seq (seq R * seq R)) :
  (forall C, mshape n n C ->
     [/\ size (eighL C).1 = n, mshape n n (eighL C).2
       & eighA (mxL n n C) = (rvL n (eighL C).1, mxL n n (eighL C).2)]) ->
  wfP n mu P -> wfS n st ->
  let spop := List.map snd (E.sort_pop RN pop) in
  (mu <= size spop)%N -> all (fun x => size x == n) spop ->
  E.s_sigma st != 0 -> \sum_(i < mu) (rvL mu (E.p_weights P)) 0 i = 1 ->
  let st' := E.update RN eighL P st pop in
  (rvL n (E.s_centroid st'), rvL n (E.s_ps st'), rvL n (E.s_pc st'), mxL n n (E.s_C st'), E.s_sigma st')
  = S.cma_update exp (absP mu P) (absS n st) (mxL mu n (take mu spop)).
Proof.
move=> er wP wS spop len rows sn0 sw1 st'.
have [_ Eabs] := exec_update_refines er wP wS len rows.
have := @AP.update_is_published R n mu exp eighA (@argsortA_of R exp ln n) (absP mu P) (absS n st)
          (mxL mu n (take mu spop)) sn0 sw1.
by move=> H; rewrite /spop in H *; rewrite -Eabs in H.
Qed.
End Final.
