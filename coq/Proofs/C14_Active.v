(* C14 — StrategyActiveOnePlusLambda over a real closed field: the order of ConstrainedFitness,
   elitism of update (one step and any history), success rate, step size, default parameters.
   The factor identities are in Proofs/C14_RankOne.v. *)
From Coq Require Import ZArith.
From mathcomp Require Import all_ssreflect all_algebra.
From mathcomp Require Import ring.
From DV Require Import Model.C14_exec Proofs.C14_Elitist.
Import Order.TTheory GRing.Theory Num.Theory.
Set Implicit Arguments. Unset Strict Implicit. Unset Printing Implicit Defensive.
Local Open Scope ring_scope.

Section Active.
Variable R : rcfType.
Variable exp_ : R -> R.
Variable round_ : R -> R.
Hypothesis exp_pos : forall x, 0 < exp_ x.
Notation RO := (ROps exp_ round_).
Notation lle := (lex_le RO).
Notation llt := (lex_lt RO).
Notation fitR := (fitness (T:=R)).
Notation aindR := (aind (T:=R)).
Notation cle := (c_le RO).
Notation clt := (c_lt RO).

(* eqType structures, to speak about membership *)
Definition fit_rep (f : fitR) := (f_wv f, f_cv f).
Definition fit_unrep (p : seq R * option (seq bool)) : fitR := mkFit p.1 p.2.
Lemma fit_repK : cancel fit_rep fit_unrep. Proof. by case. Qed.
Definition fit_eqMixin := CanEqMixin fit_repK.
Canonical fit_eqType := EqType fitR fit_eqMixin.

Definition aind_rep (i : aindR) := (ai_x i, ai_y i, ai_z i, ai_fit i).
Definition aind_unrep (p : seq R * seq R * seq R * fitR) : aindR := mkAI p.1.1.1 p.1.1.2 p.1.2 p.2.
Lemma aind_repK : cancel aind_rep aind_unrep. Proof. by case. Qed.
Definition aind_eqMixin := CanEqMixin aind_repK.
Canonical aind_eqType := EqType aindR aind_eqMixin.

(* ---- the order of ConstrainedFitness ---- *)
Lemma c_le_refl a : cle a a.
Proof. by rewrite /c_le; case: (violates a) => //=; exact: lex_le_refl. Qed.

Lemma c_lt_le a b : clt a b = ~~ cle b a.
Proof.
rewrite /c_lt /c_le; case: (violates a); case: (violates b) => //=.
exact: lex_lt_le.
Qed.

Lemma c_le_total a b : cle a b || cle b a.
Proof.
rewrite /c_le; case: (violates a); case: (violates b) => //=.
exact: lex_le_total.
Qed.

Lemma c_le_trans b a c : cle a b -> cle b c -> cle a c.
Proof.
rewrite /c_le; case: (violates a); case: (violates b); case: (violates c) => //=.
exact: lex_le_trans.
Qed.

Lemma valid_not_violates (f : fitR) : f_valid f -> violates f = false.
Proof. by rewrite /violates => ->. Qed.

(* between evaluated (valid) fitnesses the order is the tuple order of the weighted values *)
Lemma c_le_valid a b : f_valid a -> f_valid b -> cle a b = lle (f_wv a) (f_wv b).
Proof. by move=> va vb; rewrite /c_le !valid_not_violates. Qed.

Definition ai_le (a b : aindR) : bool := cle (ai_fit a) (ai_fit b).
Lemma ai_le_total a b : ai_le a b || ai_le b a. Proof. exact: c_le_total. Qed.
Lemma ai_le_trans b a c : ai_le a b -> ai_le b c -> ai_le a c. Proof. exact: c_le_trans. Qed.

Lemma sort_key_eq_a (pop : seq aindR) :
  sort_desc (fun a b => clt (ai_fit a) (ai_fit b)) pop = sort_desc (fun a b => ~~ ai_le b a) pop.
Proof. by apply: eq_sort_desc => a b; rewrite c_lt_le. Qed.

(* ---- _infeasible_update touches only A, invA and the constraint vectors ---- *)
Definition same_elite (s t : astate (T:=R)) :=
  [/\ as_parent t = as_parent s, as_pfit t = as_pfit s, as_sigma t = as_sigma s,
      as_psucc t = as_psucc s & as_anc t = as_anc s].

Lemma infeasible_update_same dim P st ind inv :
  same_elite st (infeasible_update RO dim P st ind inv).1.
Proof.
rewrite /infeasible_update; case: (f_cv _) => [cv|] //=.
by case: inv.
Qed.

Lemma infeasible_all_same dim P st inds invs :
  same_elite st (infeasible_all RO dim P st inds invs).1.
Proof.
elim: inds st invs => [|ind inds IH] st invs //=.
have := infeasible_update_same dim P st ind (List.hd None invs).
case: (infeasible_update _ _ _ _ _ _) => st1 ap /= [e1 e2 e3 e4 e5].
have := IH st1 (List.tl invs).
case: (infeasible_all _ _ _ _ _ _) => st2 aps /= [f1 f2 f3 f4 f5].
by split; rewrite ?f1 ?f2 ?f3 ?f4 ?f5.
Qed.


(* ---- _rank1update: the elitist part ---- *)
Lemma rank1update_elite P st ind ps :
  let st' := rank1update RO P st ind ps in
  [/\ as_psucc st' = (1 - ap_cp P) * as_psucc st + ap_cp P * ps,
      as_sigma st' = as_sigma st * exp_ (1 / ap_d P * ((as_psucc st' - ap_ptarg P) / (1 - ap_ptarg P))) &
      (as_parent st', as_pfit st') =
        if parent_le RO st (ai_fit ind) then (ai_x ind, Some (ai_fit ind)) else (as_parent st, as_pfit st)].
Proof.
rewrite /rank1update /psucc_step !c1E; cbv zeta.
case: (parent_le RO st (ai_fit ind)).
  by case: ifP => _ /=.
by case: ifP => _ /=.
Qed.

Definition valid_pop (pop : seq aindR) := [seq i <- pop | f_valid (ai_fit i)].
Notation first_best := (first_max ai_le).


(* update: elite fields in terms of the first best evaluated offspring *)
Lemma active_update_elite dim P st pop invs :
  let st' := (active_update RO dim P st pop invs).1 in
  match first_best (valid_pop pop) with
  | None => same_elite st st'
  | Some best =>
      let k := if has_fitness st then count (fun i => parent_le RO st (ai_fit i)) (valid_pop pop)
               else size (valid_pop pop) in
      [/\ as_psucc st' = (1 - ap_cp P) * as_psucc st + ap_cp P * (k%:R / (size (valid_pop pop))%:R),
          as_sigma st' = as_sigma st * exp_ (1 / ap_d P * ((as_psucc st' - ap_ptarg P) / (1 - ap_ptarg P))) &
          (as_parent st', as_pfit st') =
            if parent_le RO st (ai_fit best) then (ai_x best, Some (ai_fit best)) else (as_parent st, as_pfit st)]
  end.
Proof.
rewrite /active_update /active_update_rank1; cbv zeta; rewrite !List_filterE -/(valid_pop pop).
set sorted0 := sort_desc _ (valid_pop pop).
have hd : ohead sorted0 = first_best (valid_pop pop) by rewrite /sorted0 sort_key_eq_a ohead_sort_desc.
have sz : size sorted0 = size (valid_pop pop) by rewrite /sorted0 sort_key_eq_a size_sort_desc.
have cnt p : count p sorted0 = count p (valid_pop pop) by rewrite /sorted0 sort_key_eq_a count_sort_desc.
case E: sorted0 hd sz cnt => [|best rest] <- sz cnt; rewrite [ohead _]/=.
  have := infeasible_all_same dim P st [seq i <- pop | ~~ f_valid (ai_fit i)] invs.
  by case: (infeasible_all _ _ _ _ _ _) => st2 aps /= [-> -> -> -> ->].
set st1 := rank1update _ _ _ _ _.
have := infeasible_all_same dim P st1 [seq i <- pop | ~~ f_valid (ai_fit i)] invs.
case: (infeasible_all _ _ _ _ _ _) => st2 aps /= [-> -> -> -> _].
have [] := rank1update_elite P st best
  (ofnat RO (if has_fitness st then count_if (fun i => parent_le RO st (ai_fit i)) (best :: rest)
             else (size rest).+1) / ofnat RO (size rest).+1).
rewrite -/st1 => -> -> ->; rewrite !ofnatE count_ifE -[(size rest).+1]/(size (best :: rest)) sz.
by rewrite (fun_if (fun n : nat => n%:R : R)) cnt; split=> //; case: (has_fitness st).
Qed.


(* ---- one update: elitism ---- *)
Theorem active_update_elitist dim P st pop invs pf :
  as_pfit st = Some pf ->
  let st' := (active_update RO dim P st pop invs).1 in
  exists pf', [/\ as_pfit st' = Some pf', cle pf pf',
     all (fun i => cle (ai_fit i) pf') (valid_pop pop) &
     (as_parent st' = as_parent st /\ pf' = pf) \/
     exists2 i, i \in valid_pop pop & [/\ as_parent st' = ai_x i, pf' = ai_fit i & cle pf (ai_fit i)]].
Proof.
move=> Hpf st'; have := active_update_elite dim P st pop invs; rewrite -/st'.
case fb: (first_best _) => [best|]; last first.
  case=> -> -> _ _ _; exists pf; rewrite Hpf (first_max_none fb) c_le_refl; split=> //; by left.
have [bin ub] := first_max_ub ai_le_total ai_le_trans fb.
case=> _ _; rewrite /parent_le Hpf; case: ifP => Hle [-> ->].
  exists (ai_fit best); split=> //; right; exists best => //.
exists pf; rewrite c_le_refl; split=> //; last by left.
have lt : cle (ai_fit best) pf by have := c_le_total (ai_fit best) pf; rewrite Hle orbF.
by apply/allP => i /(allP ub) h; exact: (c_le_trans h lt).
Qed.

(* a parent given without a fitness attribute is replaced by the first best evaluated offspring *)
Theorem active_update_bare dim P st pop invs best :
  as_pfit st = None -> first_best (valid_pop pop) = Some best ->
  let st' := (active_update RO dim P st pop invs).1 in
  [/\ as_parent st' = ai_x best, as_pfit st' = Some (ai_fit best) &
      all (fun i => cle (ai_fit i) (ai_fit best)) (valid_pop pop)].
Proof.
move=> Hpf fb st'; have := active_update_elite dim P st pop invs; rewrite -/st' fb.
have [_ ub] := first_max_ub ai_le_total ai_le_trans fb.
by case=> _ _; rewrite /parent_le Hpf => -[-> ->].
Qed.

(* ---- success rate and step size ---- *)
Theorem active_update_psucc dim P st pop invs :
  0 <= ap_cp P <= 1 -> 0 <= as_psucc st <= 1 ->
  0 <= as_psucc (active_update RO dim P st pop invs).1 <= 1.
Proof.
move=> cp ps; have := active_update_elite dim P st pop invs.
case fb: (first_best _) => [best|]; last by case=> _ _ _ ->.
case=> -> _ _; apply: convex01 => //; apply: frac01.
  by case: ifP => _ //; exact: count_size.
by case: (valid_pop pop) fb.
Qed.

Theorem active_update_sigma dim P st pop invs :
  0 < as_sigma st -> 0 < as_sigma (active_update RO dim P st pop invs).1.
Proof.
move=> s0; have := active_update_elite dim P st pop invs.
case fb: (first_best _) => [best|]; last by case=> _ _ ->.
by case=> _ -> _; rewrite mulr_gt0.
Qed.

(* ---- histories ---- *)
Section History.
Variables (dim : nat) (P : aparams (T:=R)) (evalfit : seq R -> fitR).

Definition amatches (st : astate (T:=R)) := as_pfit st = Some (evalfit (as_parent st)).

Lemma active_population_fit st d pop :
  active_population RO dim P evalfit st d = Some pop -> all (fun i => ai_fit i == evalfit (ai_x i)) pop.
Proof.
rewrite /active_population; case: (integer_mutation _ _ _ _ _ _ _) => [Rint|] // [<-].
by rewrite List_mapE all_map; apply/allP => -[[x y] z] _ /=.
Qed.

Definition okfit (pf : fitR) (log : seq fitR) := all (fun f => f_valid f ==> cle f pf) log.

Lemma active_run_inv st draws log st' log' pf0 pf :
  active_run RO dim P evalfit st draws log = Some (st', log') ->
  amatches st -> as_pfit st = Some pf -> okfit pf log -> pf \in pf0 :: log ->
  exists pf', [/\ amatches st', as_pfit st' = Some pf', cle pf pf', okfit pf' log' & pf' \in pf0 :: log'].
Proof.
elim: draws st log pf => [|d draws IH] st log pf /=.
  by case=> <- <- m Hpf ok inl; exists pf; rewrite c_le_refl.
case Hpop: (active_population _ _ _ _ _ _) => [pop|] // Hrun m Hpf ok inl.
have fits := active_population_fit Hpop.
have [pf1 [Hpf1 mono ub from]] := active_update_elitist dim P pop (ad_invs d) Hpf.
set st1 := (active_update _ _ _ _ _ _).1 in Hrun Hpf1 from.
have m1 : amatches st1.
  rewrite /amatches Hpf1; case: from => [[-> ->]|[i iin [-> -> _]]].
    by move: m; rewrite /amatches Hpf.
  have : i \in pop by move: iin; rewrite mem_filter => /andP[].
  by move/(allP fits)/eqP => ->.
have ok1 : okfit pf1 (log ++ List.map (@ai_fit R) pop).
  rewrite /okfit all_cat; apply/andP; split.
    apply/allP => f /(allP ok); case: (f_valid f) => //= h; exact: (c_le_trans h mono).
  rewrite List_mapE all_map; apply/allP => i iin /=; apply/implyP => vi.
  by apply: (allP ub); rewrite mem_filter vi.
have in1 : pf1 \in pf0 :: log ++ List.map (@ai_fit R) pop.
  case: from => [[_ ->]|[i iin [_ -> _]]].
    by move: inl; rewrite !inE mem_cat => /orP[->|->] //; rewrite orbT.
  rewrite inE mem_cat List_mapE; apply/orP; right; apply/orP; right.
  by apply/mapP; exists i => //; move: iin; rewrite mem_filter => /andP[].
have [pf' [m' Hpf' mono' ok' in']] := IH _ _ _ Hrun m1 Hpf1 ok1 in1.
by exists pf'; split=> //; exact: (c_le_trans mono mono').
Qed.

(* elitism over a whole history that starts from an evaluated parent: the parent's fitness is
   the fitness of its genotype, is at least as good as every evaluated (valid) fitness so far
   and as the initial one, and is one of them *)
Theorem active_history_elitist st0 draws st log :
  active_run RO dim P evalfit st0 draws [::] = Some (st, log) -> amatches st0 ->
  exists pf, [/\ amatches st, as_pfit st = Some pf,
                 cle (evalfit (as_parent st0)) pf, okfit pf log &
                 pf \in evalfit (as_parent st0) :: log].
Proof.
move=> H m; apply: (active_run_inv H m m) => //; exact: mem_head.
Qed.

Theorem active_history_psucc_sigma st0 draws st log :
  active_run RO dim P evalfit st0 draws [::] = Some (st, log) ->
  0 <= ap_cp P <= 1 -> 0 <= as_psucc st0 <= 1 -> 0 < as_sigma st0 ->
  0 <= as_psucc st <= 1 /\ 0 < as_sigma st.
Proof.
move: [::] => log0.
elim: draws st0 log0 => [|d draws IH] st0 log0 /=; first by case=> <- _.
case Hpop: (active_population _ _ _ _ _ _) => [pop|] // Hrun cp ps s0.
apply: (IH _ _ Hrun cp); [exact: active_update_psucc | exact: active_update_sigma].
Qed.

End History.

Lemma sq_id (x : R) : 2%:R - (1 + x * (2%:R - x)) = (1 - x) ^+ 2.
Proof. by ring. Qed.

(* default parameters of the active strategy *)
Theorem active_defaults_ok dim lam (ccovn : R) S_int : (0 < lam)%nat -> 0 <= ccovn ->
  let P := active_defaults RO dim lam ccovn S_int in
  [/\ 0 < ap_cp P < 1, 0 < ap_ptarg P < 1, 0 < ap_ccovp P < 1,
      ap_ccovp P * (1 + ap_cc P * (2%:R - ap_cc P)) < 1 & 0 < ap_beta P < 1].
Proof.
move=> l0 cn0; cbv zeta; rewrite /active_defaults.
have l0' : 0 < lam%:R :> R by rewrite ltr0n.
have pt := ptarg_formula_range (ltW l0').
have five : kz RO 5 = 5%:R by rewrite kzE; congr (_%:R).
have six : kz RO 6 = 6%:R by rewrite kzE; congr (_%:R).
have ten : kz RO 10 = 10%:R by rewrite kzE; congr (_%:R).
rewrite !ofnatE !c1E !c2E five six ten /=.
have den : 0 < (dim * dim)%:R + 6%:R :> R by rewrite -natrD ltr0n addn_gt0 orbT.
have den2 : 0 < dim%:R + 2%:R :> R by rewrite -natrD ltr0n addn_gt0 orbT.
have ccov1 : 2%:R / ((dim * dim)%:R + 6%:R) < 1 :> R.
  by rewrite ltr_pdivr_mulr // mul1r -natrD ltr_nat ltn_addl.
split.
- by apply: cp_formula_range => //; case/andP: pt.
- exact: pt.
- by rewrite divr_gt0 ?ltr0n //= ccov1.
- set cc := 2%:R / (dim%:R + 2%:R).
  have cc01 : 0 < cc <= 1.
    by rewrite /cc divr_gt0 ?ltr0n //= ler_pdivr_mulr // mul1r -natrD ler_nat leq_addl.
  have h : 1 + cc * (2%:R - cc) <= 2%:R.
    rewrite -subr_ge0 sq_id.
    exact: sqr_ge0.
  have c0 : 0 <= 2%:R / ((dim * dim)%:R + 6%:R) :> R by rewrite divr_ge0 ?ler0n // ltW.
  apply: (le_lt_trans (ler_wpmul2l c0 h)).
  rewrite mulrAC -natrM ltr_pdivr_mulr // mul1r -natrD ltr_nat.
  by rewrite (@leq_trans 6) // leq_addl.
- have d3 : 1 <= lam%:R * (dim%:R + 2%:R) :> R.
    by rewrite -natrD -natrM ler1n muln_gt0 l0 addn_gt0 orbT.
  have d3' := lt_le_trans ltr01 d3.
  have t : 0 < 1 / 10%:R :> R by rewrite divr_gt0 ?ltr01 ?ltr0n.
  rewrite divr_gt0 //= ltr_pdivr_mulr // mul1r.
  apply: (@lt_le_trans _ _ 1); last by rewrite mul1r.
  by rewrite invf_lt1 ?ltr0n // ltr1n.
Qed.

End Active.
