(* Characterising lemmas of the run-time library Model/C11_GenRt.v: what the statement vocabulary of the
   regenerated definitions (Python indexing on Z, loops with state tuples, Python-order stacks) means in
   the terms the hand model is written in (nat positions, structural recursion).  The loop lemmas are
   generic in the loop body: they assume what the body does in one iteration (pointwise, on every draw
   list) and conclude what the whole loop does. *)
From Coq Require Import List ZArith NArith Bool Lia ZifyBool.
From DV Require Import Base.PyList Model.C11_GPTree Model.C11_GenRt Proofs.C11_PySlice.
Import ListNotations.
Local Open Scope Z_scope.

(* ------------------------------------------------------------------ indexing *)
Lemma py_get_nonneg {A} (l : list A) i : 0 <= i -> py_get l i = nth_error l (Z.to_nat i).
Proof.
  intro H. unfold py_get, PyList.zlen. cbv zeta.
  destruct (i <? 0) eqn:E; [lia|]. cbv iota. rewrite E. cbn [orb].
  destruct (Z.of_nat (length l) <=? i) eqn:E2; [|reflexivity].
  symmetry. apply nth_error_None. lia.
Qed.

Lemma py_get_neg {A} (l : list A) i : i < 0 ->
  py_get l i = if i + Z.of_nat (length l) <? 0 then None else nth_error l (Z.to_nat (i + Z.of_nat (length l))).
Proof.
  intro H. unfold py_get, PyList.zlen. cbv zeta.
  destruct (i <? 0) eqn:E; [|lia]. cbv iota.
  destruct (i + Z.of_nat (length l) <? 0) eqn:E1; [reflexivity|]. cbn [orb].
  destruct (Z.of_nat (length l) <=? i + Z.of_nat (length l)) eqn:E2; [lia|reflexivity].
Qed.

Lemma getitem_nonneg {A} (l : list A) i : 0 <= i ->
  getitem l i = match nth_error l (Z.to_nat i) with Some x => ret x | None => fail EIndex end.
Proof. intro H. unfold getitem. now rewrite py_get_nonneg. Qed.

Lemma getitem_nat {A} (l : list A) (i : nat) :
  getitem l (Z.of_nat i) = match nth_error l i with Some x => ret x | None => fail EIndex end.
Proof. rewrite getitem_nonneg by lia. now rewrite Nat2Z.id. Qed.

Lemma len_zlen {A} (l : list A) : len l = zlen l.
Proof. reflexivity. Qed.

Lemma skipn_nth {A} : forall (l : list A) e x, nth_error l e = Some x -> skipn e l = x :: skipn (S e) l.
Proof.
  induction l as [|a l IH]; intros [|e] x H; cbn in *; try discriminate.
  - now inversion H.
  - now apply IH.
Qed.

Lemma list_mul_single {A} (x : A) (n : nat) : list_mul [x] (Z.of_nat n) = repeat x n.
Proof.
  unfold list_mul. rewrite Nat2Z.id. induction n as [|n IH]; cbn; [reflexivity|]. now rewrite IH.
Qed.

Lemma rev_repeat {A} (x : A) n : rev (repeat x n) = repeat x n.
Proof.
  induction n as [|n IH]; [reflexivity|]. cbn [repeat rev]. rewrite IH.
  clear IH. induction n as [|n IH]; [reflexivity|]. cbn. now rewrite IH.
Qed.

(* ------------------------------------------------------------------ monad, pointwise *)
Lemma bind_ret_r {A} (m : M A) ds : bind m ret ds = m ds.
Proof. unfold bind, ret. destruct (m ds) as [[a d]|e]; reflexivity. Qed.

Lemma for_each_ext {A S} (l : list A) (b1 b2 : A -> S -> M S) :
  (forall x s ds, b1 x s ds = b2 x s ds) -> forall s ds, for_each l b1 s ds = for_each l b2 s ds.
Proof.
  intro H. induction l as [|x r IH]; intros s ds; [reflexivity|].
  cbn [for_each]. unfold bind. rewrite H. destruct (b2 x s ds) as [[a d]|e]; [apply IH|reflexivity].
Qed.

(* a loop that only appends a function of the loop variable *)
Lemma for_each_append {A B} (f : A -> B) (body : A -> list B -> M (list B)) :
  (forall x s ds, body x s ds = ret (s ++ [f x]) ds) ->
  forall l s ds, for_each l body s ds = ret (s ++ map f l) ds.
Proof.
  intro H. induction l as [|x r IH]; intros s ds; cbn [for_each map].
  - now rewrite app_nil_r.
  - unfold bind. rewrite H. unfold ret at 1. rewrite IH. now rewrite <- app_assoc.
Qed.

Lemma map_const_range {B} (c : B) (n : nat) : map (fun _ : Z => c) (range1 (Z.of_nat n)) = repeat c n.
Proof.
  unfold range1, py_range3, range_count. cbn [Z.ltb Z.compare].
  rewrite map_map.
  destruct n as [|n]; [reflexivity|].
  replace (0 <? Z.of_nat (S n)) with true by lia.
  rewrite Z.div_1_r. replace (Z.to_nat (Z.of_nat (S n) - 0 - 1 + 1)) with (S n) by lia.
  generalize (S n) as k. intro k. generalize 0%nat as s.
  induction k as [|k IH]; intro s; [reflexivity|]. cbn [seq map repeat]. now rewrite IH.
Qed.

(* ------------------------------------------------------------------ searchSubtree: the `total` loop *)
Fixpoint span_loop2 (suffix : list node) (total : Z) (e : nat) : res (Z * nat) :=
  if 0 <? total then
    match suffix with
    | [] => Err EIndex
    | n :: r => span_loop2 r (total + zarity n - 1) (S e)
    end
  else Ok (total, e).

Lemma span_loop2_snd : forall s t e, span_loop s t e = res_map snd (span_loop2 s t e).
Proof.
  induction s as [|n r IH]; intros t e; cbn [span_loop span_loop2]; destruct (0 <? t); try reflexivity. apply IH.
Qed.

Section WhileSpan.
  Variable l : list node.
  Variable cond : Z * Z -> bool.
  Variable body : Z * Z -> M (Z * Z).
  Hypothesis Hcond : forall t e, cond (t, e) = (0 <? t).
  Hypothesis Hbody : forall t e ds, 0 <= e ->
    body (t, e) ds = bind (getitem l e) (fun n => ret (t + zarity n - 1, e + 1)) ds.

  Lemma while_span : forall fuel e t ds, (1 <= fuel)%nat -> (length l < fuel + e)%nat ->
    while_fuel fuel cond body (t, Z.of_nat e) ds =
    lift (res_map (fun p => (fst p, Z.of_nat (snd p))) (span_loop2 (skipn e l) t e)) ds.
  Proof.
    induction fuel as [|f IH]; intros e t ds H1 Hf; [lia|].
    cbn [while_fuel]. rewrite Hcond.
    destruct (nth_error l e) as [n|] eqn:En.
    - rewrite (skipn_nth _ _ _ En). cbn [span_loop2].
      destruct (0 <? t); [|reflexivity].
      unfold bind at 1. rewrite Hbody by lia. rewrite getitem_nat, En. unfold bind, ret.
      assert (e < length l)%nat by (apply nth_error_Some; congruence).
      replace (Z.of_nat e + 1) with (Z.of_nat (S e)) by lia.
      apply IH; lia.
    - apply nth_error_None in En. rewrite skipn_all2 by lia. cbn [span_loop2].
      destruct (0 <? t); [|reflexivity].
      unfold bind at 1. rewrite Hbody by lia. rewrite getitem_nat.
      replace (nth_error l e) with (@None node) by (symmetry; apply nth_error_None; lia).
      reflexivity.
  Qed.
End WhileSpan.

Lemma span_loop2_step l e t : 0 < t ->
  span_loop2 (skipn e l) t e =
  match nth_error l e with
  | None => Err EIndex
  | Some n => span_loop2 (skipn (S e) l) (t + zarity n - 1) (S e)
  end.
Proof.
  intro H. destruct (nth_error l e) as [n|] eqn:En.
  - rewrite (skipn_nth _ _ _ En). cbn [span_loop2]. now replace (0 <? t) with true by lia.
  - apply nth_error_None in En. rewrite skipn_all2 by lia. cbn [span_loop2]. now replace (0 <? t) with true by lia.
Qed.

(* ------------------------------------------------------------------ height: the stack loop *)
Fixpoint height_loop2 (l : list node) (stack : list Z) (maxd : Z) : res (list Z * Z) :=
  match l with
  | [] => Ok (stack, maxd)
  | n :: r => match stack with
              | [] => Err EIndex
              | d :: st => height_loop2 r (repeat (d + 1) (arity n) ++ st) (Z.max maxd d)
              end
  end.

Lemma height_loop2_snd : forall l st m, height_loop l st m = res_map snd (height_loop2 l st m).
Proof.
  induction l as [|n r IH]; intros st m; cbn [height_loop height_loop2]; [reflexivity|].
  destruct st; [reflexivity|apply IH].
Qed.

Section ForHeight.
  Variable body : node -> list Z * Z -> M (list Z * Z).
  (* one iteration: pop the last entry, new maximum, push arity copies of depth + 1 (Python order) *)
  Hypothesis Hbody : forall n st m ds,
    body n (st, m) ds =
    bind (pop_last st) (fun p => ret (snd p ++ repeat (fst p + 1) (arity n), Z.max m (fst p))) ds.

  Lemma for_height : forall l st m ds,
    for_each l body (rev st, m) ds =
    lift (res_map (fun p => (rev (fst p), snd p)) (height_loop2 l st m)) ds.
  Proof.
    induction l as [|n r IH]; intros st m ds; cbn [for_each height_loop2]; [reflexivity|].
    unfold bind at 1. rewrite Hbody. unfold bind, pop_last. rewrite rev_involutive.
    destruct st as [|d st]; [reflexivity|]. unfold ret. cbn [fst snd].
    replace (rev st ++ repeat (d + 1) (arity n)) with (rev (repeat (d + 1) (arity n) ++ st))
      by (now rewrite rev_app_distr, rev_repeat).
    apply IH.
  Qed.
End ForHeight.

(* ------------------------------------------------------------------ __setitem__: the arity sum *)
Section ForTotal.
  Variable body : node -> Z -> M Z.
  Hypothesis Hbody : forall n t ds, body n t ds = ret (t + zarity n - 1) ds.
  Lemma for_total : forall l t ds,
    for_each l body t ds = ret (fold_left (fun t n => t + zarity n - 1) l t) ds.
  Proof.
    induction l as [|n r IH]; intros t ds; cbn [for_each fold_left]; [reflexivity|].
    unfold bind. rewrite Hbody. unfold ret at 1. apply IH.
  Qed.
End ForTotal.

(* val[1:] *)
Lemma getslice_tail {A} (l : list A) : getslice l (Some 1) None = tl l.
Proof.
  unfold getslice, py_slice, slice_idx, slice_adjust, PyList.zlen. cbn [Z.ltb Z.compare].
  destruct l as [|x r]; [reflexivity|]. cbn [tl].
  rewrite Z.min_l by (cbn [length]; lia).
  unfold py_range3, range_count. cbn [Z.ltb Z.compare].
  replace (Z.to_nat (if 1 <? Z.of_nat (length (x :: r)) then (Z.of_nat (length (x :: r)) - 1 - 1) / 1 + 1 else 0))
    with (length r).
  2:{ cbn [length]. destruct (1 <? Z.of_nat (S (length r))) eqn:E; [rewrite Z.div_1_r|]; lia. }
  rewrite flat_map_concat_map, map_map.
  transitivity (concat (map (fun i => match nth_error r i with Some z => [z] | None => [] end) (seq 0 (length r)))).
  - f_equal. apply map_ext. intro i. replace (Z.to_nat (1 + Z.of_nat i * 1)) with (S i) by lia. reflexivity.
  - clear x. induction r as [|z r IH]; [reflexivity|]. cbn [length seq map concat nth_error app]. f_equal.
    rewrite <- seq_shift, map_map. exact IH.
Qed.

(* ------------------------------------------------------------------ generate: the stack loop *)
Lemma bind_ext {A B} (m : M A) (k1 k2 : A -> M B) ds :
  (forall a d, k1 a d = k2 a d) -> bind m k1 ds = bind m k2 ds.
Proof. intro H. unfold bind. destruct (m ds) as [[a d]|e]; [apply H|reflexivity]. Qed.

Lemma d_choice_len {A} (l : list A) ds x ds' : d_choice l ds = Ok (x, ds') -> length ds = S (length ds').
Proof.
  unfold d_choice. destruct l as [|a l]; [discriminate|].
  destruct ds as [|[] ds0]; try discriminate.
  destruct ((n =? zlen (a :: l)) && (0 <=? i)); [|discriminate].
  destruct (nth_error (a :: l) (Z.to_nat i)); [|discriminate].
  intro H; inversion H; subst. reflexivity.
Qed.

Lemma instantiate_len n ds n' ds' : instantiate n ds = Ok (n', ds') -> (length ds' <= length ds)%nat.
Proof.
  unfold instantiate, bind, d_eph, ret. destruct (neph n).
  - destruct ds as [|[] ds0]; try discriminate. destruct (N.eqb name (nname n)); [|discriminate].
    intro H; inversion H; subst. cbn; lia.
  - intro H; inversion H; subst. lia.
Qed.

(* the stopping condition does not put draws back *)
Definition cond_mono (cnd : Z -> M bool) : Prop :=
  forall d ds b ds', cnd d ds = Ok (b, ds') -> (length ds' <= length ds)%nat.

Lemma condition_mono ps mode minh h : cond_mono (condition ps mode minh h).
Proof.
  intros d ds b ds'. unfold condition, bind, ret, d_random. destruct mode.
  - intro H; inversion H; subst; lia.
  - destruct (d =? h); [intro H; inversion H; subst; lia|].
    destruct (minh <=? d); [|intro H; inversion H; subst; lia].
    destruct ds as [|[] ds0]; try discriminate.
    destruct ((0 <=? num) && (num <? Z.pos den)); [|discriminate].
    intro H; inversion H; subst. cbn; lia.
Qed.

Lemma gen_loop_c_model ps mode minh h : forall fuel st acc ds,
  gen_loop_c fuel ps (condition ps mode minh h) st acc ds = gen_loop fuel ps mode minh h st acc ds.
Proof.
  induction fuel as [|f IH]; intros st acc ds; destruct st as [|[d t] st]; try reflexivity.
  cbn [gen_loop_c gen_loop]. unfold bind.
  destruct (condition ps mode minh h d ds) as [[c ds1]|]; [|reflexivity].
  destruct c.
  - destruct (d_choice (terms ps t) ds1) as [[term ds2]|]; [|reflexivity].
    destruct (instantiate term ds2) as [[term' ds3]|]; [|reflexivity]. apply IH.
  - destruct (d_choice (prims ps t) ds1) as [[prim ds2]|]; [|reflexivity]. apply IH.
Qed.

Lemma gen_loop_c_fuel ps cnd : cond_mono cnd -> forall f1 f2 st acc ds,
  (length ds < f1)%nat -> (length ds < f2)%nat ->
  gen_loop_c f1 ps cnd st acc ds = gen_loop_c f2 ps cnd st acc ds.
Proof.
  intro Hm. induction f1 as [|f1 IH]; intros f2 st acc ds H1 H2; [lia|].
  destruct f2 as [|f2]; [lia|]. destruct st as [|[d t] st]; [reflexivity|].
  cbn [gen_loop_c]. unfold bind.
  destruct (cnd d ds) as [[c ds1]|] eqn:Ec; [|reflexivity]. apply Hm in Ec.
  destruct c.
  - destruct (d_choice (terms ps t) ds1) as [[term ds2]|] eqn:E1; [|reflexivity]. apply d_choice_len in E1.
    destruct (instantiate term ds2) as [[term' ds3]|] eqn:E2; [|reflexivity]. apply instantiate_len in E2.
    apply IH; lia.
  - destruct (d_choice (prims ps t) ds1) as [[prim ds2]|] eqn:E1; [|reflexivity]. apply d_choice_len in E1.
    apply IH; lia.
Qed.

Lemma m_generate_model ps mode mn mx t ds :
  m_generate ps mn mx (condition ps mode mn) (Some t) ds = generate ps mode mn mx t ds.
Proof.
  unfold m_generate, generate, bind. destruct (d_randint mn mx ds) as [[h ds1]|]; [|reflexivity].
  apply gen_loop_c_model.
Qed.

Section WhileGen.
  Variable ps : pset.
  Variable cnd : Z -> M bool.
  Let state := (ty * list (Z * ty) * list node)%type.
  Variable wcond : state -> bool.
  Variable body : state -> M state.
  Hypothesis Hcond : forall t st ex, wcond (t, st, ex) = negb (len st =? 0).
  (* one iteration, in Python order: pop the last (depth, type) pair, ask the condition, append a terminal
     (instantiated when ephemeral) or a primitive whose argument types are pushed in reverse order *)
  Hypothesis Hbody : forall t st ex ds,
    body (t, st, ex) ds =
    bind (pop_last st) (fun p =>
      bind (cnd (fst (fst p))) (fun c =>
        if c then
          bind (d_choice (terms ps (snd (fst p)))) (fun term =>
          bind (instantiate term) (fun term' => ret (snd (fst p), snd p, ex ++ [term'])))
        else
          bind (d_choice (prims ps (snd (fst p)))) (fun prim =>
          ret (snd (fst p), snd p ++ rev (map (fun a => (fst (fst p) + 1, a)) (nargs prim)), ex ++ [prim])))) ds.

  Lemma while_gen (k : state -> M (list node)) : (forall s ds, k s ds = ret (snd s) ds) ->
    forall fuel st acc t ds,
    bind (while_fuel fuel wcond body (t, rev st, rev acc)) k ds = gen_loop_c fuel ps cnd st acc ds.
  Proof.
    intro Hk. induction fuel as [|f IH]; intros st acc t ds.
    - cbn [while_fuel gen_loop_c]. rewrite Hcond. destruct st as [|[d t'] st].
      + cbn. unfold bind, ret. now rewrite Hk.
      + replace (negb (len (rev ((d, t') :: st)) =? 0)) with true; [reflexivity|].
        unfold len. rewrite rev_length. cbn [length]. symmetry. apply negb_true_iff. lia.
    - cbn [while_fuel gen_loop_c]. rewrite Hcond. destruct st as [|[d t'] st].
      + cbn. unfold bind, ret. now rewrite Hk.
      + replace (negb (len (rev ((d, t') :: st)) =? 0)) with true.
        2:{ unfold len. rewrite rev_length. cbn [length]. symmetry. apply negb_true_iff. lia. }
        unfold bind in IH |- *. rewrite Hbody. unfold bind, pop_last. rewrite rev_involutive.
        unfold ret. cbn [fst snd].
        destruct (cnd d ds) as [[c ds1]|]; [|reflexivity].
        destruct c.
        * destruct (d_choice (terms ps t') ds1) as [[term ds2]|]; [|reflexivity].
          destruct (instantiate term ds2) as [[term' ds3]|]; [|reflexivity].
          change (rev acc ++ [term']) with (rev (term' :: acc)).
          exact (IH st (term' :: acc) t' ds3).
        * destruct (d_choice (prims ps t') ds1) as [[prim ds2]|]; [|reflexivity].
          change (rev acc ++ [prim]) with (rev (prim :: acc)).
          rewrite <- rev_app_distr.
          exact (IH _ (prim :: acc) t' ds2).
  Qed.
End WhileGen.

Lemma bind_cong_ok {A B} (m : M A) (k1 k2 : A -> M B) ds :
  (forall a d, m ds = Ok (a, d) -> k1 a d = k2 a d) -> bind m k1 ds = bind m k2 ds.
Proof. intro H. unfold bind. destruct (m ds) as [[a d]|e]; [now apply H|reflexivity]. Qed.

Lemma cond_mono_ext (c1 c2 : Z -> M bool) : (forall d ds, c1 d ds = c2 d ds) -> cond_mono c2 -> cond_mono c1.
Proof. intros H Hm d ds b ds' E. rewrite H in E. now apply Hm in E. Qed.

Lemma gen_loop_c_ext ps (c1 c2 : Z -> M bool) : (forall d ds, c1 d ds = c2 d ds) ->
  forall fuel st acc ds, gen_loop_c fuel ps c1 st acc ds = gen_loop_c fuel ps c2 st acc ds.
Proof.
  intro H. induction fuel as [|f IH]; intros st acc ds; destruct st as [|[d t] st]; try reflexivity.
  cbn [gen_loop_c]. unfold bind. rewrite H.
  destruct (c2 d ds) as [[c ds1]|]; [|reflexivity].
  destruct c.
  - destruct (d_choice (terms ps t) ds1) as [[term ds2]|]; [|reflexivity].
    destruct (instantiate term ds2) as [[term' ds3]|]; [|reflexivity]. apply IH.
  - destruct (d_choice (prims ps t) ds1) as [[prim ds2]|]; [|reflexivity]. apply IH.
Qed.

(* generate with a stopping condition that is, pointwise, the model's condition for [mode] *)
Lemma m_generate_model' ps mode mn mx (cond : Z -> Z -> M bool) t ds :
  (forall h d ds, cond h d ds = condition ps mode mn h d ds) ->
  m_generate ps mn mx cond t ds = generate ps mode mn mx (match t with Some x => x | None => p_ret ps end) ds.
Proof.
  intro H. unfold m_generate, generate, bind. destruct (d_randint mn mx ds) as [[h ds1]|]; [|reflexivity].
  rewrite (gen_loop_c_ext ps (cond h) (condition ps mode mn h)) by (intros; apply H).
  apply gen_loop_c_model.
Qed.

Lemma d_choice_map {A B} (f : A -> B) l ds :
  d_choice (map f l) ds = bind (d_choice l) (fun x => ret (f x)) ds.
Proof.
  unfold d_choice, bind, ret. destruct l as [|a l]; [reflexivity|]. cbn [map].
  destruct ds as [|[] r]; try reflexivity.
  change (f a :: map f l) with (map f (a :: l)). unfold zlen. rewrite map_length.
  destruct ((n =? Z.of_nat (length (a :: l))) && (0 <=? i)); [|reflexivity].
  rewrite nth_error_map. destruct (nth_error (a :: l) (Z.to_nat i)); reflexivity.
Qed.

(* ------------------------------------------------------------------ spans are inside the list *)
Lemma span_loop_bounds : forall s t e0 e, span_loop s t e0 = Ok e -> (e0 <= e <= e0 + length s)%nat.
Proof.
  induction s as [|n r IH]; intros t e0 e; cbn [span_loop]; destruct (0 <? t); try discriminate;
    try (intro H; inversion H; subst; cbn [length]; lia).
  intro H. apply IH in H. cbn [length]. lia.
Qed.

Lemma search_subtree_bounds l i b e : search_subtree l i = Ok (b, e) -> b = i /\ (i < e <= length l)%nat.
Proof.
  unfold search_subtree. destruct (nth_error l i) as [n|] eqn:En; [|discriminate].
  assert (Hi : (i < length l)%nat) by (apply nth_error_Some; congruence).
  destruct (span_loop (skipn (S i) l) (zarity n) (S i)) as [e'|] eqn:Es; [|discriminate].
  apply span_loop_bounds in Es. rewrite skipn_length in Es.
  intro H; inversion H; subst. lia.
Qed.

Lemma getslice_obj_nat (l : list node) b e : (b <= e <= length l)%nat ->
  getslice_obj l (zslice (b, e)) = get_slice l b e.
Proof.
  intro H. unfold getslice_obj, getslice, zslice. cbn [fst snd].
  symmetry. apply (get_slice_is_python l b e H).
Qed.

Lemma len_nat {A} (l : list A) : len l = Z.of_nat (length l).
Proof. reflexivity. Qed.

(* ------------------------------------------------------------------ enumerate, index lists *)
Lemma combine_map_l {A B C} (f : A -> C) : forall (a : list A) (b : list B),
  combine (map f a) b = map (fun p => (f (fst p), snd p)) (combine a b).
Proof. induction a as [|x a IH]; intros [|y b]; cbn; try reflexivity. now rewrite IH. Qed.

Lemma filter_map_comm {A B} (f : A -> B) (p : B -> bool) : forall l,
  filter p (map f l) = map f (filter (fun x => p (f x)) l).
Proof. induction l as [|x l IH]; cbn; [reflexivity|]. destruct (p (f x)); cbn; now rewrite IH. Qed.

Definition zfst {A} (p : nat * A) : Z * A := (Z.of_nat (fst p), snd p).

Lemma enumerate_from_nat {A} (s : nat) (l : list A) :
  enumerate_from (Z.of_nat s) l = map zfst (combine (seq s (length l)) l).
Proof.
  unfold enumerate_from.
  assert (G : forall (l : list A) k,
    combine (map (fun i => Z.of_nat s + Z.of_nat i) (seq k (length l))) l =
    map zfst (combine (seq (s + k) (length l)) l)).
  { clear. induction l as [|x l IH]; intro k; [reflexivity|].
    cbn [length seq map combine]. rewrite IH. unfold zfst at 2. cbn [fst snd].
    f_equal; [f_equal; lia|]. f_equal. f_equal. f_equal. lia. }
  rewrite G. now rewrite Nat.add_0_r.
Qed.

Lemma enumerate_from_0 {A} (l : list A) : enumerate_from 0 l = map zfst (enumerate l).
Proof. exact (enumerate_from_nat 0 l). Qed.

Lemma enumerate_from_1_tl {A} (l : list A) : enumerate_from 1 (tl l) = map zfst (tl (enumerate l)).
Proof.
  destruct l as [|x l]; [reflexivity|]. unfold enumerate. cbn [tl length seq combine].
  exact (enumerate_from_nat 1 l).
Qed.

(* [i for i, x in enumerate(l) if p(x)] and the same on a list enumerated from 1 *)
Lemma idx_filter {A} (p : A -> bool) (P : Z * A -> bool) (F : Z * A -> Z) (e : list (nat * A)) :
  (forall i x, P (i, x) = p x) -> (forall i x, F (i, x) = i) ->
  map F (filter P (map zfst e)) = map Z.of_nat (map fst (filter (fun q => p (snd q)) e)).
Proof.
  intros HP HF. rewrite filter_map_comm, !map_map.
  rewrite (filter_ext (fun x => P (zfst x)) (fun q => p (snd q))) by (intros [i x]; apply HP).
  apply map_ext. intros [i x]. apply HF.
Qed.

(* [(i, x) for i, x in enumerate(l) if p(x)] *)
Lemma pair_filter {A} (p : A -> bool) (P : Z * A -> bool) (e : list (nat * A)) :
  (forall i x, P (i, x) = p x) ->
  filter P (map zfst e) = map zfst (filter (fun q => p (snd q)) e).
Proof.
  intros HP. rewrite filter_map_comm.
  now rewrite (filter_ext (fun x => P (zfst x)) (fun q => p (snd q))) by (intros [i x]; apply HP).
Qed.

(* ------------------------------------------------------------------ mutEphemeral: the replacement loop *)
Section ForEph.
  Variable body : Z -> list node -> M (list node).
  Hypothesis Hbody : forall i l ds,
    body (Z.of_nat i) l ds =
    match nth_error l i with
    | None => fail EIndex ds
    | Some n => bind (d_eph (nname n)) (fun v => lift (set_item l i (set_val n v))) ds
    end.
  Lemma for_eph : forall idxs l ds, for_each (map Z.of_nat idxs) body l ds = eph_fold l idxs ds.
  Proof.
    induction idxs as [|i r IH]; intros l ds; cbn [map for_each eph_fold]; [reflexivity|].
    unfold bind at 1. rewrite Hbody. destruct (nth_error l i) as [n|]; [|reflexivity].
    unfold bind. destruct (d_eph (nname n) ds) as [[v ds1]|]; [|reflexivity].
    unfold lift. destruct (set_item l i (set_val n v)) as [l'|]; [|reflexivity]. apply IH.
  Qed.
End ForEph.

Lemma py_set_mid {A} (pre : list A) x r v :
  py_set (pre ++ x :: r) (Z.of_nat (length pre)) v = Some (pre ++ v :: r).
Proof.
  unfold py_set, PyList.zlen. cbv zeta.
  replace (Z.of_nat (length pre) <? 0) with false by lia. cbv iota.
  replace (Z.of_nat (length pre) <? 0) with false by lia. cbn [orb].
  rewrite app_length. cbn [length].
  replace (Z.of_nat (length pre + S (length r)) <=? Z.of_nat (length pre)) with false by lia.
  rewrite Nat2Z.id. f_equal. clear. induction pre as [|y p IH]; cbn; [reflexivity|]. now rewrite IH.
Qed.

(* ------------------------------------------------------------------ staticLimit: the replacement loop *)
Section ForLimit.
  Variable key : list node -> M Z.
  Variable maxv : Z.
  Variable keep : list (list node).
  Variable body : Z * list node -> list (list node) -> M (list (list node)).
  Hypothesis Hbody : forall i o l ds,
    body (Z.of_nat i, o) l ds =
    bind (key o) (fun m =>
      if maxv <? m then bind (d_choice keep) (fun o' => list_setitem l (Z.of_nat i) o') else ret l) ds.

  Lemma for_limit : forall outs pre ds,
    for_each (map zfst (combine (seq (length pre) (length outs)) outs)) body (pre ++ outs) ds =
    bind (limit_fold_k key maxv keep outs) (fun r => ret (pre ++ r)) ds.
  Proof.
    induction outs as [|o r IH]; intros pre ds; cbn [length seq combine map for_each limit_fold_k].
    - unfold bind, ret. reflexivity.
    - unfold zfst at 1. cbn [fst snd]. unfold bind in IH |- *. rewrite Hbody. unfold bind.
      destruct (key o ds) as [[m ds1]|]; [|reflexivity].
      destruct (maxv <? m).
      + destruct (d_choice keep ds1) as [[o' ds2]|]; [|reflexivity].
        unfold list_setitem. rewrite py_set_mid. unfold ret at 1.
        replace (pre ++ o' :: r) with ((pre ++ [o']) ++ r) by (now rewrite <- app_assoc).
        replace (S (length pre)) with (length (pre ++ [o'])) by (rewrite app_length; cbn; lia).
        rewrite IH.
        destruct (limit_fold_k key maxv keep r ds2) as [[r' ds3]|]; [|reflexivity].
        unfold ret. now rewrite <- app_assoc.
      + unfold ret at 1 2.
        replace (pre ++ o :: r) with ((pre ++ [o]) ++ r) by (now rewrite <- app_assoc).
        replace (S (length pre)) with (length (pre ++ [o])) by (rewrite app_length; cbn; lia).
        rewrite IH.
        destruct (limit_fold_k key maxv keep r ds1) as [[r' ds3]|]; [|reflexivity].
        unfold ret. now rewrite <- app_assoc.
  Qed.
End ForLimit.

(* ------------------------------------------------------------------ crossover: the defaultdict of positions by type *)
(* what `for idx, node in enumerate(ind[1:], 1): if keep(node): types[node.ret].append(idx)` builds *)
Definition dd_step (keep : node -> bool) (d : dd) (p : nat * node) : dd :=
  if keep (snd p) then dd_append d (nret (snd p)) (Z.of_nat (fst p)) else d.
Definition dd_build (keep : node -> bool) (e : list (nat * node)) (d : dd) : dd := fold_left (dd_step keep) e d.

Section ForDD.
  Variable keep : node -> bool.
  Variable body : Z * node -> dd -> M dd.
  Hypothesis Hbody : forall i nd d ds,
    body (Z.of_nat i, nd) d ds = ret (if keep nd then dd_append d (nret nd) (Z.of_nat i) else d) ds.
  Lemma for_dd : forall e d ds, for_each (map zfst e) body d ds = ret (dd_build keep e d) ds.
  Proof.
    induction e as [|[i nd] e IH]; intros d ds; cbn [map for_each]; [reflexivity|].
    unfold bind. unfold zfst at 1. cbn [fst snd]. rewrite Hbody. unfold ret at 1. rewrite IH. reflexivity.
  Qed.
End ForDD.

Lemma mem_ty_app t a b : mem_ty t (a ++ b) = mem_ty t a || mem_ty t b.
Proof. unfold mem_ty. apply existsb_app. Qed.

Lemma dd_keys_append d k x :
  dd_keys (dd_append d k x) = if mem_ty k (dd_keys d) then dd_keys d else dd_keys d ++ [k].
Proof.
  unfold dd_keys. induction d as [|[k' v] r IH]; cbn [dd_append map fst mem_ty existsb]; [reflexivity|].
  rewrite (N.eqb_sym k k'). destruct (N.eqb k' k) eqn:E; cbn [map fst orb]; [reflexivity|].
  fold (mem_ty k (map fst r)). rewrite IH. destruct (mem_ty k (map fst r)); reflexivity.
Qed.

Lemma dd_get_append d k x t :
  dd_get (dd_append d k x) t = if N.eqb k t then dd_get d t ++ [x] else dd_get d t.
Proof.
  induction d as [|[k' v] r IH]; cbn [dd_append dd_get].
  - destruct (N.eqb k t); reflexivity.
  - destruct (N.eqb k' k) eqn:E; cbn [dd_get].
    + apply N.eqb_eq in E. subst k'. destruct (N.eqb k t); reflexivity.
    + destruct (N.eqb k' t) eqn:E2; [|exact IH].
      apply N.eqb_eq in E2. subst k'. rewrite (N.eqb_sym k t), E. reflexivity.
Qed.

Lemma dd_mem_keys d t : dd_mem d t = mem_ty t (dd_keys d).
Proof.
  unfold dd_keys, mem_ty. induction d as [|[k v] r IH]; cbn [dd_mem map fst existsb]; [reflexivity|].
  now rewrite IH, (N.eqb_sym t k).
Qed.

Lemma mem_ty_filter_neq x t l : mem_ty t (filter (fun y => negb (N.eqb x y)) l) = negb (N.eqb x t) && mem_ty t l.
Proof.
  unfold mem_ty. induction l as [|y l IH]; cbn [filter existsb]; [now rewrite andb_false_r|].
  destruct (N.eqb x y) eqn:E; cbn [negb existsb]; rewrite IH.
  - apply N.eqb_eq in E. subst y. rewrite (N.eqb_sym t x). destruct (N.eqb x t); reflexivity.
  - destruct (N.eqb t y) eqn:E2; [|reflexivity].
    apply N.eqb_eq in E2. subst y. rewrite E. reflexivity.
Qed.

Lemma mem_ty_dedup t l : mem_ty t (dedup l) = mem_ty t l.
Proof.
  induction l as [|x l IH]; [reflexivity|]. cbn [dedup]. unfold mem_ty at 1. cbn [existsb].
  fold (mem_ty t (filter (fun y => negb (N.eqb x y)) (dedup l))).
  rewrite mem_ty_filter_neq, IH. unfold mem_ty at 2. cbn [existsb]. fold (mem_ty t l).
  rewrite (N.eqb_sym t x). destruct (N.eqb x t); reflexivity.
Qed.

Lemma dedup_snoc l k : dedup (l ++ [k]) = if mem_ty k l then dedup l else dedup l ++ [k].
Proof.
  induction l as [|x l IH]; [reflexivity|]. cbn [app dedup]. rewrite IH.
  unfold mem_ty at 2. cbn [existsb]. fold (mem_ty k l). rewrite (N.eqb_sym k x).
  destruct (N.eqb x k) eqn:E; cbn [orb].
  - apply N.eqb_eq in E. subst k. destruct (mem_ty x l); [reflexivity|].
    rewrite filter_app. cbn [filter]. rewrite N.eqb_refl. cbn [negb]. now rewrite app_nil_r.
  - destruct (mem_ty k l); [reflexivity|].
    rewrite filter_app. cbn [filter]. rewrite E. reflexivity.
Qed.

(* keys in order of first appearance, the positions filed under a key, membership *)
Lemma dd_build_spec keep : forall e,
  dd_keys (dd_build keep e []) = dedup (map nret (filter keep (map snd e))) /\
  forall t, dd_get (dd_build keep e []) t =
            map Z.of_nat (map fst (filter (fun p => keep (snd p) && N.eqb (nret (snd p)) t) e)).
Proof.
  induction e as [|[i nd] e [IHk IHg]] using rev_ind; [split; reflexivity|].
  unfold dd_build in *. rewrite fold_left_app. set (D := fold_left (dd_step keep) e []) in *.
  cbn [fold_left]. unfold dd_step. cbn [fst snd].
  rewrite map_app, !filter_app, map_app. cbn [map filter snd].
  destruct (keep nd) eqn:Ek; cbn [andb map app].
  - split.
    + rewrite dd_keys_append, IHk, dedup_snoc, mem_ty_dedup. reflexivity.
    + intro t. rewrite dd_get_append, IHg, filter_app. cbn [filter fst snd]. rewrite Ek. cbn [andb].
      destruct (N.eqb (nret nd) t); rewrite !map_app; cbn [map]; [reflexivity|now rewrite app_nil_r].
  - split.
    + now rewrite app_nil_r.
    + intro t. rewrite IHg, filter_app. cbn [filter fst snd]. rewrite Ek. cbn [andb]. now rewrite app_nil_r.
Qed.

Lemma snd_tl_enumerate {A} (l : list A) : map snd (tl (enumerate l)) = tl l.
Proof.
  unfold enumerate. destruct l as [|x l]; [reflexivity|]. cbn [length seq combine tl].
  generalize 1%nat. induction l as [|y l IH]; intro k; [reflexivity|]. cbn [length seq combine map snd].
  now rewrite IH.
Qed.

Lemma dd_build_model keep l :
  let d := dd_build keep (tl (enumerate l)) [] in
  dd_keys d = type_keys keep l /\
  (forall t, dd_get d t = map Z.of_nat (idx_of_type keep l t)) /\
  (forall t, dd_mem d t = mem_ty t (type_keys keep l)).
Proof.
  cbv zeta. destruct (dd_build_spec keep (tl (enumerate l))) as [Hk Hg].
  rewrite snd_tl_enumerate in Hk. unfold type_keys, idx_of_type.
  split; [exact Hk|]. split; [exact Hg|]. intro t. now rewrite dd_mem_keys, Hk.
Qed.

Lemma dd_build_ext k1 k2 e d : (forall n, k1 n = k2 n) -> dd_build k1 e d = dd_build k2 e d.
Proof.
  intro H. unfold dd_build. revert d. induction e as [|p e IH]; intro d; [reflexivity|]. cbn [fold_left].
  unfold dd_step at 2 4. rewrite H. apply IH.
Qed.

Lemma range2_seq (n : nat) : range2 1 (Z.of_nat n) = map Z.of_nat (seq 1 (n - 1)).
Proof.
  unfold range2, py_range3, range_count. cbn [Z.ltb Z.compare].
  destruct (1 <? Z.of_nat n) eqn:E.
  - rewrite Z.div_1_r. replace (Z.to_nat (Z.of_nat n - 1 - 1 + 1)) with (n - 1)%nat by lia.
    rewrite <- seq_shift, !map_map. apply map_ext. intro i. lia.
  - replace (n - 1)%nat with 0%nat by lia. reflexivity.
Qed.

Lemma eq0_is_term n : eq0 (Z.of_nat (arity n)) = is_term n.
Proof. unfold eq0, is_term. destruct (0 =? Z.of_nat (arity n)) eqn:E; destruct (Nat.eqb (arity n) 0) eqn:E2; lia. Qed.
Lemma lt0_is_prim n : lt0 (Z.of_nat (arity n)) = is_prim n.
Proof. unfold lt0, is_prim. destruct (0 <? Z.of_nat (arity n)) eqn:E; destruct (0 <? arity n)%nat eqn:E2; lia. Qed.

(* ------------------------------------------------------------------ loops that collect the elements passing a test *)
Lemma for_each_filter_append {A B} (p : A -> bool) (f : A -> B) (body : A -> list B -> M (list B)) :
  (forall x s ds, body x s ds = ret (if p x then s ++ [f x] else s) ds) ->
  forall l s ds, for_each l body s ds = ret (s ++ map f (filter p l)) ds.
Proof.
  intro H. induction l as [|x r IH]; intros s ds; cbn [for_each filter map].
  - now rewrite app_nil_r.
  - unfold bind. rewrite H. unfold ret at 1. rewrite IH. destruct (p x); cbn [map]; [|reflexivity].
    now rewrite <- app_assoc.
Qed.

Lemma is_primitive_mem n : is_primitive n && mem_ty (nret n) (nargs n) = mem_ty (nret n) (nargs n).
Proof.
  unfold is_primitive, arity. destruct (nargs n) as [|a r]; [reflexivity|]. cbn [length Nat.eqb negb andb]. reflexivity.
Qed.

Lemma range1_length (k : nat) : length (range1 (Z.of_nat k)) = k.
Proof.
  unfold range1, py_range3, range_count. cbn [Z.ltb Z.compare]. rewrite map_length, seq_length.
  destruct (0 <? Z.of_nat k) eqn:E; [rewrite Z.div_1_r|]; lia.
Qed.

(* ------------------------------------------------------------------ mutShrink: the walk over the arguments *)
Fixpoint walk2 (l : list node) (rindex : nat) (k : nat) (o : option (list node)) : res (nat * option (list node)) :=
  match k with
  | O => Ok (rindex, o)
  | S k' =>
    match search_subtree l rindex with
    | Err e => Err e
    | Ok (b, e) => let s := get_slice l b e in walk2 l (rindex + length s) k' (Some s)
    end
  end.

Definition from_opt {A} (d : A) (o : option A) : A := match o with Some x => x | None => d end.

Lemma shrink_walk_walk2 l : forall k r o s0,
  shrink_walk l r k (from_opt s0 o) = res_map (fun p => from_opt s0 (snd p)) (walk2 l r k o).
Proof.
  induction k as [|k IH]; intros r o s0; cbn [shrink_walk walk2]; [reflexivity|].
  destruct (search_subtree l r) as [[b e]|]; [|reflexivity].
  cbv zeta. exact (IH _ (Some (get_slice l b e)) s0).
Qed.

Lemma walk2_some l : forall k r o r' o', walk2 l r (S k) o = Ok (r', o') -> exists s, o' = Some s.
Proof.
  induction k as [|k IH]; intros r o r' o'; cbn [walk2].
  - destruct (search_subtree l r) as [[b e]|]; [|discriminate]. cbv zeta. intro H; inversion H; eauto.
  - destruct (search_subtree l r) as [[b e]|]; [|discriminate]. cbv zeta. apply (IH _ (Some (get_slice l b e))).
Qed.

Section ForWalk.
  Variable l : list node.
  Let state := (Z * option (list node))%type.
  Variable body : Z -> state -> M state.
  Hypothesis Hbody : forall x r o ds,
    body x (Z.of_nat r, o) ds =
    match search_subtree l r with
    | Err e => Err e
    | Ok (b, e) => Ok ((Z.of_nat (r + length (get_slice l b e)), Some (get_slice l b e)), ds)
    end.
  Lemma for_walk : forall xs r o ds,
    for_each xs body (Z.of_nat r, o) ds =
    lift (res_map (fun p => (Z.of_nat (fst p), snd p)) (walk2 l r (length xs) o)) ds.
  Proof.
    induction xs as [|x xs IH]; intros r o ds; cbn [for_each length walk2]; [reflexivity|].
    unfold bind. rewrite Hbody. destruct (search_subtree l r) as [[b e]|]; [|reflexivity].
    cbv zeta. apply IH.
  Qed.
End ForWalk.

Lemma shrink_walk_walk2_nil l r k :
  shrink_walk l r k [] = res_map (fun p => from_opt [] (snd p)) (walk2 l r k None).
Proof. exact (shrink_walk_walk2 l k r None []). Qed.

(* ------------------------------------------------------------------ mutInsert: building the new subtree *)
(* (a) in prefix order: the loop appends a fresh terminal per argument, or the old subtree at `position` *)
Section ForInsertAppend.
  Variable ps : pset.
  Variable old : list node.
  Variable position : nat.
  Variable body : Z * ty -> list node -> M (list node).
  Hypothesis Hbody : forall i a acc ds,
    body (Z.of_nat i, a) acc ds =
    (if Nat.eqb i position then ret (acc ++ old)
     else bind (d_choice (terms ps a)) (fun t => bind (instantiate t) (fun t' => ret (acc ++ [t'])))) ds.
  Lemma for_insert_append : forall args k acc ds,
    for_each (map zfst (combine (seq k (length args)) args)) body acc ds =
    bind (insert_fill ps old position k args) (fun r => ret (acc ++ r)) ds.
  Proof.
    induction args as [|a r IH]; intros k acc ds; cbn [length seq combine map for_each insert_fill].
    - unfold bind, ret. now rewrite app_nil_r.
    - unfold zfst at 1. cbn [fst snd]. unfold bind in IH |- *. rewrite Hbody.
      destruct (Nat.eqb k position).
      + unfold ret at 1. rewrite IH.
        destruct (insert_fill ps old position (S k) r ds) as [[rest ds1]|]; [|reflexivity].
        unfold ret. now rewrite app_assoc.
      + unfold bind. destruct (d_choice (terms ps a) ds) as [[t ds1]|]; [|reflexivity].
        destruct (instantiate t ds1) as [[t' ds2]|]; [|reflexivity].
        unfold ret at 1. rewrite IH.
        destruct (insert_fill ps old position (S k) r ds2) as [[rest ds3]|]; [|reflexivity].
        unfold ret. now rewrite <- app_assoc.
  Qed.
End ForInsertAppend.

(* (b) with placeholders: [None] * n, every position but `position` set to a fresh terminal, then the old subtree
   spliced in at `position` and the new root inserted in front *)
Fixpoint fill_opts (ps : pset) (position i : nat) (args : list ty) : M (list (option node)) :=
  match args with
  | [] => ret []
  | a :: r =>
    if Nat.eqb i position then bind (fill_opts ps position (S i) r) (fun rest => ret (None :: rest))
    else bind (d_choice (terms ps a)) (fun t => bind (instantiate t) (fun t' =>
         bind (fill_opts ps position (S i) r) (fun rest => ret (Some t' :: rest))))
  end.

Lemma py_set_mid' {A} (pre : list A) x r v (i : Z) : i = Z.of_nat (length pre) ->
  py_set (pre ++ x :: r) i v = Some (pre ++ v :: r).
Proof. intros ->. apply py_set_mid. Qed.

Section ForFill.
  Variable ps : pset.
  Variable position : nat.
  Variable body : Z * ty -> list (option node) -> M (list (option node)).
  Hypothesis Hbody : forall i a ns ds,
    body (Z.of_nat i, a) ns ds =
    (if Nat.eqb i position then ret ns
     else bind (d_choice (terms ps a)) (fun t => bind (instantiate t) (fun t' =>
          list_setitem ns (Z.of_nat i) (Some t')))) ds.
  Lemma for_fill : forall args pre ds,
    for_each (map zfst (combine (seq (length pre) (length args)) args)) body (pre ++ repeat None (length args)) ds =
    bind (fill_opts ps position (length pre) args) (fun r => ret (pre ++ r)) ds.
  Proof.
    induction args as [|a r IH]; intros pre ds; cbn [length seq combine map for_each fill_opts repeat].
    - unfold bind, ret. reflexivity.
    - unfold zfst at 1. cbn [fst snd]. unfold bind in IH |- *. rewrite Hbody.
      destruct (Nat.eqb (length pre) position).
      + unfold ret at 1.
        replace (pre ++ None :: repeat None (length r)) with ((pre ++ [None]) ++ repeat None (length r))
          by (now rewrite <- app_assoc).
        replace (S (length pre)) with (length (pre ++ [@None node])) by (rewrite app_length; cbn; lia).
        rewrite IH. unfold bind.
        destruct (fill_opts ps position (length (pre ++ [None])) r ds) as [[rest ds1]|]; [|reflexivity].
        unfold ret. now rewrite <- app_assoc.
      + unfold bind. destruct (d_choice (terms ps a) ds) as [[t ds1]|]; [|reflexivity].
        destruct (instantiate t ds1) as [[t' ds2]|]; [|reflexivity].
        unfold list_setitem. rewrite py_set_mid. unfold ret at 1.
        replace (pre ++ Some t' :: repeat None (length r)) with ((pre ++ [Some t']) ++ repeat None (length r))
          by (now rewrite <- app_assoc).
        replace (S (length pre)) with (length (pre ++ [Some t'])) by (rewrite app_length; cbn; lia).
        rewrite IH. unfold bind.
        destruct (fill_opts ps position (length (pre ++ [Some t'])) r ds2) as [[rest ds3]|]; [|reflexivity].
        unfold ret. now rewrite <- app_assoc.
  Qed.
End ForFill.

Lemma unwrap_all_some {A} (l : list A) ds : unwrap_all (map Some l) ds = ret l ds.
Proof.
  revert ds. induction l as [|x l IH]; intro ds; cbn [map unwrap_all]; [reflexivity|].
  unfold bind. rewrite IH. reflexivity.
Qed.

Lemma unwrap_all_app_some {A} (l : list A) (r : list (option A)) ds :
  unwrap_all (map Some l ++ r) ds = bind (unwrap_all r) (fun r' => ret (l ++ r')) ds.
Proof.
  revert ds. induction l as [|x l IH]; intro ds; cbn [map app unwrap_all].
  - unfold bind, ret. destruct (unwrap_all r ds) as [[a d]|]; reflexivity.
  - unfold bind in IH |- *. rewrite IH. destruct (unwrap_all r ds) as [[a d]|]; reflexivity.
Qed.

(* past the insertion point: only fresh terminals *)
Lemma insert_fill_past ps old position : forall args i ds, (position < i)%nat ->
  insert_fill ps old position i args ds = bind (fill_opts ps position i args) unwrap_all ds.
Proof.
  induction args as [|a r IH]; intros i ds Hi; cbn [insert_fill fill_opts]; [reflexivity|].
  replace (Nat.eqb i position) with false by (symmetry; apply Nat.eqb_neq; lia).
  unfold bind in IH |- *.
  destruct (d_choice (terms ps a) ds) as [[t ds1]|]; [|reflexivity].
  destruct (instantiate t ds1) as [[t' ds2]|]; [|reflexivity].
  rewrite IH by lia. destruct (fill_opts ps position (S i) r ds2) as [[rest ds3]|]; [|reflexivity].
  unfold ret. cbn [unwrap_all]. unfold bind. destruct (unwrap_all rest ds3) as [[x d]|]; reflexivity.
Qed.

(* up to the insertion point: the placeholder left at `position` is where the old subtree goes *)
Lemma insert_fill_opts ps old position : forall args i ds, (i <= position < i + length args)%nat ->
  insert_fill ps old position i args ds =
  bind (fill_opts ps position i args)
       (fun R => unwrap_all (firstn (position - i) R ++ map Some old ++ skipn (position - i + 1) R)) ds.
Proof.
  induction args as [|a r IH]; intros i ds Hi; cbn [length] in Hi; [lia|].
  cbn [insert_fill fill_opts].
  destruct (Nat.eqb i position) eqn:E.
  - apply Nat.eqb_eq in E. subst i. rewrite Nat.sub_diag. cbn [Nat.add].
    unfold bind. rewrite insert_fill_past by lia. unfold bind.
    destruct (fill_opts ps position (S position) r ds) as [[rest ds1]|]; [|reflexivity].
    unfold ret at 2. cbn [firstn skipn app]. rewrite unwrap_all_app_some. unfold bind.
    destruct (unwrap_all rest ds1) as [[x d]|]; reflexivity.
  - apply Nat.eqb_neq in E. unfold bind in IH |- *.
    destruct (d_choice (terms ps a) ds) as [[t ds1]|]; [|reflexivity].
    destruct (instantiate t ds1) as [[t' ds2]|]; [|reflexivity].
    rewrite IH by lia. destruct (fill_opts ps position (S i) r ds2) as [[rest ds3]|]; [|reflexivity].
    unfold ret at 2.
    replace (position - i)%nat with (S (position - S i)) by lia.
    cbn [firstn skipn app Nat.add unwrap_all]. unfold bind.
    replace (position - S i + 1)%nat with (S (position - S i)) by lia.
    destruct (unwrap_all (firstn (position - S i) rest ++ map Some old ++ skipn (S (position - S i)) rest) ds3)
      as [[x d]|]; reflexivity.
Qed.

Lemma list_mul_none_len {A} (n : nat) : list_mul [@None A] (Z.of_nat n) = repeat None n.
Proof. apply list_mul_single. Qed.

Lemma setslice_nat {A} (l v : list A) (p : nat) :
  setslice l (Some (Z.of_nat p)) (Some (Z.of_nat p + 1)) v = firstn p l ++ v ++ skipn (p + 1) l.
Proof.
  unfold setslice, py_slice_assign, slice_adjust, PyList.zlen. cbn [Z.ltb Z.compare].
  replace (Z.of_nat p <? 0) with false by lia. replace (Z.of_nat p + 1 <? 0) with false by lia.
  destruct (Nat.leb p (length l)) eqn:E.
  - apply Nat.leb_le in E. rewrite (Z.min_l (Z.of_nat p)) by lia.
    destruct (Nat.leb (p + 1) (length l)) eqn:E2.
    + apply Nat.leb_le in E2. rewrite (Z.min_l (Z.of_nat p + 1)) by lia.
      rewrite Z.max_r by lia. rewrite Nat2Z.id. replace (Z.to_nat (Z.of_nat p + 1)) with (p + 1)%nat by lia. reflexivity.
    + apply Nat.leb_gt in E2. rewrite (Z.min_r (Z.of_nat p + 1)) by lia.
      rewrite Z.max_r by lia. rewrite !Nat2Z.id. rewrite (skipn_all2 l) by lia. rewrite (skipn_all2 l) by lia. reflexivity.
  - apply Nat.leb_gt in E. rewrite (Z.min_r (Z.of_nat p)) by lia. rewrite (Z.min_r (Z.of_nat p + 1)) by lia.
    rewrite Z.max_l by lia. rewrite !Nat2Z.id. rewrite (firstn_all2 l) by lia.
    rewrite (firstn_all2 l) by lia. rewrite !(skipn_all2 l) by lia. reflexivity.
Qed.

Lemma list_insert_0 {A} (l : list A) x : list_insert l 0 x = x :: l.
Proof. reflexivity. Qed.

Lemma positions_lt t args i : In i (positions t args) -> (i < length args)%nat.
Proof.
  unfold positions, enumerate. intro H. apply in_map_iff in H. destruct H as ([j a] & <- & H).
  apply filter_In in H. destruct H as [H _]. apply in_combine_l in H. apply in_seq in H. cbn [fst]. lia.
Qed.

Lemma filter_enum_lt {A} (P : nat * A -> bool) (args : list A) i a :
  In (i, a) (filter P (combine (seq 0 (length args)) args)) -> (i < length args)%nat.
Proof.
  intro H. apply filter_In in H. destruct H as [H _]. apply in_combine_l in H. apply in_seq in H. lia.
Qed.

(* searchSubtree reads the node at the index first: out of range is its IndexError *)
Lemma search_subtree_none l i : nth_error l i = None -> search_subtree l i = Err EIndex.
Proof. intro H. unfold search_subtree. now rewrite H. Qed.
