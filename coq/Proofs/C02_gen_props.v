(* The C02 theorems transported to the definitions REGENERATED from the current source text
   (coq/Gen/C02_gen.v), through gen_varAnd_eq / gen_varOr_eq of Proofs/C02_gen_equiv.v.
   Statements: those of Props/C02.v with `var_and ... s pop` replaced by `gen_varAnd ... pop ... s`
   and `var_or` by `gen_varOr`; Props/C02_gen.v lists them. *)
From Coq Require Import List ZArith Bool.
From DV Require Import Model.C02_Variation Model.C02_GenRt Proofs.C02_Variation Proofs.C02_Progress Proofs.C02_Trace.
From DV Require Import Gen.C02_gen Proofs.C02_gen_equiv.
Import ListNotations.

(* rewrite the run hypothesis `gen_f ... = (s', res)` into the hand model's run *)
Ltac to_model :=
  match goal with
  | H : gen_varAnd _ _ _ _ _ _ _ _ _ _ = _ |- _ => rewrite gen_varAnd_eq in H
  | H : gen_varOr _ _ _ _ _ _ _ _ _ _ _ = _ |- _ => rewrite gen_varOr_eq in H
  end.

Lemma gen_and_parents_untouched :
  forall G F T ltb leb add one mate_o mut_o h0 pop, wf_heap h0 -> pop_ok h0 pop ->
  (forall k x y, ret_distinct (ma_r1 (mate_o k x y)) (ma_r2 (mate_o k x y))) ->
  forall cxpb mutpb d s' res,
  @gen_varAnd G F T ltb leb add one mate_o mut_o pop cxpb mutpb (start h0 d) = (s', res) ->
  untouched h0 pop (hp s').
Proof. intros; to_model; first [ solve [eapply and_parents_untouched; eassumption] | solve [eauto 8 using and_parents_untouched] ]. Qed.

Lemma gen_and_offspring_count :
  forall G F T ltb leb add one mate_o mut_o h0 pop, wf_heap h0 -> pop_ok h0 pop ->
  (forall k x y, ret_distinct (ma_r1 (mate_o k x y)) (ma_r2 (mate_o k x y))) ->
  forall cxpb mutpb d s' res,
  @gen_varAnd G F T ltb leb add one mate_o mut_o pop cxpb mutpb (start h0 d) = (s', res) ->
  forall off, res = inr off -> length off = length pop.
Proof. intros; to_model; first [ solve [eapply and_offspring_count; eassumption] | solve [eauto 8 using and_offspring_count] ]. Qed.

Lemma gen_and_offspring_independent :
  forall G F T ltb leb add one mate_o mut_o h0 pop, wf_heap h0 -> pop_ok h0 pop ->
  (forall k x y, ret_distinct (ma_r1 (mate_o k x y)) (ma_r2 (mate_o k x y))) ->
  forall cxpb mutpb d s' res,
  @gen_varAnd G F T ltb leb add one mate_o mut_o pop cxpb mutpb (start h0 d) = (s', res) ->
  forall off, res = inr off -> independent h0 (hp s') off.
Proof. intros; to_model; first [ solve [eapply and_offspring_independent; eassumption] | solve [eauto 8 using and_offspring_independent] ]. Qed.

Lemma gen_and_varied_invalid :
  forall G F T ltb leb add one mate_o mut_o h0 pop, wf_heap h0 -> pop_ok h0 pop ->
  (forall k x y, ret_distinct (ma_r1 (mate_o k x y)) (ma_r2 (mate_o k x y))) ->
  forall cxpb mutpb d s' res,
  @gen_varAnd G F T ltb leb add one mate_o mut_o pop cxpb mutpb (start h0 d) = (s', res) ->
  forall off, res = inr off -> varied_invalid (hp s') (lg s') off.
Proof. intros; to_model; first [ solve [eapply and_varied_invalid; eassumption] | solve [eauto 8 using and_varied_invalid] ]. Qed.

Lemma gen_and_valid_is_parent_copy :
  forall G F T ltb leb add one mate_o mut_o h0 pop, wf_heap h0 -> pop_ok h0 pop ->
  (forall k x y, ret_distinct (ma_r1 (mate_o k x y)) (ma_r2 (mate_o k x y))) ->
  forall cxpb mutpb d s' res,
  @gen_varAnd G F T ltb leb add one mate_o mut_o pop cxpb mutpb (start h0 d) = (s', res) ->
  forall off, res = inr off -> valid_is_parent_copy h0 pop (hp s') (lg s') off.
Proof. intros; to_model; first [ solve [eapply and_valid_is_parent_copy; eassumption] | solve [eauto 8 using and_valid_is_parent_copy] ]. Qed.

Lemma gen_or_parents_untouched :
  forall G F T ltb mate_o mut_o h0 pop, wf_heap h0 -> pop_ok h0 pop ->
  forall leb add one lambda_ cxpb mutpb d s' res,
  @gen_varOr G F T ltb leb add one mate_o mut_o pop lambda_ cxpb mutpb (start h0 d) = (s', res) ->
  untouched h0 pop (hp s').
Proof. intros; to_model; first [ solve [eapply or_parents_untouched; eassumption] | solve [eauto 8 using or_parents_untouched] ]. Qed.

Lemma gen_or_offspring_count :
  forall G F T ltb mate_o mut_o h0 pop, wf_heap h0 -> pop_ok h0 pop ->
  forall leb add one lambda_ cxpb mutpb d s' res,
  @gen_varOr G F T ltb leb add one mate_o mut_o pop lambda_ cxpb mutpb (start h0 d) = (s', res) ->
  forall off, res = inr off -> length off = Z.to_nat lambda_.
Proof. intros; to_model; first [ solve [eapply or_offspring_count; eassumption] | solve [eauto 8 using or_offspring_count] ]. Qed.

Lemma gen_or_offspring_independent :
  forall G F T ltb mate_o mut_o h0 pop, wf_heap h0 -> pop_ok h0 pop ->
  forall leb add one lambda_ cxpb mutpb d s' res,
  @gen_varOr G F T ltb leb add one mate_o mut_o pop lambda_ cxpb mutpb (start h0 d) = (s', res) ->
  forall off, res = inr off -> independent h0 (hp s') off.
Proof. intros; to_model; first [ solve [eapply or_offspring_independent; eassumption] | solve [eauto 8 using or_offspring_independent] ]. Qed.

Lemma gen_or_varied_invalid :
  forall G F T ltb mate_o mut_o h0 pop, wf_heap h0 -> pop_ok h0 pop ->
  forall leb add one lambda_ cxpb mutpb d s' res,
  @gen_varOr G F T ltb leb add one mate_o mut_o pop lambda_ cxpb mutpb (start h0 d) = (s', res) ->
  forall off, res = inr off -> varied_invalid (hp s') (lg s') off.
Proof. intros; to_model; first [ solve [eapply or_varied_invalid; eassumption] | solve [eauto 8 using or_varied_invalid] ]. Qed.

Lemma gen_or_valid_is_parent_copy :
  forall G F T ltb mate_o mut_o h0 pop, wf_heap h0 -> pop_ok h0 pop ->
  forall leb add one lambda_ cxpb mutpb d s' res,
  @gen_varOr G F T ltb leb add one mate_o mut_o pop lambda_ cxpb mutpb (start h0 d) = (s', res) ->
  forall off, res = inr off -> valid_is_parent_copy h0 pop (hp s') (lg s') off.
Proof. intros; to_model; first [ solve [eapply or_valid_is_parent_copy; eassumption] | solve [eauto 8 using or_valid_is_parent_copy] ]. Qed.

Lemma gen_or_assertion :
  forall G F T ltb mate_o mut_o h0 pop leb add one lambda_ cxpb mutpb d s' res,
  @gen_varOr G F T ltb leb add one mate_o mut_o pop lambda_ cxpb mutpb (start h0 d) = (s', res) ->
  leb (add cxpb mutpb) one = false -> res = inl AssertionError /\ s' = start h0 d.
Proof. intros; to_model; first [ solve [eapply or_assertion; eassumption] | solve [eauto 8 using or_assertion] ]. Qed.

Lemma gen_or_small_population_raises :
  forall G F T ltb mate_o mut_o h0 pop leb add one lambda_ cxpb mutpb d s' res,
  @gen_varOr G F T ltb leb add one mate_o mut_o pop lambda_ cxpb mutpb (start h0 d) = (s', res) ->
  forall u rest,
  leb (add cxpb mutpb) one = true -> (0 < lambda_)%Z -> d = DRandom u :: rest ->
  ltb u cxpb = true -> length pop < 2 -> res = inl ValueError /\ hp s' = h0.
Proof. intros; to_model; first [ solve [eapply or_small_population_raises; eassumption] | solve [eauto 8 using or_small_population_raises] ]. Qed.

Lemma gen_or_empty_population_raises :
  forall G F T ltb mate_o mut_o h0 pop leb add one lambda_ cxpb mutpb d s' res,
  @gen_varOr G F T ltb leb add one mate_o mut_o pop lambda_ cxpb mutpb (start h0 d) = (s', res) ->
  forall u rest,
  leb (add cxpb mutpb) one = true -> (0 < lambda_)%Z -> d = DRandom u :: rest ->
  ltb u cxpb = false -> pop = [] -> res = inl IndexError /\ hp s' = h0.
Proof. intros; to_model; first [ solve [eapply or_empty_population_raises; eassumption] | solve [eauto 8 using or_empty_population_raises] ]. Qed.

Lemma gen_and_weak :
  forall G F T ltb leb add one mate_o mut_o h0 pop, wf_heap h0 -> pop_ok h0 pop ->
  forall cxpb mutpb d s' res,
  @gen_varAnd G F T ltb leb add one mate_o mut_o pop cxpb mutpb (start h0 d) = (s', res) ->
  untouched h0 pop (hp s') /\ forall off, res = inr off -> length off = length pop.
Proof. intros; to_model; first [ solve [eapply and_weak; eassumption] | solve [eauto 8 using and_weak] ]. Qed.

Lemma gen_and_total :
  forall G F T ltb leb add one mate_o mut_o cxpb mutpb h0 pop us rest,
  length us = Nat.div2 (length pop) + length pop ->
  exists s' off, @gen_varAnd G F T ltb leb add one mate_o mut_o pop cxpb mutpb (start h0 (map DRandom us ++ rest)) = (s', inr off)
                 /\ dr s' = rest.
Proof.
  intros G F T ltb leb add one mate_o mut_o cxpb mutpb h0 pop us rest H.
  destruct (and_total G F T ltb mate_o mut_o cxpb mutpb h0 pop us rest H) as (s' & off & E).
  exists s', off. rewrite gen_varAnd_eq. exact E.
Qed.

Lemma gen_or_total :
  forall G F T ltb mate_o mut_o leb add one lambda_ cxpb mutpb h0 pop d,
  leb (add cxpb mutpb) one = true ->
  or_draws_ok ltb cxpb (length pop) (Z.to_nat lambda_) d ->
  exists s' off, @gen_varOr G F T ltb leb add one mate_o mut_o pop lambda_ cxpb mutpb (start h0 d) = (s', inr off).
Proof.
  intros G F T ltb mate_o mut_o leb add one lambda_ cxpb mutpb h0 pop d H1 H2.
  destruct (or_total G F T ltb mate_o mut_o leb add one lambda_ cxpb mutpb h0 pop d H1 H2) as (s' & off & E).
  exists s', off. rewrite gen_varOr_eq. exact E.
Qed.

Lemma gen_and_positional :
  forall G F T ltb leb add one mate_o mut_o h0 pop, wf_heap h0 -> pop_ok h0 pop ->
  (forall k x y, ret_distinct (ma_r1 (mate_o k x y)) (ma_r2 (mate_o k x y))) ->
  forall cxpb mutpb d s' off,
  @gen_varAnd G F T ltb leb add one mate_o mut_o pop cxpb mutpb (start h0 d) = (s', inr off) ->
  Forall2 (fun p o => varied (lg s') o \/
                      (In (EClone p o) (lg s') /\ geno (ind_at (hp s') o) = geno (ind_at h0 p)
                       /\ fit_of (hp s') o = fit_of h0 p)) pop off.
Proof. intros; to_model; first [ solve [eapply and_positional; eassumption] | solve [eauto 8 using and_positional] ]. Qed.

Lemma gen_and_never :
  forall G F T ltb leb add one mate_o mut_o h0 pop, wf_heap h0 -> pop_ok h0 pop ->
  (forall k x y, ret_distinct (ma_r1 (mate_o k x y)) (ma_r2 (mate_o k x y))) ->
  forall cxpb mutpb d s' off,
  (forall u, In (DRandom u) d -> ltb u cxpb = false) -> (forall u, In (DRandom u) d -> ltb u mutpb = false) ->
  @gen_varAnd G F T ltb leb add one mate_o mut_o pop cxpb mutpb (start h0 d) = (s', inr off) ->
  (forall o, ~ varied (lg s') o) /\
  Forall2 (fun p o => In (EClone p o) (lg s') /\ geno (ind_at (hp s') o) = geno (ind_at h0 p)
                      /\ fit_of (hp s') o = fit_of h0 p) pop off.
Proof. intros; to_model; eapply and_never with (cxpb := cxpb) (mutpb := mutpb); eassumption. Qed.

Lemma gen_and_always_mut :
  forall G F T ltb leb add one mate_o mut_o h0 pop, wf_heap h0 -> pop_ok h0 pop ->
  (forall k x y, ret_distinct (ma_r1 (mate_o k x y)) (ma_r2 (mate_o k x y))) ->
  forall cxpb mutpb d s' off,
  (forall u, In (DRandom u) d -> ltb u mutpb = true) ->
  @gen_varAnd G F T ltb leb add one mate_o mut_o pop cxpb mutpb (start h0 d) = (s', inr off) ->
  forall o, In o off -> fit_of (hp s') o = None.
Proof. intros; to_model; first [ solve [eapply and_always_mut; eassumption] | solve [eauto 8 using and_always_mut] ]. Qed.

Lemma gen_or_reproduction_only :
  forall G F T ltb mate_o mut_o h0 pop, wf_heap h0 -> pop_ok h0 pop ->
  forall leb add one lambda_ cxpb mutpb d s' off,
  (forall u, In (DRandom u) d -> ltb u cxpb = false /\ ltb u (add cxpb mutpb) = false) ->
  @gen_varOr G F T ltb leb add one mate_o mut_o pop lambda_ cxpb mutpb (start h0 d) = (s', inr off) ->
  (forall o, ~ varied (lg s') o) /\
  forall o, In o off -> exists p, In p pop /\ In (EClone p o) (lg s') /\
     geno (ind_at (hp s') o) = geno (ind_at h0 p) /\ fit_of (hp s') o = fit_of h0 p.
Proof. intros; to_model; first [ solve [eapply or_reproduction_only; eassumption] | solve [eauto 8 using or_reproduction_only] ]. Qed.

Lemma gen_or_all_varied :
  forall G F T ltb mate_o mut_o h0 pop, wf_heap h0 -> pop_ok h0 pop ->
  forall leb add one lambda_ cxpb mutpb d s' off,
  (forall u, In (DRandom u) d -> ltb u cxpb = true \/ ltb u (add cxpb mutpb) = true) ->
  @gen_varOr G F T ltb leb add one mate_o mut_o pop lambda_ cxpb mutpb (start h0 d) = (s', inr off) ->
  forall o, In o off -> fit_of (hp s') o = None.
Proof. intros; to_model; first [ solve [eapply or_all_varied; eassumption] | solve [eauto 8 using or_all_varied] ]. Qed.
