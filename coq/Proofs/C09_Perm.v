(* Lemmas and proofs for C09, part 2: the permutation crossovers
   (cxPartialyMatched, cxUniformPartialyMatched, cxOrdered). *)
From Coq Require Import List ZArith QArith Bool Lia Permutation Arith.
From DV Require Import Base.PyList Base.C09_Lists Model.C09_SeqOps Proofs.C09_SeqOps.
Import ListNotations.
Local Open Scope Z_scope.

(* ------------------------------------------------------------------ Z-indexed accessors *)
Definition znth {A} (d : A) (l : list A) (i : Z) : A := nth (Z.to_nat i) l d.
Definition zset {A} (l : list A) (i : Z) (v : A) : list A := set_nth l (Z.to_nat i) v.
Notation zn := (znth 0).

Lemma zlen_zset {A} (l : list A) i v : zlen (zset l i v) = zlen l.
Proof. apply zlen_set_nth. Qed.

Lemma znth_zset {A} (d : A) l i v j : 0 <= i < zlen l -> 0 <= j ->
  znth d (zset l i v) j = if j =? i then v else znth d l j.
Proof.
  intros Hi Hj. unfold znth, zset. rewrite nth_set_nth by (unfold zlen in Hi; lia).
  destruct (Z.eqb_spec j i) as [->|Hne].
  - now rewrite Nat.eqb_refl.
  - replace (Z.to_nat j =? Z.to_nat i)%nat with false; [reflexivity|].
    symmetry. apply Nat.eqb_neq. lia.
Qed.

Lemma wp_getZ {A} (d : A) (l : list A) i (Q : A -> Prop) : 0 <= i < zlen l -> Q (znth d l i) -> wp (getI l i) Q.
Proof.
  intros Hi H. unfold getI. rewrite (py_get_some_nth l i d Hi). apply wp_ret. exact H.
Qed.

Lemma wp_setZ {A} (l : list A) i v (Q : list A -> Prop) : 0 <= i < zlen l -> Q (zset l i v) -> wp (setI l i v) Q.
Proof. intros Hi H. apply wp_setI; assumption. Qed.

Lemma nth_error_znth {A} (d : A) l i : 0 <= i < zlen l -> nth_error l (Z.to_nat i) = Some (znth d l i).
Proof. intro H. apply nth_error_nth'. unfold zlen in H. lia. Qed.

(* ------------------------------------------------------------------ permutations as functions *)
Lemma is_perm_zn l : is_perm l ->
  (forall i, 0 <= i < zlen l -> 0 <= zn l i < zlen l) /\
  (forall i j, 0 <= i < zlen l -> 0 <= j < zlen l -> zn l i = zn l j -> i = j) /\
  (forall v, 0 <= v < zlen l -> exists i, 0 <= i < zlen l /\ zn l i = v).
Proof.
  intro H. pose proof (is_perm_range l H) as R. pose proof (is_perm_NoDup l H) as ND.
  split; [|split].
  - intros i Hi. apply R. unfold znth. apply nth_In. unfold zlen in Hi. lia.
  - intros i j Hi Hj E. unfold znth in E. rewrite (NoDup_nth l 0) in ND.
    assert (Z.to_nat i = Z.to_nat j) by (apply ND; unfold zlen in *; try lia; exact E). lia.
  - intros v Hv. apply R in Hv. destruct (In_nth l v 0 Hv) as (k & Hk & E).
    exists (Z.of_nat k). split; [unfold zlen; lia|]. unfold znth. now rewrite Nat2Z.id.
Qed.

(* l is a permutation of 0..n-1 and q is its inverse index map (q[l[i]] = i) *)
Definition pinv (n : Z) (l q : list Z) : Prop :=
  zlen l = n /\ zlen q = n /\
  (forall i, 0 <= i < n -> 0 <= zn l i < n /\ zn q (zn l i) = i) /\
  (forall v, 0 <= v < n -> 0 <= zn q v < n /\ zn l (zn q v) = v).

Lemma pinv_is_perm n l q : pinv n l q -> is_perm l.
Proof.
  intros (L & Lq & H1 & H2). apply is_perm_intro.
  - apply (NoDup_nth l 0). intros i j Hi Hj E.
    assert (Ei : zn q (zn l (Z.of_nat i)) = Z.of_nat i) by (apply H1; unfold zlen in L; lia).
    assert (Ej : zn q (zn l (Z.of_nat j)) = Z.of_nat j) by (apply H1; unfold zlen in L; lia).
    unfold znth in Ei at 2. unfold znth in Ej at 2. rewrite !Nat2Z.id in *. rewrite E in Ei. lia.
  - intros v Hv. destruct (In_nth l v 0 Hv) as (k & Hk & E).
    destruct (H1 (Z.of_nat k)) as [Hr _]; [unfold zlen in L; lia|].
    unfold znth in Hr. rewrite Nat2Z.id, E in Hr. lia.
Qed.

Lemma is_perm_same_length l l' : is_perm l -> is_perm l' -> length l = length l' -> Permutation l l'.
Proof. unfold is_perm. intros H H' E. rewrite H, H', E. reflexivity. Qed.

(* the value swap performed by one PMX step, as functions on 0..n-1 *)
Lemma pinv_swap n l q l' q' i t' :
  pinv n l q -> 0 <= i < n -> 0 <= t' < n -> zlen l' = n -> zlen q' = n ->
  (forall k, 0 <= k < n -> zn l' k = if k =? zn q t' then zn l i else if k =? i then t' else zn l k) ->
  (forall v, 0 <= v < n -> zn q' v = if v =? t' then i else if v =? zn l i then zn q t' else zn q v) ->
  pinv n l' q'.
Proof.
  intros (L & Lq & H1 & H2) Hi Ht' L' Lq' Hl' Hq'.
  set (t := zn l i) in *. set (j := zn q t') in *.
  destruct (H1 i Hi) as [Rt Qt]. fold t in Rt, Qt.
  destruct (H2 t' Ht') as [Rj Lj]. fold j in Rj, Lj.
  split; [exact L'|]. split; [exact Lq'|]. split.
  - intros k Hk. rewrite (Hl' k Hk).
    destruct (Z.eqb_spec k j) as [->|Hkj].
    + split; [exact Rt|]. rewrite (Hq' t Rt).
      destruct (Z.eqb_spec t t') as [E|E].
      * (* t = t' -> i = j *) rewrite <- E in Lj. unfold j. rewrite <- E. exact (eq_sym Qt).
      * now rewrite Z.eqb_refl.
    + destruct (Z.eqb_spec k i) as [->|Hki].
      * split; [exact Ht'|]. rewrite (Hq' t' Ht'). now rewrite Z.eqb_refl.
      * destruct (H1 k Hk) as [Rk Qk]. split; [exact Rk|].
        rewrite (Hq' _ Rk).
        destruct (Z.eqb_spec (zn l k) t') as [E|E].
        { exfalso. apply Hkj. unfold j. rewrite <- E. exact (eq_sym Qk). }
        destruct (Z.eqb_spec (zn l k) t) as [E2|E2].
        { exfalso. apply Hki. rewrite <- Qk, E2. exact Qt. }
        exact Qk.
  - intros v Hv. rewrite (Hq' v Hv).
    destruct (Z.eqb_spec v t') as [->|Hvt'].
    + split; [exact Hi|]. rewrite (Hl' i Hi).
      destruct (Z.eqb_spec i j) as [E|E].
      * (* i = j: t = l[i] = l[j] = t' *) fold t. rewrite <- Lj. rewrite <- E. reflexivity.
      * now rewrite Z.eqb_refl.
    + destruct (Z.eqb_spec v t) as [->|Hvt].
      * split; [exact Rj|]. rewrite (Hl' j Rj). now rewrite Z.eqb_refl.
      * destruct (H2 v Hv) as [Rv Lv]. split; [exact Rv|].
        rewrite (Hl' _ Rv).
        destruct (Z.eqb_spec (zn q v) j) as [E|E].
        { exfalso. apply Hvt'. rewrite <- Lv, E. exact Lj. }
        destruct (Z.eqb_spec (zn q v) i) as [E2|E2].
        { exfalso. apply Hvt. rewrite <- Lv, E2. reflexivity. }
        exact Lv.
Qed.

(* ------------------------------------------------------------------ PMX: position tables *)
Lemma wp_pmx_init p1 p2 n : is_perm p1 -> is_perm p2 -> zlen p1 = n -> zlen p2 = n ->
  wp (pmx_init n p1 p2) (fun s => pinv n p1 (fst s) /\ pinv n p2 (snd s)).
Proof.
  intros P1 P2 L1 L2. unfold pmx_init.
  destruct (is_perm_zn p1 P1) as (R1 & I1 & S1). destruct (is_perm_zn p2 P2) as (R2 & I2 & S2).
  rewrite L1 in *. rewrite L2 in *.
  assert (Hn : n = Z.of_nat (Z.to_nat n)) by (pose proof (zlen_nonneg p1); lia).
  rewrite Hn at 1.
  apply (wp_for_each (fun (k : nat) (s : list Z * list Z) =>
           zlen (fst s) = n /\ zlen (snd s) = n /\
           forall i, 0 <= i < Z.of_nat k -> zn (fst s) (zn p1 i) = i /\ zn (snd s) (zn p2 i) = i)).
  - cbn [fst snd]. rewrite !zlen_repeat. split; [lia|]. split; [lia|]. intros; lia.
  - intros k i [q1 q2] Hk (Lq1 & Lq2 & H). cbn [fst snd] in *.
    apply nth_error_py_range in Hk. destruct Hk as [-> Hk].
    assert (Hkn : 0 <= Z.of_nat k < n) by lia.
    apply wp_bind. apply (wp_getZ 0); [lia|].
    apply wp_bind. apply wp_setZ; [specialize (R1 _ Hkn); lia|].
    apply wp_bind. apply (wp_getZ 0); [lia|].
    apply wp_bind. apply wp_setZ; [specialize (R2 _ Hkn); lia|].
    apply wp_ret. cbn [fst snd]. rewrite !zlen_zset. split; [exact Lq1|]. split; [exact Lq2|].
    intros i Hi.
    assert (Hin : 0 <= i < n) by lia.
    pose proof (R1 _ Hkn). pose proof (R2 _ Hkn). pose proof (R1 _ Hin). pose proof (R2 _ Hin).
    rewrite !znth_zset by lia.
    destruct (Z.eq_dec i (Z.of_nat k)) as [->|Hne].
    + rewrite (Z.eqb_refl (zn p1 (Z.of_nat k))), (Z.eqb_refl (zn p2 (Z.of_nat k))). split; reflexivity.
    + destruct (Z.eqb_spec (zn p1 i) (zn p1 (Z.of_nat k))) as [E|E]; [apply I1 in E; lia|].
      destruct (Z.eqb_spec (zn p2 i) (zn p2 (Z.of_nat k))) as [E'|E']; [apply I2 in E'; lia|].
      apply H. lia.
  - intros [q1 q2] (Lq1 & Lq2 & H). cbn [fst snd] in *. rewrite py_range_length in H.
    rewrite <- Hn in H.
    split.
    + split; [exact L1|]. split; [exact Lq1|]. split.
      * intros i Hi. split; [apply R1; exact Hi|apply H; exact Hi].
      * intros v Hv. destruct (S1 v Hv) as (i & Hi & <-). destruct (H i Hi) as [E _]. rewrite E. split; [exact Hi|reflexivity].
    + split; [exact L2|]. split; [exact Lq2|]. split.
      * intros i Hi. split; [apply R2; exact Hi|apply H; exact Hi].
      * intros v Hv. destruct (S2 v Hv) as (i & Hi & <-). destruct (H i Hi) as [_ E]. rewrite E. split; [exact Hi|reflexivity].
Qed.

Definition pmx_ok (n : Z) (s : pmx_state) : Prop :=
  let '(l1, l2, q1, q2) := s in pinv n l1 q1 /\ pinv n l2 q2.

Lemma wp_pmx_step n i s : pmx_ok n s -> 0 <= i < n -> wp (pmx_step i s) (pmx_ok n).
Proof.
  destruct s as [[[l1 l2] q1] q2]. intros [P1 P2] Hi. unfold pmx_step.
  pose proof P1 as (L1 & Lq1 & H11 & H12). pose proof P2 as (L2 & Lq2 & H21 & H22).
  destruct (H11 i Hi) as [Rt1 Qt1]. destruct (H21 i Hi) as [Rt2 Qt2].
  set (t1 := zn l1 i) in *. set (t2 := zn l2 i) in *.
  destruct (H12 t2 Rt2) as [Rj1 Lj1]. destruct (H22 t1 Rt1) as [Rj2 Lj2].
  apply wp_bind. apply (wp_getZ 0); [lia|]. fold t1.
  apply wp_bind. apply (wp_getZ 0); [lia|]. fold t2.
  apply wp_bind. apply wp_setZ; [lia|].
  apply wp_bind. apply (wp_getZ 0); [lia|].
  apply wp_bind. apply wp_setZ; [rewrite zlen_zset; lia|].
  apply wp_bind. apply wp_setZ; [lia|].
  apply wp_bind. apply (wp_getZ 0); [lia|].
  apply wp_bind. apply wp_setZ; [rewrite zlen_zset; lia|].
  apply wp_bind. apply (wp_getZ 0); [lia|].
  apply wp_bind. apply (wp_getZ 0); [lia|].
  apply wp_bind. apply wp_setZ; [lia|].
  apply wp_bind. apply wp_setZ; [rewrite zlen_zset; lia|].
  apply wp_bind. apply (wp_getZ 0); [lia|].
  apply wp_bind. apply (wp_getZ 0); [lia|].
  apply wp_bind. apply wp_setZ; [lia|].
  apply wp_bind. apply wp_setZ; [rewrite zlen_zset; lia|].
  apply wp_ret. unfold pmx_ok. split.
  - apply (pinv_swap n l1 q1 _ _ i t2 P1 Hi Rt2); rewrite ?zlen_zset; try assumption.
    + intros k Hk. fold t1. rewrite !znth_zset by (rewrite ?zlen_zset; lia). reflexivity.
    + intros v Hv. fold t1. rewrite !znth_zset by (rewrite ?zlen_zset; lia).
      rewrite Qt1. reflexivity.
  - apply (pinv_swap n l2 q2 _ _ i t1 P2 Hi Rt1); rewrite ?zlen_zset; try assumption.
    + intros k Hk. fold t2. rewrite !znth_zset by (rewrite ?zlen_zset; lia). reflexivity.
    + intros v Hv. fold t2. rewrite !znth_zset by (rewrite ?zlen_zset; lia).
      rewrite Qt2.
      destruct (Z.eqb_spec v t2) as [->|E2]; destruct (Z.eqb_spec t2 t1) as [E1|E1];
        try reflexivity; try (rewrite <- E1; exact Qt2).
Qed.

Definition perm_post (p1 p2 : list Z) (c : list Z * list Z) : Prop :=
  Permutation (fst c) p1 /\ Permutation (snd c) p2.

Lemma pmx_ok_post n p1 p2 l1 l2 q1 q2 : is_perm p1 -> is_perm p2 -> zlen p1 = n -> zlen p2 = n ->
  pmx_ok n (l1, l2, q1, q2) -> perm_post p1 p2 (l1, l2).
Proof.
  intros P1 P2 L1 L2 [K1 K2]. split; cbn [fst snd].
  - apply is_perm_same_length; [eapply pinv_is_perm; exact K1|exact P1|].
    destruct K1 as (E & _). unfold zlen in *. lia.
  - apply is_perm_same_length; [eapply pinv_is_perm; exact K2|exact P2|].
    destruct K2 as (E & _). unfold zlen in *. lia.
Qed.

Lemma wp_cxPartialyMatched p1 p2 : is_perm p1 -> is_perm p2 -> length p1 = length p2 -> (1 <= length p1)%nat ->
  wp (cxPartialyMatched p1 p2) (perm_post p1 p2).
Proof.
  intros P1 P2 E Hn. unfold cxPartialyMatched.
  assert (L2 : zlen p2 = zlen p1) by (unfold zlen; lia).
  rewrite L2, Z.min_id. set (n := zlen p1) in *.
  assert (Hn1 : 1 <= n) by (unfold n, zlen; lia).
  apply wp_bind. eapply wp_conseq; [apply (wp_pmx_init p1 p2 n); auto|].
  intros [q1 q2] [K1 K2]. cbn [fst snd] in *.
  apply wp_bind. apply wp_randint; [lia|]. intros d1 H1.
  apply wp_bind. apply wp_randint; [lia|]. intros d2 H2.
  pose proof (two_points_range0 n d1 d2 H1 H2) as Hr.
  destruct (two_points d1 d2) as [a b]. cbn [fst snd] in Hr.
  apply wp_bind.
  apply (wp_for_each (fun (_ : nat) s => pmx_ok n s)).
  - split; assumption.
  - intros k i s Hk Hs. apply nth_error_py_range3 in Hk; [|lia]. destruct Hk as [-> Hk].
    apply wp_pmx_step; [exact Hs|lia].
  - intros [[[l1 l2] r1] r2] Hs. apply wp_ret. eapply pmx_ok_post; eauto.
Qed.

Lemma wp_cxUniformPartialyMatched p1 p2 indpb : is_perm p1 -> is_perm p2 -> length p1 = length p2 ->
  wp (cxUniformPartialyMatched p1 p2 indpb) (perm_post p1 p2).
Proof.
  intros P1 P2 E. unfold cxUniformPartialyMatched.
  assert (L2 : zlen p2 = zlen p1) by (unfold zlen; lia).
  rewrite L2, Z.min_id. set (n := zlen p1) in *.
  apply wp_bind. eapply wp_conseq; [apply (wp_pmx_init p1 p2 n); auto|].
  intros [q1 q2] [K1 K2]. cbn [fst snd] in *.
  apply wp_bind. unfold n at 1. unfold zlen.
  apply (wp_for_each (fun (_ : nat) s => pmx_ok n s)).
  - split; assumption.
  - intros k i s Hk Hs. apply nth_error_py_range in Hk. destruct Hk as [-> Hk].
    apply wp_bind. apply wp_random. intro u. destruct (qltb u indpb).
    + apply wp_pmx_step; [exact Hs|unfold n, zlen; lia].
    + apply wp_ret. exact Hs.
  - intros [[[l1 l2] r1] r2] Hs. apply wp_ret. eapply pmx_ok_post; eauto.
Qed.
