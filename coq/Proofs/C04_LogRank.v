(* sortLogNondominated, part 4: sortNDHelperB and sortNDHelperA compute the rank recurrence. *)
From Coq Require Import List ZArith Bool Lia Permutation Sorted.
From DV Require Import Base.PyTuple Base.PyList Model.C01_Fitness Proofs.C01_Fitness Model.C04_NDSort
  Model.C04_LogSort Proofs.C04_NDSort Proofs.C04_NDLoop Proofs.C04_LogBase Proofs.C04_LogSweep.
Import ListNotations.
Local Open Scope Z_scope.

(* ---- algebra of the B postcondition ---- *)
Lemma B_ext_rel (R R' : wvals -> wvals -> Prop) L H fr fr' :
  (forall l h, In l L -> In h H -> (R l h <-> R' l h)) -> B_postR R' L H fr fr' -> B_postR R L H fr fr'.
Proof.
  intros EQ [K [F C]]. split; [assumption|split; [assumption|]]. intros h Hh. destruct (C h Hh) as [C1 [C2 C3]].
  split; [assumption|split].
  - intros l Hl Rl. apply C2; [assumption|]. apply EQ; assumption.
  - destruct C3 as [C3|[l [Hl [Rl E]]]]; [left; assumption|right]. exists l. split; [assumption|]. split; [apply EQ; assumption|assumption].
Qed.

Lemma B_ext_set (R : wvals -> wvals -> Prop) L H L' H' fr fr' :
  (forall x, In x L <-> In x L') -> (forall x, In x H <-> In x H') -> B_postR R L H fr fr' -> B_postR R L' H' fr fr'.
Proof.
  intros EL EH [K [F C]]. split; [assumption|split].
  - intros f Hf. apply F. intro I. apply Hf. apply EH. assumption.
  - intros h Hh. apply EH in Hh. destruct (C h Hh) as [C1 [C2 C3]]. split; [assumption|split].
    + intros l Hl. apply C2. apply EL. assumption.
    + destruct C3 as [C3|[l [Hl E]]]; [left; assumption|right]. exists l. split; [apply EL; assumption|assumption].
Qed.

Lemma B_none (R : wvals -> wvals -> Prop) L H fr :
  (forall l h, In l L -> In h H -> ~ R l h) -> B_postR R L H fr fr.
Proof.
  intro N. split; [reflexivity|split; [reflexivity|]]. intros h Hh. split; [lia|split].
  - intros l Hl Rl. exfalso. apply (N l h Hl Hh Rl).
  - left; reflexivity.
Qed.

Lemma B_seqL (R : wvals -> wvals -> Prop) L1 L2 H fr f1 f2 :
  B_postR R L1 H fr f1 -> B_postR R L2 H f1 f2 -> (forall l, In l L2 -> ~ In l H) ->
  B_postR R (L1 ++ L2) H fr f2.
Proof.
  intros [K1 [F1 C1]] [K2 [F2 C2]] D. split; [congruence|split].
  - intros f Hf. rewrite F2, F1; auto.
  - intros h Hh. destruct (C1 h Hh) as [A1 [A2 A3]]. destruct (C2 h Hh) as [B1 [B2 B3]]. split; [lia|split].
    + intros l Hl Rl. apply in_app_or in Hl. destruct Hl as [Hl|Hl].
      * specialize (A2 l Hl Rl). lia.
      * specialize (B2 l Hl Rl). rewrite (F1 l (D l Hl)) in B2. lia.
    + destruct B3 as [B3|[l [Hl [Rl E]]]].
      * destruct A3 as [A3|[l [Hl [Rl E]]]]; [left; lia|right]. exists l. split; [apply in_or_app; left; assumption|]. split; [assumption|lia].
      * right. exists l. split; [apply in_or_app; right; assumption|]. split; [assumption|]. rewrite (F1 l (D l Hl)) in E. assumption.
Qed.

Lemma B_seqH (R : wvals -> wvals -> Prop) L H1 H2 fr f1 f2 :
  B_postR R L H1 fr f1 -> B_postR R L H2 f1 f2 ->
  (forall l, In l L -> ~ In l H1) -> (forall h, In h H2 -> ~ In h H1) ->
  B_postR R L (H1 ++ H2) fr f2.
Proof.
  intros [K1 [F1 C1]] [K2 [F2 C2]] DL DH. split; [congruence|split].
  - intros f Hf. rewrite F2, F1; auto; intro I; apply Hf; apply in_or_app; auto.
  - intros h Hh. apply in_app_or in Hh. destruct Hh as [Hh|Hh].
    + assert (N2 : ~ In h H2) by (intro I; apply (DH h I Hh)). rewrite (F2 h N2). apply C1. assumption.
    + assert (N1 : ~ In h H1) by (apply DH; assumption). destruct (C2 h Hh) as [B1 [B2 B3]].
      rewrite (F1 h N1) in *. split; [assumption|split].
      * intros l Hl Rl. specialize (B2 l Hl Rl). rewrite (F1 l (DL l Hl)) in B2. assumption.
      * destruct B3 as [B3|[l [Hl [Rl E]]]]; [left; assumption|right]. exists l. split; [assumption|]. split; [assumption|].
        rewrite (F1 l (DL l Hl)) in E. assumption.
Qed.

(* ---- the direct double loop of sortNDHelperB ---- *)
Lemma direct_one m fr h l :
  (S m <= length h)%nat -> (S m <= length l)%nat -> l <> h -> In h (kkeys fr) ->
  B_postR (ge_pref m) [l] [h] fr (if weakly_dominated_upto (Z.of_nat m) h l then fbump fr h l else fr).
Proof.
  intros Hh Hl N K. destruct (weakly_dominated_upto (Z.of_nat m) h l) eqn:W.
  - apply weakly_dominated_spec in W; [|assumption|assumption].
    split; [apply kkeys_fbump; assumption|split].
    + intros f Hf. apply fget_fbump_other. intro E. apply Hf. left. assumption.
    + intros h' [<-|[]]. rewrite fget_fbump_same. split; [lia|split].
      * intros l' [<-|[]] _. lia.
      * destruct (Z.max_spec (fget fr h) (fget fr l + 1)) as [[_ M]|[_ M]]; rewrite M; [right|left; reflexivity].
        exists l. split; [left; reflexivity|]. split; [assumption|reflexivity].
  - apply B_none. intros l' h' [<-|[]] [<-|[]] G. apply weakly_dominated_spec in G; [|assumption|assumption]. congruence.
Qed.

Lemma direct_inner m h : forall L fr,
  (S m <= length h)%nat -> (forall l, In l L -> (S m <= length l)%nat) -> ~ In h L -> In h (kkeys fr) ->
  B_postR (ge_pref m) L [h] fr
    (fold_left (fun fr li => if weakly_dominated_upto (Z.of_nat m) h li then fbump fr h li else fr) L fr).
Proof.
  induction L as [|l L IH]; intros fr Hh HL NI K; cbn [fold_left].
  - apply B_none. intros l h' [].
  - set (f1 := if weakly_dominated_upto (Z.of_nat m) h l then fbump fr h l else fr).
    assert (B1 : B_postR (ge_pref m) [l] [h] fr f1).
    { apply direct_one; [assumption|apply HL; left; reflexivity| |assumption]. intro E. apply NI. left. assumption. }
    assert (K1 : In h (kkeys f1)) by (destruct B1 as [-> _]; assumption).
    pose proof (IH f1 Hh (fun l' Hl' => HL l' (or_intror Hl')) (fun I => NI (or_intror I)) K1) as B2.
    apply (B_seqL _ [l] L [h] fr f1 _ B1 B2). intros l' Hl' [<-|[]]. apply NI. right; assumption.
Qed.

Lemma direct_correct m L : forall H fr,
  NoDup H -> (forall h, In h H -> (S m <= length h)%nat) -> (forall l, In l L -> (S m <= length l)%nat) ->
  (forall l, In l L -> ~ In l H) -> (forall h, In h H -> In h (kkeys fr)) ->
  B_postR (ge_pref m) L H fr (helperB_direct L H (Z.of_nat m) fr).
Proof.
  unfold helperB_direct. induction H as [|h H IH]; intros fr ND HH HL D K; cbn [fold_left].
  - apply B_none. intros l h _ [].
  - inversion ND as [|? ? NI ND']; subst.
    set (f1 := fold_left (fun fr li => if weakly_dominated_upto (Z.of_nat m) h li then fbump fr h li else fr) L fr).
    assert (B1 : B_postR (ge_pref m) L [h] fr f1).
    { apply direct_inner; [apply HH; left; reflexivity|assumption| |apply K; left; reflexivity].
      intro I. apply (D h I). left; reflexivity. }
    assert (K1 : kkeys f1 = kkeys fr) by (destruct B1 as [-> _]; reflexivity).
    assert (B2 : B_postR (ge_pref m) L H f1
               (fold_left (fun fr0 hi => fold_left (fun fr1 li => if weakly_dominated_upto (Z.of_nat m) hi li then fbump fr1 hi li else fr1) L fr0) H f1)).
    { apply IH; [assumption| |assumption| |].
      - intros h' Hh'. apply HH. right; assumption.
      - intros l0 Hl0 I. apply (D l0 Hl0). right; assumption.
      - intros h' Hh'. rewrite K1. apply K. right; assumption. }
    apply (B_seqH _ L [h] H fr f1 _ B1 B2).
    + intros l Hl [E|[]]. subst l. apply (D h Hl). left; reflexivity.
    + intros h' Hh' [E|[]]. subst h'. contradiction.
Qed.

(* ---- order facts on full tuples ---- *)
Definition lexgt (a b : wvals) : Prop := lex_lt b a.

Lemma lexgt_trans a b c : lexgt a b -> lexgt b c -> lexgt a c.
Proof. unfold lexgt. intros H1 H2. eapply lex_lt_trans; eassumption. Qed.
Lemma lexgt_irrefl a : ~ lexgt a a.
Proof. apply lex_lt_irrefl. Qed.

Lemma SS_lexgt_NoDup l : StronglySorted lexgt l -> NoDup l.
Proof.
  induction 1 as [|x l S IH F]; constructor; [|assumption]. intro I. rewrite Forall_forall in F.
  apply (lexgt_irrefl x). apply F. assumption.
Qed.

Lemma lex_lt_geL a : forall b, length a = length b -> lex_lt a b -> geL a b -> False.
Proof.
  induction a as [|x a IH]; intros [|y b] L LT G; cbn in L; try lia; inversion LT; subst.
  - unfold geL in G. cbn in G. inversion G; subst. cbn in *. lia.
  - unfold geL in G. cbn in G. inversion G; subst. apply (IH b); [lia|assumption|assumption].
Qed.

Lemma lex_lt_firstn n : forall a b, lex_lt a b -> lex_lt (firstn n a) (firstn n b) \/ firstn n a = firstn n b.
Proof.
  induction n as [|n IH]; intros a b LT; [right; reflexivity|]. inversion LT; subst; cbn [firstn].
  - left. constructor.
  - left. constructor. assumption.
  - destruct (IH _ _ H) as [L|E]; [left; constructor; assumption|right; f_equal; assumption].
Qed.

Lemma lexgt_lex2ge a b : (2 <= length a)%nat -> (2 <= length b)%nat -> lexgt a b -> lex2ge a b.
Proof.
  intros Ha Hb L. unfold lex2ge. rewrite !item0_nth, !item1_nth by lia.
  destruct a as [|a0 [|a1 a]]; cbn in Ha; try lia. destruct b as [|b0 [|b1 b]]; cbn in Hb; try lia.
  cbn [nth]. unfold lexgt in L. inversion L; subst; [lia|]. right. split; [reflexivity|].
  match goal with H : lex_lt _ _ |- _ => inversion H; subst; lia end.
Qed.

Lemma SS_lexgt_sorted2 l : (forall f, In f l -> (2 <= length f)%nat) -> StronglySorted lexgt l -> sorted2 l.
Proof.
  intros HL S. induction S as [|x l S IH F]; [constructor|]. constructor.
  - apply IH. intros f Hf. apply HL. right; assumption.
  - rewrite Forall_forall in *. intros y Hy. apply lexgt_lex2ge; [apply HL; left; reflexivity|apply HL; right; assumption|apply F; assumption].
Qed.

(* ---- the splits ---- *)
Lemma splitB_spec L H obj b1 b2 w1 w2 :
  splitB L H obj = (b1, b2, w1, w2) ->
  exists hi : wvals -> bool,
    b1 = filter hi L /\ b2 = filter (fun f => negb (hi f)) L /\
    w1 = filter hi H /\ w2 = filter (fun f => negb (hi f)) H /\
    (forall f g, hi f = true -> hi g = false -> item f obj > item g obj).
Proof.
  unfold splitB. set (m2 := median2 _). cbv zeta.
  match goal with |- (if ?c then _ else _) = _ -> _ => destruct c end; intro E; inversion E; subst; clear E.
  - exists (fun f => gt_med m2 obj f || negb (lt_med m2 obj f)).
    assert (X : forall f, negb (gt_med m2 obj f) && lt_med m2 obj f = negb (gt_med m2 obj f || negb (lt_med m2 obj f))).
    { intro f. rewrite negb_orb, negb_involutive. reflexivity. }
    split; [reflexivity|]. split; [apply filter_ext; exact X|]. split; [reflexivity|]. split; [apply filter_ext; exact X|].
    intros f g Hf Hg. unfold gt_med, lt_med in *.
    destruct (Z.gtb_spec (2 * item f obj) m2), (Z.ltb_spec (2 * item f obj) m2),
             (Z.gtb_spec (2 * item g obj) m2), (Z.ltb_spec (2 * item g obj) m2); cbn [orb negb andb] in *; try discriminate; lia.
  - exists (fun f => gt_med m2 obj f).
    split; [reflexivity|]. split; [reflexivity|]. split; [reflexivity|]. split; [reflexivity|].
    intros f g Hf Hg. unfold gt_med in *.
    destruct (Z.gtb_spec (2 * item f obj) m2), (Z.gtb_spec (2 * item g obj) m2); try discriminate; lia.
Qed.

Lemma splitA_spec S obj best worst :
  splitA S obj = (best, worst) ->
  exists hi : wvals -> bool,
    best = filter hi S /\ worst = filter (fun f => negb (hi f)) S /\
    (forall f g, hi f = true -> hi g = false -> item f obj > item g obj).
Proof.
  unfold splitA. set (m2 := median2 _). cbv zeta.
  match goal with |- (if ?c then _ else _) = _ -> _ => destruct c end; intro E; inversion E; subst; clear E.
  - exists (fun f => gt_med m2 obj f || negb (lt_med m2 obj f)).
    assert (X : forall f, negb (gt_med m2 obj f) && lt_med m2 obj f = negb (gt_med m2 obj f || negb (lt_med m2 obj f))).
    { intro f. rewrite negb_orb, negb_involutive. reflexivity. }
    split; [reflexivity|]. split; [apply filter_ext; exact X|].
    intros f g Hf Hg. unfold gt_med, lt_med in *.
    destruct (Z.gtb_spec (2 * item f obj) m2), (Z.ltb_spec (2 * item f obj) m2),
             (Z.gtb_spec (2 * item g obj) m2), (Z.ltb_spec (2 * item g obj) m2); cbn [orb negb andb] in *; try discriminate; lia.
  - exists (fun f => gt_med m2 obj f).
    split; [reflexivity|]. split; [reflexivity|].
    intros f g Hf Hg. unfold gt_med in *.
    destruct (Z.gtb_spec (2 * item f obj) m2), (Z.gtb_spec (2 * item g obj) m2); try discriminate; lia.
Qed.

(* ---- preconditions shared by the helpers ---- *)
Definition Bpre (Mlen : nat) (L H : list wvals) (fr : fmap) : Prop :=
  StronglySorted lexgt L /\ StronglySorted lexgt H /\
  (forall f, In f L -> length f = Mlen) /\ (forall f, In f H -> length f = Mlen) /\
  (forall l, In l L -> ~ In l H) /\ (forall h, In h H -> In h (kkeys fr)).

Lemma Bpre_filter Mlen L H fr fr' (p q : wvals -> bool) :
  Bpre Mlen L H fr -> kkeys fr' = kkeys fr -> Bpre Mlen (filter p L) (filter q H) fr'.
Proof.
  intros [S1 [S2 [L1 [L2 [D K]]]]] KE. split; [apply SS_filter; assumption|split; [apply SS_filter; assumption|]].
  split; [intros f Hf; apply filter_In in Hf; apply L1; tauto|]. split; [intros f Hf; apply filter_In in Hf; apply L2; tauto|].
  split.
  - intros l Hl I. apply filter_In in Hl. apply filter_In in I. apply (D l); tauto.
  - intros h Hh. apply filter_In in Hh. rewrite KE. apply K. tauto.
Qed.

Lemma filter_split_in {A} (p : A -> bool) l x : In x l <-> In x (filter p l ++ filter (fun y => negb (p y)) l).
Proof. rewrite in_app_iff, !filter_In. destruct (p x); cbn; intuition congruence. Qed.

Lemma ge_pref_drop m l h : (S m < length l)%nat -> (S m < length h)%nat -> nth (S m) l 0 >= nth (S m) h 0 ->
  (ge_pref (S m) l h <-> ge_pref m l h).
Proof. intros. rewrite ge_pref_S by assumption. tauto. Qed.

Theorem helperB_correct Mlen : forall fuel m L H fr fr',
  (1 <= m)%nat -> (S m <= Mlen)%nat -> Bpre Mlen L H fr ->
  helperB fuel L H (Z.of_nat m) fr = Some fr' -> B_postR (ge_pref m) L H fr fr'.
Proof.
  induction fuel as [|fu IH]; intros m L H fr fr' M1 MM PRE E; [discriminate|].
  cbn [helperB] in E.
  pose proof PRE as [S1 [S2 [L1 [L2 [D K]]]]].
  destruct ((zlen H =? 0) || (zlen L =? 0)) eqn:C0.
  { inversion E; subst. apply B_none. intros l h Hl Hh. exfalso. apply orb_true_iff in C0.
    destruct C0 as [C0|C0]; apply Z.eqb_eq in C0; unfold zlen in C0; [destruct H|destruct L]; cbn in *; try lia; contradiction. }
  destruct ((zlen L =? 1) || (zlen H =? 1)) eqn:C1.
  { inversion E; subst. apply direct_correct; try assumption.
    - apply SS_lexgt_NoDup. assumption.
    - intros h Hh. rewrite (L2 h Hh). assumption.
    - intros l Hl. rewrite (L1 l Hl). assumption. }
  destruct (Z.eqb_spec (Z.of_nat m) 1) as [M|M].
  { inversion E; subst. assert (m = 1%nat) by lia. subst m.
    apply sweepB_correct; try assumption.
    - apply SS_lexgt_sorted2; [|assumption]. intros f Hf. rewrite (L1 f Hf). lia.
    - apply SS_lexgt_sorted2; [|assumption]. intros f Hf. rewrite (L2 f Hf). lia.
    - apply SS_lexgt_NoDup. assumption.
    - intros f Hf. rewrite (L1 f Hf). lia.
    - intros f Hf. rewrite (L2 f Hf). lia. }
  destruct m as [|m']; [lia|]. assert (M2 : (1 <= m')%nat) by lia.
  replace (Z.of_nat (S m') - 1) with (Z.of_nat m') in E by lia.
  assert (ITL : forall f, In f L -> item f (Z.of_nat (S m')) = nth (S m') f 0) by (intros f Hf; apply item_nth; rewrite (L1 f Hf); lia).
  assert (ITH : forall f, In f H -> item f (Z.of_nat (S m')) = nth (S m') f 0) by (intros f Hf; apply item_nth; rewrite (L2 f Hf); lia).
  assert (NEL : L <> []). { intro; subst. cbn in C0. rewrite orb_true_r in C0. discriminate. }
  assert (NEH : H <> []). { intro; subst. cbn in C0. discriminate. }
  set (key := fun f => item f (Z.of_nat (S m'))) in *.
  destruct (py_min_spec key L [] NEL) as [MnL1 MnL2]. destruct (py_max_spec key L [] NEL) as [MxL1 MxL2].
  destruct (py_min_spec key H [] NEH) as [MnH1 MnH2]. destruct (py_max_spec key H [] NEH) as [MxH1 MxH2].
  destruct (Z.geb_spec (item (py_min key L []) (Z.of_nat (S m'))) (item (py_max key H []) (Z.of_nat (S m')))) as [G1|G1].
  { (* every member of L is at least every member of H on this objective *)
    apply (B_ext_rel (ge_pref (S m')) (ge_pref m')).
    - intros l h Hl Hh. apply ge_pref_drop; [rewrite (L1 l Hl); lia|rewrite (L2 h Hh); lia|].
      rewrite <- (ITL l Hl), <- (ITH h Hh). specialize (MnL2 l Hl). specialize (MxH2 h Hh). unfold key in *. lia.
    - apply (IH m' L H fr fr'); [assumption|lia|assumption|assumption]. }
  destruct (Z.geb_spec (item (py_max key L []) (Z.of_nat (S m'))) (item (py_min key H []) (Z.of_nat (S m')))) as [G2|G2].
  2:{ inversion E; subst. apply B_none. intros l h Hl Hh G.
      apply ge_pref_S in G; [|rewrite (L1 l Hl); lia|rewrite (L2 h Hh); lia]. destruct G as [_ G].
      rewrite <- (ITL l Hl), <- (ITH h Hh) in G. specialize (MxL2 l Hl). specialize (MnH2 h Hh). unfold key in *. lia. }
  destruct (splitB L H (Z.of_nat (S m'))) as [[[b1 b2] w1] w2] eqn:SP.
  destruct (splitB_spec L H _ b1 b2 w1 w2 SP) as [hi [-> [-> [-> [-> STR]]]]].
  set (lo := fun f => negb (hi f)) in *.
  destruct (helperB fu (filter hi L) (filter hi H) (Z.of_nat (S m')) fr) as [f1|] eqn:E1; [|discriminate].
  destruct (helperB fu (filter hi L) (filter lo H) (Z.of_nat m') f1) as [f2|] eqn:E2; [|discriminate].
  assert (P1 : B_postR (ge_pref (S m')) (filter hi L) (filter hi H) fr f1).
  { apply (IH (S m') _ _ fr f1); [lia|assumption|apply Bpre_filter with (fr := fr); [assumption|reflexivity]|assumption]. }
  assert (K1 : kkeys f1 = kkeys fr) by (destruct P1 as [-> _]; reflexivity).
  assert (P2 : B_postR (ge_pref (S m')) (filter hi L) (filter lo H) f1 f2).
  { apply (B_ext_rel (ge_pref (S m')) (ge_pref m')).
    - intros l h Hl Hh. apply filter_In in Hl. apply filter_In in Hh. destruct Hl as [Hl Pl]. destruct Hh as [Hh Ph].
      apply ge_pref_drop; [rewrite (L1 l Hl); lia|rewrite (L2 h Hh); lia|].
      rewrite <- (ITL l Hl), <- (ITH h Hh). unfold lo in Ph. apply negb_true_iff in Ph. specialize (STR l h Pl Ph). lia.
    - apply (IH m' _ _ f1 f2); [assumption|lia|apply Bpre_filter with (fr := fr); assumption|assumption]. }
  assert (K2 : kkeys f2 = kkeys fr) by (destruct P2 as [-> _]; assumption).
  assert (P3 : B_postR (ge_pref (S m')) (filter lo L) (filter lo H) f2 fr').
  { apply (IH (S m') _ _ f2 fr'); [lia|assumption|apply Bpre_filter with (fr := fr); assumption|assumption]. }
  (* no member of the lower part of L can dominate a member of the upper part of H *)
  assert (P0 : B_postR (ge_pref (S m')) (filter lo L) (filter hi H) f1 f1).
  { apply B_none. intros l h Hl Hh G. apply filter_In in Hl. apply filter_In in Hh. destruct Hl as [Hl Pl]. destruct Hh as [Hh Ph].
    apply ge_pref_S in G; [|rewrite (L1 l Hl); lia|rewrite (L2 h Hh); lia]. destruct G as [_ G].
    rewrite <- (ITL l Hl), <- (ITH h Hh) in G. unfold lo in Pl. apply negb_true_iff in Pl. specialize (STR h l Ph Pl). lia. }
  assert (DLH : forall p q l, In l (filter p L) -> ~ In l (filter q H)).
  { intros p q l Hl I. apply filter_In in Hl. apply filter_In in I. apply (D l); tauto. }
  assert (Q1 : B_postR (ge_pref (S m')) (filter hi L ++ filter lo L) (filter hi H) fr f1).
  { apply (B_seqL _ _ _ _ fr f1 f1 P1 P0). apply DLH. }
  assert (Q2 : B_postR (ge_pref (S m')) (filter hi L ++ filter lo L) (filter lo H) f1 fr').
  { apply (B_seqL _ _ _ _ f1 f2 fr' P2 P3). apply DLH. }
  apply (B_ext_set (ge_pref (S m')) (filter hi L ++ filter lo L) (filter hi H ++ filter lo H)).
  - intro x. symmetry. apply filter_split_in.
  - intro x. symmetry. apply filter_split_in.
  - apply (B_seqH _ _ _ _ fr f1 fr' Q1 Q2).
    + intros l Hl. apply in_app_or in Hl. destruct Hl as [Hl|Hl]; apply (DLH _ _ l Hl).
    + intros h Hh I. apply filter_In in Hh. apply filter_In in I. unfold lo in Hh. destruct Hh as [_ Hh]. destruct I as [_ I].
      rewrite I in Hh. discriminate.
Qed.

(* ---- sortNDHelperA ---- *)
Lemma A_ext_rel (R R' : wvals -> wvals -> Prop) S fr fr' :
  (forall t s, In t S -> In s S -> (R t s <-> R' t s)) -> A_postR R' S fr fr' -> A_postR R S fr fr'.
Proof.
  intros EQ [K [F C]]. split; [assumption|split; [assumption|]]. intros s Hs. destruct (C s Hs) as [C1 [C2 C3]].
  split; [assumption|split].
  - intros t Ht Rt. apply C2; [assumption|]. apply EQ; assumption.
  - destruct C3 as [C3|[t [Ht [Rt E]]]]; [left; assumption|right]. exists t. split; [assumption|]. split; [apply EQ; assumption|assumption].
Qed.

Lemma distinct_in l x : In x (distinct l) <-> In x l.
Proof.
  induction l as [|y l IH]; cbn [distinct]; [tauto|].
  destruct (existsb (Z.eqb y) l) eqn:E.
  - rewrite IH. cbn. split; [auto|]. intros [<-|H]; [|assumption]. apply existsb_exists in E. destruct E as [z [Hz Ez]].
    apply Z.eqb_eq in Ez. subst. assumption.
  - cbn. rewrite IH. tauto.
Qed.

Lemma distinct_one l : zlen (distinct l) = 1 -> forall x y, In x l -> In y l -> x = y.
Proof.
  intros H x y Hx Hy. apply distinct_in in Hx. apply distinct_in in Hy.
  destruct (distinct l) as [|v [|w r]]; unfold zlen in H; cbn in H; try lia.
  destruct Hx as [<-|[]]. destruct Hy as [<-|[]]. reflexivity.
Qed.

Lemma no_back_dom m a b : (S m <= length a)%nat -> (S m <= length b)%nat ->
  lexgt a b -> pre m a <> pre m b -> ~ dom_pref m b a.
Proof.
  intros Ha Hb L N D. apply dom_pref_ge in D; [|assumption|assumption]. destruct D as [G _].
  unfold lexgt in L. destruct (lex_lt_firstn (S m) b a L) as [LT|E].
  - apply (lex_lt_geL (pre m b) (pre m a)); [rewrite !pre_length; auto|exact LT|exact G].
  - apply N. symmetry. exact E.
Qed.

Lemma lexgt_lt2 a b : (2 <= length a)%nat -> (2 <= length b)%nat -> lexgt a b -> pre 1 a <> pre 1 b -> lt2 b a.
Proof.
  intros Ha Hb L N. unfold lt2. rewrite !item0_nth, !item1_nth by lia.
  destruct a as [|a0 [|a1 a]]; cbn in Ha; try lia. destruct b as [|b0 [|b1 b]]; cbn in Hb; try lia.
  cbn [nth]. unfold lexgt in L. inversion L; subst; [lia|]. right. split; [reflexivity|].
  match goal with H : lex_lt _ _ |- _ => inversion H; subst; [lia|] end.
  exfalso. apply N. reflexivity.
Qed.

Definition inj_pref (m : nat) (S : list wvals) : Prop := forall s t, In s S -> In t S -> pre m s = pre m t -> s = t.

Definition Apre (Mlen m : nat) (S : list wvals) (fr : fmap) : Prop :=
  StronglySorted lexgt S /\ (forall f, In f S -> length f = Mlen) /\
  (forall s, In s S -> In s (kkeys fr)) /\ inj_pref m S.

Lemma Apre_filter Mlen m S fr fr' (p : wvals -> bool) :
  Apre Mlen m S fr -> kkeys fr' = kkeys fr -> Apre Mlen m (filter p S) fr'.
Proof.
  intros [S1 [L1 [K I]]] KE. split; [apply SS_filter; assumption|].
  split; [intros f Hf; apply filter_In in Hf; apply L1; tauto|]. split.
  - intros s Hs. apply filter_In in Hs. rewrite KE. apply K. tauto.
  - intros s t Hs Ht. apply filter_In in Hs. apply filter_In in Ht. apply I; tauto.
Qed.

Lemma SS_ordered2 S : (forall f, In f S -> (2 <= length f)%nat) -> inj_pref 1 S -> StronglySorted lexgt S -> ordered2 S.
Proof.
  intros HL INJ SS. induction SS as [|x l SS IH F]; [constructor|]. constructor.
  - apply IH; [intros f Hf; apply HL; right; assumption|]. intros s t Hs Ht. apply INJ; right; assumption.
  - rewrite Forall_forall in *. intros y Hy. apply lexgt_lt2; [apply HL; left; reflexivity|apply HL; right; assumption|apply F; assumption|].
    intro E. assert (x = y) by (apply INJ; [left; reflexivity|right; assumption|assumption]). subst.
    apply (lexgt_irrefl y). apply F. assumption.
Qed.

Lemma dom_pref_drop m t s : (S m < length t)%nat -> (S m < length s)%nat -> nth (S m) t 0 = nth (S m) s 0 ->
  (dom_pref (S m) t s <-> dom_pref m t s).
Proof.
  intros Ht Hs E. rewrite !dom_pref_ge by lia. rewrite ge_pref_S, pre_eq_S by assumption. rewrite E. split.
  - intros [[G _] N]. split; [assumption|]. intro P. apply N. auto.
  - intros [G N]. split; [split; [assumption|lia]|]. intros [P _]. contradiction.
Qed.

Theorem helperA_correct Mlen : forall fuel m S fr fr',
  (1 <= m)%nat -> (Datatypes.S m <= Mlen)%nat -> Apre Mlen m S fr ->
  helperA fuel S (Z.of_nat m) fr = Some fr' -> A_postR (dom_pref m) S fr fr'.
Proof.
  induction fuel as [|fu IH]; intros m S fr fr' M1 MM PRE E; [discriminate|].
  cbn [helperA] in E. pose proof PRE as [SS [L1 [K INJ]]].
  assert (IRR : forall s, ~ dom_pref m s s) by (intros s D; unfold dom_pref in D; rewrite nd_dom_irrefl in D; discriminate).
  destruct (Z.ltb_spec (zlen S) 2) as [C0|C0].
  { inversion E; subst. split; [reflexivity|split; [reflexivity|]]. intros s Hs. split; [lia|split; [|left; reflexivity]].
    intros t Ht D. exfalso. destruct S as [|a [|b S']]; [destruct Hs| |unfold zlen in C0; cbn in C0; lia].
    destruct Hs as [<-|[]]. destruct Ht as [<-|[]]. apply (IRR _ D). }
  destruct (Z.eqb_spec (zlen S) 2) as [C1|C1].
  { destruct S as [|s1 [|s2 [|s3 S']]]; try (unfold zlen in C1; cbn in C1; lia).
    assert (LG : lexgt s1 s2). { inversion SS as [|? ? _ F]; subst. inversion F; subst. assumption. }
    assert (N12 : s1 <> s2) by (intro; subst; apply (lexgt_irrefl s2 LG)).
    assert (NP : pre m s1 <> pre m s2). { intro P. apply N12. apply INJ; [left; reflexivity|right; left; reflexivity|assumption]. }
    assert (H1 : (Datatypes.S m <= length s1)%nat) by (rewrite (L1 s1 (or_introl eq_refl)); assumption).
    assert (H2 : (Datatypes.S m <= length s2)%nat) by (rewrite (L1 s2 (or_intror (or_introl eq_refl))); assumption).
    pose proof (no_back_dom m s1 s2 H1 H2 LG NP) as NB.
    rewrite !upto_pre, is_dominated_nd_dom in E. fold (dom_pref m s1 s2) in E.
    destruct (nd_dom (pre m s1) (pre m s2)) eqn:DD; inversion E; subst; clear E.
    - split; [apply kkeys_fbump; apply K; right; left; reflexivity|split].
      + intros f Hf. apply fget_fbump_other. intro; subst. apply Hf. right; left; reflexivity.
      + intros s [<-|[<-|[]]].
        * rewrite fget_fbump_other by congruence. split; [lia|split; [|left; reflexivity]].
          intros t [<-|[<-|[]]] D; exfalso; [apply (IRR _ D)|apply (NB D)].
        * rewrite fget_fbump_same. split; [lia|split].
          -- intros t [<-|[<-|[]]] D; [rewrite fget_fbump_other by congruence; lia|exfalso; apply (IRR _ D)].
          -- destruct (Z.max_spec (fget fr s2) (fget fr s1 + 1)) as [[_ M]|[_ M]]; rewrite M; [right|left; reflexivity].
             exists s1. split; [left; reflexivity|]. split; [exact DD|]. rewrite fget_fbump_other by congruence. reflexivity.
    - split; [reflexivity|split; [reflexivity|]]. intros s Hs. split; [lia|split; [|left; reflexivity]].
      intros t Ht D. exfalso. destruct Hs as [<-|[<-|[]]]; destruct Ht as [<-|[<-|[]]].
      + apply (IRR _ D). + apply (NB D). + unfold dom_pref in D. congruence. + apply (IRR _ D). }
  destruct (Z.eqb_spec (Z.of_nat m) 1) as [M|M].
  { inversion E; subst. assert (m = 1%nat) by lia. subst m.
    apply sweepA_correct; [|intros f Hf; rewrite (L1 f Hf); lia|assumption].
    apply SS_ordered2; [intros f Hf; rewrite (L1 f Hf); lia|assumption|assumption]. }
  destruct m as [|m']; [lia|]. assert (M2 : (1 <= m')%nat) by lia.
  replace (Z.of_nat (Datatypes.S m') - 1) with (Z.of_nat m') in E by lia.
  assert (IT : forall f, In f S -> item f (Z.of_nat (Datatypes.S m')) = nth (Datatypes.S m') f 0)
    by (intros f Hf; apply item_nth; rewrite (L1 f Hf); lia).
  destruct (Z.eqb_spec (zlen (distinct (map (fun f => item f (Z.of_nat (Datatypes.S m'))) S))) 1) as [AE|AE].
  { (* all equal on this objective *)
    assert (EQ : forall s t, In s S -> In t S -> nth (Datatypes.S m') s 0 = nth (Datatypes.S m') t 0).
    { intros s t Hs Ht. rewrite <- (IT s Hs), <- (IT t Ht).
      apply (distinct_one _ AE); apply in_map_iff; [exists s|exists t]; auto. }
    apply (A_ext_rel (dom_pref (Datatypes.S m')) (dom_pref m')).
    - intros t s Ht Hs. apply dom_pref_drop; [rewrite (L1 t Ht); lia|rewrite (L1 s Hs); lia|apply EQ; assumption].
    - apply (IH m' S fr fr'); [assumption|lia| |assumption]. split; [assumption|split; [assumption|split; [assumption|]]].
      intros s t Hs Ht P. apply INJ; [assumption|assumption|].
      apply pre_eq_S; [rewrite (L1 s Hs); lia|rewrite (L1 t Ht); lia|]. split; [assumption|apply EQ; assumption]. }
  destruct (splitA S (Z.of_nat (Datatypes.S m'))) as [best worst] eqn:SP.
  destruct (splitA_spec S _ best worst SP) as [hi [-> [-> STR]]]. set (lo := fun f => negb (hi f)) in *.
  destruct (helperA fu (filter hi S) (Z.of_nat (Datatypes.S m')) fr) as [f1|] eqn:E1; [|discriminate].
  destruct (helperB fu (filter hi S) (filter lo S) (Z.of_nat m') f1) as [f2|] eqn:E2; [|discriminate].
  assert (P1 : A_postR (dom_pref (Datatypes.S m')) (filter hi S) fr f1).
  { apply (IH (Datatypes.S m') _ fr f1); [lia|assumption|apply Apre_filter with (fr := fr); [assumption|reflexivity]|assumption]. }
  assert (K1 : kkeys f1 = kkeys fr) by (destruct P1 as [-> _]; reflexivity).
  assert (DISJ : forall l, In l (filter hi S) -> ~ In l (filter lo S)).
  { intros l Hl I. apply filter_In in Hl. apply filter_In in I. unfold lo in I. destruct Hl as [_ Hl]. destruct I as [_ I]. rewrite Hl in I. discriminate. }
  assert (P2 : B_postR (ge_pref m') (filter hi S) (filter lo S) f1 f2).
  { apply (helperB_correct Mlen fu m' _ _ f1 f2); [assumption|lia| |assumption].
    split; [apply SS_filter; assumption|split; [apply SS_filter; assumption|]].
    split; [intros f Hf; apply filter_In in Hf; apply L1; tauto|]. split; [intros f Hf; apply filter_In in Hf; apply L1; tauto|].
    split; [assumption|]. intros h Hh. apply filter_In in Hh. rewrite K1. apply K. tauto. }
  assert (K2 : kkeys f2 = kkeys fr) by (destruct P2 as [-> _]; assumption).
  assert (P3 : A_postR (dom_pref (Datatypes.S m')) (filter lo S) f2 fr').
  { apply (IH (Datatypes.S m') _ f2 fr'); [lia|assumption|apply Apre_filter with (fr := fr); assumption|assumption]. }
  destruct P1 as [_ [F1 C1']]. destruct P2 as [_ [F2 C2']]. destruct P3 as [K3 [F3 C3']].
  assert (INB : forall s, In s S -> hi s = true -> In s (filter hi S)) by (intros; apply filter_In; auto).
  assert (INW : forall s, In s S -> hi s = false -> In s (filter lo S)) by (intros s ? Hh; apply filter_In; unfold lo; rewrite Hh; auto).
  assert (NB : forall s, hi s = true -> ~ In s (filter lo S)) by (intros s Hh I; apply filter_In in I; unfold lo in I; rewrite Hh in I; destruct I; discriminate).
  assert (NW : forall s, hi s = false -> ~ In s (filter hi S)) by (intros s Hh I; apply filter_In in I; rewrite Hh in I; destruct I; discriminate).
  (* a member of the upper part is strictly better on this objective than a member of the lower part *)
  assert (UP : forall t s, In t S -> In s S -> hi t = false -> hi s = true -> ~ dom_pref (Datatypes.S m') t s).
  { intros t s Ht Hs Pt Ps D. apply dom_pref_ge in D; [|rewrite (L1 t Ht); lia|rewrite (L1 s Hs); lia]. destruct D as [G _].
    apply ge_pref_S in G; [|rewrite (L1 t Ht); lia|rewrite (L1 s Hs); lia]. destruct G as [_ G].
    rewrite <- (IT t Ht), <- (IT s Hs) in G. specialize (STR s t Ps Pt). lia. }
  assert (DOWN : forall t s, In t S -> In s S -> hi t = true -> hi s = false ->
                 (dom_pref (Datatypes.S m') t s <-> ge_pref m' t s)).
  { intros t s Ht Hs Pt Ps. rewrite dom_pref_ge by (rewrite ?(L1 t Ht), ?(L1 s Hs); lia).
    rewrite ge_pref_S by (rewrite ?(L1 t Ht), ?(L1 s Hs); lia). rewrite <- (IT t Ht), <- (IT s Hs).
    specialize (STR t s Pt Ps). split; [tauto|]. intro G. split; [split; [assumption|lia]|].
    intro P. apply pre_eq_S in P; [|rewrite (L1 t Ht); lia|rewrite (L1 s Hs); lia]. destruct P as [_ P].
    rewrite <- (IT t Ht), <- (IT s Hs) in P. lia. }
  split; [congruence|split].
  - intros f Hf.
    assert (N1 : ~ In f (filter hi S)) by (intro I; apply Hf; apply filter_In in I; tauto).
    assert (N2 : ~ In f (filter lo S)) by (intro I; apply Hf; apply filter_In in I; tauto).
    rewrite (F3 f N2), (F2 f N2), (F1 f N1). reflexivity.
  - intros s Hs. destruct (hi s) eqn:Ps.
    + (* s in the upper part: final value = value after the first recursive call *)
      assert (V : forall u, In u S -> hi u = true -> fget fr' u = fget f1 u).
      { intros u Hu Pu. rewrite (F3 u (NB u Pu)), (F2 u (NB u Pu)). reflexivity. }
      destruct (C1' s (INB s Hs Ps)) as [A1 [A2 A3]]. rewrite (V s Hs Ps). split; [assumption|split].
      * intros t Ht D. destruct (hi t) eqn:Pt; [|exfalso; apply (UP t s Ht Hs Pt Ps D)].
        rewrite (V t Ht Pt). apply A2; [apply INB; assumption|assumption].
      * destruct A3 as [A3|[t [Ht [D Et]]]]; [left; assumption|right]. apply filter_In in Ht. destruct Ht as [Ht Pt].
        exists t. split; [assumption|]. split; [assumption|]. rewrite (V t Ht Pt). assumption.
    + assert (V : forall u, In u S -> hi u = true -> fget fr' u = fget f1 u).
      { intros u Hu Pu. rewrite (F3 u (NB u Pu)), (F2 u (NB u Pu)). reflexivity. }
      assert (W0 : fget f1 s = fget fr s) by (apply F1; apply NW; assumption).
      destruct (C2' s (INW s Hs Ps)) as [B1 [B2 B3]]. destruct (C3' s (INW s Hs Ps)) as [D1 [D2 D3]].
      split; [lia|split].
      * intros t Ht D. destruct (hi t) eqn:Pt.
        -- rewrite (V t Ht Pt). apply (DOWN t s Ht Hs Pt Ps) in D. specialize (B2 t (INB t Ht Pt) D). lia.
        -- apply D2; [apply INW; assumption|assumption].
      * destruct D3 as [D3|[t [Ht [D Et]]]].
        -- destruct B3 as [B3|[l [Hl [G El]]]]; [left; lia|right]. apply filter_In in Hl. destruct Hl as [Hl Pl].
           exists l. split; [assumption|]. split; [apply (DOWN l s Hl Hs Pl Ps); assumption|]. rewrite (V l Hl Pl). lia.
        -- right. apply filter_In in Ht. destruct Ht as [Ht _]. exists t. auto.
Qed.
