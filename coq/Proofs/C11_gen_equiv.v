(* Tie (T) of property C11: every definition regenerated from deap/gp.py (coq/Gen/C11_gen.v, written by
   harness/c11_py2coq.py on every run) equals the hand-written model the C11 theorems are stated about --
   for every argument and every list of recorded draws:   gen_f args ds = m_f args ds,
   where m_f (Model/C11_GenRt.v) is the model function in the signature of the regenerated one.
   Compiled on every run, after regeneration.

   A function the translator refused is regenerated as `gen_f := m_f` (placeholder): its lemma is then
   trivial and says nothing new; harness/c11.py reports which functions are really regenerated.

   Structure: loops are rewritten with the lemmas of Proofs/C11_GenRt.v, which are generic in the loop body
   and ask for a pointwise characterisation of one iteration (proved here by unfolding the monad and case
   analysis, closed by reflexivity or linear arithmetic: renamed locals, hoisted or inlined pure
   subexpressions and re-associated sums do not matter); the straight-line code around the loops is compared
   by case analysis on what the two programs inspect. *)
From Coq Require Import List ZArith NArith Bool Lia ZifyBool.
From DV Require Import Base.PyList Model.C11_GPTree Model.C11_GenRt Proofs.C11_GenRt Gen.C11_gen.
Import ListNotations.
Local Open Scope Z_scope.

(* ---------------------------------------------------------------------------------------------- *)
(* tactics                                                                                          *)
(* ---------------------------------------------------------------------------------------------- *)
Ltac munfold := unfold bind, ret, lift, fail, raise, unbound.

(* the scrutinee a term inspects first *)
Ltac match_head t kyes kno :=
  lazymatch t with
  | match ?x with _ => _ end => kyes x
  | ?f _ => match_head f kyes kno
  | _ => kno tt
  end.
Ltac head_scrut t k := match_head t ltac:(fun x => head_scrut x k) ltac:(fun _ => k t).
Ltac destruct_head t :=
  match_head t
    ltac:(fun x => head_scrut x ltac:(fun y => first [ is_var y; destruct y | let E := fresh "E" in destruct y eqn:E ]))
    ltac:(fun _ => fail).
Ltac use_eqns :=
  repeat match goal with
         | E : ?x = _ |- context [match ?x with _ => _ end] => rewrite E
         end.
(* leaves: equal up to linear arithmetic in the components *)
Ltac mleaf := first [ reflexivity | congruence | lia | repeat (f_equal; try lia); fail ].
Ltac mcrush :=
  munfold;
  repeat (cbv beta iota zeta; use_eqns;
          lazymatch goal with
          | |- ?l = ?r => first [ destruct_head l | destruct_head r ]
          end);
  cbv beta iota zeta; try mleaf.

(* ---------------------------------------------------------------------------------------------- *)
(* PrimitiveTree.root                                                                                *)
(* ---------------------------------------------------------------------------------------------- *)
Lemma gen_root_eq self ds : gen_root self ds = m_root self ds.
Proof.
  first [ reflexivity
        | unfold gen_root, m_root; rewrite getitem_nonneg by lia; destruct self; reflexivity ].
Qed.

(* ---------------------------------------------------------------------------------------------- *)
(* PrimitiveTree.searchSubtree                                                                       *)
(* ---------------------------------------------------------------------------------------------- *)
(* the model, with the walk written from the root (one pending subtree) *)
Lemma search_subtree_span2 l b :
  search_subtree l b = res_map (fun p => (b, snd p)) (span_loop2 (skipn b l) 1 b).
Proof.
  unfold search_subtree. rewrite span_loop2_step by lia.
  destruct (nth_error l b) as [n|]; [|reflexivity].
  rewrite span_loop2_snd. replace (1 + zarity n - 1) with (zarity n) by lia.
  destruct (span_loop2 _ _ _) as [[t e]|]; reflexivity.
Qed.

(* the walk: rewritten with [while_span] from whatever state it starts in *)
Ltac search_tail l z :=
  unfold bind at 1;
  lazymatch goal with
  | |- context [while_fuel ?f ?c ?b (?t, ?e) ?d] =>
      first [ replace e with (Z.of_nat (Z.to_nat z)) by lia
            | replace e with (Z.of_nat (S (Z.to_nat z))) by lia ];
      rewrite (while_span l c b); [ | intros; reflexivity | intros; mcrush | lia | cbn [length]; lia ]
  end.

(* after the normalisation of a negative index: [z] is the index, known to be >= 0 *)
Ltac search_from l z :=
  rewrite search_subtree_span2;
  first [ (* the arity of the root is read before the loop *)
          unfold bind at 1; rewrite getitem_nonneg by lia;
          rewrite (span_loop2_step l (Z.to_nat z)) by lia;
          destruct (nth_error l (Z.to_nat z)) as [n|]; [|reflexivity];
          unfold ret at 1; search_tail l z;
          replace (1 + zarity n - 1) with (zarity n) by lia
        | (* the walk starts at the root with one pending subtree *)
          search_tail l z ];
  rewrite ?Nat2Z.id;
  destruct (span_loop2 _ _ _) as [[t e]|]; munfold; unfold zslice; cbn; repeat f_equal; lia.

Lemma gen_searchSubtree_eq self begin ds : gen_searchSubtree self begin ds = m_searchSubtree self begin ds.
Proof.
  first [ reflexivity | idtac ].
  unfold gen_searchSubtree, m_searchSubtree, search_subtree_py, len.
  change (@zlen node self) with (Z.of_nat (length self)).
  unfold bind at 1.
  destruct (begin <? 0) eqn:E0; cbv beta iota zeta; rewrite ?E0.
  - destruct (begin + Z.of_nat (length self) <? 0) eqn:E1; [reflexivity|].
    set (b := begin + Z.of_nat (length self)) in *. unfold ret at 1.
    assert (Hb : 0 <= b) by lia.
    search_from self b.
  - unfold ret at 1.
    assert (Hb : 0 <= begin) by lia.
    search_from self begin.
Qed.

(* ---------------------------------------------------------------------------------------------- *)
(* rewriting inside straight-line code: idioms the source may use for the same list / number          *)
(* ---------------------------------------------------------------------------------------------- *)
Lemma zmax_if a b : (if a <? b then b else a) = Z.max a b.
Proof. destruct (a <? b) eqn:E; lia. Qed.
Lemma zmax_if' a b : (if b <? a then a else b) = Z.max a b.
Proof. destruct (b <? a) eqn:E; lia. Qed.

(* loops that push a constant / a function of the loop variable one by one *)
Ltac push_loops :=
  repeat first
    [ erewrite (for_each_append _ _) by (intros; reflexivity)
    | rewrite map_const_range ].

Ltac idioms :=
  unfold zarity in *; push_loops;
  rewrite ?list_mul_single, ?getslice_tail, ?zmax_if, ?zmax_if'.

(* [mcrush] with the idioms normalised wherever the case analysis exposes them *)
Ltac mcrush' :=
  munfold;
  repeat (cbv beta iota zeta; use_eqns; try progress idioms; munfold; cbv beta iota zeta;
          lazymatch goal with
          | |- ?l = ?r => first [ destruct_head l | destruct_head r ]
          end);
  cbv beta iota zeta; try progress idioms; munfold; cbv beta iota zeta; cbn [fst snd]; try mleaf.

(* ---------------------------------------------------------------------------------------------- *)
(* PrimitiveTree.height                                                                              *)
(* ---------------------------------------------------------------------------------------------- *)
Lemma gen_height_eq self ds : gen_height self ds = m_height self ds.
Proof.
  first [ reflexivity | idtac ].
  unfold gen_height, m_height, height. cbv zeta. unfold bind at 1.
  lazymatch goal with
  | |- context [for_each self ?b ([0], 0) ds] =>
      assert (Hb : forall n st m ds, b n (st, m) ds =
                bind (pop_last st) (fun p => ret (snd p ++ repeat (fst p + 1) (arity n), Z.max m (fst p))) ds);
      [ intros; mcrush' | pose proof (for_height b Hb self [0] 0 ds) as H; cbn [rev app] in H; rewrite H ]
  end.
  rewrite height_loop2_snd. destruct (height_loop2 self [0] 0) as [[st m]|]; reflexivity.
Qed.
