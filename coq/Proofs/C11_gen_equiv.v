(* Tie (T) of property C11: every definition regenerated from deap/gp.py (coq/Gen/C11_gen.v, written by
   harness/c11_py2coq.py on every run) equals the hand-written model the C11 theorems are stated about --
   for every argument and every list of recorded draws:   gen_f args ds = m_f args ds,
   where m_f (Model/C11_GenRt.v) is the model function in the signature of the regenerated one.
   Compiled on every run, after regeneration.

   A function the translator refused is regenerated as `gen_f := m_f` (placeholder): its lemma is then
   trivial and says nothing new; harness/c11.py reports which functions are really regenerated.

   Structure: loops are rewritten with the lemmas of Proofs/C11_GenRt.v, which are generic in the loop body
   and ask for a pointwise characterisation of one iteration (proved here by unfolding the monad and case
   analysis, closed by reflexivity or linear arithmetic: renamed locals, hoisted or inlined pure
   subexpressions and re-associated sums do not matter); the straight-line code around the loops is compared
   by case analysis on what the two programs inspect. *)
From Coq Require Import List ZArith NArith Bool Lia ZifyBool.
From DV Require Import Base.PyList Model.C11_GPTree Model.C11_GenRt Proofs.C11_Gen Proofs.C11_PySlice Proofs.C11_GenRt Gen.C11_gen.
Import ListNotations.
Local Open Scope Z_scope.

(* ---------------------------------------------------------------------------------------------- *)
(* tactics                                                                                          *)
(* ---------------------------------------------------------------------------------------------- *)
(* a function the translator refused is regenerated as its hand model: nothing to prove *)
Ltac placeholder_of g := unfold g; lazymatch goal with |- ?l = ?r => constr_eq l r; reflexivity end.
Ltac munfold := unfold bind, ret, lift, fail, raise, unbound, instantiate, eph_call, frac_ltb, terminal_ratio, res_map, len, zlen.

(* the scrutinee a term inspects first *)
Ltac match_head t kyes kno :=
  lazymatch t with
  | match ?x with _ => _ end => kyes x
  | ?f _ => match_head f kyes kno
  | _ => kno tt
  end.
Ltac head_scrut t k := match_head t ltac:(fun x => head_scrut x k) ltac:(fun _ => k t).
Ltac destruct_head t :=
  match_head t
    ltac:(fun x => head_scrut x ltac:(fun y => first [ is_var y; destruct y | let E := fresh "E" in destruct y eqn:E ]))
    ltac:(fun _ => fail).
(* the term inspects, first of all, a pure value (a flag, an optional, a list): such case distinctions are made
   before the next monadic step of the other side is examined, so that both sides stay in step *)
Ltac pure_head t :=
  match_head t
    ltac:(fun x => head_scrut x ltac:(fun y =>
            let T := type of y in
            lazymatch T with bool => idtac | option _ => idtac | list _ => idtac | emode => idtac | _ => fail end))
    ltac:(fun _ => fail).
Ltac step_heads l r :=
  first [ pure_head r; destruct_head r | pure_head l; destruct_head l | destruct_head l | destruct_head r ].
Ltac use_eqns :=
  repeat match goal with
         | E : ?x = _ |- context [match ?x with _ => _ end] => rewrite E
         end.
(* leaves: equal up to linear arithmetic in the components *)
Ltac mleaf := first [ reflexivity | congruence | lia | repeat (f_equal; try lia); fail ].
Ltac mcrush :=
  munfold;
  repeat (cbv beta iota zeta; cbn [fst snd]; use_eqns;
          lazymatch goal with
          | |- ?l = ?r => step_heads l r
          end);
  cbv beta iota zeta; try mleaf.

(* ---------------------------------------------------------------------------------------------- *)
(* PrimitiveTree.root                                                                                *)
(* ---------------------------------------------------------------------------------------------- *)
Lemma gen_root_eq self ds : gen_root self ds = m_root self ds.
Proof.
  first [ placeholder_of gen_root
        | unfold gen_root, m_root; rewrite getitem_nonneg by lia; destruct self; reflexivity ].
Qed.

(* ---------------------------------------------------------------------------------------------- *)
(* PrimitiveTree.searchSubtree                                                                       *)
(* ---------------------------------------------------------------------------------------------- *)
(* the model, with the walk written from the root (one pending subtree) *)
Lemma search_subtree_span2 l b :
  search_subtree l b = res_map (fun p => (b, snd p)) (span_loop2 (skipn b l) 1 b).
Proof.
  unfold search_subtree. rewrite span_loop2_step by lia.
  destruct (nth_error l b) as [n|]; [|reflexivity].
  rewrite span_loop2_snd. replace (1 + zarity n - 1) with (zarity n) by lia.
  destruct (span_loop2 _ _ _) as [[t e]|]; reflexivity.
Qed.

(* the walk: rewritten with [while_span] from whatever state it starts in *)
Ltac search_tail l z :=
  unfold bind at 1;
  lazymatch goal with
  | |- context [while_fuel ?f ?c ?b (?t, ?e) ?d] =>
      first [ replace e with (Z.of_nat (Z.to_nat z)) by lia
            | replace e with (Z.of_nat (S (Z.to_nat z))) by lia ];
      rewrite (while_span l c b); [ | intros; reflexivity | intros; mcrush | lia | cbn [length]; lia ]
  end.

(* after the normalisation of a negative index: [z] is the index, known to be >= 0 *)
Ltac search_from l z :=
  rewrite search_subtree_span2;
  first [ (* the arity of the root is read before the loop *)
          unfold bind at 1; rewrite getitem_nonneg by lia;
          rewrite (span_loop2_step l (Z.to_nat z)) by lia;
          destruct (nth_error l (Z.to_nat z)) as [n|]; [|reflexivity];
          unfold ret at 1; search_tail l z;
          replace (1 + zarity n - 1) with (zarity n) by lia
        | (* the walk starts at the root with one pending subtree *)
          search_tail l z ];
  rewrite ?Nat2Z.id;
  destruct (span_loop2 _ _ _) as [[t e]|]; munfold; unfold zslice; cbn; repeat f_equal; lia.

Lemma gen_searchSubtree_eq self begin ds : gen_searchSubtree self begin ds = m_searchSubtree self begin ds.
Proof.
  tryif placeholder_of gen_searchSubtree then idtac else (
    unfold gen_searchSubtree, m_searchSubtree, search_subtree_py, len;
    change (@zlen node self) with (Z.of_nat (length self));
    unfold bind at 1;
    destruct (begin <? 0) eqn:E0; cbv beta iota zeta; rewrite ?E0;
    [ destruct (begin + Z.of_nat (length self) <? 0) eqn:E1; [reflexivity|];
      set (b := begin + Z.of_nat (length self)) in *; unfold ret at 1;
      assert (Hb : 0 <= b) by lia;
      search_from self b
    | unfold ret at 1;
      assert (Hb : 0 <= begin) by lia;
      search_from self begin ]).
Qed.

(* ---------------------------------------------------------------------------------------------- *)
(* rewriting inside straight-line code: idioms the source may use for the same list / number          *)
(* ---------------------------------------------------------------------------------------------- *)
Lemma zmax_if a b : (if a <? b then b else a) = Z.max a b.
Proof. destruct (a <? b) eqn:E; lia. Qed.
Lemma zmax_if' a b : (if b <? a then a else b) = Z.max a b.
Proof. destruct (b <? a) eqn:E; lia. Qed.

(* loops that push a constant / a function of the loop variable one by one *)
Ltac push_loops :=
  repeat first
    [ erewrite (for_each_append _ _) by (intros; reflexivity)
    | rewrite map_const_range ].

Ltac idioms :=
  unfold zarity in *; rewrite ?eq0_is_term, ?lt0_is_prim; push_loops;
  rewrite ?list_mul_single, ?getslice_tail, ?zmax_if, ?zmax_if', ?map_rev.

(* [mcrush] with the idioms normalised wherever the case analysis exposes them *)
Ltac mcrush' :=
  munfold;
  repeat (cbv beta iota zeta; cbn [fst snd]; use_eqns; try progress idioms; munfold; cbv beta iota zeta; cbn [fst snd];
          lazymatch goal with
          | |- ?l = ?r => step_heads l r
          end);
  cbv beta iota zeta; try progress idioms; munfold; cbv beta iota zeta; cbn [fst snd]; try mleaf.

(* ---------------------------------------------------------------------------------------------- *)
(* PrimitiveTree.height                                                                              *)
(* ---------------------------------------------------------------------------------------------- *)
Lemma gen_height_eq self ds : gen_height self ds = m_height self ds.
Proof.
  tryif placeholder_of gen_height then idtac else (
    unfold gen_height, m_height, height;
    cbv zeta;
    unfold bind at 1;
    lazymatch goal with
  | |- context [for_each self ?b ([0], 0) ds] =>
      assert (Hb : forall n st m ds, b n (st, m) ds =
                bind (pop_last st) (fun p => ret (snd p ++ repeat (fst p + 1) (arity n), Z.max m (fst p))) ds);
      [ intros; mcrush' | pose proof (for_height b Hb self [0] 0 ds) as H; cbn [rev app] in H; rewrite H ]
  end;
    rewrite height_loop2_snd;
    destruct (height_loop2 self [0] 0) as [[st m]|]; reflexivity).
Qed.

(* ---------------------------------------------------------------------------------------------- *)
(* PrimitiveTree.__setitem__ with a slice key / with an integer key                                  *)
(* ---------------------------------------------------------------------------------------------- *)
Lemma set_nth_same {A} : forall (l : list A) k v, PyList.set_nth l k v = C11_GPTree.set_nth l k v.
Proof. induction l as [|x r IH]; intros [|k] v; cbn; try reflexivity; now rewrite IH. Qed.

Lemma setslice_obj_model (l val : list node) a b : 0 <= a -> 0 <= b -> (Z.to_nat a < length l)%nat ->
  setslice_obj l (a, b) val = firstn (Z.to_nat a) l ++ val ++ skipn (Nat.max (Z.to_nat a) (Z.to_nat b)) l.
Proof.
  intros Ha Hb Hl. unfold setslice_obj, setslice. cbn [fst snd].
  rewrite (set_slice_is_python l val (Z.to_nat a) (Z.to_nat b) Hl).
  now rewrite !Z2Nat.id by lia.
Qed.

(* the slices searchSubtree returns have non-negative bounds: the model only covers those *)
Lemma gen_setitem_slice_eq self key val ds : 0 <= fst key -> 0 <= snd key ->
  gen_setitem_slice self key val ds = m_setitem_slice self key val ds.
Proof.
  intros Ha Hb.
  tryif placeholder_of gen_setitem_slice then idtac else (
    destruct key as [a b];
    cbn [fst snd] in Ha, Hb;
    unfold gen_setitem_slice, m_setitem_slice, set_slice, len;
    cbn [fst snd];
    destruct (Z.of_nat (length self) <=? a) eqn:E1;
    destruct (length self <=? Z.to_nat a)%nat eqn:E2; try lia; [reflexivity|];
    unfold bind at 1;
    rewrite getitem_nonneg by lia;
    cbn [Z.to_nat];
    destruct val as [|v0 vr]; [reflexivity|];
    cbn [nth_error];
    unfold ret at 1;
    cbv zeta;
    rewrite getslice_tail;
    cbn [tl];
    unfold bind at 1;
    lazymatch goal with
  | |- context [for_each vr ?b ?t0 ds] =>
      rewrite (for_total b); [ | intros; mcrush' ]
  end;
    unfold ret at 1;
    lazymatch goal with
  | |- context [fold_left ?f vr ?t0] => destruct (fold_left f vr t0 =? 0) eqn:E3
  end; cbn [negb]; [|reflexivity];
    cbv zeta;
    rewrite setslice_obj_model by lia;
    reflexivity).
Qed.

Lemma gen_setitem_item_eq self key val ds : gen_setitem_item self key val ds = m_setitem_item self key val ds.
Proof.
  tryif placeholder_of gen_setitem_item then idtac else (
    unfold gen_setitem_item, m_setitem_item, set_item_py, set_item, getitem, list_setitem, py_get, py_set, PyList.zlen, zlen;
    cbv zeta;
    unfold bind at 1;
    set (j := if key <? 0 then key + Z.of_nat (length self) else key);
    destruct ((j <? 0) || (Z.of_nat (length self) <=? j)); [reflexivity|];
    destruct (nth_error self (Z.to_nat j)) as [old|]; [|reflexivity];
    unfold ret at 1, zarity;
    destruct (Z.of_nat (arity val) =? Z.of_nat (arity old)) eqn:E1;
    destruct (Nat.eqb (arity val) (arity old)) eqn:E2; try lia; cbn [negb]; [|reflexivity];
    munfold;
    now rewrite set_nth_same).
Qed.

(* ---------------------------------------------------------------------------------------------- *)
(* generate / genFull / genGrow / genHalfAndHalf                                                      *)
(* ---------------------------------------------------------------------------------------------- *)
Lemma gen_generate_eq ps mn mx cond t ds : (forall h, cond_mono (cond h)) ->
  gen_generate ps mn mx cond t ds = m_generate ps mn mx cond t ds.
Proof.
  intro Hm.
  tryif placeholder_of gen_generate then idtac else (
    unfold gen_generate, m_generate;
    cbv zeta;
    set (t0 := match t with Some x => x | None => p_ret ps end);
    replace (match t with None => p_ret ps | Some type_ => type_ end) with t0 by (destruct t; reflexivity);
    apply bind_cong_ok;
    intros h ds1 Er;
    cbv zeta;
    unfold while_draws;
    lazymatch goal with
  | |- bind (fun ds => while_fuel _ ?c ?b ?s ds) ?k ds1 = _ =>
      pose proof (while_gen ps (cond h) c b) as W;
      lazymatch type of W with
      | ?P1 -> ?P2 -> _ =>
          assert (Hc : P1) by (intros; reflexivity);
          assert (Hb : P2) by (intros; mcrush');
          specialize (W Hc Hb k); clear Hc Hb
      end
  end;
    lazymatch type of W with
  | ?P1 -> _ => assert (Hk : P1) by (intros [[? ?] ?] ?; reflexivity); specialize (W Hk (S (length ds1)) [(0, t0)] [] t0 ds1)
  end;
    cbn [rev app] in W;
    unfold bind in W |- *;
    rewrite W;
    apply d_randint_ok in Er;
    destruct Er as [_ (d & ->)];
    apply gen_loop_c_fuel; [apply Hm | cbn [length]; lia ..]).
Qed.

(* genFull / genGrow: the nested `condition` is, pointwise, the model's condition for the mode *)
Ltac gen_mode_equiv ps mode mn :=
  cbv zeta; rewrite gen_generate_eq;
  [ apply (m_generate_model' _ mode); intros; unfold condition; mcrush'
  | intros hh; eapply cond_mono_ext; [ | apply (condition_mono ps mode mn hh) ]; intros; unfold condition; mcrush' ].

Lemma gen_genFull_eq ps mn mx t ds : gen_genFull ps mn mx t ds = m_genFull ps mn mx t ds.
Proof.
  tryif placeholder_of gen_genFull then idtac else (
    unfold gen_genFull, m_genFull, gen_expr;
    cbn [g_kind g_min g_max];
    gen_mode_equiv ps GFull mn).
Qed.

Lemma gen_genGrow_eq ps mn mx t ds : gen_genGrow ps mn mx t ds = m_genGrow ps mn mx t ds.
Proof.
  tryif placeholder_of gen_genGrow then idtac else (
    unfold gen_genGrow, m_genGrow, gen_expr;
    cbn [g_kind g_min g_max];
    gen_mode_equiv ps GGrow mn).
Qed.

Lemma gen_genHalfAndHalf_eq ps mn mx t ds : gen_genHalfAndHalf ps mn mx t ds = m_genHalfAndHalf ps mn mx t ds.
Proof.
  tryif placeholder_of gen_genHalfAndHalf then idtac else (
    unfold gen_genHalfAndHalf, m_genHalfAndHalf, gen_expr;
    cbn [g_kind g_min g_max];
    change [gen_genGrow; gen_genFull]
    with (map (fun m => match m with GGrow => gen_genGrow | GFull => gen_genFull end) [GGrow; GFull]);
    unfold bind at 1;
    rewrite d_choice_map;
    unfold bind, ret;
    destruct (d_choice [GGrow; GFull] ds) as [[m ds1]|]; [|reflexivity];
    destruct m; [ rewrite gen_genFull_eq | rewrite gen_genGrow_eq ]; reflexivity).
Qed.

(* ---------------------------------------------------------------------------------------------- *)
(* the tree methods at natural-number positions (what the operators call them with)                   *)
(* ---------------------------------------------------------------------------------------------- *)
Lemma gen_search_nat l i ds :
  gen_searchSubtree l (Z.of_nat i) ds = lift (res_map zslice (search_subtree l i)) ds.
Proof.
  rewrite gen_searchSubtree_eq. unfold m_searchSubtree, search_subtree_py.
  replace (Z.of_nat i <? 0) with false by lia. cbv iota.
  replace (Z.of_nat i <? 0) with false by lia. now rewrite Nat2Z.id.
Qed.

Lemma gen_setslice_nat l b e v ds : gen_setitem_slice l (zslice (b, e)) v ds = lift (set_slice l b e v) ds.
Proof.
  rewrite gen_setitem_slice_eq by (unfold zslice; cbn [fst snd]; lia).
  unfold m_setitem_slice, zslice. cbn [fst snd]. now rewrite !Nat2Z.id.
Qed.

Lemma gen_setitem_nat l i v ds : gen_setitem_item l (Z.of_nat i) v ds = lift (set_item l i v) ds.
Proof.
  rewrite gen_setitem_item_eq. unfold m_setitem_item, set_item_py, zlen. cbv zeta.
  replace (Z.of_nat i <? 0) with false by lia. cbv iota.
  replace (Z.of_nat i <? 0) with false by lia. cbn [orb]. rewrite Nat2Z.id.
  destruct (Z.of_nat (length l) <=? Z.of_nat i) eqn:E; [|reflexivity].
  unfold set_item. replace (nth_error l i) with (@None node); [reflexivity|].
  symmetry. apply nth_error_None. lia.
Qed.

(* a drawn index i with 0 <= i: written Z.of_nat (Z.to_nat i) *)
Ltac nat_index zi H :=
  let i := fresh "i" in
  set (i := Z.to_nat zi) in *; replace zi with (Z.of_nat i) in * by (subst i; lia).
Ltac draw_bounds :=
  repeat match goal with
         | E : d_randrange ?lo ?hi ?ds = Ok (?z, ?d) |- _ =>
             is_var z; let H := fresh "Hz" in
             pose proof (d_randrange_ok _ _ _ _ _ E) as [H _]; clear E; try nat_index z H
         end.

(* case analysis with the calls of translated functions rewritten to the model first *)
Ltac mrew :=
  rewrite ?gen_search_nat, ?gen_setslice_nat, ?gen_setitem_nat, ?getitem_nat, ?gen_height_eq, ?gen_root_eq.
(* contradictory combinations of the case distinctions the two sides make about the same number / list *)
Ltac prune :=
  try solve [ exfalso;
              repeat match goal with
                     | E : ?x = ?c |- _ =>
                         lazymatch type of x with list _ => idtac end;
                         lazymatch c with nil => idtac | cons _ _ => idtac end;
                         rewrite E in *; clear E
                     end;
              cbn [length map] in *; lia ].
Ltac miter rew :=
  cbv beta iota zeta; cbn [fst snd]; use_eqns;
  repeat match goal with p : (_ * _)%type |- _ => destruct p end;
  draw_bounds;
  repeat (progress (try progress mrew; try progress idioms; try progress rew;
                    unfold m_height, m_root; munfold; cbv beta iota zeta; cbn [fst snd]));
  lazymatch goal with
  | |- ?l = ?r => step_heads l r
  end; prune.
Ltac mcrush_with rew :=
  munfold;
  repeat (miter rew);
  repeat match goal with p : (_ * _)%type |- _ => destruct p end;
  cbv beta iota zeta; try progress idioms; try progress rew; munfold; cbv beta iota zeta; cbn [fst snd]; try mleaf.
Ltac mcrush2 := mcrush_with idtac.

(* ---------------------------------------------------------------------------------------------- *)
(* mutNodeReplacement                                                                                *)
(* ---------------------------------------------------------------------------------------------- *)
Lemma gen_mutNodeReplacement_eq l ps ds : gen_mutNodeReplacement l ps ds = m_mutNodeReplacement l ps ds.
Proof.
  tryif placeholder_of gen_mutNodeReplacement then idtac else (
    unfold gen_mutNodeReplacement, m_mutNodeReplacement, mut_node_replacement;
    mcrush2).
Qed.

(* ---------------------------------------------------------------------------------------------- *)
(* mutUniform                                                                                        *)
(* ---------------------------------------------------------------------------------------------- *)
Lemma gen_mutUniform_eq l expr ps ds : gen_mutUniform l expr ps ds = m_mutUniform l expr ps ds.
Proof.
  tryif placeholder_of gen_mutUniform then idtac else (
    unfold gen_mutUniform, m_mutUniform;
    rewrite len_nat;
    unfold zlen;
    apply bind_cong_ok;
    intros zi ds1 E;
    apply d_randrange_ok in E;
    destruct E as [Hz _];
    nat_index zi Hz;
    mcrush2).
Qed.

(* ---------------------------------------------------------------------------------------------- *)
(* mutEphemeral                                                                                      *)
(* ---------------------------------------------------------------------------------------------- *)
Ltac use_for_eph :=
  repeat match goal with
         | |- context [for_each [Z.of_nat ?x] ?b] => change [Z.of_nat x] with (map Z.of_nat [x])
         end;
  lazymatch goal with
  | |- context [for_each (map Z.of_nat ?idxs) ?b ?l ?ds] => rewrite (for_eph b); [ | intros; mcrush2 ]
  end.

Lemma gen_mutEphemeral_eq l mode ds : gen_mutEphemeral l mode ds = m_mutEphemeral l mode ds.
Proof.
  tryif placeholder_of gen_mutEphemeral then idtac else (
    unfold gen_mutEphemeral, m_mutEphemeral, mut_ephemeral;
    destruct mode; cbn [existsb mode_eqb orb negb]; [ | | reflexivity ]; cbv zeta;
    rewrite enumerate_from_0; erewrite idx_filter by (intros; reflexivity); cbv beta;
    set (idxs := map fst (filter (fun q => neph (snd q)) (enumerate l)));
    (destruct idxs as [|i0 r0]; [reflexivity|]);
    unfold len; cbn [map length]; rewrite Nat2Z.inj_succ;
    (replace (0 <? Z.succ (Z.of_nat (length (map Z.of_nat r0)))) with true by lia);
    change (Z.of_nat i0 :: map Z.of_nat r0) with (map Z.of_nat (i0 :: r0));
    mcrush_with ltac:(rewrite ?d_choice_map; try use_for_eph)).
Qed.

(* ---------------------------------------------------------------------------------------------- *)
(* staticLimit                                                                                       *)
(* ---------------------------------------------------------------------------------------------- *)
Lemma gen_staticLimit_eq key maxv func args ds :
  gen_staticLimit key maxv func args ds = m_staticLimit key maxv func args ds.
Proof.
  tryif placeholder_of gen_staticLimit then idtac else (
    unfold gen_staticLimit, m_staticLimit;
    cbv zeta;
    apply bind_cong_ok;
    intros outs ds1 _;
    rewrite enumerate_from_0;
    unfold enumerate;
    lazymatch goal with
  | |- bind (for_each _ ?b outs) _ ds1 = _ =>
      pose proof (for_limit key maxv args b) as W;
      lazymatch type of W with
      | ?P -> _ => assert (Hb : P) by (intros; mcrush2); specialize (W Hb outs [] ds1); clear Hb
      end
  end;
    cbn [length app] in W;
    unfold bind in W |- *;
    rewrite W;
    destruct (limit_fold_k key maxv args outs ds1) as [[r ds2]|]; reflexivity).
Qed.

(* ---------------------------------------------------------------------------------------------- *)
(* cxOnePoint / cxOnePointLeafBiased                                                                 *)
(* ---------------------------------------------------------------------------------------------- *)
(* the only element a one-element sequence offers *)
Ltac single_choice :=
  repeat match goal with
         | E : d_choice [?x] _ = Ok (?t, _) |- _ =>
             is_var t;
             assert (t = x) by (apply d_choice_ok in E; destruct E as [[?|[]] _]; congruence); subst t
         end.
(* slices of spans *)
Ltac span_slices :=
  repeat match goal with
         | E : search_subtree ?l ?i = Ok (?b, ?e) |- context [getslice_obj ?l (zslice (?b, ?e))] =>
             rewrite (getslice_obj_nat l b e) by (pose proof (search_subtree_bounds _ _ _ _ E); lia)
         end.
(* the two position tables, built by the loops with the filter [k1] / [k2] *)
Ltac dd_loops :=
  repeat lazymatch goal with
         | |- context [for_each (map zfst ?e) ?b ?d ?ds] =>
             first [ rewrite (for_dd all_nodes b) by (intros; unfold all_nodes; mcrush')
                   | rewrite (for_dd is_term b) by (intros; mcrush')
                   | rewrite (for_dd is_prim b) by (intros; mcrush') ]
         end.

Lemma gen_cxOnePoint_eq l1 l2 ds : gen_cxOnePoint l1 l2 ds = m_cxOnePoint l1 l2 ds.
Proof.
  tryif placeholder_of gen_cxOnePoint then idtac else (
    unfold gen_cxOnePoint, m_cxOnePoint, cx_one_point, cx_one_point_with, swap_subtrees, common_types;
    destruct (dd_build_model all_nodes l1) as (K1 & G1 & M1);
    destruct (dd_build_model all_nodes l2) as (K2 & G2 & M2);
    mcrush_with ltac:(
    single_choice; span_slices; cbn [dd_set dd_get]; rewrite ?N.eqb_refl;
    rewrite ?enumerate_from_1_tl; dd_loops;
    rewrite ?K1, ?G1, ?G2, ?d_choice_map, ?range2_seq;
    try rewrite (filter_ext _ _ M2))).
Qed.

Lemma gen_cxOnePointLeafBiased_eq l1 l2 termpb ds :
  gen_cxOnePointLeafBiased l1 l2 termpb ds = m_cxOnePointLeafBiased l1 l2 termpb ds.
Proof.
  tryif placeholder_of gen_cxOnePointLeafBiased then idtac else (
    unfold gen_cxOnePointLeafBiased, m_cxOnePointLeafBiased, cx_leaf_biased, cx_leaf_biased_with, swap_subtrees, common_types;
    destruct termpb as [pn pd];
    cbn [fst snd];
    destruct (dd_build_model is_term l1) as (K1t & G1t & M1t);
    destruct (dd_build_model is_prim l1) as (K1p & G1p & M1p);
    destruct (dd_build_model is_term l2) as (K2t & G2t & M2t);
    destruct (dd_build_model is_prim l2) as (K2p & G2p & M2p);
    mcrush_with ltac:(
    span_slices;
    repeat match goal with
           | |- context [lt_frac ?u ?a ?b] => let E := fresh "E" in destruct (lt_frac u a b) eqn:E
           end;
    rewrite ?enumerate_from_1_tl; dd_loops;
    rewrite ?K1t, ?K1p, ?G1t, ?G1p, ?G2t, ?G2p, ?d_choice_map;
    try rewrite (filter_ext _ _ M2t); try rewrite (filter_ext _ _ M2p))).
Qed.

(* ---------------------------------------------------------------------------------------------- *)
(* mutShrink                                                                                         *)
(* ---------------------------------------------------------------------------------------------- *)
(* the candidate list: a loop that appends the pairs passing the test, or the same as a comprehension *)
Ltac collect_loops :=
  repeat lazymatch goal with
         | |- context [for_each (map zfst ?e) ?b (@nil (Z * node)) ?ds] =>
             rewrite (for_each_filter_append (fun q : Z * node => mem_ty (nret (snd q)) (nargs (snd q))) (fun q => q) b)
               by (intros [? ?] ? ?; cbn [fst snd]; mcrush_with ltac:(rewrite ?is_primitive_mem));
             rewrite map_id, app_nil_l;
             rewrite (pair_filter (fun nd => mem_ty (nret nd) (nargs nd))) by (intros; reflexivity)
         end.
Ltac zfst_pairs :=
  repeat match goal with
         | |- context [zfst (?a, ?b)] => change (zfst (a, b)) with (Z.of_nat a, b)
         end.
Ltac positions_list :=
  repeat lazymatch goal with
         | |- context [filter _ (enumerate_from 0 ?args)] =>
             rewrite (enumerate_from_0 args); erewrite idx_filter by (intros; reflexivity); cbv beta
         end.
Ltac walk_loop l :=
  repeat match goal with
         | |- context [range1 (Z.of_nat ?j + 1)] => replace (Z.of_nat j + 1) with (Z.of_nat (S j)) by lia
         | |- context [for_each (range1 _) ?b (Z.of_nat ?a + 1, ?o)] =>
             replace (Z.of_nat a + 1) with (Z.of_nat (S a)) by lia
         end;
  try lazymatch goal with
      | |- context [for_each (range1 (Z.of_nat ?k)) ?b (Z.of_nat ?r, ?o) ?ds] =>
          rewrite (for_walk l b); [ rewrite range1_length | intros; mcrush_with ltac:(span_slices) ]
      end.
Ltac walk_result :=
  repeat match goal with
         | E : walk2 _ _ (S _) _ = Ok (_, ?o) |- _ =>
             is_var o; let s := fresh "s" in destruct (walk2_some _ _ _ _ _ _ E) as [s ->]
         end.

Ltac shrink_hook l :=
    span_slices; walk_result; zfst_pairs; cbn [fst snd from_opt];
    rewrite ?enumerate_from_1_tl; collect_loops; positions_list;
    rewrite ?d_choice_map, ?shrink_walk_walk2_nil;
    walk_loop l.

Lemma gen_mutShrink_eq l ds : gen_mutShrink l ds = m_mutShrink l ds.
Proof.
  tryif placeholder_of gen_mutShrink then idtac else (
    unfold gen_mutShrink, m_mutShrink, mut_shrink, positions;
    mcrush_with ltac:(shrink_hook l)).
Qed.

(* ---------------------------------------------------------------------------------------------- *)
(* mutInsert                                                                                         *)
(* ---------------------------------------------------------------------------------------------- *)
Ltac position_bounds p :=
  match goal with
  | E : d_choice _ _ = Ok ((p, _), _) |- _ =>
      let Hin := fresh "Hin" in
      pose proof (proj1 (d_choice_ok _ _ _ _ E)) as Hin; apply filter_enum_lt in Hin; unfold ty in *; lia
  end.
(* the loop that builds the new subtree: with placeholders that are filled in, or appending in prefix order *)
Ltac insert_loops ps :=
  try lazymatch goal with
      | |- context [insert_fill ps ?old ?p 0%nat ?args] =>
          first
            [ lazymatch goal with
              | |- context [for_each (map zfst (combine (seq 0 (length args)) args)) ?b (repeat None (length args)) ?ds] =>
                  let W := fresh "W" in
                  pose proof (for_fill ps p b) as W;
                  lazymatch type of W with
                  | ?P -> _ => let Hb := fresh "Hb" in
                               assert (Hb : P) by (intros; mcrush2); specialize (W Hb args [] ds); clear Hb
                  end;
                  cbn [length app] in W; rewrite W; clear W;
                  rewrite (insert_fill_opts ps old p args 0) by (position_bounds p)
              end
            | lazymatch goal with
              | |- context [for_each (map zfst (combine (seq 0 (length args)) args)) ?b ?acc ?ds] =>
                  let W := fresh "W" in
                  pose proof (for_insert_append ps old p b) as W;
                  lazymatch type of W with
                  | ?P -> _ => let Hb := fresh "Hb" in
                               assert (Hb : P) by (intros; mcrush2); specialize (W Hb args 0%nat acc ds); clear Hb
                  end;
                  rewrite W; clear W
              end ]
      end.
(* the node at the index and the span of its subtree may be read in either order: both reads are pure and fail
   with the same IndexError exactly when the index is out of range *)
Ltac read_order :=
  repeat match goal with
         | E : nth_error ?l ?i = None, E1 : search_subtree ?l ?i = _ |- _ =>
             rewrite (search_subtree_none l i E) in E1;
             first [ discriminate E1 | inversion E1; subst; clear E1 ]
         | E : nth_error ?l ?i = None |- context [search_subtree ?l ?i] =>
             rewrite (search_subtree_none l i E)
         end.
Ltac insert_hook ps :=
  read_order; span_slices; zfst_pairs; cbn [fst snd];
  positions_list; rewrite ?d_choice_map;
  unfold len; rewrite ?list_mul_none_len, ?enumerate_from_0; unfold enumerate;
  insert_loops ps;
  rewrite ?setslice_nat, ?list_insert_0, ?Nat.sub_0_r; cbn [unwrap_all Nat.add app];
  rewrite ?unwrap_all_app_some.

Lemma gen_mutInsert_eq l ps ds : gen_mutInsert l ps ds = m_mutInsert l ps ds.
Proof.
  tryif placeholder_of gen_mutInsert then idtac else (
    unfold gen_mutInsert, m_mutInsert, mut_insert, positions;
    mcrush_with ltac:(insert_hook ps)).
Qed.
