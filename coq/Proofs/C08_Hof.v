(* HallOfFame: the invariant carried by every update step and the theorems about histories. *)
From Coq Require Import List ZArith Bool Lia Sorted.
From DV Require Import Base.PyTuple Base.PyList Model.C01_Fitness Model.C08_Archive
  Proofs.C08_Lists Proofs.C08_Refine.
Import ListNotations.
Local Open Scope Z_scope.

Section Hof.
  Variable ind : Type.
  Variable fitness : ind -> list Z.
  Variable similar : ind -> ind -> bool.

  Notation desc := (desc ind fitness).
  Notation ins := (ins ind fitness).
  Notation hstep := (hstep ind fitness similar).
  Notation mirror := (mirror ind fitness).

  (* evaluation is a function of the similarity class, on the individuals that were shown *)
  Definition sim_fit_on (l : list ind) : Prop :=
    forall a b, In a l -> In b l -> similar a b = true -> fitness a = fitness b.

  (* ---------- shape facts that need no assumption on the similarity operator ---------- *)
  Lemma desc_last its d h : desc its -> In h its -> fit_lt (fitness h) (fitness (last its d)) = false.
  Proof.
    intros D H. destruct its as [|a r]; [destruct H|].
    destruct (@exists_last _ (a :: r)) as (p & w & E); [discriminate|]. rewrite E in *.
    rewrite last_last. apply in_app_or in H. destruct H as [H|[<-|[]]].
    - apply desc_app in D. destruct D as (_ & _ & C). apply C; [assumption|now left].
    - apply fit_lt_irrefl.
  Qed.

  Lemma desc_nth l : desc l -> forall i j a b, (i < j)%nat ->
    nth_error l i = Some a -> nth_error l j = Some b -> fit_lt (fitness a) (fitness b) = false.
  Proof.
    induction l as [|x r IH]; intros D i j a b Hij Ha Hb; [destruct i; discriminate|].
    inversion D as [|? ? D' F]; subst. destruct j; [exfalso; lia|]. destruct i; cbn in *.
    - inversion Ha; subst. rewrite Forall_forall in F. apply F. eapply nth_error_In; eassumption.
    - apply (IH D' i j a b); [lia|assumption|assumption].
  Qed.

  Lemma zlen_ins x its : zlen (ins x its) = zlen its + 1.
  Proof. unfold zlen. rewrite ins_length. lia. Qed.

  Lemma zlen_removelast (its : list ind) : its <> [] -> zlen (removelast its) = zlen its - 1.
  Proof.
    intro H. destruct (exists_last H) as (p & w & ->). rewrite removelast_last, zlen_app.
    unfold zlen. cbn. lia.
  Qed.

  Lemma hstep_len m its x : 1 <= m -> zlen its <= m -> zlen (hstep m its x) <= m.
  Proof.
    intros Hm L. unfold C08_Refine.hstep. destruct its as [|a r]; [cbn; lia|].
    set (its := a :: r) in *. assert (Hne : its <> []) by discriminate.
    destruct (_ || (zlen its <? m)); [|assumption]. destruct (existsb _ _); [assumption|].
    rewrite zlen_ins. destruct (Z.geb_spec (zlen its) m).
    - rewrite zlen_removelast by assumption. lia.
    - lia.
  Qed.

  Lemma hstep_In m its x y : In y (hstep m its x) -> y = x \/ In y its.
  Proof.
    unfold C08_Refine.hstep. destruct its as [|a r]; [intros [<-|[]]; auto|].
    set (its := a :: r) in *.
    destruct (_ || (zlen its <? m)); [|auto]. destruct (existsb _ _); [auto|].
    intro H. apply ins_In in H. destruct H as [->|H]; [auto|right].
    destruct (zlen its >=? m); [|assumption].
    destruct (@exists_last _ its) as (p & w & E); [discriminate|]. rewrite E in *.
    rewrite removelast_last in H. apply in_or_app. auto.
  Qed.

  Lemma fold_hstep_shape m xs : 1 <= m ->
    zlen (fold_left (hstep m) xs []) <= m /\ incl (fold_left (hstep m) xs []) xs.
  Proof.
    intro Hm. induction xs as [|x xs IH] using rev_ind; [split; [cbn; lia|intros ? []]|].
    rewrite fold_left_app. cbn [fold_left]. destruct IH as [L I]. split.
    - now apply hstep_len.
    - intros y Hy. apply hstep_In in Hy. apply in_or_app. destruct Hy as [->|Hy]; [right; now left|left; auto].
  Qed.

  (* for ANY similarity operator: no exception, keys mirror items, sorted, size, members were shown *)
  Theorem hof_shape_thm m batches : 1 <= m ->
    exists h, hof_run ind fitness similar m batches = Some h /\
      keys h = rev (map fitness (items h)) /\
      (forall i j a b, (i < j)%nat -> nth_error (items h) i = Some a -> nth_error (items h) j = Some b ->
                       fit_lt (fitness a) (fitness b) = false) /\
      zlen (items h) <= m /\
      (forall a, In a (items h) -> In a (concat batches)).
  Proof.
    intro Hm. destruct (hof_run_refine ind fitness similar m batches Hm) as [E D].
    destruct (fold_hstep_shape m (concat batches) Hm) as [L I].
    eexists. split; [exact E|]. cbn [keys items C08_Refine.mirror]. split; [reflexivity|].
    split; [apply desc_nth, D|]. split; [exact L|exact I].
  Qed.

  Hypothesis sim_sym : forall x y, similar x y = similar y x.

  (* pairwise non-similar *)
  Fixpoint nosim (l : list ind) : Prop :=
    match l with
    | [] => True
    | x :: r => (forall y, In y r -> similar x y = false) /\ nosim r
    end.

  Lemma nosim_app p q : nosim (p ++ q) <->
    nosim p /\ nosim q /\ forall a b, In a p -> In b q -> similar a b = false.
  Proof.
    induction p as [|x p IH]; cbn.
    - intuition.
    - rewrite IH. split.
      + intros (H & Hp & Hq & C). repeat split; auto.
        * intros y Hy. apply H, in_or_app. auto.
        * intros a b [<-|Ha] Hb; [apply H, in_or_app; auto|auto].
      + intros ((H & Hp) & Hq & C). repeat split; auto.
        intros y Hy. apply in_app_or in Hy. destruct Hy; auto.
  Qed.

  Lemma nosim_ins x its : (forall h, In h its -> similar x h = false) -> nosim its -> nosim (ins x its).
  Proof.
    induction its as [|h r IH]; intros Hx N; cbn.
    - split; [intros ? []|exact I].
    - destruct N as [Nh Nr]. destruct (fit_lt (fitness x) (fitness h)).
      + cbn. split.
        * intros y Hy. apply ins_In in Hy. destruct Hy as [->|Hy]; [|auto].
          rewrite sim_sym. apply Hx. now left.
        * apply IH; [|assumption]. intros h' Hh'. apply Hx. now right.
      + cbn. repeat split; auto.
  Qed.

  Lemma nosim_removelast its : nosim its -> nosim (removelast its).
  Proof.
    intro N. destruct its as [|a r]; [exact I|].
    destruct (@exists_last _ (a :: r)) as (p & w & E); [discriminate|]. rewrite E in *.
    rewrite removelast_last. apply nosim_app in N. tauto.
  Qed.

  Lemma nosim_snoc its x : nosim its -> (forall h, In h its -> similar x h = false) -> nosim (its ++ [x]).
  Proof.
    intros N Hx. apply nosim_app. repeat split; [assumption|intros ? []|].
    intros a b Ha [<-|[]]. rewrite sim_sym. auto.
  Qed.

  Lemma nosim_nth l : nosim l -> forall i j a b, i <> j ->
    nth_error l i = Some a -> nth_error l j = Some b -> similar a b = false.
  Proof.
    induction l as [|x r IH]; intros N i j a b Hij Ha Hb; [destruct i; discriminate|].
    destruct N as [Nx Nr]. destruct i, j; cbn in *; try congruence.
    - inversion Ha; subst. apply Nx. eapply nth_error_In; eassumption.
    - inversion Hb; subst. rewrite sim_sym. apply Nx. eapply nth_error_In; eassumption.
    - apply (IH Nr i j a b); [intro E; apply Hij; now f_equal|assumption|assumption].
  Qed.

  Lemma existsb_similar_false x its :
    existsb (similar x) its = false -> forall h, In h its -> similar x h = false.
  Proof.
    intros E h Hh. destruct (similar x h) eqn:S; [|reflexivity].
    assert (existsb (similar x) its = true) by (apply existsb_exists; eauto). congruence.
  Qed.

  Lemma hstep_nosim m its x : nosim its -> nosim (hstep m its x).
  Proof.
    intro N. unfold C08_Refine.hstep. destruct its as [|a r]; [split; [intros ? []|exact I]|].
    set (its := a :: r) in *.
    destruct (_ || (zlen its <? m)); [|assumption]. destruct (existsb (similar x) its) eqn:Ex; [assumption|].
    pose proof (existsb_similar_false x its Ex) as Hx.
    destruct (zlen its >=? m).
    - apply nosim_ins; [|now apply nosim_removelast]. intros h Hh. apply Hx.
      destruct (@exists_last _ its) as (p & w & E); [discriminate|]. rewrite E in *.
      rewrite removelast_last in Hh. apply in_or_app. auto.
    - now apply nosim_ins.
  Qed.

  (* members pairwise distinct, for any symmetric similarity operator *)
  Theorem hof_distinct_thm m batches : 1 <= m ->
    exists h, hof_run ind fitness similar m batches = Some h /\
      forall i j a b, i <> j -> nth_error (items h) i = Some a -> nth_error (items h) j = Some b ->
                      similar a b = false.
  Proof.
    intro Hm. destruct (hof_run_refine ind fitness similar m batches Hm) as [E _].
    eexists. split; [exact E|]. cbn [items C08_Refine.mirror]. apply nosim_nth.
    generalize (concat batches). intro xs. induction xs as [|x xs IH] using rev_ind; [exact I|].
    rewrite fold_left_app. cbn [fold_left]. now apply hstep_nosim.
  Qed.

  Hypothesis sim_refl : forall x, similar x x = true.

  (* ---------- the invariant ---------- *)
  Record HInv (m : Z) (its seen : list ind) : Prop := {
    hi_desc : desc its;
    hi_len : zlen its <= m;
    hi_nosim : nosim its;
    hi_incl : incl its seen;
    hi_best : forall s, In s seen ->
        (exists h, In h its /\ similar s h = true) \/
        (zlen its = m /\ forall h, In h its -> fit_lt (fitness h) (fitness s) = false);
    hi_room : (forall s, In s seen -> exists h, In h its /\ similar s h = true) \/
              (exists l, nosim l /\ incl l seen /\ m < zlen l)
  }.

  Lemma HInv_init m : 0 <= m -> HInv m [] [].
  Proof.
    intro Hm. constructor; try (intros ? []); try exact I.
    - constructor.
    - exact Hm.
    - left. intros ? [].
  Qed.

  Lemma HInv_empty m its seen : 1 <= m -> HInv m its seen -> its = [] -> seen = [].
  Proof.
    intros Hm H ->. destruct seen as [|s r]; [reflexivity|].
    destruct (hi_best _ _ _ H s (or_introl eq_refl)) as [(h & [] & _)|[E _]].
    cbn in E. lia.
  Qed.

  Lemma HInv_step m its seen x : 1 <= m -> HInv m its seen -> sim_fit_on (seen ++ [x]) ->
    HInv m (hstep m its x) (seen ++ [x]).
  Proof.
    intros Hm H SF.
    assert (Hin_seen : forall s, In s seen -> In s (seen ++ [x])) by (intros; apply in_or_app; auto).
    assert (Hin_x : In x (seen ++ [x])) by (apply in_or_app; right; now left).
    destruct its as [|a r] eqn:Eits.
    { (* empty archive: nothing was shown before *)
      assert (seen = []) by (eapply HInv_empty; eauto). subst seen. cbn.
      constructor.
      - constructor; constructor.
      - cbn. lia.
      - split; [intros ? []|exact I].
      - intros y Hy. exact Hy.
      - intros s [<-|[]]. left. exists x. split; [now left|apply sim_refl].
      - left. intros s [<-|[]]. exists x. split; [now left|apply sim_refl]. }
    rewrite <- Eits in *. assert (Hne : its <> []) by (rewrite Eits; discriminate).
    clear Eits a r.
    destruct H as [D L N I B R].
    unfold C08_Refine.hstep.
    destruct its as [|a r] eqn:Eits; [congruence|]. rewrite <- Eits in *. clear Eits a r.
    set (w := last its x).
    assert (Hw : In w its).
    { unfold w. destruct (exists_last Hne) as (p & w' & ->). rewrite last_last. apply in_or_app. right. now left. }
    assert (Hwmin : forall h, In h its -> fit_lt (fitness h) (fitness w) = false)
      by (intros h Hh; apply desc_last; assumption).
    destruct (fit_lt (fitness w) (fitness x) || (zlen its <? m)) eqn:Econd.
    2:{ (* rejected: full and not better than the worst *)
      apply orb_false_iff in Econd. destruct Econd as [Ewx Efull].
      apply Z.ltb_ge in Efull. assert (Lm : zlen its = m) by lia.
      assert (Hx : forall h, In h its -> fit_lt (fitness h) (fitness x) = false).
      { intros h Hh. eapply fit_ge_trans; [apply Hwmin, Hh|exact Ewx]. }
      constructor; try assumption.
      - intros y Hy. apply Hin_seen, I, Hy.
      - intros s Hs. apply in_app_or in Hs. destruct Hs as [Hs|[<-|[]]]; [auto|]. right. auto.
      - destruct R as [R|(l & Nl & Il & Ll)].
        + destruct (existsb (similar x) its) eqn:Ex.
          * left. intros s Hs. apply in_app_or in Hs. destruct Hs as [Hs|[<-|[]]]; [auto|].
            apply existsb_exists in Ex. destruct Ex as (h & Hh & Sh). eauto.
          * right. exists (its ++ [x]). split; [|split].
            -- apply nosim_snoc; [assumption|]. now apply existsb_similar_false.
            -- intros y Hy. apply in_app_or in Hy. destruct Hy as [Hy|[<-|[]]]; [apply Hin_seen, I, Hy|exact Hin_x].
            -- rewrite zlen_app. unfold zlen at 2. cbn. lia.
        + right. exists l. repeat split; [assumption| |assumption]. intros y Hy. apply Hin_seen, Il, Hy. }
    destruct (existsb (similar x) its) eqn:Ex.
    { (* a similar member exists: unchanged *)
      apply existsb_exists in Ex. destruct Ex as (hx & Hhx & Shx).
      constructor; try assumption.
      - intros y Hy. apply Hin_seen, I, Hy.
      - intros s Hs. apply in_app_or in Hs. destruct Hs as [Hs|[<-|[]]]; [auto|]. left. eauto.
      - destruct R as [R|(l & Nl & Il & Ll)].
        + left. intros s Hs. apply in_app_or in Hs. destruct Hs as [Hs|[<-|[]]]; [auto|]. eauto.
        + right. exists l. repeat split; [assumption| |assumption]. intros y Hy. apply Hin_seen, Il, Hy. }
    pose proof (existsb_similar_false x its Ex) as Hx.
    destruct (Z.geb_spec (zlen its) m) as [Hfull|Hroom].
    - (* full: the worst member is evicted *)
      assert (Lm : zlen its = m) by lia.
      assert (Ewx : fit_lt (fitness w) (fitness x) = true).
      { apply orb_true_iff in Econd. destruct Econd as [E|E]; [exact E|]. apply Z.ltb_lt in E. lia. }
      destruct (exists_last Hne) as (base & w' & Ebase).
      assert (w' = w) by (unfold w; rewrite Ebase, last_last; reflexivity). subst w'.
      rewrite Ebase, removelast_last.
      assert (Hbase : forall h, In h base -> In h its) by (intros h Hh; rewrite Ebase; apply in_or_app; auto).
      assert (Lb : zlen base = m - 1) by (rewrite Ebase, zlen_app in Lm; unfold zlen in Lm at 2; cbn in Lm; lia).
      constructor.
      + apply ins_desc. rewrite Ebase in D. apply desc_app in D. tauto.
      + rewrite zlen_ins. lia.
      + apply nosim_ins; [auto|]. rewrite Ebase in N. apply nosim_app in N. tauto.
      + intros y Hy. apply ins_In in Hy. destruct Hy as [->|Hy]; [exact Hin_x|apply Hin_seen, I, Hbase, Hy].
      + intros s Hs.
        assert (Hnew : forall s', fit_lt (fitness w) (fitness s') = false ->
                  forall h, In h (ins x base) -> fit_lt (fitness h) (fitness s') = false).
        { intros s' Hs' h Hh. apply ins_In in Hh. destruct Hh as [->|Hh].
          - eapply fit_ge_trans; [apply fit_lt_asym; exact Ewx|exact Hs'].
          - eapply fit_ge_trans; [apply Hwmin, Hbase, Hh|exact Hs']. }
        apply in_app_or in Hs. destruct Hs as [Hs|[<-|[]]].
        * destruct (B s Hs) as [(h & Hh & Sh)|[_ Hall]].
          -- rewrite Ebase in Hh. apply in_app_or in Hh. destruct Hh as [Hh|[<-|[]]].
             ++ left. exists h. split; [apply ins_In; auto|assumption].
             ++ (* the similar member was the evicted worst one: equal fitness *)
                right. split; [rewrite zlen_ins; lia|]. apply Hnew.
                rewrite (SF s w (Hin_seen s Hs) (Hin_seen w (I w Hw)) Sh). apply fit_lt_irrefl.
          -- right. split; [rewrite zlen_ins; lia|]. apply Hnew. apply Hall, Hw.
        * left. exists x. split; [apply ins_In; auto|apply sim_refl].
      + right. destruct R as [R|(l & Nl & Il & Ll)].
        * exists (its ++ [x]). split; [|split].
          -- apply nosim_snoc; assumption.
          -- intros y Hy. apply in_app_or in Hy. destruct Hy as [Hy|[<-|[]]]; [apply Hin_seen, I, Hy|exact Hin_x].
          -- rewrite zlen_app. unfold zlen at 2. cbn. lia.
        * exists l. repeat split; [assumption| |assumption]. intros y Hy. apply Hin_seen, Il, Hy.
    - (* room left: plain insertion *)
      constructor.
      + now apply ins_desc.
      + rewrite zlen_ins. lia.
      + now apply nosim_ins.
      + intros y Hy. apply ins_In in Hy. destruct Hy as [->|Hy]; [exact Hin_x|apply Hin_seen, I, Hy].
      + intros s Hs. apply in_app_or in Hs. destruct Hs as [Hs|[<-|[]]].
        * destruct (B s Hs) as [(h & Hh & Sh)|[E _]]; [|lia].
          left. exists h. split; [apply ins_In; auto|assumption].
        * left. exists x. split; [apply ins_In; auto|apply sim_refl].
      + destruct R as [R|(l & Nl & Il & Ll)].
        * left. intros s Hs. apply in_app_or in Hs. destruct Hs as [Hs|[<-|[]]].
          -- destruct (R s Hs) as (h & Hh & Sh). exists h. split; [apply ins_In; auto|assumption].
          -- exists x. split; [apply ins_In; auto|apply sim_refl].
        * right. exists l. repeat split; [assumption| |assumption]. intros y Hy. apply Hin_seen, Il, Hy.
  Qed.

  Lemma sim_fit_on_app l x : sim_fit_on (l ++ [x]) -> sim_fit_on l.
  Proof. intros H a b Ha Hb. apply H; apply in_or_app; auto. Qed.

  Theorem HInv_run m xs : 1 <= m -> sim_fit_on xs -> HInv m (fold_left (hstep m) xs []) xs.
  Proof.
    intro Hm. induction xs as [|x xs IH] using rev_ind; intro SF.
    - apply HInv_init. lia.
    - rewrite fold_left_app. cbn [fold_left]. apply HInv_step; [assumption| |assumption].
      apply IH. eapply sim_fit_on_app; eassumption.
  Qed.

  (* ---------- theorems about the raw model ---------- *)
  Section History.
    Variable m : Z.
    Variable batches : list (list ind).
    Hypothesis m_pos : 1 <= m.
    Let seen := concat batches.

    Theorem hof_never_raises_and_mirrors :
      exists h, hof_run ind fitness similar m batches = Some h /\
                keys h = rev (map fitness (items h)) /\
                items h = fold_left (hstep m) seen [].
    Proof.
      destruct (hof_run_refine ind fitness similar m batches m_pos) as [E _].
      eexists. split; [exact E|]. split; reflexivity.
    Qed.

    Hypothesis sim_fit : sim_fit_on seen.

    Theorem hof_inv_thm :
      exists h, hof_run ind fitness similar m batches = Some h /\
        keys h = rev (map fitness (items h)) /\
        (forall i j a b, (i < j)%nat -> nth_error (items h) i = Some a -> nth_error (items h) j = Some b ->
                         fit_lt (fitness a) (fitness b) = false) /\
        zlen (items h) <= m /\
        (forall i j a b, i <> j -> nth_error (items h) i = Some a -> nth_error (items h) j = Some b ->
                         similar a b = false) /\
        (forall a, In a (items h) -> In a seen).
    Proof.
      destruct (hof_run_refine ind fitness similar m batches m_pos) as [E _].
      pose proof (HInv_run m seen m_pos sim_fit) as H.
      eexists. split; [exact E|]. cbn [keys items mirror]. split; [reflexivity|].
      split; [apply desc_nth, (hi_desc _ _ _ H)|]. split; [apply (hi_len _ _ _ H)|].
      split; [apply nosim_nth, (hi_nosim _ _ _ H)|]. apply (hi_incl _ _ _ H).
    Qed.

    Theorem hof_best_of_seen_thm :
      exists h, hof_run ind fitness similar m batches = Some h /\
        forall s, In s seen ->
          (exists a, In a (items h) /\ similar s a = true) \/
          (zlen (items h) = m /\
           forall worst, py_get (items h) (-1) = Some worst -> fit_gt (fitness s) (fitness worst) = false).
    Proof.
      destruct (hof_run_refine ind fitness similar m batches m_pos) as [E _].
      pose proof (HInv_run m seen m_pos sim_fit) as H.
      eexists. split; [exact E|]. cbn [items mirror]. intros s Hs.
      destruct (hi_best _ _ _ H s Hs) as [L|[Lm Hall]]; [left; exact L|right].
      split; [exact Lm|]. intros worst Hw. rewrite fit_gt_lt. apply Hall.
      unfold seen in *. remember (fold_left (hstep m) (concat batches) []) as its eqn:Eits. clear Eits.
      assert (Hne : its <> []). { intro E0. rewrite E0 in Hw. cbv in Hw. discriminate. }
      rewrite (py_get_last its s Hne) in Hw. inversion Hw; subst.
      destruct (exists_last Hne) as (p & w & ->). rewrite last_last. apply in_or_app. right. now left.
    Qed.

    Theorem hof_all_when_room_thm :
      (forall l, nosim l -> incl l seen -> zlen l <= m) ->
      exists h, hof_run ind fitness similar m batches = Some h /\
        forall s, In s seen -> exists a, In a (items h) /\ similar s a = true.
    Proof.
      intro Hroom.
      destruct (hof_run_refine ind fitness similar m batches m_pos) as [E _].
      pose proof (HInv_run m seen m_pos sim_fit) as H.
      eexists. split; [exact E|]. cbn [items mirror].
      destruct (hi_room _ _ _ H) as [R|(l & Nl & Il & Ll)]; [exact R|].
      specialize (Hroom l Nl Il). lia.
    Qed.
  End History.
End Hof.
