(* Equivalence of programs of the draw monad (Model/C09_SeqOps.v), pointwise on the draw stream, and
   the tactic `msim` that decides it by symbolic execution.  Used by Proofs/C09_gen_equiv.v to prove that
   every definition regenerated from the source text equals the hand-written model.
   This file does not depend on the generated definitions. *)
From Coq Require Import List ZArith QArith Bool Lia ZifyBool.
From DV Require Import Base.PyList Model.C09_SeqOps Model.C09_PyRt.
Import ListNotations.
Local Open Scope Z_scope.

(* ---- pointwise equality of computations ---- *)
Definition meq {R} (m1 m2 : M R) : Prop := forall ds, m1 ds = m2 ds.

Lemma run_meq {R} (m1 m2 : M R) : meq m1 m2 -> forall ds, run m1 ds = run m2 ds.
Proof. intros H ds. unfold run. rewrite (H ds). reflexivity. Qed.

Lemma always_meq {R} (m1 m2 : M R) (Q : R -> Prop) : meq m1 m2 -> always m2 Q -> always m1 Q.
Proof. intros H Ha ds Hds. rewrite (run_meq _ _ H). exact (Ha ds Hds). Qed.

Lemma only_raises_meq {R} (m1 m2 : M R) e : meq m1 m2 -> only_raises m2 e -> only_raises m1 e.
Proof. intros H Ha ds Hds. rewrite (run_meq _ _ H). exact (Ha ds Hds). Qed.

(* ---- loops ---- *)
Lemma for_each_ext {I S} (idx : list I) (b1 b2 : I -> S -> M S) :
  (forall i s ds, b1 i s ds = b2 i s ds) ->
  forall s ds, for_each idx b1 s ds = for_each idx b2 s ds.
Proof.
  intro H. induction idx as [|i r IH]; intros s ds; cbn [for_each]; [reflexivity|].
  unfold bind. rewrite (H i s ds). destruct (b2 i s ds) as [[s' ds']|e|]; auto.
Qed.

Lemma for_each_ext3 {I S} (idx idx' : list I) (b1 b2 : I -> S -> M S) s s' ds :
  idx = idx' -> s = s' -> (forall i s ds, b1 i s ds = b2 i s ds) ->
  for_each idx b1 s ds = for_each idx' b2 s' ds.
Proof. intros -> -> H. apply for_each_ext. exact H. Qed.

Definition omap {S T} (f : S -> T) (o : outcome (S * list draw)) : outcome (T * list draw) :=
  match o with
  | Ok (x, ds) => Ok (f x, ds)
  | Raise e => Raise e
  | Mismatch => Mismatch
  end.

(* the same loop over a differently arranged state tuple *)
Lemma for_each_reshape {I S T} (f : S -> T) (idx : list I) (b1 : I -> S -> M S) (b2 : I -> T -> M T) :
  (forall i s ds, b2 i (f s) ds = omap f (b1 i s ds)) ->
  forall s ds, for_each idx b2 (f s) ds = omap f (for_each idx b1 s ds).
Proof.
  intro H. induction idx as [|i r IH]; intros s ds; cbn [for_each]; [reflexivity|].
  unfold bind. rewrite (H i s ds). destruct (b1 i s ds) as [[s' ds']|e|]; cbn [omap]; auto.
Qed.

Lemma for_each_reshape3 {I S T} (f : S -> T) (idx idx' : list I) (b1 : I -> S -> M S) (b2 : I -> T -> M T) s t ds :
  idx' = idx -> t = f s -> (forall i s ds, b2 i (f s) ds = omap f (b1 i s ds)) ->
  for_each idx' b2 t ds = omap f (for_each idx b1 s ds).
Proof. intros -> -> H. apply for_each_reshape. exact H. Qed.

Lemma for_each_map {I J S} (g : I -> J) (idx : list I) (b : J -> S -> M S) s ds :
  for_each (map g idx) b s ds = for_each idx (fun i => b (g i)) s ds.
Proof.
  revert s ds. induction idx as [|i r IH]; intros s ds; cbn [for_each map]; [reflexivity|].
  unfold bind. destruct (b (g i) s ds) as [[s' ds']|e|]; auto.
Qed.

(* ---- symbolic execution ---- *)
(* the innermost term whose value blocks the evaluation of t *)
Ltac scrut t :=
  lazymatch t with
  | match ?s with _ => _ end => scrut s
  | ?f _ => lazymatch f with
            | match ?s with _ => _ end => scrut s
            | _ => t
            end
  | _ => t
  end.

Ltac is_value t :=
  lazymatch t with
  | Ok _ => idtac
  | Raise _ => idtac
  | Mismatch => idtac
  | Some _ => idtac
  | None => idtac
  | true => idtac
  | false => idtac
  | pair _ _ => idtac
  end.

Ltac mnorm :=
  cbv beta iota zeta delta
    [bind ret raise lift getI setI swap_at swap_slices two_points pmx_init pmx_step ox_holes ox_move
     expand_bound flip_gene py_sub omap fst snd
     unmodelled val_of_bound is_sequence py_repeat py_len py_iter zip3 py_enumerate py_type_call];
  repeat rewrite for_each_map;
  cbv beta iota zeta.

Ltac split_pairs :=
  repeat match goal with
         | x : (_ * _)%type |- _ => destruct x
         end.

(* leaves: equal results, possibly up to integer arithmetic; or a combination of branch conditions that
   cannot occur (comparisons the source may have written either way round) *)
Ltac meq_leaf :=
  first [ reflexivity | lia | congruence | progress f_equal; meq_leaf ].
Ltac mclose :=
  first [ reflexivity | congruence | exfalso; lia | meq_leaf ].

(* case analysis on the blocking term; a combination of integer conditions that cannot occur is
   discarded at once (the two sides may test the same thing in different words) *)
Ltac case_on s :=
  first [ is_var s; destruct s
        | let T := type of s in
          lazymatch T with
          | bool => destruct s eqn:?; try (exfalso; lia)
          | _ => destruct s eqn:?
          end ].

Ltac replace_eq a b := replace a with b by (solve [meq_leaf]).
Ltac align_blocked s1 s2 :=
  tryif first [ constr_eq s1 s2 | is_value s2 ] then idtac
  else (try replace_eq s2 s1).

(* msim: goal  m1 ds = m2 ds.  `reshapes` is a tactic that, given the two loop terms (left, right), may
   replace the left one (used when the two state tuples are arranged differently). *)
Ltac msim_with reshape :=
  mnorm;
  first
  [ (* the right-hand side (the model) is blocked on a boolean test: split on it first, so that a test the source
       writes the other way round (if not c / if c with the branches exchanged, an early return turned into a guarded
       block) meets its counterpart; impossible combinations are discarded by case_on *)
    lazymatch goal with
    | |- _ = ?r =>
        let sr := scrut r in
        lazymatch type of sr with
        | bool => tryif is_value sr then fail else case_on sr
        end
    end; msim_with reshape
  | msim_body reshape ]
with msim_body reshape :=
  lazymatch goal with
  | |- ?l = ?r =>
      let s := scrut l in
      tryif is_value s then
        (let s' := scrut r in
         tryif is_value s' then mclose
         else (case_on s'; msim_with reshape))
      else
        lazymatch s with
        | for_each _ _ _ _ =>
            let s' := scrut r in
            lazymatch s' with
            | for_each _ _ _ _ =>
                first
                  [ constr_eq s s'
                  | replace s with s'
                      by (apply for_each_ext3;
                          [ mclose | mclose | intros; split_pairs; msim_with reshape ])
                  | reshape s s' ];
                let s'' := scrut r in
                case_on s''; msim_with reshape
            | _ => case_on s'; msim_with reshape
            end
        | _ =>
            (* the right-hand side may be blocked on the same term written differently (i + b + 1 / b + i + 1) *)
            let s' := scrut r in
            align_blocked s s';
            case_on s; msim_with reshape
        end
  end.

Ltac no_reshape s s' := fail.
Ltac msim := msim_with no_reshape.

(* reshape with an explicit rearrangement f of the right-hand state into the left-hand state *)
Ltac reshape_by f s s' :=
  replace s with (omap f s')
    by (symmetry; apply (for_each_reshape3 f);
        [ mclose | reflexivity | intros; split_pairs; msim_with no_reshape ]).
