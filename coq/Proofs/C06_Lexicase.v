(* C06 proofs, part 4: selLexicase, selEpsilonLexicase, selAutomaticEpsilonLexicase. *)
From Coq Require Import List Bool Arith Permutation QArith Qabs Lia Lqa.
From DV Require Import Base.PyList Base.C06_Py Model.C06_Select Proofs.C06_Sort Proofs.C06_Basic.
Import ListNotations.

(* ---------- max / min of numbers ---------- *)
Lemma qmax_fold_ge r : forall b, b <= fold_left (fun b y => if Qltb b y then y else b) r b /\
  forall v, In v r -> v <= fold_left (fun b y => if Qltb b y then y else b) r b.
Proof.
  induction r as [|y r IH]; intro b; cbn [fold_left].
  - split; [lra|intros v []].
  - destruct (Qltb b y) eqn:E; qbool; destruct (IH (if true then y else b)) as [H1 H2];
      destruct (IH b) as [H3 H4]; cbn in *.
    + split; [lra|]. intros v [<-|Hv]; [exact H1|apply H2; exact Hv].
    + split; [exact H3|]. intros v [<-|Hv]; [lra|apply H4; exact Hv].
Qed.

Lemma qmax_ge l v : In v l -> v <= qmax l.
Proof.
  destruct l as [|x r]; [intros []|]. unfold qmax. intros [<-|H]; [apply (proj1 (qmax_fold_ge r x))|apply (proj2 (qmax_fold_ge r x)); exact H].
Qed.

Lemma qmax_fold_in r : forall b, let m := fold_left (fun b y => if Qltb b y then y else b) r b in
  m = b \/ In m r.
Proof.
  induction r as [|y r IH]; intro b; cbn [fold_left]; [left; reflexivity|].
  destruct (Qltb b y).
  - destruct (IH y) as [H|H]; [right; left; symmetry; exact H|right; right; exact H].
  - destruct (IH b) as [H|H]; [left; exact H|right; right; exact H].
Qed.

Lemma qmax_in l : l <> [] -> In (qmax l) l.
Proof.
  destruct l as [|x r]; [contradiction|]. intros _. unfold qmax.
  destruct (qmax_fold_in r x) as [H|H]; [left; symmetry; exact H|right; exact H].
Qed.

Lemma qmin_fold_le r : forall b, fold_left (fun b y => if Qltb y b then y else b) r b <= b /\
  forall v, In v r -> fold_left (fun b y => if Qltb y b then y else b) r b <= v.
Proof.
  induction r as [|y r IH]; intro b; cbn [fold_left].
  - split; [lra|intros v []].
  - destruct (Qltb y b) eqn:E; qbool; destruct (IH y) as [H1 H2]; destruct (IH b) as [H3 H4].
    + split; [lra|]. intros v [<-|Hv]; [exact H1|apply H2; exact Hv].
    + split; [exact H3|]. intros v [<-|Hv]; [lra|apply H4; exact Hv].
Qed.

Lemma qmin_le l v : In v l -> qmin l <= v.
Proof.
  destruct l as [|x r]; [intros []|]. unfold qmin. intros [<-|H]; [apply (proj1 (qmin_fold_le r x))|apply (proj2 (qmin_fold_le r x)); exact H].
Qed.

Lemma qmin_fold_in r : forall b, let m := fold_left (fun b y => if Qltb y b then y else b) r b in
  m = b \/ In m r.
Proof.
  induction r as [|y r IH]; intro b; cbn [fold_left]; [left; reflexivity|].
  destruct (Qltb y b).
  - destruct (IH y) as [H|H]; [right; left; symmetry; exact H|right; right; exact H].
  - destruct (IH b) as [H|H]; [left; exact H|right; right; exact H].
Qed.

Lemma qmin_in l : l <> [] -> In (qmin l) l.
Proof.
  destruct l as [|x r]; [contradiction|]. intros _. unfold qmin.
  destruct (qmin_fold_in r x) as [H|H]; [left; symmetry; exact H|right; exact H].
Qed.

(* ---------- case-wise comparison of two individuals ---------- *)
Section Lex.
  Variable w : list Q.

  (* y is at least as good as x on case c *)
  Definition not_worse (c : nat) (y x : ind) : Prop :=
    if maximised w c then val w x c <= val w y c else val w y c <= val w x c.
  (* y is better than x on case c by more than tol *)
  Definition beats_by (c : nat) (tol : Q) (y x : ind) : Prop :=
    if maximised w c then val w x c + tol < val w y c else val w y c + tol < val w x c.
  Definition better (c : nat) (y x : ind) : Prop := beats_by c 0 y x.

  (* y dominates x case-by-case over the cases 0..m-1 *)
  Definition case_dominates (m : nat) (y x : ind) : Prop :=
    (forall c, (c < m)%nat -> not_worse c y x) /\ exists c, (c < m)%nat /\ better c y x.
  (* ... and is better by more than tol on some case *)
  Definition case_dominates_beyond (m : nat) (tol : Q) (y x : ind) : Prop :=
    (forall c, (c < m)%nat -> not_worse c y x) /\ exists c, (c < m)%nat /\ beats_by c tol y x.

  Lemma beats_by_irrefl c tol x : 0 <= tol -> ~ beats_by c tol x x.
  Proof. unfold beats_by. destruct (maximised w c); lra. Qed.

  (* ---------- abstract filtering step ---------- *)
  Section Step.
    Variable step : nat -> list ind -> list ind.
    Variable tolf : nat -> list ind -> Q.
    Hypothesis step_sub : forall c cands x, In x (step c cands) -> In x cands.
    Hypothesis step_up : forall c cands x y,
      In x (step c cands) -> In y cands -> not_worse c y x -> In y (step c cands).
    Hypothesis step_tol : forall c cands x y,
      In x (step c cands) -> In y cands -> ~ beats_by c (tolf c cands) y x.

    Lemma lex_filter_sub cases : forall cands x, In x (lex_filter step cases cands) -> In x cands.
    Proof.
      induction cases as [|c cs IH]; intros cands x H; cbn [lex_filter] in H; [exact H|].
      destruct (Nat.leb (length cands) 1); [exact H|]. eapply step_sub, IH, H.
    Qed.

    Lemma two_in_short {A} (l : list A) a b : (length l <= 1)%nat -> In a l -> In b l -> a = b.
    Proof.
      destruct l as [|x [|y l]]; cbn; intros L Ha Hb; try lia; try contradiction.
      destruct Ha as [<-|[]], Hb as [<-|[]]. reflexivity.
    Qed.

    (* eps_survivor: at every considered case the survivor is within the tolerance of the best
       among the candidates alive at that case *)
    Fixpoint survivor (x : ind) (cases : list nat) (cands : list ind) : Prop :=
      match cases with
      | [] => In x cands
      | c :: cs =>
          if Nat.leb (length cands) 1 then In x cands
          else In x cands /\ (forall y, In y cands -> ~ beats_by c (tolf c cands) y x) /\
               survivor x cs (step c cands)
      end.

    Lemma lex_filter_survivor cases : forall cands x,
      In x (lex_filter step cases cands) -> survivor x cases cands.
    Proof.
      induction cases as [|c cs IH]; intros cands x H; cbn [lex_filter survivor] in *; [exact H|].
      destruct (Nat.leb (length cands) 1); [exact H|].
      pose proof (lex_filter_sub _ _ _ H) as Hs. repeat split.
      - eapply step_sub; eauto.
      - intros y Hy. eapply step_tol; eauto.
      - apply IH; exact H.
    Qed.
  End Step.

  (* a candidate that is nowhere worse than a survivor survives with it, and with a constant
     tolerance it is nowhere better by more than the tolerance *)
  Section StepConst.
    Variable step : nat -> list ind -> list ind.
    Variable tol : Q.
    Hypothesis step_sub : forall c cands x, In x (step c cands) -> In x cands.
    Hypothesis step_up : forall c cands x y,
      In x (step c cands) -> In y cands -> not_worse c y x -> In y (step c cands).
    Hypothesis step_tol : forall c cands x y,
      In x (step c cands) -> In y cands -> ~ beats_by c tol y x.

    Lemma lex_filter_joint cases : forall cands x y,
      In x (lex_filter step cases cands) -> In y cands ->
      (forall c, In c cases -> not_worse c y x) ->
      In y (lex_filter step cases cands) /\ (y = x \/ forall c, In c cases -> ~ beats_by c tol y x).
    Proof.
      induction cases as [|c cs IH]; intros cands x y Hx Hy NW; cbn [lex_filter] in *.
      - split; [exact Hy|]. right. intros c [].
      - destruct (Nat.leb (length cands) 1) eqn:E.
        + apply Nat.leb_le in E. split; [exact Hy|]. left. eapply two_in_short; eauto.
        + pose proof (lex_filter_sub step step_sub _ _ _ Hx) as Hxs.
          assert (Hys : In y (step c cands)).
          { eapply step_up; eauto. apply NW. left; reflexivity. }
          destruct (IH _ _ _ Hx Hys) as [G1 G2]; [intros c' Hc'; apply NW; right; exact Hc'|].
          split; [exact G1|]. destruct G2 as [->|G2]; [left; reflexivity|]. right.
          intros c' [<-|Hc']; [eapply step_tol; eauto|apply G2; exact Hc'].
    Qed.
  End StepConst.

  (* ---------- the three concrete steps ---------- *)
  Lemma val_in_map c (cands : list ind) y : In y cands -> In (val w y c) (map (fun x => val w x c) cands).
  Proof. intro H. apply in_map_iff. exists y. auto. Qed.

  Lemma step_eps_sub eps c cands x : In x (step_eps eps w c cands) -> In x cands.
  Proof. unfold step_eps. destruct (maximised w c); intro H; apply filter_In in H; tauto. Qed.

  Lemma step_eps_up eps c cands x y :
    In x (step_eps eps w c cands) -> In y cands -> not_worse c y x -> In y (step_eps eps w c cands).
  Proof.
    unfold step_eps, not_worse. destruct (maximised w c); intros Hx Hy NW;
      apply filter_In in Hx as [_ Hx]; apply filter_In; (split; [exact Hy|]); qbool; lra.
  Qed.

  Lemma step_eps_tol eps c cands x y :
    In x (step_eps eps w c cands) -> In y cands -> ~ beats_by c eps y x.
  Proof.
    unfold step_eps, beats_by. destruct (maximised w c); intros Hx Hy;
      apply filter_In in Hx as [_ Hx]; qbool.
    - pose proof (qmax_ge _ _ (val_in_map c cands y Hy)). lra.
    - pose proof (qmin_le _ _ (val_in_map c cands y Hy)). lra.
  Qed.

  Lemma step_plain_sub c cands x : In x (step_plain w c cands) -> In x cands.
  Proof. unfold step_plain. intro H; apply filter_In in H; tauto. Qed.

  Lemma step_plain_up c cands x y :
    In x (step_plain w c cands) -> In y cands -> not_worse c y x -> In y (step_plain w c cands).
  Proof.
    unfold step_plain, not_worse. intros Hx Hy NW. apply filter_In in Hx as [_ Hx].
    apply filter_In. split; [exact Hy|]. qbool.
    destruct (maximised w c).
    - pose proof (qmax_ge _ _ (val_in_map c cands y Hy)). lra.
    - pose proof (qmin_le _ _ (val_in_map c cands y Hy)). lra.
  Qed.

  Lemma step_plain_tol c cands x y :
    In x (step_plain w c cands) -> In y cands -> ~ beats_by c 0 y x.
  Proof.
    unfold step_plain, beats_by. intros Hx Hy. apply filter_In in Hx as [_ Hx]. qbool.
    destruct (maximised w c).
    - pose proof (qmax_ge _ _ (val_in_map c cands y Hy)). lra.
    - pose proof (qmin_le _ _ (val_in_map c cands y Hy)). lra.
  Qed.

  (* epsilon = 0 is plain lexicase *)
  Lemma step_eps0_plain eps c cands : eps == 0 -> step_eps eps w c cands = step_plain w c cands.
  Proof.
    intro E0. unfold step_eps, step_plain. destruct (maximised w c); apply filter_ext_in; intros x Hx.
    - pose proof (qmax_ge _ _ (val_in_map c cands x Hx)).
      destruct (Qeq_bool _ _) eqn:E1, (Qle_bool _ _) eqn:E2; qbool; try reflexivity; exfalso; lra.
    - pose proof (qmin_le _ _ (val_in_map c cands x Hx)).
      destruct (Qeq_bool _ _) eqn:E1, (Qle_bool _ _) eqn:E2; qbool; try reflexivity; exfalso; lra.
  Qed.

  Lemma lex_filter_ext step step' cases :
    (forall c cands, step c cands = step' c cands) ->
    forall cands, lex_filter step cases cands = lex_filter step' cases cands.
  Proof.
    intro H. induction cases as [|c cs IH]; intro cands; cbn [lex_filter]; [reflexivity|].
    destruct (Nat.leb (length cands) 1); [reflexivity|]. rewrite H. apply IH.
  Qed.

  Lemma repeatM_ext {A} (b b' : M A) k : (forall ds, b ds = b' ds) -> forall ds, repeatM k b ds = repeatM k b' ds.
  Proof.
    intro H. induction k as [|k IH]; intro ds; cbn [repeatM]; [reflexivity|].
    unfold bind. rewrite H. destruct (b' ds); try reflexivity. rewrite IH. reflexivity.
  Qed.

  Lemma lexicase_gen_ext step step' inds k ds :
    (forall c cands, step c cands = step' c cands) ->
    lexicase_gen step w inds k ds = lexicase_gen step' w inds k ds.
  Proof.
    intro H. unfold lexicase_gen. apply repeatM_ext. intro d. destruct inds as [|x0 r]; [reflexivity|].
    unfold bind. destruct (shuffle _ d); try reflexivity. rewrite (lex_filter_ext _ _ _ H). reflexivity.
  Qed.

  Lemma selEpsilonLexicase_eps0 inds k eps ds :
    eps == 0 -> selEpsilonLexicase w inds k eps ds = selLexicase w inds k ds.
  Proof. intro E. unfold selEpsilonLexicase, selLexicase. apply lexicase_gen_ext. intros; apply step_eps0_plain; exact E. Qed.

  (* ---------- the shuffled case list ---------- *)
  Lemma is_perm_covers p m c : is_perm p m = true -> (c < m)%nat -> In c (pick (seq 0 m) p).
  Proof.
    unfold is_perm. intros H Hc. apply andb_prop in H as [_ H].
    rewrite forallb_forall in H. specialize (H c ltac:(apply in_seq; lia)).
    apply existsb_exists in H as (i & Hi & E). apply Nat.eqb_eq in E. subst i.
    unfold pick. apply in_flat_map. exists c. split; [exact Hi|].
    assert (N : nth_error (seq 0 m) c = Some c).
    { rewrite (nth_error_nth' _ 0%nat) by (rewrite seq_length; exact Hc). rewrite seq_nth by exact Hc. reflexivity. }
    rewrite N. left; reflexivity.
  Qed.

  Lemma shuffle_Ok {A} (l : list A) ds l' rest :
    shuffle l ds = Ok l' rest -> exists p, ds = DShuffle p :: rest /\ is_perm p (length l) = true /\ l' = pick l p.
  Proof.
    unfold shuffle. destruct ds as [|[n i|u|p|n idx] r]; try discriminate.
    destruct (is_perm p (length l)) eqn:E; [|discriminate]. intro H; inversion H; subst. eauto.
  Qed.

  Lemma shuffle_no_raise {A} (l : list A) ds e : shuffle l ds <> Raise e.
  Proof.
    unfold shuffle. destruct ds as [|[n i|u|p|n idx] r]; try discriminate.
    destruct (is_perm p (length l)); discriminate.
  Qed.

  (* one selection of a lexicase operator: the cases in shuffled order, the survivors, the winner *)
  Definition covers (cases : list nat) : Prop := forall c, In c cases <-> (c < length w)%nat.

  Definition lex_round (step : nat -> list ind -> list ind) (inds : list ind) (win : ind) : Prop :=
    exists cases, covers cases /\ In win (lex_filter step cases inds).

  Lemma pick_In {A} (l : list A) p x : In x (pick l p) -> In x l.
  Proof.
    unfold pick. intro H. apply in_flat_map in H as (i & _ & H).
    destruct (nth_error l i) eqn:E; cbn in H; [|contradiction]. destruct H as [<-|[]].
    eapply nth_error_In; eauto.
  Qed.

  Definition uniform (inds : list ind) : Prop := Forall (fun x => length (wv x) = length w) inds.

  Lemma values_length x : length (wv x) = length w -> length (values w x) = length w.
  Proof. intro H. unfold values. rewrite map2_length, H. apply Nat.min_id. Qed.

  Lemma lexicase_gen_rounds step inds k ds out rest :
    uniform inds -> lexicase_gen step w inds k ds = Ok out rest ->
    length out = k /\ Forall (lex_round step inds) out.
  Proof.
    intros U. unfold lexicase_gen. apply repeatM_Forall. intros d x d' H.
    destruct inds as [|x0 r]; [discriminate|].
    bind_inv H as cases d1 Hs Hc. apply shuffle_Ok in Hs as (p & -> & P & ->).
    apply choice_In in Hc. exists (pick (seq 0 (length (values w x0))) p). split; [|exact Hc].
    rewrite seq_length in P.
    inversion U; subst. rewrite (values_length x0) in * by assumption.
    intro c. split.
    - intro H. apply pick_In in H. apply in_seq in H. lia.
    - intro Hlt. apply is_perm_covers; assumption.
  Qed.

  (* ---------- theorems ---------- *)
  Lemma round_not_dominated_beyond step tol inds win :
    (forall c cands x, In x (step c cands) -> In x cands) ->
    (forall c cands x y, In x (step c cands) -> In y cands -> not_worse c y x -> In y (step c cands)) ->
    (forall c cands x y, In x (step c cands) -> In y cands -> ~ beats_by c tol y x) ->
    0 <= tol ->
    lex_round step inds win ->
    In win inds /\ forall y, In y inds -> ~ case_dominates_beyond (length w) tol y win.
  Proof.
    intros S1 S2 S3 Ht (cases & Cov & Hw). split; [eapply lex_filter_sub; eauto|].
    intros y Hy [NW (c & Hc & B)].
    destruct (lex_filter_joint step tol S1 S2 S3 cases inds win y Hw Hy) as [_ [->|G]].
    - intros c' Hc'. apply NW. apply Cov. exact Hc'.
    - eapply beats_by_irrefl; eauto.
    - apply (G c); [apply Cov; exact Hc|exact B].
  Qed.

  Lemma selLexicase_undominated inds k ds out rest :
    uniform inds -> selLexicase w inds k ds = Ok out rest ->
    length out = k /\
    Forall (fun win => In win inds /\ forall y, In y inds -> ~ case_dominates (length w) y win) out.
  Proof.
    intros U H. apply (lexicase_gen_rounds _ _ _ _ _ _ U) in H as [L F]. split; [exact L|].
    eapply Forall_impl; [|exact F]. intros win R.
    apply (round_not_dominated_beyond (step_plain w) 0);
      [apply step_plain_sub|apply step_plain_up|apply step_plain_tol|lra|exact R].
  Qed.

  Lemma selEpsilonLexicase_partial inds k eps ds out rest :
    uniform inds -> 0 <= eps -> selEpsilonLexicase w inds k eps ds = Ok out rest ->
    length out = k /\
    Forall (fun win => In win inds /\ forall y, In y inds -> ~ case_dominates_beyond (length w) eps y win) out.
  Proof.
    intros U He H. apply (lexicase_gen_rounds _ _ _ _ _ _ U) in H as [L F]. split; [exact L|].
    eapply Forall_impl; [|exact F]. intros win R.
    apply (round_not_dominated_beyond (step_eps eps w) eps);
      [apply step_eps_sub|apply step_eps_up|apply step_eps_tol|exact He|exact R].
  Qed.

  (* eps_survivor for the three operators *)
  Definition survivor_round (step : nat -> list ind -> list ind) (tolf : nat -> list ind -> Q)
             (inds : list ind) (win : ind) : Prop :=
    exists cases, covers cases /\ survivor step tolf win cases inds.

  Lemma lexicase_gen_survivor step tolf inds k ds out rest :
    (forall c cands x, In x (step c cands) -> In x cands) ->
    (forall c cands x y, In x (step c cands) -> In y cands -> ~ beats_by c (tolf c cands) y x) ->
    uniform inds -> lexicase_gen step w inds k ds = Ok out rest ->
    length out = k /\ Forall (survivor_round step tolf inds) out.
  Proof.
    intros S1 S3 U H. apply (lexicase_gen_rounds _ _ _ _ _ _ U) in H as [L F]. split; [exact L|].
    eapply Forall_impl; [|exact F]. intros win (cases & Cov & Hw). exists cases. split; [exact Cov|].
    apply lex_filter_survivor; assumption.
  Qed.

  Definition mad_of (c : nat) (cands : list ind) : Q := mad (map (fun x => val w x c) cands).

  Lemma step_auto_sub c cands x : In x (step_auto w c cands) -> In x cands.
  Proof. apply step_eps_sub. Qed.
  Lemma step_auto_tol c cands x y :
    In x (step_auto w c cands) -> In y cands -> ~ beats_by c (mad_of c cands) y x.
  Proof. apply step_eps_tol. Qed.
End Lex.
