(* The float-level clamp theorems (Proofs/C10_FloatClamp.v), transferred to the definitions regenerated from the
   source (coq/Gen/C10_gen.v) at the binary64 instance, through the equivalences of Proofs/C10_gen_equiv.v. *)
From Coq Require Import List Bool Floats.
From DV Require Import Model.C10_RealOps Model.C10_PyRt Proofs.C10_FloatClamp Gen.C10_gen Proofs.C10_gen_equiv.
Import ListNotations.
Local Open Scope float_scope.

Lemma gen_float_poly_clamped : forall eta low up indpb ind s out s',
  mutPolynomialBounded FOps ind eta low up indpb s = Ok (out, s') ->
  length out = length ind /\
  forall i, (i < length ind)%nat ->
    let xl := bound_at low i in let xu := bound_at up i in
    nth i out 0 = nth i ind 0 \/
    ((exists c, nth i out 0 = clip FOps c xl xu) /\ ((xl <=? xu) = true -> clamped xl xu (nth i out 0))).
Proof. intros *. rewrite gen_mutPolynomialBounded. apply mut_poly_float. Qed.

Lemma gen_float_sbx_bounded_clamped : forall eta low up ind1 ind2 s c1 c2 s',
  cxSimulatedBinaryBounded FOps ind1 ind2 eta low up s = Ok ((c1, c2), s') ->
  let size := Nat.min (length ind1) (length ind2) in
  length c1 = length ind1 /\ length c2 = length ind2 /\
  (forall i, (size <= i)%nat -> nth i c1 0 = nth i ind1 0 /\ nth i c2 0 = nth i ind2 0) /\
  (forall i, (i < size)%nat ->
     let xl := bound_at low i in let xu := bound_at up i in
     (nth i c1 0 = nth i ind1 0 /\ nth i c2 0 = nth i ind2 0) \/
     ((exists d, nth i c1 0 = clip FOps d xl xu) /\ (exists d, nth i c2 0 = clip FOps d xl xu) /\
      ((xl <=? xu) = true -> clamped xl xu (nth i c1 0) /\ clamped xl xu (nth i c2 0)))).
Proof. intros *. rewrite gen_cxSimulatedBinaryBounded. apply cx_sbx_bounded_float. Qed.
