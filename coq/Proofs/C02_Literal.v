(* The index-based transcription (Model/C02_Literal.v) computes the same function as the structurally
   recursive model (Model/C02_Variation.v): var_and_lit = var_and, var_or_lit = var_or. *)
From Coq Require Import List ZArith Bool Arith Lia.
From DV Require Import Base.PyList Model.C02_Variation Model.C02_Literal Proofs.C02_Variation.
Import ListNotations.
Local Open Scope Z_scope.

(* ---- Python indexing at the end of a known prefix ---- *)
Lemma py_get_app {A} (pre : list A) x r : py_get (pre ++ x :: r) (Z.of_nat (length pre)) = Some x.
Proof.
  unfold py_get, zlen. rewrite app_length. cbn [length].
  assert (H0 : (Z.of_nat (length pre) <? 0) = false) by (apply Z.ltb_ge; lia).
  assert (H1 : (Z.of_nat (length pre + S (length r)) <=? Z.of_nat (length pre)) = false) by (apply Z.leb_gt; lia).
  rewrite H0. cbv iota. rewrite H0, H1. cbn [orb]. rewrite Nat2Z.id. rewrite nth_error_app2 by lia.
  now rewrite Nat.sub_diag.
Qed.

Lemma set_nth_app {A} (pre : list A) x r v : set_nth (pre ++ x :: r) (length pre) v = pre ++ v :: r.
Proof. induction pre as [|p pre IH]; cbn; [reflexivity|now rewrite IH]. Qed.

Lemma py_set_app {A} (pre : list A) x r v :
  py_set (pre ++ x :: r) (Z.of_nat (length pre)) v = Some (pre ++ v :: r).
Proof.
  unfold py_set, zlen. rewrite app_length. cbn [length].
  assert (H0 : (Z.of_nat (length pre) <? 0) = false) by (apply Z.ltb_ge; lia).
  assert (H1 : (Z.of_nat (length pre + S (length r)) <=? Z.of_nat (length pre)) = false) by (apply Z.leb_gt; lia).
  rewrite H0. cbv iota. rewrite H0, H1. cbn [orb]. rewrite Nat2Z.id. now rewrite set_nth_app.
Qed.

Lemma py_get_app1 {A} (pre : list A) x y r :
  py_get (pre ++ x :: y :: r) (Z.of_nat (length pre) + 1) = Some y.
Proof.
  replace (pre ++ x :: y :: r) with ((pre ++ [x]) ++ y :: r) by (now rewrite <- app_assoc).
  replace (Z.of_nat (length pre) + 1) with (Z.of_nat (length (pre ++ [x]))) by (rewrite app_length; cbn; lia).
  apply py_get_app.
Qed.

Lemma py_set_app1 {A} (pre : list A) x y r v :
  py_set (pre ++ x :: y :: r) (Z.of_nat (length pre) + 1) v = Some (pre ++ x :: v :: r).
Proof.
  replace (pre ++ x :: y :: r) with ((pre ++ [x]) ++ y :: r) by (now rewrite <- app_assoc).
  replace (Z.of_nat (length pre) + 1) with (Z.of_nat (length (pre ++ [x]))) by (rewrite app_length; cbn; lia).
  rewrite py_set_app. now rewrite <- app_assoc.
Qed.

(* ---- the two ranges ---- *)
Lemma div2_double_le n : (2 * Z.of_nat (Nat.div2 n) <= Z.of_nat n)%Z /\ (Z.of_nat n <= 2 * Z.of_nat (Nat.div2 n) + 1)%Z.
Proof.
  pose proof (Nat.div2_odd n) as H. destruct (Nat.odd n); cbn [Nat.b2n] in H; lia.
Qed.

Lemma range_pairs n :
  py_range3 1 (Z.of_nat n) 2 = map (fun k => 1 + Z.of_nat k * 2) (seq 0 (Nat.div2 n)).
Proof.
  unfold py_range3. f_equal. f_equal. unfold range_count. cbn [Z.ltb Z.compare].
  destruct (div2_double_le n) as [A B].
  destruct (1 <? Z.of_nat n) eqn:E.
  - apply Z.ltb_lt in E.
    assert (Hq : (Z.of_nat n - 1 - 1) / 2 + 1 = Z.of_nat (Nat.div2 n)).
    { assert (Hd : (Z.of_nat n - 2) / 2 = Z.of_nat (Nat.div2 n) - 1).
      { symmetry. apply (Z.div_unique _ 2 _ (Z.of_nat n - 2 - 2 * (Z.of_nat (Nat.div2 n) - 1))); lia. }
      replace (Z.of_nat n - 1 - 1) with (Z.of_nat n - 2) by lia. lia. }
    rewrite Hq. apply Nat2Z.id.
  - apply Z.ltb_ge in E. assert (Nat.div2 n = 0%nat) by lia. rewrite H. reflexivity.
Qed.

Lemma range_all n : py_range (Z.of_nat n) = map Z.of_nat (seq 0 n).
Proof.
  unfold py_range, py_range3, range_count. cbn [Z.ltb Z.compare].
  destruct (0 <? Z.of_nat n) eqn:E.
  - replace ((Z.of_nat n - 0 - 1) / 1 + 1) with (Z.of_nat n) by (rewrite Z.div_1_r; lia).
    rewrite Nat2Z.id. apply map_ext. intros; lia.
  - apply Z.ltb_ge in E. assert (n = 0%nat) by lia. subst. reflexivity.
Qed.

Section Eq.
Variables G F T : Type.
Variables ltb leb : T -> T -> bool.
Variable add : T -> T -> T.
Variable one : T.
Variable mate_o : nat -> G * option F -> G * option F -> mate_ans G F.
Variable mut_o : nat -> G * option F -> mut_ans G F.
Notation st := (st G F T).

Lemma cx_fold_err cxpb l (s : st) e : fold_left (cx_body ltb mate_o cxpb) l (s, inl e) = (s, inl e).
Proof. induction l; cbn; auto. Qed.

Lemma mut_fold_err mutpb l (s : st) e : fold_left (mut_body ltb mut_o mutpb) l (s, inl e) = (s, inl e).
Proof. induction l; cbn; auto. Qed.

Definition lift (pre : list nat) (r : st * (exn + list nat)) : st * (exn + list nat) :=
  match r with (s', inr l') => (s', inr (pre ++ l')) | (s', inl e) => (s', inl e) end.

Lemma cx_fold cxpb : forall l pre (s : st),
  fold_left (cx_body ltb mate_o cxpb)
            (map (fun k => Z.of_nat (length pre) + 1 + Z.of_nat k * 2) (seq 0 (Nat.div2 (length l))))
            (s, inr (pre ++ l))
  = lift pre (mate_loop ltb mate_o cxpb s l).
Proof.
  induction l as [|a|a b r IH] using list_pair_ind; intros pre s.
  - reflexivity.
  - reflexivity.
  - cbn [length Nat.div2 seq map fold_left mate_loop].
    rewrite <- seq_shift, map_map.
    assert (Hmap : forall s0 off,
      fold_left (cx_body ltb mate_o cxpb)
        (map (fun k => Z.of_nat (length pre) + 1 + Z.of_nat (S k) * 2) (seq 0 (Nat.div2 (length r)))) (s0, inr ((pre ++ off) ++ r))
      = fold_left (cx_body ltb mate_o cxpb)
        (map (fun k => Z.of_nat (length (pre ++ off)) + 1 + Z.of_nat k * 2) (seq 0 (Nat.div2 (length r)))) (s0, inr ((pre ++ off) ++ r))
      -> length off = 2%nat -> True) by auto.
    clear Hmap.
    assert (Hidx : forall off, length off = 2%nat ->
      map (fun k => Z.of_nat (length pre) + 1 + Z.of_nat (S k) * 2) (seq 0 (Nat.div2 (length r)))
      = map (fun k => Z.of_nat (length (pre ++ off)) + 1 + Z.of_nat k * 2) (seq 0 (Nat.div2 (length r)))).
    { intros off Hl. apply map_ext. intro k. rewrite app_length, Hl. lia. }
    unfold cx_body at 2.
    destruct (next_random s) as [[u s1]|] eqn:En.
    2:{ rewrite cx_fold_err. reflexivity. }
    destruct (ltb u cxpb).
    + replace (Z.of_nat (length pre) + 1 + Z.of_nat 0 * 2 - 1) with (Z.of_nat (length pre)) by lia.
      replace (Z.of_nat (length pre) + 1 + Z.of_nat 0 * 2) with (Z.of_nat (length pre) + 1) by lia.
      rewrite py_get_app, py_get_app1.
      destruct (do_mate mate_o s1 a b) as [s2 [r1 r2]].
      rewrite py_set_app, py_set_app1, py_get_app, py_get_app1.
      rewrite (Hidx [r1; r2] eq_refl).
      replace (pre ++ r1 :: r2 :: r) with ((pre ++ [r1; r2]) ++ r) by (now rewrite <- app_assoc).
      rewrite IH.
      destruct (mate_loop ltb mate_o cxpb (do_del (do_del s2 r1) r2) r) as [s4 [e|r']]; cbn [lift]; [reflexivity|].
      now rewrite <- app_assoc.
    + rewrite (Hidx [a; b] eq_refl).
      replace (pre ++ a :: b :: r) with ((pre ++ [a; b]) ++ r) by (now rewrite <- app_assoc).
      rewrite IH.
      destruct (mate_loop ltb mate_o cxpb s1 r) as [s4 [e|r']]; cbn [lift]; [reflexivity|].
      now rewrite <- app_assoc.
Qed.

Lemma mut_fold mutpb : forall l pre (s : st),
  fold_left (mut_body ltb mut_o mutpb)
            (map (fun k => Z.of_nat (length pre) + Z.of_nat k) (seq 0 (length l)))
            (s, inr (pre ++ l))
  = lift pre (mut_loop ltb mut_o mutpb s l).
Proof.
  induction l as [|a r IH]; intros pre s.
  - cbn. now rewrite app_nil_r.
  - cbn [length seq map fold_left mut_loop].
    rewrite <- seq_shift, map_map.
    assert (Hidx : forall x : nat,
      map (fun k => Z.of_nat (length pre) + Z.of_nat (S k)) (seq 0 (length r))
      = map (fun k => Z.of_nat (length (pre ++ [x])) + Z.of_nat k) (seq 0 (length r))).
    { intros x. apply map_ext. intro k. rewrite app_length. cbn [length]. lia. }
    unfold mut_body at 2.
    destruct (next_random s) as [[u s1]|] eqn:En.
    2:{ rewrite mut_fold_err. reflexivity. }
    destruct (ltb u mutpb).
    + replace (Z.of_nat (length pre) + Z.of_nat 0) with (Z.of_nat (length pre)) by lia.
      rewrite py_get_app.
      destruct (do_mut mut_o s1 a) as [s2 r1].
      rewrite py_set_app, py_get_app.
      rewrite (Hidx r1).
      replace (pre ++ r1 :: r) with ((pre ++ [r1]) ++ r) by (now rewrite <- app_assoc).
      rewrite IH.
      destruct (mut_loop ltb mut_o mutpb (do_del s2 r1) r) as [s4 [e|r']]; cbn [lift]; [reflexivity|].
      now rewrite <- app_assoc.
    + rewrite (Hidx a).
      replace (pre ++ a :: r) with ((pre ++ [a]) ++ r) by (now rewrite <- app_assoc).
      rewrite IH.
      destruct (mut_loop ltb mut_o mutpb s1 r) as [s4 [e|r']]; cbn [lift]; [reflexivity|].
      now rewrite <- app_assoc.
Qed.

Theorem var_and_lit_eq cxpb mutpb (s : st) pop :
  var_and_lit ltb mate_o mut_o cxpb mutpb s pop = var_and ltb mate_o mut_o cxpb mutpb s pop.
Proof.
  unfold var_and_lit, var_and. destruct (clone_all s pop) as [s1 off].
  unfold zlen. rewrite range_pairs.
  assert (E1 : map (fun k => 1 + Z.of_nat k * 2) (seq 0 (Nat.div2 (length off)))
             = map (fun k => Z.of_nat 0 + 1 + Z.of_nat k * 2) (seq 0 (Nat.div2 (length off))))
    by (apply map_ext; intros; lia).
  pose proof (cx_fold cxpb off [] s1) as H1. cbn [length app] in H1.
  rewrite E1, H1. destruct (mate_loop ltb mate_o cxpb s1 off) as [s2 [e|off2]]; cbn [lift app]; [reflexivity|].
  unfold zlen. rewrite range_all.
  assert (E2 : map Z.of_nat (seq 0 (length off2))
             = map (fun k => Z.of_nat 0 + Z.of_nat k) (seq 0 (length off2)))
    by (apply map_ext; intros; lia).
  pose proof (mut_fold mutpb off2 [] s2) as H2. cbn [length app] in H2.
  rewrite E2, H2. destruct (mut_loop ltb mut_o mutpb s2 off2) as [s3 [e|off3]]; reflexivity.
Qed.

Lemma or_fold_err cxpb mutpb pop l (s : st) e :
  fold_left (or_body ltb add mate_o mut_o cxpb mutpb pop) l (s, inl e) = (s, inl e).
Proof. induction l; cbn; auto. Qed.

Lemma or_fold cxpb mutpb pop : forall n (ks : list Z) pre (s : st), length ks = n ->
  fold_left (or_body ltb add mate_o mut_o cxpb mutpb pop) ks (s, inr pre)
  = lift pre (var_or_loop ltb add mate_o mut_o cxpb mutpb pop n s).
Proof.
  induction n as [|n IH]; intros ks pre s Hl.
  - destruct ks; [|discriminate]. cbn. now rewrite app_nil_r.
  - destruct ks as [|k ks]; [discriminate|]. cbn [fold_left var_or_loop]. unfold or_body at 2.
    destruct (var_or_step ltb add mate_o mut_o cxpb mutpb pop s) as [s1 [e|o]].
    + rewrite or_fold_err. reflexivity.
    + rewrite IH by (cbn in Hl; lia).
      destruct (var_or_loop ltb add mate_o mut_o cxpb mutpb pop n s1) as [s2 [e|os]]; cbn [lift]; [reflexivity|].
      now rewrite <- app_assoc.
Qed.

Theorem var_or_lit_eq lambda_ cxpb mutpb (s : st) pop :
  var_or_lit ltb leb add one mate_o mut_o lambda_ cxpb mutpb s pop
  = var_or ltb leb add one mate_o mut_o lambda_ cxpb mutpb s pop.
Proof.
  unfold var_or_lit, var_or. destruct (leb (add cxpb mutpb) one); [|reflexivity].
  rewrite (or_fold cxpb mutpb pop (Z.to_nat lambda_) (py_range lambda_) [] s).
  - destruct (var_or_loop ltb add mate_o mut_o cxpb mutpb pop (Z.to_nat lambda_) s) as [s2 [e|os]]; reflexivity.
  - unfold py_range, py_range3. rewrite map_length, seq_length. unfold range_count. cbn [Z.ltb Z.compare].
    destruct (0 <? lambda_) eqn:E.
    + rewrite Z.div_1_r. f_equal. lia.
    + apply Z.ltb_ge in E. destruct lambda_; try reflexivity; lia.
Qed.

End Eq.
