(* Tie (T) of property C05: the C05 theorems transported to the regenerated definitions
   (coq/Gen/C05_gen.v) through the refinement lemmas of Proofs/C05_gen_equiv.v, so that every
   theorem of Props/C05_gen.v is `exact lemma`. *)
From Coq Require Import List ZArith QArith Bool Arith Lia Permutation.
From DV Require Import Base.PyList Base.C05_Sort Base.C05_List Model.C05_Nsga2 Model.C05_Spec Model.C05_CrowdSpec
  Model.C05_Full Model.C05_GenRt Proofs.C05_GenRt Proofs.C05_Spec Proofs.C05_Nsga2 Proofs.C05_QInst Proofs.C05_Crowding
  Proofs.C05_CutFront Proofs.C05_Depth Proofs.C05_Extremes Proofs.C05_FloatOrd Proofs.C05_All Proofs.C05_Final
  Proofs.C05_Compose Proofs.C05_FullClauses Gen.C05_gen Proofs.C05_gen_equiv Proofs.C05_gen_nd_equiv.
Import ListNotations.
Local Open Scope nat_scope.

Section GenProps.
  Variable o : numops.
  Notation indV := (ind (V o)).

  (* the assumption of the hand model ("attrgetter reads the attribute just written"): the last front
     holds pairwise distinct objects -- a consequence of fronts_correct *)
  Lemma last_front_nodup (pop : list indV) k fronts :
    wf_pop pop -> fronts_correct pop k fronts -> NoDup (uids (last fronts [])).
  Proof.
    intros W FC. destruct k as [|k0].
    - destruct FC as [_ ->]. constructor.
    - destruct (fronts_shape pop k0 fronts FC) as (m & init & lastf & -> & _ & P2 & _).
      rewrite last_last.
      pose proof (prefix_nodup o pop W (S m)) as N.
      eapply Permutation_NoDup in N; [|apply Permutation_sym, P2].
      unfold uids in *. rewrite map_app in N. apply nodup_app_inv in N. tauto.
  Qed.

  (* ---- the regenerated selNSGA2 with ANY two back-ends that meet the contract ---- *)
  Section Relative.
    Variables (s_std s_log : sorter o) (pop : list indV) (k : nat) (nd : nd_choice).
    Variables (t : cdtab o) (r : list indV) (t' : cdtab o).
    Hypothesis W : wf_pop pop.
    Hypothesis SOK : sorters_ok o s_std s_log nd pop k.
    Hypothesis RUN : gen_selNSGA2 o s_std s_log pop (Z.of_nat k) nd t = Some (r, t').

    Lemma gen_relative :
      exists fronts, pick_sorter o s_std s_log nd pop (Z.of_nat k) = Some fronts /\ fronts_correct pop k fronts /\
                     sel_nsga2 o fronts k = Some r /\ t' = write_fronts o t fronts.
    Proof.
      destruct (gen_sel_refines o s_std s_log pop (Z.of_nat k) nd t r t' RUN) as (fronts & PS & -> & SEL).
      exists fronts. pose proof (SOK fronts PS) as FC. rewrite Nat2Z.id in SEL.
      split; [exact PS|]. split; [exact FC|]. split; [|reflexivity].
      apply SEL. eapply last_front_nodup; eassumption.
    Qed.

    Lemma gen_size : length r = Nat.min k (length pop).
    Proof. destruct gen_relative as (f & _ & FC & SEL & _). eapply size_min; eassumption. Qed.

    Lemma gen_refs_nodup : (forall x, In x r -> In x pop) /\ NoDup (uids r).
    Proof. destruct gen_relative as (f & _ & FC & SEL & _). eapply refs_nodup; eassumption. Qed.

    Lemma gen_front_priority :
      forall x y, In x r -> In y pop -> ~ In (uid y) (uids r) -> depth pop x <= depth pop y.
    Proof. destruct gen_relative as (f & _ & FC & SEL & _). eapply front_priority; eassumption. Qed.

    Lemma gen_one_partial_front :
      exists c, forall y, In y pop ->
        (depth pop y < c -> In (uid y) (uids r)) /\ (c < depth pop y -> ~ In (uid y) (uids r)).
    Proof. destruct gen_relative as (f & _ & FC & SEL & _). eapply one_partial_front; eassumption. Qed.

    Lemma gen_all_when_k_ge_n : length pop <= k -> Permutation (uids r) (uids pop).
    Proof. destruct gen_relative as (f & _ & FC & SEL & _). eapply all_when_k_ge_n; eassumption. Qed.

    Lemma gen_rank_ordered : Sorting.Sorted.StronglySorted (fun x y => depth pop x <= depth pop y) r.
    Proof. destruct gen_relative as (f & _ & FC & SEL & _). eapply rank_ordered; eassumption. Qed.

    (* the crowding clause, on the attributes the regenerated code left behind (t'): within the last front the
       sorter returned, a kept individual's fitness.crowding_dist is not below a dropped one's *)
    Lemma gen_crowding_cut :
      forall P : D o -> Prop,
      (forall a b, P a -> P b -> dltb o a b = true -> dltb o b a = false) ->
      (forall a b c, P a -> P b -> P c -> dltb o b a = false -> dltb o c b = false -> dltb o c a = false) ->
      forall fronts, pick_sorter o s_std s_log nd pop (Z.of_nat k) = Some fronts ->
      Forall P (assign_crowding o (last fronts [])) ->
      forall x dx y dy,
        In x (last fronts []) -> In y (last fronts []) ->
        t' (uid x) = Some dx -> t' (uid y) = Some dy ->
        In (uid x) (uids r) -> ~ In (uid y) (uids r) -> dltb o dx dy = false.
    Proof.
      intros P A1 A2 fronts PS FP x dx y dy Ix Iy Tx Ty Sx Sy.
      destruct gen_relative as (f & PS' & FC & SEL & ->).
      rewrite PS in PS'. injection PS' as <-.
      pose proof (last_front_nodup pop k fronts W FC) as ND.
      (* the attributes of the last front's members are the distances just assigned *)
      assert (RD : forall z dz, In z (last fronts []) -> write_fronts o t fronts (uid z) = Some dz ->
                                In (z, dz) (combine (last fronts []) (assign_crowding o (last fronts [])))).
      { intros z dz Iz Tz.
        destruct fronts as [|f0 rest] using rev_ind; [destruct Iz|]. clear IHrest.
        rewrite last_last in *. rewrite write_fronts_snoc in Tz.
        destruct (In_nth _ _ z Iz) as (j & Lj & Ej).
        pose proof (read_after_write_nth o (dzero o) z f0 (assign_crowding o f0) (write_fronts o t rest) j ND
                      (assign_crowding_length o f0) Lj) as RW.
        rewrite Ej, Tz in RW. injection RW as ->.
        rewrite <- Ej at 1. rewrite <- combine_nth by (symmetry; apply assign_crowding_length).
        apply nth_In. rewrite combine_length, assign_crowding_length. lia. }
      eapply (crowding_cut o pop k fronts r W FC SEL P A1 A2 (last fronts []) eq_refl FP x dx y dy); auto.
    Qed.
  End Relative.

  (* ---- property C04's models of the two sorters are such back-ends ---- *)
  Lemma pick_model_sorter nd (pop : list indV) k :
    pick_sorter o (model_sorter o NdStandard) (model_sorter o NdLog) nd pop (Z.of_nat k) = nd_fronts nd pop k.
  Proof. destruct nd; unfold pick_sorter, model_sorter; rewrite ?Nat2Z.id; reflexivity. Qed.

  Lemma model_sorters_ok nd (pop : list indV) k :
    pop_ok pop -> nd_ok nd pop -> sorters_ok o (model_sorter o NdStandard) (model_sorter o NdLog) nd pop k.
  Proof.
    intros OK ND fronts PS. rewrite pick_model_sorter in PS.
    destruct (nd_fronts_correct nd pop k OK ND) as (f & E & FC). rewrite E in PS. injection PS as <-. exact FC.
  Qed.

  Lemma model_backends_refine nd (pop : list indV) k :
    backends_refine o (model_sorter o NdStandard) (model_sorter o NdLog) nd pop k.
  Proof. intros fronts PS. now rewrite pick_model_sorter in PS. Qed.

  (* ... and so is the regenerated sortNondominated (for 'standard'; the log-time sorter stays C04's model) *)
  Lemma gen_backends_refine nd (pop : list indV) k :
    backends_refine o (gen_std_sorter o) (model_sorter o NdLog) nd pop k.
  Proof.
    intros fronts PS. destruct nd; cbn [pick_sorter] in PS.
    - apply gen_std_sorter_refines. exact PS.
    - unfold model_sorter in PS. now rewrite Nat2Z.id in PS.
    - discriminate PS.
  Qed.

  Lemma refine_sorters_ok s_std s_log nd (pop : list indV) k :
    pop_ok pop -> nd_ok nd pop -> backends_refine o s_std s_log nd pop k -> sorters_ok o s_std s_log nd pop k.
  Proof.
    intros OK ND REF fronts PS. apply REF in PS.
    destruct (nd_fronts_correct nd pop k OK ND) as (f & E & FC). rewrite E in PS. injection PS as <-. exact FC.
  Qed.

  Lemma gen_sorters_ok nd (pop : list indV) k :
    pop_ok pop -> nd_ok nd pop -> sorters_ok o (gen_std_sorter o) (model_sorter o NdLog) nd pop k.
  Proof. intros OK ND. apply refine_sorters_ok; auto. apply gen_backends_refine. Qed.

  (* ---- the clauses, end to end: the regenerated selNSGA2 over back-ends that refine C04's models ---- *)
  Section Full.
    Variables (s_std s_log : sorter o) (nd : nd_choice) (pop : list indV) (k : nat).
    Variables (t : cdtab o) (r : list indV) (t' : cdtab o).
    Hypothesis OK : pop_ok pop.
    Hypothesis ND : nd_ok nd pop.
    Hypothesis REF : backends_refine o s_std s_log nd pop k.
    Hypothesis RUN : gen_selNSGA2 o s_std s_log pop (Z.of_nat k) nd t = Some (r, t').

    (* it is the end-to-end model *)
    Lemma gen_full : sel_nsga2_full o nd pop k = Some r.
    Proof.
      destruct (gen_relative _ _ pop k nd t r t' (proj1 OK) (refine_sorters_ok _ _ nd pop k OK ND REF) RUN)
        as (fronts & PS & _ & SEL & _).
      apply REF in PS. unfold sel_nsga2_full. rewrite PS. exact SEL.
    Qed.
    Let SEL := gen_full.

    Lemma gen_full_size : length r = Nat.min k (length pop).
    Proof. exact (full_size o nd pop k OK ND r SEL). Qed.
    Lemma gen_full_refs_nodup : (forall x, In x r -> In x pop) /\ NoDup (uids r).
    Proof. exact (full_refs_nodup o nd pop k OK ND r SEL). Qed.
    Lemma gen_full_front_priority :
      forall x y, In x r -> In y pop -> ~ In (uid y) (uids r) -> depth pop x <= depth pop y.
    Proof. exact (full_front_priority o nd pop k OK ND r SEL). Qed.
    Lemma gen_full_one_partial_front :
      exists c, forall y, In y pop ->
        (depth pop y < c -> In (uid y) (uids r)) /\ (c < depth pop y -> ~ In (uid y) (uids r)).
    Proof. exact (full_one_partial_front o nd pop k OK ND r SEL). Qed.
    Lemma gen_full_cut_explicit : 0 < k -> forall m, cut_at pop k m ->
      (forall x, In x r -> depth pop x <= m) /\
      (forall y, In y pop -> depth pop y < m -> In (uid y) (uids r)) /\
      (forall fronts, nd_fronts nd pop k = Some fronts ->
         forall y, In y pop -> (In (uid y) (uids (last fronts [])) <-> depth pop y = m)).
    Proof. exact (full_cut_explicit o nd pop k r OK ND SEL). Qed.
    Lemma gen_full_all_when_k_ge_n : length pop <= k -> Permutation (uids r) (uids pop).
    Proof. exact (full_all_when_k_ge_n o nd pop k OK ND r SEL). Qed.
    Lemma gen_full_rank_ordered : Sorting.Sorted.StronglySorted (fun x y => depth pop x <= depth pop y) r.
    Proof. exact (full_rank_ordered o nd pop k OK ND r SEL). Qed.
    Lemma gen_full_attributes : exists fronts, nd_fronts nd pop k = Some fronts /\ t' = write_fronts o t fronts.
    Proof.
      destruct (gen_relative _ _ pop k nd t r t' (proj1 OK) (refine_sorters_ok _ _ nd pop k OK ND REF) RUN)
        as (fronts & PS & _ & _ & E).
      apply REF in PS. eauto.
    Qed.
    Lemma gen_full_crowding_cut :
      forall P : D o -> Prop,
      (forall a b, P a -> P b -> dltb o a b = true -> dltb o b a = false) ->
      (forall a b c, P a -> P b -> P c -> dltb o b a = false -> dltb o c b = false -> dltb o c a = false) ->
      forall fronts, nd_fronts nd pop k = Some fronts ->
      Forall P (assign_crowding o (last fronts [])) ->
      forall x dx y dy,
        In x (last fronts []) -> In y (last fronts []) ->
        t' (uid x) = Some dx -> t' (uid y) = Some dy ->
        In (uid x) (uids r) -> ~ In (uid y) (uids r) -> dltb o dx dy = false.
    Proof.
      intros P A1 A2 fronts NF.
      destruct (gen_relative _ _ pop k nd t r t' (proj1 OK) (refine_sorters_ok _ _ nd pop k OK ND REF) RUN)
        as (f & PS & _ & _ & _).
      pose proof (REF f PS) as NF'. rewrite NF in NF'. injection NF' as <-.
      exact (gen_crowding_cut s_std s_log pop k nd t r t' (proj1 OK)
               (refine_sorters_ok _ _ nd pop k OK ND REF) RUN P A1 A2 fronts PS).
    Qed.
  End Full.

  (* ---- everything regenerated: selNSGA2 over the regenerated sortNondominated (nd = 'standard') ---- *)
  Section E2E.
    Variables (nd : nd_choice) (pop : list indV) (k : nat) (t : cdtab o) (r : list indV) (t' : cdtab o).
    Hypothesis OK : pop_ok pop.
    Hypothesis ND : nd_ok nd pop.
    Hypothesis RUN : gen_selNSGA2 o (gen_std_sorter o) (model_sorter o NdLog) pop (Z.of_nat k) nd t = Some (r, t').
    Let REF := gen_backends_refine nd pop k.

    Lemma gen_e2e_is_model : sel_nsga2_full o nd pop k = Some r.
    Proof. exact (gen_full _ _ nd pop k t r t' OK ND REF RUN). Qed.
    Lemma gen_e2e_size : length r = Nat.min k (length pop).
    Proof. exact (gen_full_size _ _ nd pop k t r t' OK ND REF RUN). Qed.
    Lemma gen_e2e_refs_nodup : (forall x, In x r -> In x pop) /\ NoDup (uids r).
    Proof. exact (gen_full_refs_nodup _ _ nd pop k t r t' OK ND REF RUN). Qed.
    Lemma gen_e2e_front_priority :
      forall x y, In x r -> In y pop -> ~ In (uid y) (uids r) -> depth pop x <= depth pop y.
    Proof. exact (gen_full_front_priority _ _ nd pop k t r t' OK ND REF RUN). Qed.
    Lemma gen_e2e_one_partial_front :
      exists c, forall y, In y pop ->
        (depth pop y < c -> In (uid y) (uids r)) /\ (c < depth pop y -> ~ In (uid y) (uids r)).
    Proof. exact (gen_full_one_partial_front _ _ nd pop k t r t' OK ND REF RUN). Qed.
  End E2E.

  (* ---- assignCrowdingDist: the attributes it leaves are the model's distances ---- *)
  Lemma gen_assign_written (front : list indV) t u t' :
    NoDup (uids front) -> gen_assignCrowdingDist o front t = Some (u, t') ->
    forall j, j < length front -> cd_of o t' front j = Some (nth j (assign_crowding o front) (dzero o)).
  Proof.
    intros NDp RUN j Lj. apply gen_assign_refines in RUN. subst t'.
    unfold cd_of. destruct (nth_error front j) as [x|] eqn:E; [|apply nth_error_None in E; lia].
    rewrite <- (nth_error_nth _ _ x E).
    apply read_after_write_nth; [exact NDp|apply assign_crowding_length|exact Lj].
  Qed.
End GenProps.

(* the exact-rational instance: the formula and the extremes, on the attributes the regenerated code wrote *)
Lemma gen_crowding_formula (front : list (ind Q)) t u t' (j : nat) :
  NoDup (uids front) -> gen_assignCrowdingDist q_ops front t = Some (u, t') ->
  (forall i, i < front_nobj front -> distinct_col (vcol i front)) -> j < length front ->
  exists d, cd_of q_ops t' front j = Some d /\ qinf_eq d (crowd_spec front j).
Proof.
  intros NDp RUN DC Lj. exists (nth j (assign_crowding q_ops front) Inf). split.
  - rewrite (gen_assign_written q_ops front t u t' NDp RUN j Lj). f_equal. apply nth_indep.
    rewrite assign_crowding_length. exact Lj.
  - apply crowding_formula; assumption.
Qed.

Lemma gen_crowding_extremes_inf (front : list (ind Q)) t u t' (i : nat) :
  NoDup (uids front) -> gen_assignCrowdingDist q_ops front t = Some (u, t') ->
  front <> [] -> i < front_nobj front ->
  (exists j, j < length front /\ (nth j (vcol i front) 0 == lmin (vcol i front))%Q /\ cd_of q_ops t' front j = Some Inf) /\
  (exists j, j < length front /\ (nth j (vcol i front) 0 == lmax (vcol i front))%Q /\ cd_of q_ops t' front j = Some Inf).
Proof.
  intros NDp RUN NE Li.
  destruct (crowding_extremes_inf front i NE Li) as [(j1 & L1 & E1 & I1) (j2 & L2 & E2 & I2)].
  split; [exists j1|exists j2]; (split; [assumption|split; [assumption|]]).
  - rewrite (gen_assign_written q_ops front t u t' NDp RUN j1 L1), <- I1. f_equal. apply nth_indep.
    rewrite assign_crowding_length. exact L1.
  - rewrite (gen_assign_written q_ops front t u t' NDp RUN j2 L2), <- I2. f_equal. apply nth_indep.
    rewrite assign_crowding_length. exact L2.
Qed.
