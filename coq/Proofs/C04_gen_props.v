(* The C04 theorems about the divide-and-conquer sort, transported to the REGENERATED definitions
   (coq/Gen/C04_gen.v) through the equivalences of Proofs/C04_gen_equiv.v.  Compiled on every run. *)
From Coq Require Import List ZArith Bool Permutation Lia.
From DV Require Import Base.PyTuple Base.PyList Model.C04_NDSort Model.C04_LogSort Model.C04_GenRt
  Proofs.C04_NDSort Proofs.C04_NDLoop Proofs.C04_Spec Proofs.C04_LogWrap Proofs.C04_LogRank
  Proofs.C04_LogSweep Proofs.C04_LogBase Proofs.C04_LogTop Proofs.C04_LogFuel Proofs.C04_LogFinal
  Proofs.C04_GenRtFacts Gen.C04_gen Proofs.C04_gen_equiv.
Import ListNotations.
Local Open Scope Z_scope.

Lemma gen_isDominated_dominates a b : gen_isDominated a b = nd_dom b a.
Proof. rewrite gen_isDominated_eq. apply is_dominated_nd_dom. Qed.

Lemma ne_all_of_len Mlen (l : list wvals) : (1 <= Mlen)%nat -> (forall f, In f l -> length f = Mlen) -> ne_all l.
Proof.
  intros H1 H. apply Forall_forall. intros f Hf E. specialize (H f Hf). subst f. cbn in H. lia.
Qed.

Lemma ne_all_of_ge2 (l : list wvals) : (forall f, In f l -> (2 <= length f)%nat) -> ne_all l.
Proof. intro H. apply Forall_forall. intros f Hf E. specialize (H f Hf). subst f. cbn in H. lia. Qed.

Lemma iw_ne_of_ge2 (pop : list ind) : (forall x, In x pop -> (2 <= length (iw x))%nat) -> forall x, In x pop -> iw x <> [].
Proof. intros H x Hx E. specialize (H x Hx). rewrite E in H. cbn in H. lia. Qed.

Lemma gen_sweepA_correct fs front :
  ordered2 fs -> (forall f, In f fs -> (2 <= length f)%nat) -> (forall f, In f fs -> In f (kkeys front)) ->
  A_postR (dom_pref 1) fs front (gen_sweepA fs front).
Proof. rewrite gen_sweepA_eq. apply sweepA_correct. Qed.

Lemma gen_sweepB_correct best worst front :
  sorted2 best -> sorted2 worst -> NoDup worst ->
  (forall l, In l best -> (2 <= length l)%nat) -> (forall h, In h worst -> (2 <= length h)%nat) ->
  (forall l, In l best -> ~ In l worst) -> (forall h, In h worst -> In h (kkeys front)) ->
  exists front', gen_sweepB best worst front = Some front' /\ B_postR (ge_pref 1) best worst front front'.
Proof.
  intros H1 H2 H3 H4 H5 H6 H7. exists (sweepB best worst front). split.
  - apply gen_sweepB_eq, ne_all_of_ge2, H4.
  - now apply sweepB_correct.
Qed.

Lemma gen_helperA_correct Mlen fuel m S fr fr' :
  (1 <= m)%nat -> (Datatypes.S m <= Mlen)%nat -> Apre Mlen m S fr ->
  gen_sortNDHelperA fuel S (Z.of_nat m) fr = Some fr' -> A_postR (dom_pref m) S fr fr'.
Proof.
  intros H1 H2 HA E. rewrite gen_sortNDHelperA_eq in E by (apply (ne_all_of_len Mlen); [lia|apply HA]).
  eapply helperA_correct; eassumption.
Qed.

Lemma gen_helperB_correct Mlen fuel m L H fr fr' :
  (1 <= m)%nat -> (S m <= Mlen)%nat -> Bpre Mlen L H fr ->
  gen_sortNDHelperB fuel L H (Z.of_nat m) fr = Some fr' -> B_postR (ge_pref m) L H fr fr'.
Proof.
  intros H1 H2 HB E. rewrite gen_sortNDHelperB_eq in E by (apply (ne_all_of_len Mlen); [lia|apply HB]).
  eapply helperB_correct; eassumption.
Qed.

Lemma gen_sort_log_correct pop k ffo :
  NoDup (map uid pop) -> same_len (map iw pop) -> pop <> [] ->
  (forall x, In x pop -> (2 <= length (iw x))%nat) ->
  exists r, gen_sortLogNondominated pop k ffo = Some r /\ Forall2 (@Permutation ind) (log_fronts r) (spec_sort pop k ffo).
Proof. intros H1 H2 H3 H4. rewrite gen_sortLogNondominated_eq by (assumption || apply iw_ne_of_ge2, H4). now apply sort_log_correct. Qed.

Lemma gen_sorts_agree pop k ffo :
  NoDup (map uid pop) -> same_len (map iw pop) -> pop <> [] ->
  (forall x, In x pop -> (2 <= length (iw x))%nat) ->
  exists fs r, sort_nd pop k ffo = Some fs /\ gen_sortLogNondominated pop k ffo = Some r /\
               Forall2 (@Permutation ind) (log_fronts r) fs.
Proof. intros H1 H2 H3 H4. rewrite gen_sortLogNondominated_eq by (assumption || apply iw_ne_of_ge2, H4). now apply sorts_agree. Qed.

Lemma gen_log_first_front_only pop k :
  NoDup (map uid pop) -> same_len (map iw pop) -> pop <> [] ->
  (forall x, In x pop -> (2 <= length (iw x))%nat) -> k <> 0 ->
  exists F, gen_sortLogNondominated pop k true = Some (LFlat F) /\ NoDup (map uid F) /\
            forall x, In x F <-> In x pop /\ forall y, In y pop -> idom y x = false.
Proof. intros H1 H2 H3 H4 H5. rewrite gen_sortLogNondominated_eq by (assumption || apply iw_ne_of_ge2, H4). now apply log_first_front_only. Qed.

Lemma gen_log_leading_fronts pop k :
  NoDup (map uid pop) -> same_len (map iw pop) -> pop <> [] ->
  (forall x, In x pop -> (2 <= length (iw x))%nat) -> k <> 0 ->
  exists fs j, gen_sortLogNondominated pop k false = Some (LFronts fs) /\
    (j < length (spec_fronts pop))%nat /\
    Forall2 (@Permutation ind) fs (firstn (S j) (spec_fronts pop)) /\
    (forall j', (0 < j' <= j)%nat -> ztotal (firstn j' (spec_fronts pop)) < Z.min (zlen pop) k) /\
    Z.min (zlen pop) k <= ztotal fs.
Proof. intros H1 H2 H3 H4 H5. rewrite gen_sortLogNondominated_eq by (assumption || apply iw_ne_of_ge2, H4). now apply log_leading_fronts. Qed.
