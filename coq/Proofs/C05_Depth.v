(* The peeling depth of Model/C05_Spec.v is the usual dominance depth (length of the longest
   chain of dominators): every dominator of x is strictly shallower than x, and an individual of
   depth d+1 has a dominator of depth exactly d. *)
From Coq Require Import List ZArith Bool Lia Permutation Arith.
From DV Require Import Base.Corr Base.PyList Base.C05_Sort Base.C05_List
     Model.C05_Nsga2 Model.C05_Spec Proofs.C05_Spec.
Import ListNotations.

Lemma dom_trans_aux a : forall b c, length a = length b -> length b = length c ->
  forallb (fun p => (snd p <=? fst p)%Z) (zip a b) = true ->
  forallb (fun p => (snd p <=? fst p)%Z) (zip b c) = true ->
  forallb (fun p => (snd p <=? fst p)%Z) (zip a c) = true /\
  (existsb (fun p => (snd p <? fst p)%Z) (zip a b) || existsb (fun p => (snd p <? fst p)%Z) (zip b c) = true ->
   existsb (fun p => (snd p <? fst p)%Z) (zip a c) = true).
Proof.
  induction a as [|x a IH]; intros [|y b] [|z c] L1 L2 F1 F2; cbn in *; try discriminate.
  - split; [reflexivity|intro H; exact H].
  - apply andb_true_iff in F1. destruct F1 as [G1 F1]. apply andb_true_iff in F2. destruct F2 as [G2 F2].
    apply Z.leb_le in G1. apply Z.leb_le in G2.
    destruct (IH b c) as [H1 H2]; [lia|lia|assumption|assumption|].
    split.
    + apply andb_true_iff. split; [apply Z.leb_le; lia|exact H1].
    + intro E. apply orb_true_iff.
      destruct (Z.ltb_spec z x) as [Lt|Ge]; [left; reflexivity|right].
      apply H2. apply orb_true_iff in E. apply orb_true_iff.
      destruct E as [E|E]; apply orb_true_iff in E; destruct E as [E|E].
      * apply Z.ltb_lt in E. lia.
      * left; exact E.
      * apply Z.ltb_lt in E. lia.
      * right; exact E.
Qed.

Lemma dom_trans a b c : dom a b = true -> dom b c = true -> dom a c = true.
Proof.
  unfold dom. intros H1 H2.
  apply andb_true_iff in H1. destruct H1 as [H1 E1]. apply andb_true_iff in H1. destruct H1 as [L1 F1].
  apply andb_true_iff in H2. destruct H2 as [H2 E2]. apply andb_true_iff in H2. destruct H2 as [L2 F2].
  apply Nat.eqb_eq in L1. apply Nat.eqb_eq in L2.
  destruct (dom_trans_aux a b c L1 L2 F1 F2) as [F E].
  rewrite F, E by (rewrite E1; reflexivity). rewrite !andb_true_r. apply Nat.eqb_eq. lia.
Qed.

Section Depth.
  Context {A : Type}.
  Notation indA := (ind A).

  Lemma uid_inj_in (l : list indA) x y : NoDup (uids l) -> In x l -> In y l -> uid x = uid y -> x = y.
  Proof.
    induction l as [|a l IH]; intros N Ix Iy E; [contradiction|].
    cbn in N. inversion N as [|? ? Na N']; subst.
    destruct Ix as [<-|Ix], Iy as [<-|Iy].
    - reflexivity.
    - exfalso. apply Na. rewrite E. apply in_map, Iy.
    - exfalso. apply Na. rewrite <- E. apply in_map, Ix.
    - apply IH; assumption.
  Qed.

  Lemma nodup_uids_filter (p : indA -> bool) l : NoDup (uids l) -> NoDup (uids (filter p l)).
  Proof.
    induction l as [|a l IH]; intro N; [constructor|]. cbn in N. inversion N as [|? ? Na N']; subst.
    cbn. destruct (p a); [|apply IH, N']. cbn. constructor; [|apply IH, N'].
    intro I. apply Na. unfold uids in *. apply in_map_iff in I. destruct I as [x [E Ix]].
    apply filter_In in Ix. rewrite <- E. apply in_map. tauto.
  Qed.

  Lemma dominated_in_spec (rem : list indA) x :
    dominated_in rem x = true <-> exists y, In y rem /\ dom (wv y) (wv x) = true.
  Proof. unfold dominated_in. apply existsb_exists. Qed.

  Lemma max_dominator (rem : list indA) x :
    dominated_in rem x = true ->
    exists z, In z rem /\ dom (wv z) (wv x) = true /\ dominated_in rem z = false.
  Proof.
    intro H. apply dominated_in_spec in H. destruct H as [y [Iy Dy]].
    set (doms := filter (fun y => dom (wv y) (wv x)) rem).
    assert (N : doms <> []).
    { intro E. assert (I : In y doms) by (apply filter_In; split; assumption). rewrite E in I. contradiction. }
    destruct (max_elem (fun z => zsum (wv z)) doms N) as [z [Iz Hz]].
    apply filter_In in Iz. destruct Iz as [Iz Dz].
    exists z. split; [exact Iz|split; [exact Dz|]].
    destruct (dominated_in rem z) eqn:E; [|reflexivity]. exfalso.
    apply dominated_in_spec in E. destruct E as [z' [Iz' Dz']].
    assert (Dx : dom (wv z') (wv x) = true) by (eapply dom_trans; eassumption).
    assert (I' : In z' doms) by (apply filter_In; split; assumption).
    specialize (Hz z' I'). cbn in Hz. apply dom_sum in Dz'. lia.
  Qed.

  (* membership in the first layer / the rest, by uid *)
  Lemma not_in_first_layer (rem : list indA) x :
    NoDup (uids rem) -> In x rem -> dominated_in rem x = true ->
    mem_uid (uid x) (filter (fun x => negb (dominated_in rem x)) rem) = false.
  Proof.
    intros N Ix D. destruct (mem_uid _ _) eqn:M; [|reflexivity]. exfalso.
    apply mem_uid_in in M. unfold uids in M. apply in_map_iff in M. destruct M as [x' [E Ix']].
    apply filter_In in Ix'. destruct Ix' as [Ix' Nd].
    assert (x' = x) by (eapply uid_inj_in; eassumption). subst x'. rewrite D in Nd. discriminate.
  Qed.

  Lemma in_first_layer (rem : list indA) x :
    In x rem -> dominated_in rem x = false ->
    mem_uid (uid x) (filter (fun x => negb (dominated_in rem x)) rem) = true.
  Proof.
    intros Ix D. apply mem_uid_in. unfold uids. apply in_map. apply filter_In. rewrite D. split; [exact Ix|reflexivity].
  Qed.

  Lemma rest_smaller (rem : list indA) : rem <> [] -> length (filter (dominated_in rem) rem) < length rem.
  Proof.
    intro N. destruct (exists_nondominated rem N) as [x [Ix Hx]]. eapply filter_length_lt; eassumption.
  Qed.

  Lemma layers_fuel_S f (rem : list indA) : rem <> [] ->
    layers_fuel (S f) rem = filter (fun x => negb (dominated_in rem x)) rem
                            :: layers_fuel f (filter (dominated_in rem) rem).
  Proof. destruct rem; [congruence|reflexivity]. Qed.

  Lemma depth_dom_lt f : forall rem : list indA, length rem <= f -> NoDup (uids rem) ->
    forall x y, In x rem -> In y rem -> dom (wv y) (wv x) = true ->
    depth_in (layers_fuel f rem) (uid y) < depth_in (layers_fuel f rem) (uid x).
  Proof.
    induction f as [|f IH]; intros rem L N x y Ix Iy D.
    - destruct rem; [contradiction|cbn in L; lia].
    - assert (NE : rem <> []) by (intro Q; subst; contradiction).
      rewrite (layers_fuel_S f rem NE). cbn [depth_in].
      assert (Dx : dominated_in rem x = true) by (apply dominated_in_spec; exists y; split; assumption).
      rewrite (not_in_first_layer rem x N Ix Dx).
      destruct (dominated_in rem y) eqn:Dy.
      + rewrite (not_in_first_layer rem y N Iy Dy). apply -> Nat.succ_lt_mono.
        apply IH.
        * pose proof (rest_smaller rem NE) as R. lia.
        * apply nodup_uids_filter, N.
        * apply filter_In. split; assumption.
        * apply filter_In. split; assumption.
        * exact D.
      + rewrite (in_first_layer rem y Iy Dy). lia.
  Qed.

  Lemma depth_pred f : forall rem : list indA, length rem <= f -> NoDup (uids rem) ->
    forall x d, In x rem -> depth_in (layers_fuel f rem) (uid x) = S d ->
    exists y, In y rem /\ dom (wv y) (wv x) = true /\ depth_in (layers_fuel f rem) (uid y) = d.
  Proof.
    induction f as [|f IH]; intros rem L N x d Ix E.
    - destruct rem; [contradiction|cbn in L; lia].
    - assert (NE : rem <> []) by (intro Q; subst; contradiction).
      rewrite (layers_fuel_S f rem NE) in *. cbn [depth_in] in *.
      destruct (dominated_in rem x) eqn:Dx.
      2:{ rewrite (in_first_layer rem x Ix Dx) in E. discriminate. }
      rewrite (not_in_first_layer rem x N Ix Dx) in E. injection E as E.
      destruct d as [|d'].
      + destruct (max_dominator rem x Dx) as [z [Iz [Dz Nz]]].
        exists z. split; [exact Iz|split; [exact Dz|]]. rewrite (in_first_layer rem z Iz Nz). reflexivity.
      + assert (Lr : length (filter (dominated_in rem) rem) <= f).
        { pose proof (rest_smaller rem NE) as R. lia. }
        destruct (IH _ Lr (nodup_uids_filter _ _ N) x d') as [y [Iy [Dy Ey]]].
        * apply filter_In. split; assumption.
        * exact E.
        * apply filter_In in Iy. destruct Iy as [Iy Dyy].
          exists y. split; [exact Iy|split; [exact Dy|]].
          rewrite (not_in_first_layer rem y N Iy Dyy). rewrite Ey. reflexivity.
  Qed.

  Theorem depth_is_dominance_depth (pop : list indA) : wf_pop pop ->
    (forall x y, In x pop -> In y pop -> dom (wv y) (wv x) = true -> depth pop y < depth pop x) /\
    (forall x d, In x pop -> depth pop x = S d ->
       exists y, In y pop /\ dom (wv y) (wv x) = true /\ depth pop y = d).
  Proof.
    intro W. pose proof (wf_pop_nodup pop W) as N. unfold depth, layers. split.
    - intros x y. apply depth_dom_lt; [lia|exact N].
    - intros x d. apply depth_pred; [lia|exact N].
  Qed.
End Depth.
