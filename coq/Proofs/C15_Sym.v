(* C15 — symmetry of the hypervolume under exchanging the first two coordinates, and (by recursion)
   any two adjacent coordinates.  Consequence: slicing on another coordinate gives the same value. *)
From Coq Require Import List QArith Bool SetoidList Sorted Permutation Lia Morphisms.
From DV Require Import Model.C15_HV Proofs.C15_HV.
Import ListNotations.
Local Open Scope Q_scope.

(* exchange the first two coordinates (points shorter than 2 are padded with the default 0, as hd0 does) *)
Definition swap01 (p : point) : point := hd0 (tl p) :: hd0 p :: tl (tl p).

Lemma hd0_swap01 p : hd0 (swap01 p) = hd0 (tl p).
Proof. reflexivity. Qed.
Lemma hd0_tl_swap01 p : hd0 (tl (swap01 p)) = hd0 p.
Proof. reflexivity. Qed.
Lemma tl_tl_swap01 p : tl (tl (swap01 p)) = tl (tl p).
Proof. reflexivity. Qed.

Lemma Qsum_exchange {A B} (f : A -> B -> Q) (la : list A) (lb : list B) :
  Qsum (map (fun a => Qsum (map (fun b => f a b) lb)) la) ==
  Qsum (map (fun b => Qsum (map (fun a => f a b) la)) lb).
Proof.
  induction la as [|a la IH].
  - cbn [map]. rewrite Qsum_nil. symmetry. apply Qsum_map_zero. intros; reflexivity.
  - rewrite map_cons, Qsum_cons, IH. clear IH.
    induction lb as [|b lb IHb]; [cbn [map]; rewrite !Qsum_nil; ring|].
    rewrite !map_cons, !Qsum_cons, <- IHb. ring.
Qed.

Lemma gmeasure_cons2 a1 a2 axes pts :
  gmeasure (a1 :: a2 :: axes) pts ==
  Qsum (map (fun iv1 => Qsum (map (fun iv2 =>
     Qsum (map (fun c => if covered pts (iv1 :: iv2 :: c) then cell_vol (iv1 :: iv2 :: c) else 0) (cells axes)))
     (intervals a2))) (intervals a1)).
Proof.
  unfold gmeasure. cbn [cells]. rewrite Qsum_flat_map. apply Qsum_map_ext. intros iv1 _.
  rewrite map_map, Qsum_flat_map. apply Qsum_map_ext. intros iv2 _. rewrite map_map. reflexivity.
Qed.

Lemma existsb_map_eq {A B} (f : B -> bool) (g : A -> B) l :
  existsb f (map g l) = existsb (fun x => f (g x)) l.
Proof. induction l as [|x l IH]; cbn; [reflexivity|rewrite IH; reflexivity]. Qed.

Lemma existsb_ext' {A} (f g : A -> bool) l : (forall x, f x = g x) -> existsb f l = existsb g l.
Proof. intro H. induction l as [|x l IH]; cbn; [reflexivity|rewrite H, IH; reflexivity]. Qed.

Lemma covered_swap pts iv1 iv2 c :
  covered (map swap01 pts) (iv2 :: iv1 :: c) = covered pts (iv1 :: iv2 :: c).
Proof.
  unfold covered. rewrite existsb_map_eq. apply existsb_ext'. intro p.
  cbn [corner_dominated]. rewrite hd0_swap01, hd0_tl_swap01, tl_tl_swap01.
  rewrite !andb_assoc. f_equal. apply andb_comm.
Qed.

Lemma cell_vol_swap iv1 iv2 c : cell_vol (iv2 :: iv1 :: c) == cell_vol (iv1 :: iv2 :: c).
Proof. cbn [cell_vol fold_right]. ring. Qed.

Lemma gmeasure_swap a1 a2 axes pts :
  gmeasure (a2 :: a1 :: axes) (map swap01 pts) == gmeasure (a1 :: a2 :: axes) pts.
Proof.
  rewrite !gmeasure_cons2. rewrite Qsum_exchange.
  apply Qsum_map_ext. intros iv1 _. apply Qsum_map_ext. intros iv2 _.
  apply Qsum_map_ext. intros c _. rewrite covered_swap.
  destruct (covered pts (iv1 :: iv2 :: c)); [apply cell_vol_swap|reflexivity].
Qed.

Lemma map_tl_tl_swap pts : map (@tl Q) (map (@tl Q) (map swap01 pts)) = map (@tl Q) (map (@tl Q) pts).
Proof. rewrite !map_map. apply map_ext. intro p. reflexivity. Qed.

Lemma valid_grid_swap r1 r2 ref pts a1 a2 axes :
  valid_grid (r1 :: r2 :: ref) pts (a1 :: a2 :: axes) ->
  valid_grid (r2 :: r1 :: ref) (map swap01 pts) (a2 :: a1 :: axes).
Proof.
  intro V. inversion V as [|? ? ? ? ? Va1 V']; subst. inversion V' as [|? ? ? ? ? Va2 V'']; subst.
  constructor; [|constructor].
  - destruct Va2 as (S & R & U & C). repeat split; auto.
    intros p Hp L. apply in_map_iff in Hp. destruct Hp as (q & <- & Hq). rewrite hd0_swap01 in *.
    change (hd0 (tl q)) with (hd0 (@tl Q q)). apply C; auto. apply in_map. auto.
  - destruct Va1 as (S & R & U & C). repeat split; auto.
    intros p Hp L. apply in_map_iff in Hp. destruct Hp as (p' & <- & Hp').
    apply in_map_iff in Hp'. destruct Hp' as (q & <- & Hq). rewrite hd0_tl_swap01 in *. apply C; auto.
  - rewrite map_tl_tl_swap. exact V''.
Qed.

(* exchanging the first two coordinates (of the reference and of every point) does not change hv *)
Theorem hv_swap01 r1 r2 ref pts :
  hv (r2 :: r1 :: ref) (map swap01 pts) == hv (r1 :: r2 :: ref) pts.
Proof.
  pose proof (induced_axes_valid (r1 :: r2 :: ref) pts) as V. cbn [induced_axes] in V.
  rewrite (hv_gmeasure _ _ _ V), (hv_gmeasure _ _ _ (valid_grid_swap _ _ _ _ _ _ _ V)).
  apply gmeasure_swap.
Qed.

(* exchange coordinates k and k+1 *)
Fixpoint swap_at (k : nat) (p : point) : point :=
  match k with
  | O => swap01 p
  | S k' => hd0 p :: swap_at k' (tl p)
  end.

Fixpoint swap_ref (k : nat) (ref : list Q) : list Q :=
  match k, ref with
  | O, r1 :: r2 :: ref' => r2 :: r1 :: ref'
  | S k', r :: ref' => r :: swap_ref k' ref'
  | _, _ => ref
  end.

Lemma slice_swap_at k z pts :
  slice z (map (swap_at (S k)) pts) = map (swap_at k) (slice z pts).
Proof.
  unfold slice. induction pts as [|p pts IH]; [reflexivity|].
  cbn [map filter]. change (hd0 (swap_at (S k) p)) with (hd0 p).
  destruct (Qle_bool (hd0 p) z); cbn [map]; rewrite IH; reflexivity.
Qed.

Lemma axis0_swap_at k r pts : axis0 r (map (swap_at (S k)) pts) = axis0 r pts.
Proof.
  unfold axis0, breaks. rewrite map_map. reflexivity.
Qed.

Theorem hv_swap_at k : forall ref pts, (S k < length ref)%nat ->
  hv (swap_ref k ref) (map (swap_at k) pts) == hv ref pts.
Proof.
  induction k as [|k IH]; intros ref pts L.
  - destruct ref as [|r1 [|r2 ref]]; cbn in L; try lia. cbn [swap_ref swap_at]. apply hv_swap01.
  - destruct ref as [|r ref]; cbn in L; try lia. cbn [swap_ref].
    rewrite !hv_cons, axis0_swap_at. apply integrate_ext. intro z.
    rewrite slice_swap_at. apply IH. lia.
Qed.

(* in particular for two objectives: slicing on y instead of x *)
Corollary hv_2d_swap rx ry l :
  hv [ry; rx] (map (fun xy : Q * Q => [snd xy; fst xy]) l) == hv [rx; ry] (map (fun xy => [fst xy; snd xy]) l).
Proof.
  rewrite <- (hv_swap01 rx ry [] (map (fun xy : Q * Q => [fst xy; snd xy]) l)).
  rewrite map_map. reflexivity.
Qed.

(* ------------------------------------------------------------------ *)
(* translation invariance                                               *)
(* ------------------------------------------------------------------ *)
(* p' = p - t in the first |t| coordinates (up to ==) *)
Fixpoint sh (t : list Q) (p p' : point) : Prop :=
  match t with
  | [] => True
  | t0 :: t' => hd0 p' == hd0 p - t0 /\ sh t' (tl p) (tl p')
  end.

Lemma stp_map_shift F F' t0 : (forall b, F' (b - t0) == F b) ->
  forall bs lo, stp F' (lo - t0) (map (fun b => b - t0) bs) == stp F lo bs.
Proof.
  intros H. induction bs as [|b bs IH]; intro lo; [reflexivity|].
  cbn [map]. rewrite !stp_cons, IH, H. ring.
Qed.

Lemma integrate_map_shift F F' t0 bs : (forall b, F' (b - t0) == F b) ->
  integrate F' (map (fun b => b - t0) bs) == integrate F bs.
Proof.
  intro H. destruct bs as [|b bs]; [reflexivity|]. cbn [map]. rewrite !integrate_cons.
  apply stp_map_shift; auto.
Qed.

Lemma sorted_map_shift t0 bs : Sorted Qlt bs -> Sorted Qlt (map (fun b => b - t0) bs).
Proof.
  induction bs as [|a bs IH]; intro S; [constructor|]. inversion S as [|? ? S' HR]; subst.
  cbn [map]. constructor; auto. destruct bs as [|b bs]; cbn [map]; constructor.
  inversion HR; subst. unfold Qminus. apply Qplus_lt_l. auto.
Qed.

Lemma QIn_map_shift t0 x bs : QIn x (map (fun b => b - t0) bs) <-> exists b, QIn b bs /\ x == b - t0.
Proof.
  induction bs as [|a bs IH]; cbn [map].
  - rewrite InA_nil. split; [tauto|]. intros (b & H & _). inversion H.
  - rewrite QIn_cons, IH. split.
    + intros [H|(b & Hb & E)]; [exists a; split; [left; reflexivity|auto]|exists b; split; [right; auto|auto]].
    + intros (b & Hb & E). apply QIn_cons in Hb. destruct Hb as [Hb|Hb].
      * left. rewrite E, Hb. reflexivity.
      * right. exists b. auto.
Qed.

Lemma slice_sh t0 t b : forall pts pts',
  Forall2 (sh (t0 :: t)) pts pts' -> Forall2 (sh t) (slice b pts) (slice (b - t0) pts').
Proof.
  intros pts pts' H. unfold slice. induction H as [|p p' l l' Hp H IH]; [constructor|].
  cbn [filter]. destruct Hp as [E W].
  assert (Qle_bool (hd0 p') (b - t0) = Qle_bool (hd0 p) b) as ->.
  { destruct (Qle_bool (hd0 p) b) eqn:C.
    - apply Qle_bool_iff. apply Qle_bool_iff in C. rewrite E. unfold Qminus. apply Qplus_le_l. auto.
    - destruct (Qle_bool (hd0 p') (b - t0)) eqn:C'; auto. apply Qle_bool_iff in C'. rewrite E in C'.
      unfold Qminus in C'. apply Qplus_le_l in C'. apply Qle_bool_iff in C'. congruence. }
  destruct (Qle_bool (hd0 p) b); cbn [map]; auto.
Qed.

Theorem hv_translate t : forall ref ref' pts pts',
  length ref = length t -> length ref' = length t ->
  sh t ref ref' -> Forall2 (sh t) pts pts' -> hv ref' pts' == hv ref pts.
Proof.
  induction t as [|t0 t IH]; intros ref ref' pts pts' L L' R P.
  - destruct ref; [|discriminate]. destruct ref'; [|discriminate].
    destruct P; reflexivity.
  - destruct ref as [|r ref]; [discriminate|]. destruct ref' as [|r' ref']; [discriminate|].
    cbn in R. destruct R as [Er R]. rewrite !hv_cons.
    assert (V : valid_axis r' pts' (map (fun b => b - t0) (axis0 r pts))).
    { destruct (axis0_valid r pts) as (S & Rin & U & C). split; [apply sorted_map_shift; auto|].
      split; [|split].
      - apply QIn_map_shift. exists r. split; auto.
      - intros x Hx. apply QIn_map_shift in Hx. destruct Hx as (b & Hb & E). rewrite E, Er.
        unfold Qminus. apply Qplus_le_l. auto.
      - intros p' Hp' Lp'.
        assert (exists p, In p pts /\ sh (t0 :: t) p p') as (p & Hp & [E _]).
        { clear - P Hp'. induction P as [|a a' l l' Ha P IHP]; [inversion Hp'|].
          destruct Hp' as [<-|Hp']; [exists a; split; [left; auto|auto]|].
          destruct (IHP Hp') as (p & Hp & W). exists p. split; [right; auto|auto]. }
        apply QIn_map_shift. exists (hd0 p). split; auto. apply C; auto.
        rewrite E, Er in Lp'. unfold Qminus in Lp'. apply Qplus_lt_l in Lp'. auto. }
    rewrite <- (integrate_axis ref' r' pts' _ V).
    apply integrate_map_shift. intro b. apply IH.
    + cbn in L. lia.
    + cbn in L'. lia.
    + exact R.
    + apply slice_sh. exact P.
Qed.

(* two objectives: slicing on the last coordinate (hv_last, the usual HSO description) is hv *)
Corollary hv_last_2d rx ry l :
  hv_last [rx; ry] (map (fun xy : Q * Q => [fst xy; snd xy]) l) == hv [rx; ry] (map (fun xy => [fst xy; snd xy]) l).
Proof.
  unfold hv_last. cbn [rev app]. rewrite map_map. cbn [rev app]. apply hv_2d_swap.
Qed.

(* ------------------------------------------------------------------ *)
(* slicing on the last coordinate: hv_last = hv for points of the right dimension *)
(* ------------------------------------------------------------------ *)
Definition dim_ok (n : nat) (S : list point) : Prop := Forall (fun p => length p = n) S.

Lemma slice_dim_ok n z pts : dim_ok (Datatypes.S n) pts -> dim_ok n (slice z pts).
Proof.
  unfold dim_ok. rewrite !Forall_forall. intros H q Hq. apply in_slice in Hq.
  destruct Hq as (p & Hp & _ & ->). specialize (H p Hp). destruct p; cbn in *; lia.
Qed.

(* apply a transformation to the tails *)
Lemma hv_tail_congr (f : point -> point) n a ref1 ref2 pts :
  (forall S, dim_ok n S -> hv ref2 (map f S) == hv ref1 S) ->
  dim_ok (Datatypes.S n) pts ->
  hv (a :: ref2) (map (fun q => hd0 q :: f (tl q)) pts) == hv (a :: ref1) pts.
Proof.
  intros H D. rewrite !hv_cons.
  assert (axis0 a (map (fun q => hd0 q :: f (tl q)) pts) = axis0 a pts) as ->.
  { unfold axis0, breaks. rewrite map_map. reflexivity. }
  apply integrate_ext. intro z.
  assert (slice z (map (fun q => hd0 q :: f (tl q)) pts) = map f (slice z pts)) as ->.
  { unfold slice. clear D. induction pts as [|p l IH]; [reflexivity|]. cbn [map filter hd0].
    destruct (Qle_bool (hd0 p) z); cbn [map tl]; rewrite IH; reflexivity. }
  apply H. apply slice_dim_ok. auto.
Qed.

Definition rotl (p : point) : point := tl p ++ [hd0 p].

Lemma hv_rot : forall ref r pts,
  dim_ok (Datatypes.S (length ref)) pts -> hv (ref ++ [r]) (map rotl pts) == hv (r :: ref) pts.
Proof.
  induction ref as [|a ref IH]; intros r pts D.
  - cbn [app]. assert (map rotl pts = pts) as ->; [|reflexivity].
    unfold dim_ok in D. induction D as [|p l Hp D IHD]; [reflexivity|]. cbn [map]. rewrite IHD. f_equal.
    destruct p as [|x [|y t]]; cbn in Hp; try discriminate. reflexivity.
  - cbn [app].
    assert (E : map rotl pts = map (fun q => hd0 q :: rotl (tl q)) (map swap01 pts)).
    { rewrite map_map. unfold dim_ok in D. rewrite Forall_forall in D. apply map_ext_in. intros p Hp.
      specialize (D p Hp). destruct p as [|x [|y t]]; cbn in D; try lia. reflexivity. }
    rewrite E.
    assert (D' : dim_ok (Datatypes.S (Datatypes.S (length ref))) (map swap01 pts)).
    { unfold dim_ok in *. rewrite Forall_forall in *. intros q Hq. apply in_map_iff in Hq.
      destruct Hq as (p & <- & Hp). specialize (D p Hp). destruct p as [|x [|y t]]; cbn in *; lia. }
    rewrite (hv_tail_congr rotl (Datatypes.S (length ref)) a (r :: ref) (ref ++ [r])); auto.
    apply hv_swap01.
Qed.

Theorem hv_rev : forall ref pts, dim_ok (length ref) pts -> hv (rev ref) (map (@rev Q) pts) == hv ref pts.
Proof.
  induction ref as [|r ref IH]; intros pts D.
  - cbn [rev]. destruct pts; reflexivity.
  - cbn [rev].
    assert (E : map (@rev Q) pts = map rotl (map (fun p => hd0 p :: rev (tl p)) pts)).
    { rewrite map_map. unfold dim_ok in D. rewrite Forall_forall in D. apply map_ext_in. intros p Hp.
      specialize (D p Hp). destruct p as [|x t]; cbn in D; try lia. reflexivity. }
    rewrite E. rewrite hv_rot.
    + apply (hv_tail_congr (@rev Q) (length ref)); auto.
    + rewrite rev_length. unfold dim_ok in *. rewrite Forall_forall in *. intros q Hq.
      apply in_map_iff in Hq. destruct Hq as (p & <- & Hp). specialize (D p Hp).
      destruct p as [|x t]; cbn in *; try lia. rewrite rev_length. lia.
Qed.

Corollary hv_last_is_hv ref pts : dim_ok (length ref) pts -> hv_last ref pts == hv ref pts.
Proof. apply hv_rev. Qed.
