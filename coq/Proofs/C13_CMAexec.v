(* C13 — proofs about the executable list model (Model/C13_CMAexec.v), generic in the number
   type: shapes produced by generate, and the sort used by update (permutation, descending,
   independent of the input order when the keys are pairwise distinct). *)
From Coq Require Import List Bool Arith Lia Permutation Sorted.
From DV Require Import Model.C13_CMAexec.
Import ListNotations.

Section Shapes.
Context {T : Type} (Nm : Num T).

Lemma map2_length {A B C} (f : A -> B -> C) a b :
  length (map2 f a b) = Nat.min (length a) (length b).
Proof. revert b; induction a as [|x a IH]; destruct b; cbn; auto. Qed.

Lemma vadd_length u v : length (vadd Nm u v) = Nat.min (length u) (length v).
Proof. apply map2_length. Qed.

Lemma vscale_length a v : length (vscale Nm a v) = length v.
Proof. apply map_length. Qed.

Lemma zeros_length n : length (zeros Nm n) = n.
Proof. apply repeat_length. Qed.

Lemma vecmat_length n v M :
  Forall (fun r => length r = n) M -> length (vecmat Nm n v M) = n.
Proof.
  intro H. unfold vecmat.
  assert (G : forall l acc, Forall (fun p : T * list T => length (snd p) = n) l -> length acc = n ->
              length (fold_left (fun acc p => vadd Nm acc (vscale Nm (fst p) (snd p))) l acc) = n).
  { induction l as [|p l IH]; cbn; intros acc Hl Ha; auto.
    inversion Hl as [|? ? Hp Hl']. apply IH; auto.
    rewrite vadd_length, vscale_length. cbv [vec] in *. simpl in *. rewrite Ha, Hp. apply Nat.min_id. }
  apply G; [|apply zeros_length].
  revert v; induction H as [|r M Hr HM IH]; intros [|x v]; cbn; constructor; auto.
Qed.

Lemma column_length j M : length (column Nm j M) = length M.
Proof. apply map_length. Qed.

Lemma transpose_rows n M : Forall (fun r => length r = length M) (transpose Nm n M).
Proof.
  unfold transpose. apply Forall_forall. intros r Hr.
  apply in_map_iff in Hr. destruct Hr as [j [<- _]]. apply column_length.
Qed.

Lemma matmul_shape n A B :
  Forall (fun r => length r = n) B ->
  length (matmul Nm n A B) = length A /\ Forall (fun r => length r = n) (matmul Nm n A B).
Proof.
  intro H. unfold matmul. split; [apply map_length|].
  apply Forall_forall. intros r Hr. apply in_map_iff in Hr. destruct Hr as [x [<- _]].
  apply vecmat_length; auto.
Qed.

(* generate returns one individual per row of the draw (lambda_ of them), each built by ind_init
   from a vector of the problem dimension *)
Theorem generate_count_dim {I : Type} (P : params) (st : state) (ind_init : list T -> I) (arz : list (list T)) :
  length (s_centroid st) = p_dim P -> length (s_BD st) = p_dim P ->
  exists xs : list (list T),
    generate Nm P st ind_init arz = map ind_init xs /\
    length xs = length arz /\ Forall (fun x => length x = p_dim P) xs.
Proof.
  intros Hc Hb. unfold generate.
  set (step := matmul Nm (p_dim P) arz (transpose Nm (p_dim P) (s_BD st))).
  destruct (matmul_shape (p_dim P) arz (transpose Nm (p_dim P) (s_BD st))) as [L S].
  { pose proof (transpose_rows (p_dim P) (s_BD st)) as Ht. rewrite Hb in Ht. exact Ht. }
  fold step in L, S.
  eexists; split; [reflexivity|]. split; [rewrite map_length; exact L|].
  apply Forall_forall. intros x Hx. apply in_map_iff in Hx. destruct Hx as [r [<- Hr]].
  rewrite vadd_length, vscale_length, Hc.
  rewrite Forall_forall in S. rewrite (S r Hr). lia.
Qed.

Corollary generate_length {I : Type} (P : params) (st : state) (ind_init : list T -> I) arz :
  length (generate Nm P st ind_init arz) = length arz.
Proof. unfold generate, matmul. now rewrite !map_length. Qed.
End Shapes.

(* ---- the sort of update -------------------------------------------------------------------- *)
Section SortDesc.
Context {A : Type} (lt : A -> A -> bool).

Lemma insert_desc_perm x l : Permutation (x :: l) (insert_desc lt x l).
Proof.
  induction l as [|y r IH]; cbn; [reflexivity|].
  destruct (lt x y); [|reflexivity].
  rewrite perm_swap. constructor. exact IH.
Qed.

Theorem sort_desc_perm l : Permutation l (sort_desc lt l).
Proof.
  induction l as [|x l IH]; cbn; [constructor|].
  etransitivity; [constructor; exact IH|]. apply insert_desc_perm.
Qed.

(* "not worse than": ge a b := a does not compare below b *)
Definition ge (a b : A) : Prop := lt a b = false.

Hypothesis lt_trans_neg : forall a b c, ge a b -> ge b c -> ge a c.   (* negative transitivity *)
Hypothesis lt_asym : forall a b, lt a b = true -> lt b a = false.

Lemma insert_desc_sorted x l :
  StronglySorted ge l -> StronglySorted ge (insert_desc lt x l).
Proof.
  induction 1 as [|y r Hr IH Hy]; cbn; [repeat constructor|].
  destruct (lt x y) eqn:E.
  - constructor; auto.
    apply Forall_forall. intros z Hz.
    apply (Permutation_in _ (Permutation_sym (insert_desc_perm x r))) in Hz.
    destruct Hz as [<-|Hz]; [apply lt_asym; exact E|].
    rewrite Forall_forall in Hy; auto.
  - constructor; [constructor; auto|].
    constructor; [exact E|].
    apply Forall_forall. intros z Hz. rewrite Forall_forall in Hy.
    apply lt_trans_neg with y; auto.
Qed.

(* descending: every earlier element is not worse than every later one *)
Theorem sort_desc_sorted l : StronglySorted ge (sort_desc lt l).
Proof. induction l; cbn; [constructor|apply insert_desc_sorted; auto]. Qed.

(* two descending lists with the same elements, no two of which tie, are equal *)
Lemma sorted_perm_unique l1 l2 :
  (forall a b, In a l1 -> In b l1 -> ge a b -> ge b a -> a = b) ->
  StronglySorted ge l1 -> StronglySorted ge l2 -> Permutation l1 l2 -> l1 = l2.
Proof.
  revert l2. induction l1 as [|x l1 IH]; intros l2 Hd S1 S2 Hp.
  - apply Permutation_nil in Hp. now subst.
  - destruct l2 as [|y l2]; [apply Permutation_sym, Permutation_nil in Hp; discriminate|].
    inversion S1 as [|? ? S1' F1]; subst. inversion S2 as [|? ? S2' F2]; subst.
    assert (x = y) as ->.
    { assert (Hy : In y (x :: l1)) by (apply (Permutation_in _ (Permutation_sym Hp)); left; auto).
      assert (Hx : In x (y :: l2)) by (apply (Permutation_in _ Hp); left; auto).
      destruct Hy as [->|Hy]; auto. destruct Hx as [->|Hx]; auto.
      rewrite Forall_forall in F1, F2.
      apply Hd; [left; auto|right; auto|apply F1; auto|apply F2; auto]. }
    f_equal. apply IH; auto.
    + intros a b Ha Hb. apply Hd; right; auto.
    + now apply Permutation_cons_inv in Hp.
Qed.

(* order independence of the sort: two arrangements of a population in which no two different
   members tie (pairwise distinct fitnesses) sort to the same list *)
Theorem sort_desc_order_independent l1 l2 :
  Permutation l1 l2 ->
  (forall a b, In a l1 -> In b l1 -> lt a b = false -> lt b a = false -> a = b) ->
  sort_desc lt l1 = sort_desc lt l2.
Proof.
  intros Hp Hc.
  apply sorted_perm_unique.
  - intros a b Ha Hb. apply Hc; apply (Permutation_in _ (Permutation_sym (sort_desc_perm l1))); auto.
  - apply sort_desc_sorted.
  - apply sort_desc_sorted.
  - rewrite <- (sort_desc_perm l1), <- (sort_desc_perm l2). exact Hp.
Qed.
End SortDesc.

(* the population sort of update, for any number type whose comparison is a strict weak order on
   the fitness tuples that occur *)
Section SortPop.
Context {T : Type} (Nm : Num T).
Let klt (a b : indiv (T:=T)) : bool := lex_ltb Nm (fst a) (fst b).

Theorem sort_pop_order_independent (pop1 pop2 : list (indiv (T:=T))) :
  (forall a b c, klt a b = false -> klt b c = false -> klt a c = false) ->
  (forall a b, klt a b = true -> klt b a = false) ->
  Permutation pop1 pop2 ->
  (forall a b, In a pop1 -> In b pop1 -> klt a b = false -> klt b a = false -> a = b) ->
  sort_pop Nm pop1 = sort_pop Nm pop2.
Proof. intros Ht Ha Hp Hd. unfold sort_pop. apply sort_desc_order_independent; auto. Qed.

Theorem sort_pop_perm (pop : list (indiv (T:=T))) : Permutation pop (sort_pop Nm pop).
Proof. apply sort_desc_perm. Qed.
End SortPop.
