(* Phase 2 of sortNondominated (the `while pareto_sorted < N` loop) and the main theorem. *)
From Coq Require Import List ZArith Bool Lia Permutation.
From DV Require Import Base.PyTuple Base.PyList Model.C01_Fitness Proofs.C01_Fitness Model.C04_NDSort Proofs.C04_NDSort.
Import ListNotations.
Local Open Scope Z_scope.

(* ------------------------------------------------------------------------------------- *)
(* generic list facts                                                                    *)
Lemma filter_length_split {A} (P : A -> bool) (l : list A) :
  (length (filter P l) + length (filter (fun x => negb (P x)) l) = length l)%nat.
Proof. induction l as [|x l IH]; cbn; [reflexivity|]. destruct (P x); cbn; lia. Qed.

Lemma filter_length_lt {A} (P : A -> bool) (l : list A) x :
  In x l -> P x = false -> (length (filter P l) < length l)%nat.
Proof.
  intros I F. pose proof (filter_length_split P l) as S.
  assert (In x (filter (fun y => negb (P y)) l)) as J by (apply filter_In; rewrite F; auto).
  destruct (filter (fun y => negb (P y)) l); [destruct J|cbn in S; lia].
Qed.

Lemma filter_filter {A} (P Q : A -> bool) (l : list A) :
  filter P (filter Q l) = filter (fun x => Q x && P x) l.
Proof. induction l as [|x l IH]; cbn; [reflexivity|]. destruct (Q x); cbn; [destruct (P x)|]; rewrite IH; reflexivity. Qed.

Lemma fold_left_flat_map {A B C} (f : C -> B -> C) (g : A -> list B) (l : list A) : forall e,
  fold_left (fun e a => fold_left f (g a) e) l e = fold_left f (flat_map g l) e.
Proof. induction l as [|a l IH]; intro e; cbn; [reflexivity|]. rewrite fold_left_app. apply IH. Qed.

Lemma flat_map_ext_in {A B} (f g : A -> list B) (l : list A) :
  (forall a, In a l -> f a = g a) -> flat_map f l = flat_map g l.
Proof. induction l as [|a l IH]; cbn; intro H; [reflexivity|]. rewrite H by auto. f_equal. apply IH. auto. Qed.

Lemma exists_minimal {A} (d : A -> A -> bool) (l : list A) :
  l <> [] -> (forall a, In a l -> d a a = false) ->
  (forall a b c, In a l -> In b l -> In c l -> d a b = true -> d b c = true -> d a c = true) ->
  exists x, In x l /\ forall y, In y l -> d y x = false.
Proof.
  induction l as [|x l IH]; [congruence|]. intros _ IR TR.
  destruct l as [|x2 l].
  - exists x. split; [left; reflexivity|]. intros y [<-|[]]. apply IR. left; reflexivity.
  - destruct IH as [m [Hm Mm]]; [discriminate| | |].
    + intros a Ha. apply IR. right; assumption.
    + intros a b c Ha Hb Hc. apply TR; right; assumption.
    + destruct (d x m) eqn:E.
      * exists x. split; [left; reflexivity|]. intros y [<-|Hy]; [apply IR; left; reflexivity|].
        destruct (d y x) eqn:F; [|reflexivity].
        assert (d y m = true) as G by (apply (TR y x m); cbn; auto).
        rewrite (Mm y Hy) in G. discriminate.
      * exists m. split; [right; assumption|]. intros y [<-|Hy]; [assumption|apply Mm; assumption].
Qed.

(* ------------------------------------------------------------------------------------- *)
(* the countdown performed by one pass over the dominated lists                          *)
Fixpoint emit_keys (ds : list wvals) (c : kmap Z) : list wvals :=
  match ds with
  | [] => []
  | d :: r => let v := kget c d 0 - 1 in
              if v =? 0 then d :: emit_keys r (kset c d v) else emit_keys r (kset c d v)
  end.
Definition emit_cnt (ds : list wvals) (c : kmap Z) : kmap Z :=
  fold_left (fun c d => kset c d (kget c d 0 - 1)) ds c.

Definition inds_of (pop : list ind) (ks : list wvals) : list ind := flat_map (group pop) ks.

Lemma expand_fold pop ds : forall e,
  fold_left (expand_step (group_inds pop)) ds e =
  mkexp (emit_cnt ds (e_cnt e)) (e_next e ++ emit_keys ds (e_cnt e))
        (e_sorted e + zlen (inds_of pop (emit_keys ds (e_cnt e))))
        (e_last e ++ inds_of pop (emit_keys ds (e_cnt e))).
Proof.
  induction ds as [|d r IH]; intro e; cbn [fold_left emit_keys emit_cnt].
  - cbn. rewrite !app_nil_r, Z.add_0_r. destruct e; reflexivity.
  - rewrite IH. unfold expand_step. rewrite !group_inds_get.
    destruct (kget (e_cnt e) d 0 - 1 =? 0) eqn:E; cbn [e_cnt e_next e_sorted e_last].
    + unfold inds_of. cbn [flat_map]. rewrite zlen_app, <- !app_assoc. cbn [app]. f_equal. lia.
    + reflexivity.
Qed.

Definition cocc (ds : list wvals) (d : wvals) : Z := Z.of_nat (count_occ key_dec ds d).

Lemma cocc_cons_eq d r : cocc (d :: r) d = 1 + cocc r d.
Proof. unfold cocc. rewrite count_occ_cons_eq by reflexivity. lia. Qed.
Lemma cocc_cons_neq d0 d r : d0 <> d -> cocc (d0 :: r) d = cocc r d.
Proof. intro N. unfold cocc. rewrite count_occ_cons_neq by assumption. reflexivity. Qed.
Lemma cocc_pos ds d : In d ds <-> 0 < cocc ds d.
Proof. unfold cocc. rewrite (count_occ_In key_dec). lia. Qed.
Lemma cocc_nonneg ds d : 0 <= cocc ds d.
Proof. unfold cocc. lia. Qed.

Lemma emit_spec ds : forall c,
  (forall d, In d ds -> cocc ds d <= kget c d 0) ->
  NoDup (emit_keys ds c) /\
  (forall d, In d (emit_keys ds c) <-> In d ds /\ kget c d 0 = cocc ds d) /\
  (forall d, kget (emit_cnt ds c) d 0 = kget c d 0 - cocc ds d).
Proof.
  induction ds as [|d0 r IH]; intros c H; cbn [emit_keys emit_cnt fold_left].
  - split; [constructor|split]; intro d; [cbn; tauto|unfold cocc; cbn; lia].
  - set (v := kget c d0 0 - 1). set (c' := kset c d0 v).
    assert (H' : forall d, In d r -> cocc r d <= kget c' d 0).
    { intros d Hd. unfold c'. destruct (key_dec d0 d) as [->|N].
      - rewrite kget_kset_same. specialize (H d (or_introl eq_refl)). rewrite cocc_cons_eq in H. unfold v. lia.
      - rewrite kget_kset_other by assumption. specialize (H d (or_intror Hd)). rewrite cocc_cons_neq in H; assumption. }
    destruct (IH c' H') as [ND [MEM CNT]]. fold (emit_cnt r c').
    assert (G0 : kget c' d0 0 = v) by (unfold c'; apply kget_kset_same).
    assert (Gn : forall d, d0 <> d -> kget c' d 0 = kget c d 0) by (intros; unfold c'; apply kget_kset_other; assumption).
    pose proof (H d0 (or_introl eq_refl)) as H0. rewrite cocc_cons_eq in H0. pose proof (cocc_nonneg r d0) as NN.
    split; [|split].
    + destruct (Z.eqb_spec v 0) as [V|V]; [|assumption]. constructor; [|assumption].
      intro I. apply MEM in I. destruct I as [I1 I2]. apply cocc_pos in I1. rewrite G0 in I2. lia.
    + intro d. destruct (Z.eqb_spec v 0) as [V|V].
      * cbn [In]. rewrite MEM. destruct (key_dec d0 d) as [->|N].
        -- rewrite cocc_cons_eq. split; [intros _; split; [auto|unfold v in *; lia]|auto].
        -- rewrite (Gn d N), cocc_cons_neq by assumption. split; [intros [?|?]; [contradiction|tauto]|tauto].
      * rewrite MEM. cbn [In]. destruct (key_dec d0 d) as [->|N].
        -- rewrite cocc_cons_eq, G0. split.
           ++ intros [I E]. split; [auto|unfold v in *; lia].
           ++ intros [_ E]. assert (E' : v = cocc r d) by (unfold v; lia). split; [|assumption].
              apply cocc_pos. lia.
        -- rewrite (Gn d N), cocc_cons_neq by assumption. split; [tauto|intros [[?|?] ?]; [contradiction|tauto]].
    + intro d. rewrite CNT. destruct (key_dec d0 d) as [->|N].
      * rewrite G0, cocc_cons_eq. unfold v. lia.
      * rewrite (Gn d N), cocc_cons_neq by assumption. reflexivity.
Qed.

(* occurrences in the concatenated dominated lists *)
Lemma cocc_app a b d : cocc (a ++ b) d = cocc a d + cocc b d.
Proof. unfold cocc. rewrite count_occ_app. lia. Qed.

Lemma cocc_filter_nodup (P : wvals -> bool) fits d :
  NoDup fits -> cocc (filter P fits) d = if P d && inb d fits then 1 else 0.
Proof.
  induction fits as [|f fits IH]; intro ND; cbn [filter].
  - unfold cocc; cbn. rewrite andb_false_r. reflexivity.
  - inversion ND as [|? ? NI ND']; subst. specialize (IH ND'). cbn [inb existsb].
    destruct (key_dec f d) as [->|N].
    + rewrite key_eqb_refl. cbn [orb]. rewrite andb_true_r.
      assert (inb d fits = false) as E by (apply inb_false; assumption). fold (inb d fits) in IH. rewrite E, andb_false_r in IH.
      destruct (P d); [rewrite cocc_cons_eq|]; lia.
    + rewrite (key_eqb_neq d f) by congruence. cbn [orb]. fold (inb d fits).
      destruct (P f); [rewrite cocc_cons_neq by assumption|]; exact IH.
Qed.

Lemma cocc_dls fits cur d :
  NoDup fits ->
  cocc (flat_map (fun p => filter (nd_dom p) fits) cur) d =
  if inb d fits then zlen (filter (fun p => nd_dom p d) cur) else 0.
Proof.
  intro ND. induction cur as [|p cur IH]; cbn [flat_map filter].
  - destruct (inb d fits); reflexivity.
  - rewrite cocc_app, IH, cocc_filter_nodup by assumption.
    destruct (inb d fits); [|rewrite andb_false_r; reflexivity]. rewrite andb_true_r.
    destruct (nd_dom p d); [rewrite zlen_cons|]; lia.
Qed.

(* ------------------------------------------------------------------------------------- *)
(* key-level invariant of the while loop                                                 *)
Definition remK (fits P : list wvals) : list wvals := filter (fun f => negb (inb f P)) fits.
Definition ndK (R : list wvals) (f : wvals) : bool := negb (existsb (fun g => nd_dom g f) R).

Lemma inb_app f a b : inb f (a ++ b) = inb f a || inb f b.
Proof. unfold inb. apply existsb_app. Qed.

Lemma remK_app fits P Q : remK fits (P ++ Q) = filter (fun f => negb (inb f Q)) (remK fits P).
Proof.
  unfold remK. rewrite filter_filter. apply filter_ext. intro f. rewrite inb_app, negb_orb. reflexivity.
Qed.
Lemma remK_nil fits : remK fits [] = fits.
Proof. unfold remK. cbn. induction fits as [|f fits IH]; cbn; [reflexivity|]. rewrite IH. reflexivity. Qed.
Lemma in_remK fits P f : In f (remK fits P) <-> In f fits /\ ~ In f P.
Proof. unfold remK. rewrite filter_In, negb_true_iff, inb_false. tauto. Qed.

Lemma ndK_true R f : ndK R f = true <-> forall g, In g R -> nd_dom g f = false.
Proof.
  unfold ndK. rewrite negb_true_iff. split.
  - intros H g Hg. destruct (nd_dom g f) eqn:E; [|reflexivity].
    assert (existsb (fun g => nd_dom g f) R = true) by (apply existsb_exists; eauto). congruence.
  - intro H. destruct (existsb (fun g => nd_dom g f) R) eqn:E; [|reflexivity].
    apply existsb_exists in E. destruct E as [g [Hg E]]. rewrite (H g Hg) in E. discriminate.
Qed.
Lemma ndK_false R f : ndK R f = false <-> exists g, In g R /\ nd_dom g f = true.
Proof. unfold ndK. rewrite negb_false_iff, existsb_exists. tauto. Qed.
Lemma domcount_zero R f : domcount R f = 0 <-> ndK R f = true.
Proof.
  rewrite ndK_true. unfold domcount, zlen. split.
  - intros H g Hg. destruct (nd_dom g f) eqn:E; [|reflexivity].
    assert (In g (filter (fun g => nd_dom g f) R)) as I by (apply filter_In; auto).
    destruct (filter (fun g => nd_dom g f) R); [destruct I|cbn in H; lia].
  - intro H. destruct (filter (fun g => nd_dom g f) R) as [|g l] eqn:E; [reflexivity|].
    assert (In g (filter (fun g => nd_dom g f) R)) as I by (rewrite E; left; reflexivity).
    apply filter_In in I. destruct I as [I1 I2]. rewrite (H g I1) in I2. discriminate.
Qed.

Definition Inv (fits prev cur : list wvals) (c : kmap Z) : Prop :=
  NoDup cur /\
  (forall f, In f cur <-> In f (remK fits prev) /\ ndK (remK fits prev) f = true) /\
  (forall f, In f (remK fits (prev ++ cur)) -> kget c f 0 = domcount (remK fits prev) f) /\
  (forall g f, In g (remK fits prev) -> In f prev -> nd_dom g f = false).

Definition dls (fits cur : list wvals) : list wvals := flat_map (fun p => filter (nd_dom p) fits) cur.

(* number of dominators inside cur = occurrences in dls *)
Lemma domcount_split fits prev cur d :
  NoDup fits -> NoDup cur -> (forall f, In f cur -> In f (remK fits prev)) ->
  domcount (remK fits prev) d = domcount cur d + domcount (remK fits (prev ++ cur)) d.
Proof.
  intros NDf NDc SUB. unfold domcount. rewrite remK_app.
  set (P := fun g => nd_dom g d). set (R := remK fits prev).
  pose proof (filter_length_split (fun f => inb f cur) (filter P R)) as S.
  assert (E1 : length (filter (fun f => inb f cur) (filter P R)) = length (filter P cur)).
  { apply Permutation_length. apply NoDup_Permutation.
    - apply NoDup_filter, NoDup_filter. unfold R, remK. apply NoDup_filter. assumption.
    - apply NoDup_filter. assumption.
    - intro x. rewrite !filter_In, inb_In. split.
      + intros [[I1 I2] I3]. auto.
      + intros [I1 I2]. auto. }
  assert (E2 : filter (fun x => negb (inb x cur)) (filter P R) = filter P (filter (fun f => negb (inb f cur)) R)).
  { rewrite !filter_filter. apply filter_ext. intro x. apply andb_comm. }
  cbn beta in S. rewrite E2 in S. unfold zlen. fold P. lia.
Qed.

Lemma step_inv fits prev cur c :
  NoDup fits -> Inv fits prev cur c ->
  (forall d, In d (dls fits cur) -> cocc (dls fits cur) d <= kget c d 0) /\
  Inv fits (prev ++ cur) (emit_keys (dls fits cur) c) (emit_cnt (dls fits cur) c).
Proof.
  intros NDf [NDc [MEMc [CNTc CLO]]].
  assert (SUB : forall f, In f cur -> In f (remK fits prev)) by (intros f Hf; apply MEMc; assumption).
  assert (INDS : forall d, In d (dls fits cur) <-> In d fits /\ exists p, In p cur /\ nd_dom p d = true).
  { intro d. unfold dls. rewrite in_flat_map. split.
    - intros [p [Hp Hd]]. apply filter_In in Hd. destruct Hd. eauto.
    - intros [Hd [p [Hp E]]]. exists p. split; [assumption|]. apply filter_In. auto. }
  assert (COCC : forall d, In d fits -> cocc (dls fits cur) d = domcount cur d).
  { intros d Hd. unfold dls. rewrite cocc_dls by assumption.
    assert (inb d fits = true) as -> by (apply inb_In; assumption). reflexivity. }
  assert (B : forall d, In d (dls fits cur) -> In d (remK fits (prev ++ cur))).
  { intros d Hd. apply INDS in Hd. destruct Hd as [Hf [p [Hp E]]].
    apply in_remK. split; [assumption|]. intro I. apply in_app_or in I. destruct I as [I|I].
    - rewrite (CLO p d (SUB p Hp) I) in E. discriminate.
    - apply MEMc in I. destruct I as [_ I]. rewrite ndK_true in I. rewrite (I p (SUB p Hp)) in E. discriminate. }
  assert (SPL : forall d, domcount (remK fits prev) d = domcount cur d + domcount (remK fits (prev ++ cur)) d).
  { intro d. apply domcount_split; assumption. }
  assert (HYP : forall d, In d (dls fits cur) -> cocc (dls fits cur) d <= kget c d 0).
  { intros d Hd. pose proof (B d Hd) as Hr. rewrite (CNTc d Hr), (SPL d), COCC.
    - unfold domcount at 3. pose proof (zlen_nonneg (filter (fun g => nd_dom g d) (remK fits (prev ++ cur)))). lia.
    - apply in_remK in Hr. tauto. }
  split; [exact HYP|].
  destruct (emit_spec (dls fits cur) c HYP) as [NDn [MEMn CNTn]].
  split; [exact NDn|split; [|split]].
  - intro d. rewrite MEMn. split.
    + intros [Hd E]. pose proof (B d Hd) as Hr. split; [assumption|].
      apply domcount_zero. rewrite (CNTc d Hr), (SPL d), COCC in E; [lia|]. apply in_remK in Hr; tauto.
    + intros [Hr ND0]. apply domcount_zero in ND0.
      assert (Hf : In d fits) by (apply in_remK in Hr; tauto).
      split.
      * apply INDS. split; [assumption|].
        assert (Hrp : In d (remK fits prev)).
        { apply in_remK in Hr. apply in_remK. split; [tauto|]. intro I. apply (proj2 Hr). apply in_or_app; auto. }
        assert (NC : ~ In d cur). { apply in_remK in Hr. intro I. apply (proj2 Hr). apply in_or_app; auto. }
        destruct (ndK (remK fits prev) d) eqn:E.
        -- exfalso. apply NC. apply MEMc. auto.
        -- apply ndK_false in E. destruct E as [g [Hg E]]. exists g. split; [|assumption].
           destruct (in_dec key_dec g cur) as [I|I]; [assumption|exfalso].
           apply domcount_zero in ND0. rewrite ndK_true in ND0.
           rewrite ND0 in E; [discriminate|]. apply in_remK in Hg. apply in_remK. split; [tauto|].
           intro J. apply in_app_or in J. tauto.
      * rewrite (CNTc d Hr), (SPL d), COCC by assumption. lia.
  - intros d Hd. rewrite CNTn.
    assert (Hr : In d (remK fits (prev ++ cur))).
    { rewrite remK_app in Hd. apply filter_In in Hd. tauto. }
    rewrite (CNTc d Hr), (SPL d), COCC; [lia|]. apply in_remK in Hr; tauto.
  - intros g f Hg Hf. apply in_app_or in Hf.
    assert (Hgp : In g (remK fits prev)).
    { apply in_remK in Hg. apply in_remK. split; [tauto|]. intro I. apply (proj2 Hg). apply in_or_app; auto. }
    destruct Hf as [Hf|Hf]; [apply CLO; assumption|].
    apply MEMc in Hf. destruct Hf as [_ Hf]. rewrite ndK_true in Hf. apply Hf. assumption.
Qed.

Lemma init_inv fits s cur :
  NoDup fits -> asym_on fits -> phase1 fits (mkst [] []) [] = (s, cur) ->
  Inv fits [] cur (cnt s) /\ (forall p, In p fits -> dl_of s p = filter (nd_dom p) fits).
Proof.
  intros ND AS P.
  destruct (phase1_spec fits [] (mkst [] []) [] s cur) as [[I1 _] C]; cbn [app]; auto.
  { split; [intros ? []|]. intros f Hf. split; reflexivity. }
  cbn [app] in *. rewrite app_nil_r in I1. subst cur.
  split; [|intros p Hp; apply I1; assumption].
  split; [apply NoDup_filter; assumption|split; [|split]].
  - intro f. rewrite remK_nil, filter_In, Z.eqb_eq, domcount_zero. reflexivity.
  - intros f Hf. rewrite remK_nil. cbn [app] in Hf. apply in_remK in Hf.
    destruct Hf as [Hf _]. apply I1. assumption.
  - intros g f _ [].
Qed.

(* ------------------------------------------------------------------------------------- *)
(* peeling: fuel independence, non-empty fronts                                          *)
Lemma same_len_sub (l l' : list wvals) : (forall x, In x l' -> In x l) -> same_len l -> same_len l'.
Proof. intros S H a b Ha Hb. apply H; apply S; assumption. Qed.

Lemma same_len_filter (P : ind -> bool) rem : same_len (map iw rem) -> same_len (map iw (filter P rem)).
Proof.
  apply same_len_sub. intros x Hx. apply in_map_iff in Hx. destruct Hx as [y [E Hy]].
  apply filter_In in Hy. apply in_map_iff. exists y. tauto.
Qed.

Lemma nondominated_true rem x : nondominated rem x = true <-> forall y, In y rem -> idom y x = false.
Proof.
  unfold nondominated. rewrite negb_true_iff. split.
  - intros H y Hy. destruct (idom y x) eqn:E; [|reflexivity].
    assert (existsb (fun y => idom y x) rem = true) by (apply existsb_exists; eauto). congruence.
  - intro H. destruct (existsb (fun y => idom y x) rem) eqn:E; [|reflexivity].
    apply existsb_exists in E. destruct E as [y [Hy E]]. rewrite (H y Hy) in E. discriminate.
Qed.

Lemma front_nonempty rem :
  rem <> [] -> same_len (map iw rem) -> exists x, In x (filter (nondominated rem) rem).
Proof.
  intros NE SL.
  destruct (exists_minimal idom rem NE) as [x [Hx Mx]].
  - intros a _. apply nd_dom_irrefl.
  - intros a b c Ha Hb Hc. unfold idom. apply (same_len_trans _ SL); apply in_map; assumption.
  - exists x. apply filter_In. split; [assumption|]. apply nondominated_true. assumption.
Qed.

Lemma peel_fuel n : forall m rem,
  same_len (map iw rem) -> (length rem <= n)%nat -> (length rem <= m)%nat -> peel n rem = peel m rem.
Proof.
  induction n as [|n IH]; intros m rem SL Hn Hm.
  - destruct rem; [|cbn in Hn; lia]. destruct m; reflexivity.
  - destruct rem as [|x rem]; [destruct m; reflexivity|].
    destruct m as [|m]; [cbn in Hm; lia|].
    cbn [peel]. f_equal.
    destruct (front_nonempty (x :: rem)) as [y Hy]; [discriminate|assumption|].
    apply filter_In in Hy. destruct Hy as [Hy1 Hy2].
    assert (L : (length (filter (fun x0 => negb (nondominated (x :: rem) x0)) (x :: rem)) < length (x :: rem))%nat).
    { apply filter_length_lt with (x := y); [assumption|]. rewrite Hy2. reflexivity. }
    apply IH; [apply same_len_filter; assumption| |]; cbn [length] in *; lia.
Qed.

(* ------------------------------------------------------------------------------------- *)
(* lifting from distinct fitnesses to individuals                                         *)
Section Lift.
  Variable pop : list ind.
  Hypothesis NDpop : NoDup pop.
  Hypothesis SL : same_len (map iw pop).
  Let fits := kkeys (group_inds pop).

  Lemma fits_nodup : NoDup fits.
  Proof. apply group_inds_nodup. Qed.
  Lemma fits_in f : In f fits <-> In f (map iw pop).
  Proof. apply group_inds_keys. Qed.
  Lemma fits_same_len : same_len fits.
  Proof. apply (same_len_sub (map iw pop)); [|assumption]. intros x Hx. apply fits_in. assumption. Qed.

  Definition remI (P : list wvals) : list ind := filter (fun x => negb (inb (iw x) P)) pop.

  Lemma in_remI P x : In x (remI P) <-> In x pop /\ ~ In (iw x) P.
  Proof. unfold remI. rewrite filter_In, negb_true_iff, inb_false. tauto. Qed.

  Lemma remI_same_len P : same_len (map iw (remI P)).
  Proof. apply same_len_filter. assumption. Qed.

  Lemma nondom_lift P x : nondominated (remI P) x = ndK (remK fits P) (iw x).
  Proof.
    apply eq_true_iff_eq. rewrite nondominated_true, ndK_true. split.
    - intros H g Hg. apply in_remK in Hg. destruct Hg as [Hg1 Hg2]. apply fits_in in Hg1.
      apply in_map_iff in Hg1. destruct Hg1 as [y [E Hy]]. subst g. apply (H y). apply in_remI. auto.
    - intros H y Hy. apply in_remI in Hy. destruct Hy as [Hy1 Hy2]. apply H. apply in_remK. split; [|assumption].
      apply fits_in. apply in_map. assumption.
  Qed.

  Lemma in_inds_of ks x : In x (inds_of pop ks) <-> In x pop /\ In (iw x) ks.
  Proof.
    unfold inds_of. rewrite in_flat_map. split.
    - intros [k [Hk Hx]]. apply in_group in Hx. destruct Hx; subst; auto.
    - intros [Hx Hk]. exists (iw x). split; [assumption|]. apply in_group. auto.
  Qed.

  Lemma NoDup_inds_of ks : NoDup ks -> NoDup (inds_of pop ks).
  Proof.
    induction ks as [|k ks IH]; intro ND; cbn; [constructor|].
    inversion ND; subst. apply NoDup_app_intro.
    - apply NoDup_filter. assumption.
    - apply IH. assumption.
    - intros x Hx Hx2. apply in_group in Hx. destruct Hx as [_ E]. apply in_inds_of in Hx2. subst. tauto.
  Qed.

  Lemma front_perm P next :
    NoDup next -> (forall d, In d next <-> In d (remK fits P) /\ ndK (remK fits P) d = true) ->
    Permutation (inds_of pop next) (filter (nondominated (remI P)) (remI P)).
  Proof.
    intros ND M. apply NoDup_Permutation.
    - apply NoDup_inds_of. assumption.
    - apply NoDup_filter, NoDup_filter. assumption.
    - intro x. rewrite in_inds_of, filter_In, in_remI, M, nondom_lift, in_remK, fits_in. split.
      + intros [Hx [[_ N] D]]. auto.
      + intros [[Hx N] D]. split; [assumption|]. split; [split; [apply in_map; assumption|assumption]|assumption].
  Qed.

  Lemma rest_eq P next :
    (forall d, In d next <-> In d (remK fits P) /\ ndK (remK fits P) d = true) ->
    filter (fun x => negb (nondominated (remI P) x)) (remI P) = remI (P ++ next).
  Proof.
    intro M. unfold remI at 2 3. rewrite filter_filter. apply filter_ext_in. intros x Hx.
    rewrite inb_app, negb_orb. destruct (inb (iw x) P) eqn:E; cbn [negb andb]; [reflexivity|].
    f_equal. rewrite nondom_lift. apply eq_true_iff_eq. rewrite inb_In, M, in_remK, fits_in. apply inb_false in E. split.
    - intro D. split; [split; [apply in_map; assumption|assumption]|assumption].
    - tauto.
  Qed.

  Lemma remI_remK_nonempty P : remI P <> [] -> remK fits P <> [].
  Proof.
    intros H E. destruct (remI P) as [|x l] eqn:R; [congruence|].
    assert (In x (remI P)) as I by (rewrite R; left; reflexivity). apply in_remI in I.
    assert (In (iw x) (remK fits P)) as J. { apply in_remK. split; [apply fits_in, in_map; tauto|tauto]. }
    rewrite E in J. destruct J.
  Qed.

  (* the while loop, against the specification *)
  Variable N : Z.
  Hypothesis HN : N <= zlen pop.

  Lemma nd_loop_spec (dlm : kmap (list wvals)) :
    (forall p, In p fits -> kget dlm p [] = filter (nd_dom p) fits) ->
    forall fuel prev cur c sorted fronts,
    Inv fits prev cur c ->
    sorted + zlen (remI (prev ++ cur)) = zlen pop ->
    (length (remK fits (prev ++ cur)) <= fuel)%nat ->
    exists more,
      nd_loop fuel (group_inds pop) dlm N c cur sorted fronts = Some (fronts ++ more) /\
      Forall2 (@Permutation ind) more
        (if sorted <? N then cut_reach N sorted (peel (length (remI (prev ++ cur))) (remI (prev ++ cur))) else []).
  Proof.
    intros DLM. induction fuel as [|fu IH]; intros prev cur c sorted fronts INV SRT FUEL.
    - cbn [nd_loop]. destruct (Z.ltb_spec sorted N) as [LT|GE].
      + exfalso. assert (remI (prev ++ cur) <> []) as NE.
        { intro E. rewrite E in SRT. cbn in SRT. lia. }
        apply remI_remK_nonempty in NE. destruct (remK fits (prev ++ cur)); [congruence|cbn in FUEL; lia].
      + exists []. rewrite app_nil_r. split; [reflexivity|constructor].
    - cbn [nd_loop]. destruct (Z.ltb_spec sorted N) as [LT|GE].
      2:{ exists []. rewrite app_nil_r. split; [reflexivity|constructor]. }
      set (P := prev ++ cur) in *.
      assert (NE : remI P <> []). { intro E. rewrite E in SRT. cbn in SRT. lia. }
      destruct (step_inv fits prev cur c fits_nodup INV) as [_ INV']. fold P in INV'.
      set (next := emit_keys (dls fits cur) c) in *. set (c' := emit_cnt (dls fits cur) c) in *.
      destruct INV' as [NDn [MEMn REST]].
      (* the pass computes next / c' *)
      assert (EXP : expand_front (group_inds pop) dlm cur (mkexp c [] sorted []) =
                    mkexp c' next (sorted + zlen (inds_of pop next)) (inds_of pop next)).
      { unfold expand_front. rewrite fold_left_flat_map.
        rewrite (flat_map_ext_in (fun fp => kget dlm fp []) (fun p => filter (nd_dom p) fits)).
        - rewrite expand_fold. cbn [e_cnt e_next e_sorted e_last app]. reflexivity.
        - intros p Hp. apply DLM. destruct INV as [_ [M _]]. apply M in Hp. destruct Hp as [Hp _].
          apply in_remK in Hp. tauto. }
      rewrite EXP. cbn [e_cnt e_next e_sorted e_last].
      pose proof (front_perm P next NDn MEMn) as PERM.
      pose proof (rest_eq P next MEMn) as RST.
      (* the new front is not empty *)
      destruct (front_nonempty (remI P) NE (remI_same_len P)) as [y Hy].
      assert (LEN : (length (remI (P ++ next)) < length (remI P))%nat).
      { rewrite <- RST. apply filter_In in Hy. destruct Hy as [Hy1 Hy2].
        apply filter_length_lt with (x := y); [assumption|]. rewrite Hy2. reflexivity. }
      assert (LENK : (length (remK fits (P ++ next)) < length (remK fits P))%nat).
      { apply filter_In in Hy. destruct Hy as [Hy1 Hy2]. rewrite nondom_lift in Hy2.
        assert (In (iw y) next) as I.
        { apply MEMn. split; [|assumption]. apply in_remI in Hy1. apply in_remK. split; [apply fits_in, in_map; tauto|tauto]. }
        rewrite remK_app. apply filter_length_lt with (x := iw y).
        - apply MEMn in I. tauto.
        - apply negb_false_iff, inb_In. assumption. }
      assert (SRT' : sorted + zlen (inds_of pop next) + zlen (remI (P ++ next)) = zlen pop).
      { rewrite <- SRT, <- RST. unfold zlen. rewrite (Permutation_length PERM).
        pose proof (filter_length_split (nondominated (remI P)) (remI P)). lia. }
      destruct (IH P next c' (sorted + zlen (inds_of pop next)) (fronts ++ [inds_of pop next])) as [more [E F]].
      { split; [assumption|split; assumption]. }
      { assumption. }
      { lia. }
      exists (inds_of pop next :: more). split.
      + rewrite E, <- app_assoc. reflexivity.
      + destruct (remI P) as [|x0 l0] eqn:RP; [congruence|]. cbn [length peel cut_reach]. rewrite <- RP in *.
        assert (ZL : zlen (filter (nondominated (remI P)) (remI P)) = zlen (inds_of pop next)).
        { unfold zlen. rewrite (Permutation_length PERM). reflexivity. }
        rewrite ZL, RST.
        assert (PF : peel (length l0) (remI (P ++ next)) = peel (length (remI (P ++ next))) (remI (P ++ next))).
        { apply peel_fuel; [apply remI_same_len| |lia]. rewrite RP in LEN. cbn [length] in LEN. lia. }
        rewrite PF.
        destruct (sorted + zlen (inds_of pop next) <? N).
        * constructor; assumption.
        * inversion F; subst. constructor; [assumption|constructor].
  Qed.
End Lift.

(* ------------------------------------------------------------------------------------- *)
(* main theorem                                                                          *)
Lemma remI_nil pop : remI pop [] = pop.
Proof. unfold remI. cbn. induction pop as [|x l IH]; cbn; [reflexivity|]. rewrite IH. reflexivity. Qed.

Lemma filter_length_le {A} (P : A -> bool) l : (length (filter P l) <= length l)%nat.
Proof. pose proof (filter_length_split P l). lia. Qed.

Lemma spec_fronts_unfold pop :
  pop <> [] ->
  spec_fronts pop = filter (nondominated pop) pop ::
                    peel (length pop - 1) (filter (fun x => negb (nondominated pop x)) pop).
Proof.
  intro NE. unfold spec_fronts. destruct pop as [|x l]; [congruence|].
  cbn [length]. replace (S (length l) - 1)%nat with (length l) by lia. reflexivity.
Qed.

Theorem sort_nd_correct pop k ffo :
  NoDup (map uid pop) -> same_len (map iw pop) -> pop <> [] ->
  exists fs, sort_nd pop k ffo = Some fs /\ Forall2 (@Permutation ind) fs (spec_sort pop k ffo).
Proof.
  intros NDu SL NE. assert (NDpop : NoDup pop) by (apply NoDup_map_inv in NDu; assumption).
  unfold sort_nd, spec_sort. destruct (k =? 0); [exists []; split; [reflexivity|constructor]|].
  set (fits := kkeys (group_inds pop)).
  destruct (phase1 fits (mkst [] []) []) as [s cur] eqn:P1.
  destruct (init_inv fits s cur (fits_nodup pop) (same_len_asym _ (fits_same_len pop SL)) P1) as [INV DLM].
  assert (F0 : flat_map (fun f => kget (group_inds pop) f []) cur = inds_of pop cur).
  { unfold inds_of. apply flat_map_ext_in. intros. apply group_inds_get. }
  rewrite F0.
  pose proof INV as [NDc [MEMc RESTc]].
  pose proof (front_perm pop NDpop [] cur NDc MEMc) as PERM. rewrite remI_nil in PERM.
  pose proof (rest_eq pop [] cur MEMc) as RST. rewrite remI_nil in RST. cbn [app] in RST.
  rewrite (spec_fronts_unfold pop NE), RST.
  destruct ffo.
  - exists [inds_of pop cur]. split; [reflexivity|]. cbn [firstn]. constructor; [assumption|constructor].
  - set (N := Z.min (zlen pop) k).
    destruct (front_nonempty pop NE SL) as [y Hy].
    assert (LEN : (length (remI pop cur) < length pop)%nat).
    { rewrite <- RST. apply filter_In in Hy. destruct Hy as [Hy1 Hy2].
      apply filter_length_lt with (x := y); [assumption|]. rewrite Hy2. reflexivity. }
    assert (ZL : zlen (filter (nondominated pop) pop) = zlen (inds_of pop cur)).
    { unfold zlen. rewrite (Permutation_length PERM). reflexivity. }
    destruct (nd_loop_spec pop NDpop SL N (Z.le_min_l _ _) (dl s) DLM (length fits) [] cur (cnt s)
                (zlen (inds_of pop cur)) [inds_of pop cur]) as [more [E F]].
    + exact INV.
    + cbn [app]. rewrite <- RST, <- ZL. unfold zlen.
      pose proof (filter_length_split (nondominated pop) pop). lia.
    + cbn [app]. unfold remK. apply filter_length_le.
    + exists ([inds_of pop cur] ++ more). split; [exact E|].
      cbn [app cut_reach]. rewrite Z.add_0_l, ZL. cbn [app] in F.
      assert (PF : peel (length pop - 1) (remI pop cur) = peel (length (remI pop cur)) (remI pop cur)).
      { apply peel_fuel; [apply remI_same_len; assumption| |]; lia. }
      rewrite PF. fold N. destruct (zlen (inds_of pop cur) <? N).
      * constructor; assumption.
      * inversion F; subst. constructor; [assumption|constructor].
Qed.

(* the empty population (outside the quantifier of the property): one empty front *)
Lemma sort_nd_empty k ffo : sort_nd [] k ffo = Some (if k =? 0 then [] else [[]]).
Proof.
  unfold sort_nd. destruct (k =? 0); [reflexivity|]. cbn. destruct ffo; [reflexivity|].
  destruct (0 <? Z.min 0 k) eqn:E; [|reflexivity]. apply Z.ltb_lt in E. lia.
Qed.
