(* C13 — the recombination weights of the EXECUTABLE model (Model/C13_CMAexec.v, the one the
   correspondence evaluates) instantiated at Coq's real numbers with the real logarithm:
   positive, non-increasing, summing to one, for the three schemes and every mu >= 1.
   (Standard-library Reals style; axioms: those of Coq's Reals.) *)
From Coq Require Import Reals List Lra Lia Arith.
From DV Require Import Model.C13_CMAexec.
Import ListNotations.
Local Open Scope R_scope.

Definition RNum : Num R :=
  mkNum R INR Rplus Rminus Rmult Rdiv sqrt exp ln
        (fun x y => if Rlt_dec x y then true else false)
        (fun x y => if Req_EM_T x y then true else false).

Lemma vsum_fold (l : list R) (a : R) : fold_left Rplus l a = a + fold_right Rplus 0 l.
Proof. revert a; induction l as [|x l IH]; intro a; cbn; [lra|]. rewrite IH. lra. Qed.

Lemma vsumR (l : list R) : vsum RNum l = fold_right Rplus 0 l.
Proof. unfold vsum; cbn. rewrite vsum_fold. lra. Qed.

Lemma sum_pos (l : list R) : l <> [] -> Forall (fun x => 0 < x) l -> 0 < fold_right Rplus 0 l.
Proof.
  induction l as [|x l IH]; [congruence|]. intros _ H. inversion H; subst. cbn.
  destruct l as [|y l]; [cbn; lra|].
  assert (0 < fold_right Rplus 0 (y :: l)) by (apply IH; [discriminate|assumption]). lra.
Qed.

Lemma sum_scaled (l : list R) (c : R) :
  fold_right Rplus 0 (map (fun x => x / c) l) = fold_right Rplus 0 l / c.
Proof. induction l as [|x l IH]; cbn; [lra|]. rewrite IH. lra. Qed.

Lemma nth_map' {A B} (f : A -> B) l i d d' :
  (i < length l)%nat -> nth i (map f l) d = f (nth i l d').
Proof. revert i; induction l as [|x l IH]; intros [|i] H; cbn in *; try lia; auto. apply IH. lia. Qed.

(* the raw weight of rank i (1-based) *)
Definition rawR (s : scheme) (mu : nat) (i : nat) : R :=
  match s with
  | Superlinear => ln (INR mu + 1 / 2) - ln (INR i)
  | Linear => INR mu + 1 / 2 - INR i
  | Equal => 1
  end.

Lemma raw_weights_eq s mu : raw_weights RNum s mu = map (rawR s mu) (seq 1 mu).
Proof.
  destruct s; unfold raw_weights.
  - apply map_ext. intro i. cbn. replace (1 + 1) with 2 by lra. reflexivity.
  - apply map_ext. intro i. cbn. replace (1 + 1) with 2 by lra. reflexivity.
  - cbn [n_of_nat RNum]. change (INR 1) with 1. change (rawR Equal mu) with (fun _ : nat => 1).
    generalize 1%nat. induction mu as [|m IH]; intro a; cbn; [reflexivity|]. now rewrite (IH (S a)).
Qed.

Lemma rawR_pos s mu i : (1 <= i <= mu)%nat -> 0 < rawR s mu i.
Proof.
  intros [H1 H2]. assert (Hi : 0 < INR i) by (apply lt_0_INR; lia).
  assert (Hle : INR i <= INR mu) by (apply le_INR; lia).
  destruct s; cbn.
  - assert (ln (INR i) < ln (INR mu + 1 / 2)) by (apply ln_increasing; lra). lra.
  - lra.
  - lra.
Qed.

Lemma rawR_noninc s mu i j : (1 <= i <= j)%nat -> rawR s mu j <= rawR s mu i.
Proof.
  intros [H1 H2]. assert (Hi : 0 < INR i) by (apply lt_0_INR; lia).
  assert (Hle : INR i <= INR j) by (apply le_INR; lia).
  destruct s; cbn; try lra.
  destruct (Req_dec (INR i) (INR j)) as [E|E]; [rewrite E; lra|].
  assert (ln (INR i) < ln (INR j)) by (apply ln_increasing; lra). lra.
Qed.

Theorem weights_pos_noninc_sum1_R (dim lambda_ : nat) (chiN : R) (k : kargs) :
  let mu := getd (k_mu k) (Nat.div lambda_ 2) in
  (1 <= mu)%nat ->
  let w := p_weights (compute_params RNum dim lambda_ chiN k) in
  length w = mu /\
  (forall i, (i < mu)%nat -> 0 < nth i w 0) /\
  (forall i j, (i <= j < mu)%nat -> nth j w 0 <= nth i w 0) /\
  vsum RNum w = 1.
Proof.
  intros mu Hmu w.
  set (s := k_weights k).
  set (rw := map (rawR s mu) (seq 1 mu)).
  set (sw := fold_right Rplus 0 rw).
  assert (Ew : w = map (fun x => x / sw) rw).
  { unfold w, compute_params; cbn. fold mu. fold s. rewrite raw_weights_eq. fold rw.
    rewrite vsumR. reflexivity. }
  assert (Hpos : Forall (fun x => 0 < x) rw).
  { apply Forall_forall. intros x Hx. apply in_map_iff in Hx. destruct Hx as [i [<- Hi]].
    apply in_seq in Hi. apply rawR_pos. lia. }
  assert (Hsw : 0 < sw).
  { apply sum_pos; auto. unfold rw. destruct mu; [lia|]. cbn. discriminate. }
  assert (Hnth : forall i, (i < mu)%nat -> nth i w 0 = rawR s mu (S i) / sw).
  { intros i Hi. rewrite Ew.
    rewrite (nth_map' _ rw i 0 0) by (unfold rw; rewrite map_length, seq_length; lia).
    unfold rw. rewrite (nth_map' _ (seq 1 mu) i 0 0%nat) by (rewrite seq_length; lia).
    rewrite seq_nth by lia. reflexivity. }
  split; [rewrite Ew; unfold rw; now rewrite !map_length, seq_length|].
  split; [|split].
  - intros i Hi. rewrite Hnth by lia. apply Rdiv_lt_0_compat; auto. apply rawR_pos. lia.
  - intros i j Hij. rewrite !Hnth by lia.
    apply Rmult_le_compat_r; [left; now apply Rinv_0_lt_compat|]. apply rawR_noninc. lia.
  - rewrite vsumR, Ew, sum_scaled. fold sw. field. lra.
Qed.

(* non-vacuity: lambda_ = 4, default mu = 2, superlinear *)
Example weights_R_example :
  let w := p_weights (compute_params RNum 5 4 0 (@mkKargs R None None Superlinear None None None None None None)) in
  length w = 2%nat /\ vsum RNum w = 1.
Proof.
  destruct (weights_pos_noninc_sum1_R 5 4 0 (@mkKargs R None None Superlinear None None None None None None)) as [L [_ [_ S]]].
  - cbn. lia.
  - split; [exact L|exact S].
Qed.
