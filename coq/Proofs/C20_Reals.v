(* C20: the real-number instance: unfolding tactics, sums, products, total power. *)
From Coq Require Import Reals ZArith List Bool Lia Lra.
From DV Require Import Base.PyList Base.C20_Num Model.C20_BenchSpec Proofs.C20_Lists.
Import ListNotations.
Local Open Scope R_scope.

(* unfold the class operations at the R instance (and the spec helpers), leaving real-number terms *)
Ltac numR :=
  cbv [nofZ nlit npi ne nadd nsub nmul ndiv nneg nabs nsqrt nsin ncos nexp nln npown npow nsum
       nltb nleb neqb nround ntrunc ngtb ngeb nneb NumR int natT sq x_ sum_over prod_over] in *.

(* decimal constants of the specification: dec n d  ~>  IZR n' / IZR d' in lowest terms, exactly the
   form the translator emits for the literal of the source *)
Ltac norm_dec :=
  repeat match goal with
  | |- context [@dec R NumR ?n ?d] =>
      let g := eval vm_compute in (Z.gcd n (Zpos d)) in
      let n' := eval vm_compute in (n / g)%Z in
      let d' := eval vm_compute in (Z.to_pos (Zpos d / g)) in
      match d' with
      | xH => change (@dec R NumR n d) with (IZR n')
      | _ => change (@dec R NumR n d) with (IZR n' / IZR (Zpos d'))
      end
  end.

Lemma dec_R n d : @dec R NumR n d = IZR n / IZR (Zpos d).
Proof.
  unfold dec.
  set (g := Z.gcd n (Z.pos d)).
  assert (Hg : (0 < g)%Z).
  { unfold g. pose proof (Z.gcd_nonneg n (Z.pos d)).
    destruct (Z.eq_dec (Z.gcd n (Z.pos d)) 0) as [E|E]; [|lia].
    apply Z.gcd_eq_0_r in E. lia. }
  destruct (Z.gcd_divide_l n (Z.pos d)) as [a Ha]. destruct (Z.gcd_divide_r n (Z.pos d)) as [b Hb].
  fold g in Ha, Hb.
  assert (Hb0 : (0 < b)%Z) by nia.
  transitivity (IZR (n / g) / IZR (Z.pos (Z.to_pos (Z.pos d / g)))).
  { cbv [nlit NumR]. destruct (Z.to_pos (Z.pos d / g)); try reflexivity. field. }
  rewrite Ha at 1. rewrite Z.div_mul by lia.
  rewrite Hb at 1. rewrite Z.div_mul by lia.
  rewrite Z2Pos.id by lia.
  rewrite Ha, Hb at 1. rewrite !mult_IZR.
  assert (IZR g <> 0) by (apply not_0_IZR; lia).
  assert (IZR b <> 0) by (apply not_0_IZR; lia).
  field. split; assumption.
Qed.

(* ---------------- sums ---------------- *)
Lemma Rsum_app a b : Rsum (a ++ b) = Rsum a + Rsum b.
Proof. unfold Rsum. induction a as [|x a IH]; cbn; [ring|]. rewrite IH. ring. Qed.

Lemma Rsum_map_ext {A} (f g : A -> R) l : (forall x, In x l -> f x = g x) -> Rsum (map f l) = Rsum (map g l).
Proof. intro H. f_equal. apply map_ext_in. exact H. Qed.

Lemma Rsum_map_const {A} (c : R) (l : list A) : Rsum (map (fun _ => c) l) = INR (length l) * c.
Proof.
  unfold Rsum. induction l as [|x l IH]; [cbn; ring|].
  cbn [map fold_right length]. rewrite IH, S_INR. ring.
Qed.

Lemma Rsum_map_plus {A} (f g : A -> R) l :
  Rsum (map (fun x => f x + g x) l) = Rsum (map f l) + Rsum (map g l).
Proof. unfold Rsum. induction l as [|x l IH]; cbn; [ring|]. rewrite IH. ring. Qed.

Lemma Rsum_map_scale {A} (c : R) (f : A -> R) l : Rsum (map (fun x => c * f x) l) = c * Rsum (map f l).
Proof. unfold Rsum. induction l as [|x l IH]; cbn; [ring|]. rewrite IH. ring. Qed.

Lemma Rsum_repeat c n : Rsum (repeat c n) = INR n * c.
Proof. unfold Rsum. induction n as [|n IH]; [cbn; ring|]. cbn [repeat fold_right]. rewrite IH, S_INR. ring. Qed.

Lemma Rsum_nonneg l : Forall (fun x => 0 <= x) l -> 0 <= Rsum l.
Proof. unfold Rsum. induction 1; cbn; lra. Qed.

Lemma Rsum_map_sq_nonneg {A} (f : A -> R) l : 0 <= Rsum (map (fun x => (f x) ^ 2) l).
Proof. apply Rsum_nonneg. apply Forall_forall. intros y Hy. apply in_map_iff in Hy. destruct Hy as (x & <- & _). apply pow2_ge_0. Qed.

(* a loop `value += e` is a sum *)
Lemma fold_left_add_sum {A} (f : A -> R) l acc : fold_left (fun v x => v + f x) l acc = acc + Rsum (map f l).
Proof.
  revert acc; induction l as [|x l IH]; intro acc; cbn; [unfold Rsum; cbn; ring|].
  rewrite IH. unfold Rsum. cbn. ring.
Qed.

(* ---------------- products ---------------- *)
Definition Rprod (l : list R) : R := fold_right Rmult 1 l.

Lemma fold_left_mul l a : fold_left Rmult l a = a * Rprod l.
Proof.
  revert a; induction l as [|x l IH]; intro a; cbn; [ring|]. rewrite IH. unfold Rprod. cbn. ring.
Qed.

Lemma reduce_mul l a : reduce Rmult l a = a * Rprod l.
Proof. apply fold_left_mul. Qed.

Lemma reduce_mul_fun l a : reduce (fun x y => x * y) l a = a * Rprod l.
Proof. apply fold_left_mul. Qed.

Lemma Rprod_app a b : Rprod (a ++ b) = Rprod a * Rprod b.
Proof. unfold Rprod. induction a as [|x a IH]; cbn; [ring|]. rewrite IH. ring. Qed.

Lemma Rprod_repeat_1 n : Rprod (repeat 1 n) = 1.
Proof. unfold Rprod. induction n; cbn; [reflexivity|]. rewrite IHn. ring. Qed.

(* ---------------- conversions ---------------- *)
Lemma IZR_of_nat n : IZR (Z.of_nat n) = INR n.
Proof. symmetry. apply INR_IZR_INZ. Qed.

Lemma IZR_zlen {A} (l : list A) : IZR (zlen l) = INR (length l).
Proof. unfold zlen. apply IZR_of_nat. Qed.

(* ---------------- total power ---------------- *)
Lemma Rpow_total_sqrt u : 0 <= u -> Rpow_total u (1 / 2) = sqrt u.
Proof.
  intro Hu. unfold Rpow_total. destruct (Rlt_dec 0 u) as [P|NP].
  - replace (1 / 2) with (/ 2) by lra. apply Rpower_sqrt. exact P.
  - assert (u = 0) by lra. subst u. destruct (Req_EM_T 0 0) as [_|N]; [|lra].
    destruct (Req_EM_T (1 / 2) 0) as [E|_]; [lra|]. symmetry. apply sqrt_0.
Qed.

Lemma Rpow_total_0 y : y <> 0 -> Rpow_total 0 y = 0.
Proof.
  intro Hy. unfold Rpow_total. destruct (Rlt_dec 0 0) as [P|_]; [lra|].
  destruct (Req_EM_T 0 0) as [_|N]; [|lra]. destruct (Req_EM_T y 0); [contradiction|reflexivity].
Qed.

Lemma Rpow_total_pos x y : 0 < x -> Rpow_total x y = exp (y * ln x).
Proof. intro Hx. unfold Rpow_total. destruct (Rlt_dec 0 x); [reflexivity|lra]. Qed.

Lemma Rpow_total_1 y : Rpow_total 1 y = 1.
Proof. rewrite Rpow_total_pos by lra. rewrite ln_1, Rmult_0_r. apply exp_0. Qed.

Lemma Rltb_true a b : a < b -> Rltb a b = true.
Proof. intro. unfold Rltb. destruct (Rlt_dec a b); [reflexivity|contradiction]. Qed.
Lemma Rltb_false a b : ~ a < b -> Rltb a b = false.
Proof. intro. unfold Rltb. destruct (Rlt_dec a b); [contradiction|reflexivity]. Qed.
