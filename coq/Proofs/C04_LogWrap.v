(* sortLogNondominated, part 1: the wrapper around the rank computation.
   If the rank map handed back by sortNDHelperA satisfies the rank recurrence
   (rank f = 0 or 1 + the largest rank of a dominator), the fronts extracted, cut to k or
   reduced to the first one are exactly spec_sort. *)
From Coq Require Import List ZArith Bool Lia Permutation.
From DV Require Import Base.PyTuple Base.PyList Model.C01_Fitness Proofs.C01_Fitness Model.C04_NDSort
  Model.C04_LogSort Proofs.C04_NDSort Proofs.C04_NDLoop Proofs.C04_Spec.
Import ListNotations.
Local Open Scope Z_scope.

(* ---- list.sort(reverse=True) is a permutation ---- *)
Lemma ins_desc_perm x l : Permutation (ins_desc x l) (x :: l).
Proof.
  induction l as [|y r IH]; cbn; [constructor; constructor|].
  destruct (tup_lt y x); [apply Permutation_refl|].
  eapply Permutation_trans; [apply perm_skip, IH|apply perm_swap].
Qed.
Lemma sort_desc_perm l : Permutation (sort_desc l) l.
Proof.
  unfold sort_desc. assert (G : forall acc, Permutation (fold_left (fun a x => ins_desc x a) l acc) (acc ++ l)).
  { induction l as [|x l IH]; intro acc; cbn [fold_left]; [rewrite app_nil_r; apply Permutation_refl|].
    eapply Permutation_trans; [apply IH|]. eapply Permutation_trans; [apply Permutation_app_tail, ins_desc_perm|].
    cbn. apply Permutation_middle. }
  apply (G []).
Qed.

(* ---- the rank recurrence ---- *)
Definition rank_rec (fits : list wvals) (front : fmap) : Prop :=
  (forall f, In f fits -> 0 <= fget front f) /\
  (forall g f, In g fits -> In f fits -> nd_dom g f = true -> fget front g + 1 <= fget front f) /\
  (forall f, In f fits -> fget front f = 0 \/
      exists g, In g fits /\ nd_dom g f = true /\ fget front f = fget front g + 1).

(* ---- peeling by levels of a rank function on individuals ---- *)
Section Levels.
  Variable pop : list ind.
  Variable rk : ind -> Z.
  Hypothesis SL : same_len (map iw pop).
  Hypothesis R0 : forall x, In x pop -> 0 <= rk x.
  Hypothesis R1 : forall x y, In x pop -> In y pop -> idom y x = true -> rk y + 1 <= rk x.
  Hypothesis R2 : forall x, In x pop -> rk x = 0 \/ exists y, In y pop /\ idom y x = true /\ rk x = rk y + 1.

  Definition lev (i : Z) : list ind := filter (fun x => rk x =? i) pop.
  Definition above (i : Z) : list ind := filter (fun x => i <=? rk x) pop.

  Lemma in_above i x : In x (above i) <-> In x pop /\ i <= rk x.
  Proof. unfold above. rewrite filter_In, Z.leb_le. tauto. Qed.

  Lemma nd_above i x : In x pop -> 0 <= i -> i <= rk x -> (nondominated (above i) x = true <-> rk x = i).
  Proof.
    intros Hx I0 Hi. rewrite nondominated_true. split.
    - intro H. destruct (Z.eq_dec (rk x) i) as [|N]; [assumption|exfalso].
      destruct (R2 x Hx) as [Z0|[y [Hy [D E]]]]; [lia|].
      assert (In y (above i)) as Ya by (apply in_above; split; [assumption|lia]).
      rewrite (H y Ya) in D. discriminate.
    - intros E y Hy. apply in_above in Hy. destruct Hy as [Hy1 Hy2].
      destruct (idom y x) eqn:D; [|reflexivity]. pose proof (R1 x y Hx Hy1 D). lia.
  Qed.

  Lemma front_of_above i : 0 <= i -> filter (nondominated (above i)) (above i) = lev i.
  Proof.
    intro I0. unfold above at 2, lev. rewrite filter_filter. apply filter_ext_in. intros x Hx.
    destruct (Z.leb_spec i (rk x)) as [L|L]; cbn [andb].
    - apply eq_true_iff_eq. rewrite (nd_above i x Hx I0 L), Z.eqb_eq. reflexivity.
    - symmetry. apply Z.eqb_neq. lia.
  Qed.

  Lemma rest_of_above i : 0 <= i -> filter (fun x => negb (nondominated (above i) x)) (above i) = above (i + 1).
  Proof.
    intro I0. unfold above at 2 3. rewrite filter_filter. apply filter_ext_in. intros x Hx.
    destruct (Z.leb_spec i (rk x)) as [L|L]; cbn [andb].
    - apply eq_true_iff_eq. rewrite negb_true_iff, Z.leb_le.
      destruct (nondominated (above i) x) eqn:N.
      + apply (nd_above i x Hx I0 L) in N. split; [discriminate|lia].
      + split; [intros _|reflexivity]. destruct (Z.eq_dec (rk x) i) as [E|E]; [|lia].
        apply (nd_above i x Hx I0 L) in E. congruence.
    - symmetry. apply Z.leb_gt. lia.
  Qed.

  Lemma above_0 : above 0 = pop.
  Proof.
    unfold above. induction pop as [|x l IH] in R0 |- *; cbn; [reflexivity|].
    assert (0 <=? rk x = true) as -> by (apply Z.leb_le, R0; left; reflexivity).
    f_equal. apply IH. intros y Hy. apply R0. right; assumption.
  Qed.

  Lemma above_same_len i : same_len (map iw (above i)).
  Proof. apply same_len_filter. assumption. Qed.

  (* number of levels *)
  Variable top : Z.    (* the largest rank *)
  Hypothesis TOP1 : forall x, In x pop -> rk x <= top.
  Hypothesis TOP2 : exists x, In x pop /\ rk x = top.

  Lemma above_nonempty i : i <= top -> above i <> [].
  Proof.
    intros Hi E. destruct TOP2 as [x [Hx Ex]].
    assert (In x (above i)) as I by (apply in_above; split; [assumption|lia]). rewrite E in I. destruct I.
  Qed.
  Lemma above_empty i : top < i -> above i = [].
  Proof.
    intro Hi. destruct (above i) as [|x l] eqn:E; [reflexivity|].
    assert (In x (above i)) as I by (rewrite E; left; reflexivity). apply in_above in I.
    destruct I as [I1 I2]. pose proof (TOP1 x I1). lia.
  Qed.

  Lemma peel_levels n : forall i, 0 <= i <= top + 1 -> (length (above i) <= n)%nat ->
    peel n (above i) = map (fun j => lev (i + Z.of_nat j)) (seq 0 (Z.to_nat (top + 1 - i))).
  Proof.
    induction n as [|n IH]; intros i Hi L.
    - assert (E : above i = []) by (destruct (above i); [reflexivity|cbn in L; lia]).
      destruct (Z.eq_dec i (top + 1)) as [->|N].
      + replace (top + 1 - (top + 1)) with 0 by lia. reflexivity.
      + exfalso. apply (above_nonempty i); [lia|assumption].
    - destruct (Z.eq_dec i (top + 1)) as [->|N].
      + rewrite above_empty by lia. replace (top + 1 - (top + 1)) with 0 by lia. reflexivity.
      + assert (NE : above i <> []) by (apply above_nonempty; lia).
        destruct (above i) as [|x0 l0] eqn:E; [congruence|]. rewrite <- E in *.
        replace (peel (S n) (above i)) with
          (filter (nondominated (above i)) (above i) :: peel n (filter (fun x => negb (nondominated (above i) x)) (above i)))
          by (rewrite E; reflexivity).
        rewrite front_of_above, rest_of_above by lia.
        replace (Z.to_nat (top + 1 - i)) with (S (Z.to_nat (top + 1 - (i + 1)))) by lia.
        cbn [seq map]. rewrite Z.add_0_r. f_equal.
        rewrite IH; [|lia|].
        * rewrite <- seq_shift, map_map. apply map_ext. intro j. f_equal. lia.
        * destruct (front_nonempty (above i) NE (above_same_len i)) as [y Hy].
          apply filter_In in Hy. destruct Hy as [Hy1 Hy2].
          assert (LT : (length (filter (fun x => negb (nondominated (above i) x)) (above i)) < length (above i))%nat).
          { apply filter_length_lt with (x := y); [assumption|]. rewrite Hy2. reflexivity. }
          rewrite rest_of_above in LT by lia. lia.
  Qed.

  Lemma spec_fronts_levels :
    spec_fronts pop = map (fun j => lev (Z.of_nat j)) (seq 0 (Z.to_nat (top + 1))).
  Proof.
    unfold spec_fronts. rewrite <- above_0 at 2. rewrite peel_levels.
    - rewrite Z.sub_0_r. apply map_ext. intro j. reflexivity.
    - destruct TOP2 as [x [Hx Ex]]. pose proof (R0 x Hx). lia.
    - rewrite above_0. lia.
  Qed.
End Levels.

(* ---- max(front.values()) ---- *)
Lemma fold_max_ge r : forall x y, In y (x :: r) -> y <= fold_left Z.max r x.
Proof.
  induction r as [|a r IH]; intros x y H; cbn [fold_left].
  - destruct H as [->|[]]. lia.
  - destruct H as [->|[->|H]].
    + specialize (IH (Z.max y a) (Z.max y a) (or_introl eq_refl)). lia.
    + specialize (IH (Z.max x y) (Z.max x y) (or_introl eq_refl)). lia.
    + apply IH. right; assumption.
Qed.
Lemma fold_max_in r : forall x, In (fold_left Z.max r x) (x :: r).
Proof.
  induction r as [|a r IH]; intro x; cbn [fold_left]; [left; reflexivity|].
  destruct (IH (Z.max x a)) as [E|H].
  - rewrite <- E. destruct (Z.max_spec x a) as [[_ M]|[_ M]]; rewrite M; [right; left|left]; reflexivity.
  - right; right; assumption.
Qed.

Lemma kget_in_nodup {V} (m : kmap V) k v d : NoDup (kkeys m) -> In (k, v) m -> kget m k d = v.
Proof.
  induction m as [|[k' v'] r IH]; intros ND H; [destruct H|]. cbn in ND. inversion ND as [|? ? N1 N2]; subst.
  cbn [kget]. destruct H as [E|H].
  - inversion E; subst. rewrite key_eqb_refl. reflexivity.
  - destruct (key_eqb k' k) eqn:E; [|apply IH; assumption].
    apply key_eqb_eq in E. subst. exfalso. apply N1. unfold kkeys. apply in_map_iff. exists (k, v). auto.
Qed.
Lemma kget_in_keys {V} (m : kmap V) k d : In k (kkeys m) -> In (k, kget m k d) m.
Proof.
  induction m as [|[k' v'] r IH]; intro H; [destruct H|]. cbn [kget].
  destruct (key_eqb k' k) eqn:E.
  - apply key_eqb_eq in E. subst. left; reflexivity.
  - right. apply IH. destruct H as [H|H]; [cbn in H; subst; rewrite key_eqb_refl in E; discriminate|assumption].
Qed.

(* ---- pareto_fronts[front[fit]].extend(unique_fits[fit]) ---- *)
Lemma app_at_map_seq {A} (g : nat -> list A) n i x : (i < n)%nat ->
  app_at (map g (seq 0 n)) i x = map (fun j => if Nat.eqb j i then g j ++ x else g j) (seq 0 n).
Proof.
  assert (G : forall s n i, (i < n)%nat ->
    app_at (map g (seq s n)) i x = map (fun j => if Nat.eqb j (s + i) then g j ++ x else g j) (seq s n)).
  { intros s n'. revert s. induction n' as [|n' IH]; intros s i' H; [lia|]. cbn [seq map app_at]. destruct i' as [|i'].
    - rewrite Nat.add_0_r, Nat.eqb_refl. f_equal. apply map_ext_in. intros j Hj. apply in_seq in Hj.
      destruct (Nat.eqb_spec j s); [lia|reflexivity].
    - destruct (Nat.eqb_spec s (s + S i')); [lia|]. f_equal. rewrite IH by lia.
      apply map_ext. intro j. replace (S s + i')%nat with (s + S i')%nat by lia. reflexivity. }
  intro H. apply (G 0%nat n i H).
Qed.

Lemma inds_of_app pop a b : inds_of pop (a ++ b) = inds_of pop a ++ inds_of pop b.
Proof. unfold inds_of. apply flat_map_app. Qed.

Lemma log_extract_spec pop sorted (front : fmap) nbN :
  (forall f, In f sorted -> 0 <= fget front f < Z.of_nat nbN) ->
  fold_left (fun pf fit => app_at pf (Z.to_nat (fget front fit)) (kget (group_inds pop) fit []))
            sorted (repeat [] nbN) =
  map (fun j => inds_of pop (filter (fun f => fget front f =? Z.of_nat j) sorted)) (seq 0 nbN).
Proof.
  intro H.
  assert (G : forall rest done, (forall f, In f rest -> 0 <= fget front f < Z.of_nat nbN) ->
    fold_left (fun pf fit => app_at pf (Z.to_nat (fget front fit)) (kget (group_inds pop) fit []))
              rest (map (fun j => inds_of pop (filter (fun f => fget front f =? Z.of_nat j) done)) (seq 0 nbN)) =
    map (fun j => inds_of pop (filter (fun f => fget front f =? Z.of_nat j) (done ++ rest))) (seq 0 nbN)).
  { induction rest as [|f rest IH]; intros done Hr; cbn [fold_left]; [rewrite app_nil_r; reflexivity|].
    rewrite app_at_map_seq by (specialize (Hr f (or_introl eq_refl)); lia).
    rewrite group_inds_get.
    replace (done ++ f :: rest) with ((done ++ [f]) ++ rest) by (rewrite <- app_assoc; reflexivity).
    rewrite <- IH by (intros; apply Hr; right; assumption). f_equal.
    apply map_ext_in. intros j Hj. rewrite filter_app, inds_of_app. cbn [filter].
    specialize (Hr f (or_introl eq_refl)).
    destruct (Nat.eqb_spec j (Z.to_nat (fget front f))) as [E|E].
    - assert (fget front f =? Z.of_nat j = true) as -> by (apply Z.eqb_eq; lia).
      unfold inds_of at 3. cbn [flat_map]. rewrite app_nil_r. reflexivity.
    - assert (fget front f =? Z.of_nat j = false) as -> by (apply Z.eqb_neq; lia).
      unfold inds_of at 3. cbn [flat_map]. rewrite app_nil_r. reflexivity. }
  specialize (G sorted [] H). cbn [app] in G. rewrite <- G. f_equal.
  clear. induction nbN as [|n IH]; [reflexivity|]. rewrite seq_S, map_app. cbn [repeat map].
  rewrite <- IH. clear. induction n; cbn; [reflexivity|f_equal; assumption].
Qed.

(* ---- the cut to k ---- *)
Lemma log_cut_is_cut_reach {A} k (fs : list (list A)) : forall acc,
  Forall (fun F => F <> []) fs ->
  log_cut k acc fs = cut_reach (Z.min (acc + ztotal fs) k) acc fs.
Proof.
  induction fs as [|F r IH]; intros acc NE; [reflexivity|]. cbn [log_cut cut_reach]. rewrite ztotal_cons.
  inversion NE as [|? ? NF NR]; subst.
  pose proof (zlen_nonneg (concat r)) as NN. fold (ztotal r) in NN.
  destruct (Z.geb_spec (acc + zlen F) k) as [G|G].
  - destruct (Z.ltb_spec (acc + zlen F) (Z.min (acc + (zlen F + ztotal r)) k)); [lia|reflexivity].
  - destruct (Z.ltb_spec (acc + zlen F) (Z.min (acc + (zlen F + ztotal r)) k)) as [L|L].
    + rewrite IH by assumption. f_equal. f_equal. lia.
    + assert (ztotal r = 0) by lia. destruct r as [|F2 r2]; [reflexivity|exfalso].
      rewrite ztotal_cons in H. inversion NR as [|? ? NF2 _]; subst.
      pose proof (zlen_nonneg (concat r2)). fold (ztotal r2) in *.
      destruct F2; [congruence|]. rewrite zlen_cons in H. pose proof (zlen_nonneg F2). lia.
Qed.

Lemma cut_reach_forall2 {A} t (fs gs : list (list A)) : Forall2 (@Permutation A) fs gs ->
  forall acc, Forall2 (@Permutation A) (cut_reach t acc fs) (cut_reach t acc gs).
Proof.
  induction 1 as [|F G fs gs P _ IH]; intro acc; [constructor|]. cbn [cut_reach].
  assert (zlen F = zlen G) as -> by (unfold zlen; rewrite (Permutation_length P); reflexivity).
  destruct (acc + zlen G <? t); constructor; auto.
Qed.

Lemma Forall2_map_seq {A B} (R : A -> B -> Prop) (g : nat -> A) (h : nat -> B) l :
  (forall j, In j l -> R (g j) (h j)) -> Forall2 R (map g l) (map h l).
Proof. induction l as [|j l IH]; intro H; cbn; constructor; [apply H; left; reflexivity|apply IH; intros; apply H; right; assumption]. Qed.

Lemma nonempty_has_elem {A} (l : list A) : l <> [] -> exists x, In x l.
Proof. destruct l as [|x l]; [congruence|]. intros _. exists x. left; reflexivity. Qed.

(* ---- the wrapper ---- *)
Section Wrapper.
  Variable pop : list ind.
  Hypothesis NDu : NoDup (map uid pop).
  Hypothesis SL : same_len (map iw pop).
  Hypothesis NE : pop <> [].
  Local Notation fits := (kkeys (group_inds pop)).
  Variables (sorted : list wvals) (front : fmap).
  Hypothesis SORTED : Permutation sorted fits.
  Hypothesis KEYS : kkeys front = fits.
  Hypothesis RANK : rank_rec fits front.

  Lemma NDpop : NoDup pop.
  Proof. apply NoDup_map_inv in NDu. assumption. Qed.

  Definition rk (x : ind) : Z := fget front (iw x).
  Definition top : Z := zmax_list (map snd front) 0.

  Lemma fits_of_pop x : In x pop -> In (iw x) fits.
  Proof. intro H. apply fits_in. apply in_map. assumption. Qed.

  Lemma front_nonempty_map : front <> [].
  Proof.
    destruct (nonempty_has_elem pop NE) as [x Hx]. intro F.
    assert (In (iw x) fits) as H by (apply fits_of_pop; assumption).
    rewrite <- KEYS, F in H. destruct H.
  Qed.

  Lemma top_ge f : In f fits -> fget front f <= top.
  Proof.
    intro H. rewrite <- KEYS in H. apply (kget_in_keys front f 0) in H.
    apply (in_map snd) in H. cbn [snd] in H. unfold top, zmax_list.
    destruct (map snd front) as [|v r] eqn:E; [destruct H|]. apply fold_max_ge. assumption.
  Qed.

  Lemma top_attained : exists x, In x pop /\ rk x = top.
  Proof.
    pose proof front_nonempty_map as FN. unfold top, zmax_list.
    destruct (map snd front) as [|v r] eqn:E; [destruct front; [congruence|discriminate]|].
    pose proof (fold_max_in r v) as I. rewrite <- E in I. apply in_map_iff in I. destruct I as [[f w] [Ew I]].
    cbn [snd] in Ew.
    assert (fget front f = w) as G. { apply kget_in_nodup; [rewrite KEYS; apply fits_nodup|assumption]. }
    assert (In f fits) as Hf. { rewrite <- KEYS. unfold kkeys. apply in_map_iff. exists (f, w). auto. }
    apply fits_in, in_map_iff in Hf. destruct Hf as [x [Ex Hx]]. exists x. split; [assumption|].
    unfold rk. rewrite Ex, G, Ew. reflexivity.
  Qed.

  Lemma rk_R0 x : In x pop -> 0 <= rk x.
  Proof. intro H. apply RANK. apply fits_of_pop. assumption. Qed.
  Lemma rk_R1 x y : In x pop -> In y pop -> idom y x = true -> rk y + 1 <= rk x.
  Proof. intros Hx Hy D. destruct RANK as [_ [R _]]. apply R; [apply fits_of_pop| apply fits_of_pop|]; assumption. Qed.
  Lemma rk_R2 x : In x pop -> rk x = 0 \/ exists y, In y pop /\ idom y x = true /\ rk x = rk y + 1.
  Proof.
    intro Hx. destruct RANK as [_ [_ R]]. destruct (R (iw x) (fits_of_pop x Hx)) as [Z0|[g [Hg [D E]]]]; [left; assumption|right].
    apply fits_in, in_map_iff in Hg. destruct Hg as [y [Ey Hy]]. exists y. subst g. auto.
  Qed.

  Theorem log_extract_correct :
    Forall2 (@Permutation ind) (log_extract pop sorted front) (spec_fronts pop).
  Proof.
    assert (T0 : 0 <= top). { destruct top_attained as [x [Hx Ex]]. pose proof (rk_R0 x Hx). lia. }
    rewrite (spec_fronts_levels pop rk SL rk_R0 rk_R1 rk_R2 top); [| |exact top_attained].
    2:{ intros x Hx. apply top_ge, fits_of_pop. assumption. }
    unfold log_extract. fold top.
    assert (SIN : forall f, In f sorted <-> In f fits).
    { intro f. split; apply Permutation_in; [assumption|apply Permutation_sym; assumption]. }
    rewrite (log_extract_spec pop sorted front (Z.to_nat (top + 1))).
    2:{ intros f Hf. apply SIN in Hf. split; [apply RANK; assumption|]. pose proof (top_ge f Hf). lia. }
    apply Forall2_map_seq. intros j _.
    apply NoDup_Permutation.
    - apply NoDup_inds_of; [apply NDpop|]. apply NoDup_filter.
      apply (Permutation_NoDup (Permutation_sym SORTED)). apply fits_nodup.
    - apply NoDup_filter. apply NDpop.
    - intro x. unfold lev. rewrite in_inds_of, !filter_In, SIN. unfold rk. split.
      + tauto.
      + intros [Hx E]. split; [assumption|]. split; [apply fits_of_pop; assumption|assumption].
  Qed.

  Theorem log_wrapper_correct k ffo :
    log_ranks pop = Some (sorted, front) ->
    exists r, sort_log pop k ffo = Some r /\ Forall2 (@Permutation ind) (log_fronts r) (spec_sort pop k ffo).
  Proof.
    intro LR. unfold sort_log, spec_sort. destruct (k =? 0); [exists (LFronts []); split; [reflexivity|constructor]|].
    rewrite LR. pose proof log_extract_correct as F.
    set (pf := log_extract pop sorted front) in *.
    destruct ffo.
    - exists (LFlat (nth 0 pf [])). split; [reflexivity|]. cbn [log_fronts].
      rewrite (spec_fronts_unfold pop NE) in *. inversion F; subst. cbn. constructor; [assumption|constructor].
    - exists (LFronts (log_cut k 0 pf)). split; [reflexivity|]. cbn [log_fronts].
      assert (NEF : Forall (fun G => G <> []) pf).
      { pose proof (peel_nonempty (length pop) pop SL) as NS. fold (spec_fronts pop) in NS.
        clear - F NS. induction F; constructor; inversion NS; subst; auto.
        intro E. subst. apply Permutation_nil in H. congruence. }
      rewrite log_cut_is_cut_reach by assumption. cbn [Z.add].
      assert (T : ztotal pf = zlen pop).
      { unfold ztotal, zlen. rewrite (Permutation_length (forall2_concat_perm _ _ F)).
        rewrite (Permutation_length (spec_fronts_partition pop SL)). reflexivity. }
      rewrite T. apply cut_reach_forall2. assumption.
  Qed.
End Wrapper.
