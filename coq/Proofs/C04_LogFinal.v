(* sortLogNondominated, part 7: the full statement, and agreement of the two procedures. *)
From Coq Require Import List ZArith Bool Lia Permutation.
From DV Require Import Base.PyTuple Base.PyList Model.C04_NDSort Model.C04_LogSort
  Proofs.C04_NDSort Proofs.C04_NDLoop Proofs.C04_Spec Proofs.C04_LogWrap Proofs.C04_LogTop Proofs.C04_LogFuel.
Import ListNotations.
Local Open Scope Z_scope.

Theorem sort_log_correct pop k ffo :
  NoDup (map uid pop) -> same_len (map iw pop) -> pop <> [] -> (forall x, In x pop -> (2 <= length (iw x))%nat) ->
  exists r, sort_log pop k ffo = Some r /\ Forall2 (@Permutation ind) (log_fronts r) (spec_sort pop k ffo).
Proof.
  intros NDu SL NE L2. destruct (log_ranks_total pop NE L2) as [sorted [front LR]].
  exact (sort_log_correct_if_ranks pop k ffo sorted front NDu SL NE L2 LR).
Qed.

(* the quadratic and the divide-and-conquer procedure always produce the same ranking *)
Theorem sorts_agree pop k ffo :
  NoDup (map uid pop) -> same_len (map iw pop) -> pop <> [] -> (forall x, In x pop -> (2 <= length (iw x))%nat) ->
  exists fs r, sort_nd pop k ffo = Some fs /\ sort_log pop k ffo = Some r /\
               Forall2 (@Permutation ind) (log_fronts r) fs.
Proof.
  intros NDu SL NE L2. destruct (sort_nd_correct pop k ffo NDu SL NE) as [fs [E1 P1]].
  destruct (sort_log_correct pop k ffo NDu SL NE L2) as [r [E2 P2]].
  exists fs, r. split; [assumption|split; [assumption|]].
  eapply forall2_perm_trans; [exact P2|apply forall2_perm_sym; exact P1].
Qed.

(* return shapes *)
Theorem sort_log_shape pop k ffo r :
  sort_log pop k ffo = Some r ->
  match r with LFlat _ => ffo = true /\ k <> 0 | LFronts _ => ffo = false \/ k = 0 end.
Proof.
  unfold sort_log. destruct (Z.eqb_spec k 0) as [->|N]; [intro E; inversion E; right; reflexivity|].
  destruct (log_ranks pop) as [[s f]|]; [|discriminate]. destruct ffo; intro E; inversion E; auto.
Qed.

Section LogCorollaries.
  Variables (pop : list ind) (k : Z) (ffo : bool) (r : log_result).
  Hypothesis NDu : NoDup (map uid pop).
  Hypothesis SL : same_len (map iw pop).
  Hypothesis NE : pop <> [].
  Hypothesis L2 : forall x, In x pop -> (2 <= length (iw x))%nat.
  Hypothesis RES : sort_log pop k ffo = Some r.

  Lemma log_res_perm : Forall2 (@Permutation ind) (log_fronts r) (spec_sort pop k ffo).
  Proof. destruct (sort_log_correct pop k ffo NDu SL NE L2) as [r' [E F]]. rewrite RES in E. inversion E; subst. exact F. Qed.

  Theorem log_elements_are_inputs x : In x (concat (log_fronts r)) -> In x pop.
  Proof. apply (gen_elements_are_inputs pop k ffo (log_fronts r)). exact log_res_perm. Qed.
  Theorem log_each_once : NoDup (map uid (concat (log_fronts r))).
  Proof. apply (gen_each_once pop k ffo (log_fronts r) NDu SL). exact log_res_perm. Qed.
  Theorem log_same_fitness_same_front F x y :
    In F (log_fronts r) -> In x F -> In y pop -> iw x = iw y -> In y F.
  Proof. apply (gen_same_fitness_same_front pop k ffo (log_fronts r)). exact log_res_perm. Qed.
End LogCorollaries.

Theorem log_k0 pop ffo : sort_log pop 0 ffo = Some (LFronts []).
Proof. reflexivity. Qed.

Theorem log_first_front_only pop k :
  NoDup (map uid pop) -> same_len (map iw pop) -> pop <> [] -> (forall x, In x pop -> (2 <= length (iw x))%nat) -> k <> 0 ->
  exists F, sort_log pop k true = Some (LFlat F) /\ NoDup (map uid F) /\
            forall x, In x F <-> In x pop /\ forall y, In y pop -> idom y x = false.
Proof.
  intros NDu SL NE L2 K. destruct (sort_log_correct pop k true NDu SL NE L2) as [r [E P]].
  pose proof (sort_log_shape pop k true r E) as SH. destruct r as [fs|F0]; [destruct SH; [discriminate|contradiction]|].
  cbn [log_fronts] in P. destruct (gen_first_front_only pop k [F0] NDu NE K P) as [F [EQ R]].
  inversion EQ; subst. exists F. split; assumption.
Qed.

Theorem log_leading_fronts pop k :
  NoDup (map uid pop) -> same_len (map iw pop) -> pop <> [] -> (forall x, In x pop -> (2 <= length (iw x))%nat) -> k <> 0 ->
  exists fs j, sort_log pop k false = Some (LFronts fs) /\
    (j < length (spec_fronts pop))%nat /\
    Forall2 (@Permutation ind) fs (firstn (S j) (spec_fronts pop)) /\
    (forall j', (0 < j' <= j)%nat -> ztotal (firstn j' (spec_fronts pop)) < Z.min (zlen pop) k) /\
    Z.min (zlen pop) k <= ztotal fs.
Proof.
  intros NDu SL NE L2 K. destruct (sort_log_correct pop k false NDu SL NE L2) as [r [E P]].
  pose proof (sort_log_shape pop k false r E) as SH. destruct r as [fs|F0]; [|destruct SH; discriminate].
  cbn [log_fronts] in P. destruct (gen_leading_fronts pop k fs SL NE K P) as [j R]. exists fs, j. split; assumption.
Qed.
