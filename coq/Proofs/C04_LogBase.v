(* sortLogNondominated, part 2: facts about the Python primitives used by the helpers
   (indexing, prefixes, isDominated, bisect_right, max/min with key, insert/del, sort, median). *)
From Coq Require Import List ZArith Bool Lia Permutation Sorted.
From DV Require Import Base.PyTuple Base.PyList Model.C01_Fitness Proofs.C01_Fitness Model.C04_NDSort
  Model.C04_LogSort Proofs.C04_NDSort Proofs.C04_NDLoop.
Import ListNotations.
Local Open Scope Z_scope.

(* ---- indexing and prefixes ---- *)
Lemma item_nth f i : (i < length f)%nat -> item f (Z.of_nat i) = nth i f 0.
Proof.
  intro H. unfold item, py_get, zlen.
  destruct (Z.ltb_spec (Z.of_nat i) 0); [lia|].
  destruct (Z.ltb_spec (Z.of_nat i) 0); [lia|].
  destruct (Z.leb_spec (Z.of_nat (length f)) (Z.of_nat i)); [lia|]. cbn [orb].
  rewrite Nat2Z.id. rewrite (nth_error_nth' f 0 H). reflexivity.
Qed.

Lemma upto_firstn f stop : 0 <= stop -> upto f stop = firstn (Z.to_nat stop) f.
Proof.
  intro H. unfold upto, zlen. destruct (Z.ltb_spec stop 0); [lia|].
  destruct (Z.le_gt_cases stop (Z.of_nat (length f))).
  - rewrite Z.min_l by assumption. reflexivity.
  - rewrite Z.min_r by lia. rewrite Nat2Z.id. rewrite firstn_all. symmetry. apply firstn_all2. lia.
Qed.

Definition pre (m : nat) (f : wvals) : wvals := firstn (S m) f.

Lemma upto_pre f m : upto f (Z.of_nat m + 1) = pre m f.
Proof. rewrite upto_firstn by lia. unfold pre. f_equal. lia. Qed.

Lemma pre_length m f : (S m <= length f)%nat -> length (pre m f) = S m.
Proof. intro H. unfold pre. rewrite firstn_length. lia. Qed.

Lemma pre_snoc m f : (S m < length f)%nat -> pre (S m) f = pre m f ++ [nth (S m) f 0].
Proof.
  unfold pre. revert f. generalize (S m) as k. induction k as [|k IH]; intros f H.
  - destruct f as [|a f]; [cbn in H; lia|]. reflexivity.
  - destruct f as [|a f]; [cbn in H; lia|]. cbn [firstn nth app]. f_equal. apply IH. cbn in H. lia.
Qed.

(* ---- pointwise >= and dominance on equal-length tuples ---- *)
Definition geL (a b : list Z) : Prop := Forall (fun p => fst p >= snd p) (zip a b).

Lemma is_dominated_nd_dom a b : is_dominated a b = nd_dom b a.
Proof.
  unfold is_dominated, nd_dom. generalize false as ne. revert b.
  induction a as [|x a IH]; intros [|y b] ne; cbn; try reflexivity.
  destruct (Z.gtb_spec x y), (Z.gtb_spec y x), (Z.ltb_spec x y), (Z.ltb_spec y x); try lia; try reflexivity; apply IH.
Qed.

Lemma zip_app {A B} (a1 a2 : list A) (b1 b2 : list B) :
  length a1 = length b1 -> zip (a1 ++ a2) (b1 ++ b2) = zip a1 b1 ++ zip a2 b2.
Proof.
  revert b1. induction a1 as [|x a1 IH]; intros [|y b1] H; cbn in *; try lia; [reflexivity|].
  f_equal. apply IH. lia.
Qed.

Lemma geL_refl a : geL a a.
Proof. unfold geL. induction a; cbn; constructor; [cbn; lia|assumption]. Qed.

Lemma geL_dom_or_eq a b : length a = length b -> (geL a b <-> nd_dom a b = true \/ a = b).
Proof.
  intro L. unfold nd_dom. fold (dom a b). rewrite dom_spec. fold (geL a b). split.
  - intro G. revert b L G. induction a as [|x a IH]; intros [|y b] L G; cbn in *; try lia; [right; reflexivity|].
    unfold geL in G. cbn in G. inversion G as [|? ? G1 G2]; subst. cbn in G1.
    destruct (IH b) as [[_ E]|E]; [lia|exact G2| |].
    + left. split; [exact G|]. apply Exists_cons_tl. exact E.
    + subst b. destruct (Z.eq_dec x y) as [->|N]; [right; reflexivity|].
      left. split; [exact G|]. apply Exists_cons_hd. cbn. lia.
  - intros [[G _]| ->]; [exact G|apply geL_refl].
Qed.

Lemma geL_antisym a b : length a = length b -> geL a b -> geL b a -> a = b.
Proof.
  revert b. induction a as [|x a IH]; intros [|y b] L G1 G2; cbn in *; try lia; [reflexivity|].
  unfold geL in *. cbn in *. inversion G1; inversion G2; subst. cbn in *. f_equal; [lia|]. apply IH; [lia|assumption|assumption].
Qed.

Lemma geL_trans a b c : length a = length b -> length b = length c -> geL a b -> geL b c -> geL a c.
Proof.
  revert b c. induction a as [|x a IH]; intros [|y b] [|z c] L1 L2 G1 G2; cbn in *; try lia; try (constructor; fail).
  unfold geL in *. cbn in *. inversion G1; inversion G2; subst. cbn in *. constructor; [cbn; lia|].
  apply (IH b c); [lia|lia|assumption|assumption].
Qed.

Definition ge_pref (m : nat) (l h : wvals) : Prop := geL (pre m l) (pre m h).
Definition dom_pref (m : nat) (t s : wvals) : Prop := nd_dom (pre m t) (pre m s) = true.

Lemma weakly_dominated_spec m h l :
  (S m <= length h)%nat -> (S m <= length l)%nat ->
  weakly_dominated_upto (Z.of_nat m) h l = true <-> ge_pref m l h.
Proof.
  intros Hh Hl. unfold weakly_dominated_upto, ge_pref. rewrite !upto_pre, is_dominated_nd_dom, orb_true_iff.
  rewrite geL_dom_or_eq by (rewrite !pre_length; auto). rewrite key_eqb_eq. split; intros [H|H]; auto.
Qed.

Lemma dom_pref_ge m t s : (S m <= length t)%nat -> (S m <= length s)%nat ->
  (dom_pref m t s <-> ge_pref m t s /\ pre m t <> pre m s).
Proof.
  intros Ht Hs. unfold dom_pref, ge_pref. rewrite geL_dom_or_eq by (rewrite !pre_length; auto). split.
  - intro D. split; [left; assumption|]. intro E. rewrite E, nd_dom_irrefl in D. discriminate.
  - intros [[D|E] N]; [assumption|contradiction].
Qed.

Lemma ge_pref_S m l h : (S m < length l)%nat -> (S m < length h)%nat ->
  (ge_pref (S m) l h <-> ge_pref m l h /\ nth (S m) l 0 >= nth (S m) h 0).
Proof.
  intros Hl Hh. unfold ge_pref, geL. rewrite !pre_snoc by assumption.
  rewrite zip_app by (rewrite !pre_length; lia). rewrite Forall_app. cbn [zip].
  split; intros [A B]; (split; [exact A|]).
  - inversion B; subst. assumption.
  - constructor; [assumption|constructor].
Qed.

Lemma ge_pref_1 l h : (2 <= length l)%nat -> (2 <= length h)%nat ->
  (ge_pref 1 l h <-> nth 0 l 0 >= nth 0 h 0 /\ nth 1 l 0 >= nth 1 h 0).
Proof.
  intros Hl Hh. destruct l as [|a [|b l]]; cbn in Hl; try lia. destruct h as [|c [|d h]]; cbn in Hh; try lia.
  unfold ge_pref, geL, pre. cbn. split.
  - intro H. inversion H as [|? ? H1 H2]; subst. inversion H2; subst. cbn in *. auto.
  - intros [H1 H2]. repeat constructor; assumption.
Qed.

Lemma pre_eq_S m s t : (S m < length s)%nat -> (S m < length t)%nat ->
  (pre (S m) s = pre (S m) t <-> pre m s = pre m t /\ nth (S m) s 0 = nth (S m) t 0).
Proof.
  intros Hs Ht. rewrite !pre_snoc by assumption. split.
  - intro E. apply app_inj_tail in E. exact E.
  - intros [-> ->]. reflexivity.
Qed.

Lemma nth_firstn_lt {A} (l : list A) n i d : (i < n)%nat -> nth i (firstn n l) d = nth i l d.
Proof.
  revert l i. induction n as [|n IH]; intros l i H; [lia|]. destruct l as [|a l]; [destruct i; reflexivity|].
  destruct i as [|i]; [reflexivity|]. cbn. apply IH. lia.
Qed.
Lemma nth_skipn_add {A} (l : list A) n i d : nth i (skipn n l) d = nth (n + i) l d.
Proof.
  revert l. induction n as [|n IH]; intro l; [reflexivity|]. destruct l as [|a l]; [destruct i; reflexivity|].
  cbn. apply IH.
Qed.

(* ---- bisect_right on a sorted list ---- *)
Definition sorted_asc (l : list Z) : Prop := forall i j, (i <= j < length l)%nat -> nth i l 0 <= nth j l 0.

Lemma bisect_loop_spec a x : sorted_asc a -> forall fuel lo hi,
  0 <= lo <= hi -> hi <= zlen a -> hi - lo < Z.of_nat fuel ->
  (forall i, (Z.of_nat i < lo) -> nth i a 0 <= x) ->
  (forall i, (hi <= Z.of_nat i < zlen a) -> x < nth i a 0) ->
  let r := bisect_loop fuel a x lo hi in
  lo <= r <= hi /\ (forall i, (Z.of_nat i < r) -> nth i a 0 <= x) /\ (forall i, (r <= Z.of_nat i < zlen a) -> x < nth i a 0).
Proof.
  intro S. induction fuel as [|fu IH]; intros lo hi B1 B2 F L R; [lia|]. cbn [bisect_loop].
  destruct (Z.ltb_spec lo hi) as [LT|GE].
  - set (mid := (lo + hi) / 2).
    assert (M : lo <= mid < hi). { unfold mid. split; [apply Z.div_le_lower_bound; lia|apply Z.div_lt_upper_bound; lia]. }
    assert (IM : item a mid = nth (Z.to_nat mid) a 0).
    { rewrite <- (Z2Nat.id mid) at 1 by lia. apply item_nth. unfold zlen in B2. lia. }
    rewrite IM. destruct (Z.ltb_spec x (nth (Z.to_nat mid) a 0)) as [C|C].
    + destruct (IH lo mid) as [R1 [R2 R3]]; try lia; try assumption.
      * intros i Hi. destruct (Z.lt_ge_cases (Z.of_nat i) hi) as [Q|Q]; [|apply R; lia].
        pose proof (S (Z.to_nat mid) i) as SS. unfold zlen in *. specialize (SS ltac:(lia)). lia.
      * cbn zeta. split; [lia|]. split; assumption.
    + destruct (IH (mid + 1) hi) as [R1 [R2 R3]]; try lia; try assumption.
      * intros i Hi. destruct (Z.lt_ge_cases (Z.of_nat i) lo) as [Q|Q]; [apply L; lia|].
        pose proof (S i (Z.to_nat mid)) as SS. unfold zlen in *. specialize (SS ltac:(lia)). lia.
      * cbn zeta. split; [lia|]. split; assumption.
  - cbn zeta. assert (lo = hi) by lia. subst. split; [lia|]. split; assumption.
Qed.

Lemma bisect_right_spec a x : sorted_asc a ->
  let n := Z.to_nat (bisect_right a x) in
  bisect_right a x = Z.of_nat n /\ (n <= length a)%nat /\
  Forall (fun y => y <= x) (firstn n a) /\ Forall (fun y => x < y) (skipn n a).
Proof.
  intro S. unfold bisect_right.
  destruct (bisect_loop_spec a x S (Datatypes.S (length a)) 0 (zlen a)) as [R1 [R2 R3]]; try (unfold zlen; lia).
  cbn zeta in *. set (r := bisect_loop (Datatypes.S (length a)) a x 0 (zlen a)) in *.
  split; [lia|]. split; [unfold zlen in *; lia|]. split.
  - apply Forall_forall. intros y Hy. apply In_nth with (d := 0) in Hy. destruct Hy as [i [Hi E]].
    rewrite firstn_length in Hi. rewrite <- E. rewrite nth_firstn_lt by lia. apply R2. lia.
  - apply Forall_forall. intros y Hy. apply In_nth with (d := 0) in Hy. destruct Hy as [i [Hi E]].
    rewrite skipn_length in Hi. rewrite <- E. rewrite nth_skipn_add. apply R3. unfold zlen in *. lia.
Qed.

(* ---- StronglySorted helpers ---- *)
Lemma SS_app {A} (R : A -> A -> Prop) (a b : list A) :
  StronglySorted R (a ++ b) <-> StronglySorted R a /\ StronglySorted R b /\ (forall x y, In x a -> In y b -> R x y).
Proof.
  induction a as [|x a IH]; cbn.
  - split; [intro H; split; [constructor|split; [assumption|intros ? ? []]]|tauto].
  - split.
    + intro H. inversion H as [|? ? S F]; subst. apply IH in S. destruct S as [Sa [Sb C]].
      rewrite Forall_app in F. destruct F as [Fa Fb]. split; [constructor; assumption|split; [assumption|]].
      intros u v [<-|Hu] Hv; [rewrite Forall_forall in Fb; apply Fb; assumption|apply C; assumption].
    + intros [Sa [Sb C]]. inversion Sa as [|? ? S F]; subst. constructor.
      * apply IH. split; [assumption|split; [assumption|]]. intros u v Hu Hv. apply C; [right|]; assumption.
      * rewrite Forall_app. split; [assumption|]. apply Forall_forall. intros v Hv. apply C; [left; reflexivity|assumption].
Qed.

Lemma SS_filter {A} (R : A -> A -> Prop) (P : A -> bool) l : StronglySorted R l -> StronglySorted R (filter P l).
Proof.
  induction 1 as [|x l S IH F]; cbn; [constructor|]. destruct (P x); [|assumption].
  constructor; [assumption|]. rewrite Forall_forall in *. intros y Hy. apply filter_In in Hy. apply F. tauto.
Qed.

Lemma SS_sorted_asc l : StronglySorted Z.le l -> sorted_asc l.
Proof.
  induction 1 as [|x l S IH F]; intros i j H; [cbn in H; lia|]. cbn [length] in H.
  destruct i as [|i], j as [|j]; cbn [nth]; try lia.
  - rewrite Forall_forall in F. apply F. apply nth_In. lia.
  - apply IH. lia.
Qed.

Lemma SS_pairs {A} (R : A -> A -> Prop) l : StronglySorted R l ->
  forall a b l1 l2 l3, l = l1 ++ a :: l2 ++ b :: l3 -> R a b.
Proof.
  intros S a b l1 l2 l3 E. subst. apply SS_app in S. destruct S as [_ [S _]].
  inversion S as [|? ? _ F]; subst. rewrite Forall_forall in F. apply F. apply in_or_app. right. left. reflexivity.
Qed.

(* ---- max / min with key ---- *)
Lemma max_by_spec {A} (key : A -> Z) l : forall best,
  In (max_by key l best) (best :: l) /\ forall x, In x (best :: l) -> key x <= key (max_by key l best).
Proof.
  induction l as [|y l IH]; intro best; cbn [max_by].
  - split; [left; reflexivity|]. intros x [<-|[]]. lia.
  - destruct (Z.gtb_spec (key y) (key best)) as [G|G].
    + destruct (IH y) as [I M]. split; [destruct I as [I|I]; [right; left; exact I|right; right; exact I]|].
      intros x [<-|[<-|Hx]]; [specialize (M y (or_introl eq_refl)); lia|apply M; left; reflexivity|apply M; right; assumption].
    + destruct (IH best) as [I M]. split; [destruct I as [I|I]; [left; exact I|right; right; exact I]|].
      intros x [<-|[<-|Hx]]; [apply M; left; reflexivity|specialize (M best (or_introl eq_refl)); lia|apply M; right; assumption].
Qed.
Lemma py_max_spec {A} (key : A -> Z) l d : l <> [] ->
  In (py_max key l d) l /\ forall x, In x l -> key x <= key (py_max key l d).
Proof. destruct l as [|x l]; [congruence|]. intros _. apply max_by_spec. Qed.

Lemma min_by_spec {A} (key : A -> Z) l : forall best,
  In (min_by key l best) (best :: l) /\ forall x, In x (best :: l) -> key (min_by key l best) <= key x.
Proof.
  induction l as [|y l IH]; intro best; cbn [min_by].
  - split; [left; reflexivity|]. intros x [<-|[]]. lia.
  - destruct (Z.ltb_spec (key y) (key best)) as [G|G].
    + destruct (IH y) as [I M]. split; [destruct I as [I|I]; [right; left; exact I|right; right; exact I]|].
      intros x [<-|[<-|Hx]]; [specialize (M y (or_introl eq_refl)); lia|apply M; left; reflexivity|apply M; right; assumption].
    + destruct (IH best) as [I M]. split; [destruct I as [I|I]; [left; exact I|right; right; exact I]|].
      intros x [<-|[<-|Hx]]; [apply M; left; reflexivity|specialize (M best (or_introl eq_refl)); lia|apply M; right; assumption].
Qed.
Lemma py_min_spec {A} (key : A -> Z) l d : l <> [] ->
  In (py_min key l d) l /\ forall x, In x l -> key (py_min key l d) <= key x.
Proof. destruct l as [|x l]; [congruence|]. intros _. apply min_by_spec. Qed.

(* ---- insert / del / index search ---- *)
Lemma insert_at_app {A} (a b : list A) x : insert_at (length a) x (a ++ b) = a ++ x :: b.
Proof.
  unfold insert_at. rewrite firstn_app, Nat.sub_diag, firstn_all, skipn_app, Nat.sub_diag, skipn_all. cbn.
  rewrite app_nil_r. reflexivity.
Qed.
Lemma remove_at_app_r {A} (a b : list A) j : remove_at (length a + j) (a ++ b) = a ++ remove_at j b.
Proof.
  unfold remove_at. rewrite firstn_app, skipn_app.
  replace (length a + j - length a)%nat with j by lia. replace (S (length a + j) - length a)%nat with (S j) by lia.
  rewrite firstn_all2 by lia. rewrite skipn_all2 by lia. cbn. rewrite <- app_assoc. reflexivity.
Qed.
Lemma remove_at_split {A} (l : list A) i d : (i < length l)%nat ->
  l = firstn i l ++ nth i l d :: skipn (S i) l.
Proof.
  revert i. induction l as [|a l IH]; intros i H; [cbn in H; lia|]. destruct i as [|i]; [reflexivity|].
  cbn. f_equal. apply IH. cbn in H. lia.
Qed.
Lemma map_insert_at {A B} (f : A -> B) i x l : map f (insert_at i x l) = insert_at i (f x) (map f l).
Proof. unfold insert_at. rewrite map_app, firstn_map. cbn. rewrite skipn_map. reflexivity. Qed.
Lemma map_remove_at {A B} (f : A -> B) i l : map f (remove_at i l) = remove_at i (map f l).
Proof. unfold remove_at. rewrite map_app, firstn_map, skipn_map. reflexivity. Qed.

Lemma find_index_some {A} (p : A -> bool) l j d : find_index p l = Some j ->
  (j < length l)%nat /\ p (nth j l d) = true.
Proof.
  revert j. induction l as [|x l IH]; intros j H; [discriminate|]. cbn in H. destruct (p x) eqn:E.
  - inversion H; subst. cbn. split; [lia|assumption].
  - destruct (find_index p l) as [j'|]; [|discriminate]. inversion H; subst. destruct (IH j' eq_refl). cbn. split; [lia|assumption].
Qed.
Lemma find_index_none {A} (p : A -> bool) l : find_index p l = None -> forall x, In x l -> p x = false.
Proof.
  induction l as [|y l IH]; intros H x Hx; [destruct Hx|]. cbn in H. destruct (p y) eqn:E; [discriminate|].
  destruct (find_index p l); [discriminate|]. destruct Hx as [<-|Hx]; [assumption|apply IH; auto].
Qed.
