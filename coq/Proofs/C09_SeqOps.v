(* Lemmas and proofs for C09, part 1 (model: Model/C09_SeqOps.v):
   weakest-precondition rules for the draw monad, the slice-swapping crossovers, cxUniform,
   and the mutations. *)
From Coq Require Import List ZArith QArith Bool Lia Permutation Arith.
From DV Require Import Base.PyList Base.C09_Lists Model.C09_SeqOps.
Import ListNotations.
Local Open Scope Z_scope.

(* ------------------------------------------------------------------ wp rules *)
Definition wp {R} (m : M R) (Q : R -> Prop) : Prop :=
  forall ds, Forall draw_ok ds ->
  match m ds with
  | Ok (x, ds') => Forall draw_ok ds' /\ Q x
  | Raise _ => False
  | Mismatch => True
  end.

Lemma wp_always {R} (m : M R) Q : wp m Q -> always m Q.
Proof.
  intros H ds Hds. unfold run. specialize (H ds Hds).
  destruct (m ds) as [[x [|d r]]|e|]; tauto.
Qed.

Lemma wp_ret {R} (x : R) (Q : R -> Prop) : Q x -> wp (ret x) Q.
Proof. intros H ds Hds. cbn. auto. Qed.

Lemma wp_bind {R T} (m : M R) (f : R -> M T) Q : wp m (fun x => wp (f x) Q) -> wp (bind m f) Q.
Proof.
  intros H ds Hds. unfold bind. specialize (H ds Hds).
  destruct (m ds) as [[x ds']|e|]; auto. destruct H as [H1 H2]. exact (H2 ds' H1).
Qed.

Lemma wp_conseq {R} (m : M R) (Q Q' : R -> Prop) : wp m Q -> (forall x, Q x -> Q' x) -> wp m Q'.
Proof.
  intros H HQ ds Hds. specialize (H ds Hds). destruct (m ds) as [[x ds']|e|]; auto.
  destruct H; auto.
Qed.

Lemma wp_random (Q : Q -> Prop) : (forall u, Q u) -> wp random Q.
Proof.
  intros H ds Hds. destruct ds as [|[u|lo hi r|n r|n r] ds]; cbn; auto.
  inversion Hds; auto.
Qed.

Lemma wp_randint lo hi (Q : Z -> Prop) : lo <= hi -> (forall v, lo <= v <= hi -> Q v) -> wp (randint lo hi) Q.
Proof.
  intros Hle H ds Hds. destruct ds as [|[u|lo' hi' r|n r|n r] ds]; cbn; auto.
  destruct ((lo' =? lo) && (hi' =? hi)) eqn:E; auto.
  apply andb_true_iff in E. destruct E as [E1 E2]. apply Z.eqb_eq in E1, E2. subst.
  inversion Hds as [|d l Hd Hl]; subst. destruct r as [v|]; cbn in Hd; [auto|lia].
Qed.

Lemma wp_randrange n (Q : Z -> Prop) : 0 < n -> (forall v, 0 <= v < n -> Q v) -> wp (randrange n) Q.
Proof.
  intros Hn H ds Hds. destruct ds as [|[u|lo' hi' r|n' r|n' r] ds]; cbn; auto.
  destruct (n' =? n) eqn:E; auto. apply Z.eqb_eq in E. subst.
  inversion Hds as [|d l Hd Hl]; subst. destruct r as [v|]; cbn in Hd; [auto|lia].
Qed.

Lemma wp_sample2 n (Q : Z * Z -> Prop) : 2 <= n ->
  (forall a b, 0 <= a < n -> 0 <= b < n -> a <> b -> Q (a, b)) -> wp (sample2 n) Q.
Proof.
  intros Hn H ds Hds. destruct ds as [|[u|lo' hi' r|n' r|n' r] ds]; cbn; auto.
  destruct (n' =? n) eqn:E; auto. apply Z.eqb_eq in E. subst.
  inversion Hds as [|d l Hd Hl]; subst. destruct r as [[a b]|]; cbn in Hd; [|lia].
  split; [assumption|]. apply H; tauto.
Qed.

Lemma wp_getI {A} (l : list A) i (Q : A -> Prop) : 0 <= i < zlen l ->
  (forall x, nth_error l (Z.to_nat i) = Some x -> Q x) -> wp (getI l i) Q.
Proof.
  intros Hi H. unfold getI. rewrite py_get_in by exact Hi.
  destruct (nth_error l (Z.to_nat i)) as [x|] eqn:E.
  - apply wp_ret. auto.
  - apply nth_error_None in E. unfold zlen in Hi. lia.
Qed.

Lemma wp_setI {A} (l : list A) i v (Q : list A -> Prop) : 0 <= i < zlen l ->
  Q (set_nth l (Z.to_nat i) v) -> wp (setI l i v) Q.
Proof. intros Hi H. unfold setI. rewrite py_set_in by exact Hi. apply wp_ret. exact H. Qed.

Lemma wp_for_each_from {I St} (Inv : nat -> St -> Prop) (body : I -> St -> M St) (suf : list I) :
  forall (k0 : nat) (s : St),
  (forall (j : nat) i s, nth_error suf j = Some i -> Inv (k0 + j)%nat s -> wp (body i s) (Inv (S (k0 + j))%nat)) ->
  Inv k0 s -> wp (for_each suf body s) (Inv (k0 + length suf)%nat).
Proof.
  induction suf as [|i suf IH]; intros k0 s Hstep H0; cbn [for_each length].
  - apply wp_ret. now rewrite Nat.add_0_r.
  - apply wp_bind. eapply wp_conseq.
    + apply (Hstep 0%nat i s); [reflexivity|]. now rewrite Nat.add_0_r.
    + intros s' Hs'. rewrite Nat.add_0_r in Hs'.
      replace (k0 + S (length suf))%nat with (S k0 + length suf)%nat by lia.
      apply IH; [|exact Hs'].
      intros j i' s'' Hn Hi. replace (S k0 + j)%nat with (k0 + S j)%nat in * by lia.
      apply Hstep; assumption.
Qed.

Lemma wp_for_each {I St} (Inv : nat -> St -> Prop) (body : I -> St -> M St) (idx : list I) s (Q : St -> Prop) :
  Inv 0%nat s ->
  (forall (k : nat) i s, nth_error idx k = Some i -> Inv k s -> wp (body i s) (Inv (S k))) ->
  (forall s, Inv (length idx) s -> Q s) ->
  wp (for_each idx body s) Q.
Proof.
  intros H0 Hstep HQ. eapply wp_conseq.
  - apply (wp_for_each_from Inv body idx 0%nat s); [|exact H0].
    intros j i s' Hn Hi. cbn [Nat.add] in *. apply Hstep; assumption.
  - cbn [Nat.add]. exact HQ.
Qed.

Lemma nth_error_py_range n k i : nth_error (py_range (Z.of_nat n)) k = Some i -> i = Z.of_nat k /\ (k < n)%nat.
Proof.
  rewrite py_range_nat. intro H.
  assert (Hk : (k < n)%nat).
  { assert (Hs : nth_error (map Z.of_nat (seq 0 n)) k <> None) by congruence.
    apply nth_error_Some in Hs. now rewrite map_length, seq_length in Hs. }
  split; [|exact Hk].
  rewrite nth_error_map, nth_error_nth' with (d := 0%nat) in H by (rewrite seq_length; lia).
  rewrite seq_nth in H by lia. cbn in H. congruence.
Qed.

Lemma py_range_length n : length (py_range (Z.of_nat n)) = n.
Proof. rewrite py_range_nat. now rewrite map_length, seq_length. Qed.

Lemma nth_error_py_range3 a b k i : a <= b ->
  nth_error (py_range3 a b 1) k = Some i -> i = a + Z.of_nat k /\ a + Z.of_nat k < b.
Proof.
  intros Hab. rewrite py_range3_step1 by exact Hab. intro H.
  assert (Hk : (k < Z.to_nat (b - a))%nat).
  { assert (Hs : nth_error (map (fun i => a + Z.of_nat i) (seq 0 (Z.to_nat (b - a)))) k <> None) by congruence.
    apply nth_error_Some in Hs. now rewrite map_length, seq_length in Hs. }
  rewrite nth_error_map, nth_error_nth' with (d := 0%nat) in H by (rewrite seq_length; lia).
  rewrite seq_nth in H by lia. cbn in H. split; [congruence|lia].
Qed.

Lemma py_range3_length a b : a <= b -> length (py_range3 a b 1) = Z.to_nat (b - a).
Proof. intro H. rewrite py_range3_step1 by exact H. now rewrite map_length, seq_length. Qed.

(* ------------------------------------------------------------------ slice swaps *)
Section Generic.
Context {A : Type}.
Implicit Types p c : list A.

(* what the three slice crossovers compute, with nat cut points *)
Definition tails_swapped (p1 p2 c1 c2 : list A) (a1 a2 : nat) : Prop :=
  c1 = firstn a1 p1 ++ skipn a2 p2 /\ c2 = firstn a2 p2 ++ skipn a1 p1.

Definition mids_swapped (p1 p2 c1 c2 : list A) (a b : nat) : Prop :=
  c1 = firstn a p1 ++ firstn (b - a) (skipn a p2) ++ skipn b p1 /\
  c2 = firstn a p2 ++ firstn (b - a) (skipn a p1) ++ skipn b p2.

Lemma swap_slices_tails p1 p2 a1 a2 : 0 <= a1 <= zlen p1 -> 0 <= a2 <= zlen p2 ->
  tails_swapped p1 p2 (fst (swap_slices p1 p2 a1 a2 None None)) (snd (swap_slices p1 p2 a1 a2 None None))
                (Z.to_nat a1) (Z.to_nat a2).
Proof.
  intros H1 H2. unfold swap_slices, tails_swapped. cbn [fst snd].
  now rewrite !py_slice_tail, !py_slice_assign_tail by assumption.
Qed.

Lemma swap_slices_mids p1 p2 a b : 0 <= a <= b -> b <= zlen p1 -> b <= zlen p2 ->
  mids_swapped p1 p2 (fst (swap_slices p1 p2 a a (Some b) (Some b))) (snd (swap_slices p1 p2 a a (Some b) (Some b)))
               (Z.to_nat a) (Z.to_nat b).
Proof.
  intros H1 H2 H3. unfold swap_slices, mids_swapped. cbn [fst snd].
  change (py_slice ?l (Some a) (Some b) 1) with (py_sub l a b).
  rewrite !py_sub_in, !py_slice_assign_in by assumption.
  now replace (Z.to_nat (b - a)) with (Z.to_nat b - Z.to_nat a)%nat by lia.
Qed.

Lemma tails_swapped_perm p1 p2 c1 c2 a1 a2 : tails_swapped p1 p2 c1 c2 a1 a2 -> Permutation (c1 ++ c2) (p1 ++ p2).
Proof. intros [-> ->]. apply perm_swap_tails. Qed.

Lemma tails_swapped_length p1 p2 c1 c2 a1 a2 : (a1 <= length p1)%nat -> (a2 <= length p2)%nat ->
  tails_swapped p1 p2 c1 c2 a1 a2 ->
  (length c1 = a1 + (length p2 - a2) /\ length c2 = a2 + (length p1 - a1))%nat.
Proof.
  intros H1 H2 [-> ->]. rewrite !app_length, !firstn_length, !skipn_length. lia.
Qed.

Lemma tails_swapped_locus p1 p2 c1 c2 a : (a <= length p1)%nat -> (a <= length p2)%nat ->
  tails_swapped p1 p2 c1 c2 a a ->
  forall i, ((i < a)%nat -> kept_at p1 p2 c1 c2 i) /\ ((a <= i)%nat -> swapped_at p1 p2 c1 c2 i).
Proof.
  intros H1 H2 [-> ->] i. unfold kept_at, swapped_at. split; intro Hi.
  - rewrite !nth_error_app1 by (rewrite firstn_length; lia).
    now rewrite !nth_error_firstn by lia.
  - rewrite !nth_error_app2 by (rewrite firstn_length; lia).
    rewrite !firstn_length, !nth_error_skipn.
    rewrite !Nat.min_l by lia. split; f_equal; lia.
Qed.

Lemma nth_error_mid3 (l l' : list A) a b i : (a <= b)%nat -> (b <= length l)%nat -> (b <= length l')%nat ->
  nth_error (firstn a l ++ firstn (b - a) (skipn a l') ++ skipn b l) i =
  if (a <=? i)%nat && (i <? b)%nat then nth_error l' i else nth_error l i.
Proof.
  intros Hab Hb Hb'.
  destruct (Nat.leb_spec a i) as [Hai|Hai]; cbn [andb].
  - rewrite nth_error_app2 by (rewrite firstn_length; lia).
    rewrite firstn_length, Nat.min_l by lia.
    destruct (Nat.ltb_spec i b) as [Hib|Hib].
    + rewrite nth_error_app1 by (rewrite firstn_length, skipn_length; lia).
      rewrite nth_error_firstn by lia. rewrite nth_error_skipn. f_equal; lia.
    + rewrite nth_error_app2 by (rewrite firstn_length, skipn_length; lia).
      rewrite firstn_length, skipn_length, Nat.min_l by lia.
      rewrite nth_error_skipn. f_equal; lia.
  - rewrite nth_error_app1 by (rewrite firstn_length; lia).
    now rewrite nth_error_firstn by lia.
Qed.

Lemma mids_swapped_perm p1 p2 c1 c2 a b : (a <= b)%nat -> mids_swapped p1 p2 c1 c2 a b -> Permutation (c1 ++ c2) (p1 ++ p2).
Proof. intros H [-> ->]. now apply perm_swap_mid. Qed.

Lemma mids_swapped_length p1 p2 c1 c2 a b : (a <= b)%nat -> (b <= length p1)%nat -> (b <= length p2)%nat ->
  mids_swapped p1 p2 c1 c2 a b -> length c1 = length p1 /\ length c2 = length p2.
Proof.
  intros H H1 H2 [-> ->]. rewrite !app_length, !firstn_length, !skipn_length. lia.
Qed.

Lemma mids_swapped_locus p1 p2 c1 c2 a b : (a <= b)%nat -> (b <= length p1)%nat -> (b <= length p2)%nat ->
  mids_swapped p1 p2 c1 c2 a b ->
  forall i, ((a <= i < b)%nat -> swapped_at p1 p2 c1 c2 i) /\ (~ (a <= i < b)%nat -> kept_at p1 p2 c1 c2 i).
Proof.
  intros H H1 H2 [-> ->] i. unfold kept_at, swapped_at.
  rewrite !nth_error_mid3 by assumption.
  destruct (Nat.leb_spec a i), (Nat.ltb_spec i b); cbn [andb]; split; intro; try lia; auto.
Qed.

(* pointwise characterisation -> multiset conservation *)
Lemma locus_perm p1 : forall p2 c1 c2, length c1 = length p1 -> length c2 = length p2 ->
  (forall i, locus_ok p1 p2 c1 c2 i) -> Permutation (c1 ++ c2) (p1 ++ p2).
Proof.
  induction p1 as [|x p1 IH]; intros p2 c1 c2 L1 L2 H.
  - destruct c1; [|discriminate]. cbn [app].
    assert (E : c2 = p2).
    { apply nth_error_ext. intro i. destruct (H i) as [[_ K]|[K1 K2]]; [exact K|].
      rewrite K2. destruct i; cbn in *; auto. }
    now rewrite E.
  - destruct c1 as [|y c1]; [discriminate|].
    destruct p2 as [|z p2].
    + destruct c2; [|discriminate]. rewrite !app_nil_r.
      assert (E : y :: c1 = x :: p1).
      { apply nth_error_ext. intro i. destruct (H i) as [[K _]|[K1 K2]]; [exact K|].
        rewrite K1. destruct i; cbn in *; auto. }
      now rewrite E.
    + destruct c2 as [|w c2]; [discriminate|].
      assert (T : Permutation (c1 ++ c2) (p1 ++ p2)).
      { apply IH; [cbn in L1; lia|cbn in L2; lia|].
        intro i. exact (H (S i)). }
      change (Permutation ([y] ++ c1 ++ [w] ++ c2) ([x] ++ p1 ++ [z] ++ p2)).
      assert (T' : Permutation ([y] ++ [w] ++ c1 ++ c2) ([x] ++ [z] ++ p1 ++ p2)).
      { destruct (H 0%nat) as [[K1 K2]|[K1 K2]]; cbn in K1, K2; inversion K1; inversion K2; subst.
        - now rewrite T.
        - rewrite T. perm_solve. }
      transitivity ([y] ++ [w] ++ c1 ++ c2); [perm_solve|].
      rewrite T'. perm_solve.
Qed.

(* ------------------------------------------------------------------ cxOnePoint *)
Definition one_point_post (p1 p2 : list A) (c : list A * list A) : Prop :=
  exists cx : nat, (1 <= cx < Nat.min (length p1) (length p2))%nat /\ tails_swapped p1 p2 (fst c) (snd c) cx cx.

Lemma zmin_len p1 p2 : Z.min (zlen p1) (zlen p2) = Z.of_nat (Nat.min (length p1) (length p2)).
Proof. unfold zlen. lia. Qed.

Lemma wp_cxOnePoint p1 p2 : 2 <= Z.min (zlen p1) (zlen p2) -> wp (cxOnePoint p1 p2) (one_point_post p1 p2).
Proof.
  intro H. unfold cxOnePoint. apply wp_bind. apply wp_randint; [lia|].
  intros v Hv. apply wp_ret. exists (Z.to_nat v). rewrite zmin_len in *. split; [lia|].
  apply swap_slices_tails; unfold zlen; lia.
Qed.

Lemma cxOnePoint_guard p1 p2 : Z.min (zlen p1) (zlen p2) < 2 -> only_raises (cxOnePoint p1 p2) ValueError.
Proof.
  intros H ds Hds. unfold run, cxOnePoint, bind, randint.
  destruct ds as [|[u|lo hi r|n r|n r] ds]; auto.
  destruct ((lo =? 1) && (hi =? Z.min (zlen p1) (zlen p2) - 1)) eqn:E; auto.
  apply andb_true_iff in E. destruct E as [E1 E2]. apply Z.eqb_eq in E1, E2. subst.
  inversion Hds as [|d l Hd Hl]; subst. destruct r as [v|]; cbn in Hd; [lia|auto].
Qed.

(* ------------------------------------------------------------------ cxTwoPoint / cxESTwoPoint *)
Lemma two_points_range size d1 d2 : 1 <= d1 <= size -> 1 <= d2 <= size - 1 ->
  1 <= fst (two_points d1 d2) < snd (two_points d1 d2) /\ snd (two_points d1 d2) <= size.
Proof. intros H1 H2. unfold two_points. destruct (d2 >=? d1) eqn:E; cbn [fst snd]; lia. Qed.

Lemma two_points_range0 size d1 d2 : 0 <= d1 <= size -> 0 <= d2 <= size - 1 ->
  0 <= fst (two_points d1 d2) < snd (two_points d1 d2) /\ snd (two_points d1 d2) <= size.
Proof. intros H1 H2. unfold two_points. destruct (d2 >=? d1) eqn:E; cbn [fst snd]; lia. Qed.

Definition two_point_post (p1 p2 : list A) (c : list A * list A) : Prop :=
  exists a b : nat, (1 <= a < b)%nat /\ (b <= Nat.min (length p1) (length p2))%nat /\
                    mids_swapped p1 p2 (fst c) (snd c) a b.

Lemma wp_cxTwoPoint p1 p2 : 2 <= Z.min (zlen p1) (zlen p2) -> wp (cxTwoPoint p1 p2) (two_point_post p1 p2).
Proof.
  intro H. unfold cxTwoPoint. apply wp_bind. apply wp_randint; [lia|]. intros d1 H1.
  apply wp_bind. apply wp_randint; [lia|]. intros d2 H2.
  pose proof (two_points_range _ d1 d2 H1 H2) as Hr.
  destruct (two_points d1 d2) as [a b]. cbn [fst snd] in Hr.
  apply wp_ret. exists (Z.to_nat a), (Z.to_nat b). rewrite zmin_len in *.
  split; [lia|]. split; [lia|]. apply swap_slices_mids; unfold zlen; lia.
Qed.

Lemma cxTwoPoint_guard p1 p2 : Z.min (zlen p1) (zlen p2) < 2 -> only_raises (cxTwoPoint p1 p2) ValueError.
Proof.
  intros H ds Hds. unfold run, cxTwoPoint, bind, randint.
  destruct ds as [|[u|lo hi r|n r|n r] ds]; auto.
  destruct ((lo =? 1) && (hi =? Z.min (zlen p1) (zlen p2))) eqn:E; auto.
  apply andb_true_iff in E. destruct E as [E1 E2]. apply Z.eqb_eq in E1, E2. subst.
  inversion Hds as [|d l Hd Hl]; subst. destruct r as [v|]; cbn in Hd; [|auto].
  destruct ds as [|[u|lo hi r|n r|n r] ds]; auto.
  destruct ((lo =? 1) && (hi =? Z.min (zlen p1) (zlen p2) - 1)) eqn:E; auto.
  apply andb_true_iff in E. destruct E as [E1 E2]. apply Z.eqb_eq in E1, E2. subst.
  inversion Hl as [|d l' Hd' Hl']; subst. destruct r as [v'|]; cbn in Hd'; [lia|auto].
Qed.

(* ------------------------------------------------------------------ cxMessyOnePoint *)
Definition messy_post (p1 p2 : list A) (c : list A * list A) : Prop :=
  exists a1 a2 : nat, (a1 <= length p1)%nat /\ (a2 <= length p2)%nat /\ tails_swapped p1 p2 (fst c) (snd c) a1 a2.

Lemma wp_cxMessyOnePoint p1 p2 : wp (cxMessyOnePoint p1 p2) (messy_post p1 p2).
Proof.
  unfold cxMessyOnePoint. assert (H1 := zlen_nonneg p1). assert (H2 := zlen_nonneg p2).
  apply wp_bind. apply wp_randint; [lia|]. intros d1 Hd1.
  apply wp_bind. apply wp_randint; [lia|]. intros d2 Hd2.
  apply wp_ret. exists (Z.to_nat d1), (Z.to_nat d2). unfold zlen in *.
  split; [lia|]. split; [lia|]. apply swap_slices_tails; unfold zlen; lia.
Qed.

(* ------------------------------------------------------------------ cxUniform *)
Lemma wp_swap_at (l1 l2 : list A) i : 0 <= i < zlen l1 -> i < zlen l2 ->
  wp (swap_at i (l1, l2))
     (fun r => exists x1 x2, nth_error l1 (Z.to_nat i) = Some x1 /\ nth_error l2 (Z.to_nat i) = Some x2 /\
                             r = (set_nth l1 (Z.to_nat i) x2, set_nth l2 (Z.to_nat i) x1)).
Proof.
  intros H1 H2. unfold swap_at.
  apply wp_bind. apply wp_getI; [lia|]. intros x2 E2.
  apply wp_bind. apply wp_getI; [lia|]. intros x1 E1.
  apply wp_bind. apply wp_setI; [lia|].
  apply wp_bind. apply wp_setI; [lia|].
  apply wp_ret. exists x1, x2. auto.
Qed.

(* state after the loop has processed loci < k, where `sw i` says whether locus i was swapped *)
Definition uniform_inv (p1 p2 : list A) (k : nat) (s : list A * list A) : Prop :=
  length (fst s) = length p1 /\ length (snd s) = length p2 /\
  forall i, ((i < k)%nat -> locus_ok p1 p2 (fst s) (snd s) i) /\ ((k <= i)%nat -> kept_at p1 p2 (fst s) (snd s) i).

Lemma uniform_inv_swap p1 p2 k l1 l2 x1 x2 :
  uniform_inv p1 p2 k (l1, l2) -> nth_error l1 k = Some x1 -> nth_error l2 k = Some x2 ->
  uniform_inv p1 p2 (S k) (set_nth l1 k x2, set_nth l2 k x1).
Proof.
  intros (L1 & L2 & H) E1 E2. cbn [fst snd] in *.
  assert (K1 : (k < length l1)%nat) by (apply nth_error_Some; congruence).
  assert (K2 : (k < length l2)%nat) by (apply nth_error_Some; congruence).
  unfold uniform_inv. cbn [fst snd].
  split; [now rewrite set_nth_length|]. split; [now rewrite set_nth_length|].
  intro i. unfold locus_ok, kept_at, swapped_at. rewrite !nth_error_set_nth.
  destruct (Nat.eqb_spec i k) as [->|Hne].
  - replace (k <? length l1)%nat with true by (symmetry; apply Nat.ltb_lt; lia).
    replace (k <? length l2)%nat with true by (symmetry; apply Nat.ltb_lt; lia).
    destruct (H k) as [_ Hk]. destruct (Hk (le_n k)) as [Ka Kb].
    split; intro; [|lia]. right. rewrite <- Ka, <- Kb. auto.
  - destruct (H i) as [Ha Hb]. split; intro Hi.
    + destruct (Nat.lt_ge_cases i k) as [Hlt|Hge]; [exact (Ha Hlt)|lia].
    + apply Hb. lia.
Qed.

Lemma uniform_inv_keep p1 p2 k s : uniform_inv p1 p2 k s -> uniform_inv p1 p2 (S k) s.
Proof.
  intros (L1 & L2 & H). split; [exact L1|]. split; [exact L2|].
  intro i. destruct (H i) as [Ha Hb]. split; intro Hi.
  - destruct (Nat.lt_ge_cases i k) as [Hlt|Hge]; [exact (Ha Hlt)|]. left. apply Hb. lia.
  - apply Hb. lia.
Qed.

Definition uniform_post (p1 p2 : list A) (c : list A * list A) : Prop :=
  length (fst c) = length p1 /\ length (snd c) = length p2 /\
  forall i, locus_ok p1 p2 (fst c) (snd c) i /\
            ((Nat.min (length p1) (length p2) <= i)%nat -> kept_at p1 p2 (fst c) (snd c) i).

Lemma wp_cxUniform p1 p2 indpb : wp (cxUniform p1 p2 indpb) (uniform_post p1 p2).
Proof.
  unfold cxUniform. rewrite zmin_len. set (n := Nat.min (length p1) (length p2)).
  apply (wp_for_each (uniform_inv p1 p2)).
  - split; [reflexivity|]. split; [reflexivity|]. intro i. split; intro; [lia|split; reflexivity].
  - intros k i [l1 l2] Hn Hinv. apply nth_error_py_range in Hn. destruct Hn as [-> Hk].
    apply wp_bind. apply wp_random. intro u.
    destruct (qltb u indpb).
    + destruct Hinv as (L1 & L2 & H). cbn [fst snd] in *.
      eapply wp_conseq; [apply wp_swap_at; unfold zlen; lia|].
      intros r (x1 & x2 & E1 & E2 & ->). rewrite Nat2Z.id in *.
      apply uniform_inv_swap; [|assumption|assumption]. split; [exact L1|]. split; [exact L2|exact H].
    + apply wp_ret. now apply uniform_inv_keep.
  - intros s (L1 & L2 & H). rewrite py_range_length in H.
    split; [exact L1|]. split; [exact L2|]. intro i. destruct (H i) as [Ha Hb].
    split; [|exact Hb].
    destruct (Nat.lt_ge_cases i n) as [Hlt|Hge]; [exact (Ha Hlt)|left; exact (Hb Hge)].
Qed.

(* ------------------------------------------------------------------ mutShuffleIndexes *)
Lemma wp_mutShuffleIndexes (p : list A) indpb : zlen p <> 1 ->
  wp (mutShuffleIndexes p indpb) (fun c => Permutation c p).
Proof.
  intro Hn. unfold mutShuffleIndexes.
  destruct (Z.eq_dec (zlen p) 0) as [Hz|Hz].
  { rewrite Hz. cbn. apply wp_ret. reflexivity. }
  assert (H2 : 2 <= zlen p) by (pose proof (zlen_nonneg p); lia).
  unfold zlen at 1.
  apply (wp_for_each (fun (_ : nat) (l : list A) => Permutation l p)).
  - reflexivity.
  - intros k i l Hk Hinv. apply nth_error_py_range in Hk. destruct Hk as [-> Hk].
    assert (Hl : length l = length p) by (now apply Permutation_length).
    apply wp_bind. apply wp_random. intro u.
    destruct (qltb u indpb); [|apply wp_ret; exact Hinv].
    apply wp_bind. apply wp_randint; [lia|]. intros r Hr.
    set (j := if r >=? Z.of_nat k then r + 1 else r).
    assert (Hj : 0 <= j < zlen l) by (unfold j, zlen in *; destruct (r >=? Z.of_nat k) eqn:E; lia).
    apply wp_bind. apply wp_getI; [exact Hj|]. intros x Ex.
    apply wp_bind. apply wp_getI; [unfold zlen in *; lia|]. intros y Ey.
    apply wp_bind. apply wp_setI; [unfold zlen in *; lia|].
    apply wp_bind. apply wp_setI; [rewrite zlen_set_nth; exact Hj|].
    apply wp_ret. rewrite Nat2Z.id in *.
    rewrite <- (nth_error_nth _ _ x Ex), <- (nth_error_nth _ _ x Ey).
    rewrite perm_set_nth_swap; [exact Hinv| |]; unfold zlen in *; lia.
  - auto.
Qed.

(* ------------------------------------------------------------------ mutInversion *)
Definition inversion_post (p c : list A) : Prop :=
  exists s e : nat, (s <= e <= length p)%nat /\
                    c = firstn s p ++ rev (firstn (e - s) (skipn s p)) ++ skipn e p.

Lemma wp_mutInversion (p : list A) : wp (mutInversion p) (inversion_post p).
Proof.
  unfold mutInversion. destruct (zlen p =? 0) eqn:E.
  - apply wp_ret. exists 0%nat, 0%nat. split; [lia|]. reflexivity.
  - assert (Hp : 0 < zlen p) by (pose proof (zlen_nonneg p); lia).
    apply wp_bind. apply wp_randrange; [exact Hp|]. intros i1 H1.
    apply wp_bind. apply wp_randrange; [exact Hp|]. intros i2 H2.
    apply wp_ret. exists (Z.to_nat (Z.min i1 i2)), (Z.to_nat (Z.max i1 i2)).
    split; [unfold zlen in *; lia|].
    rewrite py_slice_rev, py_sub_in, py_slice_assign_in by lia.
    now replace (Z.to_nat (Z.max i1 i2 - Z.min i1 i2)) with (Z.to_nat (Z.max i1 i2) - Z.to_nat (Z.min i1 i2))%nat by lia.
Qed.

Lemma inversion_post_perm p c : inversion_post p c -> Permutation c p.
Proof.
  intros (s & e & H & ->). rewrite (mid_split p s e) at 4 by lia.
  apply Permutation_app_head. apply Permutation_app_tail. symmetry. apply Permutation_rev.
Qed.

End Generic.

(* ------------------------------------------------------------------ cxESTwoPoint *)
Lemma combine_skipn {A B} (l : list A) (l' : list B) n : skipn n (combine l l') = combine (skipn n l) (skipn n l').
Proof.
  revert l l'; induction n as [|n IH]; intros l l'; [reflexivity|].
  destruct l; [reflexivity|]. destruct l'; [cbn; now destruct (skipn n l)|]. cbn. apply IH.
Qed.

Lemma combine_app {A B} (a1 a2 : list A) (b1 b2 : list B) : length a1 = length b1 ->
  combine (a1 ++ a2) (b1 ++ b2) = combine a1 b1 ++ combine a2 b2.
Proof.
  revert b1; induction a1 as [|x a1 IH]; intros [|y b1] H; try discriminate; [reflexivity|].
  cbn. f_equal. apply IH. cbn in H; lia.
Qed.

Definition es_post {A B} (ind1 ind2 : list A * list B) (c : (list A * list B) * (list A * list B)) : Prop :=
  exists a b : nat, (1 <= a < b)%nat /\ (b <= Nat.min (length (fst ind1)) (length (fst ind2)))%nat /\
    mids_swapped (fst ind1) (fst ind2) (fst (fst c)) (fst (snd c)) a b /\
    mids_swapped (snd ind1) (snd ind2) (snd (fst c)) (snd (snd c)) a b.

Lemma wp_cxESTwoPoint {A B} (ind1 ind2 : list A * list B) :
  2 <= Z.min (zlen (fst ind1)) (zlen (fst ind2)) ->
  length (snd ind1) = length (fst ind1) -> length (snd ind2) = length (fst ind2) ->
  wp (cxESTwoPoint ind1 ind2) (es_post ind1 ind2).
Proof.
  intros H L1 L2. unfold cxESTwoPoint.
  apply wp_bind. apply wp_randint; [lia|]. intros d1 H1.
  apply wp_bind. apply wp_randint; [lia|]. intros d2 H2.
  pose proof (two_points_range _ d1 d2 H1 H2) as Hr.
  destruct (two_points d1 d2) as [a b]. cbn [fst snd] in Hr.
  rewrite zmin_len in *.
  pose proof (swap_slices_mids (fst ind1) (fst ind2) a b) as G.
  pose proof (swap_slices_mids (snd ind1) (snd ind2) a b) as S.
  destruct (swap_slices (fst ind1) (fst ind2) a a (Some b) (Some b)) as [g1 g2].
  destruct (swap_slices (snd ind1) (snd ind2) a a (Some b) (Some b)) as [s1 s2].
  apply wp_ret. exists (Z.to_nat a), (Z.to_nat b). cbn [fst snd] in *.
  split; [lia|]. split; [lia|].
  split; [apply G|apply S]; unfold zlen; lia.
Qed.

(* gene and strategy move together: the children's (gene, strategy) pairs are the two-point
   crossover of the parents' pairs *)
Lemma es_pairs {A B} (g1 g2 cg1 cg2 : list A) (s1 s2 cs1 cs2 : list B) a b :
  (a <= b)%nat -> (b <= length g1)%nat -> (b <= length g2)%nat ->
  length s1 = length g1 -> length s2 = length g2 ->
  mids_swapped g1 g2 cg1 cg2 a b -> mids_swapped s1 s2 cs1 cs2 a b ->
  mids_swapped (combine g1 s1) (combine g2 s2) (combine cg1 cs1) (combine cg2 cs2) a b.
Proof.
  intros Hab B1 B2 L1 L2 [-> ->] [-> ->]. unfold mids_swapped.
  rewrite !combine_app, !combine_firstn, !combine_skipn, !combine_firstn;
    rewrite ?firstn_length, ?skipn_length; try lia.
  split; reflexivity.
Qed.

(* ------------------------------------------------------------------ mutFlipBit *)
Lemma flip_gene_truthy g : truthy (flip_gene g) = negb (truthy g).
Proof. destruct g as [z|b|z]; cbn; try reflexivity; destruct (z =? 0); reflexivity. Qed.

Lemma flip_gene_type g : same_type g (flip_gene g).
Proof. destruct g; exact I. Qed.

Lemma flip_gene_bit g : is_bit g -> flip_gene g = complement g /\ is_bit (flip_gene g).
Proof.
  destruct g as [z|b|z]; cbn; intro H.
  - destruct H as [-> | ->]; cbn; auto.
  - auto.
  - destruct H as [-> | ->]; cbn; auto.
Qed.

Definition flip_post (p c : list gene) : Prop :=
  length c = length p /\
  forall i, nth_error c i = nth_error p i \/ nth_error c i = option_map flip_gene (nth_error p i).

Lemma wp_mutFlipBit p indpb : wp (mutFlipBit p indpb) (flip_post p).
Proof.
  unfold mutFlipBit. unfold zlen.
  apply (wp_for_each (fun (k : nat) (l : list gene) =>
           length l = length p /\
           forall i, ((i < k)%nat -> nth_error l i = nth_error p i \/ nth_error l i = option_map flip_gene (nth_error p i)) /\
                     ((k <= i)%nat -> nth_error l i = nth_error p i))).
  - split; [reflexivity|]. intro i. split; intro; [lia|reflexivity].
  - intros k i l Hk [L H]. apply nth_error_py_range in Hk. destruct Hk as [-> Hk].
    apply wp_bind. apply wp_random. intro u. destruct (qltb u indpb).
    + apply wp_bind. apply wp_getI; [unfold zlen; lia|]. intros x Ex.
      apply wp_setI; [unfold zlen; lia|]. rewrite Nat2Z.id in *.
      split; [now rewrite set_nth_length|]. intro i. rewrite nth_error_set_nth.
      destruct (Nat.eqb_spec i k) as [->|Hne].
      * replace (k <? length l)%nat with true by (symmetry; apply Nat.ltb_lt; lia).
        split; intro; [|lia]. right. destruct (H k) as [_ Hb]. rewrite <- (Hb (le_n k)), Ex. reflexivity.
      * destruct (H i) as [Ha Hb]. split; intro Hi.
        -- destruct (Nat.lt_ge_cases i k) as [Hlt|Hge]; [exact (Ha Hlt)|lia].
        -- apply Hb; lia.
    + apply wp_ret. split; [exact L|]. intro i. destruct (H i) as [Ha Hb]. split; intro Hi.
      * destruct (Nat.lt_ge_cases i k) as [Hlt|Hge]; [exact (Ha Hlt)|]. left. apply Hb. lia.
      * apply Hb. lia.
  - intros l [L H]. rewrite py_range_length in H. split; [exact L|].
    intro i. destruct (H i) as [Ha Hb].
    destruct (Nat.lt_ge_cases i (length p)) as [Hlt|Hge]; [exact (Ha Hlt)|left; exact (Hb Hge)].
Qed.

(* ------------------------------------------------------------------ mutUniformInt *)
Lemma nth_error_zip {A B} (a : list A) (b : list B) k :
  nth_error (zip a b) k = match nth_error a k, nth_error b k with
                          | Some x, Some y => Some (x, y) | _, _ => None end.
Proof.
  revert b k; induction a as [|x a IH]; intros [|y b] [|k]; cbn; try reflexivity.
  - now destruct (nth_error a k).
  - apply IH.
Qed.

Lemma nth_repeat_lt {A} (z d : A) n i : (i < n)%nat -> nth i (repeat z n) d = z.
Proof. revert i; induction n as [|n IH]; intros [|i] H; cbn; try lia; auto. apply IH; lia. Qed.

Lemma wp_expand_bound b n (Q : list Z -> Prop) : bound_covers b n ->
  (forall l, (n <= length l)%nat -> (forall i, (i < n)%nat -> nth i l 0 = bound_at b i) -> Q l) ->
  wp (expand_bound b (Z.of_nat n)) Q.
Proof.
  intros Hc H. destruct b as [z|l]; cbn [expand_bound bound_covers] in *.
  - apply wp_ret. apply H; [rewrite repeat_length; lia|].
    intros i Hi. cbn. rewrite Nat2Z.id. now apply nth_repeat_lt.
  - replace (zlen l <? Z.of_nat n) with false by (unfold zlen; lia).
    apply wp_ret. apply H; [exact Hc|]. reflexivity.
Qed.

Definition uniform_int_post (p : list Z) (low up : bound) (c : list Z) : Prop :=
  length c = length p /\
  forall i x, nth_error p i = Some x ->
    exists y, nth_error c i = Some y /\ (y = x \/ bound_at low i <= y <= bound_at up i).

Lemma wp_mutUniformInt p low up indpb :
  bound_covers low (length p) -> bound_covers up (length p) ->
  (forall i, (i < length p)%nat -> bound_at low i <= bound_at up i) ->
  wp (mutUniformInt p low up indpb) (uniform_int_post p low up).
Proof.
  intros Cl Cu Hle. unfold mutUniformInt. unfold zlen.
  apply wp_bind. apply wp_expand_bound; [exact Cl|]. intros lo Llo Hlo.
  apply wp_bind. apply wp_expand_bound; [exact Cu|]. intros hi Lhi Hhi.
  set (n := length p) in *.
  assert (Hidx : forall k e, nth_error (zip (py_range (Z.of_nat n)) (zip lo hi)) k = Some e ->
                 (k < n)%nat /\ e = (Z.of_nat k, (bound_at low k, bound_at up k))).
  { intros k e He. rewrite !nth_error_zip in He.
    destruct (nth_error (py_range (Z.of_nat n)) k) as [i|] eqn:E1; [|discriminate].
    apply nth_error_py_range in E1. destruct E1 as [-> Hk].
    rewrite (nth_error_nth' lo 0), (nth_error_nth' hi 0) in He by lia.
    rewrite Hlo, Hhi in He by exact Hk. split; [exact Hk|congruence]. }
  assert (Hlen : length (zip (py_range (Z.of_nat n)) (zip lo hi)) = n).
  { rewrite !zip_length, py_range_length. lia. }
  apply (wp_for_each (fun (k : nat) (l : list Z) =>
           length l = n /\
           forall i x, nth_error p i = Some x ->
             exists y, nth_error l i = Some y /\
               (y = x \/ ((i < k)%nat /\ bound_at low i <= y <= bound_at up i)))).
  - split; [reflexivity|]. intros i x Hx. exists x. auto.
  - intros k e l Hk [L H]. apply Hidx in Hk. destruct Hk as [Hk ->].
    apply wp_bind. apply wp_random. intro u. destruct (qltb u indpb).
    + apply wp_bind. apply wp_randint; [apply Hle; exact Hk|]. intros v Hv.
      apply wp_setI; [unfold zlen; lia|]. rewrite Nat2Z.id.
      split; [now rewrite set_nth_length|]. intros i x Hx. rewrite nth_error_set_nth.
      destruct (Nat.eqb_spec i k) as [->|Hne].
      * replace (k <? length l)%nat with true by (symmetry; apply Nat.ltb_lt; lia).
        exists v. split; [reflexivity|]. right. split; [lia|exact Hv].
      * destruct (H i x Hx) as (y & Ey & Hy). exists y. split; [exact Ey|].
        destruct Hy as [->|[Hik Hb]]; [left; reflexivity|right; split; [lia|exact Hb]].
    + apply wp_ret. split; [exact L|]. intros i x Hx.
      destruct (H i x Hx) as (y & Ey & Hy). exists y. split; [exact Ey|].
      destruct Hy as [->|[Hik Hb]]; [left; reflexivity|right; split; [lia|exact Hb]].
  - intros l [L H]. split; [exact L|]. intros i x Hx.
    destruct (H i x Hx) as (y & Ey & Hy). exists y. split; [exact Ey|]. tauto.
Qed.
