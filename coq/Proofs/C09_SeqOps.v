(* Lemmas and proofs for C09 (model: Model/C09_SeqOps.v). *)
From Coq Require Import List ZArith QArith Bool Lia Permutation Arith.
From DV Require Import Base.PyList Base.C09_Lists Model.C09_SeqOps.
Import ListNotations.
Local Open Scope Z_scope.

Lemma flip_gene_truthy g : truthy (flip_gene g) = negb (truthy g).
Proof. destruct g as [z|b|z]; cbn; try reflexivity; destruct (z =? 0); reflexivity. Qed.
