(* C11 — the parser from prefix lists back to trees: completeness of a prefix expression is
   decidable, the tree behind a complete list is unique, and so is the subtree rooted at an index. *)
From Coq Require Import List ZArith NArith Bool Lia.
From DV Require Import Model.C11_GPTree Proofs.C11_Tree Proofs.C11_Ops.
Import ListNotations.

Lemma parse_flatten : forall t r fuel, wft t -> (size t <= fuel)%nat ->
  parse fuel (flatten t ++ r) = Some (t, r).
Proof.
  induction t as [n ks IH] using tree_ind'. intros r fuel Hw Hf.
  apply wft_unfold in Hw. destruct Hw as [HL HF].
  destruct fuel as [|f]; [cbn in Hf; lia|]. cbn [size] in Hf. fold (sizes ks) in Hf.
  cbn [flatten app parse]. fold (ff ks). rewrite <- HL.
  assert (G : pforest (parse f) (length ks) (ff ks ++ r) = Some (ks, r)).
  { assert (Hs : (sizes ks <= f)%nat) by lia. clear HL Hf. revert Hs.
    induction ks as [|k ks IHks]; intro Hs; [reflexivity|].
    inversion IH as [|? ? Hk IH']; subst. inversion HF; subst. rewrite sizes_cons in Hs.
    cbn [length pforest]. rewrite ff_cons, <- app_assoc. rewrite Hk by (auto; lia).
    rewrite IHks by (auto; lia). reflexivity. }
  rewrite G. reflexivity.
Qed.

Lemma parse_sound : forall fuel l t r, parse fuel l = Some (t, r) -> l = flatten t ++ r /\ wft t.
Proof.
  induction fuel as [|f IH]; intros l t r H; [discriminate|].
  cbn [parse] in H. destruct l as [|n l]; [discriminate|].
  destruct (pforest (parse f) (arity n) l) as [[ks r']|] eqn:E; [|discriminate].
  inversion H; subst. clear H.
  assert (G : forall k l ks r, pforest (parse f) k l = Some (ks, r) ->
              l = ff ks ++ r /\ length ks = k /\ Forall wft ks).
  { induction k as [|k IHk]; intros l0 ks0 r0 H; cbn [pforest] in H.
    - inversion H; subst. auto.
    - destruct (parse f l0) as [[t1 r1]|] eqn:E1; [|discriminate].
      destruct (pforest (parse f) k r1) as [[ts r2]|] eqn:E2; [|discriminate].
      inversion H; subst. destruct (IH _ _ _ E1) as [-> W1]. destruct (IHk _ _ _ E2) as (-> & L & W).
      rewrite ff_cons, <- app_assoc. cbn [length]. auto. }
  destruct (G _ _ _ _ E) as (-> & L & W). split; [reflexivity|]. apply wft_unfold. auto.
Qed.

Theorem complete_iff l : complete l = true <-> exists t, wft t /\ l = flatten t.
Proof.
  unfold complete. split.
  - destruct (parse (length l) l) as [[t [|x r]]|] eqn:E; try discriminate. intros _.
    apply parse_sound in E. destruct E as [-> W]. exists t. rewrite app_nil_r. auto.
  - intros (t & W & ->). rewrite <- (app_nil_r (flatten t)) at 2.
    rewrite parse_flatten by (auto; rewrite length_flatten; lia). reflexivity.
Qed.

(* prefix-freeness: the tree behind a complete expression is unique *)
Theorem flatten_inj t1 t2 r1 r2 : wft t1 -> wft t2 ->
  flatten t1 ++ r1 = flatten t2 ++ r2 -> t1 = t2 /\ r1 = r2.
Proof.
  intros W1 W2 E.
  pose proof (parse_flatten t1 r1 (size t1 + size t2) W1 ltac:(lia)) as P1.
  pose proof (parse_flatten t2 r2 (size t1 + size t2) W2 ltac:(lia)) as P2.
  rewrite E in P1. rewrite P1 in P2. inversion P2; auto.
Qed.

(* the subtree rooted at an index is unique *)
Theorem subtree_at_unique c u c' u' :
  wft (plug c u) -> plug c u = plug c' u' -> length (cpre c) = length (cpre c') -> u = u'.
Proof.
  intros W E L. pose proof W as W'. rewrite E in W'.
  apply wft_plug in W. apply wft_plug in W'. destruct W as [Wu _]. destruct W' as [Wu' _].
  assert (F : flatten (plug c u) = flatten (plug c' u')) by (rewrite E; reflexivity).
  rewrite !flatten_plug in F.
  assert (S : skipn (length (cpre c)) (cpre c ++ flatten u ++ cpost c) =
              skipn (length (cpre c')) (cpre c' ++ flatten u' ++ cpost c')) by (rewrite F, L; reflexivity).
  rewrite !skipn_pre in S. apply flatten_inj in S; tauto.
Qed.

(* ---- decidable typing, so that the predicates of the theorems can be evaluated on concrete lists ---- *)
Section TypedB.
  Variable sub : ty -> ty -> bool.

  Lemma typedb_iff : forall t e, typedb sub e t = true <-> typed sub e t.
  Proof.
    induction t as [n ks IH] using tree_ind'. intro e. rewrite typed_unfold. cbn [typedb].
    rewrite andb_true_iff. apply and_iff_compat_l.
    generalize (nargs n) as tys. induction ks as [|k ks IHks]; intros [|a tys].
    - split; auto.
    - split; [discriminate|]. intro H; inversion H.
    - split; [discriminate|]. intro H; inversion H.
    - inversion IH as [|? ? Hk IH']; subst. rewrite andb_true_iff, Hk, (IHks IH' tys).
      split; [intros [A B]; constructor; auto|intro H; inversion H; auto].
  Qed.

  Theorem wt_list_iff e l : wt_list sub e l = true <-> exists t, l = flatten t /\ typed sub e t.
  Proof.
    unfold wt_list. split.
    - destruct (parse (length l) l) as [[t [|x r]]|] eqn:E; try discriminate. intro H.
      apply parse_sound in E. destruct E as [-> W]. exists t. rewrite app_nil_r. split; auto.
      apply typedb_iff. exact H.
    - intros (t & -> & H). rewrite <- (app_nil_r (flatten t)) at 2.
      rewrite parse_flatten; [apply typedb_iff; exact H|eapply typed_wft; eauto|rewrite length_flatten; lia].
  Qed.
End TypedB.
