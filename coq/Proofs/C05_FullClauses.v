(* The remaining clauses of C05 for the end-to-end model sel_nsga2_full (Model/C05_Full.v), the cut
   front named explicitly (`cut_at`), and the comparison of the two sorting back-ends. *)
From Coq Require Import List ZArith QArith Bool Lia Permutation Arith Sorting.Sorted.
From DV Require Import Base.Corr Base.PyList Base.C05_Sort Base.C05_List
     Model.C05_Nsga2 Model.C05_Spec Model.C05_Full Proofs.C05_Spec Proofs.C05_Nsga2 Proofs.C05_QInst
     Proofs.C05_CutFront Proofs.C05_All Proofs.C05_Final Proofs.C05_Compose.
Import ListNotations.
Local Open Scope nat_scope.

Section CutAt.
  Context {A : Type}.
  Notation indA := (ind A).

  Lemma total_firstn_mono (ls : list (list indA)) a b : a <= b -> total (firstn a ls) <= total (firstn b ls).
  Proof.
    intro L. replace (firstn a ls) with (firstn a (firstn b ls))
      by (rewrite firstn_firstn, Nat.min_l by lia; reflexivity).
    apply total_firstn_le.
  Qed.

  Lemma cut_at_unique (pop : list indA) k m1 m2 : cut_at pop k m1 -> cut_at pop k m2 -> m1 = m2.
  Proof.
    intros [A1 B1] [A2 B2].
    destruct (Nat.lt_trichotomy m1 m2) as [L|[E|L]]; [exfalso|exact E|exfalso].
    - pose proof (total_firstn_mono (layers pop) (S m1) m2 L). lia.
    - pose proof (total_firstn_mono (layers pop) (S m2) m1 L). lia.
  Qed.

  Lemma fronts_correct_cut_at (pop : list indA) k fronts :
    0 < k -> fronts_correct pop k fronts -> cut_at pop k (length fronts - 1).
  Proof.
    intros K [_ FC]. destruct k as [|k0]; [lia|]. destruct FC as [m [Lf [_ [Lo Hi]]]].
    rewrite Lf. replace (S m - 1) with m by lia. split; assumption.
  Qed.
End CutAt.

Section Explicit.
  Variable o : numops.
  Notation indV := (ind (V o)).
  Variables (pop : list indV) (k0 : nat) (fronts : list (list indV)) (r : list indV).
  Hypothesis W : wf_pop pop.
  Hypothesis FC : fronts_correct pop (S k0) fronts.
  Hypothesis SEL : sel_nsga2 o fronts (S k0) = Some r.

  (* the existential `c` of one_partial_front and `m` of cut_front_depth is the index fixed by cut_at *)
  Lemma cut_explicit m : cut_at pop (S k0) m ->
    (forall x, In x r -> depth pop x <= m) /\
    (forall y, In y pop -> depth pop y < m -> In (uid y) (uids r)) /\
    (forall y, In y pop -> (In (uid y) (uids (last fronts [])) <-> depth pop y = m)).
  Proof.
    intro CA. destruct (fronts_shape pop k0 fronts FC) as [m' [init [lastf [E [P1 [P2 [Lo [Hi Le]]]]]]]].
    assert (T1 : total (firstn m' (layers pop)) = length (concat init)).
    { unfold total. rewrite <- (uids_length (concat (firstn m' (layers pop)))), <- (Permutation_length P1).
      apply uids_length. }
    assert (T2 : total (firstn (S m') (layers pop)) = length (concat init) + length lastf).
    { unfold total. rewrite <- (uids_length (concat (firstn (S m') (layers pop)))), <- (Permutation_length P2).
      rewrite uids_length, app_length. reflexivity. }
    assert (EM : m' = m) by (apply (cut_at_unique pop (S k0)); [split; lia|exact CA]). subst m'.
    assert (Sub : forall u, In u (uids (concat init)) -> In u (uids r)).
    { pose proof SEL as S0. rewrite E, sel_snoc in S0. cbv zeta in S0.
      destruct (0 <? Z.of_nat (S k0) - Z.of_nat (length (concat init)))%Z; injection S0 as <-; [|auto].
      intros u Iu. unfold uids in *. rewrite map_app. apply in_or_app. left; exact Iu. }
    assert (N : NoDup (uids (concat init ++ lastf))).
    { eapply Permutation_NoDup; [apply Permutation_sym, P2|apply (prefix_nodup o pop W)]. }
    unfold uids in N. rewrite map_app in N. apply nodup_app_inv in N. destruct N as [_ [_ Dj]].
    split; [|split].
    - intros x Ix. pose proof (refs o pop (S k0) fronts r FC SEL x Ix) as Ip.
      apply (sel_in_fronts o pop (S k0) fronts r FC SEL) in Ix. rewrite E, concat_snoc in Ix.
      assert (H : depth_in (layers pop) (uid x) < S m).
      { apply depth_prefix; [apply (pop_uid_in_layers o pop x Ip)|].
        eapply Permutation_in; [exact P2|]. unfold uids. apply in_map, Ix. }
      unfold depth. lia.
    - intros y Iy Dy. apply Sub. eapply Permutation_in; [apply Permutation_sym, P1|].
      apply depth_prefix; [apply (pop_uid_in_layers o pop y Iy)|exact Dy].
    - intros y Iy. rewrite E, last_last.
      pose proof (pop_uid_in_layers o pop y Iy) as Il. unfold depth. split.
      + intro I.
        assert (H1 : depth_in (layers pop) (uid y) < S m).
        { apply depth_prefix; [exact Il|]. eapply Permutation_in; [exact P2|].
          unfold uids. rewrite map_app. apply in_or_app. right; exact I. }
        assert (H2 : ~ depth_in (layers pop) (uid y) < m).
        { intro H. apply (depth_prefix (layers pop) m (uid y) Il) in H.
          apply (Dj (uid y)); [|exact I]. eapply Permutation_in; [apply Permutation_sym, P1|exact H]. }
        lia.
      + intro Ed.
        assert (H : In (uid y) (uids (concat (firstn (S m) (layers pop))))) by (apply depth_prefix; [exact Il|lia]).
        eapply Permutation_in in H; [|apply Permutation_sym, P2].
        unfold uids in H. rewrite map_app in H. apply in_app_or in H. destruct H as [H|H]; [|exact H].
        exfalso. eapply Permutation_in in H; [|exact P1].
        apply (depth_prefix (layers pop) m (uid y) Il) in H. lia.
  Qed.
End Explicit.

Section Clauses.
  Variable o : numops.
  Notation indV := (ind (V o)).
  Variables (nd : nd_choice) (pop : list indV) (k : nat).
  Hypothesis OK : pop_ok pop.
  Hypothesis ND : nd_ok nd pop.
  Variable r : list indV.
  Hypothesis SEL : sel_nsga2_full o nd pop k = Some r.

  Let W : wf_pop pop := proj1 OK.

  Theorem full_all_when_k_ge_n : length pop <= k -> Permutation (uids r) (uids pop).
  Proof. destruct (full_inv o nd pop k r OK ND SEL) as [fr [_ [FC S]]]. exact (all_when_k_ge_n o pop k fr r W FC S). Qed.

  Theorem full_rank_ordered : StronglySorted (fun x y => depth pop x <= depth pop y) r.
  Proof. destruct (full_inv o nd pop k r OK ND SEL) as [fr [_ [FC S]]]. exact (rank_ordered o pop k fr r W FC S). Qed.

  Theorem full_cut_front_depth : forall fronts, nd_fronts nd pop k = Some fronts -> 0 < k ->
    exists m, forall y, In y pop -> (In (uid y) (uids (last fronts [])) <-> depth pop y = m).
  Proof.
    intros fronts E. destruct (full_inv o nd pop k r OK ND SEL) as [fr [E' [FC S]]].
    rewrite E in E'. injection E' as <-. exact (cut_front_depth o pop k fronts r W FC S).
  Qed.

End Clauses.

(* the cut front named by sizes of the peeling layers alone: whole fronts above, nothing below, and
   the last front the sort returned is exactly that depth class *)
Theorem full_cut_explicit o nd (pop : list (ind (V o))) k r :
  pop_ok pop -> nd_ok nd pop -> sel_nsga2_full o nd pop k = Some r ->
  0 < k -> forall m, cut_at pop k m ->
  (forall x, In x r -> depth pop x <= m) /\
  (forall y, In y pop -> depth pop y < m -> In (uid y) (uids r)) /\
  (forall fronts, nd_fronts nd pop k = Some fronts ->
     forall y, In y pop -> (In (uid y) (uids (last fronts [])) <-> depth pop y = m)).
Proof.
  intros OK ND SEL K m CA. destruct (full_inv o nd pop k r OK ND SEL) as [fr [E [FC S]]].
  destruct k as [|k0]; [lia|].
  destruct (cut_explicit o pop k0 fr r (proj1 OK) FC S m CA) as [H1 [H2 H3]].
  split; [exact H1|split; [exact H2|]]. intros fronts E'. rewrite E in E'. injection E' as <-. exact H3.
Qed.

Theorem full_cut_at_exists {A} (pop : list (ind A)) k : pop_ok pop -> 0 < k -> exists m, cut_at pop k m.
Proof.
  intros OK K. destruct (nd_fronts_correct NdStandard pop k OK I) as [fronts [_ FC]].
  eexists. apply (fronts_correct_cut_at pop k fronts K FC).
Qed.

(* rational / float instances of the crowding cut *)
Theorem full_crowding_cut_q nd (pop : list (ind Q)) k r :
  pop_ok pop -> nd_ok nd pop -> sel_nsga2_full q_ops nd pop k = Some r ->
  forall fronts, nd_fronts nd pop k = Some fronts ->
  forall lastf, lastf = last fronts [] ->
  forall x dx y dy,
    In (x, dx) (combine lastf (assign_crowding q_ops lastf)) ->
    In (y, dy) (combine lastf (assign_crowding q_ops lastf)) ->
    In (uid x) (uids r) -> ~ In (uid y) (uids r) -> qinf_ge dx dy.
Proof.
  intros OK ND SEL fronts E. destruct (full_inv q_ops nd pop k r OK ND SEL) as [fr [E' [FC S]]].
  pose proof (eq_trans (eq_sym E') E) as X. injection X as ->. exact (crowding_cut_q pop k fronts r (proj1 OK) FC S).
Qed.

Theorem full_crowding_cut_float nd (pop : list (ind PrimFloat.float)) k r :
  pop_ok pop -> nd_ok nd pop -> sel_nsga2_full f_ops nd pop k = Some r ->
  forall fronts, nd_fronts nd pop k = Some fronts ->
  forall lastf, lastf = last fronts [] ->
  Forall (fun d => PrimFloat.is_nan d = false) (assign_crowding f_ops lastf) ->
  forall x dx y dy,
    In (x, dx) (combine lastf (assign_crowding f_ops lastf)) ->
    In (y, dy) (combine lastf (assign_crowding f_ops lastf)) ->
    In (uid x) (uids r) -> ~ In (uid y) (uids r) -> PrimFloat.ltb dx dy = false.
Proof.
  intros OK ND SEL fronts E. destruct (full_inv f_ops nd pop k r OK ND SEL) as [fr [E' [FC S]]].
  pose proof (eq_trans (eq_sym E') E) as X. injection X as ->. exact (crowding_cut_float pop k fronts r (proj1 OK) FC S).
Qed.

(* Both sorting back-ends: defined, same size, the same whole fronts (everything strictly shallower than
   one common depth c is in both selections, nothing deeper is in either), and the two cut fronts are the
   same set of individuals (the depth class c).  Inside the cut front each back-end satisfies the crowding
   clause (the full_crowding_cut theorems) with the distances it assigned. *)
Theorem full_backends_agree o (pop : list (ind (V o))) k :
  pop_ok pop -> (forall x, In x pop -> 2 <= length (wv x)) ->
  exists r1 r2 c,
    sel_nsga2_full o NdStandard pop k = Some r1 /\ sel_nsga2_full o NdLog pop k = Some r2 /\
    length r1 = Nat.min k (length pop) /\ length r2 = Nat.min k (length pop) /\
    (forall y, In y pop ->
       (depth pop y < c -> In (uid y) (uids r1) /\ In (uid y) (uids r2)) /\
       (c < depth pop y -> ~ In (uid y) (uids r1) /\ ~ In (uid y) (uids r2))) /\
    (0 < k -> forall f1 f2, nd_fronts NdStandard pop k = Some f1 -> nd_fronts NdLog pop k = Some f2 ->
       forall y, In y pop -> (In (uid y) (uids (last f1 [])) <-> In (uid y) (uids (last f2 [])))).
Proof.
  intros OK L2.
  destruct (full_defined o NdStandard pop k OK I) as [r1 S1].
  destruct (full_defined o NdLog pop k OK L2) as [r2 S2].
  pose proof (full_size o NdStandard pop k OK I r1 S1) as Z1.
  pose proof (full_size o NdLog pop k OK L2 r2 S2) as Z2.
  destruct k as [|k0].
  - exists r1, r2, 0. repeat split; try assumption; try lia.
    + destruct r1; [intros []|discriminate].
    + destruct r2; [intros []|discriminate].
  - destruct (full_cut_at_exists pop (S k0) OK (Nat.lt_0_succ k0)) as [m CA].
    destruct (full_cut_explicit o NdStandard pop (S k0) r1 OK I S1 (Nat.lt_0_succ k0) m CA) as [A1 [B1 C1]].
    destruct (full_cut_explicit o NdLog pop (S k0) r2 OK L2 S2 (Nat.lt_0_succ k0) m CA) as [A2 [B2 C2]].
    exists r1, r2, m. split; [exact S1|split; [exact S2|split; [exact Z1|split; [exact Z2|split]]]].
    + intros y Iy. split.
      * intro D. split; [apply B1|apply B2]; assumption.
      * intro D. split; intro H; unfold uids in H; apply in_map_iff in H; destruct H as [x [E Ix]].
        -- specialize (A1 x Ix). unfold depth in *. rewrite E in A1. lia.
        -- specialize (A2 x Ix). unfold depth in *. rewrite E in A2. lia.
    + intros _ f1 f2 E1 E2 y Iy. rewrite (C1 f1 E1 y Iy), (C2 f2 E2 y Iy). tauto.
Qed.
