(* sortLogNondominated, part 5: top level.  sort_desc sorts, the rank map returned by
   sortNDHelperA satisfies the rank recurrence, hence (with the wrapper) sort_log = spec_sort. *)
From Coq Require Import List ZArith Bool Lia Permutation Sorted.
From DV Require Import Base.PyTuple Base.PyList Model.C01_Fitness Proofs.C01_Fitness Model.C04_NDSort
  Model.C04_LogSort Proofs.C04_NDSort Proofs.C04_NDLoop Proofs.C04_Spec Proofs.C04_LogWrap
  Proofs.C04_LogBase Proofs.C04_LogSweep Proofs.C04_LogRank.
Import ListNotations.
Local Open Scope Z_scope.

(* ---- list.sort(reverse=True) on distinct tuples gives a strictly decreasing list ---- *)
Lemma ins_desc_sorted x : forall acc, StronglySorted lexgt acc -> ~ In x acc -> StronglySorted lexgt (ins_desc x acc).
Proof.
  induction acc as [|y r IH]; intros SS NI; cbn [ins_desc]; [constructor; constructor|].
  inversion SS as [|? ? SS' F]; subst.
  destruct (tup_lt y x) eqn:T.
  - apply tup_lt_spec in T. constructor; [assumption|]. constructor; [exact T|].
    rewrite Forall_forall in *. intros z Hz. apply (lexgt_trans x y z); [exact T|apply F; assumption].
  - assert (LG : lexgt y x).
    { unfold lexgt. destruct (lex_trichotomy x y) as [H|[H|H]]; [assumption|subst; exfalso; apply NI; left; reflexivity|].
      apply tup_lt_spec in H. congruence. }
    constructor; [apply IH; [assumption|intro I; apply NI; right; assumption]|].
    rewrite Forall_forall in *. intros z Hz. apply (Permutation_in _ (ins_desc_perm x r)) in Hz.
    destruct Hz as [<-|Hz]; [assumption|apply F; assumption].
Qed.

Lemma sort_desc_sorted l : NoDup l -> StronglySorted lexgt (sort_desc l).
Proof.
  unfold sort_desc.
  assert (G : forall l acc, StronglySorted lexgt acc -> NoDup l -> (forall x, In x l -> ~ In x acc) ->
                            StronglySorted lexgt (fold_left (fun a x => ins_desc x a) l acc)).
  { clear l. induction l as [|x l IH]; intros acc SS ND D; cbn [fold_left]; [assumption|].
    inversion ND; subst. apply IH; [apply ins_desc_sorted; [assumption|apply D; left; reflexivity]|assumption|].
    intros y Hy I. apply (Permutation_in _ (ins_desc_perm x acc)) in I. destruct I as [<-|I]; [contradiction|].
    apply (D y); [right; assumption|assumption]. }
  intro ND. apply G; [constructor|assumption|intros x _ []].
Qed.

(* ---- dict.fromkeys(fitnesses, 0) ---- *)
Lemma front0_keys (fits : list wvals) : kkeys (map (fun f => (f, 0)) fits) = fits.
Proof. unfold kkeys. rewrite map_map. cbn. apply map_id. Qed.
Lemma front0_get (fits : list wvals) f : fget (map (fun f => (f, 0)) fits) f = 0.
Proof. unfold fget. induction fits as [|g fits IH]; cbn; [reflexivity|]. destruct (key_eqb g f); [reflexivity|assumption]. Qed.

(* ---- the rank map computed by the helpers ---- *)
Theorem log_ranks_correct pop sorted front :
  NoDup (map uid pop) -> same_len (map iw pop) -> (forall x, In x pop -> (2 <= length (iw x))%nat) ->
  log_ranks pop = Some (sorted, front) ->
  Permutation sorted (kkeys (group_inds pop)) /\ kkeys front = kkeys (group_inds pop) /\
  rank_rec (kkeys (group_inds pop)) front.
Proof.
  intros NDu SL L2 E. unfold log_ranks in E. destruct pop as [|x0 pop'] eqn:EP; [discriminate|]. rewrite <- EP in *.
  set (fits := kkeys (group_inds pop)) in *.
  set (Mlen := length (iw x0)).
  assert (X0 : In x0 pop) by (rewrite EP; left; reflexivity).
  assert (ML : (2 <= Mlen)%nat) by (apply L2; assumption).
  assert (LEN : forall f, In f fits -> length f = Mlen).
  { intros f Hf. apply fits_in in Hf. apply (SL f (iw x0)); [assumption|apply in_map; assumption]. }
  set (m := (Mlen - 1)%nat).
  replace (zlen (iw x0) - 1) with (Z.of_nat m) in E by (unfold zlen, m; fold Mlen; lia).
  destruct (helperA _ (sort_desc fits) (Z.of_nat m) _) as [fr|] eqn:HA; [|discriminate].
  inversion E; subst sorted front; clear E.
  pose proof (sort_desc_perm fits) as PERM.
  assert (SIN : forall f, In f (sort_desc fits) <-> In f fits).
  { intro f. split; apply Permutation_in; [assumption|apply Permutation_sym; assumption]. }
  assert (PRE : forall f, In f fits -> pre m f = f).
  { intros f Hf. unfold pre, m. replace (S (Mlen - 1)) with Mlen by lia. rewrite <- (LEN f Hf). apply firstn_all. }
  assert (AP : A_postR (dom_pref m) (sort_desc fits) (map (fun f => (f, 0)) fits) fr).
  { apply (helperA_correct Mlen (log_fuel (length (sort_desc fits)) (Z.of_nat m)) m _ _ fr); [unfold m; lia|unfold m; lia| |exact HA].
    split; [apply sort_desc_sorted; apply fits_nodup|]. split; [intros f Hf; apply LEN, SIN; assumption|]. split.
    - intros s Hs. rewrite front0_keys. apply SIN. assumption.
    - intros s t Hs Ht P. rewrite (PRE s), (PRE t) in P by (apply SIN; assumption). assumption. }
  destruct AP as [K [_ C]]. rewrite front0_keys in K.
  split; [assumption|split; [assumption|]].
  assert (DP : forall t s, In t fits -> In s fits -> (dom_pref m t s <-> nd_dom t s = true)).
  { intros t s Ht Hs. unfold dom_pref. rewrite (PRE t Ht), (PRE s Hs). reflexivity. }
  split; [|split].
  - intros f Hf. destruct (C f (proj2 (SIN f) Hf)) as [C1 _]. rewrite front0_get in C1. assumption.
  - intros g f Hg Hf D. destruct (C f (proj2 (SIN f) Hf)) as [_ [C2 _]]. apply C2; [apply SIN; assumption|apply DP; assumption].
  - intros f Hf. destruct (C f (proj2 (SIN f) Hf)) as [_ [_ [C3|[t [Ht [D Et]]]]]].
    + left. rewrite front0_get in C3. assumption.
    + right. apply SIN in Ht. exists t. split; [assumption|]. split; [apply DP; assumption|assumption].
Qed.

Lemma forall2_perm_trans {A} (l1 l2 l3 : list (list A)) :
  Forall2 (@Permutation A) l1 l2 -> Forall2 (@Permutation A) l2 l3 -> Forall2 (@Permutation A) l1 l3.
Proof.
  intro H. revert l3. induction H; intros l3 H2; inversion H2; subst; constructor.
  - eapply Permutation_trans; eassumption.
  - apply IHForall2. assumption.
Qed.
Lemma forall2_perm_sym {A} (l1 l2 : list (list A)) :
  Forall2 (@Permutation A) l1 l2 -> Forall2 (@Permutation A) l2 l1.
Proof. induction 1; constructor; [apply Permutation_sym; assumption|assumption]. Qed.

(* whenever the rank computation returns (fuel not exhausted), the result is the specification *)
Theorem sort_log_correct_if_ranks pop k ffo sorted front :
  NoDup (map uid pop) -> same_len (map iw pop) -> pop <> [] -> (forall x, In x pop -> (2 <= length (iw x))%nat) ->
  log_ranks pop = Some (sorted, front) ->
  exists r, sort_log pop k ffo = Some r /\ Forall2 (@Permutation ind) (log_fronts r) (spec_sort pop k ffo).
Proof.
  intros NDu SL NE L2 LR. destruct (log_ranks_correct pop sorted front NDu SL L2 LR) as [P [K R]].
  exact (log_wrapper_correct pop NDu SL NE sorted front P K R k ffo LR).
Qed.
