(* C06 proofs, part 6: the operators raise no exception on in-scope inputs (roulette, SUS, lexicase). *)
From Coq Require Import List Bool Arith Permutation QArith Qabs Lia Lqa.
From DV Require Import Base.PyList Base.C06_Py Model.C06_Select Proofs.C06_Sort Proofs.C06_Basic
  Proofs.C06_Roulette Proofs.C06_SUS Proofs.C06_Lexicase.
Import ListNotations.

Lemma mapM_no_raise {A B} (f : A -> M B) (e : exn) l :
  (forall x d, In x l -> f x d <> Raise e) -> forall d, mapM f l d <> Raise e.
Proof.
  induction l as [|x r IH]; intros Hf d H; cbn [mapM] in H; [discriminate|].
  apply bind_Raise in H as [H|(y & d1 & _ & H)]; [eapply Hf; [left; reflexivity|exact H]|].
  apply bind_Raise in H as [H|(ys & d2 & _ & H)]; [|discriminate].
  eapply IH; [|exact H]. intros; apply Hf; right; assumption.
Qed.

Lemma selRoulette_no_raise w inds k ds e :
  Forall (fun x => 0 < val0 w x) inds -> selRoulette w inds k ds <> Raise e.
Proof.
  intros Pos. unfold selRoulette. rewrite (positive_has_val0 _ _ Pos). cbn [negb].
  intro H. apply bind_Raise in H as [H|(a & d & _ & H)]; [|discriminate].
  revert H. apply repeatM_no_raise. intros d H.
  apply bind_Raise in H as [H|(u & d1 & _ & H)]; [eapply random01_no_raise; eauto|discriminate].
Qed.

Lemma selSUS_no_raise w inds k ds e :
  Forall (fun x => 0 < val0 w x) inds -> inds <> [] -> selSUS w inds k ds <> Raise e.
Proof.
  intros Pos Hne. unfold selSUS. rewrite (positive_has_val0 _ _ Pos). cbn [negb].
  set (s := py_sorted_rev f_lt inds). set (S := sum_fits w inds).
  assert (Perm : Permutation s inds) by apply py_sorted_rev_perm.
  assert (PosS : Forall (fun x => 0 < val0 w x) s).
  { eapply Permutation_Forall; [symmetry; exact Perm|exact Pos]. }
  assert (ES : S == tot w s).
  { unfold S. rewrite sum_fits_tot. apply tot_perm. symmetry; exact Perm. }
  assert (Hs : s <> []).
  { intro E. rewrite E in Perm. apply Permutation_nil in Perm. contradiction. }
  assert (HS : 0 < S) by (rewrite ES; apply tot_pos; assumption).
  destruct (Nat.eqb_spec k 0) as [->|Hk]; [discriminate|].
  intro H. apply bind_Raise in H as [H|(u & d & Hu & H)]; [eapply random01_no_raise; eauto|].
  apply random01_Ok in Hu as (U0 & U1 & _).
  rewrite (sus_points_pt S u k) in H. revert H. apply mapM_no_raise.
  intros p d0 Hp H. apply in_map_iff in Hp as (i & <- & Hi). apply in_seq in Hi.
  assert (Lt : pt S u k i < S) by (apply pt_lt_S; [exact HS|lia|exact U1|lia]).
  destruct (sus_pick_total w s (pt S u k i) d0 Hs) as [x Hx]; [rewrite <- ES; lra|].
  congruence.
Qed.

(* ---- lexicase ---- *)
Lemma lex_filter_nonempty step cases :
  (forall c cands, cands <> [] -> step c cands <> []) ->
  forall cands, cands <> [] -> lex_filter step cases cands <> [].
Proof.
  intro Hs. induction cases as [|c cs IH]; intros cands Hne; cbn [lex_filter]; [exact Hne|].
  destruct (Nat.leb (length cands) 1); [exact Hne|]. apply IH, Hs, Hne.
Qed.

Lemma best_candidate w c (cands : list ind) : cands <> [] ->
  (exists x, In x cands /\ val w x c = qmax (map (fun x => val w x c) cands)) /\
  (exists x, In x cands /\ val w x c = qmin (map (fun x => val w x c) cands)).
Proof.
  intro Hne. assert (Hm : map (fun x => val w x c) cands <> []) by (destruct cands; [contradiction|discriminate]).
  split.
  - pose proof (qmax_in _ Hm) as H. apply in_map_iff in H as (x & E & Hx). eauto.
  - pose proof (qmin_in _ Hm) as H. apply in_map_iff in H as (x & E & Hx). eauto.
Qed.

Lemma step_plain_nonempty w c cands : cands <> [] -> step_plain w c cands <> [].
Proof.
  intro Hne. destruct (best_candidate w c cands Hne) as [(x & Hx & Ex) (y & Hy & Ey)].
  unfold step_plain. destruct (maximised w c).
  - assert (In x (filter (fun x => Qeq_bool (val w x c) (qmax (map (fun x => val w x c) cands))) cands)).
    { apply filter_In. split; [exact Hx|]. rewrite Ex. apply Qeq_bool_iff. reflexivity. }
    intro E. rewrite E in H. contradiction.
  - assert (In y (filter (fun x => Qeq_bool (val w x c) (qmin (map (fun x => val w x c) cands))) cands)).
    { apply filter_In. split; [exact Hy|]. rewrite Ey. apply Qeq_bool_iff. reflexivity. }
    intro E. rewrite E in H. contradiction.
Qed.

Lemma step_eps_nonempty eps w c cands : 0 <= eps -> cands <> [] -> step_eps eps w c cands <> [].
Proof.
  intros He Hne. destruct (best_candidate w c cands Hne) as [(x & Hx & Ex) (y & Hy & Ey)].
  unfold step_eps. destruct (maximised w c).
  - assert (In x (filter (fun x => Qle_bool (qmax (map (fun x => val w x c) cands) - eps) (val w x c)) cands)).
    { apply filter_In. split; [exact Hx|]. rewrite Ex. apply Qle_bool_iff. lra. }
    intro E. rewrite E in H. contradiction.
  - assert (In y (filter (fun x => Qle_bool (val w x c) (qmin (map (fun x => val w x c) cands) + eps)) cands)).
    { apply filter_In. split; [exact Hy|]. rewrite Ey. apply Qle_bool_iff. lra. }
    intro E. rewrite E in H. contradiction.
Qed.

Lemma nth_nonneg (l : list Q) i : Forall (fun v => 0 <= v) l -> 0 <= nth i l 0.
Proof.
  intro F. revert i; induction F as [|x r Hx F IH]; intros [|i]; cbn; try lra. apply IH.
Qed.

Lemma median_nonneg l : Forall (fun v => 0 <= v) l -> 0 <= median l.
Proof.
  intro F. unfold median.
  assert (Fs : Forall (fun v => 0 <= v) (qsort l)).
  { eapply Permutation_Forall; [symmetry; apply py_sorted_perm|exact F]. }
  destruct (Nat.even (length (qsort l))).
  - pose proof (nth_nonneg (qsort l) (length (qsort l) / 2 - 1) Fs).
    pose proof (nth_nonneg (qsort l) (length (qsort l) / 2) Fs).
    apply Qle_shift_div_l; lra.
  - apply nth_nonneg; exact Fs.
Qed.

Lemma mad_nonneg errs : 0 <= mad errs.
Proof.
  unfold mad. apply median_nonneg. apply Forall_forall. intros v Hv.
  apply in_map_iff in Hv as (e & <- & _). apply Qabs_nonneg.
Qed.

Lemma step_auto_nonempty w c cands : cands <> [] -> step_auto w c cands <> [].
Proof. intro Hne. unfold step_auto. apply step_eps_nonempty; [apply mad_nonneg|exact Hne]. Qed.

Lemma lexicase_gen_no_raise step w inds k ds e :
  (forall c cands, cands <> [] -> step c cands <> []) -> inds <> [] ->
  lexicase_gen step w inds k ds <> Raise e.
Proof.
  intros Hs Hne. unfold lexicase_gen. apply repeatM_no_raise. intros d H.
  destruct inds as [|x0 r]; [contradiction|].
  apply bind_Raise in H as [H|(cases & d1 & _ & H)]; [eapply shuffle_no_raise; eauto|].
  apply choice_Raise in H. revert H. apply lex_filter_nonempty; [exact Hs|discriminate].
Qed.

(* ---- corollaries used by the property file ---- *)
(* with distinct individuals: spin t selects the individual at position j iff c_j <= t < c_{j+1} *)
Lemma spin_iff w l t j x :
  Forall (fun x => 0 < val0 w x) l -> NoDup (map uid l) -> 0 <= t ->
  nth_error l j = Some x ->
  (spin w l 0 t = Some x <-> cum w l j <= t /\ t < cum w l (S j)).
Proof.
  intros Pos ND Ht Hn. split.
  - intro H. destruct (spin_inv w l 0 t x Ht H) as (j' & Hn' & H1 & H2).
    assert (j' = j) by (eapply nth_error_uid_inj; eauto). subst j'. split; lra.
  - intros [H1 H2]. eapply spin_interval; eauto; lra.
Qed.
