(* Characterising lemmas of the statement vocabulary of Model/C06_GenRt.v: monad laws (pointwise, no
   functional extensionality), loops that collect results = mapM / repeatM, while loops whose fuel
   suffices, the raising operations on inputs where they do not raise.  They are what the
   equivalence proofs of Proofs/C06_gen_equiv.v rewrite with. *)
From Coq Require Import List Bool Arith QArith Lia.
From DV Require Import Base.PyList Base.C06_Py Model.C06_Select Model.C06_GenRt.
Import ListNotations.
Local Open Scope nat_scope.

(* ---------- pointwise monad laws ---------- *)
Lemma bind_ext {A B} (m : M A) (f g : A -> M B) ds :
  (forall a d, f a d = g a d) -> bind m f ds = bind m g ds.
Proof. intro H. unfold bind. destruct (m ds); auto. Qed.

Lemma bind_ext2 {A B} (m m' : M A) (f g : A -> M B) ds :
  m ds = m' ds -> (forall a d, f a d = g a d) -> bind m f ds = bind m' g ds.
Proof. intros E H. unfold bind. rewrite E. destruct (m' ds); auto. Qed.

Lemma bind_assoc {A B C} (m : M A) (f : A -> M B) (g : B -> M C) ds :
  bind (bind m f) g ds = bind m (fun a => bind (f a) g) ds.
Proof. unfold bind. destruct (m ds); reflexivity. Qed.

Lemma bind_ret_l {A B} (a : A) (f : A -> M B) ds : bind (ret a) f ds = f a ds.
Proof. reflexivity. Qed.

Lemma bind_ret_r {A} (m : M A) ds : bind m (fun a => ret a) ds = m ds.
Proof. unfold bind, ret. destruct (m ds); reflexivity. Qed.

Lemma bind_Ok_eq {A B} (m : M A) (f : A -> M B) ds a d : m ds = Ok a d -> bind m f ds = f a d.
Proof. unfold bind. intros ->. reflexivity. Qed.

Lemma bind_Raise_eq {A B} (m : M A) (f : A -> M B) ds e : m ds = Raise e -> bind m f ds = Raise e.
Proof. unfold bind. intros ->. reflexivity. Qed.

Lemma bind_Mismatch_eq {A B} (m : M A) (f : A -> M B) ds : m ds = Mismatch -> bind m f ds = Mismatch.
Proof. unfold bind. intros ->. reflexivity. Qed.

(* ---------- mapM / repeatM ---------- *)
Lemma mapM_ext {A B} (f g : A -> M B) l :
  (forall x ds, In x l -> f x ds = g x ds) -> forall ds, mapM f l ds = mapM g l ds.
Proof.
  induction l as [|x r IH]; intros H ds; [reflexivity|]. cbn [mapM].
  apply bind_ext2; [apply H; left; reflexivity|]. intros y d.
  apply bind_ext2; [apply IH; intros; apply H; right; assumption|]. reflexivity.
Qed.

(* `[body for i in range(k)]` with a body that does not read i *)
Lemma mapM_const_seq {A} (m : M A) k : forall a ds, mapM (fun _ : nat => m) (seq a k) ds = repeatM k m ds.
Proof.
  induction k as [|k IH]; intros a ds; [reflexivity|]. cbn [seq mapM repeatM].
  apply bind_ext. intros x d. apply bind_ext2; [apply IH|]. reflexivity.
Qed.

Lemma mapM_pure {A B} (f : A -> M B) (g : A -> B) l :
  (forall x ds, In x l -> f x ds = Ok (g x) ds) -> forall ds, mapM f l ds = Ok (map g l) ds.
Proof.
  induction l as [|x r IH]; intros H ds; [reflexivity|]. cbn [mapM map].
  rewrite (bind_Ok_eq _ _ _ _ _ (H x ds (or_introl eq_refl))).
  rewrite (bind_Ok_eq _ _ _ _ _ (IH (fun y d Hy => H y d (or_intror Hy)) ds)). reflexivity.
Qed.

(* the first element on which f raises decides *)
Lemma mapM_raise {A B} (f : A -> M B) (g : A -> B) (ok : A -> bool) e l :
  (forall x ds, ok x = true -> f x ds = Ok (g x) ds) -> (forall x ds, ok x = false -> f x ds = Raise e) ->
  forall ds, mapM f l ds = if forallb ok l then Ok (map g l) ds else Raise e.
Proof.
  intros H1 H2. induction l as [|x r IH]; intro ds; [reflexivity|]. cbn [mapM map forallb].
  destruct (ok x) eqn:E.
  - rewrite (bind_Ok_eq _ _ _ _ _ (H1 x ds E)). cbn [andb]. unfold bind at 1. rewrite IH.
    destruct (forallb ok r); reflexivity.
  - rewrite (bind_Raise_eq _ _ _ _ (H2 x ds E)). reflexivity.
Qed.

(* ---------- for_each ---------- *)
Lemma for_each_ext {A S} (l : list A) (b1 b2 : A -> S -> M S) :
  (forall x s ds, In x l -> b1 x s ds = b2 x s ds) -> forall s ds, for_each l b1 s ds = for_each l b2 s ds.
Proof.
  induction l as [|x r IH]; intros H s ds; [reflexivity|]. cbn [for_each].
  apply bind_ext2; [apply H; left; reflexivity|]. intros s' d. apply IH. intros; apply H; right; assumption.
Qed.

(* `acc = []; for x in l: ...; acc.append(y)` / `acc.extend(g(y))` : the loop collects what mapM returns *)
Lemma for_each_collect {A B C} (l : list A) (body : A -> list C -> M (list C)) (f : A -> M B) (g : B -> list C) :
  (forall x acc ds, In x l -> body x acc ds = (y <- f x ;; ret (acc ++ g y)) ds) ->
  forall acc ds, for_each l body acc ds = (ys <- mapM f l ;; ret (acc ++ flat_map g ys)) ds.
Proof.
  induction l as [|x r IH]; intros H acc ds.
  - cbn. unfold ret. rewrite app_nil_r. reflexivity.
  - cbn [for_each mapM].
    assert (IH' := IH (fun y a d Hy => H y a d (or_intror Hy))).
    unfold bind at 1. rewrite (H x acc ds (or_introl eq_refl)).
    unfold bind, ret in *. destruct (f x ds) as [y d| |]; try reflexivity.
    rewrite IH'. destruct (mapM f r d) as [ys d'| |]; try reflexivity.
    cbn [flat_map]. rewrite app_assoc. reflexivity.
Qed.

Lemma flat_map_single {A} (l : list A) : flat_map (fun y => [y]) l = l.
Proof. induction l as [|x r IH]; [reflexivity|]. cbn. rewrite IH. reflexivity. Qed.

Lemma for_each_append {A B} (l : list A) (body : A -> list B -> M (list B)) (f : A -> M B) :
  (forall x acc ds, In x l -> body x acc ds = (y <- f x ;; ret (acc ++ [y])) ds) ->
  forall acc ds, for_each l body acc ds = (ys <- mapM f l ;; ret (acc ++ ys)) ds.
Proof.
  intros H acc ds. rewrite (for_each_collect l body f (fun y => [y]) H).
  apply bind_ext. intros ys d. rewrite flat_map_single. reflexivity.
Qed.

(* ... from the empty list, followed by `return acc` *)
Lemma for_each_append_nil {A B} (l : list A) (body : A -> list B -> M (list B)) (f : A -> M B) ds :
  (forall x acc ds, In x l -> body x acc ds = (y <- f x ;; ret (acc ++ [y])) ds) ->
  (acc <- for_each l body [] ;; ret acc) ds = mapM f l ds.
Proof.
  intro H. rewrite bind_ret_r. rewrite (for_each_append l body f H). cbn [app]. apply bind_ret_r.
Qed.

(* ---------- raising operations ---------- *)
Lemma index_Some {A} (l : list A) i x ds : nth_error l i = Some x -> index l i ds = Ok x ds.
Proof. unfold index. intros ->. reflexivity. Qed.

Lemma index_None {A} (l : list A) i ds : nth_error l i = None -> index l i ds = Raise IndexError.
Proof. unfold index. intros ->. reflexivity. Qed.

Lemma index_values0 w x ds :
  index (values w x) 0 ds = if has_val0 w x then Ok (val0 w x) ds else Raise IndexError.
Proof. unfold index, has_val0, val0, val. destruct (values w x); reflexivity. Qed.

Lemma index_values0_ok w x ds : has_val0 w x = true -> index (values w x) 0 ds = Ok (val0 w x) ds.
Proof. intro H. rewrite index_values0, H. reflexivity. Qed.

Lemma py_maxM_best_of l ds : py_maxM l ds = best_of l ds.
Proof. reflexivity. Qed.

Lemma Qnat_neq0 k : k <> 0 -> Qeq_bool (Qnat k) 0 = false.
Proof.
  intro H. unfold Qnat. destruct (Qeq_bool (inject_Z (Z.of_nat k)) 0) eqn:E; [|reflexivity].
  apply Qeq_bool_eq in E. unfold Qeq in E. cbn in E. lia.
Qed.

Lemma qdivM_ok a b ds : Qeq_bool b 0 = false -> qdivM a b ds = Ok (a / b)%Q ds.
Proof. unfold qdivM. intros ->. reflexivity. Qed.

(* ---------- range ---------- *)
Lemma range_step_S a n s : range_step a (a + S n * S s) (S s) = a :: range_step (a + S s) (a + S s + n * S s) (S s).
Proof.
  unfold range_step.
  replace (a + S n * S s - a + (S s - 1)) with (s + S n * S s) by lia.
  replace (a + S s + n * S s - (a + S s) + (S s - 1)) with (s + n * S s) by lia.
  rewrite !Nat.div_add by lia. rewrite (Nat.div_small s (S s)) by lia. cbn [Nat.add seq map].
  f_equal; [lia|]. rewrite <- seq_shift, map_map. apply map_ext. intro j. lia.
Qed.

Lemma range_step_0 a s : range_step a a (S s) = [].
Proof. unfold range_step. replace (a - a + (S s - 1)) with s by lia. rewrite Nat.div_small by lia. reflexivity. Qed.

(* ---------- more operations that do not raise on the inputs at hand ---------- *)
Lemma index_cons0 {A} (x : A) r ds : index (x :: r) 0 ds = Ok x ds.
Proof. reflexivity. Qed.

Lemma index_nth {A} (l : list A) i d0 ds : i < length l -> index l i ds = Ok (nth i l d0) ds.
Proof. intro H. unfold index. rewrite (nth_error_nth' l d0 H). reflexivity. Qed.

Lemma pop0_cons {A} (x : A) r ds : pop0 (x :: r) ds = Ok r ds.
Proof. reflexivity. Qed.

Lemma qmaxM_ok l ds : l <> [] -> qmaxM l ds = Ok (qmax l) ds.
Proof. destruct l; [congruence|reflexivity]. Qed.

Lemma qminM_ok l ds : l <> [] -> qminM l ds = Ok (qmin l) ds.
Proof. destruct l; [congruence|reflexivity]. Qed.

Lemma filterM_pure {A} (f : A -> M bool) (g : A -> bool) l :
  (forall x ds, In x l -> f x ds = Ok (g x) ds) -> forall ds, filterM f l ds = Ok (filter g l) ds.
Proof.
  induction l as [|x r IH]; intros H ds; [reflexivity|]. cbn [filterM filter].
  rewrite (bind_Ok_eq _ _ _ _ _ (H x ds (or_introl eq_refl))).
  rewrite (bind_Ok_eq _ _ _ _ _ (IH (fun y d Hy => H y d (or_intror Hy)) ds)). unfold ret. destruct (g x); reflexivity.
Qed.

(* [x for x, v in zip(l, [f(y) for y in l]) if p(v)] *)
Lemma filter_combine_map {A B} (f : A -> B) (p : B -> bool) l :
  map fst (filter (fun xv => p (snd xv)) (combine l (map f l))) = filter (fun x => p (f x)) l.
Proof.
  induction l as [|x r IH]; [reflexivity|]. cbn [map combine filter snd]. destruct (p (f x)); cbn [map fst]; rewrite IH; reflexivity.
Qed.

Lemma bind_ext_ok {A B} (m : M A) (f g : A -> M B) ds :
  (forall a d, m ds = Ok a d -> f a d = g a d) -> bind m f ds = bind m g ds.
Proof. intro H. unfold bind. destruct (m ds); auto. Qed.

(* the same with the tuple patterns the translator writes for `for x, v in zip(..)` *)
Lemma filter_zip_map {A B} (f : A -> B) (p : B -> bool) l :
  map (fun '(x, _) => x) (filter (fun '(_, v) => p v) (combine l (map f l))) = filter (fun x => p (f x)) l.
Proof.
  induction l as [|x r IH]; [reflexivity|]. cbn [map combine filter]. destruct (p (f x)); cbn [map]; rewrite IH; reflexivity.
Qed.

Lemma mapM_map {A B C} (f : B -> M C) (g : A -> B) l : forall ds, mapM f (map g l) ds = mapM (fun x => f (g x)) l ds.
Proof.
  induction l as [|x r IH]; intro ds; [reflexivity|]. cbn [map mapM]. apply bind_ext. intros y d.
  apply bind_ext2; [apply IH|]. reflexivity.
Qed.

