(* sortLogNondominated, part 6: the recursion terminates within the fuel the model gives it
   (median lies between two of the values, so both sides of a split are non-empty whenever the
   code reaches the split), hence sort_log never returns None on the domain of the property. *)
From Coq Require Import List ZArith Bool Lia Permutation Sorted.
From DV Require Import Base.PyTuple Base.PyList Model.C01_Fitness Proofs.C01_Fitness Model.C04_NDSort
  Model.C04_LogSort Proofs.C04_NDSort Proofs.C04_NDLoop Proofs.C04_LogBase Proofs.C04_LogSweep Proofs.C04_LogRank.
Import ListNotations.
Local Open Scope Z_scope.

(* ---- median ---- *)
Lemma ins_asc_perm x l : Permutation (ins_asc x l) (x :: l).
Proof.
  induction l as [|y r IH]; cbn; [constructor; constructor|].
  destruct (x <? y); [apply Permutation_refl|].
  eapply Permutation_trans; [apply perm_skip, IH|apply perm_swap].
Qed.
Lemma sort_asc_perm l : Permutation (sort_asc l) l.
Proof.
  unfold sort_asc. assert (G : forall acc, Permutation (fold_left (fun a x => ins_asc x a) l acc) (acc ++ l)).
  { induction l as [|x l IH]; intro acc; cbn [fold_left]; [rewrite app_nil_r; apply Permutation_refl|].
    eapply Permutation_trans; [apply IH|]. eapply Permutation_trans; [apply Permutation_app_tail, ins_asc_perm|].
    cbn. apply Permutation_middle. }
  apply (G []).
Qed.

Lemma item_in l i : 0 <= i < zlen l -> In (item l i) l.
Proof.
  intro H. unfold zlen in H. rewrite <- (Z2Nat.id i) by lia. rewrite item_nth by lia. apply nth_In. lia.
Qed.

Lemma median2_witness keys : keys <> [] ->
  exists k1 k2, In k1 keys /\ In k2 keys /\ 2 * k1 <= median2 keys <= 2 * k2.
Proof.
  intro NE. unfold median2. set (s := sort_asc keys). set (n := zlen keys).
  assert (LS : zlen s = n) by (unfold zlen, s, n; rewrite (Permutation_length (sort_asc_perm keys)); reflexivity).
  assert (N1 : 1 <= n) by (unfold n, zlen; destruct keys; [congruence|cbn [length]; lia]).
  assert (IN : forall i, 0 <= i < n -> In (item s i) keys).
  { intros i Hi. apply (Permutation_in _ (sort_asc_perm keys)). apply item_in. fold s. lia. }
  assert (I1 : 0 <= (n - 1) / 2 < n) by (split; [apply Z.div_pos; lia|apply Z.div_lt_upper_bound; lia]).
  assert (I2 : 0 <= n / 2 < n) by (split; [apply Z.div_pos; lia|apply Z.div_lt_upper_bound; lia]).
  destruct (n mod 2 =? 1).
  - exists (item s ((n - 1) / 2)), (item s ((n - 1) / 2)). split; [apply IN; assumption|split; [apply IN; assumption|lia]].
  - set (a := item s ((n - 1) / 2)). set (b := item s (n / 2)).
    destruct (Z.le_ge_cases a b).
    + exists a, b. split; [apply IN; assumption|split; [apply IN; assumption|lia]].
    + exists b, a. split; [apply IN; assumption|split; [apply IN; assumption|lia]].
Qed.

(* ---- both sides of a split are non-empty ---- *)
Section SplitProgress.
  Variables (U : list wvals) (obj m2 : Z).
  Let cnt (P : wvals -> bool) : Z := zlen (filter P U).
  Let hia := fun f => gt_med m2 obj f || negb (lt_med m2 obj f).
  Let hib := fun f => gt_med m2 obj f.
  Hypothesis W1 : exists u, In u U /\ 2 * item u obj <= m2.
  Hypothesis W2 : exists u, In u U /\ m2 <= 2 * item u obj.
  Hypothesis NEQ : exists x y, In x U /\ In y U /\ item x obj <> item y obj.

  Lemma cnt_total P : cnt P + cnt (fun f => negb (P f)) = zlen U.
  Proof. unfold cnt, zlen. pose proof (filter_length_split P U). lia. Qed.
  Lemma cnt_nonneg P : 0 <= cnt P.
  Proof. apply zlen_nonneg. Qed.
  Lemma cnt_pos P u : In u U -> P u = true -> 0 < cnt P.
  Proof.
    intros Hu Pu. unfold cnt, zlen. assert (In u (filter P U)) as I by (apply filter_In; auto).
    destruct (filter P U); [destruct I|cbn; lia].
  Qed.
  Lemma cnt_zero P : cnt P = 0 -> forall u, In u U -> P u = false.
  Proof.
    intros Z0 u Hu. destruct (P u) eqn:E; [|reflexivity]. pose proof (cnt_pos P u Hu E). lia.
  Qed.

  Lemma split_progress :
    let ba := Z.abs (cnt hia - cnt (fun f => negb (hia f))) in
    let bb := Z.abs (cnt hib - cnt (fun f => negb (hib f))) in
    (ba <= bb -> 0 < cnt hia /\ 0 < cnt (fun f => negb (hia f))) /\
    (bb < ba -> 0 < cnt hib /\ 0 < cnt (fun f => negb (hib f))).
  Proof.
    cbn zeta. destruct W1 as [u1 [H1 B1]]. destruct W2 as [u2 [H2 B2]].
    assert (PA : 0 < cnt hia).
    { apply (cnt_pos hia u2 H2). unfold hia, gt_med, lt_med.
      destruct (Z.gtb_spec (2 * item u2 obj) m2), (Z.ltb_spec (2 * item u2 obj) m2); cbn; try reflexivity; lia. }
    assert (PB : 0 < cnt (fun f => negb (hib f))).
    { apply (cnt_pos _ u1 H1). unfold hib, gt_med. destruct (Z.gtb_spec (2 * item u1 obj) m2); cbn; [lia|reflexivity]. }
    pose proof (cnt_total hia) as TA. pose proof (cnt_total hib) as TB.
    pose proof (cnt_nonneg hia). pose proof (cnt_nonneg (fun f => negb (hia f))).
    pose proof (cnt_nonneg hib). pose proof (cnt_nonneg (fun f => negb (hib f))).
    split.
    - intro LE. split; [assumption|].
      destruct (Z.eq_dec (cnt (fun f => negb (hia f))) 0) as [Z0|]; [exfalso|lia].
      assert (ZB : cnt hib = 0) by lia.
      destruct NEQ as [x [y [Hx [Hy N]]]]. apply N.
      pose proof (cnt_zero _ Z0 x Hx) as Ax. pose proof (cnt_zero _ Z0 y Hy) as Ay.
      pose proof (cnt_zero _ ZB x Hx) as Bx. pose proof (cnt_zero _ ZB y Hy) as By.
      unfold hia, hib, gt_med, lt_med in *. cbn beta in *.
      destruct (Z.gtb_spec (2 * item x obj) m2), (Z.ltb_spec (2 * item x obj) m2),
               (Z.gtb_spec (2 * item y obj) m2), (Z.ltb_spec (2 * item y obj) m2); cbn [orb negb andb] in *; try discriminate; lia.
    - intro LT. lia.
  Qed.
End SplitProgress.

Lemma zlen_filter_app {A} (P : A -> bool) a b : zlen (filter P (a ++ b)) = zlen (filter P a) + zlen (filter P b).
Proof. rewrite filter_app, zlen_app. reflexivity. Qed.

Lemma median_witness_in (X U : list wvals) obj :
  X <> [] -> (forall x, In x X -> In x U) ->
  (exists u, In u U /\ 2 * item u obj <= median2 (map (fun f => item f obj) X)) /\
  (exists u, In u U /\ median2 (map (fun f => item f obj) X) <= 2 * item u obj).
Proof.
  intros NE SUB. destruct (median2_witness (map (fun f => item f obj) X)) as [k1 [k2 [I1 [I2 B]]]].
  { destruct X; [congruence|discriminate]. }
  apply in_map_iff in I1. destruct I1 as [u1 [E1 H1]]. apply in_map_iff in I2. destruct I2 as [u2 [E2 H2]].
  split; [exists u1|exists u2]; (split; [apply SUB; assumption|lia]).
Qed.

Lemma splitA_smaller S obj best worst :
  (exists x y, In x S /\ In y S /\ item x obj <> item y obj) ->
  splitA S obj = (best, worst) -> (length best < length S)%nat /\ (length worst < length S)%nat.
Proof.
  intros NEQ. assert (NE : S <> []) by (destruct NEQ as [x [_ [Hx _]]]; destruct S; [destruct Hx|discriminate]).
  destruct (median_witness_in S S obj NE (fun x H => H)) as [W1 W2].
  pose proof (split_progress S obj _ W1 W2 NEQ) as [PA PB]. cbn zeta in PA, PB.
  unfold splitA. set (m2 := median2 _) in *. cbv zeta.
  assert (X : forall f, negb (gt_med m2 obj f) && lt_med m2 obj f = negb (gt_med m2 obj f || negb (lt_med m2 obj f))).
  { intro f. rewrite negb_orb, negb_involutive. reflexivity. }
  rewrite (filter_ext _ _ X).
  pose proof (filter_length_split (fun f => gt_med m2 obj f || negb (lt_med m2 obj f)) S) as TA.
  pose proof (filter_length_split (fun f => gt_med m2 obj f) S) as TB.
  match goal with |- (if ?c then _ else _) = _ -> _ => destruct c eqn:C end; intro E; inversion E; subst; clear E.
  - apply Z.leb_le in C. specialize (PA C). unfold zlen in PA. lia.
  - apply Z.leb_gt in C. specialize (PB C). unfold zlen in PB. lia.
Qed.

Lemma splitB_smaller L H obj b1 b2 w1 w2 :
  L <> [] -> H <> [] -> (exists x y, In x (L ++ H) /\ In y (L ++ H) /\ item x obj <> item y obj) ->
  splitB L H obj = (b1, b2, w1, w2) ->
  (length b1 + length w1 < length L + length H)%nat /\ (length b2 + length w2 < length L + length H)%nat /\
  (length b1 <= length L)%nat /\ (length w2 <= length H)%nat.
Proof.
  intros NL NH NEQ.
  set (X := if zlen L >? zlen H then L else H).
  assert (NX : X <> []) by (unfold X; destruct (zlen L >? zlen H); assumption).
  assert (SX : forall x, In x X -> In x (L ++ H)).
  { intros x Hx. apply in_or_app. unfold X in Hx. destruct (zlen L >? zlen H); auto. }
  destruct (median_witness_in X (L ++ H) obj NX SX) as [W1 W2].
  pose proof (split_progress (L ++ H) obj _ W1 W2 NEQ) as [PA PB]. cbn zeta in PA, PB.
  unfold splitB. fold X. set (m2 := median2 _) in *. cbv zeta.
  assert (XE : forall f, negb (gt_med m2 obj f) && lt_med m2 obj f = negb (gt_med m2 obj f || negb (lt_med m2 obj f))).
  { intro f. rewrite negb_orb, negb_involutive. reflexivity. }
  rewrite !(filter_ext _ _ XE).
  rewrite !zlen_filter_app in PA, PB.
  pose proof (filter_length_split (fun f => gt_med m2 obj f || negb (lt_med m2 obj f)) L) as TA1.
  pose proof (filter_length_split (fun f => gt_med m2 obj f || negb (lt_med m2 obj f)) H) as TA2.
  pose proof (filter_length_split (fun f => gt_med m2 obj f) L) as TB1.
  pose proof (filter_length_split (fun f => gt_med m2 obj f) H) as TB2.
  match goal with |- (if ?c then _ else _) = _ -> _ => destruct c eqn:C end; intro E; inversion E; subst; clear E.
  - apply Z.leb_le in C. unfold zlen in *.
    assert (PA' : 0 < Z.of_nat (length (filter (fun f => gt_med m2 obj f || negb (lt_med m2 obj f)) L)) +
                      Z.of_nat (length (filter (fun f => gt_med m2 obj f || negb (lt_med m2 obj f)) H)) /\
                  0 < Z.of_nat (length (filter (fun f => negb (gt_med m2 obj f || negb (lt_med m2 obj f))) L)) +
                      Z.of_nat (length (filter (fun f => negb (gt_med m2 obj f || negb (lt_med m2 obj f))) H))).
    { apply PA. lia. }
    lia.
  - apply Z.leb_gt in C. unfold zlen in *.
    assert (PB' : 0 < Z.of_nat (length (filter (fun f => gt_med m2 obj f) L)) +
                      Z.of_nat (length (filter (fun f => gt_med m2 obj f) H)) /\
                  0 < Z.of_nat (length (filter (fun f => negb (gt_med m2 obj f)) L)) +
                      Z.of_nat (length (filter (fun f => negb (gt_med m2 obj f)) H))).
    { apply PB. lia. }
    lia.
Qed.

(* ---- totality of the two helpers ---- *)
Theorem helperB_total : forall fuel m L H fr,
  (length L + length H + m < fuel)%nat -> (1 <= m)%nat ->
  exists fr', helperB fuel L H (Z.of_nat m) fr = Some fr'.
Proof.
  induction fuel as [|fu IH]; intros m L H fr F M1; [lia|]. cbn [helperB].
  destruct ((zlen H =? 0) || (zlen L =? 0)) eqn:C0; [eexists; reflexivity|].
  destruct ((zlen L =? 1) || (zlen H =? 1)) eqn:C1; [eexists; reflexivity|].
  destruct (Z.eqb_spec (Z.of_nat m) 1) as [M|M]; [eexists; reflexivity|].
  destruct m as [|m']; [lia|]. assert (M2 : (1 <= m')%nat) by lia.
  replace (Z.of_nat (S m') - 1) with (Z.of_nat m') by lia.
  assert (NEL : L <> []). { intro; subst. cbn in C0. rewrite orb_true_r in C0. discriminate. }
  assert (NEH : H <> []). { intro; subst. cbn in C0. discriminate. }
  set (key := fun f => item f (Z.of_nat (S m'))).
  destruct (py_min_spec key L [] NEL) as [MnL1 _]. destruct (py_max_spec key H [] NEH) as [MxH1 _].
  destruct (Z.geb_spec (item (py_min key L []) (Z.of_nat (S m'))) (item (py_max key H []) (Z.of_nat (S m')))) as [G1|G1].
  { apply IH; lia. }
  destruct (item (py_max key L []) (Z.of_nat (S m')) >=? item (py_min key H []) (Z.of_nat (S m'))); [|eexists; reflexivity].
  destruct (splitB L H (Z.of_nat (S m'))) as [[[b1 b2] w1] w2] eqn:SP.
  destruct (splitB_smaller L H (Z.of_nat (S m')) b1 b2 w1 w2 NEL NEH) as [Z1 [Z2 [Z3 Z4]]]; [|exact SP|].
  { exists (py_min key L []), (py_max key H []). split; [apply in_or_app; left; assumption|].
    split; [apply in_or_app; right; assumption|]. lia. }
  destruct (IH (S m') b1 w1 fr) as [f1 E1]; [lia|lia|]. rewrite E1.
  destruct (IH m' b1 w2 f1) as [f2 E2]; [lia|lia|]. rewrite E2.
  apply IH; lia.
Qed.

Lemma all_eq_distinct l v : l <> [] -> (forall x, In x l -> x = v) -> distinct l = [v].
Proof.
  induction l as [|a l IH]; intros NE H; [congruence|]. cbn [distinct].
  destruct l as [|b r].
  - cbn. rewrite (H a (or_introl eq_refl)). reflexivity.
  - assert (existsb (Z.eqb a) (b :: r) = true) as ->.
    { apply existsb_exists. exists b. split; [left; reflexivity|]. apply Z.eqb_eq.
      rewrite (H a (or_introl eq_refl)), (H b (or_intror (or_introl eq_refl))). reflexivity. }
    apply IH; [discriminate|]. intros x Hx. apply H. right; assumption.
Qed.

Lemma distinct_not_one l : l <> [] -> zlen (distinct l) <> 1 -> exists x y, In x l /\ In y l /\ x <> y.
Proof.
  intros NE N. destruct l as [|v r]; [congruence|].
  destruct (forallb (Z.eqb v) (v :: r)) eqn:A.
  - exfalso. apply N. rewrite (all_eq_distinct (v :: r) v); [reflexivity|discriminate|].
    intros x Hx. rewrite forallb_forall in A. specialize (A x Hx). apply Z.eqb_eq in A. congruence.
  - assert (exists x, In x (v :: r) /\ Z.eqb v x = false) as [x [Hx E]].
    { clear - A. induction (v :: r) as [|a l IH]; [discriminate|]. cbn in A. destruct (Z.eqb v a) eqn:E.
      - destruct (IH A) as [x [Hx Ex]]. exists x. split; [right; assumption|assumption].
      - exists a. split; [left; reflexivity|assumption]. }
    exists v, x. split; [left; reflexivity|split; [assumption|]]. apply Z.eqb_neq. assumption.
Qed.

Theorem helperA_total : forall fuel m S fr,
  (length S + m < fuel)%nat -> (1 <= m)%nat ->
  exists fr', helperA fuel S (Z.of_nat m) fr = Some fr'.
Proof.
  induction fuel as [|fu IH]; intros m S fr F M1; [lia|]. cbn [helperA].
  destruct (Z.ltb_spec (zlen S) 2) as [C0|C0]; [eexists; reflexivity|].
  destruct (Z.eqb_spec (zlen S) 2) as [C1|C1].
  { destruct S as [|s1 [|s2 [|s3 S']]]; try (unfold zlen in C1; cbn in C1; lia).
    destruct (is_dominated _ _); eexists; reflexivity. }
  destruct (Z.eqb_spec (Z.of_nat m) 1) as [M|M]; [eexists; reflexivity|].
  destruct m as [|m']; [lia|]. assert (M2 : (1 <= m')%nat) by lia.
  replace (Z.of_nat (Datatypes.S m') - 1) with (Z.of_nat m') by lia.
  destruct (Z.eqb_spec (zlen (distinct (map (fun f => item f (Z.of_nat (Datatypes.S m'))) S))) 1) as [AE|AE].
  { apply IH; lia. }
  assert (NE : S <> []) by (intro; subst; unfold zlen in C0; cbn in C0; lia).
  assert (NEQ : exists x y, In x S /\ In y S /\ item x (Z.of_nat (Datatypes.S m')) <> item y (Z.of_nat (Datatypes.S m'))).
  { destruct (distinct_not_one (map (fun f => item f (Z.of_nat (Datatypes.S m'))) S)) as [a [b [Ha [Hb N]]]].
    - destruct S; [congruence|discriminate].
    - assumption.
    - apply in_map_iff in Ha. destruct Ha as [x [Ex Hx]]. apply in_map_iff in Hb. destruct Hb as [y [Ey Hy]].
      exists x, y. split; [assumption|split; [assumption|congruence]]. }
  destruct (splitA S (Z.of_nat (Datatypes.S m'))) as [best worst] eqn:SP.
  destruct (splitA_smaller S (Z.of_nat (Datatypes.S m')) best worst NEQ SP) as [Z1 Z2].
  assert (TOT : (length best + length worst = length S)%nat).
  { destruct (splitA_spec S _ best worst SP) as [hi [-> [-> _]]]. apply filter_length_split. }
  destruct (IH (Datatypes.S m') best fr) as [f1 E1]; [lia|lia|]. rewrite E1.
  destruct (helperB_total fu m' best worst f1) as [f2 E2]; [lia|lia|]. rewrite E2.
  apply IH; lia.
Qed.

Theorem log_ranks_total pop :
  pop <> [] -> (forall x, In x pop -> (2 <= length (iw x))%nat) ->
  exists sorted front, log_ranks pop = Some (sorted, front).
Proof.
  intros NE L2. unfold log_ranks. destruct pop as [|x0 pop'] eqn:EP; [congruence|]. rewrite <- EP.
  assert (ML : (2 <= length (iw x0))%nat) by (apply L2; left; reflexivity).
  set (m := (length (iw x0) - 1)%nat).
  replace (zlen (iw x0) - 1) with (Z.of_nat m) by (unfold zlen, m; lia).
  set (sorted := sort_desc (kkeys (group_inds pop))).
  destruct (helperA_total (log_fuel (length sorted) (Z.of_nat m)) m sorted
                          (map (fun f => (f, 0)) (kkeys (group_inds pop)))) as [fr E].
  - unfold log_fuel. rewrite Nat2Z.id. lia.
  - unfold m. lia.
  - rewrite E. eexists; eexists; reflexivity.
Qed.
